-------------------------------- MODULE C12 --------------------------------
(* C12 - a context keeps its own state: persistent, isolated, usable after errors.       *)
(*   ContextModel.tla : the state machine and its model-checked properties.              *)
(*   Enum  (S->C)     : TLC enumerates every history of exactly L events over NC         *)
(*                      contexts (every shorter history is a prefix of one of them and   *)
(*                      is probed step by step); -simulate draws long random histories.  *)
(*   Trace (C->S)     : total trace specification over the ndjson traces the driver      *)
(*                      recorded: every event is replayed through ContextModel!RunEvent, *)
(*                      the whole projected state of every context is compared after     *)
(*                      every step; a mismatch records clause + index, adopts the        *)
(*                      observed state and keeps going.                                  *)
EXTENDS ContextModel, Json, IOUtils

\* ---------------- alphabets ---------------------------------------------------------------------
\* the core alphabet drops the events that the per-step probe already performs (get, read), three of the
\* five built-in targets, the nested limit error and the re-entrant eval
CoreKinds == {"defvar", "deffun", "assign", "delete", "mut_objproto", "mut_arrproto",
              "throw", "loop", "recurse", "syntax", "ieval", "newfn", "set"}
\* family R (re-declaration of names that may exist): "redecl" is the base catalogue plus every re-declaration form;
\* "redecl1" is the sub-alphabet of everything that defines, re-declares or reads g and f, for longer histories on
\* one context
Redecl1Kinds == {"defvar", "deffun", "assign", "set", "throw", "ieval", "read", "newfn"} \cup RedeclKinds
\* family I (isolation of the whole built-in object graph): the history works on one inventory target
InvCoreKinds == {"inv_mut", "inv_del", "inv_throw"}
\* families T / K / V (ContextModel: TextKinds, KeptKinds, CarryKinds): the history works on the global h
AlphabetName == IF "ALPHABET" \in DOMAIN IOEnv THEN IOEnv.ALPHABET ELSE "full"
Alphabet == CASE AlphabetName = "core" -> CoreKinds
              [] AlphabetName = "redecl" -> BaseKinds \cup RedeclKinds
              [] AlphabetName = "redecl1" -> Redecl1Kinds
              [] AlphabetName = "inv" -> InvCoreKinds
              [] AlphabetName = "invfull" -> InvKinds
              [] AlphabetName = "text" -> TextKinds
              [] AlphabetName = "kept" -> KeptKinds
              [] AlphabetName = "carry" -> CarryKinds
              [] OTHER -> BaseKinds

\* ---------------- the inventory of the built-in object graph (family I) ---------------------------
\* The driver reports, for a fresh context, every global name and, for each access path <root> x <via>, whether
\* the path designates an object that keeps a property written to it (ok = 1; one scratch context per path).
\* Roots are the names found in the context at run time (lit = 0) and a few literal forms (lit = 1, via gpo only).
\*   self  <root>                           proto <root>.prototype
\*   gpo   Object.getPrototypeOf(<root>)    inst  Object.getPrototypeOf(new <root>())
\*   mem   an existing member <root>.<mem> is overwritten / deleted (ord = its position among the root's keys)
\*   pmem  the same for <root>.prototype.<mem>
\* The marker of every other via is a new property `zq`.  The specification decides which paths are targets.
Vias == {"self", "proto", "gpo", "inst", "mem", "pmem"}
\* (family T, below: paths from an object made from text; lit = 2)
FreshVias == {"tself", "tproto", "tnest", "telem", "tmem"}
ChainVias == {"tgpo", "tpgpo"}
TextVias == FreshVias \cup ChainVias
Inventory == IF "INV_FILE" \in DOMAIN IOEnv THEN ndJsonDeserialize(IOEnv.INV_FILE) ELSE <<>>
InvSub == IF "INV_SUB" \in DOMAIN IOEnv THEN IOEnv.INV_SUB ELSE "all"
IsMember(rec) == rec.via \in {"mem", "pmem"}
InvTargets == {j \in 1..Len(Inventory) :
                 /\ Inventory[j].ok = 1 /\ Inventory[j].via \in Vias
                 /\ (InvSub = "all" \/ ~IsMember(Inventory[j]) \/ Inventory[j].ord = 1)}   \* quick: first member of every root
\* vacuity guard (machinery, not a verdict on the engine): the discovery found the object graph
MustRoots == {"Object", "Array", "Math", "JSON", "Function", "Error", "String", "Number"}
InvWellFormed ==
  /\ \A j \in 1..Len(Inventory) : /\ Inventory[j].ok \in {0, 1} /\ Inventory[j].lit \in {0, 1, 2}
                                   /\ Inventory[j].via \in (IF Inventory[j].lit = 2 THEN TextVias ELSE Vias)
  /\ \A r \in MustRoots : \E j \in InvTargets : Inventory[j].root = r /\ Inventory[j].via = "self" /\ Inventory[j].lit = 0
  /\ \A v \in Vias : \E j \in InvTargets : Inventory[j].via = v
  /\ \E j \in InvTargets : Inventory[j].lit = 1
  /\ Cardinality(InvTargets) >= 30
IsInvAlphabet == AlphabetName \in {"inv", "invfull"}

\* ---------------- family T: objects made at run time from text ------------------------------------
\* The discovery also reports, for every way of making an object from text (root = the name of the form, lit = 2) and
\* every path from the made object h, whether the path keeps a marker (same test as above, on one scratch context):
\*   tself h            tproto h.prototype        tnest h.a        telem h[0]       tmem h.lastIndex (an existing member)
\*   tgpo  Object.getPrototypeOf(h)              tpgpo Object.getPrototypeOf(h.prototype)
\* The first five designate the made object or an object made with it: a new creation starts pristine (tx_make).  The
\* last two designate an intrinsic of the context reached through the prototype chain of the made object (tx_makei):
\* prototype-chain isolation - the chain of an object made in one context never leads into another context.
RegexForms == {"ieval_regex", "new_regexp", "call_regexp", "literal_regex", "function_result_regex"}
\* (an existing member as the marker is used for the regex forms only, whose objects keep no new property; on the other
\*  objects h.lastIndex is just another new property)
TextTargets == {j \in 1..Len(Inventory) : /\ Inventory[j].ok = 1 /\ Inventory[j].via \in TextVias
                                          /\ Inventory[j].via = "tmem" => Inventory[j].root \in RegexForms}
\* every way of creating code or objects from text must be in the space, each with a path on the made object and (except
\* for the regex forms, whose objects keep no new property) a path into the intrinsics
MustForms == {"new_function", "call_function", "ieval_function", "ieval_array", "ieval_object", "ieval_regex",
              "new_regexp", "call_regexp", "json_object", "json_array", "function_result_object", "function_result_function",
              "literal_function", "literal_object", "literal_array", "literal_regex"}
TextWellFormed ==
  /\ \A fm \in MustForms : /\ \E j \in TextTargets : Inventory[j].root = fm /\ Inventory[j].via \in FreshVias
                           /\ fm \notin RegexForms => \E j \in TextTargets : Inventory[j].root = fm /\ Inventory[j].via \in ChainVias
  /\ \A v \in TextVias : \E j \in TextTargets : Inventory[j].via = v
  /\ \A j \in TextTargets : Inventory[j].lit = 2

\* ---------------- family K: bindings kept alive by closures -----------------------------------------
\* kind of binding x route by which the program that makes it reaches the engine x route of the later program that
\* creates a binding of the same kind (top = the eval text itself, ieval = text given to indirect eval, newfn = body of
\* a Function that is called)
KeptBindingKinds == <<"catch", "catch_in_function", "function_own_name", "arguments", "local", "parameter",
                      "bound_argument", "bound_this">>
Routes == <<"top", "ieval", "newfn">>
\* x whose text the programs are: "own" = every program of a history is a text of its own (the value it binds is a literal
\* in it), "same" = the making program and every later program of the history are ONE source text, given to the engine
\* again and again (the value bound and whether the closure is kept are read from two host-set globals): whatever the
\* engine remembers about a text it has seen (parsed / compiled programs, names made at compile time) is in the space
TextModes == <<"own", "same">>
KeptForms == [n \in 1..(Len(KeptBindingKinds) * 18) |->
                [kb |-> KeptBindingKinds[((n - 1) \div 18) + 1], mk |-> Routes[(((n - 1) % 9) \div 3) + 1],
                 ot |-> Routes[((n - 1) % 3) + 1], tx |-> TextModes[(((n - 1) % 18) \div 9) + 1], cls |-> ""]]
\* quick: every kind of binding with both programs at top level, and every pair of routes for the catch parameter
KeptQuick == {n \in 1..Len(KeptForms) : (KeptForms[n].mk = "top" /\ KeptForms[n].ot = "top") \/ KeptForms[n].kb = "catch"}

\* ---------------- family V: values made by one eval and used by later ones ------------------------------
\* carrier x use; cls: "native" = the carrier is a native method value (a built-in method read from a value and kept)
ArrayCallbackMethods == <<"forEach", "map", "filter", "reduce", "reduceRight", "some", "every", "find", "findIndex", "sort">>
\* a RegExp made by one eval and handed to the matcher by a later one - no script callback is involved, the built-in does
\* its own work (and polls the clock) on behalf of the eval that is running.  consumer (every built-in that runs the
\* matcher) x route by which the regex reaches it x how the regex was made.  cls: "regex_direct" = the regex is the receiver
\* or a direct argument of a method call in the text of the later eval; "regex_indirect" = it reaches the matcher any other
\* way (the built-in was detached from the regex / the string, the regex sits in the argument array of apply, was bound
\* earlier, or the built-in runs as the callback of another built-in)
RegexCarriers == <<"regex", "regex_new">>              \* a literal / made by the RegExp constructor
RegexUses == << [use |-> "rx_test", cls |-> "regex_direct"], [use |-> "rx_exec", cls |-> "regex_direct"],
                [use |-> "rx_match", cls |-> "regex_direct"], [use |-> "rx_search", cls |-> "regex_direct"],
                [use |-> "rx_replace", cls |-> "regex_direct"], [use |-> "rx_replaceAll", cls |-> "regex_direct"],
                [use |-> "rx_split", cls |-> "regex_direct"], [use |-> "rx_call_test", cls |-> "regex_direct"],
                [use |-> "rx_apply_test", cls |-> "regex_direct"],
                [use |-> "rx_detached_test", cls |-> "regex_indirect"], [use |-> "rx_detached_exec", cls |-> "regex_indirect"],
                [use |-> "rx_detached_split", cls |-> "regex_indirect"], [use |-> "rx_apply_split", cls |-> "regex_indirect"],
                [use |-> "rx_bind_split", cls |-> "regex_indirect"], [use |-> "rx_apply_replace", cls |-> "regex_indirect"],
                [use |-> "rx_callback_test", cls |-> "regex_indirect"] >>
RegexCarryForms == [n \in 1..(Len(RegexCarriers) * Len(RegexUses)) |->
                      [cr |-> RegexCarriers[((n - 1) \div Len(RegexUses)) + 1], use |-> RegexUses[((n - 1) % Len(RegexUses)) + 1].use,
                       cls |-> RegexUses[((n - 1) % Len(RegexUses)) + 1].cls]]
CarryForms ==
  [n \in 1..Len(ArrayCallbackMethods) |-> [cr |-> "array", use |-> ArrayCallbackMethods[n], cls |-> "object"]] \o
  << [cr |-> "function", use |-> "call_direct", cls |-> "script"],
     [cr |-> "function", use |-> "dot_call", cls |-> "script"],
     [cr |-> "function", use |-> "dot_apply", cls |-> "script"],
     [cr |-> "closure", use |-> "call_direct", cls |-> "script"],
     [cr |-> "arrow", use |-> "call_direct", cls |-> "script"],
     [cr |-> "bound_function", use |-> "call_direct", cls |-> "script"],
     [cr |-> "regex", use |-> "replace", cls |-> "object"],
     [cr |-> "regex", use |-> "replaceAll", cls |-> "object"],
     [cr |-> "accessor_literal", use |-> "get", cls |-> "object"],
     [cr |-> "accessor_defined", use |-> "get", cls |-> "object"],
     [cr |-> "accessor_defined", use |-> "set", cls |-> "object"],
     [cr |-> "object_method", use |-> "call_method", cls |-> "object"],
     [cr |-> "object_tostring", use |-> "concat", cls |-> "object"],
     [cr |-> "native_array_forEach", use |-> "call_direct", cls |-> "native"],
     [cr |-> "native_array_sort", use |-> "call_direct", cls |-> "native"],
     [cr |-> "native_string_replace", use |-> "call_regex", cls |-> "native"],
     [cr |-> "native_function_call", use |-> "call_null", cls |-> "native"],
     [cr |-> "native_function_apply", use |-> "apply_null", cls |-> "native"] >> \o RegexCarryForms
\* quick: every carrier and every use, but only four of the array's callback methods (the others differ in nothing the
\* model distinguishes; GridLaw below keeps the sub-grid honest)
\* ... and every consumer and route of a carried regex for the literal, one of each class for the constructed one
CarryQuick == {n \in 1..Len(CarryForms) : /\ CarryForms[n].cr # "array" \/ CarryForms[n].use \in {"forEach", "map", "reduce", "sort"}
                                          /\ CarryForms[n].cr # "regex_new" \/ CarryForms[n].use \in {"rx_split", "rx_detached_test"}}
\* the quick sub-grids contain every class of every dimension of the full grids
GridLaw ==
  /\ {KeptForms[n].kb : n \in KeptQuick} = {KeptForms[n].kb : n \in 1..Len(KeptForms)}
  /\ {KeptForms[n].mk : n \in KeptQuick} = {KeptForms[n].mk : n \in 1..Len(KeptForms)}
  /\ {KeptForms[n].ot : n \in KeptQuick} = {KeptForms[n].ot : n \in 1..Len(KeptForms)}
  /\ {KeptForms[n].tx : n \in KeptQuick} = {KeptForms[n].tx : n \in 1..Len(KeptForms)}
  /\ \A r1 \in 1..3, r2 \in 1..3, t \in 1..2 : \E n \in KeptQuick : KeptForms[n].mk = Routes[r1] /\ KeptForms[n].ot = Routes[r2]
                                                                     /\ KeptForms[n].tx = TextModes[t]
  /\ {CarryForms[n].cr : n \in CarryQuick} = {CarryForms[n].cr : n \in 1..Len(CarryForms)}
  /\ {CarryForms[n].use : n \in CarryQuick} \cup {ArrayCallbackMethods[n] : n \in 1..Len(ArrayCallbackMethods)}
       = {CarryForms[n].use : n \in 1..Len(CarryForms)}
  /\ {CarryForms[n].cls : n \in CarryQuick} = {CarryForms[n].cls : n \in 1..Len(CarryForms)}
  /\ \A cr \in {RegexCarriers[n] : n \in 1..Len(RegexCarriers)}, cl \in {"regex_direct", "regex_indirect"} :
        \E n \in CarryQuick : CarryForms[n].cr = cr /\ CarryForms[n].cls = cl
ASSUME GridLaw

\* the parameters of a history besides its events: the target / form it works on (0 = none) and whether the
\* contexts other than the first actor's are created only after the first event has run
\* bb ("back to back"): 0 = every context is probed after every event - each probe is itself an evaluation that ends
\* normally on the context; 1 = the events of the history follow one another with NO evaluation in between (outcome and
\* result of every event are judged, the projection of every context is probed once, after the last event): what an eval
\* that ended in an error left inside the context's machinery meets the very next program
BBName == IF "BB" \in DOMAIN IOEnv THEN IOEnv.BB ELSE "0"
BBs == CASE BBName = "both" -> {0, 1} [] BBName = "1" -> {1} [] OTHER -> {0}
\* quick: back to back for the forms with both programs at top level (every kind of binding, both text modes)
KeptBB(j, b) == b = 0 \/ InvSub = "all" \/ (KeptForms[j].mk = "top" /\ KeptForms[j].ot = "top")
FamSpace == CASE IsInvAlphabet -> {[tj |-> j, late |-> b, bb |-> 0] : j \in InvTargets, b \in {0, 1}}
              [] AlphabetName = "text" -> {[tj |-> j, late |-> b, bb |-> 0] : j \in TextTargets, b \in {0, 1}}
              [] AlphabetName = "kept" -> {fm \in {[tj |-> j, late |-> 0, bb |-> b] : j \in IF InvSub = "all" THEN 1..Len(KeptForms) ELSE KeptQuick,
                                                                                    b \in BBs} : KeptBB(fm.tj, fm.bb)}
              [] AlphabetName = "carry" -> {[tj |-> j, late |-> 0, bb |-> b] : j \in IF InvSub = "all" THEN 1..Len(CarryForms) ELSE CarryQuick,
                                                                               b \in BBs}
              [] OTHER -> {[tj |-> 0, late |-> 0, bb |-> b] : b \in BBs}
\* which kinds a history may use besides the alphabet: a path on the made object / into the intrinsics (family T)
FamAllows(kd, fm) == /\ kd = "tx_make" => Inventory[fm.tj].via \in FreshVias
                     /\ kd = "tx_makei" => Inventory[fm.tj].via \in ChainVias
\* the class of the target / form, echoed in the trace (Trace: which creation kind applies, which deviation may apply)
FamClass(fm) == CASE AlphabetName = "text" -> IF Inventory[fm.tj].via \in FreshVias THEN "fresh" ELSE "chain"
                  [] AlphabetName = "carry" -> CarryForms[fm.tj].cls
                  [] OTHER -> ""
\* virtual time that passes between two evals of a history (ticks): more than any context's time limit
Gap == 2000
ModelNames == {"g", "f", "h", "r"}      \* r: the flag of the cv_catch program (a global of its own, not projected)

VARIABLES hist,     \* Enum: the history so far, a sequence of [c, k]
          fam,      \* Enum: the parameters of the history [tj, late]
          tid,      \* Trace: index of the trace being validated
          tl,       \* Trace: next event
          tok,      \* Trace: no mismatch so far
          twhy,     \* Trace: first mismatch [at, clause, c, exp]
          tdevs,    \* Trace: named deviations (known findings) that explained an observation
          tdat,     \* Trace: index of the first event a deviation explained
          tpois     \* Trace: see Dev_StaleNativeInterpreter (c)
vars == <<cmvars, hist, fam, tid, tl, tok, twhy, tdevs, tdat, tpois>>
NoWhy == [at |-> 0, clause |-> "", c |-> 0, exp |-> <<>>]
\* the limits of the contexts are part of the specification: the driver reads them from this line
ASSUME PrintT(ToJson([limits |-> [c \in 1..3 |-> LimitsOf(c)], gap |-> Gap, names |-> ModelNames,
                      work |-> [lo |-> POLL + 50, hi |-> WORKMAX - 50],
                      forms |-> CASE AlphabetName = "kept" -> KeptForms [] AlphabetName = "carry" -> CarryForms [] OTHER -> <<>>]))
ASSUME AlphabetName = "text" => PrintT(ToJson([inv_ok |-> TextWellFormed, inv_n |-> Cardinality(TextTargets),
                                               inv_len |-> Len(Inventory)]))
ASSUME IsInvAlphabet => PrintT(ToJson([inv_ok |-> InvWellFormed, inv_n |-> Cardinality(InvTargets),
                                       inv_len |-> Len(Inventory)]))

\* ---------------- Enum --------------------------------------------------------------------------
\* the value written by event number n is n: every write of a history is distinguishable
EnumInit == /\ ctx = [c \in Ctxs |-> NewCtx(LimitsOf(c))] /\ twin = <<>> /\ pc = Idle
            /\ evn = 0 /\ actor = 0 /\ last = "none"
            /\ hist = <<>> /\ fam \in FamSpace /\ tid = 0 /\ tl = 0 /\ tok = TRUE /\ twhy = NoWhy /\ tdevs = {} /\ tdat = 0 /\ tpois = {}
EnumExtend == /\ evn < MAXN
              /\ \E c \in Ctxs : \E kd \in Alphabet :
                   /\ Guard(kd, ctx[c]) /\ (AlphabetName = "text" => FamAllows(kd, fam))
                   /\ ctx' = [ctx EXCEPT ![c] = RunEvent(ctx[c], kd, evn + 1).st]
                   /\ evn' = evn + 1 /\ actor' = c
                   /\ hist' = Append(hist, [c |-> c, k |-> kd])
                   /\ UNCHANGED <<twin, pc, last, fam, tid, tl, tok, twhy, tdevs, tdat, tpois>>
\* a complete history is printed exactly once and not extended.  (No CONSTRAINT is used for this: TLC's
\* simulator retries for ever when every successor of a state violates a constraint.)
\* NOVEL = 1 (quick tier): the histories over the base catalogue alone are enumerated by the "full" run already, the
\* re-declaration runs print only the histories that contain a re-declaration
\* (family K: a history without kb_make never has a closure to disturb - the probe reads 0 throughout)
Novel == ("NOVEL" \notin DOMAIN IOEnv) \/ IOEnv.NOVEL # "1"
         \/ \E n \in 1..Len(hist) : hist[n].k \in RedeclKinds \cup {"kb_make"}
EnumFinish == /\ evn = MAXN /\ tl = 0
              /\ Novel => PrintT(ToJson([h |-> hist, tj |-> fam.tj, late |-> fam.late, bb |-> fam.bb, cls |-> FamClass(fam)]))
              /\ tl' = 1
              /\ UNCHANGED <<cmvars, hist, fam, tid, tok, twhy, tdevs, tdat, tpois>>
EnumNext == EnumExtend \/ EnumFinish

\* ---------------- Trace -------------------------------------------------------------------------
\* one line per history: [tid, nc, tj, cls, ev: <<[c, k, x, o, r, w, np, pr: <<projection of ctx 1, ...>>]>>]
\* (np = 1: a back-to-back history, no context was probed after this event - pr is empty; outcome and result are judged,
\*  the model state goes on as predicted and is compared with the probe after the last event)
\* (tj >= 1: the history worked on an inventory target / a form; the model does not care which one.  cls: the class of
\*  the target or form as the specification printed it: "fresh" / "chain" (family T), CarryForms[..].cls (family V), else "".
\*  w: interpreter steps the event took, judged for cv_work only)
Traces == ndJsonDeserialize(IOEnv.OBS_FILE)
PtrIx == 7 + NT
ExtraIx == 8 + NT

\* named deviations (known findings, DESIGN 2.3): the as-is rule of the engine, exactly where it applies.
\* Dev_ReentrantPointer: Context.eval ends with `self._current_vm = None` instead of restoring the pointer of the
\*   evaluation that is still running, so after a re-entrant eval the outer evaluation reports "pointer not set"
\*   (result 0 of the reenter snippet).  State effects are as specified.
\* Dev_StaleNativeInterpreter: a native method value (`[1,2,3].forEach`, `'abc'.replace`, `f.call`, read in one eval and
\*   kept in a global) is a closure over the interpreter of the eval that read it and runs script callbacks on that dead
\*   interpreter.  As-is rule, for histories whose carrier is such a value (cls = "native") and only there:
\*   (a) a throw from the callback does not see the try/catch of the eval that is running: cv_catch / cv_catchfn end in
\*       JSError; (b) the callback's instructions are polled against the dead eval's deadline, which has passed (Gap): the
\*       one poll of cv_work raises TimeLimitError; in both cases the state effects are as specified (the dead interpreter
\*       shares the context's globals); (c) after cv_mem the dead interpreter keeps the call stack the memory-limit error
\*       left, so every later use of the same value (until it is made again) ends in MemoryLimitError before the callback
\*       runs: no effect at all.
\* Dev_StaleRegexDeadline: the clock poll of a RegExp object watches the deadline of one particular evaluation - the one
\*   that made it, or the last one that had it as the receiver or a direct argument of a method call (VM._call_method re-arms
\*   it).  A regex kept in a global that reaches the matcher any other way in a later eval (cls = "regex_indirect") is
\*   polled against a deadline that has passed (Gap): the built-in raises TimeLimitError at once - before the interpreter's
\*   own first clock poll (w < POLL), with the declaration of g committed and nothing else.
StaleRegex(ev, cls) == cls = "regex_indirect" /\ ev.k \in CarryUseKinds /\ ev.o = "timelimit" /\ ev.w < POLL
Poisoned(ev, cls, pois) == cls = "native" /\ ev.k \in CarryUseKinds /\ ev.c \in pois /\ ev.o = "memlimit"
Deviation(ev, pred, cls, pois) ==
  IF ev.k = "reenter" /\ ev.o = "value" /\ pred.r = 1 /\ ev.r = 0 THEN "Dev_ReentrantPointer"
  ELSE IF StaleRegex(ev, cls) THEN "Dev_StaleRegexDeadline"
  ELSE IF Poisoned(ev, cls, pois) THEN "Dev_StaleNativeInterpreter"
  ELSE IF cls = "native" /\ ev.k \in {"cv_catch", "cv_catchfn"} /\ ev.o = "jserror" THEN "Dev_StaleNativeInterpreter"
  ELSE IF cls = "native" /\ ev.k = "cv_work" /\ ev.o = "timelimit" /\ pred.os = {"value"} THEN "Dev_StaleNativeInterpreter"
  ELSE ""
\* the prediction under the as-is rule of the deviation that applies (the specified one when none does)
AsIs(ev, pred, cls, pois, cs) ==
  IF StaleRegex(ev, cls) THEN [st |-> RunEvent(cs, "redecl", ev.x).st, os |-> {"timelimit"}, r |-> DontCare]
  ELSE IF Poisoned(ev, cls, pois) THEN [st |-> cs, os |-> {"memlimit"}, r |-> DontCare]
  ELSE IF Deviation(ev, pred, cls, pois) = "Dev_StaleNativeInterpreter" THEN [st |-> pred.st, os |-> {ev.o}, r |-> DontCare]
  ELSE pred

\* first failing clause of one event, or "" : pre = model state before, pred = RunEvent's prediction (or the as-is one)
Clause(ev, pre, pred, nc, dev) ==
  LET post(c) == IF c = ev.c THEN pred.st ELSE pre[c]
      bad(c)  == ev.pr[c] # Observe(post(c))
  IN IF ev.o \notin pred.os THEN [clause |-> "outcome", c |-> ev.c]
     ELSE IF pred.r # DontCare /\ ev.r # pred.r /\ dev = "" THEN [clause |-> "result", c |-> ev.c]
     ELSE IF ev.np = 1 THEN [clause |-> "", c |-> 0]
     ELSE IF \E c \in 1..nc : ev.pr[c][PtrIx] # 1
          THEN [clause |-> "pointer", c |-> CHOOSE c \in 1..nc : ev.pr[c][PtrIx] # 1]
     ELSE IF \E c \in 1..nc : ev.pr[c][ExtraIx] # 0
          THEN [clause |-> "leak", c |-> CHOOSE c \in 1..nc : ev.pr[c][ExtraIx] # 0]
     ELSE IF \E c \in 1..nc : c # ev.c /\ bad(c)
          THEN [clause |-> "frame", c |-> CHOOSE c \in 1..nc : c # ev.c /\ bad(c)]
     ELSE IF bad(ev.c) THEN [clause |-> "state", c |-> ev.c]
     ELSE [clause |-> "", c |-> 0]

TraceInit == /\ tid \in 1..Len(Traces)
             /\ ctx = [c \in 1..Traces[tid].nc |-> NewCtx(LimitsOf(c))]
             /\ twin = <<>> /\ pc = Idle /\ evn = 0 /\ actor = 0 /\ last = "none" /\ hist = <<>>
             /\ fam = [tj |-> 0, late |-> 0, bb |-> 0]
             /\ tl = 1 /\ tok = TRUE /\ twhy = NoWhy /\ tdevs = {} /\ tdat = 0 /\ tpois = {}
TraceNext ==
  /\ tl <= Len(Traces[tid].ev)
  /\ LET tr == Traces[tid]
         ev == tr.ev[tl]
         enabled == /\ ev.k \in Kinds /\ ev.c \in 1..tr.nc /\ Guard(ev.k, ctx[ev.c])
                    /\ (ev.k \in InvKinds \cup TextKinds \cup KeptKinds \cup CarryKinds => tr.tj >= 1)
                    /\ (ev.k = "tx_make" => tr.cls = "fresh") /\ (ev.k = "tx_makei" => tr.cls = "chain")
                    \* cv_work that came back with a value: the calibrated work must lie inside the window the model assumes
                    /\ (ev.k = "cv_work" /\ ev.o = "value" => ev.w > POLL /\ ev.w < WORKMAX)
                    /\ ev.np \in {0, 1} /\ (ev.np = 1 => tl < Len(tr.ev)) /\ (ev.np = 0 => Len(ev.pr) = tr.nc)
     IN IF ~enabled
        THEN \* the model cannot take this event at all: the generator left the specification (machinery)
             /\ tok' = FALSE
             /\ twhy' = IF tok THEN [at |-> tl, clause |-> "unsupported", c |-> ev.c, exp |-> <<>>] ELSE twhy
             /\ ctx' = IF Len(ev.pr) = tr.nc THEN [c \in 1..tr.nc |-> Adopt(ctx[c], ev.pr[c])] ELSE ctx
             /\ UNCHANGED <<evn, actor, last, tdevs, tdat, tpois>>
        ELSE LET spec == RunEvent(ctx[ev.c], ev.k, ev.x)
                 clS == Clause(ev, ctx, spec, tr.nc, "")
                 \* a deviation is consulted only when the observation is not what the specification demands, and it
                 \* explains the event only if the WHOLE observation is what its as-is rule predicts
                 dv0 == Deviation(ev, spec, tr.cls, tpois)
                 predA == AsIs(ev, spec, tr.cls, tpois, ctx[ev.c])
                 clA == Clause(ev, ctx, predA, tr.nc, dv0)
                 \* (back to back nothing but the outcome is observed: a time-limit error before the first clock poll of
                 \*  an eval that was to end in a time-limit error anyway is the as-is rule's, with ITS state)
                 useDev == (clS.clause # "" \/ (ev.np = 1 /\ StaleRegex(ev, tr.cls))) /\ dv0 # "" /\ clA.clause = ""
                 dv == IF useDev THEN dv0 ELSE ""
                 pred == IF useDev THEN predA ELSE spec
                 cl == IF useDev THEN clA ELSE clS
                 good == cl.clause = ""
             IN /\ ctx' = IF good \/ ev.np = 1 THEN [ctx EXCEPT ![ev.c] = pred.st]     \* (nothing observed to resync with)
                          ELSE [c \in 1..tr.nc |-> Adopt(ctx[c], ev.pr[c])]       \* resync, keep going
                /\ tok' = (tok /\ good)
                /\ twhy' = IF tok /\ ~good
                           THEN [at |-> tl, clause |-> cl.clause, c |-> cl.c,
                                 exp |-> Observe(IF cl.c = ev.c THEN pred.st ELSE ctx[cl.c])]
                           ELSE twhy
                /\ tdevs' = IF dv # "" THEN tdevs \cup {dv} ELSE tdevs
                /\ tdat' = IF dv # "" /\ tdat = 0 THEN tl ELSE tdat
                \* contexts whose carried value was last used by an eval that died of the memory limit inside the callback
                /\ tpois' = IF ev.k = "cv_make" THEN tpois \ {ev.c}
                            ELSE IF ev.k = "cv_mem" /\ ev.o = "memlimit" THEN tpois \cup {ev.c} ELSE tpois
                /\ evn' = evn + 1 /\ actor' = ev.c /\ last' = ev.o
  /\ tl' = tl + 1
  /\ UNCHANGED <<twin, pc, hist, fam, tid>>
\* CONSTRAINT: a fully consumed trace prints its verdict
TraceEmit == tl <= Len(Traces[tid].ev)
             \/ PrintT(ToJson([tid |-> Traces[tid].tid, ok |-> tok, n |-> tl - 1, why |-> twhy,
                                devs |-> IF tdevs = {} THEN "" ELSE CHOOSE d \in tdevs : TRUE, devat |-> tdat]))
\* invariants evaluated on every state of every observed execution
TraceTypeOK ==
  \A c \in DOMAIN ctx : /\ \A nm \in Names : ctx[c].globals[nm].k \in {"absent", "undef", "num", "fn"}
                        /\ \A j \in 1..NT : ctx[c].touched[j] \in Nat /\ ctx[c].inv \in Nat /\ ctx[c].made \in {0, 1}
                        /\ ~ctx[c].ptr /\ ctx[c].depth = 0 /\ ctx[c].limits = LimitsOf(c)
=============================================================================
