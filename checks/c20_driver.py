"""C20 drivers (run inside the engine child).

history_driver: replays one history of exec / test / read / lastIndex assignments on a fresh RegExp and
  records, after EVERY step, what the step returned and what `lastIndex` reads as.
strmethod_driver: one (pattern, flags) group of string-method calls with a regex argument.
The drivers only record; spec/C20.tla judges."""
from harness import wire
from harness.drivers import wire_to_py, CLASSIFY_JS


def match_obs(m, idx):
    """raw engine values of exec's result and of result.index -> observation"""
    w = wire.to_wire(m)
    if w["k"] == "null":
        return {"k": "null"}
    wi = wire.to_wire(idx)
    if w["k"] != "arr" or wi["k"] != "num":
        return {"k": "bad", "t": w["k"]}
    x = wire.words_dbl(wi["w"])
    if x != int(x):
        return {"k": "bad", "t": "index"}
    g = []
    for e in w["e"]:
        if e["k"] == "undef":
            g.append([-1])
        elif e["k"] == "str":
            g.append(e["u"])
        else:
            return {"k": "bad", "t": "group:" + e["k"]}
    return {"k": "m", "i": int(x), "g": g}


def outcome_tag(out):
    if out["o"] == "value":
        return "ok", ""
    if out["o"] == "host":
        return "host", str(out.get("type"))
    if out["o"] == "jserror":
        return "jserror", str(out.get("name"))
    return out["o"], ""


STEP_JS = {
    "exec": "var r = R.exec(S); __out('exec', r, r === null ? 0 : r.index); __out('li', R.lastIndex);",
    "test": "var r = R.test(S); __out('test', r); __out('li', R.lastIndex);",
    "read": "__out('read', R.lastIndex); __out('li', R.lastIndex);",
}


def li_wire(v):
    w = wire.to_wire(v)
    if w["k"] == "num":
        w["f"] = isinstance(v, float)           # representation inside the engine (an integer-valued float is still the number)
    return w


def history_driver(case, api):
    """fast path: the whole history in one evaluation; if that does not complete (host exception), replay it step by step"""
    ctx = api.new_context(time_limit=60.0)
    got = []
    ctx.set("__out", lambda *a: (got.append(a), None)[1])
    ctx.set("P", wire.from_units(case["src"]))
    ctx.set("F", case["flags"])
    ctx.set("S", wire.from_units(case["s"]))
    for k, v in enumerate(case["vals"]):
        if v is not None and v["k"] != "undef":
            ctx.set("V%d" % k, wire_to_py(v, intrep=bool(case.get("intrep"))))
    src = "var R = new RegExp(P, F);"
    for k in case["ops"]:
        src += " __out('step'); " + (STEP_JS.get(case["names"][k]) or ("R.lastIndex = V%d; __out('li', R.lastIndex);" % k))
    out = api.eval_outcome(ctx, src, wall=30.0, cap=5_000_000)
    if out["o"] != "value":
        return history_slow(case, api)
    obs, cur = [], None
    for g in got:
        if g[0] == "step":
            cur = {"out": "ok", "ty": "", "res": {"k": "none"}, "li": None}
            obs.append(cur)
        else:
            absorb(cur, g)
    if len(obs) != len(case["ops"]) or any(o["li"] is None for o in obs):
        return history_slow(case, api)
    return {"id": case["id"], "obs": obs}


def absorb(cur, g):
    if g[0] == "exec":
        cur["res"] = match_obs(g[1], g[2])
    elif g[0] == "test":
        w = wire.to_wire(g[1])
        cur["res"] = {"k": "bool", "b": w["b"]} if w["k"] == "bool" else {"k": "bad", "t": w["k"]}
    elif g[0] == "read":
        cur["res"] = {"k": "val", "v": wire.to_wire(g[1])}
    elif g[0] == "li":
        cur["li"] = li_wire(g[1])


def history_slow(case, api):
    ctx = api.new_context(time_limit=60.0)
    got = []
    ctx.set("__out", lambda *a: (got.append(a), None)[1])
    ctx.set("P", wire.from_units(case["src"]))
    ctx.set("F", case["flags"])
    ctx.set("S", wire.from_units(case["s"]))
    for k, v in enumerate(case["vals"]):
        if v is not None and v["k"] != "undef":
            ctx.set("V%d" % k, wire_to_py(v, intrep=bool(case.get("intrep"))))
    out = api.eval_outcome(ctx, "var R = new RegExp(P, F);", wall=30.0)
    if out["o"] != "value":
        tag, ty = outcome_tag(out)
        return {"id": case["id"], "obs": [], "setup": tag + ":" + ty}
    obs = []
    for k in case["ops"]:
        name = case["names"][k]
        src = STEP_JS.get(name) or ("R.lastIndex = V%d; __out('li', R.lastIndex);" % k)
        del got[:]
        out = api.eval_outcome(ctx, src, wall=30.0, cap=2_000_000)
        tag, ty = outcome_tag(out)
        cur = {"res": {"k": "none"}, "li": None}
        for g in got:
            absorb(cur, g)
        res, li = cur["res"], cur["li"]
        if tag != "ok":
            res = {"k": "none"}
        if li is None:
            # the step did not complete: read lastIndex in a separate evaluation (the context must still be usable)
            del got[:]
            out2 = api.eval_outcome(ctx, "__out('li', R.lastIndex);", wall=30.0)
            li = li_wire(got[0][1]) if out2["o"] == "value" and got else {"k": "hostval", "t": "unreadable"}
        obs.append({"out": tag, "ty": ty, "res": res, "li": li})
    return {"id": case["id"], "obs": obs}


FNS = ("var fnConst = function () { return '#'; };"
       "var fnDollar = function () { return '$&'; };"
       "var fnArgs = function (a, b, c, d, e) { return '<' + a + '|' + b + '|' + c + '|' + d + '|' + e + '>'; };")


def strmethod_driver(group, api):
    """group = {id, src, flags, cases:[{id, s, li0, var}]} -> list of {id, out}"""
    ctx = api.new_context(time_limit=60.0)
    got = []
    ctx.set("__out", lambda *a: (got.append(a), None)[1])
    ctx.set("P", wire.from_units(group["src"]))
    ctx.set("F", group["flags"])
    out = api.eval_outcome(ctx, CLASSIFY_JS + FNS + "var R = new RegExp(P, F);", wall=30.0)
    results = []
    if out["o"] != "value":
        tag, ty = outcome_tag(out)
        return [{"id": c["id"], "out": {"o": "setup", "ty": tag + ":" + ty, "at": ""}} for c in group["cases"]]
    for c in group["cases"]:
        var = c["var"]
        ctx.set("S", wire.from_units(c["s"]))
        ctx.set("L", c["li0"])
        m = var["m"]
        if "fn" in var:
            arg = ", " + var["fn"]
        elif "t" in var:
            ctx.set("A", wire.from_units(var["t"]))
            arg = ", A"
        elif "lim" in var and var["lim"] >= 0:
            ctx.set("A", var["lim"])
            arg = ", A"
        else:
            arg = ""
        pre = "R.exec(S); " if c.get("pre") == "exec" else ""
        src = ("R = new RegExp(P, F); R.lastIndex = L; " + pre + "__out('li1', R.lastIndex); try { var r = S.%s(R%s);"
               " __out('v', r, (r !== null && typeof r === 'object' && r.index !== undefined) ? r.index : -1, R.lastIndex); }"
               " catch (e) { __out('t', __cls(e)); }") % (m, arg)
        del got[:]
        out = api.eval_outcome(ctx, src, wall=30.0, cap=5_000_000)
        li1 = c["li0"]
        if got and got[0][0] == "li1":
            w1 = wire.to_wire(got[0][1])
            li1 = int(wire.words_dbl(w1["w"])) if w1["k"] == "num" and wire.words_dbl(w1["w"]) == int(wire.words_dbl(w1["w"])) else -99
            del got[0]
        if out["o"] != "value":
            tag, ty = outcome_tag(out)
            o = {"o": tag, "ty": ty, "at": str(out.get("where", ""))}
        elif len(got) != 1:
            o = {"o": "noresult", "ty": "", "at": ""}
        elif got[0][0] == "t":
            o = {"o": "throw", "cls": str(got[0][1])}
        else:
            wi = wire.to_wire(got[0][2])
            idx = int(wire.words_dbl(wi["w"])) if wi["k"] == "num" and wire.words_dbl(wi["w"]) == int(wire.words_dbl(wi["w"])) else -2
            o = {"o": "value", "v": wire.to_wire(got[0][1]), "idx": idx, "li": wire.to_wire(got[0][3])}
        results.append({"id": c["id"], "out": o, "li1": li1})
    return results
