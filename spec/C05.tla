-------------------------------- MODULE C05 --------------------------------
(* C05 - compiled control flow and closures mean what the source says.                       *)
(*   Families : program families (ASTs) defined here and enumerated by TLC                    *)
(*   Enum     : runs the reference machine MiniJS on every family program, checking the       *)
(*              machine's invariants on every state, and prints the program                   *)
(*   Judge    : re-runs MiniJS on a program next to what the real engine did (log, outcome)   *)
(*              under a given set of named deviations and prints whether they agree           *)
EXTENDS MiniJS, Json, IOUtils

Tier == IF "TIER" \in DOMAIN IOEnv THEN IOEnv.TIER ELSE "quick"
Quick == Tier = "quick"
MaxSteps == 1600

\* ======================= family CF: loop kind x exit kind x enclosing construct x placement =====
N == Var("n")
Plus(a, b) == Bin("+", a, b)
Set(x, e) == SExpr(Asg(x, e))
Inc(x) == Set(x, Plus(Var(x), ENum(1)))
LoopKinds == {"while", "dowhile", "for", "forin", "forof", "switch", "block"}
IsLoop(kd) == kd \in {"while", "dowhile", "for", "forin", "forof"}
ExitKinds == {"none", "break", "continue", "breakL", "continueL", "breakM", "continueM", "return", "returnv", "throw"}
EnclKinds == {"none", "if", "while", "dowhile", "for", "forin", "forof", "switch", "block", "trycatch", "tryfinally", "trycatchfinally"}
\* placement: where the construct sits and how the enclosing call is used
Places == {"top", "cb", "cbmap", "stmt", "left", "right", "arg", "elem", "prop", "cond", "asgsrc", "varinit", "retval"}
InFunction(pl) == pl # "top"

ExitStmt(ex) ==
  CASE ex = "break" -> SBreak("") [] ex = "continue" -> SCont("")
    [] ex = "breakL" -> SBreak("L") [] ex = "continueL" -> SCont("L")
    [] ex = "breakM" -> SBreak("M") [] ex = "continueM" -> SCont("M")
    [] ex = "return" -> SRet(NoE) [] ex = "returnv" -> SRet(ENum(5))
    [] ex = "throw" -> SThrow(ENum(9))
\* the body of the construct under test: counts, logs, leaves early on the trigger round, logs again
Body(ex, trig) ==
  <<Inc("n"), SLog(N)>> \o (IF ex = "none" THEN <<>> ELSE <<SIf(Bin("==", N, ENum(trig)), SBlock(<<ExitStmt(ex)>>), NoS)>>)
  \o <<SLog(Plus(N, ENum(10)))>>
Construct(kd, body) ==
  CASE kd = "while" -> SWhile(Bin("<", N, ENum(3)), SBlock(body))
    [] kd = "dowhile" -> SDo(SBlock(body), Bin("<", N, ENum(3)))
    [] kd = "for" -> SFor(SVar1("i", ENum(0)), Bin("<", Var("i"), ENum(3)), Asg("i", Plus(Var("i"), ENum(1))), SBlock(body))
    [] kd = "forin" -> SForIn(TRUE, "k", Obj(<<"a", "b", "c">>, <<ENum(1), ENum(2), ENum(3)>>), SBlock(body))
    [] kd = "forof" -> SForOf(TRUE, "v", Arr(<<ENum(7), ENum(8), ENum(9)>>), SBlock(body))
    [] kd = "switch" -> SSwitch(ENum(1), <<Case(ENum(0), <<SLog(EStr("c0"))>>), Case(ENum(1), body), Case(ENum(2), <<SLog(EStr("c2"))>>)>>)
    [] kd = "block" -> SBlock(body)
\* the construct, labelled L when the exit names it, preceded by the reset of its counter
Inner(kd, ex) ==
  LET c0 == Construct(kd, Body(ex, IF IsLoop(kd) THEN 2 ELSE 1))
      c1 == IF ex \in {"breakL", "continueL"} \/ kd = "block" THEN SLabel("L", c0) ELSE c0
  IN <<Set("n", ENum(0)), c1, SLog(ENum(3))>>
\* an enclosing construct running `inner` (twice when it is a loop), labelled M when the exit names it
M == Var("m")
EnclBody(inner) == <<Inc("m"), SLog(Plus(M, ENum(100)))>> \o inner \o <<SLog(Plus(M, ENum(200)))>>
Enclose(en, ex, inner) ==
  LET lab(s) == IF ex \in {"breakM", "continueM"} THEN SLabel("M", s) ELSE s IN
  CASE en = "none" -> inner
    [] en = "if" -> <<lab(SIf(Bin("<", M, ENum(1)), SBlock(inner), SBlock(<<SLog(EStr("else"))>>)))>>
    [] en = "while" -> <<lab(SWhile(Bin("<", M, ENum(2)), SBlock(EnclBody(inner))))>>
    [] en = "dowhile" -> <<lab(SDo(SBlock(EnclBody(inner)), Bin("<", M, ENum(2))))>>
    [] en = "for" -> <<lab(SFor(SVar1("j", ENum(0)), Bin("<", Var("j"), ENum(2)), Asg("j", Plus(Var("j"), ENum(1))), SBlock(EnclBody(inner))))>>
    [] en = "forin" -> <<lab(SForIn(TRUE, "q", Obj(<<"x", "y">>, <<ENum(1), ENum(2)>>), SBlock(EnclBody(inner))))>>
    [] en = "forof" -> <<lab(SForOf(TRUE, "w", Arr(<<ENum(4), ENum(5)>>), SBlock(EnclBody(inner))))>>
    [] en = "switch" -> <<lab(SSwitch(ENum(2), <<Case(ENum(1), <<SLog(EStr("s1"))>>), Case(ENum(2), inner), Case(ENum(3), <<SLog(EStr("s3"))>>)>>))>>
    [] en = "block" -> <<lab(SBlock(inner))>>
    [] en = "trycatch" -> <<lab(STry(SBlock(inner), "e", SBlock(<<SLog(EStr("catch")), SLog(Var("e"))>>), NoS))>>
    [] en = "tryfinally" -> <<lab(STry(SBlock(inner), "e", NoS, SBlock(<<SLog(EStr("finally"))>>)))>>
    [] en = "trycatchfinally" -> <<lab(STry(SBlock(inner), "e", SBlock(<<SLog(EStr("catch")), SLog(Var("e"))>>), SBlock(<<SLog(EStr("finally"))>>)))>>
EnclIsLoop(en) == en \in {"while", "dowhile", "for", "forin", "forof"}
\* which combinations are programs of the language (a `break` needs a breakable target, ...)
CFValid(c) ==
  /\ (c.ex = "break" => IsLoop(c.kd) \/ c.kd = "switch" \/ EnclIsLoop(c.en) \/ c.en = "switch")
  /\ (c.ex = "continue" => IsLoop(c.kd) \/ EnclIsLoop(c.en))
  /\ (c.ex = "continueL" => IsLoop(c.kd))
  /\ (c.ex = "breakM" => c.en # "none")
  /\ (c.ex = "continueM" => EnclIsLoop(c.en))
  /\ (c.ex \in {"return", "returnv"} => InFunction(c.pl))
  /\ (c.ex = "return" => c.pl \notin {"left", "right", "arg", "retval"})          \* undefined + 100 is NaN: outside the fragment
  /\ (c.guard => c.ex = "throw")
Core(c) == <<SVar(<<Decl("n", ENum(0)), Decl("m", ENum(0))>>)>> \o Enclose(c.en, c.ex, Inner(c.kd, c.ex)) \o <<SLog(ENum(4))>>
FBody(c) == Core(c) \o <<SRet(ENum(7))>>
F == Var("f")
CallF == Call(F, <<>>)
UseSite(pl) ==
  CASE pl = "stmt" -> <<SExpr(CallF)>>
    [] pl = "left" -> <<SLog(Plus(CallF, ENum(100)))>>
    [] pl = "right" -> <<SLog(Plus(ENum(100), CallF))>>
    [] pl = "arg" -> <<SLog(Call(Var("g"), <<ENum(1), CallF, ENum(2)>>))>>
    [] pl = "elem" -> <<SLog(Mem(Arr(<<ENum(1), CallF, ENum(3)>>), ENum(1)))>>
    [] pl = "prop" -> <<SLog(Dot(Obj(<<"a", "b">>, <<ENum(1), CallF>>), "b"))>>
    [] pl = "cond" -> <<SIf(Bin("==", CallF, ENum(7)), SBlock(<<SLog(EStr("T"))>>), SBlock(<<SLog(EStr("F"))>>))>>
    [] pl = "asgsrc" -> <<SExpr(Asg("x", CallF)), SLog(Var("x"))>>
    [] pl = "varinit" -> <<SVar1("y", CallF), SLog(Var("y"))>>
    [] pl = "retval" -> <<SLog(Call(Fun("", <<>>, <<SRet(Plus(CallF, ENum(1000)))>>), <<>>))>>
    [] pl = "cb" -> <<SExpr(Call(Dot(Arr(<<ENum(1), ENum(2)>>), "forEach"), <<F>>))>>
    [] pl = "cbmap" -> <<SLog(Dot(Call(Dot(Arr(<<ENum(1), ENum(2)>>), "map"), <<F>>), "length"))>>
Guarded(g, ss) == IF g THEN <<STry(SBlock(ss), "e", SBlock(<<SLog(EStr("caught")), SLog(Var("e"))>>), NoS)>> ELSE ss
CFProg(c) ==
  IF c.pl = "top"
  THEN Prog(Guarded(c.guard, Core(c)) \o <<SLog(ENum(50))>>)
  ELSE Prog(<<SVar1("x", ENum(0)),
              SFun("g", <<"a", "b", "c">>, <<SRet(Plus(Plus(Var("a"), Var("b")), Var("c")))>>),
              SFun("f", <<>>, FBody(c))>>
            \o Guarded(c.guard, UseSite(c.pl)) \o <<SLog(ENum(50))>>)

\* quick tier: every pair (construct, exit) x enclosing at the plain call site, every (construct, exit) x placement
\* without enclosing construct, every enclosing x placement for three exits; thorough: the full product
CFAll == [kd : LoopKinds, ex : ExitKinds, en : EnclKinds, pl : Places, guard : BOOLEAN]
CFQuickSel(c) ==
  \/ c.pl = "stmt"
  \/ c.en = "none"
  \/ (c.kd \in {"while", "forin", "switch"} /\ c.ex \in {"break", "returnv", "throw", "continueM"} /\ c.pl \in {"top", "left", "arg", "cb"})
CFCases == {c \in CFAll : CFValid(c) /\ (c.ex = "throw" => (c.guard \/ c.pl \in {"top", "stmt"})) /\ (~Quick \/ CFQuickSel(c))}

\* ======================= family SW: switch fall-through, default anywhere, lazy case tests ========
\* switch (t(d)) { case t(1): log(1) [break]  case t(2): ...  case t(3): ... } with `default` inserted at slot dp
I(n) == ENum(n)
TV(v) == Call(Var("t"), <<I(v)>>)
TVDef == SFun("t", <<"v">>, <<SLog(Plus(I(100), Var("v"))), SRet(Var("v"))>>)
Bit(mask, j) == (mask \div (2 ^ (j - 1))) % 2 = 1
SWClauses(dp) == LET cs == <<1, 2, 3>> IN
                 IF dp = 0 THEN cs ELSE SubSeq(cs, 1, dp - 1) \o <<0>> \o SubSeq(cs, dp, 3)       \* 0 marks default
SWProg(c) ==
  LET cl == SWClauses(c.dp)
      clause(j) == Case(IF cl[j] = 0 THEN NoE ELSE TV(cl[j]),
                        <<SLog(I(IF cl[j] = 0 THEN 9 ELSE cl[j]))>> \o (IF Bit(c.mask, j) THEN <<SBreak("")>> ELSE <<>>))
  IN Prog(<<TVDef, SSwitch(TV(c.d), [j \in 1..Len(cl) |-> clause(j)]), SLog(I(50))>>)
SWCases == {c \in [d : 0..4, dp : 0..4, mask : 0..15] : (c.dp = 0 => c.mask < 8) /\ (~Quick \/ c.mask \in {0, 5, 10, 15, 7})}

\* ======================= family EO: evaluation order (every operand is a logging call) ===============
T(k, v) == Call(Var("t"), <<I(k), v>>)
TDef == SFun("t", <<"k", "v">>, <<SLog(Var("k")), SRet(Var("v"))>>)
GDef == SFun("g", <<"a", "b", "c">>, <<SLog(EStr("g")), SRet(Plus(Plus(Var("a"), Var("b")), Var("c")))>>)
ODef == SVar1("o", Obj(<<"k", "m">>, <<I(5), Fun("", <<"a">>, <<SLog(EStr("m")), SRet(Plus(Var("a"), I(1)))>>)>>))
SDef == SFun("s", <<"v">>, <<Set("x", I(100)), SRet(Var("v"))>>)           \* a call that changes x
BinOps == <<"+", "-", "*", "<", ">", "<=", ">=", "==", "!=", "===", "!==">>
EOBodies ==
  [j \in 1..Len(BinOps) |-> <<SLog(Bin(BinOps[j], T(1, I(2)), T(2, I(3))))>>] \o
  <<
    <<SLog(And(T(1, I(0)), T(2, I(5))))>>, <<SLog(And(T(1, I(1)), T(2, I(5))))>>,
    <<SLog(Or(T(1, I(0)), T(2, I(5))))>>, <<SLog(Or(T(1, I(1)), T(2, I(5))))>>,
    <<SLog(Cond(T(1, EBool(TRUE)), T(2, I(5)), T(3, I(6))))>>, <<SLog(Cond(T(1, EBool(FALSE)), T(2, I(5)), T(3, I(6))))>>,
    <<SLog(Call(T(0, Var("g")), <<T(1, I(1)), T(2, I(2)), T(3, I(3))>>))>>,
    <<SLog(Call(Var("g"), <<T(1, I(1)), Call(Var("g"), <<T(2, I(2)), T(3, I(3)), I(0)>>), T(4, I(4))>>))>>,
    <<SLog(Call(Dot(T(1, Var("o")), "m"), <<T(2, I(1))>>))>>,
    <<SLog(Call(Mem(T(1, Var("o")), T(2, EStr("m"))), <<T(3, I(1))>>))>>,
    <<SLog(Mem(T(1, Var("o")), T(2, EStr("k"))))>>,
    <<SLog(MAsg(Mem(T(1, Var("o")), T(2, EStr("z"))), T(3, I(7)))), SLog(Dot(Var("o"), "z"))>>,
    <<SLog(MAsg(Dot(T(1, Var("o")), "z"), T(2, I(7)))), SLog(Dot(Var("o"), "z"))>>,
    <<SLog(MUpd("++", FALSE, Mem(T(1, Var("o")), T(2, EStr("k"))))), SLog(Dot(Var("o"), "k"))>>,
    <<SLog(MUpd("--", TRUE, Dot(T(1, Var("o")), "k"))), SLog(Dot(Var("o"), "k"))>>,
    <<SLog(Dot(New(T(0, Var("Error")), <<T(1, EStr("msg"))>>), "message"))>>,
    <<SLog(Dot(Arr(<<T(1, I(1)), T(2, I(2)), T(3, I(3))>>), "length"))>>,
    <<SLog(Dot(Obj(<<"a", "b">>, <<T(1, I(1)), T(2, I(2))>>), "b"))>>,
    <<SLog(Comma(<<T(1, I(1)), T(2, I(2))>>))>>,
    <<SVar(<<Decl("a", T(1, I(1))), Decl("b", T(2, I(2)))>>), SLog(Plus(Var("a"), Var("b")))>>,
    <<Set("x", I(1)), SExpr(CAsg("+", "x", Call(Var("s"), <<I(2)>>))), SLog(Var("x"))>>,          \* old value read first: 3
    <<Set("x", I(1)), SLog(Plus(Var("x"), Call(Var("s"), <<I(2)>>)))>>,                            \* 3
    <<Set("x", I(1)), SLog(Plus(Call(Var("s"), <<I(2)>>), Var("x")))>>,                            \* 102
    <<Set("x", I(1)), SLog(Plus(Upd("++", FALSE, "x"), Var("x"))), SLog(Var("x"))>>,               \* 1 + 2
    <<Set("x", I(1)), SLog(Plus(Upd("++", TRUE, "x"), Upd("--", FALSE, "x"))), SLog(Var("x"))>>,   \* 2 + 2, x = 1
    <<Set("x", I(1)), SLog(Bin("-", Var("x"), Asg("x", I(5)))), SLog(Var("x"))>>,                  \* 1 - 5
    <<SVar1("u", NoE), STry(SBlock(<<SExpr(Call(Var("u"), <<T(1, I(1))>>))>>), "e", SBlock(<<SLog(Dot(Var("e"), "name"))>>), NoS)>>,
    <<STry(SBlock(<<SExpr(Call(Var("zz"), <<T(1, I(1))>>))>>), "e", SBlock(<<SLog(Dot(Var("e"), "name"))>>), NoS)>>,
    <<STry(SBlock(<<SExpr(Call(Dot(ENull, "m"), <<T(1, I(1))>>))>>), "e", SBlock(<<SLog(Dot(Var("e"), "name"))>>), NoS)>>,
    <<STry(SBlock(<<SExpr(Mem(ENull, T(1, EStr("k"))))>>), "e", SBlock(<<SLog(Dot(Var("e"), "name"))>>), NoS)>>,
    <<SSwitch(T(1, I(2)), <<Case(T(2, I(1)), <<SLog(EStr("a"))>>), Case(T(3, I(2)), <<SLog(EStr("b"))>>), Case(T(4, I(3)), <<SLog(EStr("c"))>>)>>)>>,
    <<SSwitch(I(1), <<Case(EStr("1"), <<SLog(EStr("s")), SBreak("")>>), Case(I(1), <<SLog(EStr("n")), SBreak("")>>), Case(NoE, <<SLog(EStr("d"))>>)>>)>>,   \* case tests use ===
    <<SSwitch(EStr("2"), <<Case(I(2), <<SLog(EStr("n")), SBreak("")>>), Case(NoE, <<SLog(EStr("d")), SBreak("")>>), Case(EStr("2"), <<SLog(EStr("s"))>>)>>)>>,
    <<SSwitch(ENull, <<Case(EUndef, <<SLog(EStr("u")), SBreak("")>>), Case(ENull, <<SLog(EStr("n"))>>)>>)>>,
    <<SFor(SExpr(T(1, I(0))), Bin("<", T(2, Var("x")), I(2)), T(3, Upd("++", FALSE, "x")), SBlock(<<SLog(EStr("b"))>>))>>,
    <<SForIn(TRUE, "k", T(1, Obj(<<"p", "q">>, <<I(1), I(2)>>)), SBlock(<<SLog(Var("k"))>>))>>,
    <<SDo(SBlock(<<SLog(EStr("b")), Inc("x")>>), Bin("<", T(1, Var("x")), I(2)))>>,
    <<SExpr(Call(Dot(Arr(<<T(1, I(7)), T(2, I(8))>>), "forEach"), <<T(3, Fun("", <<"v", "j">>, <<SLog(Plus(Var("v"), Var("j")))>>))>>))>>
  >>
EOProg(j) == Prog(<<SVar1("x", I(0)), TDef, GDef, SDef, ODef>> \o EOBodies[j] \o <<SLog(I(50))>>)

\* ======================= family HO: hoisting ========================================================
HOBodies == <<
    <<SLog(Var("a")), SVar1("a", I(1)), SLog(Var("a"))>>,                                          \* undefined, 1
    <<SLog(Call(Var("h"), <<>>)), SFun("h", <<>>, <<SRet(I(2))>>)>>,                               \* called before its declaration
    <<SLog(TypeOf(Var("h"))), SLog(TypeOf(Var("a"))), SLog(TypeOf(Var("nope"))), SFun("h", <<>>, <<>>), SVar1("a", I(1))>>,
    <<SFun("w", <<>>, <<SLog(Var("a")), SLog(Call(Var("h"), <<>>)), SVar1("a", I(1)), SFun("h", <<>>, <<SRet(Var("a"))>>), SLog(Call(Var("h"), <<>>))>>),
      SExpr(Call(Var("w"), <<>>))>>,
    <<SFun("w", <<>>, <<SIf(EBool(FALSE), SBlock(<<SVar1("a", I(1))>>), NoS), SLog(Var("a")),
                        SFor(SVar1("b", I(0)), Bin("<", Var("b"), I(1)), Upd("++", FALSE, "b"), SBlock(<<SVar1("c", I(3))>>)), SLog(Plus(Var("b"), Var("c")))>>),
      SExpr(Call(Var("w"), <<>>))>>,
    <<SVar1("a", I(1)), SVar1("a", NoE), SLog(Var("a"))>>,                                         \* re-declaration keeps the value
    <<SFun("w", <<"p">>, <<SVar1("p", NoE), SLog(Var("p")), SVar1("q", I(2)), SVar1("q", NoE), SLog(Var("q"))>>), SExpr(Call(Var("w"), <<I(7)>>))>>,
    <<SFun("w", <<"p">>, <<SLog(TypeOf(Var("p"))), SFun("p", <<>>, <<>>)>>), SExpr(Call(Var("w"), <<I(7)>>))>>,      \* declaration beats parameter
    <<SFun("h", <<>>, <<SRet(I(1))>>), SLog(Call(Var("h"), <<>>)), SFun("h", <<>>, <<SRet(I(2))>>)>>,   \* last declaration wins
    <<SVar1("h", I(1)), SFun("h", <<>>, <<>>), SLog(TypeOf(Var("h")))>>,                           \* "number"
    <<SLog(TypeOf(Var("h"))), SVar1("h", NoE), SFun("h", <<>>, <<>>)>>,                            \* "function"
    <<SFun("w", <<>>, <<SRet(Call(Var("h"), <<>>)), SFun("h", <<>>, <<SRet(I(3))>>)>>), SLog(Call(Var("w"), <<>>))>>,   \* after return
    <<SFun("w", <<>>, <<STry(SBlock(<<SThrow(I(1))>>), "e", SBlock(<<SVar1("a", Var("e"))>>), NoS), SLog(Var("a"))>>), SExpr(Call(Var("w"), <<>>))>>,
    <<SVar1("e", I(1)), STry(SBlock(<<SThrow(I(2))>>), "e", SBlock(<<SLog(Var("e"))>>), NoS), SLog(Var("e"))>>,    \* catch parameter is block scoped
    <<SFun("w", <<>>, <<SVar1("e", I(1)), STry(SBlock(<<SThrow(I(2))>>), "e", SBlock(<<SLog(Var("e"))>>), NoS), SLog(Var("e"))>>), SExpr(Call(Var("w"), <<>>))>>,
    <<SFun("w", <<>>, <<SLog(Call(Var("h1"), <<>>)), SFun("h1", <<>>, <<SRet(Call(Var("h2"), <<>>))>>), SFun("h2", <<>>, <<SRet(I(4))>>)>>), SExpr(Call(Var("w"), <<>>))>>,
    <<SExpr(Asg("a", I(5))), SLog(Var("a")), SVar1("a", NoE), SLog(Var("a"))>>,
    <<SFun("w", <<>>, <<SLog(TypeOf(Var("arguments"))), SLog(Dot(Var("arguments"), "length")), SLog(Mem(Var("arguments"), I(1)))>>), SExpr(Call(Var("w"), <<I(7), I(8), I(9)>>))>>
  >>
HOProg(j) == Prog(HOBodies[j] \o <<SLog(I(50))>>)

\* ======================= family CV: completion value of the script ====================================
W1(b) == SWhile(Bin("<", Var("x"), I(1)), SBlock(<<Inc("x")>> \o b))
CVBodies == <<
    <<SExpr(I(1)), SWhile(EBool(TRUE), SBlock(<<SExpr(I(2)), SBreak("")>>))>>,
    <<SExpr(I(1)), W1(<<SExpr(I(2))>>)>>,
    <<SExpr(I(1)), W1(<<>>)>>,
    <<SExpr(I(1)), SVar1("y", I(2))>>,
    <<SExpr(I(1)), SEmpty>>,
    <<SExpr(I(1)), SIf(EBool(FALSE), SBlock(<<SExpr(I(2))>>), NoS)>>,
    <<SExpr(I(1)), SIf(EBool(TRUE), SBlock(<<SExpr(I(2))>>), NoS)>>,
    <<SExpr(I(1)), SIf(EBool(TRUE), SBlock(<<>>), NoS)>>,
    <<SExpr(I(1)), SIf(EBool(TRUE), SBlock(<<SVar1("y", I(3))>>), SBlock(<<SExpr(I(4))>>))>>,
    <<SExpr(I(1)), SBlock(<<>>)>>,
    <<SExpr(I(1)), SBlock(<<SExpr(I(2)), SVar1("y", I(3))>>)>>,
    <<SExpr(I(1)), SBlock(<<SExpr(I(2)), SBlock(<<>>)>>)>>,
    <<SExpr(I(5)), STry(SBlock(<<SExpr(I(6))>>), "e", NoS, SBlock(<<SExpr(I(7))>>))>>,
    <<SExpr(I(5)), STry(SBlock(<<SThrow(I(6))>>), "e", SBlock(<<SExpr(I(8))>>), NoS)>>,
    <<SExpr(I(5)), STry(SBlock(<<SThrow(I(6))>>), "e", SBlock(<<>>), NoS)>>,
    <<SExpr(I(5)), STry(SBlock(<<>>), "e", SBlock(<<>>), SBlock(<<SExpr(I(7))>>))>>,
    <<SExpr(I(8)), SSwitch(I(1), <<Case(I(1), <<SExpr(I(9))>>), Case(I(2), <<SExpr(I(10))>>)>>)>>,
    <<SExpr(I(8)), SSwitch(I(1), <<Case(I(1), <<SExpr(I(9)), SBreak("")>>), Case(I(2), <<SExpr(I(10))>>)>>)>>,
    <<SExpr(I(8)), SSwitch(I(3), <<Case(I(1), <<SExpr(I(9))>>)>>)>>,
    <<SExpr(I(1)), SDo(SBlock(<<SExpr(I(11)), SBreak("")>>), EBool(FALSE))>>,
    <<SExpr(I(1)), SDo(SBlock(<<SExpr(I(11)), SCont(""), SExpr(I(12))>>), EBool(FALSE))>>,
    <<SExpr(I(1)), SFor(NoS, Bin("<", Var("x"), I(2)), Upd("++", FALSE, "x"), SBlock(<<SExpr(Plus(Var("x"), I(20)))>>))>>,
    <<SExpr(I(1)), SForIn(TRUE, "k", Obj(<<"p", "q">>, <<I(1), I(2)>>), SBlock(<<SExpr(Var("k"))>>))>>,
    <<SExpr(I(1)), SForOf(TRUE, "v", Arr(<<I(30), I(31)>>), SBlock(<<SExpr(Var("v")), SIf(EBool(TRUE), SBlock(<<SBreak("")>>), NoS)>>))>>,
    <<SExpr(I(1)), SLabel("L", SBlock(<<SExpr(I(2)), SBreak("L"), SExpr(I(3))>>))>>,
    <<SExpr(I(1)), SLabel("L", W1(<<SExpr(I(2)), W1(<<SBreak("L")>>)>>))>>,
    <<SExpr(I(1)), SFun("h", <<>>, <<>>)>>,
    <<SExpr(I(1)), SExpr(Asg("x", I(41)))>>,
    <<SVar1("y", I(2))>>,
    <<>>,
    <<SExpr(I(1)), STry(SBlock(<<SExpr(I(2)), SThrow(I(3))>>), "e", SBlock(<<SVar1("y", I(4))>>), NoS)>>,
    <<SExpr(I(1)), SWhile(Bin("<", Var("x"), I(2)), SBlock(<<Inc("x"), SIf(Bin("==", Var("x"), I(1)), SBlock(<<SExpr(I(50))>>), SBlock(<<SVar1("y", I(0))>>))>>))>>
  >>
CVProg(j) == Prog(<<SVar1("x", I(0))>> \o CVBodies[j])

\* ======================= family CL: closures ==============================================================
\* captured variable kind x access x sharing shape
CLKinds == {"param", "local", "loopvar", "catchvar", "fname", "outerparam", "global"}
CLOps == {"read", "write", "update", "compound"}
CLShapes == {"two", "twoact", "loop", "nested", "callback"}
CapName(kd) == CASE kd = "param" -> "p" [] kd = "local" -> "v" [] kd = "loopvar" -> "i" [] kd = "catchvar" -> "v"
                 [] kd = "fname" -> "mk" [] kd = "outerparam" -> "op" [] kd = "global" -> "gv"
\* the closure that observes the captured variable, and the one that changes it
Getter(x) == Fun("", <<>>, <<SRet(Var(x))>>)
Setter(op, x) == CASE op = "write" -> Fun("", <<"a">>, <<Set(x, Var("a"))>>)
                   [] op = "update" -> Fun("", <<"a">>, <<SExpr(Upd("++", FALSE, x))>>)
                   [] op = "compound" -> Fun("", <<"a">>, <<SExpr(CAsg("+", x, Var("a")))>>)
                   [] op = "read" -> Fun("", <<"a">>, <<SRet(Plus(Var(x), Var("a")))>>)
\* mk(p) returns {g: getter, s: setter} over the captured variable
MkBody(kd, op) ==
  LET x == CapName(kd)
      pair == SRet(Obj(<<"g", "s">>, <<Getter(x), Setter(op, x)>>))
  IN CASE kd = "param" -> <<pair>>
       [] kd = "local" -> <<SVar1("v", Plus(Var("p"), I(10))), pair>>
       [] kd = "global" -> <<pair>>
       [] kd = "outerparam" -> <<pair>>
MkDef(kd, op) ==
  IF kd = "outerparam"
  THEN SFun("outer", <<"op">>, <<SFun("mk", <<"p">>, MkBody(kd, op)), SRet(Var("mk"))>>)
  ELSE SFun("mk", <<"p">>, MkBody(kd, op))
Use(o, arg) == <<SLog(Call(Dot(Var(o), "g"), <<>>)), SLog(Call(Dot(Var(o), "s"), <<I(arg)>>)), SLog(Call(Dot(Var(o), "g"), <<>>))>>
CLPairProg(kd, op) ==
  Prog(<<SVar1("gv", I(1)), MkDef(kd, op)>>
       \o (IF kd = "outerparam" THEN <<SVar1("mk", Call(Var("outer"), <<I(3)>>))>> ELSE <<>>)
       \o <<SVar1("a", Call(Var("mk"), <<I(1)>>)), SVar1("b", Call(Var("mk"), <<I(2)>>))>>
       \o Use("a", 5) \o Use("b", 7) \o Use("a", 1) \o <<SLog(Var("gv"))>>)
\* closures created in a loop / in a callback / nested pass-through / named function expression / arguments
CLOther == <<
    \* var-scoped loop variable: every closure sees the final value
    <<SFun("w", <<>>, <<SVar1("fs", Arr(<<>>)),
                        SFor(SVar1("i", I(0)), Bin("<", Var("i"), I(3)), Upd("++", FALSE, "i"), SBlock(<<SExpr(Call(Dot(Var("fs"), "push"), <<Getter("i")>>))>>)),
                        SRet(Var("fs"))>>),
      SVar1("fs", Call(Var("w"), <<>>)), SLog(Call(Mem(Var("fs"), I(0)), <<>>)), SLog(Call(Mem(Var("fs"), I(2)), <<>>))>>,
    \* per-iteration activation: each closure has its own parameter
    <<SFun("w", <<>>, <<SVar1("fs", Arr(<<>>)),
                        SFor(SVar1("i", I(0)), Bin("<", Var("i"), I(3)), Upd("++", FALSE, "i"),
                             SBlock(<<SExpr(Call(Dot(Var("fs"), "push"), <<Call(Fun("", <<"q">>, <<SRet(Getter("q"))>>), <<Var("i")>>)>>))>>)),
                        SRet(Var("fs"))>>),
      SVar1("fs", Call(Var("w"), <<>>)), SLog(Call(Mem(Var("fs"), I(0)), <<>>)), SLog(Call(Mem(Var("fs"), I(2)), <<>>))>>,
    \* for-in loop variable captured inside a function
    <<SFun("w", <<>>, <<SVar1("fs", Arr(<<>>)),
                        SForIn(TRUE, "k", Obj(<<"p", "q">>, <<I(1), I(2)>>), SBlock(<<SExpr(Call(Dot(Var("fs"), "push"), <<Getter("k")>>))>>)),
                        SLog(Var("k")), SRet(Var("fs"))>>),
      SVar1("fs", Call(Var("w"), <<>>)), SLog(Call(Mem(Var("fs"), I(0)), <<>>)), SLog(Call(Mem(Var("fs"), I(1)), <<>>))>>,
    \* for-of loop variable captured inside a function
    <<SFun("w", <<>>, <<SVar1("fs", Arr(<<>>)),
                        SForOf(TRUE, "k", Arr(<<I(7), I(8)>>), SBlock(<<SExpr(Call(Dot(Var("fs"), "push"), <<Getter("k")>>))>>)),
                        SLog(Var("k")), SRet(Var("fs"))>>),
      SVar1("fs", Call(Var("w"), <<>>)), SLog(Call(Mem(Var("fs"), I(0)), <<>>)), SLog(Call(Mem(Var("fs"), I(1)), <<>>))>>,
    \* closures created by a callback of forEach capture the callback's parameter and the outer local
    <<SFun("w", <<>>, <<SVar(<<Decl("fs", Arr(<<>>)), Decl("sum", I(0))>>),
                        SExpr(Call(Dot(Arr(<<I(1), I(2), I(3)>>), "forEach"),
                                   <<Fun("", <<"q">>, <<Set("sum", Plus(Var("sum"), Var("q"))),
                                                      SExpr(Call(Dot(Var("fs"), "push"), <<Fun("", <<>>, <<SRet(Plus(Var("q"), Var("sum")))>>)>>))>>)>>)),
                        SRet(Var("fs"))>>),
      SVar1("fs", Call(Var("w"), <<>>)), SLog(Call(Mem(Var("fs"), I(0)), <<>>)), SLog(Call(Mem(Var("fs"), I(2)), <<>>))>>,
    \* pass-through: the innermost function reaches the outermost parameter and local through a middle function
    <<SFun("o1", <<"p">>, <<SVar1("v", I(10)),
                            SRet(Fun("", <<"q">>, <<SRet(Fun("", <<"r">>, <<Set("v", Plus(Var("v"), I(1))), SRet(Plus(Plus(Plus(Var("p"), Var("q")), Var("r")), Var("v")))>>))>>))>>),
      SVar1("m1", Call(Var("o1"), <<I(100)>>)), SVar1("i1", Call(Var("m1"), <<I(20)>>)), SVar1("i2", Call(Var("m1"), <<I(30)>>)),
      SLog(Call(Var("i1"), <<I(1)>>)), SLog(Call(Var("i2"), <<I(2)>>)), SLog(Call(Var("i1"), <<I(3)>>))>>,
    \* named function expression: recursion through its own name, name not visible outside, captured by an inner closure
    <<SVar1("fa", Fun("fact", <<"n">>, <<SRet(Cond(Bin("<=", Var("n"), I(1)), I(1), Bin("*", Var("n"), Call(Var("fact"), <<Bin("-", Var("n"), I(1))>>))))>>)),
      SLog(Call(Var("fa"), <<I(4)>>)), SLog(TypeOf(Var("fact")))>>,
    <<SVar1("fa", Fun("self", <<>>, <<SRet(Fun("", <<>>, <<SRet(Bin("===", Var("self"), Var("fa")))>>))>>)),
      SLog(Call(Call(Var("fa"), <<>>), <<>>)), SVar1("fb", Var("fa")), Set("fa", I(0)), SLog(TypeOf(Call(Var("fb"), <<>>)))>>,
    \* arguments: per activation, captured by value in a local
    <<SFun("w", <<"p">>, <<SVar1("a", Var("arguments")), SRet(Fun("", <<>>, <<SRet(Plus(Mem(Var("a"), I(1)), Dot(Var("arguments"), "length")))>>))>>),
      SVar1("c1", Call(Var("w"), <<I(1), I(2)>>)), SVar1("c2", Call(Var("w"), <<I(3), I(4), I(5)>>)),
      SLog(Call(Var("c1"), <<>>)), SLog(Call(Var("c2"), <<I(9)>>))>>,
    \* recursion: each activation has its own locals
    <<SFun("r", <<"n">>, <<SVar1("v", Var("n")), SIf(Bin(">", Var("n"), I(0)), SBlock(<<SExpr(Call(Var("r"), <<Bin("-", Var("n"), I(1))>>))>>), NoS), SLog(Var("v"))>>),
      SExpr(Call(Var("r"), <<I(2)>>))>>,
    \* a closure assigned before the captured variable is initialised sees later writes
    <<SFun("w", <<>>, <<SVar1("get", Getter("late")), SVar1("late", I(5)), SLog(Call(Var("get"), <<>>)), Set("late", I(6)), SRet(Var("get"))>>),
      SLog(Call(Call(Var("w"), <<>>), <<>>))>>,
    \* catch parameter captured by a closure
    <<SFun("w", <<>>, <<SVar1("get", NoE), STry(SBlock(<<SThrow(I(7))>>), "e", SBlock(<<Set("get", Getter("e"))>>), NoS), SRet(Var("get"))>>),
      SLog(Call(Call(Var("w"), <<>>), <<>>))>>,
    \* function declaration captured by a sibling closure; counter shared between two declarations
    <<SFun("w", <<>>, <<SVar1("c", I(0)), SFun("inc", <<>>, <<Inc("c"), SRet(Var("c"))>>), SFun("twice", <<>>, <<SExpr(Call(Var("inc"), <<>>)), SRet(Call(Var("inc"), <<>>))>>),
                        SRet(Var("twice"))>>),
      SVar1("t1", Call(Var("w"), <<>>)), SLog(Call(Var("t1"), <<>>)), SLog(Call(Var("t1"), <<>>)), SLog(Call(Call(Var("w"), <<>>), <<>>))>>,
    \* arrow functions capture like functions
    <<SFun("w", <<"p">>, <<SVar1("v", I(1)), SRet(Arrow(<<"q">>, <<Set("v", Plus(Var("v"), Var("q"))), SRet(Plus(Var("v"), Var("p")))>>))>>),
      SVar1("a1", Call(Var("w"), <<I(10)>>)), SLog(Call(Var("a1"), <<I(1)>>)), SLog(Call(Var("a1"), <<I(2)>>)), SLog(Call(Call(Var("w"), <<I(20)>>), <<I(5)>>))>>
  >>
\* typeof of a name the compiler resolves to a captured local (cell), a variable written through a closure, a captured
\* parameter, an undeclared name, a hoisted function, a variable not yet initialised - in functions and in arrows
FnL(lvl, params, body) == IF lvl = "arrow" THEN Arrow(params, body) ELSE Fun("", params, body)
CLTypeof == <<
    <<SFun("w", <<>>, <<SVar1("x", I(5)), SVar1("g", Getter("x")), SRet(TypeOf(Var("x")))>>), SLog(Call(Var("w"), <<>>))>>,
    <<SFun("w", <<>>, <<SVar1("x", I(5)), SVar1("s", Fun("", <<>>, <<Set("x", EStr("s"))>>)), SLog(TypeOf(Var("x"))), SExpr(Call(Var("s"), <<>>)), SLog(TypeOf(Var("x")))>>),
      SExpr(Call(Var("w"), <<>>))>>,
    <<SFun("w", <<"p">>, <<SVar1("g", Getter("p")), SLog(TypeOf(Var("p"))), SRet(Var("g"))>>),
      SExpr(Call(Var("w"), <<I(1)>>)), SExpr(Call(Var("w"), <<>>)), SExpr(Call(Var("w"), <<EStr("s")>>)), SLog(Call(Call(Var("w"), <<ENull>>), <<>>))>>,
    <<SFun("w", <<>>, <<SVar1("x", I(1)), SVar1("g", Fun("", <<>>, <<SRet(Plus(TypeOf(Var("nope")), TypeOf(Var("x"))))>>)), SLog(TypeOf(Var("nope"))), SLog(Call(Var("g"), <<>>))>>),
      SExpr(Call(Var("w"), <<>>))>>,
    <<SFun("w", <<>>, <<SVar1("g", Fun("", <<>>, <<SRet(TypeOf(Var("h")))>>)), SLog(TypeOf(Var("h"))), SLog(Call(Var("g"), <<>>)), SFun("h", <<>>, <<>>)>>),
      SExpr(Call(Var("w"), <<>>))>>,
    <<SFun("w", <<>>, <<SVar1("g", Fun("", <<>>, <<SRet(TypeOf(Var("late")))>>)), SLog(TypeOf(Var("late"))), SLog(Call(Var("g"), <<>>)),
                        SVar1("late", EBool(TRUE)), SLog(TypeOf(Var("late"))), SLog(Call(Var("g"), <<>>))>>),
      SExpr(Call(Var("w"), <<>>))>>,
    <<SFun("w", <<>>, <<SVar1("x", ENull), SVar1("g", Getter("x")), SLog(TypeOf(Var("x"))), Set("x", Arr(<<I(1)>>)), SLog(TypeOf(Var("x"))),
                        Set("x", Var("g")), SLog(TypeOf(Var("x"))), Set("x", EUndef), SLog(TypeOf(Var("x"))), SLog(TypeOf(Call(Var("g"), <<>>)))>>),
      SExpr(Call(Var("w"), <<>>))>>,
    <<SVar1("w", Arrow(<<>>, <<SVar1("x", I(5)), SVar1("g", Arrow(<<>>, <<SRet(Var("x"))>>)), SRet(TypeOf(Var("x")))>>)), SLog(Call(Var("w"), <<>>))>>,
    <<SVar1("w", Arrow(<<"p">>, <<SVar1("x", I(5)), SVar1("s", Arrow(<<>>, <<Set("x", EStr("s")), Set("p", EBool(TRUE))>>)), SLog(Plus(TypeOf(Var("x")), TypeOf(Var("p")))),
                                  SExpr(Call(Var("s"), <<>>)), SLog(Plus(TypeOf(Var("x")), TypeOf(Var("p"))))>>)), SExpr(Call(Var("w"), <<I(1)>>))>>,
    <<SFun("w", <<>>, <<SVar1("x", I(1)), SVar1("g", Arrow(<<>>, <<SRet(TypeOf(Var("x")))>>)), Set("x", EStr("s")), SRet(Call(Var("g"), <<>>))>>), SLog(Call(Var("w"), <<>>))>>,
    <<SFun("w", <<>>, <<SVar1("x", I(1)), SRet(Fun("", <<>>, <<SRet(Arrow(<<>>, <<SRet(TypeOf(Var("x")))>>))>>))>>), SLog(Call(Call(Call(Var("w"), <<>>), <<>>), <<>>))>>,
    <<SFun("w", <<>>, <<SVar1("g", NoE), SForIn(TRUE, "k", Obj(<<"a">>, <<I(1)>>), SBlock(<<Set("g", Getter("k"))>>)), SLog(TypeOf(Var("k"))), SLog(Call(Var("g"), <<>>))>>),
      SExpr(Call(Var("w"), <<>>))>>
  >>
CLCases == {[k |-> "pair", kd |-> kd, op |-> op] : kd \in {"param", "local", "global", "outerparam"}, op \in CLOps}
           \cup {[k |-> "other", j |-> j] : j \in 1..Len(CLOther)}
           \cup {[k |-> "typeof", j |-> j] : j \in 1..Len(CLTypeof)}
CLProg(c) == IF c.k = "pair" THEN CLPairProg(c.kd, c.op)
             ELSE IF c.k = "typeof" THEN Prog(CLTypeof[c.j] \o <<SLog(I(50))>>)
             ELSE Prog(CLOther[c.j] \o <<SLog(I(50))>>)

\* ======================= family CH: where a closure is created (statement heads and bodies) ==============
\* creation site x captured kind x access x level.  The function f (a function, or an arrow with arrow closures) has the
\* statement under test; the closure(s) are made by the expression E = (g = closure) or (g = closure, h = closure):
\*   rw  : g reads the variable after the outer code wrote it;   wr : g writes, the outer code reads;
\*   inc : g and h both ++ the variable, the outer code reads it
CHHeads == {"ifcond", "whilecond", "docond", "forinit", "forvarinit", "fortest", "forupd", "forinrhs", "forofrhs", "swdisc", "swcase", "ret", "throw"}
CHBodies == {"varinit", "exprstmt", "ifbody", "elsebody", "whilebody", "dobody", "forbody", "forinbody", "forofbody", "swbody", "labelbody",
             "trybody", "catchbody", "finbody"}
CHKinds == {"param", "local", "outer"}
CHAccs == {"rw", "wr", "inc"}
CHLvls == {"fn", "arrow"}
CHX(kd) == CASE kd = "param" -> "p" [] kd = "local" -> "v" [] kd = "outer" -> "u"
CHMake(lvl, acc, x) ==
  CASE acc = "rw" -> Asg("g", FnL(lvl, <<>>, <<SRet(Var(x))>>))
    [] acc = "wr" -> Asg("g", FnL(lvl, <<"a">>, <<Set(x, Var("a"))>>))
    [] acc = "inc" -> Comma(<<Asg("g", FnL(lvl, <<>>, <<SRet(Upd("++", TRUE, x))>>)), Asg("h", FnL(lvl, <<>>, <<SRet(Upd("++", FALSE, x))>>))>>)
CHAfter(acc, x) ==
  CASE acc = "rw" -> <<Set(x, Plus(Var(x), I(10))), SLog(Call(Var("g"), <<>>))>>
    [] acc = "wr" -> <<SExpr(Call(Var("g"), <<I(7)>>)), SLog(Var(x))>>
    [] acc = "inc" -> <<SLog(Call(Var("g"), <<>>)), SLog(Call(Var("h"), <<>>)), SLog(Var(x))>>
CLt1 == Bin("<", Var("c"), I(1))
CHStmt(site, E) ==
  CASE site = "ifcond" -> <<SIf(E, SBlock(<<SLog(I(1))>>), NoS)>>
    [] site = "whilecond" -> <<SWhile(And(CLt1, E), SBlock(<<Inc("c")>>))>>
    [] site = "docond" -> <<SDo(SBlock(<<Inc("c")>>), And(E, CLt1))>>
    [] site = "forinit" -> <<SFor(SExpr(E), CLt1, Upd("++", FALSE, "c"), SBlock(<<SLog(I(1))>>))>>
    [] site = "forvarinit" -> <<SFor(SVar1("t", E), CLt1, Upd("++", FALSE, "c"), SBlock(<<SLog(I(1))>>))>>
    [] site = "fortest" -> <<SFor(NoS, And(CLt1, E), Upd("++", FALSE, "c"), SBlock(<<SLog(I(1))>>))>>
    [] site = "forupd" -> <<SFor(NoS, CLt1, E, SBlock(<<Inc("c")>>))>>
    [] site = "forinrhs" -> <<SForIn(TRUE, "k", Obj(<<"a">>, <<E>>), SBlock(<<SLog(Var("k"))>>))>>
    [] site = "forofrhs" -> <<SForOf(TRUE, "k", Arr(<<E>>), SBlock(<<SLog(TypeOf(Var("k")))>>))>>
    [] site = "swdisc" -> <<SSwitch(E, <<Case(I(1), <<SLog(I(1))>>), Case(NoE, <<SLog(I(2))>>)>>)>>
    [] site = "swcase" -> <<SSwitch(I(1), <<Case(E, <<SLog(I(1)), SBreak("")>>), Case(I(1), <<SLog(I(2))>>)>>)>>
    [] site = "throw" -> <<STry(SBlock(<<SThrow(E)>>), "e", SBlock(<<SLog(TypeOf(Var("e")))>>), NoS)>>
    [] site = "varinit" -> <<SVar1("t", E)>>
    [] site = "exprstmt" -> <<SExpr(E)>>
    [] site = "ifbody" -> <<SIf(CLt1, SBlock(<<SExpr(E)>>), NoS)>>
    [] site = "elsebody" -> <<SIf(Bin("<", Var("c"), I(0)), SBlock(<<SLog(I(1))>>), SBlock(<<SExpr(E)>>))>>
    [] site = "whilebody" -> <<SWhile(CLt1, SBlock(<<Inc("c"), SExpr(E)>>))>>
    [] site = "dobody" -> <<SDo(SBlock(<<Inc("c"), SExpr(E)>>), CLt1)>>
    [] site = "forbody" -> <<SFor(SVar1("i", I(0)), Bin("<", Var("i"), I(1)), Upd("++", FALSE, "i"), SBlock(<<SExpr(E)>>))>>
    [] site = "forinbody" -> <<SForIn(TRUE, "k", Obj(<<"a">>, <<I(1)>>), SBlock(<<SExpr(E)>>))>>
    [] site = "forofbody" -> <<SForOf(TRUE, "k", Arr(<<I(1)>>), SBlock(<<SExpr(E)>>))>>
    [] site = "swbody" -> <<SSwitch(I(1), <<Case(I(0), <<SLog(I(1))>>), Case(I(1), <<SExpr(E)>>)>>)>>
    [] site = "labelbody" -> <<SLabel("L", SBlock(<<SExpr(E), SBreak("L"), SLog(I(1))>>))>>
    [] site = "trybody" -> <<STry(SBlock(<<SExpr(E)>>), "e", NoS, SBlock(<<SLog(I(1))>>))>>
    [] site = "catchbody" -> <<STry(SBlock(<<SThrow(I(1))>>), "e", SBlock(<<SExpr(E)>>), NoS)>>
    [] site = "finbody" -> <<STry(SBlock(<<SLog(I(1))>>), "e", NoS, SBlock(<<SExpr(E)>>))>>
\* the body of f: the variable, the site statement, what the outer code does afterwards (for `return E` inside a finally block)
CHBody(c) ==
  LET x == CHX(c.kd)  E == CHMake(c.lvl, c.acc, x)  aft == CHAfter(c.acc, x) IN
  (IF c.kd = "local" THEN <<SVar1("v", I(1))>> ELSE <<>>)
  \o <<SVar(<<Decl("g", NoE), Decl("h", NoE), Decl("c", I(0))>>)>>
  \o (IF c.site = "ret" THEN <<STry(SBlock(<<SRet(E)>>), "e", NoS, SBlock(aft))>> ELSE CHStmt(c.site, E) \o aft)
  \o <<SRet(I(0))>>
CHDef(c) == IF c.lvl = "arrow" THEN SVar1("f", Arrow(<<"p">>, CHBody(c))) ELSE SFun("f", <<"p">>, CHBody(c))
CHProg(c) ==
  IF c.kd = "outer"
  THEN Prog(<<SFun("o", <<"q">>, <<SVar1("u", Var("q")), CHDef(c), SLog(TypeOf(Call(Var("f"), <<I(1)>>))), SLog(Var("u")),
                                   SLog(TypeOf(Call(Var("f"), <<I(1)>>))), SRet(Var("u"))>>),
              SLog(Call(Var("o"), <<I(1)>>)), SLog(Call(Var("o"), <<I(1)>>)), SLog(I(50))>>)
  ELSE Prog(<<CHDef(c), SLog(TypeOf(Call(Var("f"), <<I(1)>>))), SLog(TypeOf(Call(Var("f"), <<I(1)>>))), SLog(I(50))>>)
CHAll == [site : CHHeads \cup CHBodies, kd : CHKinds, acc : CHAccs, lvl : CHLvls]
\* quick tier: every head position with the full product; every body position with every kind and level for `inc`
CHCases == {c \in CHAll : ~Quick \/ c.site \in CHHeads \/ c.acc = "inc"}

\* ======================= family IR: identifier resolution matrix ===========================================
\* where the compiler resolves an identifier (op) x what the name is bound to (kd, bd) x level (function / arrow).
\*   kd : local (no closure mentions it), cell (also captured by a closure g), free (the access is in a closure A of the
\*        owner), pass (in a closure A of a closure M of the owner);  scr: the owner is the script (kd free = a global)
\*   bd : how the name x is bound: var, parameter, catch parameter, function declaration, the loop head itself
IRIv(op) == IF op = "call" THEN Fun("", <<"a">>, <<SRet(Plus(Var("a"), I(7)))>>) ELSE I(1)
IROpS(op, x) ==
  CASE op = "read" -> <<SLog(Var(x))>>
    [] op = "write" -> <<SLog(Asg(x, I(5)))>>
    [] op = "compound" -> <<SLog(CAsg("+", x, I(5))), SLog(CAsg("-", x, I(2)))>>
    [] op = "update" -> <<SLog(Upd("++", FALSE, x)), SLog(Upd("--", TRUE, x)), SLog(Upd("++", TRUE, x)), SLog(Upd("--", FALSE, x)), SExpr(Upd("++", FALSE, x))>>
    [] op = "typeof" -> <<SLog(TypeOf(Var(x)))>>
    [] op = "call" -> <<SLog(Call(Var(x), <<I(3)>>))>>
    [] op = "forin" -> <<SForIn(FALSE, x, Obj(<<"a", "b">>, <<I(1), I(2)>>), SBlock(<<SLog(Var(x))>>))>>
    [] op = "forof" -> <<SForOf(FALSE, x, Arr(<<I(7), I(8)>>), SBlock(<<SLog(Var(x))>>))>>
    [] op = "forinvar" -> <<SForIn(TRUE, x, Obj(<<"a", "b">>, <<I(1), I(2)>>), SBlock(<<SLog(Var(x))>>))>>
    [] op = "forofvar" -> <<SForOf(TRUE, x, Arr(<<I(7), I(8)>>), SBlock(<<SLog(Var(x))>>))>>
    [] op = "mix" -> <<SLog(Var(x)), Set(x, Plus(Var(x), I(1))), SLog(TypeOf(Var(x))), SLog(Upd("++", FALSE, x)), SLog(CAsg("+", x, I(5)))>>
    [] op = "fmix" -> <<SLog(TypeOf(Var(x))), SLog(Call(Var(x), <<I(3)>>)), Set(x, Fun("", <<"a">>, <<SRet(Plus(Var("a"), I(100)))>>)), SLog(Call(Var(x), <<I(3)>>))>>
    [] op = "self" -> <<SLog(TypeOf(Var(x))), SLog(Bin("===", Var(x), Var("O")))>>
    [] op = "args" -> <<SLog(Dot(Var(x), "length")), SLog(Mem(Var(x), I(0)))>>
IRInner(kd, lvl, x, ops) ==
  CASE kd = "local" -> ops \o <<SLog(Var(x))>>
    [] kd = "cell" -> <<SVar1("g", FnL(lvl, <<>>, <<SRet(Var(x))>>))>> \o ops \o <<SLog(Var(x)), SLog(Call(Var("g"), <<>>))>>
    [] kd = "free" -> <<SVar1("A", FnL(lvl, <<>>, ops)), SExpr(Call(Var("A"), <<>>)), SLog(Var(x)), SExpr(Call(Var("A"), <<>>)), SLog(Var(x))>>
    [] kd = "pass" -> <<SVar1("M", FnL(lvl, <<>>, <<SVar1("A", FnL(lvl, <<>>, ops)), SExpr(Call(Var("A"), <<>>))>>)), SExpr(Call(Var("M"), <<>>)), SLog(Var(x))>>
IRBind(bd, iv, inner) ==
  CASE bd = "var" -> <<SVar1("x", iv)>> \o inner
    [] bd \in {"param", "head"} -> inner
    [] bd = "catch" -> <<STry(SBlock(<<SThrow(iv)>>), "x", SBlock(inner), NoS)>>
    [] bd = "fdecl" -> inner \o <<SFun("x", <<"a">>, <<SRet(Plus(Var("a"), I(7)))>>)>>
IRProg(c) ==
  LET iv == IRIv(c.op)
      x == IF c.bd = "args" THEN "arguments" ELSE "x"
      inner == IRInner(c.kd, c.lvl, x, IROpS(c.op, x))
      args == IF c.bd = "param" THEN <<iv>> ELSE IF c.bd = "args" THEN <<I(4), I(5)>> ELSE <<>>
  IN IF c.scr THEN Prog(IRBind(c.bd, iv, inner) \o <<SLog(I(50))>>)
     ELSE IF c.bd = "fexpr" THEN Prog(<<SVar1("O", Fun("x", <<>>, inner)), SExpr(Call(Var("O"), <<>>)), SExpr(Call(Var("O"), <<>>)), SLog(I(50))>>)
     ELSE IF c.bd = "args" THEN Prog(<<SVar1("O", Fun("", <<"p">>, inner)), SExpr(Call(Var("O"), args)), SExpr(Call(Var("O"), <<>>)), SLog(I(50))>>)
     ELSE Prog(<<SVar1("O", FnL(c.lvl, IF c.bd = "param" THEN <<"x">> ELSE <<>>, IRBind(c.bd, iv, inner))),
                 SExpr(Call(Var("O"), args)), SExpr(Call(Var("O"), args)), SLog(I(50))>>)
IRKinds == {"local", "cell", "free", "pass"}
IRLvls == {"fn", "arrow"}
IRMatrix ==
  [k : {"m"}, op : {"read", "write", "compound", "update", "typeof", "call", "forin", "forof"}, kd : IRKinds, bd : {"var"}, lvl : IRLvls, scr : {FALSE}]
  \cup [k : {"m"}, op : {"read", "write", "compound", "update", "typeof", "call", "forin", "forof"}, kd : {"free", "pass"}, bd : {"var"}, lvl : IRLvls, scr : {TRUE}]
  \cup [k : {"m"}, op : {"mix"}, kd : IRKinds, bd : {"param"}, lvl : IRLvls, scr : {FALSE}]
  \cup [k : {"m"}, op : {"mix"}, kd : IRKinds, bd : {"catch"}, lvl : IRLvls, scr : BOOLEAN]
  \cup [k : {"m"}, op : {"fmix"}, kd : IRKinds, bd : {"fdecl"}, lvl : IRLvls, scr : {FALSE}]
  \cup [k : {"m"}, op : {"fmix"}, kd : {"free", "pass"}, bd : {"fdecl"}, lvl : IRLvls, scr : {TRUE}]
  \cup [k : {"m"}, op : {"forinvar", "forofvar"}, kd : {"local", "cell"}, bd : {"head"}, lvl : IRLvls, scr : BOOLEAN]
  \cup {c \in [k : {"m"}, op : {"self"}, kd : IRKinds, bd : {"fexpr"}, lvl : IRLvls, scr : {FALSE}] : c.kd = "local" => c.lvl = "fn"}
  \cup [k : {"m"}, op : {"args"}, kd : IRKinds, bd : {"args"}, lvl : IRLvls, scr : {FALSE}]
\* more: names bound twice (own name of a function vs var / parameter / inner declaration, shadowing), catch parameter
\* per entry of the clause, `arguments` of arrows and of nested functions
IRMore == <<
    <<SFun("h", <<>>, <<SVar1("h", NoE), SLog(TypeOf(Var("h"))), Set("h", I(1)), SLog(Var("h"))>>), SExpr(Call(Var("h"), <<>>)), SLog(TypeOf(Var("h")))>>,
    <<SVar1("f", Fun("me", <<>>, <<SLog(TypeOf(Var("me"))), SVar1("me", I(1)), SLog(Var("me"))>>)), SExpr(Call(Var("f"), <<>>)), SLog(TypeOf(Var("me")))>>,
    <<SFun("h", <<>>, <<SVar1("h", NoE), SVar1("k", Fun("", <<>>, <<SRet(TypeOf(Var("h")))>>)), SLog(Call(Var("k"), <<>>)), Set("h", EStr("s")), SLog(Call(Var("k"), <<>>))>>),
      SExpr(Call(Var("h"), <<>>))>>,
    <<SVar1("f", Fun("me", <<"me">>, <<SRet(Var("me"))>>)), SLog(Call(Var("f"), <<I(3)>>))>>,
    <<SVar1("f", Fun("me", <<>>, <<SFun("me", <<>>, <<SRet(I(1))>>), SRet(Call(Var("me"), <<>>))>>)), SLog(Call(Var("f"), <<>>))>>,
    <<SFun("w", <<>>, <<SVar1("g", Fun("me", <<>>, <<SRet(Fun("", <<>>, <<SRet(TypeOf(Var("me")))>>))>>)), SVar1("me", I(3)),
                        SLog(Call(Call(Var("g"), <<>>), <<>>)), SLog(Var("me"))>>), SExpr(Call(Var("w"), <<>>))>>,
    \* the catch parameter is a fresh binding every time the clause is entered
    <<SFun("w", <<>>, <<SVar1("fs", Arr(<<>>)),
                        SFor(SVar1("i", I(0)), Bin("<", Var("i"), I(3)), Upd("++", FALSE, "i"),
                             SBlock(<<STry(SBlock(<<SThrow(Var("i"))>>), "e", SBlock(<<SExpr(Call(Dot(Var("fs"), "push"), <<Getter("e")>>))>>), NoS)>>)),
                        SRet(Var("fs"))>>),
      SVar1("fs", Call(Var("w"), <<>>)), SLog(Call(Mem(Var("fs"), I(0)), <<>>)), SLog(Call(Mem(Var("fs"), I(2)), <<>>))>>,
    <<SVar1("fs", Arr(<<>>)),
      SFor(SVar1("i", I(0)), Bin("<", Var("i"), I(3)), Upd("++", FALSE, "i"),
           SBlock(<<STry(SBlock(<<SThrow(Var("i"))>>), "e", SBlock(<<SExpr(Call(Dot(Var("fs"), "push"), <<Arrow(<<>>, <<SRet(Upd("++", TRUE, "e"))>>)>>))>>), NoS)>>)),
      SLog(Call(Mem(Var("fs"), I(0)), <<>>)), SLog(Call(Mem(Var("fs"), I(2)), <<>>)), SLog(Call(Mem(Var("fs"), I(0)), <<>>))>>,
    \* arguments: unbound in an arrow at script level; a nested function has its own
    <<SVar1("a", Arrow(<<"p">>, <<SRet(TypeOf(Var("arguments")))>>)), SLog(Call(Var("a"), <<I(1)>>))>>,
    <<SFun("w", <<"p">>, <<SVar1("g", Fun("", <<>>, <<SRet(Dot(Var("arguments"), "length"))>>)), SLog(Call(Var("g"), <<I(1), I(2)>>)), SLog(Dot(Var("arguments"), "length")),
                           SVar1("k", Arrow(<<>>, <<SRet(Arrow(<<>>, <<SRet(Mem(Var("arguments"), I(0)))>>))>>)), SLog(Call(Call(Var("k"), <<I(8)>>), <<I(9)>>))>>),
      SExpr(Call(Var("w"), <<I(5)>>))>>,
    \* shadowing: an inner var / parameter / catch parameter of the same name is another variable
    <<SFun("o", <<>>, <<SVar1("x", I(1)), SFun("m", <<>>, <<SVar1("x", I(2)), SRet(Fun("", <<>>, <<SRet(Upd("++", TRUE, "x"))>>))>>),
                        SLog(Call(Call(Var("m"), <<>>), <<>>)), SLog(Var("x")), SVar1("g", Getter("x")), SLog(Call(Var("g"), <<>>))>>), SExpr(Call(Var("o"), <<>>))>>,
    <<SFun("o", <<>>, <<SVar1("x", I(1)), SVar1("g", Fun("", <<"x">>, <<SRet(Arrow(<<>>, <<SRet(Upd("++", TRUE, "x"))>>))>>)), SVar1("k", Getter("x")),
                        SLog(Call(Call(Var("g"), <<I(5)>>), <<>>)), SLog(Var("x")), SLog(Call(Var("k"), <<>>))>>), SExpr(Call(Var("o"), <<>>))>>,
    <<SFun("o", <<>>, <<SVar1("x", I(1)), SVar1("k", Getter("x")), SVar1("g", NoE),
                        STry(SBlock(<<SThrow(I(5))>>), "x", SBlock(<<Set("g", Arrow(<<>>, <<SRet(Upd("++", TRUE, "x"))>>)), Set("x", I(7))>>), NoS),
                        SLog(Call(Var("g"), <<>>)), SLog(Var("x")), SLog(Call(Var("k"), <<>>))>>), SExpr(Call(Var("o"), <<>>))>>,
    \* a closure over a variable declared later in a nested block of a loop; the same name captured at two levels
    <<SFun("o", <<>>, <<SVar1("g", Getter("z")), SFor(SVar1("i", I(0)), Bin("<", Var("i"), I(2)), Upd("++", FALSE, "i"), SBlock(<<SIf(Bin("==", Var("i"), I(1)), SBlock(<<SVar1("z", I(9))>>), NoS), SLog(Call(Var("g"), <<>>))>>))>>),
      SExpr(Call(Var("o"), <<>>))>>,
    <<SFun("o", <<"x">>, <<SRet(Fun("", <<>>, <<SVar1("r", Upd("++", TRUE, "x")), SRet(Fun("", <<>>, <<SRet(Plus(Upd("++", TRUE, "x"), Var("r")))>>))>>))>>),
      SVar1("m", Call(Var("o"), <<I(1)>>)), SVar1("a", Call(Var("m"), <<>>)), SVar1("b", Call(Var("m"), <<>>)), SLog(Call(Var("a"), <<>>)), SLog(Call(Var("b"), <<>>)), SLog(Call(Var("a"), <<>>))>>
  >>
IRCases == IRMatrix \cup {[k |-> "x", j |-> j] : j \in 1..Len(IRMore)}
IRFamProg(c) == IF c.k = "m" THEN IRProg(c) ELSE Prog(IRMore[c.j] \o <<SLog(I(50))>>)

\* ======================= family SH: a name declared again by a function nested in the function that uses it ====
\* The function M uses a name x that it does not declare (x belongs to the script, to the enclosing function - as a variable
\* or a parameter - or to a function two levels out), while a function N nested INSIDE M declares x once more.  M must
\* keep reading and writing the outer binding (a second closure G of the owner sees M's writes); N's x is its own.
\*   own   : who owns the x that M uses
\*   inner : how N declares its x (var, var used before its declaration, for-in / for-of head, parameter, function declaration,
\*           catch parameter, own name of a named function expression)
\*   nest  : how N sits in M (function expression, arrow, function declaration, forEach callback, function called in place,
\*           function returned by another nested function; "self": the catch clause is M's own)
\*   lvl   : what M is (function declaration, function expression, arrow)
SHOwns == {"global", "outer", "outerparam", "outer2"}
SHInners == {"var", "latevar", "forin", "forof", "param", "fdecl", "catch", "ownname"}
SHNests == {"fexpr", "arrow", "decl", "cb", "iife", "deep", "self"}
SHLvls == {"fn", "fexpr", "arrow"}
X == Var("x")
SHNBody(inner) ==
  CASE inner = "var" -> <<SVar1("x", I(40)), Set("x", Plus(X, I(2))), SLog(X), SRet(X)>>
    [] inner = "latevar" -> <<SLog(TypeOf(X)), SVar1("x", I(42)), SRet(X)>>
    [] inner = "forin" -> <<SForIn(TRUE, "x", Obj(<<"k">>, <<I(1)>>), SBlock(<<SLog(X)>>)), SRet(I(42))>>
    [] inner = "forof" -> <<SForOf(TRUE, "x", Arr(<<I(41)>>), SBlock(<<SLog(X)>>)), SRet(I(42))>>
    [] inner = "param" -> <<Set("x", Plus(X, I(1))), SLog(X), SRet(X)>>
    [] inner = "fdecl" -> <<SLog(TypeOf(X)), SRet(Call(X, <<I(41)>>)), SFun("x", <<"a">>, <<SRet(Plus(Var("a"), I(1)))>>)>>
    [] inner = "catch" -> <<STry(SBlock(<<SThrow(I(41))>>), "x", SBlock(<<Set("x", Plus(X, I(1))), SLog(X)>>), NoS), SRet(I(42))>>
    [] inner = "ownname" -> <<SLog(TypeOf(X)), SRet(Plus(Var("q"), I(1)))>>
SHNFun(c) ==
  LET ps == IF c.inner = "param" THEN <<"x">> ELSE <<"q">> IN
  IF c.nest = "arrow" THEN Arrow(ps, SHNBody(c.inner)) ELSE Fun(IF c.inner = "ownname" THEN "x" ELSE "", ps, SHNBody(c.inner))
\* the part of M that declares and runs N
SHNestPart(c) ==
  CASE c.nest \in {"fexpr", "arrow"} -> <<SVar1("N", SHNFun(c)), SLog(Call(Var("N"), <<I(41)>>))>>
    [] c.nest = "decl" -> <<SLog(Call(Var("N"), <<I(41)>>)), SFun("N", IF c.inner = "param" THEN <<"x">> ELSE <<"q">>, SHNBody(c.inner))>>
    [] c.nest = "cb" -> <<SExpr(Call(Dot(Arr(<<I(41)>>), "forEach"), <<SHNFun(c)>>))>>
    [] c.nest = "iife" -> <<SLog(Call(SHNFun(c), <<I(41)>>))>>
    [] c.nest = "deep" -> <<SVar1("P", Fun("", <<>>, <<SRet(SHNFun(c))>>)), SLog(Call(Call(Var("P"), <<>>), <<I(41)>>))>>
    [] c.nest = "self" -> <<STry(SBlock(<<SThrow(I(41))>>), "x", SBlock(<<Set("x", Plus(X, I(1))), SLog(X)>>), NoS)>>
SHMBody(c) == <<SLog(X), Set("x", Plus(X, I(5)))>> \o SHNestPart(c)
              \o <<SLog(X), SExpr(Upd("++", FALSE, "x")), SLog(TypeOf(X)), SRet(X)>>
SHMDef(c) == CASE c.lvl = "fn" -> SFun("M", <<>>, SHMBody(c))
               [] c.lvl = "fexpr" -> SVar1("M", Fun("", <<>>, SHMBody(c)))
               [] c.lvl = "arrow" -> SVar1("M", Arrow(<<>>, SHMBody(c)))
SHUse == <<SLog(Call(Var("M"), <<>>)), SLog(Call(Var("G"), <<>>)), SLog(X), SLog(Call(Var("M"), <<>>)), SLog(Call(Var("G"), <<>>))>>
SHProg(c) ==
  CASE c.own = "global" -> Prog(<<SVar1("x", I(1)), SFun("G", <<>>, <<SRet(X)>>), SHMDef(c)>> \o SHUse \o <<SLog(I(50))>>)
    [] c.own = "outer" -> Prog(<<SFun("O", <<>>, <<SVar1("x", I(1)), SVar1("G", Getter("x")), SHMDef(c)>> \o SHUse),
                                 SExpr(Call(Var("O"), <<>>)), SExpr(Call(Var("O"), <<>>)), SLog(I(50))>>)
    [] c.own = "outerparam" -> Prog(<<SFun("O", <<"x">>, <<SVar1("G", Getter("x")), SHMDef(c)>> \o SHUse),
                                      SExpr(Call(Var("O"), <<I(1)>>)), SExpr(Call(Var("O"), <<I(3)>>)), SLog(I(50))>>)
    [] c.own = "outer2" -> Prog(<<SFun("O", <<>>, <<SVar1("x", I(1)), SVar1("G", Getter("x")),
                                                    SVar1("M", Call(Fun("", <<>>, <<SHMDef(c), SRet(Var("M"))>>), <<>>))>> \o SHUse),
                                  SExpr(Call(Var("O"), <<>>)), SExpr(Call(Var("O"), <<>>)), SLog(I(50))>>)
SHAll == [own : SHOwns, inner : SHInners, nest : SHNests, lvl : SHLvls]
SHValid(c) ==
  /\ (c.inner = "ownname" => c.nest \in {"fexpr", "cb", "iife", "deep"})          \* only a function expression has a name of its own
  /\ (c.nest = "self" => c.inner = "catch")                                        \* the catch clause is M's own
\* quick: every (inner, nest) pair under a function expression of an enclosing function; every (owner, level) with the two
\* plain nestings; every inner kind for a global used by a function declaration through a callback
SHQuickSel(c) ==
  \/ (c.own = "outer" /\ c.lvl = "fexpr")
  \/ (c.inner = "var" /\ c.nest \in {"fexpr", "arrow"})
  \/ (c.own = "global" /\ c.lvl = "fn" /\ c.nest = "cb")
  \/ (c.own = "outer2" /\ c.lvl = "arrow" /\ c.nest = "iife")
SHCases == {c \in SHAll : SHValid(c) /\ (~Quick \/ SHQuickSel(c))}

\* ======================= family BL: block structure of a statement list =======================================
\* A statement list is written as a string over  a { }  (a = a logging statement, { } = a bare block around a list): every
\* balanced string with at least one block and no two adjacent a's, up to a length, is put into every kind of container
\* (script, bare block, if / else branch, the five loop bodies, labelled block, try / catch / finally block, case clause,
\* function / arrow / callback body), at script level and in a function; the second leaf may leave the container early.
BLToks == {"a", "{", "}"}
RECURSIVE BLBalanced(_, _, _), BLCat(_)
BLBalanced(t, p, d) == IF p > Len(t) THEN d = 0
                       ELSE IF t[p] = "{" THEN BLBalanced(t, p + 1, d + 1)
                       ELSE IF t[p] = "}" THEN d > 0 /\ BLBalanced(t, p + 1, d - 1)
                       ELSE BLBalanced(t, p + 1, d)
BLCat(t) == IF Len(t) = 0 THEN "" ELSE t[1] \o BLCat(Tail(t))
BLShapes(n) == {BLCat(t) : t \in {u \in UNION {[1..m -> BLToks] : m \in 2..n} :
                                    /\ BLBalanced(u, 1, 0) /\ (\E j \in 1..Len(u) : u[j] = "{")
                                    /\ \A j \in 1..(Len(u) - 1) : ~(u[j] = "a" /\ u[j + 1] = "a")}}
Ch(x, p) == SubSeq(x, p, p)
BLLeaves(x) == {p \in 1..Len(x) : Ch(x, p) = "a"}
\* position of the leaf that carries the exit: the second leaf if there is one, else the first (0: none)
BLExitPos(x) == LET L == BLLeaves(x) IN
                IF L = {} THEN 0
                ELSE LET first == CHOOSE p \in L : \A q \in L : p <= q IN
                     IF L = {first} THEN first ELSE CHOOSE p \in L \ {first} : \A q \in L \ {first} : p <= q
BLExitStmt(ex) == CASE ex = "continue" -> SCont("") [] ex = "break" -> SBreak("") [] ex = "breakL" -> SBreak("L")
BLLeaf(c, p) == IF c.ex # "none" /\ p = BLExitPos(c.sh)
                THEN <<SLog(I(p)), SIf(Bin("==", N, I(IF c.ex = "breakL" THEN 0 ELSE 1)), SBlock(<<BLExitStmt(c.ex)>>), NoS)>>
                ELSE <<SLog(I(p))>>
\* statements of the list that starts at position p (up to the closing brace of the enclosing block), and where it ends
RECURSIVE BLParse(_, _)
BLParse(c, p) ==
  IF p > Len(c.sh) \/ Ch(c.sh, p) = "}" THEN [ss |-> <<>>, p |-> p]
  ELSE IF Ch(c.sh, p) = "a" THEN LET r == BLParse(c, p + 1) IN [ss |-> BLLeaf(c, p) \o r.ss, p |-> r.p]
  ELSE LET inner == BLParse(c, p + 1)
           rest == BLParse(c, inner.p + 1)
       IN [ss |-> <<SBlock(inner.ss)>> \o rest.ss, p |-> rest.p]
BLList(c) == BLParse(c, 1).ss
BLLoops == {"while", "dowhile", "for", "forin", "forof"}
BLStmtConts == {"block", "ifthen", "else", "label", "try", "catch", "finally", "case"} \cup BLLoops
BLBodyConts == {"top", "fnbody", "arrow", "cb"}
BLRound(list) == SBlock(<<Inc("n")>> \o list)
BLWrap(cont, list) ==
  CASE cont = "block" -> <<SBlock(list)>>
    [] cont = "ifthen" -> <<SIf(Bin("<", N, I(1)), SBlock(list), NoS)>>
    [] cont = "else" -> <<SIf(Bin("<", N, I(0)), SBlock(<<SLog(EStr("then"))>>), SBlock(list))>>
    [] cont = "while" -> <<SWhile(Bin("<", N, I(2)), BLRound(list))>>
    [] cont = "dowhile" -> <<SDo(BLRound(list), Bin("<", N, I(2)))>>
    [] cont = "for" -> <<SFor(SVar1("i", I(0)), Bin("<", Var("i"), I(2)), Upd("++", FALSE, "i"), BLRound(list))>>
    [] cont = "forin" -> <<SForIn(TRUE, "k", Obj(<<"p", "q">>, <<I(1), I(2)>>), BLRound(list))>>
    [] cont = "forof" -> <<SForOf(TRUE, "v", Arr(<<I(7), I(8)>>), BLRound(list))>>
    [] cont = "label" -> <<SLabel("L", SBlock(list))>>
    [] cont = "try" -> <<STry(SBlock(list), "e", NoS, SBlock(<<SLog(EStr("F"))>>))>>
    [] cont = "catch" -> <<STry(SBlock(<<SThrow(I(1))>>), "e", SBlock(list), NoS)>>
    [] cont = "finally" -> <<STry(SBlock(<<SLog(EStr("T"))>>), "e", NoS, SBlock(list))>>
    [] cont = "case" -> <<SSwitch(I(1), <<Case(I(1), list \o <<SBreak("")>>), Case(I(2), <<SLog(EStr("c2"))>>)>>)>>
BLProg(c) ==
  LET list == BLList(c)
      tail == <<SLog(I(90))>>
  IN CASE c.cont = "top" -> Prog(<<SVar1("n", I(0))>> \o list \o tail \o <<SLog(I(50))>>)
       [] c.cont = "fnbody" -> Prog(<<SFun("f", <<>>, <<SVar1("n", I(0))>> \o list \o tail \o <<SRet(I(7))>>), SLog(Plus(CallF, I(100))), SLog(I(50))>>)
       [] c.cont = "arrow" -> Prog(<<SVar1("f", Arrow(<<>>, <<SVar1("n", I(0))>> \o list \o tail \o <<SRet(I(7))>>)), SLog(Plus(CallF, I(100))), SLog(I(50))>>)
       [] c.cont = "cb" -> Prog(<<SVar1("n", I(0)), SExpr(Call(Dot(Arr(<<I(1), I(2)>>), "forEach"), <<Fun("", <<"q">>, list \o tail)>>)), SLog(I(50))>>)
       [] c.pl = "top" -> Prog(<<SVar1("n", I(0))>> \o BLWrap(c.cont, list) \o tail \o <<SLog(I(50))>>)
       [] OTHER -> Prog(<<SFun("f", <<>>, <<SVar1("n", I(0))>> \o BLWrap(c.cont, list) \o tail \o <<SRet(I(7))>>), SLog(Plus(CallF, I(100))), SLog(I(50))>>)
BLMaxLen == IF Quick THEN 6 ELSE 7
BLAll == [sh : BLShapes(BLMaxLen), cont : BLStmtConts \cup BLBodyConts, pl : {"top", "fn"}, ex : {"none", "continue", "break", "breakL"}]
BLValid(c) ==
  /\ (c.cont \in BLBodyConts => c.pl = "fn" /\ c.ex = "none")
  /\ (c.ex \in {"continue", "break"} => c.cont \in BLLoops)
  /\ (c.ex = "breakL" => c.cont = "label")
  /\ (c.ex # "none" => c.pl = "top" /\ BLLeaves(c.sh) # {})
\* quick: every shape in a bare block and in a while body; the two-sibling shape in every container at both placements;
\* exits from two shapes in every loop kind and the labelled block
BLQuickSel(c) ==
  \/ (c.cont \in {"block", "while"} /\ c.pl = "top" /\ c.ex = "none")
  \/ (c.sh = "{a}{a}" /\ c.ex = "none")
  \/ (c.sh \in {"{a}{a}", "{{a}a}"} /\ c.ex # "none")
BLCases == {c \in BLAll : BLValid(c) /\ (~Quick \/ BLQuickSel(c))}

\* ======================= family XA: functions whose body is an expression (`(p) => x`) ==========================
\* The arrow A = (p) => E has no statements: whatever it captures or lets capture happens inside the expression E.  E makes two
\* closures G, S over the variable x, with an action W of A itself between them, and reads x at the end (R):
\*   kd   : whose variable x is (A's own parameter, a variable of the enclosing function O, a global)
\*   pk   : how E holds <<G, W, S, R>> (array / object literal, comma expression assigning outer variables, argument list, branch of
\*          ?: and of &&, a second expression-bodied arrow returned by A: (p) => (q) => [...])
\*   acc  : rw  A writes x after G was made, S reads;  wr  a closure called inside E writes, A and G read afterwards, S writes again
\*          later;  inc  G and S both ++x
\*   cf   : form of the closures (function expression, arrow with a block, arrow with an expression body)
\*   site : A is a variable called twice / the callback of map over two elements / written out and called in place twice
\*   nest : all of it at script level, or inside a function O(u) that runs twice
XAKinds == {"param", "outer", "global"}
XAPacks == {"arr", "obj", "comma", "arg", "cond", "and", "curry"}
XAAccs == {"rw", "wr", "inc"}
XAForms == {"fn", "arrow", "xarrow"}
XASites == {"var", "cb", "iife"}
XANests == {"script", "fn"}
XAX(kd) == CASE kd = "param" -> "p" [] kd = "outer" -> "u" [] kd = "global" -> "gv"
XAFn(cf, params, x) == CASE cf = "fn" -> Fun("", params, <<SRet(x)>>) [] cf = "arrow" -> Arrow(params, <<SRet(x)>>) [] cf = "xarrow" -> XArrow(params, x)
XAParts(c) ==
  LET x == XAX(c.kd) IN
  CASE c.acc = "rw" -> <<XAFn(c.cf, <<>>, Var(x)), Asg(x, Plus(Var(x), I(10))), XAFn(c.cf, <<"a">>, Plus(Var(x), Var("a"))), Var(x)>>
    [] c.acc = "wr" -> <<XAFn(c.cf, <<>>, Var(x)), Call(XAFn(c.cf, <<"a">>, Asg(x, Var("a"))), <<I(7)>>), XAFn(c.cf, <<"a">>, CAsg("+", x, Var("a"))), Var(x)>>
    [] c.acc = "inc" -> <<XAFn(c.cf, <<>>, Upd("++", TRUE, x)), I(0), XAFn(c.cf, <<"a">>, Upd("++", FALSE, x)), Var(x)>>
XAKeys == <<"g", "w", "s", "r">>
XAExpr(c) ==
  LET ps == XAParts(c) IN
  CASE c.pk \in {"arr", "curry"} -> Arr(ps)
    [] c.pk = "obj" -> Obj(XAKeys, ps)
    [] c.pk = "comma" -> Comma(<<Asg("g", ps[1]), ps[2], Asg("h", ps[3]), ps[4]>>)
    [] c.pk = "arg" -> Call(Var("pack"), ps)
    [] c.pk = "cond" -> Cond(Bin("<", I(0), I(1)), Arr(ps), I(0))
    [] c.pk = "and" -> And(I(1), Arr(ps))
XALit(c) == IF c.pk = "curry" THEN XArrow(<<"p">>, XArrow(<<"q">>, XAExpr(c))) ELSE XArrow(<<"p">>, XAExpr(c))
\* part k (1 = G, 3 = S, 4 = R) of the result held by variable r
XAGet(c, r, k) == CASE c.pk = "obj" -> Dot(Var(r), XAKeys[k])
                    [] c.pk = "comma" -> (IF k = 1 THEN Var("g") ELSE IF k = 3 THEN Var("h") ELSE Var(r))
                    [] OTHER -> Mem(Var(r), I(k - 1))
XAFin(c, v) == IF c.pk = "curry" THEN Call(v, <<I(0)>>) ELSE v
XAAct(c, j) ==                     \* the result of activation j (1, 2) in variable r<j>, its parts in G<j>, S<j>, R<j>
  LET r == IF j = 1 THEN "r1" ELSE "r2"
      made == CASE c.site = "var" -> Call(Var("A"), <<I(j)>>)
                [] c.site = "iife" -> Call(XALit(c), <<I(j)>>)
                [] c.site = "cb" -> Mem(Var("rs"), I(j - 1))
  IN <<SVar1(r, XAFin(c, made)),
       SVar(<<Decl(IF j = 1 THEN "G1" ELSE "G2", XAGet(c, r, 1)), Decl(IF j = 1 THEN "S1" ELSE "S2", XAGet(c, r, 3)),
              Decl(IF j = 1 THEN "R1" ELSE "R2", XAGet(c, r, 4))>>)>>
XAUse(g, sx, r, arg) == <<SLog(Var(r)), SLog(Call(Var(g), <<>>)), SLog(Call(Var(sx), <<I(arg)>>)), SLog(Call(Var(g), <<>>))>>
XAUnit(c) ==
  (IF c.pk = "comma" THEN <<SVar(<<Decl("g", NoE), Decl("h", NoE)>>)>> ELSE <<>>)
  \o (CASE c.site = "var" -> <<SVar1("A", XALit(c))>>
        [] c.site = "cb" -> <<SVar1("rs", Call(Dot(Arr(<<I(1), I(2)>>), "map"), <<XALit(c)>>))>>
        [] c.site = "iife" -> <<>>)
  \o XAAct(c, 1) \o XAAct(c, 2)
  \o XAUse("G1", "S1", "R1", 5) \o XAUse("G2", "S2", "R2", 7) \o XAUse("G1", "S1", "R1", 1)
  \o (IF c.kd = "param" THEN <<>> ELSE <<SLog(Var(XAX(c.kd)))>>)
XAProg(c) ==
  Prog(<<SVar1("gv", I(1)), SFun("pack", <<"a", "b", "c", "d">>, <<SRet(Arr(<<Var("a"), Var("b"), Var("c"), Var("d")>>))>>)>>
       \o (IF c.nest = "fn" THEN <<SFun("O", <<"u">>, XAUnit(c)), SExpr(Call(Var("O"), <<I(1)>>)), SExpr(Call(Var("O"), <<I(3)>>))>> ELSE XAUnit(c))
       \o <<SLog(I(50))>>)
XAAll == {c \in [kd : XAKinds, pk : XAPacks, acc : XAAccs, cf : XAForms, site : XASites, nest : XANests] : c.kd = "outer" => c.nest = "fn"}
\* quick: every (pk, acc) for a parameter captured by expression-bodied closures; every (cf, site, nest) for one pair; the other
\* owners of x with three packagings and every access
XAQuickSel(c) ==
  \/ (c.kd = "param" /\ c.cf = "xarrow" /\ c.site = "var" /\ c.nest = "script")
  \/ (c.kd = "param" /\ c.pk = "obj" /\ c.acc = "inc")
  \/ (c.kd # "param" /\ c.cf = "xarrow" /\ c.site = "var" /\ c.nest = "fn" /\ c.pk \in {"arr", "comma", "curry"})
XACases == {c \in XAAll : ~Quick \/ XAQuickSel(c)}

\* ======================= family FP: a construct that is the first code of its code unit =========================================
\* The CF constructs and exits once more, but nothing stands before the construct (or before the construct that encloses it): the
\* counters n, m are the parameters of the unit (called with 0, 0; for a script: globals the host has set to 0), so the loop's
\* test / body is the first instruction of the compiled unit.
\*   unit : function declaration, function expression, arrow, forEach callback, method of an object literal, the script itself
\*   lead : nothing before it / a `var` without initialiser / an empty statement / the construct inside a bare block
\*   kd, ex, en : as in CF, plus kd "forbare" = for (; n < 3; ) without init and update
\* a script whose global names `pre` the host has set to 0 before it runs
ProgPre(body, pre) == [body |-> body, pre |-> pre]
FPUnits == {"decl", "fexpr", "arrow", "cb", "method", "script"}
FPLeads == {"first", "barevar", "empty", "inblock"}
FPKinds == LoopKinds \cup {"forbare"}
FPEncls == {"none", "while", "dowhile", "for", "forin", "forof", "switch", "block"}
FPIsLoop(kd) == IsLoop(kd) \/ kd = "forbare"
FPConstruct(kd, body) == IF kd = "forbare" THEN SFor(NoS, Bin("<", N, ENum(3)), NoE, SBlock(body)) ELSE Construct(kd, body)
FPInner(kd, ex, reset) ==
  LET c0 == FPConstruct(kd, Body(ex, IF FPIsLoop(kd) THEN 2 ELSE 1))
      c1 == IF ex \in {"breakL", "continueL"} \/ kd = "block" THEN SLabel("L", c0) ELSE c0
  IN (IF reset THEN <<Set("n", ENum(0))>> ELSE <<>>) \o <<c1, SLog(ENum(3))>>
FPCore(c) ==
  LET core == Enclose(c.en, c.ex, FPInner(c.kd, c.ex, c.en # "none")) IN
  CASE c.lead = "first" -> core
    [] c.lead = "barevar" -> <<SVar1("t", NoE)>> \o core
    [] c.lead = "empty" -> <<SEmpty>> \o core
    [] c.lead = "inblock" -> <<SBlock(core)>>
FPArgs == <<ENum(0), ENum(0)>>
FPProg(c) ==
  LET body == FPCore(c) \o <<SLog(ENum(4)), SRet(ENum(7))>>
      g == c.ex = "throw"
      use(call) == Guarded(g, <<SVar1("y", call), SLog(Var("y"))>>)
  IN CASE c.unit = "decl" -> Prog(<<SFun("f", <<"n", "m">>, body)>> \o use(Call(F, FPArgs)) \o <<SLog(ENum(50))>>)
       [] c.unit = "fexpr" -> Prog(<<SVar1("f", Fun("", <<"n", "m">>, body))>> \o use(Call(F, FPArgs)) \o <<SLog(ENum(50))>>)
       [] c.unit = "arrow" -> Prog(<<SVar1("f", Arrow(<<"n", "m">>, body))>> \o use(Call(F, FPArgs)) \o <<SLog(ENum(50))>>)
       [] c.unit = "method" -> Prog(<<SVar1("o", Obj(<<"f">>, <<Fun("", <<"n", "m">>, body)>>))>> \o use(Call(Dot(Var("o"), "f"), FPArgs)) \o <<SLog(ENum(50))>>)
       [] c.unit = "cb" -> Prog(Guarded(g, <<SExpr(Call(Dot(Arr(<<ENum(0)>>), "forEach"), <<Fun("", <<"n", "m">>, body)>>))>>) \o <<SLog(ENum(50))>>)
       [] c.unit = "script" -> ProgPre(FPCore(c) \o <<SLog(ENum(4)), SLog(ENum(50))>>, <<"n", "m">>)
FPAll == [kd : FPKinds, ex : ExitKinds, en : FPEncls, unit : FPUnits, lead : FPLeads]
FPValid(c) ==
  /\ CFValid([kd |-> IF c.kd = "forbare" THEN "for" ELSE c.kd, ex |-> c.ex, en |-> c.en, pl |-> IF c.unit = "script" THEN "top" ELSE "stmt", guard |-> c.ex = "throw"])
  /\ (c.unit = "script" => c.ex # "throw")                  \* an uncaught throw ends the script: CF has it; a guard would stand before the construct
\* quick: every (construct, exit) first in a function declaration; the constructs whose start is a jump target (while, do-while,
\* for without init) with the exits that jump, in every unit x lead; every enclosing loop standing first with the exits that name it
FPQuickSel(c) ==
  \/ (c.en = "none" /\ c.unit = "decl" /\ c.lead = "first")
  \/ (c.en = "none" /\ c.kd \in {"while", "dowhile", "forbare"} /\ c.ex \in {"continue", "continueL"})
  \/ (c.en = "none" /\ c.kd = "while" /\ c.ex \in {"break", "returnv"} /\ c.lead = "first")
  \/ (c.en \in {"while", "dowhile", "for", "forin", "forof"} /\ c.kd \in {"for", "switch", "block"} /\ c.ex \in {"continue", "continueM", "breakM"}
      /\ c.unit \in {"decl", "script"} /\ c.lead = "first")
  \/ (c.en \in {"switch", "block"} /\ c.kd = "while" /\ c.ex \in {"continue", "breakM"} /\ c.unit = "arrow" /\ c.lead = "first")
FPCases == {c \in FPAll : FPValid(c) /\ (~Quick \/ FPQuickSel(c))}

\* ======================= family LS: several labels on one statement ============================================================
\* a: b: c: <statement> - every label of the stack names the statement: `break <any of them>` leaves it, `continue <any of them>`
\* starts the next round of the loop (ECMA-262 LabelledEvaluation: the label set of the loop).
\*   kd  : the statement under the labels (five loops, switch, block)      d : number of labels (1..3)      tg : which one the exit names
\*   ex  : break / continue (loops only)
\*   via : the exit stands directly in the body / in an inner for / in an inner for-in / in a switch / in a try with a finally block
\*   en  : the labelled statement stands alone or inside a loop that runs twice      pl : at script level / in a function used as an operand
LSLabs == <<"a", "b", "c">>
LSVias == {"direct", "infor", "inforin", "insw", "intry"}
RECURSIVE LSStack(_, _, _)
LSStack(d, j, s) == IF j > d THEN s ELSE SLabel(LSLabs[j], LSStack(d, j + 1, s))
LSBody(c) ==
  LET go == IF c.ex = "break" THEN SBreak(LSLabs[c.tg]) ELSE SCont(LSLabs[c.tg])
      trig == IF IsLoop(c.kd) THEN 2 ELSE 1
      when == SIf(Bin("==", N, ENum(trig)), SBlock(<<go>>), NoS)
  IN <<Inc("n"), SLog(N)>>
     \o (CASE c.via = "direct" -> <<when>>
           [] c.via = "infor" -> <<SFor(SVar1("jj", ENum(0)), Bin("<", Var("jj"), ENum(2)), Asg("jj", Plus(Var("jj"), ENum(1))),
                                        SBlock(<<SLog(Plus(Var("jj"), ENum(20))), when, SLog(Plus(Var("jj"), ENum(30)))>>))>>
           [] c.via = "inforin" -> <<SForIn(TRUE, "q", Obj(<<"x", "y">>, <<ENum(1), ENum(2)>>), SBlock(<<SLog(Var("q")), when, SLog(EStr("z"))>>))>>
           [] c.via = "insw" -> <<SSwitch(N, <<Case(ENum(trig), <<SLog(EStr("s")), go>>), Case(NoE, <<SLog(EStr("d"))>>)>>)>>
           [] c.via = "intry" -> <<STry(SBlock(<<when, SLog(EStr("t"))>>), "e", NoS, SBlock(<<SLog(EStr("F"))>>))>>)
     \o <<SLog(Plus(N, ENum(10)))>>
LSCore(c) == <<SVar(<<Decl("n", ENum(0)), Decl("m", ENum(0))>>)>>
             \o Enclose(c.en, "none", <<Set("n", ENum(0)), LSStack(c.d, 1, Construct(c.kd, LSBody(c))), SLog(ENum(3))>>) \o <<SLog(ENum(4))>>
LSProg(c) == IF c.pl = "top" THEN Prog(LSCore(c) \o <<SLog(ENum(50))>>)
             ELSE Prog(<<SFun("f", <<>>, LSCore(c) \o <<SRet(ENum(7))>>), SLog(Plus(CallF, ENum(100))), SLog(ENum(50))>>)
LSAll == [kd : LoopKinds, d : 1..3, tg : 1..3, ex : {"break", "continue"}, via : LSVias, en : {"none", "for", "forof"}, pl : {"top", "fn"}]
LSValid(c) == c.tg <= c.d /\ (c.ex = "continue" => IsLoop(c.kd))
\* quick: every (statement, depth, target, exit) with the exit directly in the body; the other routes for two loops and two
\* (depth, target) pairs; the enclosing loops and the function placement for the two-label stack
LSQuickSel(c) ==
  \/ (c.via = "direct" /\ c.en = "none" /\ c.pl = "top")
  \/ (c.kd \in {"while", "forof"} /\ <<c.d, c.tg>> \in {<<2, 1>>, <<3, 2>>} /\ c.en = "none" /\ c.pl = "top")
  \/ (c.kd \in {"dowhile", "for", "switch"} /\ <<c.d, c.tg>> = <<2, 1>> /\ c.via = "direct")
LSCases == {c \in LSAll : LSValid(c) /\ (~Quick \/ LSQuickSel(c))}

\* law of the quick selections above: every value of every dimension of the three families occurs in the selection, and so do
\* the pairs the families exist for (a hand-written sub-grid that drops a class fails the specification run, not silently)
NewFamilyCoverage ==
  /\ \A kd \in XAKinds : \E q \in XACases : q.kd = kd
  /\ \A cf \in XAForms, site \in XASites, nest \in XANests : \E q \in XACases : q.cf = cf /\ q.site = site /\ q.nest = nest
  /\ \A pk \in XAPacks, acc \in XAAccs : \E q \in XACases : q.pk = pk /\ q.acc = acc /\ q.kd = "param" /\ q.cf = "xarrow"
  /\ \A unit \in FPUnits, lead \in FPLeads : \E q \in FPCases : q.unit = unit /\ q.lead = lead
  /\ \A en \in FPEncls : \E q \in FPCases : q.en = en
  /\ \A kd \in FPKinds, ex \in ExitKinds :
        LET c == [kd |-> kd, ex |-> ex, en |-> "none", unit |-> "decl", lead |-> "first"] IN FPValid(c) => c \in FPCases
  /\ \A kd \in LoopKinds, d \in 1..3, tg \in 1..3, ex \in {"break", "continue"} :
        LET c == [kd |-> kd, d |-> d, tg |-> tg, ex |-> ex, via |-> "direct", en |-> "none", pl |-> "top"] IN LSValid(c) => c \in LSCases
  /\ \A via \in LSVias, ex \in {"break", "continue"} : \E q \in LSCases : q.via = via /\ q.ex = ex /\ q.d > 1 /\ q.tg < q.d
  /\ \A en \in {"none", "for", "forof"}, pl \in {"top", "fn"} : \E q \in LSCases : q.en = en /\ q.pl = pl

\* ======================= family CP: where, inside a closure, the only mention of the captured variable stands =================
\* (round 3, reviewer) The closure g mentions the captured variable x exactly once; pos says in which slot of which node: operand
\* of a binary / unary / logical / conditional operator, source of an assignment, object / computed key / value of a member read,
\* write or update, callee, argument, receiver, computed method key, argument of `new`, element / property value of a literal,
\* comma operand, initialiser, condition of if / while / do-while / for, right-hand side of for-in / for-of, switch discriminant,
\* case test, throw argument - and the target slots: `x = `, `x += `, `x++`, `--x`, `for (x in ..)`, `for (x of ..)`.
\* The owner writes x after g exists (g must see it), g runs before and after; two activations.
\*   kd  : x is the owner's parameter / local / the owner's local reached through a middle function that does not mention it
\*   lvl : g (and the middle function) is a function expression / an arrow with a block / an arrow with an expression body
CPPosInt == {"id", "binl", "binr", "neg", "andr", "orl", "orr", "conda", "condb", "asgr", "casgr", "memk", "masgk", "masgr", "mupdk",
             "arg", "metharg", "arrel", "objval", "comma", "eql", "wasg", "wcasg", "wupd", "wupdpre"}
CPPosBool == {"not", "andl", "condt"}
CPPosArr == {"memo", "doto", "masgo", "mupdo"}
CPPosOther == {"callee", "recv", "methk", "newarg", "typeof"}
CPExprPos == CPPosInt \cup CPPosBool \cup CPPosArr \cup CPPosOther
CPStmtPos == {"varinit", "ifc", "whilec", "doc", "fortest", "forinrhs", "forofrhs", "swdisc", "swcase", "throw", "wforin", "wforof"}
CPPositions == CPExprPos \cup CPStmtPos
CPVt(pos) == CASE pos \in CPPosBool \cup {"ifc", "whilec", "doc", "fortest"} -> "bool"
               [] pos \in CPPosArr \cup {"forinrhs", "forofrhs"} -> "arr"
               [] pos = "callee" -> "fun" [] pos = "recv" -> "obj" [] pos \in {"methk", "newarg"} -> "str" [] pos = "typeof" -> "mix"
               [] OTHER -> "int"
CPVal(vt, k) == CASE vt = "int" -> I(k) [] vt = "bool" -> EBool(k = 2) [] vt = "str" -> EStr(IF k = 1 THEN "m1" ELSE "m2")
                  [] vt = "arr" -> Var(IF k = 1 THEN "A1" ELSE "A2") [] vt = "fun" -> Var(IF k = 1 THEN "F1" ELSE "F2")
                  [] vt = "obj" -> Var(IF k = 1 THEN "O1" ELSE "O2") [] vt = "mix" -> (IF k = 1 THEN I(1) ELSE EStr("s"))
AR == Var("ar")
CPExpr(pos) ==
  CASE pos = "id" -> X [] pos = "binl" -> Plus(X, I(100)) [] pos = "binr" -> Plus(I(100), X) [] pos = "neg" -> Un("-", X)
    [] pos = "not" -> Not(X) [] pos = "andl" -> And(X, I(7)) [] pos = "andr" -> And(I(1), X) [] pos = "orl" -> Or(X, I(7)) [] pos = "orr" -> Or(I(0), X)
    [] pos = "condt" -> Cond(X, I(1), I(2)) [] pos = "conda" -> Cond(EBool(TRUE), X, I(0)) [] pos = "condb" -> Cond(EBool(FALSE), I(0), X)
    [] pos = "asgr" -> Asg("y", X) [] pos = "casgr" -> CAsg("+", "y", X)
    [] pos = "memo" -> Mem(X, I(0)) [] pos = "memk" -> Mem(AR, X) [] pos = "doto" -> Dot(X, "length")
    [] pos = "masgo" -> MAsg(Mem(X, I(0)), I(5)) [] pos = "masgk" -> MAsg(Mem(AR, X), I(5)) [] pos = "masgr" -> MAsg(Mem(AR, I(0)), X)
    [] pos = "mupdo" -> MUpd("++", FALSE, Mem(X, I(0))) [] pos = "mupdk" -> MUpd("++", TRUE, Mem(AR, X))
    [] pos = "callee" -> Call(X, <<I(1)>>) [] pos = "arg" -> Call(Var("id"), <<X>>) [] pos = "recv" -> Call(Dot(X, "m"), <<I(1)>>)
    [] pos = "methk" -> Call(Mem(Var("ob"), X), <<I(1)>>) [] pos = "metharg" -> Call(Dot(Var("ob"), "m1"), <<X>>)
    [] pos = "newarg" -> Dot(New(Var("Error"), <<X>>), "message")
    [] pos = "arrel" -> Mem(Arr(<<I(0), X>>), I(1)) [] pos = "objval" -> Dot(Obj(<<"a">>, <<X>>), "a") [] pos = "comma" -> Comma(<<I(0), X>>)
    [] pos = "typeof" -> TypeOf(X) [] pos = "eql" -> Bin("===", X, I(2))
    [] pos = "wasg" -> Asg("x", I(7)) [] pos = "wcasg" -> CAsg("+", "x", I(7)) [] pos = "wupd" -> Upd("++", FALSE, "x") [] pos = "wupdpre" -> Upd("--", TRUE, "x")
CPStmts(pos) ==
  CASE pos = "varinit" -> <<SVar1("t", X), SRet(Var("t"))>>
    [] pos = "ifc" -> <<SIf(X, SBlock(<<SRet(I(1))>>), NoS), SRet(I(2))>>
    [] pos = "whilec" -> <<SWhile(X, SBlock(<<SRet(I(1))>>)), SRet(I(2))>>
    [] pos = "doc" -> <<SVar1("t", I(0)), SDo(SBlock(<<Inc("t"), SIf(Bin("==", Var("t"), I(2)), SBlock(<<SBreak("")>>), NoS)>>), X), SRet(Var("t"))>>
    [] pos = "fortest" -> <<SFor(NoS, X, NoE, SBlock(<<SRet(I(1))>>)), SRet(I(2))>>
    [] pos = "forinrhs" -> <<SForIn(TRUE, "k", X, SBlock(<<SLog(Var("k"))>>)), SRet(I(0))>>
    [] pos = "forofrhs" -> <<SForOf(TRUE, "k", X, SBlock(<<SLog(Var("k"))>>)), SRet(I(0))>>
    [] pos = "swdisc" -> <<SSwitch(X, <<Case(I(1), <<SRet(EStr("one"))>>), Case(I(2), <<SRet(EStr("two"))>>)>>), SRet(EStr("none"))>>
    [] pos = "swcase" -> <<SSwitch(I(2), <<Case(X, <<SRet(EStr("hit"))>>)>>), SRet(EStr("miss"))>>
    [] pos = "throw" -> <<STry(SBlock(<<SThrow(X)>>), "e", SBlock(<<SRet(Var("e"))>>), NoS), SRet(I(0))>>
    [] pos = "wforin" -> <<SForIn(FALSE, "x", Obj(<<"a", "b">>, <<I(1), I(2)>>), SBlock(<<>>)), SRet(I(0))>>
    [] pos = "wforof" -> <<SForOf(FALSE, "x", Arr(<<I(7), I(8)>>), SBlock(<<>>)), SRet(I(0))>>
CPFn(lvl, body) == IF lvl = "fn" THEN Fun("", <<>>, body) ELSE Arrow(<<>>, body)
CPClosure(c) == IF c.pos \in CPStmtPos THEN CPFn(c.lvl, CPStmts(c.pos))
                ELSE IF c.lvl = "xarrow" THEN XArrow(<<>>, CPExpr(c.pos)) ELSE CPFn(c.lvl, <<SRet(CPExpr(c.pos))>>)
CPMake(c) == IF c.kd # "pass" THEN CPClosure(c)
             ELSE Call(IF c.lvl = "xarrow" THEN XArrow(<<>>, CPClosure(c)) ELSE CPFn(c.lvl, <<SRet(CPClosure(c))>>), <<>>)
CPOwner(c) ==
  LET vt == CPVt(c.pos) IN
  SFun("O", IF c.kd = "param" THEN <<"x">> ELSE <<>>,
       (IF c.kd = "param" THEN <<>> ELSE <<SVar1("x", CPVal(vt, 1))>>)
       \o <<SVar1("g", CPMake(c)), SLog(Call(Var("g"), <<>>)), SLog(X), Set("x", CPVal(vt, 2)), SLog(Call(Var("g"), <<>>)), SLog(X), SRet(Var("g"))>>)
CPProg(c) ==
  LET vt == CPVt(c.pos)
      callO == Call(Var("O"), IF c.kd = "param" THEN <<CPVal(vt, 1)>> ELSE <<>>)
      fn(k) == Fun("", <<"a">>, <<SRet(Plus(Var("a"), I(k)))>>)
  IN Prog(<<SVar(<<Decl("ar", Arr(<<I(10), I(20), I(30)>>)), Decl("y", I(0)), Decl("A1", Arr(<<I(10), I(11)>>)), Decl("A2", Arr(<<I(20), I(21), I(22)>>)),
                   Decl("F1", fn(100)), Decl("F2", fn(200)), Decl("O1", Obj(<<"m", "k">>, <<fn(100), I(1)>>)), Decl("O2", Obj(<<"m", "k">>, <<fn(200), I(2)>>)),
                   Decl("ob", Obj(<<"m1", "m2">>, <<fn(1), fn(2)>>))>>),
            SFun("id", <<"a">>, <<SRet(Var("a"))>>), CPOwner(c),
            SVar1("g1", callO), SLog(Call(Var("g1"), <<>>)), SVar1("g2", callO), SLog(Call(Var("g2"), <<>>)), SLog(Call(Var("g1"), <<>>)),
            SLog(Mem(AR, I(0))), SLog(Mem(AR, I(1))), SLog(Mem(AR, I(2))), SLog(Mem(Var("A1"), I(0))), SLog(Mem(Var("A2"), I(0))), SLog(Var("y")), SLog(I(50))>>)
CPAll == [pos : CPPositions, kd : {"param", "local", "pass"}, lvl : {"fn", "arrow", "xarrow"}]
CPValid(c) == c.lvl = "xarrow" => c.pos \in CPExprPos
\* quick: every position for a local under function expressions and for a parameter under arrows; the member / call positions and
\* the targets also through a middle function and with expression bodies
CPQuickSel(c) ==
  \/ (c.kd = "local" /\ c.lvl = "fn")
  \/ (c.kd = "param" /\ c.lvl = "arrow")
  \/ (c.kd = "pass" /\ c.lvl = "xarrow" /\ c.pos \in {"id", "memo", "memk", "masgk", "mupdk", "callee", "arg", "methk", "wasg", "wupd"})
  \/ (c.kd = "pass" /\ c.lvl = "fn" /\ c.pos \in {"swcase", "forinrhs", "wforin"})
  \/ c.pos \in {"id", "memk", "wasg"}
CPCases == {c \in CPAll : CPValid(c) /\ (~Quick \/ CPQuickSel(c))}

\* ======================= family TX: a loop body with two exits, the last statement of the body being one ========================
\* (round 3, reviewer) Every other family puts one exit statement into a loop body, under an `if`, with code after it.  Here the body
\* ENDS in a statement after which control never falls out of the body (so the code the loop has after the body - the update of a
\* `for`, the test of a do-while, the jump back - is reachable only through `continue`), and an earlier exit, taken on the first two
\* rounds, may `continue` the loop by some route.
\*   kd  : while, do-while, for (init; test; update), for (init; ; update), for (; test; ), for-in, for-of
\*   ce  : the early exit on rounds 1, 2: none / `continue` / `continue L` / `continue` in a switch / `continue L` from an inner for /
\*         `continue` in a try with a finally block
\*   te  : the last statement of the body: an ordinary statement (none) / break / break L / continue / continue L / return v / throw /
\*         if-else with an exit in both arms / a nested block ending in break / try { break } finally / break M, continue M (enclosing loop)
\*   en  : alone, or inside a `for` that runs twice        pl : script level / function whose call is an operand
TXKinds == {"while", "dowhile", "for", "fornotest", "forbare", "forin", "forof"}
TXEarly == {"none", "direct", "label", "insw", "infor", "intry"}
TXLast == {"none", "break", "breakL", "continue", "continueL", "returnv", "throw", "ifelse", "nested", "tryfin", "breakM", "continueM"}
TXLeaves(te) == te \in {"break", "breakL", "returnv", "throw", "ifelse", "nested", "tryfin", "breakM"}      \* the loop ends by round 3
NLt3 == Bin("<", N, I(3))
TXEarlyS(ce) ==
  CASE ce = "none" -> <<>>
    [] ce = "direct" -> <<SIf(NLt3, SBlock(<<SCont("")>>), NoS)>>
    [] ce = "label" -> <<SIf(NLt3, SBlock(<<SCont("L")>>), NoS)>>
    [] ce = "insw" -> <<SSwitch(N, <<Case(I(1), <<SLog(EStr("s")), SCont("")>>), Case(I(2), <<SCont("")>>), Case(NoE, <<SLog(EStr("d"))>>)>>)>>
    [] ce = "infor" -> <<SFor(SVar1("jj", I(0)), Bin("<", Var("jj"), I(2)), Asg("jj", Plus(Var("jj"), I(1))),
                              SBlock(<<SLog(Plus(Var("jj"), I(30))), SIf(NLt3, SBlock(<<SCont("L")>>), NoS)>>))>>
    [] ce = "intry" -> <<STry(SBlock(<<SIf(NLt3, SBlock(<<SCont("")>>), NoS), SLog(EStr("t"))>>), "e", NoS, SBlock(<<SLog(EStr("F"))>>))>>
TXLastS(te) ==
  CASE te = "none" -> <<>>
    [] te = "break" -> <<SBreak("")>> [] te = "breakL" -> <<SBreak("L")>> [] te = "continue" -> <<SCont("")>> [] te = "continueL" -> <<SCont("L")>>
    [] te = "returnv" -> <<SRet(I(5))>> [] te = "throw" -> <<SThrow(I(9))>>
    [] te = "ifelse" -> <<SIf(Bin("==", N, I(3)), SBlock(<<SBreak("")>>), SBlock(<<SCont("")>>))>>
    [] te = "nested" -> <<SBlock(<<SLog(EStr("b")), SBlock(<<SBreak("")>>)>>)>>
    [] te = "tryfin" -> <<STry(SBlock(<<SBreak("")>>), "e", NoS, SBlock(<<SLog(EStr("G"))>>))>>
    [] te = "breakM" -> <<SBreak("M")>> [] te = "continueM" -> <<SCont("M")>>
TXHasI(kd) == kd \in {"for", "fornotest"}
TXBody(c) == (IF TXHasI(c.kd) THEN <<SLog(Plus(Var("i"), I(20)))>> ELSE <<>>)
             \o <<Inc("n"), SLog(N)>> \o TXEarlyS(c.ce) \o <<SLog(Plus(N, I(10)))>> \o TXLastS(c.te)
NLt4 == Bin("<", N, I(4))
IUp == Asg("i", Plus(Var("i"), I(1)))
TXLoop(kd, body) ==
  CASE kd = "while" -> SWhile(NLt4, SBlock(body))
    [] kd = "dowhile" -> SDo(SBlock(body), NLt4)
    [] kd = "for" -> SFor(SVar1("i", I(0)), Bin("<", Var("i"), I(4)), IUp, SBlock(body))
    [] kd = "fornotest" -> SFor(SVar1("i", I(0)), NoE, IUp, SBlock(body))
    [] kd = "forbare" -> SFor(NoS, NLt4, NoE, SBlock(body))
    [] kd = "forin" -> SForIn(TRUE, "k", Obj(<<"a", "b", "c", "d">>, <<I(1), I(2), I(3), I(4)>>), SBlock(body))
    [] kd = "forof" -> SForOf(TRUE, "v", Arr(<<I(7), I(8), I(9), I(6)>>), SBlock(body))
TXInner(c) ==
  LET l0 == TXLoop(c.kd, TXBody(c))
      l1 == IF c.ce \in {"label", "infor"} \/ c.te \in {"breakL", "continueL"} THEN SLabel("L", l0) ELSE l0
  IN <<Set("n", I(0)), l1>> \o (IF TXHasI(c.kd) THEN <<SLog(Plus(Var("i"), I(40)))>> ELSE <<>>) \o <<SLog(I(3))>>
TXCore(c) == <<SVar(<<Decl("n", I(0)), Decl("m", I(0))>>)>>
             \o Enclose(c.en, IF c.te \in {"breakM", "continueM"} THEN "breakM" ELSE "none", TXInner(c)) \o <<SLog(I(4))>>
TXProg(c) ==
  IF c.pl = "top" THEN Prog(Guarded(c.te = "throw", TXCore(c)) \o <<SLog(I(50))>>)
  ELSE Prog(<<SFun("f", <<>>, TXCore(c) \o <<SRet(I(7))>>)>> \o Guarded(c.te = "throw", <<SLog(Plus(CallF, I(100)))>>) \o <<SLog(I(50))>>)
TXAll == [kd : TXKinds, ce : TXEarly, te : TXLast, en : {"none", "for"}, pl : {"top", "fn"}]
TXValid(c) ==
  /\ (c.kd = "fornotest" => TXLeaves(c.te))                         \* without a test only the body ends the loop
  /\ (c.te \in {"breakM", "continueM"} <=> c.en = "for")
  /\ (c.te = "returnv" => c.pl = "fn")
\* quick: every (loop, last statement) with the plain early `continue` and without an early exit; every (loop, route of the early
\* exit) with the body ending in break and in return; both placements
TXQuickSel(c) ==
  \/ (c.ce \in {"none", "direct"} /\ c.pl = "fn")
  \/ (c.te \in {"break", "returnv"} /\ c.pl = "fn")
  \/ (c.te \in {"break", "continue"} /\ c.ce \in {"direct", "label"} /\ c.pl = "top")
  \/ (c.en = "for" /\ c.ce = "direct")
TXCases == {c \in TXAll : TXValid(c) /\ (~Quick \/ TXQuickSel(c))}

\* law of the two quick selections (an invariant of the enumeration run): no position, kind, level, loop, route or last statement is
\* dropped, every position occurs for a variable the owner itself declares, every (loop, last statement) and every (loop, route) occurs
Round3Coverage ==
  /\ \A pos \in CPPositions : \E q \in CPCases : q.pos = pos /\ q.kd = "local"
  /\ \A pos \in CPPositions : \E q \in CPCases : q.pos = pos /\ q.kd = "param"
  /\ \A kd \in {"param", "local", "pass"}, lvl \in {"fn", "arrow", "xarrow"} : \E q \in CPCases : q.kd = kd /\ q.lvl = lvl
  /\ \A kd \in TXKinds, te \in TXLast, ce \in {"none", "direct"} :
        \A en \in {"none", "for"} : LET c == [kd |-> kd, ce |-> ce, te |-> te, en |-> en, pl |-> "fn"] IN TXValid(c) => c \in TXCases
  /\ \A kd \in TXKinds, ce \in TXEarly : \E q \in TXCases : q.kd = kd /\ q.ce = ce /\ TXLeaves(q.te)
  /\ \A pl \in {"top", "fn"}, en \in {"none", "for"} : \E q \in TXCases : q.pl = pl /\ q.en = en

\* ======================= family UL: labels that the exit does NOT name ==========================================================
\* (round 4, reviewer) In CF / FP / TX a statement carries a label exactly when the exit names it (L on the construct, M on the
\* enclosing one), in LS the exit always names one label of the stack: no program had a label standing by, unused.  A label changes
\* nothing for an exit that does not name it: a plain `break` / `continue` still binds to the innermost switch / loop, whether that
\* statement, a statement between it and the exit, or a statement around it is labelled; an exit naming another label passes through.
\*   kd  : the statement under test (five loops, switch, block, and the non-breakable statements if, try / finally)
\*   ex  : none / break / continue / break L / continue L / break M / continue M / return v        (L: on kd, M: on the enclosing one)
\*   en  : the enclosing construct (as CF)
\*   lab : which labels stand there although the exit does not need them: "in" = L on kd, "out" = M on the enclosing statement, "both"
\*   d   : number of labels on kd when it is labelled (K: L: stmt for 2)          pl : script level / function whose call is an operand
ULKinds == LoopKinds \cup {"if", "try"}
ULExits == {"none", "break", "continue", "breakL", "continueL", "breakM", "continueM", "returnv"}
ULEncls == {"none", "if", "while", "dowhile", "for", "forin", "forof", "switch", "block", "tryfinally"}
ULLabs == {"in", "out", "both"}
ULConstruct(kd, body) ==
  CASE kd = "if" -> SIf(Bin("<", N, ENum(3)), SBlock(body), SBlock(<<SLog(EStr("else"))>>))
    [] kd = "try" -> STry(SBlock(body), "e", NoS, SBlock(<<SLog(EStr("F"))>>))
    [] OTHER -> Construct(kd, body)
ULHasL(c) == c.lab \in {"in", "both"} \/ c.ex \in {"breakL", "continueL"} \/ c.kd = "block"
ULInner(c) ==
  LET c0 == ULConstruct(c.kd, Body(c.ex, IF IsLoop(c.kd) THEN 2 ELSE 1))
      c1 == IF ULHasL(c) THEN SLabel("L", c0) ELSE c0
      c2 == IF ULHasL(c) /\ c.d = 2 THEN SLabel("K", c1) ELSE c1
  IN <<Set("n", ENum(0)), c2, SLog(ENum(3))>>
ULCore(c) == <<SVar(<<Decl("n", ENum(0)), Decl("m", ENum(0))>>)>>
             \o Enclose(c.en, IF c.lab \in {"out", "both"} THEN "breakM" ELSE c.ex, ULInner(c)) \o <<SLog(ENum(4))>>
ULProg(c) == IF c.pl = "top" THEN Prog(ULCore(c) \o <<SLog(ENum(50))>>)
             ELSE Prog(<<SFun("f", <<>>, ULCore(c) \o <<SRet(ENum(7))>>), SLog(Plus(CallF, ENum(100))), SLog(ENum(50))>>)
ULAll == [kd : ULKinds, ex : ULExits, en : ULEncls, lab : ULLabs, d : 1..2, pl : {"top", "fn"}]
ULValid(c) ==
  /\ (c.ex = "break" => IsLoop(c.kd) \/ c.kd = "switch" \/ EnclIsLoop(c.en) \/ c.en = "switch")
  /\ (c.ex = "continue" => IsLoop(c.kd) \/ EnclIsLoop(c.en))
  /\ (c.ex = "continueL" => IsLoop(c.kd))
  /\ (c.ex = "breakM" => c.en # "none")
  /\ (c.ex = "continueM" => EnclIsLoop(c.en))
  /\ (c.ex = "returnv" => c.pl = "fn")
  /\ (c.lab \in {"out", "both"} => c.en # "none")
  /\ (c.d = 2 => ULHasL(c))
  \* at least one label stands there that the exit does not name (the others are CF programs)
  /\ (c.lab = "in" => c.ex \notin {"breakL", "continueL"} /\ ~(c.kd = "block" /\ c.d = 1))
  /\ (c.lab = "out" => c.ex \notin {"breakM", "continueM"})
  /\ (c.lab = "both" /\ c.ex \in {"breakM", "continueM"} => ~(c.kd = "block" /\ c.d = 1))
\* quick: every (statement, exit) with the unused label on the statement, alone and inside a `for`; two unused labels for the plain
\* exits in a function, alone / in a while / in a switch; the unused label on every enclosing construct (alone and next to one on
\* the statement) for a loop and a switch with the plain exits and `break L`
ULD1(kd) == IF kd = "block" THEN 2 ELSE 1
ULQuickSel(c) ==
  \/ (c.lab = "in" /\ c.d = ULD1(c.kd) /\ c.en \in {"none", "for"} /\ c.pl = (IF c.ex = "returnv" THEN "fn" ELSE "top"))
  \/ (c.lab = "in" /\ c.d = 2 /\ c.ex \in {"break", "continue"} /\ c.en \in {"none", "while", "switch"} /\ c.pl = "fn")
  \/ (c.lab \in {"out", "both"} /\ c.d = 1 /\ c.kd \in {"forin", "switch"} /\ c.ex \in {"break", "continue", "breakL"} /\ c.pl = "fn")
ULCases == {c \in ULAll : ULValid(c) /\ (~Quick \/ ULQuickSel(c))}
\* law of the quick selection (an invariant of the enumeration run)
Round4Coverage ==
  /\ \A kd \in ULKinds, ex \in ULExits, en \in {"none", "for"} :
        LET c == [kd |-> kd, ex |-> ex, en |-> en, lab |-> "in", d |-> ULD1(kd), pl |-> IF ex = "returnv" THEN "fn" ELSE "top"] IN ULValid(c) => c \in ULCases
  /\ \A kd \in ULKinds, ex \in {"break", "continue"} : \E q \in ULCases : q.kd = kd /\ q.ex = ex /\ q.d = 2 /\ q.lab = "in" /\ q.pl = "fn"
  /\ \A en \in ULEncls \ {"none"}, lab \in {"out", "both"}, ex \in {"break", "breakL"} : \E q \in ULCases : q.en = en /\ q.lab = lab /\ q.ex = ex
  /\ \A en \in {"while", "dowhile", "for", "forin", "forof"}, lab \in {"out", "both"} :
        \E q \in ULCases : q.en = en /\ q.lab = lab /\ q.ex = "continue" /\ q.kd = "switch"
  /\ \A d \in 1..2, pl \in {"top", "fn"} : \E q \in ULCases : q.d = d /\ q.pl = pl

\* ======================= the case space ===========================================================
FamilyProg(cs) == CASE cs.fam = "CF" -> CFProg(cs.c) [] cs.fam = "SW" -> SWProg(cs.c) [] cs.fam = "EO" -> EOProg(cs.c.j)
                    [] cs.fam = "HO" -> HOProg(cs.c.j) [] cs.fam = "CV" -> CVProg(cs.c.j) [] cs.fam = "CL" -> CLProg(cs.c)
                    [] cs.fam = "CH" -> CHProg(cs.c) [] cs.fam = "IR" -> IRFamProg(cs.c)
                    [] cs.fam = "SH" -> SHProg(cs.c) [] cs.fam = "BL" -> BLProg(cs.c)
                    [] cs.fam = "XA" -> XAProg(cs.c) [] cs.fam = "FP" -> FPProg(cs.c) [] cs.fam = "LS" -> LSProg(cs.c)
                    [] cs.fam = "CP" -> CPProg(cs.c) [] cs.fam = "TX" -> TXProg(cs.c) [] cs.fam = "UL" -> ULProg(cs.c)
Fams == IF "FAMS" \in DOMAIN IOEnv THEN IOEnv.FAMS ELSE "CF SW EO HO CV CL CH IR SH BL XA FP LS CP TX UL"
Has(f) == \E j \in 1..(Len(Fams) - 1) : SubSeq(Fams, j, j + 1) = f
AllCases == (IF Has("CF") THEN {[fam |-> "CF", c |-> c] : c \in CFCases} ELSE {})
            \cup (IF Has("SW") THEN {[fam |-> "SW", c |-> c] : c \in SWCases} ELSE {})
            \cup (IF Has("EO") THEN {[fam |-> "EO", c |-> [j |-> j]] : j \in 1..Len(EOBodies)} ELSE {})
            \cup (IF Has("HO") THEN {[fam |-> "HO", c |-> [j |-> j]] : j \in 1..Len(HOBodies)} ELSE {})
            \cup (IF Has("CV") THEN {[fam |-> "CV", c |-> [j |-> j]] : j \in 1..Len(CVBodies)} ELSE {})
            \cup (IF Has("CL") THEN {[fam |-> "CL", c |-> c] : c \in CLCases} ELSE {})
            \cup (IF Has("CH") THEN {[fam |-> "CH", c |-> c] : c \in CHCases} ELSE {})
            \cup (IF Has("IR") THEN {[fam |-> "IR", c |-> c] : c \in IRCases} ELSE {})
            \cup (IF Has("SH") THEN {[fam |-> "SH", c |-> c] : c \in SHCases} ELSE {})
            \cup (IF Has("BL") THEN {[fam |-> "BL", c |-> c] : c \in BLCases} ELSE {})
            \cup (IF Has("XA") THEN {[fam |-> "XA", c |-> c] : c \in XACases} ELSE {})
            \cup (IF Has("FP") THEN {[fam |-> "FP", c |-> c] : c \in FPCases} ELSE {})
            \cup (IF Has("LS") THEN {[fam |-> "LS", c |-> c] : c \in LSCases} ELSE {})
            \cup (IF Has("CP") THEN {[fam |-> "CP", c |-> c] : c \in CPCases} ELSE {})
            \cup (IF Has("TX") THEN {[fam |-> "TX", c |-> c] : c \in TXCases} ELSE {})
            \cup (IF Has("UL") THEN {[fam |-> "UL", c |-> c] : c \in ULCases} ELSE {})

\* ======================= state machine around MiniJS ===============================================
VARIABLES rec_i, cur, mst                \* rec_i: judged record; cur: enumerated case; mst: machine state
vars == <<rec_i, cur, mst>>
Invariants == KontWF(mst) /\ FinallyOnce(mst) /\ TryAccounting(mst)
AsIsInvariants == \A j \in 1..Len(mst.k) : mst.k[j].f \in ValueFrames \cup StmtFrames
LogAppendOnly == [][IsPrefix(mst.log, mst'.log)]_vars
MachineNext == ~Halted(mst) /\ mst' = Step(mst, MaxSteps) /\ UNCHANGED <<rec_i, cur>>

\* ---------------- Enum: every family program runs on the reference machine -------------------------
\* a program may name globals that the host has set to 0 before the script runs (ProgPre, family FP): they are bound like
\* any other global, without a declaration in the script
InitP(prog, devs) == LET s0 == InitState(prog, devs) IN
                     IF "pre" \in DOMAIN prog THEN [s0 EXCEPT !.heap[1].vars = [x \in {prog.pre[j] : j \in 1..Len(prog.pre)} |-> VInt(0)] @@ @] ELSE s0
EnumInit == /\ rec_i = 0 /\ cur \in AllCases /\ mst = InitP(FamilyProg(cur), {})
\* law of the families: every program terminates inside the fragment within the step bound
EnumTerminates == Halted(mst) => mst.out.o \in {"value", "throw"}
EnumEmit == ~Halted(mst) \/ PrintT(ToJson([fam |-> cur.fam, par |-> cur.c, prog |-> FamilyProg(cur), steps |-> mst.steps]))

\* ---------------- Judge ---------------------------------------------------------------------------------
Recs == ndJsonDeserialize(IOEnv.OBS_FILE)                 \* [id, prog, devs, log, out, pos]
\* named deviations (as-is rules of the engine for recorded findings); "*" selects all of them
\* (the as-is rules of repaired defects - Dev_NoFnHoist, Dev_NoGlobalVarHoist, Dev_VarRedecl, Dev_SwitchDefaultOrder,
\*  Dev_CallbackThrow, Dev_CatchParamScope, Dev_ErrorHierarchy, Dev_NoRuntimeLoc, Dev_NoLocInFunctions, Dev_LocNextStatement, Dev_OwnNameSlot (repaired by
\*  9a85e54) - stay in MiniJS as documentation of what
\*  the snapshot did; they are no longer switched on, so a regression is a VIOLATION)
AllDevs == {"Dev_CompletionTail", "Dev_ArrowArguments", "Dev_CatchParamShared", "Dev_LocAfterLoopBody"}
DevsOf(r) == LET S == {r.devs[j] : j \in 1..Len(r.devs)} IN IF "*" \in S THEN AllDevs ELSE S
\* r.pos: [nid, line, column, statement line, statement column] per marked node (harness/render.py).  A location reported
\* for node nid is right if it is the node's own position or the start of the statement that contains it
PosOK(r, nid, fld, val) == \E j \in 1..Len(r.pos) : r.pos[j][1] = nid /\ (IF fld = "line" THEN val \in {r.pos[j][2], r.pos[j][4]}
                                                                                         ELSE val \in {r.pos[j][3], r.pos[j][5]})
\* a value of the machine against the projected engine value
ValMatches(r, v, a) ==
  CASE v.t = "int" -> a.t = "int" /\ a.i = v.i
    [] v.t = "str" -> a.t = "str" /\ a.s = v.s
    [] v.t = "bool" -> a.t = "bool" /\ a.b = v.b
    [] v.t \in {"undef", "null"} -> a.t = v.t
    [] v.t = "ref" -> a.t = "ref" /\ a.h = v.h
    [] v.t = "loc" -> a.t = "int" /\ PosOK(r, v.nid, v.f, a.i)
    [] v.t = "hostnone" -> a.t = "host" /\ a.d = "NoneType"                     \* as-is only (Dev_NoLocInFunctions)
    [] v.t = "anyloc" -> a.t = "int" \/ (a.t = "host" /\ a.d = "NoneType")       \* as-is only (Dev_NoRuntimeLoc)
    [] OTHER -> FALSE
LogMatches(r, lg, alog) == Len(lg) = Len(alog) /\ \A j \in 1..Len(lg) : ValMatches(r, lg[j], alog[j])
LogPrefixMatches(r, lg, alog) == Len(lg) <= Len(alog) /\ \A j \in 1..Len(lg) : ValMatches(r, lg[j], alog[j])
Contains(big, small) == \E j \in 0..(Len(big) - Len(small)) : SubSeq(big, j + 1, j + Len(small)) = small
OutMatches(r, out, aout) ==
  CASE out.o = "value" -> aout.o = "value" /\ ValMatches(r, out.v, aout.v)
    [] out.o = "throw" -> aout.o = "jserror" /\ Contains(aout.msg, out.msg)      \* the JSError describes the thrown value
    [] OTHER -> FALSE
Agrees(r, ms) ==
  IF ms.out.o = "opaque"                   \* from here the as-is behaviour depends on interpreter internals:
  THEN LogPrefixMatches(r, ms.log, r.log) /\ r.out.o \in {"value", "jserror", "timelimit"}
  ELSE LogMatches(r, ms.log, r.log) /\ OutMatches(r, ms.out, r.out)
JudgeInit == /\ rec_i \in 1..Len(Recs) /\ cur = <<>> /\ mst = InitP(Recs[rec_i].prog, DevsOf(Recs[rec_i]))
JudgeEmit == ~Halted(mst) \/
  PrintT(ToJson([id |-> Recs[rec_i].id, ok |-> Agrees(Recs[rec_i], mst), o |-> mst.out.o, fired |-> mst.fired,
                 exp |-> [log |-> mst.log, out |-> mst.out], steps |-> mst.steps]))
=============================================================================
