-------------------------------- MODULE C10 --------------------------------
(* C10 - the regex engine is total.                                                           *)
(*   Enum      : the construction space (vocabulary, length, flag strings, special patterns)   *)
(*               and the matching grid (catastrophic families x subject lengths x modes).       *)
(*   JudgeCons : outcome typing of every construction channel + agreement with the pattern     *)
(*               acceptor of RegexSem wherever the string lies inside the specified grammar.    *)
(*   JudgeRun  : observed step / stack / poll counts of matching runs against the budget        *)
(*               bounds of the RegexVM model; outcome typing.                                   *)
(*   JudgeFold : matching under the i flag against subjects with characters whose case mapping  *)
(*               is several characters or leaves ASCII: outcome typing, and the exact result     *)
(*               wherever the documented ASCII-only folding rule decides it.                     *)
(* The budget model itself (RegexVM.tla) is model-checked separately.                           *)
EXTENDS RegexSem, Json, IOUtils

Tier  == IF "TIER" \in DOMAIN IOEnv THEN IOEnv.TIER ELSE "quick"
Quick == Tier = "quick"

\* ---------------- construction space -----------------------------------------------------------
Vocabulary == U("a\\()[]{}*+?|^$.-,1:=!<")                    \* 22 symbols
MaxPatLen == IF Quick THEN 4 ELSE 5
FlagLetters == U("gimsuyx")                                  \* x: not a flag
MaxFlagLen == 3
\* special constructions: [name, head, unit, count, tail] = head \o unit^count \o tail (built by the driver)
Special(name, head, unit, count, tail, expect) == [name |-> name, head |-> U(head), unit |-> U(unit), count |-> count, tail |-> U(tail), expect |-> expect]
\* huge counts over bodies that match only the empty string (most of them compile to few or no instructions): the count
\* is the only thing that is large, so construction has to be bounded in the count.  "outside": an implementation may refuse
\* them as too large and whether a quantified assertion (\b{n}) is in the grammar is an accept / reject question (string space);
\* judged here: defined outcome in every channel, the channels agree, and the compiler's work is bounded (ConsWorkOK).
EmptyBodies == {<<"nc", "(?:)">>, <<"cap", "()">>, <<"la", "(?=)">>, <<"alt", "(?:|)">>, <<"wb", "\\b">>}
HugeCounts == {<<"1e6", "1000000">>, <<"1e9", "1000000000">>, <<"2to1e9", "2,1000000000">>}
EmptyRepSpecials ==
  {Special("emptyrep-" \o b[1] \o "-" \o c[1], b[2] \o "{" \o c[2] \o "}", "", 0, "", "outside") : b \in EmptyBodies, c \in HugeCounts}
  \cup {Special("emptyrep-nested-" \o c[1], "((?:){" \o c[2] \o "}){" \o c[2] \o "}", "", 0, "", "outside") : c \in HugeCounts}
  \cup {Special("emptyrep-nested-nc-" \o c[1], "(?:(?:){" \o c[2] \o "}){" \o c[2] \o "}", "", 0, "", "outside") : c \in HugeCounts}
Specials == {
  Special("groups-seq", "", "(a)", 3000, "", "accept"), Special("groups-nested", "", "(", 3000, "", "reject"),
  Special("groups-nested-closed", "(((((((((((((((((((((((((((((((((((((((((((((((((((((((((((((", "a", 1, ")))))))))))))))))))))))))))))))))))))))))))))))))))))))))))))", "accept"),
  Special("bref-big", "(a)", "", 0, "\\9999", "outside"), Special("class-long", "[", "a-b", 2000, "]", "accept"),
  Special("alt-many", "a", "|a", 3000, "", "accept"), Special("quant-20000", "a{20000}", "", 0, "", "accept"),
  Special("quant-nested", "(?:(?:a{60}){60}){60}", "", 0, "", "accept"), Special("quant-range", "a{0,20000}", "", 0, "", "accept"),
  \* in the grammar, but an implementation may refuse them as too large ("outside"): what it may not do is hang
  Special("quant-huge", "a{100000000}", "", 0, "", "outside"), Special("quant-huge-range", "a{1,99999999999}", "", 0, "", "outside"),
  Special("quant-out-of-order", "a{2,1}", "", 0, "", "reject"), Special("trailing-backslash", "abc\\", "", 0, "", "reject"),
  Special("unterminated-class", "[abc", "", 0, "", "reject"), Special("lookbehind-open", "(?<=a", "", 0, "", "reject"),
  Special("star-chain", "a", "*", 2, "", "reject"), Special("lazy-chain", "a+?", "?", 1, "", "reject"),
  Special("long-literal", "", "ab", 20000, "", "accept"), Special("deep-lookahead", "", "(?=", 400, "", "reject")}
  \cup EmptyRepSpecials

\* ---------------- matching grid -----------------------------------------------------------------
\* [fam, src, unit, tail]: subject = unit^n \o tail
Family(fam, src, unit, tail) == [fam |-> fam, src |-> U(src), unit |-> U(unit), tail |-> U(tail)]
Families == {
  Family("nested-plus", "(a+)+b", "a", ""), Family("alt-overlap", "(a|a)*b", "a", ""), Family("star-star", "(a*)*b", "a", ""),
  Family("alt-prefix", "(a|aa)+b", "a", ""), Family("dot-star-star", "(.*)*x", "a", ""),
  Family("lookahead-nested", "(?=(a+)+b)", "a", ""), Family("lookbehind-nested", "(?<=(a+)+)b", "a", "c"),
  Family("bref-loop", "(a+)\\1+b", "a", ""), Family("depth3", "((a+)+)+b", "a", ""),
  Family("plain-star", "a*", "a", ""), Family("alt-star", "(?:a|b)*c", "ab", ""), Family("lazy-dot", "^(.*?,){8}x", "1,", ""),
  Family("lookahead-in-loop", "(?:(?=a)a)*b", "a", ""), Family("optional-chain", "a?a?a?a?a?a?a?a?aaaaaaaa", "a", "")}
Lengths == IF Quick THEN {10, 100, 10000} ELSE {10, 30, 100, 1000, 10000}
Modes == {"api", "api-deadline", "script", "script-deadline"}

\* ---------------- case-folding grid (matching under the i flag) -----------------------------------
\* subject characters whose upper / lower case mapping is several characters or leaves (enters) ASCII:
\*   U+00DF (upper "SS"), U+0130 (lower "i" + U+0307), U+0131 (upper "I"), U+FB01 (upper "FI"), U+1E9E (lower U+00DF),
\*   U+03C2 (upper U+03A3, whose lower is U+03C3), U+1F600 as a surrogate pair.
FoldChars == {<<223>>, <<304>>, <<305>>, <<64257>>, <<7838>>, <<962>>, <<55357, 56832>>}
\* exact: the pattern is ASCII, so the documented folding rule decides the result (FoldExpect); otherwise only the outcome
\* type is judged (for non-ASCII pattern letters both "unchanged" and the Unicode mapping are accepted, DESIGN 4.4 item 6;
\* whether \w and . take a non-ASCII unit is not a question of folding: C09's business)
FoldPat(name, src, exact) == [name |-> name, src |-> src, exact |-> exact]
FoldPatterns(c) == {
  FoldPat("letter", U("a"), TRUE), FoldPat("class", U("[a-z]"), TRUE), FoldPat("neg-class", U("[^a-z]"), TRUE),
  FoldPat("bref", U("(x)\\1"), TRUE), FoldPat("word", U("\\w"), FALSE), FoldPat("dot", U("."), FALSE),
  FoldPat("self", c, FALSE), FoldPat("self-class", U("[") \o c \o U("]"), FALSE), FoldPat("self-bref", U("(") \o c \o U(")\\1"), FALSE)}
FoldFlags == {U("i"), U("gi"), U("im")}
FoldSubjects(c) == {c, U("x") \o c, c \o U("A"), c \o c, U("xX") \o c, c \o U("a") \o c, U("_") \o c \o U("1")}
\* package API exec; script level: exec, test, String.prototype.match / search / replace / split with the regex
FoldOps == <<"api", "exec", "test", "match", "search", "replace", "split">>

\* ---------------- Enum ----------------------------------------------------------------------------
VARIABLES ph, cur, rec_i
vars == <<ph, cur, rec_i>>
EnumInit == ph = "start" /\ cur = <<>> /\ rec_i = 0
EnumNext == /\ ph = "start" /\ UNCHANGED rec_i
            /\ \/ ph' = "out" /\ cur' = [kind |-> "strings", vocab |-> Vocabulary, maxlen |-> MaxPatLen]
               \/ ph' = "out" /\ cur' = [kind |-> "flags", letters |-> FlagLetters, maxlen |-> MaxFlagLen]
               \/ \E s \in Specials : ph' = "out" /\ cur' = [kind |-> "special"] @@ s
               \/ \E f \in Families : ph' = "out" /\ cur' = [kind |-> "family", lengths |-> Lengths, modes |-> Modes] @@ f
               \* one record per character: the driver runs patterns x flags x subjects x ops (the cross product stated here)
               \/ \E c \in FoldChars : ph' = "out" /\ cur' = [kind |-> "fold", c |-> c, pats |-> FoldPatterns(c), flags |-> FoldFlags,
                                                                 subjects |-> FoldSubjects(c), ops |-> FoldOps]
EnumEmit == ph = "start" \/ PrintT(ToJson(cur))
\* laws of the acceptor, checked over every string up to length 3 of the vocabulary (INVARIANT of a separate small run)
RECURSIVE WordsUpTo(_, _)
WordsUpTo(alpha, n) == IF n = 0 THEN {<<>>} ELSE LET w == WordsUpTo(alpha, n - 1) IN w \cup {Append(u, c) : u \in {v \in w : Len(v) = n - 1}, c \in alpha}
VocabSet == {Vocabulary[k] : k \in 1..Len(Vocabulary)}
LawInit == ph = "law" /\ rec_i = 0 /\ cur \in WordsUpTo(VocabSet, 2)
LawNext == /\ ph = "law" /\ rec_i = 0 /\ Len(cur) = 2
           /\ \E c \in VocabSet : cur' = Append(cur, c) /\ UNCHANGED <<ph, rec_i>>
AcceptorLaw ==
  ph # "law" \/
  LET s == ParseMode(cur, FALSE)  b == ParseMode(cur, TRUE) IN
  /\ (s.ok => b.ok)                                                        \* 22.2.1 is contained in B.1.2
  /\ (s.ok => LET again == Parse(Render(s.a)) IN again.ok /\ Norm(again.a) = Norm(s.a))    \* accepted text -> tree -> text -> same tree
  /\ (s.ok => WellNumbered(s.a) \/ \E k \in BrefsIn(s.a) : k > NCaps(s.a))
  /\ Classify(cur) \in {"accept", "outside", "reject"}

\* ---------------- JudgeCons ---------------------------------------------------------------------------
Recs == ndJsonDeserialize(IOEnv.OBS_FILE)
\* a construction record: [id, p (units) | big (name of a special with its expectation), ch: outcomes of the channels
\*   <<api, literal, RegExp(), new RegExp(), "s".match(P), "s".search(P)>>, un: outcomes of the script channels without try/catch;
\*   specials also: plen (length of the pattern), work = <<AST nodes visited by the compiler, instructions emitted>> (API channel)]
\* String.prototype.match and search build a regular expression from a string argument (ECMA-262 22.1.3.13 / .19: RegExpCreate),
\* so they are construction channels; split / replace / replaceAll with a string do not construct one.
\* outcome codes: "ok" | "SyntaxError" (caught by script try/catch) | "caught:<class>" | "syntax" (eval raised JSSyntaxError)
\*   | "jserror:<name>" | "RegExpError" (API channel: the package's own documented error) | "host:<type>" | "hang" | "skip"
AcceptOutcome(o) == o = "ok"
\* uncaught: any JSError at the Python boundary (its class name is recorded, not judged: DESIGN 4.4 item 8)
RejectOutcome(c, o) == IF c = 1 THEN o = "RegExpError" ELSE o \in {"SyntaxError", "syntax", "jserror"}
TotalOutcome(c, o) == o = "skip" \/ AcceptOutcome(o) \/ RejectOutcome(c, o)
ConstructorChannels == 2..4          \* literal, RegExp(), new RegExp()
StringChannels == {5, 6}             \* "s".match(P), "s".search(P)
\* bounded construction work, by counting (not by the clock): the compiler may visit AST nodes only in proportion to the program
\* it produces.  An AST has at most 3L nodes for a pattern of length L; a visit either emits an instruction somewhere below it
\* (each instruction lies below at most 3L nested visits) or is one of at most 3L barren nodes next to such a visit - unless a
\* body that emits nothing is compiled over and over, once per count of its quantifier.  Generous: (3L)^2 visits per instruction.
\* work[1] = -1: the compiler's internals could not be observed (not judged; the absolute counting cap and the watchdog remain).
WorkFactor(plen) == IF plen >= 10000 THEN 1000000000 ELSE 9 * plen * plen
ConsWorkOK(r) == r.work[1] < 0 \/ r.work[1] \div (r.work[2] + 1) <= WorkFactor(r.plen)
\* why does the engine disagree with the acceptor?  the grammar with one rule relaxed at a time
HugeNames == {"quant-huge", "quant-huge-range"}
ConsVerdict(r) ==
  LET cls == IF "expect" \in DOMAIN r THEN r.expect ELSE Classify(r.p)
      \* ref: what new RegExp(P) did in the same form (caught / uncaught)
      Bad(c, o, ref) ==                             \* -> "" (fine) | deviation name | "!..." (unexplained)
        IF o = "skip" THEN ""
        ELSE IF ~TotalOutcome(c, o)
             THEN (IF o = "hang" /\ "name" \in DOMAIN r /\ r.name \in HugeNames THEN "Dev_QuantifierUnroll"   \* the compiler unrolls counted quantifiers: {10^8} never finishes
                   \* the parser's private error type leaks out of eval at the three constructor sites (the finding names them; the
                   \* string-pattern channels are not covered by it: there the same leak is reported)
                   ELSE IF c \in ConstructorChannels /\ o = "host:RegExpError" /\ cls # "accept" THEN "Dev_RegExpErrorHost"
                   ELSE IF c \in ConstructorChannels /\ o = "host:RegExpError" THEN "!accept-rejected"
                   ELSE "!")
        ELSE IF c = 1 /\ "work" \in DOMAIN r /\ ~ConsWorkOK(r) THEN "!compile-work"
        \* lexer.py: "/=" is always taken as the divide-assign token, so a literal whose pattern starts with "=" is a syntax error
        ELSE IF c = 2 /\ cls # "reject" /\ "p" \in DOMAIN r /\ r.p # <<>> /\ r.p[1] = 61 /\ RejectOutcome(c, o) THEN "Dev_LiteralSlashAssign"
        ELSE IF cls = "accept" /\ ~AcceptOutcome(o) THEN "!accept-rejected"
        ELSE IF cls = "reject" /\ AcceptOutcome(o) THEN "!reject-accepted"
        \* whatever the class (also outside the judged grammar): a string pattern is accepted iff new RegExp(pattern) accepts it
        ELSE IF c \in StringChannels /\ ref # "skip" /\ TotalOutcome(4, ref) /\ AcceptOutcome(o) # AcceptOutcome(ref) THEN "!string-channel-disagrees"
        ELSE ""
      RefOf(seq, k) == IF k <= Len(seq) THEN seq[k] ELSE "skip"
  IN [id |-> r.id, cls |-> cls, bad |-> [c \in 1..Len(r.ch) |-> Bad(c, r.ch[c], RefOf(r.ch, 4))],
      un |-> [c \in 1..Len(r.un) |-> Bad(c + 1, r.un[c], RefOf(r.un, 3))]]
HasFwd(a) == Fwd(a, 0).bad
\* second pass over the disagreements only: name the rule of the grammar the engine gets wrong
\*   rec: [id, p, kind ("accept-rejected" | "reject-accepted")]
RelaxedAccepts(p, opt) == ParseOpt(p, {opt}).ok
WhyVerdict(r) ==
  [id |-> r.id,
   dev |-> IF r.kind = "accept-rejected"
           THEN (IF Parse(r.p).ok /\ HasFwd(Parse(r.p).a) THEN "Dev_ForwardRef" ELSE "")
           ELSE (IF RelaxedAccepts(r.p, "rangeOrder") THEN "Dev_ClassRangeOrder"
                 ELSE IF RelaxedAccepts(r.p, "quantOrder") THEN "Dev_QuantOrder"
                 ELSE IF RelaxedAccepts(r.p, "lbQuant") THEN "Dev_LookbehindQuantified"
                 ELSE IF RelaxedAccepts(r.p, "looseEscape") THEN "Dev_LooseEscape"
                 ELSE "")]
\* flags: valid iff letters of gimsuy (d, v: newer editions, not judged), no duplicates
FlagVerdict(r) ==
  LET fs == r.fl
      known == \A k \in 1..Len(fs) : fs[k] \in {103, 105, 109, 115, 117, 121}
      newer == \E k \in 1..Len(fs) : fs[k] \in {100, 118}
      dup == \E j, k \in 1..Len(fs) : j # k /\ fs[j] = fs[k]
      cls == IF newer THEN "outside" ELSE IF known /\ ~dup THEN "accept" ELSE "reject"
      Bad(c, o) == IF o = "skip" THEN ""
                   \* a literal with a letter that is no flag: the lexer stops before it and the program goes on with an identifier
                   ELSE IF c = 2 /\ cls = "reject" /\ ~known /\ o \in {"caught:ReferenceError", "jserror"} THEN "Dev_FlagsNotValidated"
                   ELSE IF ~TotalOutcome(c, o) THEN "!"
                   ELSE IF cls = "accept" /\ ~AcceptOutcome(o) THEN "!accept-rejected"
                   \* as-is: the package API and the lexer take any letters; RegExp() / new RegExp() validate them
                   ELSE IF cls = "reject" /\ AcceptOutcome(o) THEN (IF c \in {1, 2} THEN "Dev_FlagsNotValidated" ELSE "!reject-accepted")
                   ELSE ""
  IN [id |-> r.id, cls |-> cls, bad |-> [c \in 1..Len(r.ch) |-> Bad(c, r.ch[c])]]

ConsInit == /\ rec_i \in 1..Len(Recs) /\ ph = "cons" /\ cur = <<>>
            /\ LET r == Recs[rec_i]
                   v == IF "fl" \in DOMAIN r THEN FlagVerdict(r) ELSE ConsVerdict(r)
                   quiet == \A c \in 1..Len(v.bad) : v.bad[c] = ""
               IN PrintT(ToJson(IF quiet /\ ("un" \notin DOMAIN v \/ \A c \in 1..Len(v.un) : v.un[c] = "") THEN [id |-> v.id, cls |-> v.cls] ELSE v))
WhyInit == /\ rec_i \in 1..Len(Recs) /\ ph = "why" /\ cur = <<>> /\ PrintT(ToJson(WhyVerdict(Recs[rec_i])))

\* ---------------- JudgeRun ----------------------------------------------------------------------------
\* the real budgets (regex/vm.py RegexVM defaults; the run is driven with poll_interval = 1)
StepLimit == 100000
StackLimit == 10000
\* a run record: [id, fam, n, mode, out, ty, attempts, steps: [re, la, lb], maxstep: [re, la, lb], maxstack, polls, calls, capped]
RunVerdict(r) ==
  LET total == r.steps.re + r.steps.la + r.steps.lb
      clauses ==
        <<IF r.maxstep.re <= StepLimit + 1 THEN "" ELSE "!step-bound",                        \* RegexVM.StepBound
          IF r.attempts <= r.len + 1 THEN "" ELSE "!attempts",
          IF r.steps.re <= r.attempts * (StepLimit + 1) THEN "" ELSE "!work-bound",            \* RegexVM.WorkBound
          IF r.maxstack <= StackLimit + 1 THEN "" ELSE "!stack-bound",                        \* RegexVM.StackBound
          IF r.mode \notin {"api", "api-deadline"} \/ r.polls >= total THEN "" ELSE "!poll-bound",   \* RegexVM.PollBound with poll_interval = 1
          IF r.maxstep.la <= StepLimit + 1 /\ r.maxstep.lb <= StepLimit + 1 THEN "" ELSE "Dev_SubNoStepLimit",   \* RegexVM.SubStepBound
          \* outcome: a match, null (also: step budget exhausted), or an error of the JSError family
          CASE r.out \in {"match", "null"} -> ""
            [] r.out = "jserror" -> IF r.mode \in {"script", "script-deadline"} THEN "" ELSE "!outcome"     \* e.g. RangeError for an exhausted stack
            [] r.out = "overflow" -> IF r.mode \in {"api", "api-deadline"} /\ r.maxstack > StackLimit THEN "" ELSE "!overflow-below-limit"
            [] r.out = "capped" -> ""                                                          \* bounded by counting: every clause above held on the observed prefix
            [] r.out = "timeout" -> IF r.mode \in {"api-deadline", "script-deadline"} THEN "" ELSE "!timeout-without-deadline"
            [] r.out = "host" /\ r.ty = "RegexStackOverflow" -> IF r.maxstack > StackLimit THEN "Dev_StackOverflowHost" ELSE "!overflow-below-limit"
            [] OTHER -> "!outcome",
          \* a deadline must end the run: the poll callback said stop, the matcher may not go on
          IF r.mode \in {"api-deadline", "script-deadline"} /\ r.out = "capped" THEN "!deadline-ignored" ELSE "">>
  IN [id |-> r.id, bad |-> SelectSeq(clauses, LAMBDA c : c # "")]
RunInit == /\ rec_i \in 1..Len(Recs) /\ ph = "run" /\ cur = <<>> /\ PrintT(ToJson(RunVerdict(Recs[rec_i])))

\* ---------------- JudgeFold ---------------------------------------------------------------------------
\* a fold record: [id, src (units), fl (units), subj (units), exact, ops, out: one code per op, ty: detail (recorded, not judged)]
\* outcome codes: "match" | "null" | "caught" (script catch received an error) | "jserror" | "host" | "hang" | "timelimit" | "noresult"
\* Totality: a match, null or - at script level - an error of the JSError family; a host exception (the defect this grid was
\* added for: ord() of the two-character upper case of U+00DF) or a hang never.
FoldTyped(c, o) == o \in {"match", "null"} \/ (c > 1 /\ o \in {"caught", "jserror"})
\* The documented folding rule (/repo/spec.md "RegExp: case folding only for ASCII"; DESIGN 4.4 item 6) = RegexSem's Canon:
\* only ASCII letters are folded, so an ASCII letter or range of the pattern never takes a non-ASCII subject unit through
\* folding and a negated ASCII class takes every one of them.  For these characters ECMA-262's Canonicalize agrees (a mapping
\* to several units, or from a non-ASCII to an ASCII unit, is not applied).  Only match / null is compared: positions would
\* depend on how an astral character is counted (C16's business).
FoldExpect(r) ==
  LET t == Parse(r.src)
      f == Flags(\E k \in 1..Len(r.fl) : r.fl[k] = 105, \E k \in 1..Len(r.fl) : r.fl[k] = 109, FALSE)
  IN IF ~t.ok THEN "?" ELSE IF Search(t.a, r.subj, f, 0, {}).ok THEN "match" ELSE "null"
FoldVerdict(r) ==
  LET exp == IF r.exact THEN FoldExpect(r) ELSE "-"
      Bad(c) == IF ~FoldTyped(c, r.out[c]) THEN "!outcome"
                ELSE IF r.exact /\ r.out[c] # exp THEN "!folding"
                ELSE ""
  IN [id |-> r.id, exp |-> exp, bad |-> [c \in 1..Len(r.out) |-> Bad(c)]]
FoldInit == /\ rec_i \in 1..Len(Recs) /\ ph = "fold" /\ cur = <<>> /\ PrintT(ToJson(FoldVerdict(Recs[rec_i])))
JudgeNext == UNCHANGED vars
=============================================================================
