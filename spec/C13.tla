-------------------------------- MODULE C13 --------------------------------
(* C13 - parsing respects the grammar: precedence, layout, rejection.                *)
(*   Enum  : expression trees (all operator pairs, triples), invalid-target and       *)
(*           unary-base-of-power forms, closing-bracket / terminator deletions,         *)
(*           literal spellings - printed as token sequences / code units.              *)
(*   Laws  : ParseExpr(PrintExpr(t)) = t, minimal parentheses, rejected forms do not    *)
(*           parse, literal spellings denote their value (checked while enumerating).  *)
(*   Judge : observations of the real parser / evaluator against JsGrammar.            *)
EXTENDS JsGrammar, LexerFSM, JsVal, Json, IOUtils

Tier  == IF "TIER" \in DOMAIN IOEnv THEN IOEnv.TIER ELSE "quick"
Quick == Tier = "quick"

\* ---------------- constructors ----------------------------------------------------------------
BinList == <<",", "||", "&&", "|", "^", "&", "==", "!=", "===", "!==", "<", ">", "<=", ">=", "in", "instanceof",
             "<<", ">>", ">>>", "+", "-", "*", "/", "%", "**">>
UnList  == <<"-", "+", "!", "~", "typeof", "void", "delete">>
AsgList == <<"=", "+=", "-=", "*=", "/=", "%=", "**=", "&=", "|=", "^=", "<<=", ">>=", ">>>=">>
Ctors == [ci \in 1..Len(BinList) |-> [t |-> "bin", op |-> BinList[ci], ar |-> 2]]
      \o [ci \in 1..Len(UnList)  |-> [t |-> "un",  op |-> UnList[ci],  ar |-> 1]]
      \o <<[t |-> "pre", op |-> "++", ar |-> 1], [t |-> "pre", op |-> "--", ar |-> 1],
           [t |-> "post", op |-> "++", ar |-> 1], [t |-> "post", op |-> "--", ar |-> 1],
           [t |-> "cond", op |-> "", ar |-> 3]>>
      \o [ci \in 1..Len(AsgList) |-> [t |-> "asg", op |-> AsgList[ci], ar |-> 2]]
      \o <<[t |-> "arrow", op |-> "v", ar |-> 1], [t |-> "mem", op |-> "k", ar |-> 1], [t |-> "idx", op |-> "", ar |-> 2],
           [t |-> "call", op |-> "", ar |-> 2], [t |-> "new", op |-> "", ar |-> 2], [t |-> "arr", op |-> "", ar |-> 2]>>
NC == Len(Ctors)
\* one representative per precedence level / construct (quick tier triples)
RepOps == {",", "||", "&&", "|", "==", "<", "<<", "+", "*", "**", "typeof", "="}
Reps == {ci \in 1..NC : Ctors[ci].t \notin {"bin", "un", "asg"} \/ Ctors[ci].op \in RepOps} \ {ci \in 1..NC : Ctors[ci].t \in {"pre", "post"} /\ Ctors[ci].op = "--"}

L1 == <<"a", "b", "c">>
L2 == <<"p", "q", "r">>
L3 == <<"x", "y", "z">>
LeafFor(cc, nm) == IF cc.t = "un" /\ cc.op = "delete" THEN Node("mem", "k", <<Id(nm)>>) ELSE Id(nm)
Mk(cc, ks) == Node(cc.t, cc.op, ks)
T1(cc, nms) == Mk(cc, [sj \in 1..cc.ar |-> LeafFor(cc, nms[sj])])
T2(c1, k1, c2) == Mk(c1, [sj \in 1..c1.ar |-> IF sj = k1 THEN T1(c2, L2) ELSE LeafFor(c1, L1[sj])])
T3(c1, k1, c2, k2, c3) ==
  Mk(c1, [sj \in 1..c1.ar |-> IF sj = k1
                              THEN Mk(c2, [sm \in 1..c2.ar |-> IF sm = k2 THEN T1(c3, L3) ELSE LeafFor(c2, L2[sm])])
                              ELSE LeafFor(c1, L1[sj])])
TB(c1, c2, c3) == Mk(c1, <<T1(c2, L2), T1(c3, L3)>>)                     \* bushy, c1 binary-shaped
\* ---------------- member chains (round 4): dotted and computed accesses mixed, as the callee of new / a call ------
\* The pairs and triples hold at most two accesses in a row.  Here the CHAIN is a dimension: every sequence of .name / [expr]
\* accesses up to a length (a bit mask: bit = computed), on three heads (a name, this, a call - which needs grouping
\* parentheses below new), used as the callee of new, of a call, of new followed by a further access, of new new.
\* descriptor <<5, construct, length, mask, head, 0>>
ChMem == <<"k", "h", "g", "w">>
ChIdx == <<"p", "q", "r", "x">>
ChMaxLen == IF Quick THEN 3 ELSE 4
ChHead(hi) == CASE hi = 1 -> Id("a") [] hi = 2 -> This [] hi = 3 -> Node("call", "", <<Id("a"), Id("z")>>)
RECURSIVE ChChain(_, _, _)
ChChain(hd, ln, mask) ==
  IF ln = 0 THEN hd
  ELSE LET prev == ChChain(hd, ln - 1, mask) IN
       IF (mask \div (2 ^ (ln - 1))) % 2 = 1 THEN Node("idx", "", <<prev, Id(ChIdx[ln])>>) ELSE Node("mem", ChMem[ln], <<prev>>)
ChTree(ds) ==
  LET ch == ChChain(ChHead(ds[5]), ds[3], ds[4])
      nw == Node("new", "", <<ch, Id("b")>>) IN
  CASE ds[2] = 1 -> nw
    [] ds[2] = 2 -> Node("call", "", <<ch, Id("b")>>)
    [] ds[2] = 3 -> Node("mem", "c", <<nw>>)
    [] ds[2] = 4 -> Node("idx", "", <<nw, Id("c")>>)
    [] ds[2] = 5 -> Node("new", "", <<nw, Id("c")>>)
ChDescs == {<<5, cn, ln, mask, hi, 0>> : cn \in 1..5, ln \in 1..ChMaxLen, mask \in 0..15, hi \in 1..3}
ChDescsOK == {ds \in ChDescs : ds[4] < 2 ^ ds[3]}
\* descriptor <<shape, o1, k1, o2, k2, o3>>
TreeOf(ds) ==
  CASE ds[1] = 2 -> T2(Ctors[ds[2]], ds[3], Ctors[ds[4]])
    [] ds[1] = 3 -> T3(Ctors[ds[2]], ds[3], Ctors[ds[4]], ds[5], Ctors[ds[6]])
    [] ds[1] = 4 -> TB(Ctors[ds[2]], Ctors[ds[4]], Ctors[ds[6]])
    [] ds[1] = 1 -> T1(Ctors[ds[2]], L1)
    [] ds[1] = 5 -> ChTree(ds)
Slots(ci) == 1..Ctors[ci].ar
TripleOps == IF Quick THEN Reps ELSE 1..NC
TreeDescsFor(o1) ==
  {<<1, o1, 0, 0, 0, 0>>}
  \cup {<<2, o1, k1, o2, 0, 0>> : k1 \in Slots(o1), o2 \in 1..NC}
  \cup (IF o1 \in TripleOps
        THEN UNION {{<<3, o1, k1, o2, k2, o3>> : k2 \in Slots(o2), o3 \in TripleOps} : k1 \in Slots(o1), o2 \in TripleOps}
             \cup (IF Ctors[o1].ar = 2 THEN {<<4, o1, 0, o2, 0, o3>> : o2 \in TripleOps, o3 \in TripleOps} ELSE {})
        ELSE {})

\* ---------------- rejected forms: invalid assignment / update target, unary base of ** ----------
NonRefLeaves == <<Num("1"), This>>
\* the non-reference operand X (built over p, q, r), from every constructor that does not yield a reference;
\* calls are left out (ES makes f() = 1 an early error only in strict code and hosts differ), arrays too
\* (array destructuring patterns are assignment targets in ES2015+)
NonRefCtors == {ci \in 1..NC : Ctors[ci].t \notin {"mem", "idx", "call", "arr"}}
TargetCtors == {ci \in 1..NC : Ctors[ci].t \in {"asg", "pre", "post"}}
\* forms: 1 raw  X op V / ++ X / X ++ ;  2 parenthesised (X) op V ;  3 doubly parenthesised ((X))
RejToks(form, cc, xt) ==
  LET xs == IF form = 1 THEN PrintExpr(xt) ELSE IF form = 2 THEN <<"(">> \o PrintExpr(xt) \o <<")">>
            ELSE <<"(", "(">> \o PrintExpr(xt) \o <<")", ")">>
  IN CASE cc.t = "asg" -> xs \o <<cc.op, "b">>
       [] cc.t = "pre" -> <<cc.op>> \o xs
       [] cc.t = "post" -> xs \o <<cc.op>>
RejOperand(o2) == IF o2 > NC THEN NonRefLeaves[o2 - NC] ELSE T1(Ctors[o2], L2)
RejToksOf(ds) == RejToks(ds[1], Ctors[ds[2]], RejOperand(ds[3]))
\* only forms whose sole defect is the target rule (e.g. not  ++ v => p , which is malformed for another reason as well)
RejDescs == {ds \in {<<form, o1, o2>> : form \in 1..3, o1 \in TargetCtors, o2 \in NonRefCtors \cup {NC + 1, NC + 2}} :
               ParseExprD(RejToksOf(ds), {"Dev_TargetUnchecked"}).ok}
\* unary operator applied to the base of ** : U a ** b, also inside a product and as the exponent's base
UnExpToks(ui, form) ==
  CASE form = 1 -> <<UnList[ui], "a", "**", "b">>
    [] form = 2 -> <<"c", "*", UnList[ui], "a", "**", "b">>
    [] form = 3 -> <<"c", "**", UnList[ui], "a", "**", "b">>
    [] form = 4 -> <<UnList[ui], "a", ".", "k", "**", "b">>
UnExpDescs == {<<ui, form>> : ui \in 1..Len(UnList), form \in 1..4}

\* ---------------- closing bracket deleted from a printed tree ---------------------------------
CloserIdx(ts) == {ti \in 1..Len(ts) : ts[ti] \in {")", "]", "}"}}
DropAt(ts, ti) == SubSeq(ts, 1, ti - 1) \o SubSeq(ts, ti + 1, Len(ts))

\* ---------------- programs (statement level) for bracket / terminator deletion ----------------
\* literal tokens are named; the renderer owns their text:  <s1> 's'   <s2> "t u"   <r1> /x[/]y/g   <c1> /* c */
\* and <s1!> <s2!> <r1!> <c1!> are the same texts with the closing quote / slash / star-slash removed
Progs == <<
  <<"var", "r", "=", "[", "a", ",", "(", "b", "+", "c", ")", "*", "d", "]", ";", "r", "[", "1", "]", ";">>,
  <<"function", "f", "(", "p", ")", "{", "return", "p", "+", "1", ";", "}", "f", "(", "2", ")", ";">>,
  <<"var", "r", "=", "0", ";", "if", "(", "a", ")", "{", "r", "=", "1", ";", "}", "else", "{", "r", "=", "[", "2", "]", ";", "}", "r", ";">>,
  <<"var", "o", "=", "{", "k", ":", "a", ",", "s", ":", "[", "b", "]", "}", ";", "o", ".", "s", "[", "0", "]", ";">>,
  <<"var", "r", "=", "0", ";", "for", "(", "var", "x", "=", "0", ";", "x", "<", "3", ";", "x", "++", ")", "{", "r", "+=", "x", ";", "}", "r", ";">>,
  <<"var", "r", "=", "<s1>", "+", "<s2>", ";", "<c1>", "r", ";">>,
  <<"var", "r", "=", "<r1>", ".", "test", "(", "<s1>", ")", ";", "<c1>", "r", ";">>,
  <<"<c1>", "var", "r", "=", "<s2>", ";", "r", ".", "length", ";">>,
  <<"var", "r", "=", "a", "?", "<s1>", ":", "<s2>", ";", "while", "(", "false", ")", "{", "}", "r", ";">>,
  <<"try", "{", "throw", "<s1>", ";", "}", "catch", "(", "e", ")", "{", "e", ";", "}">>
>>
LitToks == {"<s1>", "<s2>", "<r1>", "<c1>"}
Unterminated == [x \in LitToks |-> CASE x = "<s1>" -> "<s1!>" [] x = "<s2>" -> "<s2!>" [] x = "<r1>" -> "<r1!>" [] x = "<c1>" -> "<c1!>"]
ProgMutants(pi) ==
  LET ts == Progs[pi] IN
  {[kind |-> "pdelbr", a |-> <<pi, ti>>, toks |-> DropAt(ts, ti)] : ti \in CloserIdx(ts)}
  \cup {[kind |-> "pdelterm", a |-> <<pi, ti>>, toks |-> [tj \in 1..Len(ts) |-> IF tj = ti THEN Unterminated[ts[ti]] ELSE ts[tj]]]
          : ti \in {tj \in 1..Len(ts) : ts[tj] \in LitToks}}
  \cup {[kind |-> "prog", a |-> <<pi, 0>>, toks |-> ts]}

\* ---------------- statement nesting (round 3): block shapes x what a nested block is the body of -----
\* The programs above are ten fixed statement sequences; here the SHAPE of a statement tree is a dimension: every ordered
\* tree of blocks up to a number of nodes (a Dyck word: 1 = "{", 0 = "}"; arity and depth vary together: siblings,
\* chains, both), crossed with what a nested block is the body of (a bare block statement, if / else / do / while /
\* for / label / try / function: StmWraps) for all, the odd or the even children of every block, crossed with where
\* the other statements of a block stand (none: empty blocks; round every nested block; only at the start of a block).
\* The reference tree is the statement parser's (ParseProg, below), the reference value the static trace of the tree.
StmWraps == <<
  [nm |-> "bare",   pre |-> <<>>,                                   suf |-> <<>>],
  [nm |-> "if1",    pre |-> <<"if", "(", "1", ")">>,                suf |-> <<>>],
  [nm |-> "if0",    pre |-> <<"if", "(", "0", ")">>,                suf |-> <<>>],
  [nm |-> "else",   pre |-> <<"if", "(", "0", ")", "{", "}", "else">>, suf |-> <<>>],
  [nm |-> "ifelse", pre |-> <<"if", "(", "1", ")">>,                suf |-> <<"else", "{", "}">>],
  [nm |-> "do",     pre |-> <<"do">>,                               suf |-> <<"while", "(", "0", ")", ";">>],
  [nm |-> "while",  pre |-> <<"while", "(", "0", ")">>,             suf |-> <<>>],
  [nm |-> "for",    pre |-> <<"for", "(", "k", "=", "0", ";", "k", "<", "1", ";", "k", "++", ")">>, suf |-> <<>>],
  [nm |-> "label",  pre |-> <<"x", ":">>,                           suf |-> <<>>],
  [nm |-> "tryc",   pre |-> <<"try">>,                              suf |-> <<"catch", "(", "e", ")", "{", "}">>],
  [nm |-> "tryf",   pre |-> <<"try">>,                              suf |-> <<"finally", "{", "}">>],
  [nm |-> "trycf",  pre |-> <<"try">>,                              suf |-> <<"catch", "(", "e", ")", "{", "}", "finally", "{", "}">>],
  [nm |-> "fun",    pre |-> <<"function", "g", "(", ")">>,          suf |-> <<>>],
  [nm |-> "semi",   pre |-> <<";">>,                                suf |-> <<";">>]
>>
StmMasks == {"all", "odd", "even"}
StmLeafModes == {0, 1, 2}                      \* 0 no other statement, 1 before / between / after the nested blocks, 2 only at the start
DyH(wd, di) == Cardinality({dj \in 1..di : wd[dj] = 1}) - Cardinality({dj \in 1..di : wd[dj] = 0})
DyckWords(nn) == {wd \in [1..(2 * nn) -> {0, 1}] : DyH(wd, 2 * nn) = 0 /\ \A di \in 1..(2 * nn - 1) : DyH(wd, di) > 0}
DyMax(SS) == CHOOSE mx \in SS : \A el \in SS : el <= mx
DyMin(SS) == CHOOSE mn \in SS : \A el \in SS : mn <= el
DyParent(wd, di) == DyMax({dj \in 1..(di - 1) : wd[dj] = 1 /\ DyH(wd, dj) = DyH(wd, di) - 1})           \* di > 1 opens a nested block
DyChildNo(wd, di) == 1 + Cardinality({dj \in (DyParent(wd, di) + 1)..(di - 1) : wd[dj] = 0 /\ DyH(wd, dj) = DyH(wd, di) - 1})
DyOpenOf(wd, di) == DyMax({dj \in 1..(di - 1) : wd[dj] = 1 /\ DyH(wd, dj) = DyH(wd, di) + 1})           \* the "{" of the "}" at di
DyDepth(wd) == DyMax({DyH(wd, di) : di \in 1..Len(wd)})
DyHasSiblings(wd) == \E di \in 2..Len(wd) : wd[di] = 1 /\ DyChildNo(wd, di) >= 2
StmWrapAt(wd, oi, wi, mk) ==
  IF oi = 1 THEN 1
  ELSE LET cn == DyChildNo(wd, oi) IN
       IF mk = "all" \/ (mk = "odd" /\ cn % 2 = 1) \/ (mk = "even" /\ cn % 2 = 0) THEN wi ELSE 1
StmLeaf(di) == <<"r", "+=", ToString(((di - 1) % 9) + 1), ";">>
RECURSIVE StmBody(_, _, _, _, _)
StmBody(wd, di, wi, mk, lf) ==
  IF di > Len(wd) THEN <<>>
  ELSE (IF wd[di] = 1
        THEN StmWraps[StmWrapAt(wd, di, wi, mk)].pre \o <<"{">> \o (IF lf # 0 THEN StmLeaf(di) ELSE <<>>)
        ELSE LET oi == DyOpenOf(wd, di) IN
             <<"}">> \o StmWraps[StmWrapAt(wd, oi, wi, mk)].suf \o (IF lf = 1 /\ oi # 1 THEN StmLeaf(di) ELSE <<>>))
       \o StmBody(wd, di + 1, wi, mk, lf)
\* descriptor <<word, wrapper index, mask, leaf mode>>;  r collects the trace:  [] + []  is the empty string
StmToks(ds) == <<"var", "r", "=", "[", "]", "+", "[", "]", ";">> \o StmBody(ds[1], 1, ds[2], ds[3], ds[4]) \o <<"r", ";">>
StmFullN  == IF Quick THEN 4 ELSE 6             \* nodes of the block tree: full product up to here ...
StmBareN  == IF Quick THEN 5 ELSE 7             \* ... and bare blocks only one size further
StmDescsFor(nn) ==
  IF nn <= StmFullN
  THEN {<<wd, 1, "all", lf>> : wd \in DyckWords(nn), lf \in StmLeafModes}
       \cup {<<wd, wi, mk, lf>> : wd \in DyckWords(nn), wi \in 2..Len(StmWraps), mk \in StmMasks, lf \in StmLeafModes}
  ELSE {<<wd, 1, "all", lf>> : wd \in DyckWords(nn), lf \in StmLeafModes}

\* the statement grammar of these programs (expressions: JsGrammar.PExpr)
StOk(tr, nx) == [ok |-> TRUE, t |-> tr, n |-> nx]
StFail(nx)   == [ok |-> FALSE, t |-> ErrTree, n |-> nx]
PParenExpr(ts, pi) ==
  IF Tok(ts, pi) # "(" THEN StFail(pi)
  ELSE LET ex == PExpr(ts, pi + 1, {}) IN
       IF ~ex.ok THEN StFail(ex.n) ELSE IF Tok(ts, ex.n) # ")" THEN StFail(ex.n) ELSE StOk(ex.t, ex.n + 1)
RECURSIVE PStmt(_, _), PStmtList(_, _, _), PBlock(_, _)
PBlock(ts, pi) == IF Tok(ts, pi) # "{" THEN StFail(pi) ELSE PStmtList(ts, pi + 1, <<>>)
PStmtList(ts, pi, acc) ==
  IF pi > Len(ts) THEN StFail(pi)
  ELSE IF ts[pi] = "}" THEN StOk(Node("block", "", acc), pi + 1)
  ELSE LET st == PStmt(ts, pi) IN IF ~st.ok THEN st ELSE PStmtList(ts, st.n, Append(acc, st.t))
PStmt(ts, pi) ==
  LET kw == Tok(ts, pi) IN
  CASE kw = "{" -> PBlock(ts, pi)
    [] kw = ";" -> StOk(Node("empty", "", <<>>), pi + 1)
    [] kw = "var" ->
         IF ~IsIdent(Tok(ts, pi + 1)) \/ Tok(ts, pi + 2) # "=" THEN StFail(pi + 1)
         ELSE LET ex == PAssign(ts, pi + 3, {}) IN
              IF ~ex.ok THEN StFail(ex.n) ELSE IF Tok(ts, ex.n) # ";" THEN StFail(ex.n)
              ELSE StOk(Node("var", Tok(ts, pi + 1), <<ex.t>>), ex.n + 1)
    [] kw = "if" ->
         LET tst == PParenExpr(ts, pi + 1) IN
         IF ~tst.ok THEN tst
         ELSE LET cs == PStmt(ts, tst.n) IN
              IF ~cs.ok THEN cs
              ELSE IF Tok(ts, cs.n) = "else"                               \* an else belongs to the nearest if
              THEN LET al == PStmt(ts, cs.n + 1) IN IF ~al.ok THEN al ELSE StOk(Node("if", "", <<tst.t, cs.t, al.t>>), al.n)
              ELSE StOk(Node("if", "", <<tst.t, cs.t>>), cs.n)
    [] kw = "while" ->
         LET tst == PParenExpr(ts, pi + 1) IN
         IF ~tst.ok THEN tst
         ELSE LET bd == PStmt(ts, tst.n) IN IF ~bd.ok THEN bd ELSE StOk(Node("while", "", <<tst.t, bd.t>>), bd.n)
    [] kw = "do" ->
         LET bd == PStmt(ts, pi + 1) IN
         IF ~bd.ok THEN bd
         ELSE IF Tok(ts, bd.n) # "while" THEN StFail(bd.n)
         ELSE LET tst == PParenExpr(ts, bd.n + 1) IN
              IF ~tst.ok THEN tst ELSE IF Tok(ts, tst.n) # ";" THEN StFail(tst.n)
              ELSE StOk(Node("do", "", <<bd.t, tst.t>>), tst.n + 1)
    [] kw = "for" ->
         IF Tok(ts, pi + 1) # "(" THEN StFail(pi + 1)
         ELSE LET e1 == PExpr(ts, pi + 2, {}) IN
              IF ~e1.ok THEN StFail(e1.n) ELSE IF Tok(ts, e1.n) # ";" THEN StFail(e1.n)
              ELSE LET e2 == PExpr(ts, e1.n + 1, {}) IN
                   IF ~e2.ok THEN StFail(e2.n) ELSE IF Tok(ts, e2.n) # ";" THEN StFail(e2.n)
                   ELSE LET e3 == PExpr(ts, e2.n + 1, {}) IN
                        IF ~e3.ok THEN StFail(e3.n) ELSE IF Tok(ts, e3.n) # ")" THEN StFail(e3.n)
                        ELSE LET bd == PStmt(ts, e3.n + 1) IN
                             IF ~bd.ok THEN bd ELSE StOk(Node("for", "", <<e1.t, e2.t, e3.t, bd.t>>), bd.n)
    [] kw = "try" ->
         LET bk == PBlock(ts, pi + 1) IN
         IF ~bk.ok THEN bk
         ELSE LET hasc == Tok(ts, bk.n) = "catch"
                  hd == IF hasc /\ Tok(ts, bk.n + 1) = "(" /\ IsIdent(Tok(ts, bk.n + 2)) /\ Tok(ts, bk.n + 3) = ")"
                        THEN PBlock(ts, bk.n + 4) ELSE StFail(bk.n + 1)
                  fpos == IF hasc THEN hd.n ELSE bk.n
                  hasf == Tok(ts, fpos) = "finally"
                  fn == IF hasf THEN PBlock(ts, fpos + 1) ELSE StFail(fpos) IN
              IF hasc /\ ~hd.ok THEN hd
              ELSE IF hasf /\ ~fn.ok THEN fn
              ELSE IF ~hasc /\ ~hasf THEN StFail(bk.n)
              ELSE StOk(Node("try", IF hasc /\ hasf THEN "cf" ELSE IF hasc THEN "c" ELSE "f",
                             <<bk.t>> \o (IF hasc THEN <<Id(Tok(ts, bk.n + 2)), hd.t>> ELSE <<>>) \o (IF hasf THEN <<fn.t>> ELSE <<>>)),
                        IF hasf THEN fn.n ELSE hd.n)
    [] kw = "function" ->
         IF ~IsIdent(Tok(ts, pi + 1)) \/ Tok(ts, pi + 2) # "(" \/ Tok(ts, pi + 3) # ")" THEN StFail(pi + 1)
         ELSE LET bk == PBlock(ts, pi + 4) IN IF ~bk.ok THEN bk ELSE StOk(Node("fun", Tok(ts, pi + 1), <<bk.t>>), bk.n)
    [] IsIdent(kw) /\ Tok(ts, pi + 1) = ":" ->
         LET bd == PStmt(ts, pi + 2) IN IF ~bd.ok THEN bd ELSE StOk(Node("label", kw, <<bd.t>>), bd.n)
    [] OTHER ->
         LET ex == PExpr(ts, pi, {}) IN
         IF ~ex.ok THEN StFail(ex.n) ELSE IF Tok(ts, ex.n) # ";" THEN StFail(ex.n) ELSE StOk(Node("es", "", <<ex.t>>), ex.n + 1)
RECURSIVE PProg(_, _, _)
PProg(ts, pi, acc) ==
  IF pi > Len(ts) THEN StOk(Node("prog", "", acc), pi)
  ELSE LET st == PStmt(ts, pi) IN IF ~st.ok THEN st ELSE PProg(ts, st.n, Append(acc, st.t))
ParseProg(ts) == LET res == PProg(ts, 1, <<>>) IN [ok |-> res.ok, t |-> res.t]
\* the statements run, in order (the control flow of these programs is static: StaticFlow), as the numbers appended to r
StmTags == {"prog", "block", "empty", "var", "if", "while", "do", "for", "label", "try", "fun", "es"}
ForHead == <<Node("asg", "=", <<Id("k"), Num("0")>>), Bin("<", Id("k"), Num("1")), Node("post", "++", <<Id("k")>>)>>
RECURSIVE Trace(_), TraceSeq(_, _), StaticFlow(_), CountTag(_, _), CountTagSeq(_, _, _)
TraceSeq(ks, ki) == IF ki > Len(ks) THEN <<>> ELSE Trace(ks[ki]) \o TraceSeq(ks, ki + 1)
Trace(st) ==
  CASE st.t \in {"prog", "block"} -> TraceSeq(st.kids, 1)
    [] st.t = "es" -> LET ex == st.kids[1] IN
                      IF ex.t = "asg" /\ ex.op = "+=" /\ ex.kids[1] = Id("r") /\ ex.kids[2].t = "num" THEN <<ex.kids[2].op>> ELSE <<>>
    [] st.t = "if" -> IF st.kids[1] = Num("1") THEN Trace(st.kids[2]) ELSE IF Len(st.kids) = 3 THEN Trace(st.kids[3]) ELSE <<>>
    [] st.t = "do" -> Trace(st.kids[1])
    [] st.t = "for" -> Trace(st.kids[4])                                  \* k = 0 ; k < 1 : once, also when a nested loop uses k
    [] st.t = "label" -> Trace(st.kids[1])
    [] st.t = "try" -> Trace(st.kids[1]) \o (IF st.op \in {"f", "cf"} THEN Trace(st.kids[Len(st.kids)]) ELSE <<>>)
    [] OTHER -> <<>>                                                      \* var, empty, while (0), function never called
StaticFlow(st) ==
  /\ st.t \in StmTags
  /\ CASE st.t \in {"prog", "block"} -> \A ki \in 1..Len(st.kids) : StaticFlow(st.kids[ki])
       [] st.t = "if" -> st.kids[1] \in {Num("0"), Num("1")} /\ \A ki \in 2..Len(st.kids) : StaticFlow(st.kids[ki])
       [] st.t = "while" -> st.kids[1] = Num("0") /\ StaticFlow(st.kids[2])
       [] st.t = "do" -> st.kids[2] = Num("0") /\ StaticFlow(st.kids[1])
       [] st.t = "for" -> <<st.kids[1], st.kids[2], st.kids[3]>> = ForHead /\ StaticFlow(st.kids[4])
       [] st.t = "label" -> StaticFlow(st.kids[1])
       [] st.t = "try" -> \A ki \in 1..Len(st.kids) : st.kids[ki].t = "id" \/ StaticFlow(st.kids[ki])
       [] st.t = "fun" -> StaticFlow(st.kids[1])
       [] OTHER -> TRUE
CountTagSeq(ks, ki, tg) == IF ki > Len(ks) THEN 0 ELSE CountTag(ks[ki], tg) + CountTagSeq(ks, ki + 1, tg)
CountTag(tr, tg) == (IF tr.t = tg THEN 1 ELSE 0) + CountTagSeq(tr.kids, 1, tg)
CountTok(ts, tk) == Cardinality({ti \in 1..Len(ts) : ts[ti] = tk})
NumTokUnits(tk) == IF tk = "10" THEN <<49, 48>> ELSE <<48 + (CHOOSE dg \in 0..9 : ToString(dg) = tk)>>
RECURSIVE TraceUnits(_)
TraceUnits(trc) == IF trc = <<>> THEN <<>> ELSE NumTokUnits(Head(trc)) \o TraceUnits(Tail(trc))
\* the sub-grid of the quick tier still holds every class (checked in the initial state of the Enum run)
StmSizes == 1..StmBareN
StmGridLaw ==
  LET DS == UNION {StmDescsFor(nn) : nn \in StmSizes} IN
  /\ \A wi \in 1..Len(StmWraps), lf \in StmLeafModes : \A mk \in (IF wi = 1 THEN {"all"} ELSE StmMasks) :
        /\ \E ds \in DS : ds[2] = wi /\ ds[3] = mk /\ ds[4] = lf /\ DyHasSiblings(ds[1]) /\ DyDepth(ds[1]) >= 3     \* siblings below the root's child
        /\ \E ds \in DS : ds[2] = wi /\ ds[3] = mk /\ ds[4] = lf /\ DyDepth(ds[1]) >= 4                              \* a chain
        /\ \E ds \in DS : ds[2] = wi /\ ds[3] = mk /\ ds[4] = lf /\ \E di \in 2..Len(ds[1]) : ds[1][di] = 1 /\ DyChildNo(ds[1], di) >= 3
  /\ \E ds \in DS : Len(ds[1]) = 2 * StmBareN

\* ---------------- literal spellings ------------------------------------------------------------
\* numbers: the dyadic rational kk / 2^jj
NumValues == {<<0, 0>>, <<1, 0>>, <<7, 0>>, <<8, 0>>, <<10, 0>>, <<14, 0>>, <<30, 0>>, <<15, 0>>, <<16, 0>>, <<100, 0>>, <<255, 0>>, <<256, 0>>,
              <<1000, 0>>, <<65535, 0>>, <<1, 1>>, <<3, 1>>, <<1, 2>>, <<5, 3>>, <<25, 2>>, <<1, 4>>}
QuickNumValues == {<<0, 0>>, <<1, 0>>, <<8, 0>>, <<10, 0>>, <<14, 0>>, <<255, 0>>, <<1000, 0>>, <<1, 1>>, <<3, 1>>, <<5, 3>>, <<1, 4>>}
RECURSIVE DigitsOfN(_)
DigitsOfN(nn) == IF nn < 10 THEN <<48 + nn>> ELSE Append(DigitsOfN(nn \div 10), 48 + (nn % 10))
RECURSIVE RadixDigits(_, _, _)
RadixDigits(nn, radix, upper) ==
  LET dg == nn % radix
      ch == IF dg < 10 THEN 48 + dg ELSE IF upper THEN 55 + dg ELSE 87 + dg
  IN IF nn < radix THEN <<ch>> ELSE Append(RadixDigits(nn \div radix, radix, upper), ch)
Zeros(nz) == [zi \in 1..nz |-> 48]
\* m * 10^(-f) with exactly f fraction digits (f >= 1): "i.ffff"
FixedText(mm, ff) ==
  LET ds == DigitsOfN(mm)
      pd == IF Len(ds) <= ff THEN Zeros(ff - Len(ds) + 1) \o ds ELSE ds          \* at least one integer digit
  IN SubSeq(pd, 1, Len(pd) - ff) \o <<46>> \o SubSeq(pd, Len(pd) - ff + 1, Len(pd))
ExpSuffix(upper, sign, ee) == <<IF upper THEN 69 ELSE 101>> \o (IF sign = "+" THEN <<43>> ELSE IF sign = "-" THEN <<45>> ELSE <<>>) \o DigitsOfN(ee)
Pow5(jj) == 5 ^ jj
NumSpellings(kk, jj) ==
  IF jj = 0
  THEN LET dd == DigitsOfN(kk) IN
       {dd, dd \o <<46, 48>>, dd \o <<46, 48, 48>>, dd \o ExpSuffix(FALSE, "", 0), dd \o ExpSuffix(TRUE, "+", 0),
        dd \o ExpSuffix(FALSE, "-", 0), DigitsOfN(kk * 10) \o ExpSuffix(FALSE, "-", 1), DigitsOfN(kk * 100) \o ExpSuffix(TRUE, "-", 2),
        FixedText(kk * 10, 1) \o ExpSuffix(FALSE, "", 0),
        <<48, 120>> \o RadixDigits(kk, 16, FALSE), <<48, 88>> \o RadixDigits(kk, 16, TRUE), <<48, 120, 48>> \o RadixDigits(kk, 16, FALSE),
        <<48, 111>> \o RadixDigits(kk, 8, FALSE), <<48, 79>> \o RadixDigits(kk, 8, FALSE),
        <<48, 98>> \o RadixDigits(kk, 2, FALSE), <<48, 66>> \o RadixDigits(kk, 2, FALSE),
        dd \o <<46>>, dd \o <<46>> \o ExpSuffix(FALSE, "", 0)}                       \* "1."  "1.e0"
       \cup (IF kk % 10 = 0 /\ kk > 0 THEN {DigitsOfN(kk \div 10) \o ExpSuffix(FALSE, "", 1), DigitsOfN(kk \div 10) \o ExpSuffix(FALSE, "+", 1),
                                         FixedText(kk \div 10, 1) \o ExpSuffix(TRUE, "", 2) } ELSE {})
       \cup (IF kk > 0 THEN {Tail(FixedText(kk, Len(dd))) \o ExpSuffix(FALSE, "", Len(dd)),          \* ".255e3"
                             FixedText(kk, Len(dd)) \o ExpSuffix(FALSE, "+", Len(dd))} ELSE {<<46, 48>>, <<48, 46, 48>>})
  ELSE LET mm == kk * Pow5(jj)                                                     \* kk / 2^jj = mm / 10^jj
           fx == FixedText(mm, jj) IN
       {fx, fx \o <<48>>, fx \o ExpSuffix(FALSE, "", 0), DigitsOfN(mm) \o ExpSuffix(FALSE, "-", jj), DigitsOfN(mm * 10) \o ExpSuffix(TRUE, "-", jj + 1),
        FixedText(mm, jj + 1) \o ExpSuffix(FALSE, "+", 1)}
       \cup (IF kk < Pow2s(jj) THEN {Tail(fx)} ELSE {})                             \* ".5"
\* expected words of kk / 2^jj  (kk < 2^20, so the significand is exact)
WordsOfDyadic(kk, jj) == IF kk = 0 THEN WPosZero ELSE LET ww == WOfInt(kk) IN <<ww[1] - 16 * jj, ww[2], ww[3], ww[4]>>

\* strings: values (code units) and their spellings
StrValues == << <<97>>, <<97, 98, 32, 99>>, <<97, 39, 98>>, <<97, 34, 98>>, <<10>>, <<92>>, <<9, 13, 8, 12, 11>>, <<0>>,
                <<233>>, <<8364>>, <<55357, 56832>>, <<>>, <<65, 0, 66>>, <<120, 117>> >>
Hex2(cu) == RadixDigits(cu \div 16, 16, FALSE) \o RadixDigits(cu % 16, 16, TRUE)
Hex4(cu) == LET hd == RadixDigits(cu, 16, FALSE) IN Zeros(4 - Len(hd)) \o hd
NamedEsc(cu) == CASE cu = 10 -> 110 [] cu = 9 -> 116 [] cu = 13 -> 114 [] cu = 8 -> 98 [] cu = 12 -> 102 [] cu = 11 -> 118
                  [] cu = 92 -> 92 [] cu = 39 -> 39 [] cu = 34 -> 34 [] OTHER -> 0
\* spelling styles: raw (escape only what must be), x = \xHH, u = \uHHHH, b = \u{H}, n = named escapes, i = identity escape of letters
RECURSIVE SpellBody(_, _, _, _)
SpellBody(val, vi, quote, style) ==
  IF vi > Len(val) THEN <<>>
  ELSE LET cu == val[vi]
           mustesc == cu \in {10, 13, 92, quote} \/ cu = 0 \/ (cu >= 8 /\ cu <= 13)
           ispair == cu >= 55296 /\ cu <= 56319 /\ vi < Len(val) /\ val[vi + 1] >= 56320 /\ val[vi + 1] <= 57343
           piece ==
             CASE style = "b" /\ ispair -> <<92, 117, 123>> \o RadixDigits(65536 + (cu - 55296) * 1024 + (val[vi + 1] - 56320), 16, TRUE) \o <<125>>
               [] style = "b" -> <<92, 117, 123>> \o RadixDigits(cu, 16, FALSE) \o <<125>>
               [] style = "u" -> <<92, 117>> \o Hex4(cu)
               [] style = "x" /\ cu < 256 -> <<92, 120>> \o Hex2(cu)
               [] style = "x" -> <<92, 117>> \o Hex4(cu)
               [] style = "n" /\ NamedEsc(cu) # 0 -> <<92, NamedEsc(cu)>>
               [] style = "n" /\ cu = 0 -> <<92, 48>>
               [] style = "i" /\ cu \in {97, 99, 65, 66} -> <<92, cu>>                 \* \a \c \A \B are identity escapes
               [] mustesc /\ NamedEsc(cu) # 0 -> <<92, NamedEsc(cu)>>
               [] mustesc -> <<92, 120>> \o Hex2(cu)
               [] OTHER -> <<cu>>
       IN piece \o SpellBody(val, vi + (IF style = "b" /\ ispair THEN 2 ELSE 1), quote, style)
Spell(val, quote, style) == <<quote>> \o SpellBody(val, 1, quote, style) \o <<quote>>
StrCases == {[kind |-> "str", a |-> <<vi, 0>>, u |-> Spell(StrValues[vi], qt, sty)] : vi \in 1..Len(StrValues), qt \in {34, 39}, sty \in {"raw", "x", "u", "b", "n", "i"}}
NumCasesAll == UNION {{[kind |-> "num", a |-> <<vv[1], vv[2]>>, u |-> sp] : sp \in NumSpellings(vv[1], vv[2])} : vv \in (IF Quick THEN QuickNumValues ELSE NumValues)}

\* ---------------- text families: comment / string / regex bodies enumerated over an alphabet ----
\* The literal and comment tokens of the programs above have one fixed text each.  Here TLC chooses the TEXT: every
\* body over a small alphabet of the characters that matter to a lexer (the comment and regex delimiters, both quotes,
\* the backslash, a letter, a blank, the line terminators LF and CR), up to a bound.  A case is a token sequence with
\* the holes "<L1>" "<L2>" and the code units that fill them (u / u2; u0 fills "<L1>" in the base rendering); "<+>"
\* glues its neighbours (no blank).  The renderer substitutes and concatenates, nothing else.
\*   47 /   42 *   39 '   34 "   92 \   110 n   32 blank   10 LF   13 CR   59 ;   91 [   93 ]
AlphaFull == {47, 42, 39, 34, 92, 110, 32, 10, 13}
CoreCmt   == {47, 42, 39, 110, 10}           \* longer bodies: delimiters, a quote, a letter, a line break
CoreStr   == {39, 34, 92, 110, 10}
CoreLine  == {47, 42, 39, 92, 110}
SeqsLen(SS, kk)  == [1..kk -> SS]
SeqsUpTo(SS, nn) == UNION {[1..kk -> SS] : kk \in 0..nn}
HasSub2(us, c1, c2) == \E ui \in 1..(Len(us) - 1) : us[ui] = c1 /\ us[ui + 1] = c2
NShort == IF Quick THEN 2 ELSE 3
\* MultiLineComment: "/*" body "*/" where the body does not contain "*/" (so "/*/" is not a complete comment, "/***/" is)
BlockBodies == {bd \in SeqsUpTo(AlphaFull, NShort) \cup SeqsLen(CoreCmt, NShort + 1) : ~HasSub2(bd, 42, 47)}
BlockText(bd) == <<47, 42>> \o bd \o <<42, 47>>
BlockOpen(bd) == <<47, 42>> \o bd                                  \* terminator deleted
\* SingleLineComment: "//" body, ended by a line terminator (which is not part of it) or by the end of the input
LineBodies == SeqsUpTo(AlphaFull \ {10, 13}, NShort) \cup SeqsLen(CoreLine, NShort + 1)
LineText(bd, eof) == <<47, 47>> \o bd \o (IF eof THEN <<>> ELSE <<10>>)
\* programs with one hole for the comment: after an operand (a "/" there would divide), after an operator (a "/" there
\* would open a regex), at the start, at the very end, inside brackets, between two string literals, before / after a
\* regex literal, and written without blanks around it
CmtCtx == <<
  <<"var", "r", "=", "a", "<L1>", "+", "b", ";", "r", ";">>,
  <<"var", "r", "=", "a", "+", "<L1>", "b", ";", "r", ";">>,
  <<"<L1>", "var", "r", "=", "a", "+", "b", ";", "r", ";">>,
  <<"var", "r", "=", "a", "+", "b", ";", "r", ";", "<L1>">>,
  <<"var", "r", "=", "[", "a", ",", "<L1>", "b", "]", ";", "r", ".", "length", ";">>,
  <<"var", "r", "=", "<s1>", "<L1>", "+", "<s2>", ";", "r", ";">>,
  <<"var", "r", "=", "<L1>", "<r1>", ".", "test", "(", "<s1>", ")", "<L1>", ";", "r", ";">>,
  <<"var", "r", "=", "a", "<+>", "<L1>", "<+>", "+", "b", ";", "r", ";">>,
  <<"var", "r", "=", "(", "a", "<L1>", "+", "b", ")", "*", "(", "<L1>", "b", ")", ";", "r", ";">>          \* round 4: inside grouping parentheses
>>
CmtEndCtx == 4
CaseH(kd, ds, ts, uu, ub, uv) == [kind |-> kd, a |-> ds, toks |-> ts, u |-> uu, u0 |-> ub, u2 |-> uv]
CmtCases(ci) ==
  {CaseH("cmt", <<ci, 1>>, CmtCtx[ci], BlockText(bd), <<>>, <<>>) : bd \in BlockBodies}
  \cup {CaseH("cmt", <<ci, 2>>, CmtCtx[ci], LineText(bd, FALSE), <<>>, <<>>) : bd \in LineBodies}
  \cup (IF ci = CmtEndCtx THEN {CaseH("cmt", <<ci, 3>>, CmtCtx[ci], LineText(bd, TRUE), <<>>, <<>>) : bd \in LineBodies} ELSE {})
  \cup (IF ~Quick \/ ci \in {1, 4, 6} THEN {CaseH("cdel", <<ci, 1>>, CmtCtx[ci], BlockOpen(bd), <<>>, <<>>) : bd \in BlockBodies} ELSE {})
\* string literals: quote body quote for every body; StrLit decides whether the text is one well-formed literal (then the
\* value is judged) or not (then it is a candidate for rejection: a raw line break or a bare quote inside, a
\* backslash before the closing quote - decided on the rendered program by the lexical machine)
StrBodies == SeqsUpTo(AlphaFull, NShort) \cup SeqsLen(CoreStr, NShort + 1)
StrCtx == <<"var", "r", "=", "<L1>", ";", "r", ";">>
StrBodyCases(qt) ==
  {LET tx == <<qt>> \o bd \o <<qt>>  lit == StrLit(tx) IN
   IF lit.ok THEN CaseH("strb", <<qt>>, <<>>, tx, Spell(lit.u, 39, "raw"), <<>>)
   ELSE CaseH("sbad", <<qt>>, StrCtx, tx, <<>>, <<>>) : bd \in StrBodies}
\* terminator deleted x what follows: the literal is cut off at the end of its line and a LATER line holds a quote of
\* the same kind / a slash / a comment terminator (inside a comment, inside a literal of the other quote style, as a
\* literal of its own), which a lexer that runs over the line break would pair with the opener
OtherQuote(qt) == IF qt = 39 THEN 34 ELSE 39
Followers == {<<>>} \cup UNION {{<<47, 47, 32, 110, qt, 110>>,                         \*  // n'n
                                 <<47, 42, 32, qt, 32, 42, 47>>,                       \*  /* ' */
                                 <<qt, 110, qt, 32, 59>>,                              \*  'n' ;
                                 <<OtherQuote(qt), 110, qt, 110, OtherQuote(qt), 32, 59>>,   \*  "n'n" ;
                                 <<47, qt, 47, 32, 59>>} : qt \in {39, 34}}           \*  /'/ ;
\* <<unterminated text, terminated text, program>>
Openers2 == {
  <<<<39, 110>>, <<39, 110, 39>>, <<"var", "r", "=", "<L1>", ";", "<nl>", "<L2>", "<nl>", "r", ";">>>>,
  <<<<34, 110, 32, 110>>, <<34, 110, 32, 110, 34>>, <<"var", "r", "=", "<L1>", ";", "<nl>", "<L2>", "<nl>", "r", ";">>>>,
  <<<<47, 110, 91, 47, 93, 110>>, <<47, 110, 91, 47, 93, 110, 47>>,
    <<"var", "r", "=", "<L1>", ".", "test", "(", "a", ")", ";", "<nl>", "<L2>", "<nl>", "r", ";">>>>,
  <<<<47, 42, 32, 110>>, <<47, 42, 32, 110, 32, 42, 47>>, <<"var", "r", "=", "a", ";", "<L1>", "<nl>", "<L2>", "<nl>", "r", ";">>>>}
UtCases == UNION {{CaseH("utdel", <<Len(fw)>>, opn[3], opn[1], <<>>, fw), CaseH("tprog", <<Len(fw)>>, opn[3], opn[2], <<>>, fw)} : opn \in Openers2, fw \in Followers}
\* regular expression literals: bodies built from atoms (so that the pattern is well formed): a letter, an escaped
\* slash / backslash / bracket, classes that contain a slash, a bracket, a star, the quotes, a quantified letter
RxAtoms == {<<110>>, <<92, 47>>, <<91, 47, 93>>, <<91, 92, 93, 47, 93>>, <<92, 92>>, <<39>>, <<34>>, <<91, 42, 93>>, <<92, 91>>, <<110, 42>>}
RxCtx == <<"var", "r", "=", "<L1>", ".", "test", "(", "<s1>", ")", ";", "r", ";">>
RxCases ==
  UNION {{CaseH("tprog", <<1>>, RxCtx, <<47>> \o a1 \o <<47>>, <<>>, <<>>),
          CaseH("tprog", <<2>>, RxCtx, <<47>> \o a1 \o <<47, 103>>, <<>>, <<>>),             \* with a flag
          CaseH("rxdel", <<1>>, RxCtx, <<47>> \o a1, <<>>, <<>>)} : a1 \in RxAtoms}
  \cup UNION {{CaseH("tprog", <<3>>, RxCtx, <<47>> \o a1 \o a2 \o <<47>>, <<>>, <<>>),
               CaseH("rxdel", <<2>>, RxCtx, <<47>> \o a1 \o a2, <<>>, <<>>),
               CaseH("rxnl", <<10>>, RxCtx, <<47>> \o a1 \o <<10>> \o a2 \o <<47>>, <<>>, <<>>),       \* a line break inside
               CaseH("rxnl", <<13>>, RxCtx, <<47>> \o a1 \o <<13>> \o a2 \o <<47>>, <<>>, <<>>)} : a1 \in RxAtoms, a2 \in RxAtoms}
  \cup {CaseH("rxnl", <<92>>, RxCtx, <<47>> \o a1 \o <<92, 10>> \o <<47>>, <<>>, <<>>) : a1 \in RxAtoms}   \* backslash + line break
\* concrete text with CR: a line terminator like LF for the lexical machine, and CR LF is ONE line terminator sequence
\* (a backslash before it is a line continuation); line numbers are not judged here
RECURSIVE UnitsXFrom(_, _)
UnitsXFrom(us, ui) ==
  IF ui > Len(us) THEN <<>>
  ELSE IF us[ui] # 13 THEN <<us[ui]>> \o UnitsXFrom(us, ui + 1)
  ELSE IF ui < Len(us) /\ us[ui + 1] = 10 THEN UnitsXFrom(us, ui + 1)
  ELSE <<10>> \o UnitsXFrom(us, ui + 1)
UnitsX(us) == IF \A ui \in 1..Len(us) : us[ui] # 13 THEN us ELSE UnitsXFrom(us, 1)
ClassesOfUnitsX(us) == ClassesOfUnits(UnitsX(us))
TextSupportedX(us) == TextSupported(UnitsX(us))

\* ---------------- numeric literal forms: the product of the parts of the lexical grammar --------
\*   DecimalLiteral ::  Int . Frac? Exp?  |  . Frac Exp?  |  Int Exp?          Exp ::  (e | E) (+ | -)? Digits
\*   radix forms    ::  0 (x | X) HexDigits  |  0 (o | O) OctalDigits  |  0 (b | B) BinaryDigits
\* NumSpellings above is a hand-written list of forms (kept); here every PART of the literal is a dimension of its own
\* and the space is their product: mantissa shape (integer / integer + dot / fraction, minimal or zero-padded /
\* leading dot) x exponent part (none, e or E) x exponent sign (none + -) x exponent digits (plain, zero-padded) x
\* the exponent's value (negative, zero, positive; one and two digits).  The value kk / 2^jj = mm / 10^jj (mm = kk * 5^jj)
\* written with the exponent ee has the mantissa mm * 10^-(jj + ee): the decimal point moves through the digit string
\* (no arithmetic on the shifted number, so long mantissas do not overflow TLC's integers).
CanonNum(kk, jj) == IF jj = 0 THEN DigitsOfN(kk) ELSE FixedText(kk * Pow5(jj), jj)
CanonNumDot(kk, jj) == IF jj = 0 THEN DigitsOfN(kk) \o <<46, 48>> ELSE FixedText(kk * Pow5(jj), jj)
RECURSIVE StripTZ(_)
StripTZ(ds) == IF ds # <<>> /\ ds[Len(ds)] = 48 THEN StripTZ(SubSeq(ds, 1, Len(ds) - 1)) ELSE ds
RECURSIVE StripLZ(_)
StripLZ(ds) == IF ds # <<>> /\ ds[1] = 48 THEN StripLZ(Tail(ds)) ELSE ds
\* integer part and (minimal) fraction part of mm * 10^-sh
MantParts(mm, sh) ==
  LET dd == DigitsOfN(mm) IN
  IF mm = 0 THEN [ip |-> <<48>>, fp |-> <<>>]
  ELSE IF sh <= 0 THEN [ip |-> dd \o Zeros(0 - sh), fp |-> <<>>]
  ELSE LET pd == IF Len(dd) <= sh THEN Zeros(sh - Len(dd) + 1) \o dd ELSE dd IN
       [ip |-> SubSeq(pd, 1, Len(pd) - sh), fp |-> StripTZ(SubSeq(pd, Len(pd) - sh + 1, Len(pd)))]
MantShapes == {"int", "idot", "frac", "fracz", "fraczz", "ldot", "ldotz"}
\* <<>> where the shape cannot write the mantissa (a fraction needs "frac"; a leading dot needs the integer part 0)
MantText(mp, shp) ==
  CASE shp = "int"    -> IF mp.fp = <<>> THEN mp.ip ELSE <<>>                                    \* 1000
    [] shp = "idot"   -> IF mp.fp = <<>> THEN mp.ip \o <<46>> ELSE <<>>                          \* 1000.
    [] shp = "frac"   -> IF mp.fp # <<>> THEN mp.ip \o <<46>> \o mp.fp ELSE <<>>                 \* 1.5
    [] shp = "fracz"  -> mp.ip \o <<46>> \o mp.fp \o <<48>>                                      \* 1.50  1000.0
    [] shp = "fraczz" -> mp.ip \o <<46>> \o mp.fp \o <<48, 48>>                                  \* 1.500 1000.00
    [] shp = "ldot"   -> IF mp.ip = <<48>> /\ mp.fp # <<>> THEN <<46>> \o mp.fp ELSE <<>>         \* .5
    [] shp = "ldotz"  -> IF mp.ip = <<48>> THEN <<46>> \o mp.fp \o <<48>> ELSE <<>>               \* .50   .0
\* exponent part: lt = 0 (none) / 101 e / 69 E ; sg = "" "+" "-" ; zp = number of zeros before the exponent's digits
ExpLetters == {0, 101, 69}
ExpSigns   == {"", "+", "-"}
ExpOK(ee, lt, sg, zp) == IF lt = 0 THEN ee = 0 /\ sg = "" /\ zp = 0 ELSE IF sg = "-" THEN ee <= 0 ELSE ee >= 0
ExpText(ee, lt, sg, zp) ==
  IF lt = 0 THEN <<>>
  ELSE <<lt>> \o (IF sg = "+" THEN <<43>> ELSE IF sg = "-" THEN <<45>> ELSE <<>>) \o Zeros(zp) \o DigitsOfN(IF ee < 0 THEN 0 - ee ELSE ee)
\* descriptor <<kk, jj, ee, shape, lt, sg, zp>>
NumFormText(ds) == LET mt == MantText(MantParts(ds[1] * Pow5(ds[2]), ds[2] + ds[3]), ds[4]) IN
                   IF mt = <<>> THEN <<>> ELSE mt \o ExpText(ds[3], ds[5], ds[6], ds[7])
NumFormDescs(VV, EE, ZP) ==
  {ds \in {<<vv[1], vv[2], ee, shp, lt, sg, zp>> : vv \in VV, ee \in EE, shp \in MantShapes, lt \in ExpLetters, sg \in ExpSigns, zp \in ZP} :
     ExpOK(ds[3], ds[5], ds[6], ds[7]) /\ NumFormText(ds) # <<>>}
\* radix forms: descriptor <<kk, radix, prefix case, digit case (l u m = alternating), zeros after the prefix>>
HexCase(ds, md) == [hi \in 1..Len(ds) |-> IF ds[hi] >= 97 /\ (md = "u" \/ (md = "m" /\ hi % 2 = 1)) THEN ds[hi] - 32 ELSE ds[hi]]
RadixPrefix(radix, px) == CASE radix = 16 -> (IF px = "l" THEN 120 ELSE 88) [] radix = 8 -> (IF px = "l" THEN 111 ELSE 79) [] radix = 2 -> (IF px = "l" THEN 98 ELSE 66)
RadixFormText(ds) == <<48, RadixPrefix(ds[2], ds[3])>> \o Zeros(ds[5]) \o HexCase(RadixDigits(ds[1], ds[2], FALSE), ds[4])
DigitCases(radix) == IF radix = 16 THEN {"l", "u", "m"} ELSE {"l"}
RadixFormDescs(VV, NZ) == UNION {{<<vv[1], radix, px, md, nz>> : px \in {"l", "u"}, md \in DigitCases(radix), nz \in NZ} : vv \in {ww \in VV : ww[2] = 0}, radix \in {16, 8, 2}}
\* the exponent values: every sign class with one digit and with two digits
NumExps == IF Quick THEN {-10, -1, 0, 1, 3, 10} ELSE {-12, -10, -3, -2, -1, 0, 1, 2, 3, 10, 12}
NumFormDescsAll == NumFormDescs(IF Quick THEN QuickNumValues ELSE NumValues, NumExps, {0, 1})
RadixFormDescsAll == RadixFormDescs(IF Quick THEN QuickNumValues ELSE NumValues, {0, 1, 2})
NumFormCases == {[kind |-> "num", a |-> <<ds[1], ds[2]>>, u |-> NumFormText(ds)] : ds \in NumFormDescsAll}
                \cup {[kind |-> "num", a |-> <<ds[1], 0>>, u |-> RadixFormText(ds)] : ds \in RadixFormDescsAll}

\* the literal's POSITION: what stands directly before / after it (nothing - the literal is the whole source or its
\* end -, a bracket of each kind, the operators that share a character with the literal's own parts (+ - . /), a
\* comment, a line break, the other separators), every spelling written into every position without blanks round it.
\* The value of each program is the value of the literal.
NumCtx == <<
  <<"<L1>">>,
  <<"var", "r", ";", "r", "=", "<L1>">>,
  <<"var", "r", "=", "<+>", "<L1>", "<+>", ";", "r", ";">>,
  <<"var", "r", "=", "[", "<+>", "<L1>", "<+>", "]", "[", "0", "]", ";", "r", ";">>,
  <<"var", "r", "=", "(", "<+>", "<L1>", "<+>", ")", ";", "r", ";">>,
  <<"var", "r", "=", "<L1>", "<+>", "+", "<+>", "0", ";", "r", ";">>,
  <<"var", "r", "=", "0", "<+>", "+", "<+>", "<L1>", ";", "r", ";">>,
  <<"var", "r", "=", "<L1>", "<+>", "/", "<+>", "1", ";", "r", ";">>,
  <<"var", "r", "=", "<L1>", "<+>", ".", "<+>", "valueOf", "(", ")", ";", "r", ";">>,
  <<"var", "r", "=", "<L1>", "<+>", "<c1>", ";", "r", ";">>,
  <<"var", "r", "=", "<L1>", "<+>", "<lc>", "<+>", ";", "r", ";">>,
  <<"var", "r", "=", "<L1>", "<+>", "<nl>", "<+>", "r", ";">>,
  <<"var", "r", "=", "1", "?", "<L1>", "<+>", ":", "<+>", "<L1>", ";", "r", ";">>,
  <<"var", "r", "=", "Math", ".", "max", "(", "<+>", "<L1>", "<+>", ",", "<+>", "<L1>", "<+>", ")", ";", "r", ";">>,
  <<"var", "r", "=", "{", "k", ":", "<+>", "<L1>", "<+>", "}", ";", "r", ".", "k", ";">>,
  <<"var", "r", "=", "<L1>", "<+>", "-", "<+>", "0", ";", "r", ";">>,
  <<"var", "r", "=", "<c1>", "<+>", "<L1>", ";", "r", ";">>,
  <<"var", "r", "=", "<L1>", "<+>", "*", "<+>", "1", ";", "r", ";">>
>>
\* a member access directly after the literal: a literal that is all digits would take the dot as its own (5.valueOf
\* is "5." followed by a name: not generated); the base rendering writes the value with a fraction there
NumCtxDot == {9}
AllDigits(us) == \A ui \in 1..Len(us) : IsDigit(us[ui])
NctxValues == IF Quick THEN {<<0, 0>>, <<1000, 0>>, <<1, 1>>, <<3, 1>>, <<1, 4>>}
              ELSE {<<0, 0>>, <<1, 0>>, <<10, 0>>, <<255, 0>>, <<1000, 0>>, <<1, 1>>, <<3, 1>>, <<5, 3>>, <<1, 4>>}
NctxExps   == IF Quick THEN {-1, 0, 3} ELSE {-10, -1, 0, 1, 3, 10}
NctxRadixValues == IF Quick THEN {<<14, 0>>, <<255, 0>>} ELSE {<<0, 0>>, <<14, 0>>, <<30, 0>>, <<255, 0>>}
NctxFormDescs  == NumFormDescs(NctxValues, NctxExps, IF Quick THEN {0} ELSE {0, 1})
NctxRadixDescs == RadixFormDescs(NctxRadixValues, {0, 1})
NctxCase(ci, kk, jj, tx) == CaseH("nctx", <<kk, jj, ci>>, NumCtx[ci], tx, IF ci \in NumCtxDot THEN CanonNumDot(kk, jj) ELSE CanonNum(kk, jj), <<>>)
NctxDescsFor(ci) == {ds \in NctxFormDescs : ci \in NumCtxDot => ~AllDigits(NumFormText(ds))}
NctxCases(ci) == {NctxCase(ci, ds[1], ds[2], NumFormText(ds)) : ds \in NctxDescsFor(ci)} \cup {NctxCase(ci, ds[1], 0, RadixFormText(ds)) : ds \in NctxRadixDescs}

\* the literal's text -> its value in normal form: significant digits (no leading / trailing zero; <<>> = zero) and the
\* power of ten of the last one.  Digit strings, not integers: no bound on the length of the mantissa.
Norm10(digs, ex) == LET a1 == StripLZ(digs)  a2 == StripTZ(a1) IN
                    [ok |-> TRUE, ds |-> a2, e10 |-> IF a2 = <<>> THEN 0 ELSE ex + (Len(a1) - Len(a2))]
NumLitN(us) ==
  LET bad == [ok |-> FALSE, ds |-> <<>>, e10 |-> 0] IN
  IF Len(us) >= 3 /\ us[1] = 48 /\ us[2] \in {120, 88, 111, 79, 98, 66}
  THEN LET radix == IF us[2] \in {120, 88} THEN 16 ELSE IF us[2] \in {111, 79} THEN 8 ELSE 2
           vv == RadixVal(SubSeq(us, 3, Len(us)), radix, 0)
       IN IF vv < 0 THEN bad ELSE Norm10(DigitsOfN(vv), 0)
  ELSE
    LET i1 == TakeDigits(us, 1)
        hasdot == i1 <= Len(us) /\ us[i1] = 46
        f0 == IF hasdot THEN i1 + 1 ELSE i1
        f1 == IF hasdot THEN TakeDigits(us, f0) ELSE i1
        hasexp == f1 <= Len(us) /\ us[f1] \in {101, 69}
        sgnpos == f1 + 1
        hassign == hasexp /\ sgnpos <= Len(us) /\ us[sgnpos] \in {43, 45}
        e0 == IF hassign THEN sgnpos + 1 ELSE sgnpos
        e1 == IF hasexp THEN TakeDigits(us, e0) ELSE f1
        intd == SubSeq(us, 1, i1 - 1)
        frd  == IF hasdot THEN SubSeq(us, f0, f1 - 1) ELSE <<>>
        ev == IF hasexp /\ e1 > e0 /\ e1 - e0 <= 4 THEN RadixVal(SubSeq(us, e0, e1 - 1), 10, 0) ELSE 0
        en == IF hassign /\ us[sgnpos] = 45 THEN 0 - ev ELSE ev
    IN IF (intd = <<>> /\ frd = <<>>) \/ (hasexp /\ (e1 = e0 \/ e1 - e0 > 4)) \/ e1 # Len(us) + 1
          \/ (Len(intd) > 1 /\ intd[1] = 48)                            \* legacy octal / leading zero: not in the fragment
       THEN bad
       ELSE Norm10(intd \o frd, en - Len(frd))
DenotesN(lit, kk, jj) == lit.ok /\ LET nv == Norm10(DigitsOfN(kk * Pow5(jj)), 0 - jj) IN lit.ds = nv.ds /\ lit.e10 = nv.e10

\* coverage of the sub-grids (checked once, in the initial state of the Enum run): whatever the tier, every mantissa
\* shape stands with every exponent form, every sign class of the exponent's value occurs with one and with two digits,
\* every radix form occurs, and every position holds every mantissa shape with every exponent letter and sign and every
\* radix form.  The hand-written spellings denote their values for the library's NumLit / Denotes as well.
SgnOf(ee) == IF ee < 0 THEN -1 ELSE IF ee > 0 THEN 1 ELSE 0
FormGrid(DS, zps, dotctx) ==
  /\ \A shp \in MantShapes : (dotctx /\ shp = "int") \/ \E ds \in DS : ds[4] = shp /\ ds[5] = 0
  /\ \A shp \in MantShapes, lt \in {101, 69}, sg \in ExpSigns, zp \in zps :
        \E ds \in DS : ds[4] = shp /\ ds[5] = lt /\ ds[6] = sg /\ ds[7] = zp
  /\ \A shp \in MantShapes, sn \in {-1, 0, 1} : \E ds \in DS : ds[4] = shp /\ SgnOf(ds[3]) = sn
RadixGrid(DS, nzs) == \A radix \in {16, 8, 2}, px \in {"l", "u"}, nz \in nzs : \A md \in DigitCases(radix) :
                         \E ds \in DS : ds[2] = radix /\ ds[3] = px /\ ds[4] = md /\ ds[5] = nz
NumGridLaw ==
  /\ FormGrid(NumFormDescsAll, {0, 1}, FALSE)
  /\ \A sn \in {-1, 1}, big \in BOOLEAN : \E ds \in NumFormDescsAll : SgnOf(ds[3]) = sn /\ (big <=> (ds[3] >= 10 \/ ds[3] <= -10))
  /\ RadixGrid(RadixFormDescsAll, {0, 1, 2})
  /\ \A ci \in 1..Len(NumCtx) : FormGrid(NctxDescsFor(ci), {0}, ci \in NumCtxDot)
  /\ RadixGrid(NctxRadixDescs, {0, 1})
  /\ \E ds \in NctxRadixDescs : ds[2] = 16 /\ ds[1] % 16 = 14                   \* a hex literal that ends in the digit e
  /\ \A cs \in NumCasesAll : Denotes(NumLit(cs.u), cs.a[1], cs.a[2]) /\ DenotesN(NumLitN(cs.u), cs.a[1], cs.a[2])

\* ---------------- literal x bracketed position (round 4) ------------------------------------------
\* The leaves of the enumerated trees are identifiers, and the regex / string texts of the text families stand in one
\* statement frame.  Here the LEAF of an expression is a literal whose text the specification chooses (a regular
\* expression built from atoms that are not JavaScript tokens - backslash escapes, quotes, #, brackets inside a class -,
\* a string over the delimiter alphabet), and the dimension is the POSITION of that operand inside brackets: redundant
\* parentheses directly round it, twice, round the enclosing call / assignment / index expression, required grouping
\* parentheses (operand of a tighter operator, arrow function as callee, comma expression), as array element, call
\* argument, index, branch of a conditional, operand of a unary operator, arrow body, right-hand side - in an
\* initialiser and at the start of an expression statement.  Marked token sequences ("(?" "?)" optional, "(:" ":)"
\* required): the base rendering drops the optional pairs, the variant writes them all.
LposAtoms == RxAtoms \cup {<<35>>, <<91, 40, 93>>, <<91, 41, 93>>, <<92, 100>>}          \* # [(] [)] \d
LposCoreAtoms == {<<110>>, <<92, 47>>, <<39>>, <<91, 41, 93>>, <<92, 100>>}
LposRx1 == {<<47>> \o a1 \o <<47>> : a1 \in LposAtoms}
LposRx1g == {<<47>> \o a1 \o <<47, 103>> : a1 \in LposAtoms}
LposRx2 == {<<47>> \o a1 \o a2 \o <<47>> : a1 \in (IF Quick THEN LposCoreAtoms ELSE LposAtoms), a2 \in (IF Quick THEN LposCoreAtoms ELSE LposAtoms)}
LposStrN == IF Quick THEN 1 ELSE 2
LposStrAll == {tx \in {<<qt>> \o bd \o <<qt>> : qt \in {39, 34}, bd \in SeqsUpTo(AlphaFull, LposStrN) \cup {<<92, ch>> : ch \in AlphaFull}} : StrLit(tx).ok}
LposStr1 == {tx \in LposStrAll : Len(tx) <= 3 \/ tx[2] = 92}
\* the operand: leaf kind 1 = regular expression, 2 = string; what follows the literal inside the operand
LposTail(lk, ti) ==
  CASE lk = 1 /\ ti = 1 -> <<"<L1>", ".", "test", "(", "<s1>", ")">>
    [] lk = 1 /\ ti = 2 -> <<"<L1>", ".", "lastIndex">>
    [] lk = 2 /\ ti = 1 -> <<"<L1>", ".", "length">>
    [] lk = 2 /\ ti = 2 -> <<"<L1>">>
LposNCtx == 17
LposCtx(ci, xs) ==
  CASE ci = 1  -> <<"(?">> \o xs \o <<"?)">>
    [] ci = 2  -> <<"(?", "(?">> \o xs \o <<"?)", "?)">>
    [] ci = 3  -> <<"[", "(?">> \o xs \o <<"?)", "]", "[", "0", "]">>
    [] ci = 4  -> <<"1", "&&", "(:">> \o xs \o <<"||", "0", ":)">>
    [] ci = 5  -> <<"f", "(", "(?">> \o xs \o <<"?)", ")">>
    [] ci = 6  -> <<"(?", "f", "(">> \o xs \o <<")", "?)">>
    [] ci = 7  -> <<"(?", "[", "7", ",", "8", "]", "[", "+">> \o xs \o <<"]", "?)">>
    [] ci = 8  -> <<"(?">> \o xs \o <<"?)", "?", "1", ":", "2">>
    [] ci = 9  -> <<"1", "?", "(?">> \o xs \o <<"?)", ":", "2">>
    [] ci = 10 -> <<"0", "?", "1", ":", "(?">> \o xs \o <<"?)">>
    [] ci = 11 -> <<"!", "(?">> \o xs \o <<"?)">>
    [] ci = 12 -> <<"(:", "v", "=>", "(?">> \o xs \o <<"?)", ":)", "(", "1", ")">>
    [] ci = 13 -> <<"b", "=", "(?">> \o xs \o <<"?)">>
    [] ci = 14 -> <<"(?", "b", "=">> \o xs \o <<"?)">>
    [] ci = 15 -> <<"(?">> \o xs \o <<"?)", "+", "1">>
    [] ci = 16 -> <<"(:", "1", ",">> \o xs \o <<":)">>
    [] ci = 17 -> <<"(?", "(:", "1", "+">> \o xs \o <<":)", "*", "2", "?)">>
LposFrame(fi, ex) == IF fi = 1 THEN <<"var", "r", "=">> \o ex \o <<";", "r", ";">> ELSE ex \o <<";">>
LposSubst(tk) == CASE tk = "<L1>" -> "p" [] tk = "<s1>" -> "q" [] tk \in {"test", "length", "lastIndex"} -> "k" [] OTHER -> tk
LposToks(ds) == LposFrame(ds[2], LposCtx(ds[1], LposTail(ds[3], ds[4])))
\* descriptor <<position, frame, leaf kind, tail>> x text.  Quick: every position x every single-atom text and the pairs over
\* the core atoms in the initialiser frame; the statement frame and the second tail with the single-atom texts.  Thorough: the product.
LposTextsFor(lk, fi, ti) ==
  IF lk = 1 THEN LposRx1 \cup (IF ~Quick \/ (fi = 1 /\ ti = 1) THEN LposRx1g \cup LposRx2 ELSE {})
  ELSE IF ~Quick \/ (fi = 1 /\ ti = 1) THEN LposStrAll ELSE LposStr1
LposCases(ci) == UNION {{CaseH("lpos", <<ci, fi, lk, ti>>, LposToks(<<ci, fi, lk, ti>>), tx, <<>>, <<>>) : tx \in LposTextsFor(lk, fi, ti)}
                          : fi \in {1, 2}, lk \in {1, 2}, ti \in {1, 2}}
LposGridLaw ==
  /\ \A at \in LposAtoms, fi \in {1, 2}, ti \in {1, 2} : (<<47>> \o at \o <<47>>) \in LposTextsFor(1, fi, ti)
  /\ \A ch \in AlphaFull \ {10, 13}, fi \in {1, 2}, ti \in {1, 2} : \E tx \in LposTextsFor(2, fi, ti) : \E ui \in 2..(Len(tx) - 1) : tx[ui] = ch
  /\ \E tx \in LposTextsFor(1, 1, 1) : Len(tx) >= 6 /\ tx[Len(tx)] = 47          \* two atoms
  /\ \E tx \in LposTextsFor(1, 1, 1) : tx[Len(tx)] = 103                         \* a flag


\* ---------------- Enum -------------------------------------------------------------------------
VARIABLES ph, cur, rec_i
vars == <<ph, cur, rec_i>>
NoCase == [kind |-> "none", a |-> <<>>, toks |-> <<>>, u |-> <<>>, u0 |-> <<>>, u2 |-> <<>>]
CaseT(kd, ds, ts) == [kind |-> kd, a |-> ds, toks |-> ts, u |-> <<>>, u0 |-> <<>>, u2 |-> <<>>]
CaseU(cs) == [kind |-> cs.kind, a |-> cs.a, toks |-> <<>>, u |-> cs.u,
              u0 |-> IF cs.kind = "num" THEN CanonNum(cs.a[1], cs.a[2]) ELSE Spell(StrValues[cs.a[1]], 39, "raw"), u2 |-> <<>>]
EnumInit == ph = "start" /\ cur = NoCase /\ rec_i = 0
\* two levels so that the successors are spread over the workers
\* a run may enumerate only the trees whose root constructor lies in O1LO..O1HI (batches of the thorough tier);
\* the other groups belong to the batch that contains constructor 1
EnvNat(nm, dflt) == IF nm \in DOMAIN IOEnv THEN (CHOOSE nn \in 0..999 : ToString(nn) = IOEnv[nm]) ELSE dflt
O1Lo == EnvNat("O1LO", 1)
O1Hi == LET hv == EnvNat("O1HI", NC) IN IF hv > NC THEN NC ELSE hv
Groups == {<<"tree", o1>> : o1 \in O1Lo..O1Hi}
          \cup (IF O1Lo = 1 THEN {<<"rej", 0>>, <<"unexp", 0>>, <<"lit", 0>>} \cup {<<"prog", pi>> : pi \in 1..Len(Progs)}
                                  \cup {<<"cmt", ci>> : ci \in 1..Len(CmtCtx)} \cup {<<"strb", 39>>, <<"strb", 34>>, <<"ut", 0>>, <<"rx", 0>>}
                                  \cup {<<"nform", 0>>} \cup {<<"nctx", ci>> : ci \in 1..Len(NumCtx)}
                                  \cup {<<"stm", nn>> : nn \in StmSizes}
                                  \cup {<<"lpos", ci>> : ci \in 1..LposNCtx} \cup {<<"chain", 0>>}
                ELSE {})
EnumNext ==
  \/ /\ ph = "start"
     /\ \E gr \in Groups : ph' = "group" /\ cur' = [NoCase EXCEPT !.kind = gr[1], !.a = <<gr[2]>>]
     /\ UNCHANGED rec_i
  \/ /\ ph = "group"
     /\ ph' = "case"
     /\ UNCHANGED rec_i
     /\ \/ /\ cur.kind = "tree"
           /\ \E ds \in TreeDescsFor(cur.a[1]) :
                LET tr == TreeOf(ds) IN
                /\ WellFormed(tr)
                /\ \/ cur' = CaseT("tree", ds, PrintMarked(tr))
                   \/ /\ ds[1] <= 2                                       \* delete one closing bracket (pairs only)
                      /\ \E ti \in CloserIdx(PrintExpr(tr)) : cur' = CaseT("delbr", ds \o <<ti>>, DropAt(PrintExpr(tr), ti))
        \/ /\ cur.kind = "rej"
           /\ \E ds \in RejDescs : cur' = CaseT("rej", ds, RejToksOf(ds))
        \/ /\ cur.kind = "unexp"
           /\ \E ds \in UnExpDescs : cur' = CaseT("unexp", ds, UnExpToks(ds[1], ds[2]))
        \/ /\ cur.kind = "lit"
           /\ \E cs \in NumCasesAll \cup StrCases : cur' = CaseU(cs)
        \/ /\ cur.kind = "prog"
           /\ \E cs \in ProgMutants(cur.a[1]) : cur' = CaseT(cs.kind, cs.a, cs.toks)
        \/ /\ cur.kind = "cmt"
           /\ \E cs \in CmtCases(cur.a[1]) : cur' = cs
        \/ /\ cur.kind = "strb"
           /\ \E cs \in StrBodyCases(cur.a[1]) : cur' = cs
        \/ /\ cur.kind = "ut"
           /\ \E cs \in UtCases : cur' = cs
        \/ /\ cur.kind = "rx"
           /\ \E cs \in RxCases : cur' = cs
        \/ /\ cur.kind = "nform"
           /\ \E cs \in NumFormCases : cur' = CaseU(cs)
        \/ /\ cur.kind = "nctx"
           /\ \E cs \in NctxCases(cur.a[1]) : cur' = cs
        \/ /\ cur.kind = "stm"
           /\ \E ds \in StmDescsFor(cur.a[1]) : cur' = CaseT("stm", <<ds[2], ds[4], ds[3]>> \o ds[1], StmToks(ds))
        \/ /\ cur.kind = "lpos"
           /\ \E cs \in LposCases(cur.a[1]) : cur' = cs
        \/ /\ cur.kind = "chain"
           /\ \E ds \in ChDescsOK : WellFormed(TreeOf(ds)) /\ cur' = CaseT("tree", ds, PrintMarked(TreeOf(ds)))
EnumEmit == ph # "case" \/ PrintT(ToJson(cur))

\* ---------------- Laws (INVARIANT in the Enum configuration) -----------------------------------
Law(cs) ==
  CASE cs.kind = "tree" ->
         LET tr == TreeOf(cs.a) IN WellFormed(tr) /\ RoundTrip(tr) /\ MinimalParens(tr) /\ OptionalParensLaw(tr)
                                   /\ Balanced(PrintExpr(tr)) /\ cs.toks = PrintMarked(tr)
    [] cs.kind = "delbr" -> ~Balanced(cs.toks) /\ ~ParseExpr(cs.toks).ok
    [] cs.kind = "rej" ->
         \* the parenthesised forms never parse; a raw form either does not parse or is another valid expression
         LET res == ParseExpr(cs.toks) IN
         /\ (cs.a[1] \in {2, 3} => ~res.ok)
         /\ (res.ok => WellFormed(res.t) /\ RoundTrip(res.t))
         /\ ParseExprD(cs.toks, {"Dev_TargetUnchecked"}).ok               \* ... and only because of the target rule
    [] cs.kind = "unexp" -> ~ParseExpr(cs.toks).ok /\ ParseExprD(cs.toks, {"Dev_UnaryExp"}).ok
    [] cs.kind = "num" ->
         LET fsm == Lex(ClassesOfUnits(cs.u), FALSE, {}) IN
         /\ DenotesN(NumLitN(cs.u), cs.a[1], cs.a[2]) /\ DenotesN(NumLitN(cs.u0), cs.a[1], cs.a[2])
         /\ fsm.err.k = "none" /\ Len(fsm.out) = 1 /\ fsm.out[1].k = "num"     \* one numeric token for the lexical grammar
    [] cs.kind = "nctx" ->                                                \* both texts denote the value; one numeric token each
         LET fsm == Lex(ClassesOfUnits(cs.u), FALSE, {}) IN
         /\ DenotesN(NumLitN(cs.u), cs.a[1], cs.a[2]) /\ DenotesN(NumLitN(cs.u0), cs.a[1], cs.a[2])
         /\ fsm.err.k = "none" /\ Len(fsm.out) = 1 /\ fsm.out[1].k = "num"
         /\ (cs.a[3] \in NumCtxDot => ~AllDigits(cs.u) /\ ~AllDigits(cs.u0))
    [] cs.kind = "str" ->
         LET lit == StrLit(cs.u)
             fsm == Lex(ClassesOfUnits(cs.u), FALSE, {}) IN
         /\ lit.ok /\ lit.u = StrValues[cs.a[1]]
         /\ (TextSupported(cs.u) => fsm.err.k = "none" /\ Len(fsm.out) = 1 /\ fsm.out[1].k = "str")
    [] cs.kind = "stm" ->                                                 \* a program of the statement grammar: as many blocks /
         LET res == ParseProg(cs.toks) IN                                 \* statements in the tree as written, static control flow
         /\ res.ok /\ Balanced(cs.toks) /\ StaticFlow(res.t)
         /\ CountTag(res.t, "block") = CountTok(cs.toks, "{") /\ CountTag(res.t, "es") = CountTok(cs.toks, "+=") + 1
         /\ cs.toks = StmToks(<<SubSeq(cs.a, 4, Len(cs.a)), cs.a[1], cs.a[3], cs.a[2]>>)
    [] cs.kind = "prog" -> Balanced(cs.toks)
    [] cs.kind = "pdelbr" -> ~Balanced(cs.toks)
    [] cs.kind = "pdelterm" -> TRUE                                       \* decided on the rendered text by LexerFSM (Judge)
    \* text families: the chosen text is what its family says, for the lexical machine as well
    [] cs.kind = "cmt" ->                                                 \* a comment: no token, no error
         LET fsm == Lex(ClassesOfUnitsX(cs.u), FALSE, {}) IN TextSupportedX(cs.u) /\ fsm.err.k = "none" /\ fsm.out = <<>>
    [] cs.kind = "cdel" -> Lex(ClassesOfUnitsX(cs.u), FALSE, {}).err.k = "unterminated-comment"
    [] cs.kind = "strb" ->
         LET lit == StrLit(cs.u)  fsm == Lex(ClassesOfUnitsX(cs.u), FALSE, {}) IN
         /\ lit.ok /\ StrLit(cs.u0).ok /\ StrLit(cs.u0).u = lit.u            \* the canonical spelling denotes the same value
         /\ TextSupportedX(cs.u) /\ fsm.err.k = "none" /\ Len(fsm.out) = 1 /\ fsm.out[1].k = "str"
    [] cs.kind = "sbad" -> ~StrLit(cs.u).ok /\ TextSupportedX(cs.u)
    [] cs.kind = "utdel" ->                                               \* cut off at the end of its line (comment: of the input)
         LET fl == Lex(ClassesOfUnitsX(cs.u \o <<10>>), TRUE, {}) IN
         fl.err.k \in {"unterminated-string", "unterminated-regex", "unterminated-comment"}
    [] cs.kind = "tprog" ->                                               \* one literal token, or a comment
         LET fsm == Lex(ClassesOfUnitsX(cs.u), TRUE, {}) IN
         /\ TextSupportedX(cs.u) /\ fsm.err.k = "none"
         /\ \/ fsm.out = <<>>
            \/ Len(fsm.out) = 1 /\ fsm.out[1].k \in {"str", "regex"}
    [] cs.kind = "rxdel" -> Lex(ClassesOfUnitsX(cs.u \o <<10>>), TRUE, {}).err.k = "unterminated-regex"
    [] cs.kind = "rxnl" -> Lex(ClassesOfUnitsX(cs.u), TRUE, {}).err.k = "unterminated-regex"
    [] cs.kind = "lpos" ->                                                \* the optional pairs are redundant for the grammar (the
         LET mk == LposCtx(cs.a[1], LposTail(cs.a[3], cs.a[4]))            \* literal read as an operand); the text is one literal token
             sub == [ti \in 1..Len(mk) |-> LposSubst(mk[ti])]
             bs == ParseExpr(Unmark(DropOptional(sub)))
             vr == ParseExpr(AllParens(sub))
             fsm == Lex(ClassesOfUnitsX(cs.u), TRUE, {}) IN
         /\ bs.ok /\ vr.ok /\ bs.t = vr.t /\ cs.toks = LposFrame(cs.a[2], mk)
         /\ \E ti \in 1..Len(mk) : mk[ti] \in {"(?", "(:"}
         /\ TextSupportedX(cs.u) /\ fsm.err.k = "none" /\ Len(fsm.out) = 1
         /\ fsm.out[1].k = (IF cs.a[3] = 1 THEN "regex" ELSE "str") /\ (cs.a[3] = 2 => StrLit(cs.u).ok)
    [] OTHER -> FALSE
LawsHold == (ph = "start" => NumGridLaw /\ StmGridLaw /\ LposGridLaw) /\ (ph # "case" \/ Law(cur))

\* ---------------- Judge ------------------------------------------------------------------------
\* records: [id, kind, a, toks, u, lay, act, act0, ev0, ev1, ast0, ast1]   (act0 = parse of the base rendering)
\*   act = [o: "tree" | "syntax" | "host" | ..., t: tree]           (parser observation, normalised)
\*   ev0 / ev1 = [o, v, name]  outcome of evaluating the base / the variant rendering
Recs == ndJsonDeserialize(IOEnv.OBS_FILE)
SameOutcome(xo, yo) ==
  /\ xo.o = yo.o
  /\ (xo.o = "value" => SameVal(xo.v, yo.v))
  /\ (xo.o = "jserror" => xo.name = yo.name)
Pass == [v |-> "pass", dev |-> "", why |-> ""]
Mis(dv, wy) == [v |-> "mismatch", dev |-> dv, why |-> wy]
Unsup(wy) == [v |-> "unsupported", dev |-> "", why |-> wy]
ActMatches(act, res) == IF res.ok THEN act.o = "tree" /\ act.t = res.t ELSE act.o = "syntax"
\* smallest set of parser deviations that explains the observation
ExplainedBy(ts, act) ==
  LET S1 == {dd \in ParserDevs : ActMatches(act, ParseExprD(ts, {dd}))}
      S2 == {ds \in SUBSET ParserDevs : Cardinality(ds) >= 2 /\ ActMatches(act, ParseExprD(ts, ds))}
  IN IF S1 # {} THEN CHOOSE dd \in S1 : TRUE
     ELSE IF S2 # {} THEN CHOOSE dd \in (CHOOSE ds \in S2 : TRUE) : TRUE
     ELSE ""
\* as-is rule of parser.py _parse_primary_expression (run of consecutive opening parentheses closed one at a
\* time with _continue_parsing_expression, which knows no member / call / postfix continuation)
Openers == {"(", "[", "{"}
Closers == {")", "]", "}"}
RECURSIVE MatchClose2(_, _, _)
MatchClose2(ts, pi, depth) ==                 \* pi: position after an opener at nesting `depth` >= 1; 0 if unmatched
  IF pi > Len(ts) THEN 0
  ELSE IF ts[pi] \in Openers THEN MatchClose2(ts, pi + 1, depth + 1)
  ELSE IF ts[pi] \in Closers THEN (IF depth = 1 THEN pi ELSE MatchClose2(ts, pi + 1, depth - 1))
  ELSE MatchClose2(ts, pi + 1, depth)
RECURSIVE EncOpen(_, _, _)
EncOpen(ts, qi, depth) ==                     \* nearest unmatched opener at or left of qi; 0 if none
  IF qi < 1 THEN 0
  ELSE IF ts[qi] \in Closers THEN EncOpen(ts, qi - 1, depth + 1)
  ELSE IF ts[qi] \in Openers THEN (IF depth = 0 THEN qi ELSE EncOpen(ts, qi - 1, depth - 1))
  ELSE EncOpen(ts, qi - 1, depth)
OperandEnder(x) == IsIdent(x) \/ IsNumTok(x) \/ x \in {")", "]", "this"}
GroupingAt(ts, pi) == ts[pi] = "(" /\ (pi = 1 \/ ~OperandEnder(ts[pi - 1]))
ParenRunPostfix(ts) ==
  \E pi \in 1..(Len(ts) - 1) :
     /\ GroupingAt(ts, pi) /\ ts[pi + 1] = "("
     /\ LET qi == MatchClose2(ts, pi + 2, 1) IN qi # 0 /\ Tok(ts, qi + 1) \in {".", "[", "(", "++", "--"}
\* as-is rule of _parse_nested_arrays: an element of an array literal that begins with "[" is read as a nested
\* array literal by the same loop and must be followed by "," or "]"; anything else is either rejected or read
\* as a further element ([[x, y] + q] is [[x, y], +q]).  Opaque: any answer is attributed to the deviation.
ArrayOpenAt(ts, qi) == ts[qi] = "[" /\ (qi = 1 \/ ~OperandEnder(ts[qi - 1]))
ArrayElemTail(ts) ==
  \E pi \in 2..Len(ts) :
     /\ ts[pi] = "[" /\ ts[pi - 1] \in {"[", ","}
     /\ LET eo == EncOpen(ts, pi - 1, 0) IN eo # 0 /\ ArrayOpenAt(ts, eo)
     /\ LET mi == MatchClose2(ts, pi + 1, 1) IN mi # 0 /\ Tok(ts, mi + 1) \notin {",", "]"}

\* which deviation explains a parser observation that differs from the reference ("" = none)
ExplainTokens(ts, act, ref) ==
  IF act.o \notin {"tree", "syntax"} THEN ""
  ELSE LET dd == ExplainedBy(ts, act) IN
       IF dd # "" THEN dd
       ELSE IF ref.ok /\ act.o = "syntax" /\ ParenRunPostfix(ts) THEN "Dev_ParenRunPostfix"
       ELSE IF ref.ok /\ ArrayElemTail(ts) THEN "Dev_ArrayElemTail"
       ELSE ""

JudgeTokens(r) ==
  LET ref == ParseExpr(r.toks) IN
  IF ActMatches(r.act, ref) THEN Pass
  ELSE Mis(ExplainTokens(r.toks, r.act, ref),
           IF r.act.o \notin {"tree", "syntax"} THEN "parser raised a host exception or did not answer"
           ELSE IF ~ref.ok THEN "malformed source accepted"
           ELSE IF r.act.o = "syntax" THEN "valid source rejected" ELSE "tree differs from the grammar")

HasVTFF(ls) == \E li \in 1..Len(ls) : ls[li] \in {"<vt>", "<ff>"}
JudgeVariant(r) ==
  LET sig == Significant(r.lay)
      ref == ParseExpr(r.toks)
      vr  == ParseExpr(sig) IN
  IF ~LayoutSupported(r.lay) \/ ~ref.ok \/ ~vr.ok \/ vr.t # ref.t THEN Unsup("variant is not a layout of the base tree")
  ELSE IF ~ActMatches(r.act0, ref)                       \* the base rendering itself is mis-parsed (reported by its own tree case)
       THEN Mis(ExplainTokens(r.toks, r.act0, ref), "base rendering parsed differently")
  ELSE IF ActMatches(r.act, ref)
       THEN IF SameOutcome(r.ev0, r.ev1) THEN Pass ELSE Mis("", "same tree, different evaluation result")
  ELSE IF r.act.o = "syntax" /\ HasVTFF(r.lay) THEN Mis("Dev_WhitespaceVTFF", "layout variant rejected")
  ELSE Mis(ExplainTokens(sig, r.act, ref), IF r.act.o = "syntax" THEN "layout variant rejected" ELSE "layout variant parsed differently")

\* statement-level programs: text judged by the lexical machine and bracket balance
KindsOf(toks) == [ti \in 1..Len(toks) |-> toks[ti].k]
JudgeText(r) ==
  IF ~TextSupportedX(r.u) THEN Unsup("text outside the class alphabet")
  ELSE LET cls == ClassesOfUnitsX(r.u)
           ref == Lex(cls, TRUE, {})
           malformed == ref.err.k # "none" \/ ~Balanced(KindsOf(ref.out)) IN
       IF r.kind \in {"prog", "tprog"}
       THEN IF malformed THEN Unsup("valid program does not lex / balance")
            ELSE IF r.act.o = "tree" THEN Pass ELSE Mis("", "valid program rejected")
       ELSE IF ~malformed THEN [v |-> "notjudged", dev |-> "", why |-> "deletion healed"]
       ELSE IF r.act.o = "syntax" THEN Pass
       ELSE IF r.act.o # "tree" THEN Mis("", "host exception")
       ELSE LET asis == Lex(cls, TRUE, LexDevs) IN
            IF asis.err.k = "none" /\ Balanced(KindsOf(asis.out)) /\ asis.fired # {}
            THEN Mis(CHOOSE dd \in asis.fired : TRUE, "malformed source accepted")
            ELSE Mis("", "malformed source accepted")

\* statement nesting: the engine's tree (re-shaped by the driver into the record layout) against the statement grammar,
\* the value of r against the static trace of the reference tree
\* ECMA-262 13.13.1 (early error): a labelled statement nested in a statement with the same label, inside one function
RECURSIVE StmHasLabel(_, _), StmDupLabel(_)
StmHasLabel(st, l) == IF st.t = "fun" THEN FALSE
                      ELSE (st.t = "label" /\ st.op = l) \/ \E j \in 1..Len(st.kids) : StmHasLabel(st.kids[j], l)
StmDupLabel(st) == \/ st.t = "label" /\ \E j \in 1..Len(st.kids) : StmHasLabel(st.kids[j], st.op)
                   \/ \E j \in 1..Len(st.kids) : StmDupLabel(st.kids[j])
JudgeStm(r) ==
  LET ref == ParseProg(r.toks) IN
  IF ~ref.ok \/ ~StaticFlow(ref.t) THEN Unsup("generated program is not in the statement grammar")
  ELSE IF StmDupLabel(ref.t) THEN (IF r.act.o = "syntax" \/ r.ev1.o = "syntax" THEN Pass ELSE Mis("", "duplicate label accepted"))
  ELSE IF r.act.o = "syntax" THEN Mis("", "valid program rejected")
  ELSE IF r.act.o # "tree" THEN Mis("", "parser raised a host exception or did not answer")
  ELSE IF r.act.t # ref.t THEN Mis("", "statement tree differs from the grammar")
  ELSE IF r.ev1.o = "value" /\ r.ev1.v.k = "str" /\ r.ev1.v.u = TraceUnits(Trace(ref.t)) THEN Pass
  ELSE Mis("", "statements run differently from the tree")

\* layout variants of programs: two observations of the engine compared with each other
JudgeProgVariant(r) ==
  IF ~LayoutSupported(r.lay) \/ Significant(r.lay) # r.toks THEN Unsup("variant is not a layout of the program")
  ELSE IF r.ast0 = r.ast1 /\ r.ast0 # "" /\ SameOutcome(r.ev0, r.ev1) THEN Pass
  ELSE IF HasVTFF(r.lay) /\ r.ast1 = "syntax" THEN Mis("Dev_WhitespaceVTFF", "layout variant rejected")
  ELSE Mis("", "layout variant differs")

\* a comment written into a program: the rendered texts (u0 base, u with the comment) must be the same tokens for the
\* lexical machine (else the case is not what it claims: machinery), and the engine must read the same program
JudgeCmt(r) ==
  IF ~TextSupportedX(r.u) \/ ~TextSupportedX(r.u0) THEN Unsup("text outside the class alphabet")
  ELSE LET lv == Lex(ClassesOfUnitsX(r.u), TRUE, {})
           lb == Lex(ClassesOfUnitsX(r.u0), TRUE, {}) IN
       IF lv.err.k # "none" \/ lb.err.k # "none" \/ KindsOf(lv.out) # KindsOf(lb.out) \/ ~Balanced(KindsOf(lb.out))
       THEN Unsup("variant is not the base program plus a comment")
       ELSE IF r.ast0 = r.ast1 /\ r.ast0 # "" /\ SameOutcome(r.ev0, r.ev1) THEN Pass
       ELSE IF r.ast0 = "" \/ r.ast0 = "syntax" THEN Mis("", "valid program rejected")
       ELSE IF r.ast1 = "syntax" THEN Mis("", "program with a comment rejected")
       ELSE Mis("", "a comment changes the program")

\* literal spellings: act = [o, v] value of the spelling, ev0 = value of the canonical spelling
JudgeNum(r) ==
  IF ~DenotesN(NumLitN(r.u), r.a[1], r.a[2]) THEN Unsup("spelling does not denote the value")
  ELSE IF r.ev1.o = "value" /\ r.ev1.v.k = "num" /\ r.ev1.v.w = WordsOfDyadic(r.a[1], r.a[2]) /\ SameOutcome(r.ev0, r.ev1) THEN Pass
  ELSE Mis("", "literal spelling denotes another value")
\* a spelling written into a position: r.u / r.u0 = the rendered program with the spelling / with the canonical
\* spelling.  Both must be the same token kinds for the lexical machine (else the case is not what it claims:
\* machinery); the engine must give the literal's value for both.
JudgeNumCtx(r) ==
  IF ~TextSupportedX(r.u) \/ ~TextSupportedX(r.u0) THEN Unsup("text outside the class alphabet")
  ELSE LET lv == Lex(ClassesOfUnitsX(r.u), TRUE, {})
           lb == Lex(ClassesOfUnitsX(r.u0), TRUE, {}) IN
       IF lv.err.k # "none" \/ lb.err.k # "none" \/ KindsOf(lv.out) # KindsOf(lb.out) \/ ~Balanced(KindsOf(lb.out))
       THEN Unsup("variant is not the base program with another spelling of the literal")
       ELSE IF r.ev1.o = "value" /\ r.ev1.v.k = "num" /\ r.ev1.v.w = WordsOfDyadic(r.a[1], r.a[2]) /\ SameOutcome(r.ev0, r.ev1) THEN Pass
       ELSE IF r.ev1.o = "syntax" THEN Mis("", "literal spelling rejected in this position")
       ELSE Mis("", "literal spelling denotes another value in this position")
\* a literal in a bracketed position: r.u0 / r.u = the rendered program without / with the optional parentheses.  For the
\* lexical machine the variant must be the base plus as many parenthesis pairs as there are optional markers (else the
\* case is not what it claims: machinery); a valid program must be accepted, and both must be the same program.
LposNoParens(ks) == SelectSeq(ks, LAMBDA x : x \notin {"(", ")"})
LposCount(ks, tk) == Cardinality({ti \in 1..Len(ks) : ks[ti] = tk})
JudgeLpos(r) ==
  IF ~TextSupportedX(r.u) \/ ~TextSupportedX(r.u0) THEN Unsup("text outside the class alphabet")
  ELSE LET lv == Lex(ClassesOfUnitsX(r.u), TRUE, {})
           lb == Lex(ClassesOfUnitsX(r.u0), TRUE, {})
           kv == KindsOf(lv.out)
           kb == KindsOf(lb.out) IN
       IF lv.err.k # "none" \/ lb.err.k # "none" \/ ~Balanced(kv) \/ ~Balanced(kb) \/ LposNoParens(kv) # LposNoParens(kb)
          \/ LposCount(kv, "(") # LposCount(kb, "(") + LposCount(r.toks, "(?")
       THEN Unsup("variant is not the base program plus redundant parentheses")
       ELSE IF r.act0.o = "syntax" THEN Mis("", "valid program rejected")
       ELSE IF r.act0.o # "tree" THEN Mis("", "parser raised a host exception or did not answer")
       ELSE IF r.act.o = "syntax" THEN Mis("", "redundant parentheses: valid program rejected")
       ELSE IF r.act.o # "tree" THEN Mis("", "redundant parentheses: parser raised a host exception or did not answer")
       ELSE IF r.ev0.o \notin {"value", "jserror"} THEN Mis("", "valid program not evaluated")
       ELSE IF r.ast0 = r.ast1 /\ r.ast0 # "" /\ SameOutcome(r.ev0, r.ev1) THEN Pass
       ELSE Mis("", "redundant parentheses change the program")
JudgeStr(r) ==
  LET lit == StrLit(r.u) IN
  IF ~lit.ok THEN Unsup("not a string literal")
  ELSE IF r.ev1.o = "value" /\ r.ev1.v.k = "str" /\ r.ev1.v.u = lit.u /\ SameOutcome(r.ev0, r.ev1) THEN Pass
  ELSE Mis("", "literal spelling denotes another value")

Verdict(r) ==
  CASE r.kind \in {"tree", "rej", "unexp", "delbr"} -> JudgeTokens(r)
    [] r.kind = "variant" -> JudgeVariant(r)
    [] r.kind \in {"prog", "pdelbr", "pdelterm", "tprog", "cdel", "sbad", "utdel", "rxdel", "rxnl"} -> JudgeText(r)
    [] r.kind = "cmt" -> JudgeCmt(r)
    [] r.kind = "lpos" -> JudgeLpos(r)
    [] r.kind = "strb" -> JudgeStr(r)
    [] r.kind = "pvariant" -> JudgeProgVariant(r)
    [] r.kind = "stm" -> JudgeStm(r)
    [] r.kind = "num" -> JudgeNum(r)
    [] r.kind = "nctx" -> JudgeNumCtx(r)
    [] r.kind = "str" -> JudgeStr(r)
    [] OTHER -> Unsup("unknown kind")
JudgeInit == /\ rec_i \in 1..Len(Recs) /\ ph = "judge" /\ cur = NoCase
             /\ LET r == Recs[rec_i]  vd == Verdict(r)
                IN PrintT(ToJson([id |-> r.id, v |-> vd.v, dev |-> vd.dev, why |-> vd.why]))
JudgeNext == UNCHANGED vars
=============================================================================
