"""C09 - regular expressions match exactly as ECMAScript backtracking specifies (DESIGN 5/C09).

TLC enumerates the pattern space (spec/C09.tla, laws of RegexSem as invariants) -> the driver runs every
pattern on every subject of the named subject set through microjs.regex.RegExp and through script-level
exec -> TLC judges index, match text and every capture against RegexSem.  Thorough adds seeded random
patterns (spec-level AST JSON, rendered by the spec)."""
import json, os, random, time
from harness import tlc, engine, wire
from harness.common import Machinery, workdir

ENUM_CFG = "INIT EnumInit\nNEXT EnumNext\nCONSTRAINT EnumEmit\nINVARIANT LawsHold\nCHECK_DEADLOCK FALSE\n"
JUDGE_CFG = "INIT JudgeInit\nNEXT JudgeNext\nCHECK_DEADLOCK FALSE\n"
RENDER_CFG = "INIT RenderInit\nNEXT JudgeNext\nCHECK_DEADLOCK FALSE\n"
LITERAL_FAMILIES = ("full0", "full1", "bref", "brefk", "cls", "lead", "mix0", "random")     # also run through a script regex literal
STEP_LIMIT = 100000          # RegexVM.DEFAULT_STEP_LIMIT: the property's domain is "no budget exhausted"


def flag_text(fl):
    return "".join(c for c in "ims" if fl[c])


def show(rec, subject_units):
    return "/%s/%s on %r" % (wire.from_units(rec["src"]), flag_text(rec["fl"]), wire.from_units(subject_units))


def cpu():
    t = os.times()
    return t.children_user + t.children_system + t.user + t.system


def run(rep):
    t0, c0 = time.time(), cpu()
    # 1. model-check the laws of RegexSem while TLC enumerates the pattern space
    res = tlc.run(rep.pid, "C09", ENUM_CFG, env={"TIER": rep.tier}, timeout=7200, tag="enum")
    rep.add_tlc("C09.Enum+Laws(RegexSem)", res)
    subsets, pats, seen = {}, [], set()
    for r in res.records:
        if r.get("kind") == "subs":
            subsets[r["name"]] = r["list"]
        elif r.get("kind") == "pat":
            k = json.dumps([r["ast"], r["fl"], r["subs"]], sort_keys=True)
            if k not in seen:
                seen.add(k)
                r["id"] = len(pats)
                pats.append(r)
    if (len(pats) < 3000 and not os.environ.get("C09_ONLY")) or not subsets:      # C09_ONLY=<family>: development aid (one family alone)
        raise Machinery("enumeration produced only %d patterns / %d subject sets" % (len(pats), len(subsets)))
    pairs = sum(len(subsets[p["subs"]]) for p in pats)
    fams = {}
    for p in pats:
        fams[p["fam"]] = fams.get(p["fam"], 0) + 1
    rep.spaces.append({"space": "pattern families (operator nodes x atom set) x all subjects of the named set, TLC-enumerated",
                       "patterns": len(pats), "families": fams, "pairs": pairs, "complete": True})
    rep.notes["enum_wall_cpu_s"] = [round(time.time() - t0, 1), round(cpu() - c0, 1)]
    judge_patterns(rep, pats, subsets, "exh")
    if rep.tier == "thorough":
        random_part(rep, subsets)
    rep.exhaustive = True
    rep.notes["rule"] = ("one judged evaluation = one (pattern, flags, subject, channel) exec; channels: microjs.regex.RegExp.exec, "
                         "script new RegExp(..).exec, script literal (small families and random patterns)")
    rep.assumptions += ["RegexSem.tla transcribes ECMA-262 22.2.2 (non-unicode mode); case folding judged on ASCII (documented)",
                        "subjects are short: the engine's step count per exec stays below step_limit (asserted)"]


def judge_patterns(rep, pats, subsets, tag):
    wd = workdir(rep.pid, "subjects")
    spath = os.path.join(wd, "subjects_%s.json" % tag)
    with open(spath, "w") as f:
        json.dump(subsets, f)
    cases = []
    for p in pats:
        c = {"id": p["id"], "src": p["src"], "fl": flag_text(p["fl"]), "lit": bool(p["src"]) and p.get("lit", p["fam"] in LITERAL_FAMILIES)}
        if p.get("sl") is not None:
            c["sl"] = p["sl"]
        else:
            c["subs"] = p["subs"]
        cases.append(c)
    t1, c1 = time.time(), cpu()
    results = engine.run_cases(rep.pid, cases, driver="checks.c09_driver:pattern_driver", tag="eng_" + tag, timeout=14400,
                               extra_env={"C09_SUBJECTS": spath})
    rep.notes["engine_wall_cpu_s_" + tag] = [round(time.time() - t1, 1), round(cpu() - c1, 1)]
    byid = {p["id"]: p for p in pats}
    recs, over = [], 0
    for r in results:
        p = byid[r["id"]]
        if r["steps"] >= STEP_LIMIT:
            over += 1            # outside the property's domain (budget exhausted): not judged, counted
            continue
        rec = {"id": r["id"], "ast": p["ast"], "fl": p["fl"], "subs": p.get("subs") or "", "sl": p.get("sl") or [], "o": r["o"], "ch": r["ch"],
               "open": sorted(rep.findings)}        # names only: which of the spec's named rules are open findings (known_findings/C09.json)
        recs.append(rec)
    if over:
        rep.notes["over_budget_" + tag] = over
        if tag == "exh":
            raise Machinery("%d enumerated patterns exhausted the step budget on short subjects" % over)
    t2, c2 = time.time(), cpu()
    verdicts, st, tr, wall = tlc.judge(rep.pid, "C09", recs, JUDGE_CFG, tag="judge_" + tag, timeout=14400)
    rep.notes["judge_wall_cpu_s_" + tag] = [round(time.time() - t2, 1), round(cpu() - c2, 1)]
    got = {v["id"]: v for v in verdicts}
    if len(got) != len(recs):
        raise Machinery("judge returned %d verdicts for %d records" % (len(got), len(recs)))
    n = 0
    triage = open(os.path.join(workdir(rep.pid), "all_mismatches_%s.ndjson" % tag), "w") if os.environ.get("C09_TRIAGE") else None
    for rec in recs:
        v = got[rec["id"]]
        p = byid[rec["id"]]
        subs = rec["sl"] if p.get("sl") is not None else subsets[p["subs"]]
        if v["n"] != len(rec["ch"]) * len(subs):
            raise Machinery("judge looked at %d of %d observations of pattern %d" % (v["n"], len(rec["ch"]) * len(subs), rec["id"]))
        n += v["n"]
        if not v["bad"] and len(rep.samples) < 4 and rec["id"] % 1013 == 7:
            k = min(len(subs) - 1, 17)
            rep.sample({"case": show(p, subs[k]), "engine": rec["o"][rec["ch"][0][k] - 1], "verdict": "pass"})
        for b in v["bad"]:
            k = b["k"] - 1
            act = rec["o"][b["oi"] - 1]
            for c in range(len(rec["ch"])):
                if rec["ch"][c][k] != b["oi"]:
                    continue
                if triage:
                    triage.write(json.dumps({"p": show(p, subs[k]), "c": c, "dev": b["dev"], "exp": b["exp"], "act": act, "fam": p["fam"],
                                             "src": p["src"], "flt": flag_text(p["fl"]), "s": subs[k]}) + "\n")
                rep.mismatch("%s [%s]" % (show(p, subs[k]), ["api", "script", "literal"][c]),
                             {"expected": b["exp"], "actual": act, "case": {"ast": p["ast"], "fl": p["fl"], "subject": subs[k], "fam": p["fam"]}},
                             dev=b["dev"])
    rep.add_judge(n, st, tr)
    rep.evaluations = (rep.evaluations or 0) + n


# ---------------------------------------------------------------------------------------------
# seeded random patterns, generated as spec-level AST JSON (the spec renders and judges them)
LETTERS = [97, 98, 65, 66, 49, 50, 95, 32, 10, 120]


def gen_ast(rnd, depth, st):
    """st: {'g': groups opened so far (pre-order numbering), 'star': star height budget}"""
    if depth == 0 or rnd.random() < 0.25:
        return gen_atom(rnd, st)
    k = rnd.random()
    if k < 0.30:
        return {"t": "cat", "x": [gen_ast(rnd, depth - 1, st), gen_ast(rnd, depth - 1, st)]}
    if k < 0.42:
        return {"t": "alt", "x": [gen_ast(rnd, depth - 1, st), gen_ast(rnd, depth - 1, st)]}
    if k < 0.67:
        mn, mx = rnd.choice([(0, -1), (1, -1), (0, 1), (2, 2), (1, 2), (2, -1), (0, 2), (1, 3), (3, 3)])
        if mx == -1:
            if st["star"] <= 0:
                mx = mn + 1
            else:
                st = dict(st, star=st["star"] - 1, gref=st["gref"])
        body = gen_ast(rnd, depth - 1, st)
        return {"t": "rep", "min": mn, "max": mx, "g": rnd.random() < 0.65, "x": [body]}
    if k < 0.82:
        st["gref"][0] += 1
        n = st["gref"][0]
        return {"t": "grp", "n": n, "x": [gen_ast(rnd, depth - 1, st)]}
    if k < 0.86:
        return {"t": "ncg", "x": [gen_ast(rnd, depth - 1, st)]}
    if k < 0.94:
        return {"t": "la", "neg": rnd.random() < 0.4, "x": [gen_ast(rnd, depth - 1, st)]}
    return {"t": "lb", "neg": rnd.random() < 0.4, "x": [gen_ast(rnd, depth - 1, st)]}


def gen_atom(rnd, st):
    k = rnd.random()
    if k < 0.45:
        return {"t": "chr", "c": rnd.choice(LETTERS)}
    if k < 0.53:
        return {"t": "any"}
    if k < 0.65:
        items = []
        for _ in range(rnd.randint(1, 3)):
            q = rnd.random()
            if q < 0.5:
                c = rnd.choice(LETTERS)
                items.append({"lo": c, "hi": c})
            elif q < 0.8:
                lo, hi = rnd.choice([(97, 122), (65, 90), (48, 57), (97, 98), (65, 66), (49, 50), (32, 95)])
                items.append({"lo": lo, "hi": hi})
            else:
                items.append({"lo": -1, "hi": rnd.choice([100, 68, 119, 87, 115, 83])})
        return {"t": "cls", "neg": rnd.random() < 0.3, "items": items}
    if k < 0.77:
        return {"t": "sh", "c": rnd.choice([100, 68, 119, 87, 115, 83])}
    if k < 0.87:
        return {"t": rnd.choice(["bol", "eol", "wb", "nwb"])}
    if k < 0.93 and st["gref"][0] > 0:
        return {"t": "bref", "n": rnd.randint(1, st["gref"][0])}
    return {"t": "eps"} if rnd.random() < 0.3 else {"t": "chr", "c": rnd.choice(LETTERS)}


def star_height(a):
    h = max([star_height(x) for x in a.get("x", [])] or [0])
    return h + 1 if a["t"] == "rep" and (a["max"] == -1 or a["max"] >= 3) else h


def literal_units(a, out):
    if a["t"] == "chr":
        out.append(a["c"])
    for x in a.get("x", []):
        literal_units(x, out)
    return out


def gen_subjects(rnd, ast, n):
    lits = literal_units(ast, []) or [97]
    h = star_height(ast)
    maxlen = 12 if h <= 1 else (7 if h == 2 else 5)
    out = []
    for _ in range(n):
        ln = rnd.randint(0, maxlen)
        s = []
        while len(s) < ln:
            q = rnd.random()
            if q < 0.55:
                s.append(rnd.choice(lits))
            elif q < 0.65 and s:
                s.append(s[-1])
            else:
                s.append(rnd.choice(LETTERS))
        out.append(s)
    return out


def random_part(rep, subsets):
    rnd = random.Random(rep.seed)
    npat = int(os.environ.get("C09_RANDOM", "12000"))
    asts = []
    for i in range(npat):
        st = {"star": 2, "gref": [0]}
        a = gen_ast(rnd, 3, st)
        fl = {"i": rnd.random() < 0.3, "m": rnd.random() < 0.25, "s": rnd.random() < 0.2}
        asts.append({"id": i, "ast": a, "fl": fl, "sl": gen_subjects(rnd, a, 16)})
    # the spec renders (and parses back) every random tree: Python never produces pattern text
    rendered, st, tr, wall = tlc.judge(rep.pid, "C09", asts, RENDER_CFG, tag="render", timeout=7200)
    rep.add_judge(0, st, tr)
    src = {r["id"]: r for r in rendered}
    pats = []
    for a in asts:
        r = src.get(a["id"])
        if r is None or not r["ok"]:
            raise Machinery("random tree %d is not well-formed for the spec: %r" % (a["id"], a["ast"]))
        pats.append({"id": a["id"], "fam": "random", "ast": a["ast"], "src": r["src"], "fl": a["fl"], "subs": None, "sl": a["sl"], "lit": True})
    rep.spaces.append({"space": "seeded random patterns (depth <= 3) x 16 random subjects (<= 12 units) each", "patterns": len(pats),
                       "pairs": 16 * len(pats), "complete": False, "seed": rep.seed})
    judge_patterns(rep, pats, subsets, "rnd")
