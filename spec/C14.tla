-------------------------------- MODULE C14 --------------------------------
(* C14 - program size never changes meaning: big programs run right or are refused.   *)
(* The design-level half is Encoding.tla (emitter/decoder round trip, all boundaries).  *)
(* This module binds it to the engine:                                                  *)
(*   Enum  : (template, n) with n swept across the encoding boundaries;                 *)
(*   Judge : the engine's outcome equals the closed form of the template, or the        *)
(*           program was refused up front (JSError family, nothing executed);           *)
(*   Tables: the decoder tables of both interpreter loops and of the emitter agree;     *)
(*   Targets: every jump target of the real bytecode of a swept program is an           *)
(*           instruction start (Encoding!TargetsValid on real compiler output).         *)
EXTENDS JsVal, Str, Json, IOUtils

Tier == IF "TIER" \in DOMAIN IOEnv THEN IOEnv.TIER ELSE "quick"
Quick == Tier = "quick"

\* templates limited by an 8-bit operand, and templates limited by code size (16-bit targets)
OperandTemplates == {"consts", "names", "locals", "params", "args", "newargs", "array", "object", "closures"}
SizeTemplates    == {"stmts", "loop", "if_then", "if_else", "switch", "try", "func", "funcloop", "dowhile", "forloop"}
\* (long operator chains such as 1+1+...+1 nest the AST n deep: beyond the documented parser recursion limit, out of scope)
\* expression payloads with an operand that grows with n, inside every kind of code body the compiler has a
\* separate code path for (each finishes its bytecode separately; callbacks and getters run in the second decoder loop)
Payloads == {"consts", "array", "object", "args", "newargs"}
Wraps == {"program", "fdecl", "fexpr", "arrow_block", "arrow_expr", "getter", "setter", "callback", "nested", "arrow_in_fn", "fn_in_arrow", "ctor", "sortcmp"}
WrapTemplates == {"w_" \o p \o "_" \o w : p \in Payloads, w \in Wraps}
\* jumps that are patched with an explicit target (continue targets, switch dispatch): only they cross the 64 KB boundary
ExplicitTemplates == {"dowhile_continue", "for_continue", "switch_nobreak", "switch_default_first", "while_continue_labelled"}
\* large literals / argument lists whose elements are COMPOUND and differ by position: element i has kind (i + k) mod 8 of
\* number, string, nested array, object, call, function expression, conditional, indexed nested literal; with k = 0..7 every
\* kind lands on every position class (in particular next to every 8-bit boundary). The program itself checks every element
\* against its index and returns the number of correct ones: n.
MixForms == {"array", "object", "args", "newargs"}
MixWheres == IF Quick THEN {"program"} ELSE {"program", "fdecl", "callback"}
Digit == <<"0", "1", "2", "3", "4", "5", "6", "7">>
MixTemplates == {"mx_" \o f \o "_" \o Digit[k + 1] \o "_" \o w : f \in MixForms, k \in 0..7, w \in MixWheres}
\* (the judge is not told the tier: closed forms are defined for the templates of every tier)
MixTemplatesAll == {"mx_" \o f \o "_" \o Digit[k + 1] \o "_" \o w : f \in MixForms, k \in 0..7, w \in {"program", "fdecl", "callback"}}
MixNs == {1, 9, 200, 254, 255, 256, 257, 300, 511, 512, 1000} \cup (IF Quick THEN {} ELSE {253, 258, 509, 510, 513, 765, 766, 767, 2000})
\* a switch with n literal cases (numbers 0..n-1, then the strings "s0".."s2") selected by a discriminant of every primitive
\* kind: case selection is strict equality whatever the number of cases (a dispatch table for long switches must not let
\* true find case 1, "1" find case 1, or miss -0 / 1.0)
SwdKinds == {"true", "false", "str1", "one", "negzero", "nan", "null", "undef", "float1", "strs1", "cmp"}
SwdTemplates == {"swd_" \o k : k \in SwdKinds}
SwdNs == {1, 2, 8, 15, 16, 17, 32, 100, 200} \cup (IF Quick THEN {} ELSE {3, 64, 128, 250, 252, 256, 300})
\* flat operator chains with MIXED operators (n links on one left spine): the syntax tree is n deep; beyond the nesting the
\* front end can handle they are refused with MemoryLimitError "Maximum call stack size exceeded" before anything runs
ChainTemplates == {"chain_addsub", "chain_mulsub", "chain_cmp", "chain_addsub_fn"}
ChainNs == {1, 2, 3, 50, 99, 100, 101, 102, 150, 200, 300} \cup (IF Quick THEN {1000} ELSE {98, 103, 128, 250, 256, 257, 400, 1000, 5000})
\* hoisting across a long program: a function / var used ABOVE its declaration with n statements in between (programs compiled
\* in pieces must still bind declarations on entry to the PROGRAM)
HoistTemplates == {"hoist_call", "hoist_redecl", "hoist_typeof", "hoist_var", "hoist_call_names", "hoist_in_fn"}
HoistNs == {1, 50, 120, 130, 200, 700} \cup (IF Quick THEN {2000} ELSE {126, 127, 128, 129, 255, 256, 650, 1000, 5000, 8000})
Templates == OperandTemplates \cup SizeTemplates \cup WrapTemplates \cup ExplicitTemplates \cup MixTemplates \cup SwdTemplates
             \cup ChainTemplates \cup HoistTemplates

OperandNs == {1, 2, 127, 128, 200} \cup (250..260) \cup (IF Quick THEN {300, 1000} ELSE {300, 511, 512, 513, 1000, 5000, 65537})
SizeNs == {1, 2, 50} \cup (IF Quick THEN {1000, 6000, 8192, 11000}
                           ELSE {1000, 3000, 5000, 5460, 5461, 5462, 6000, 6553, 6554, 7000, 7281, 7282, 8000, 8190, 8191, 8192, 8193, 9000, 9362, 9363, 10000, 10922, 10923, 11000, 13107, 13108, 16384, 20000, 33000, 100000})
WrapNs == {1, 200, 255, 256, 257} \cup (IF Quick THEN {} ELSE {254, 258, 300, 600, 1000})
Ns(t) == IF t \in OperandTemplates THEN OperandNs ELSE IF t \in WrapTemplates THEN WrapNs ELSE IF t \in MixTemplates THEN MixNs ELSE IF t \in SwdTemplates THEN SwdNs ELSE IF t \in ChainTemplates THEN ChainNs
         ELSE IF t \in HoistTemplates THEN HoistNs ELSE SizeNs
PayloadOf(t) == CHOOSE p \in Payloads : \E w \in Wraps : t = "w_" \o p \o "_" \o w

\* closed form of the template's result (small integers; see checks/c14_driver.py for the program text)
M7(x) == x % 7
Closed(t, n) ==
  CASE t \in WrapTemplates -> (IF PayloadOf(t) = "consts" THEN VStr(U("c") \o IntText(n - 1)) ELSE VInt(n))
    [] t \in MixTemplatesAll -> VInt(n)
    [] t \in {"chain_addsub", "chain_addsub_fn"} -> VInt(1000 + (IF n % 2 = 1 THEN (n + 1) \div 2 ELSE 0 - (n \div 2)))   \* 1000 + 1 - 2 + 3 - ... n
    [] t = "chain_mulsub" -> VInt(42)                    \* 84 * 1 * ... * 1 - 42
    [] t = "chain_cmp" -> VBool(TRUE)                    \* ('' + 0 + 1 + ...) < '~'
    [] t \in {"hoist_call", "hoist_call_names", "hoist_in_fn"} -> VInt(100000 + n)
    [] t = "hoist_redecl" -> VInt(200000 + n)            \* the later declaration is the one bound on entry
    [] t = "hoist_typeof" -> VInt(500000 + n)
    [] t = "hoist_var" -> VStr(U("hoisted"))
    [] t \in {"swd_true", "swd_false", "swd_str1", "swd_nan", "swd_null", "swd_undef", "swd_cmp"} -> VStr(U("none"))
    [] t \in {"swd_one", "swd_float1"} -> VStr(IF n >= 2 THEN U("c1") ELSE U("none"))
    [] t = "swd_negzero" -> VStr(U("c0"))
    [] t = "swd_strs1" -> VStr(U("t1"))
    [] t = "dowhile_continue" -> VInt(n)
    [] t = "for_continue" -> VInt(n)
    [] t = "switch_nobreak" -> VInt(n + 107)
    [] t = "switch_default_first" -> VInt(n + 7)
    [] t = "while_continue_labelled" -> VInt(2 * n)
    [] t = "consts"  -> VStr(U("c") \o IntText(n - 1))             \* n distinct string constants, last one wins
    [] t = "names"   -> VInt(M7(n - 1) * 10 + M7(0))               \* g_{n-1} * 10 + g_0, g_i = i mod 7
    [] t = "locals"  -> VInt(M7(n - 1) * 100 + M7(n \div 2) * 10 + M7(0))
    [] t = "params"  -> VInt(M7(n - 1) * 10 + M7(0))
    [] t = "args"    -> VInt(n)                                       \* arguments.length
    [] t = "newargs" -> VInt(n)
    [] t = "array"   -> VInt(n * 10 + M7(n - 1))                     \* a.length * 10 + a[n-1]
    [] t = "object"  -> VInt(n * 10 + M7(n - 1))                     \* keys.length * 10 + o["k<n-1>"]
    [] t = "closures" -> VInt(M7(n - 1) * 10 + M7(0))               \* n captured variables read through a closure
    [] t = "stmts"   -> VInt(n)
    [] t = "loop"    -> VInt(3 * n)
    [] t = "if_then" -> VInt(n)
    [] t = "if_else" -> VInt(2 * n)
    [] t = "switch"  -> VInt((n - 1) % 1000)
    [] t = "try"     -> VInt(n + 5)
    [] t = "func"    -> VInt(n)
    [] t = "funcloop" -> VInt(2 * n)
    [] t = "cond_expr" -> VInt(n)
    [] t = "and_chain" -> VInt(n)
    [] t = "dowhile" -> VInt(2 * n)
    [] t = "forloop" -> VInt(3 * n + 3)

VARIABLES ph, cur, rec_i
vars == <<ph, cur, rec_i>>
EnumInit == ph = "start" /\ cur = <<>> /\ rec_i = 0
EnumNext == /\ ph = "start"
            /\ \E t \in Templates : \E n \in Ns(t) :
                 ph' = "case" /\ cur' = [t |-> t, n |-> n] /\ UNCHANGED rec_i
EnumEmit == ph = "start" \/ PrintT(ToJson(cur))

\* ---- Judge ----------------------------------------------------------------------------------------
Recs == ndJsonDeserialize(IOEnv.OBS_FILE)
\* r = [id, t, n, out: [o, v?], started: BOOLEAN (did the program's first statement run?), msglen]
Refused(r) == \/ r.out.o \in {"jserror", "syntax"} /\ ~r.started /\ r.msglen > 0
              \/ r.t \in ChainTemplates /\ r.out.o = "memlimit" /\ ~r.started       \* nesting beyond the front end's stack: refused before anything runs
Verdict(r) ==
  IF r.out.o = "value" THEN
        IF SameVal(r.out.v, Closed(r.t, r.n)) THEN "pass" ELSE "wrong-value"
  ELSE IF Refused(r) THEN "pass"
  ELSE IF r.out.o \in {"jserror", "syntax"} THEN "error-after-start"
  ELSE "not-jserror"                                         \* host exception, hang, limit error
JudgeInit == /\ rec_i \in 1..Len(Recs) /\ ph = "judge" /\ cur = <<>>
             /\ LET r == Recs[rec_i]
                IN PrintT(ToJson([id |-> r.id, v |-> Verdict(r), exp |-> Closed(r.t, r.n)]))
JudgeNext == UNCHANGED vars

\* ---- decoder tables and jump targets of real bytecode -------------------------------------------
Tabs == JsonDeserialize(IOEnv.TABLES_FILE)   \* [exec: [w16, w8], cbs: seq of [w16, w8] (every other decoder loop), emit: [w16]]
SetOf(q) == {q[j] : j \in 1..Len(q)}
TablesAgree == /\ Len(Tabs.cbs) >= 1
               /\ \A c \in 1..Len(Tabs.cbs) : SetOf(Tabs.exec.w16) = SetOf(Tabs.cbs[c].w16) /\ SetOf(Tabs.exec.w8) = SetOf(Tabs.cbs[c].w8)
               /\ SetOf(Tabs.exec.w16) = SetOf(Tabs.emit.w16)
               /\ SetOf(Tabs.exec.w16) \cap SetOf(Tabs.exec.w8) = {}
Funcs == ndJsonDeserialize(IOEnv.FUNCS_FILE)  \* [pid, fid, nbytes, starts: seq of offsets, jumps: seq of [at, arg]]
TargetsValid(f) == LET st == SetOf(f.starts) \cup {f.nbytes}
                   IN \A j \in 1..Len(f.jumps) : f.jumps[j].arg \in st
StaticInit == /\ rec_i \in 1..Len(Funcs) /\ ph = "static" /\ cur = <<>>
              /\ LET f == Funcs[rec_i]
                 IN PrintT(ToJson([id |-> f.id, targets |-> TargetsValid(f), tables |-> TablesAgree]))
=============================================================================
