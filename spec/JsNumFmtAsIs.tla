----------------------------- MODULE JsNumFmtAsIs -----------------------------
(* The engine's number formatting / parsing / Math built-ins AS THEY ARE          *)
(* (vm.py _make_number_method, context.py _global_parseint / _global_parsefloat /  *)
(* _create_math_object / stringify_fn, values.py to_number / to_string), one       *)
(* named deviation per call site (DESIGN 2.3).  Where the code computes digits in  *)
(* binary floating point the as-is rule is a bounded one (same shape, value        *)
(* within 2^-38 relative), everywhere else it predicts the exact observation.      *)
EXTENDS JsNumFmt, JsOpsAsIs

C18Devs == {"Dev_NumToStrPy", "Dev_JsonNumberPy", "Dev_NumberMethodsFloat", "Dev_StrToNumPy", "Dev_ParseIntPy", "Dev_ParseFloatPy",
            "Dev_MathHost", "Dev_MathMissing", "Dev_IntRep"}
AllOn == {"Dev_StrToNumPy", "Dev_NumToStrPy", "Dev_IntRep"}
HVal(v) == [o |-> "value", v |-> v]
HHost(t) == [o |-> "host", type |-> t]
HThrow(c) == [o |-> "throw", cls |-> c]
HApprox(sg) == [o |-> "approx", s |-> sg]
\* prediction p against the observation act = [o, v, cls, type]
HMatches(act, p) ==
  CASE p.o = "value" -> act.o = "value" /\ (IF p.v.k = "hostval" THEN act.v.k = "hostval" /\ act.v.t = p.v.t ELSE SameVal(act.v, p.v))
    [] p.o = "host" -> act.o = "host" /\ act.type = p.type
    [] p.o = "throw" -> act.o = "throw" /\ act.cls = p.cls
    [] p.o = "approx" -> act.o = "value" /\ act.v.k = "num" /\ ~WIsNaN(act.v.w) /\ (p.s = 2 \/ WSign(act.v.w) = p.s)
    [] p.o = "approx-or-host" -> (act.o = "host" /\ act.type = p.type) \/ (act.o = "value" /\ act.v.k = "num" /\ ~WIsNaN(act.v.w))
    [] OTHER -> FALSE

\* ---- host text of a number -----------------------------------------------------------------------
PyInfNan(d) == CASE d.c = "nan" -> <<110, 97, 110>> [] d.c = "inf" -> (IF d.s = 1 THEN <<45>> ELSE <<>>) \o <<105, 110, 102>>
\* repr(float): like PyReprLayout, but integral values keep ".0", zero is 0.0 / -0.0, inf / nan in lower case
PyFloatRepr(d) ==
  CASE d.c \in {"nan", "inf"} -> PyInfNan(d)
    [] d.c = "zero" -> (IF d.s = 1 THEN <<45>> ELSE <<>>) \o <<48, 46, 48>>
    [] OTHER -> LET sh == DShortest(DAbs(d))
                    body == PyReprLayout(CvDigitUnits(sh.s), sh.k, sh.n)
                    plain == \A ji_k \in 1..Len(body) : CvIsDigit(body[ji_k])
                IN (IF d.s = 1 THEN <<45>> ELSE <<>>) \o body \o (IF plain THEN <<46, 48>> ELSE <<>>)
PyIntText(x) == (IF x.s = 1 THEN <<45>> ELSE <<>>) \o (IF x.n = <<>> THEN <<48>> ELSE CvDigitUnits(x.n))
\* json.dumps of a number
PyJsonNumber(x) ==
  IF x.r = "i" THEN PyIntText(x)
  ELSE CASE x.d.c = "nan" -> <<78, 97, 78>>
         [] x.d.c = "inf" -> (IF x.d.s = 1 THEN <<45>> ELSE <<>>) \o CvInfinityText
         [] OTHER -> PyFloatRepr(x.d)
\* Number.prototype.toString() / toPrecision() without argument: str(int(n)) for integral floats, else str(n)
PyNumberStr(x) ==
  IF x.r = "i" THEN PyIntText(x)
  ELSE IF x.d.c \in {"nan", "inf"} THEN PyInfNan(x.d)
  ELSE IF DIsInteger(x.d) THEN (IF x.d.s = 1 /\ x.d.c # "zero" THEN <<45>> ELSE <<>>) \o FRadixDigits(DTruncMag(x.d), 10)
  ELSE PyFloatRepr(x.d)

\* ---- vm.py _make_number_method --------------------------------------------------------------------
\* int(to_number(arg)): ValueError for NaN, OverflowError for an infinity
ArgIntErr(v) == LET d == ToNumberD(v) IN IF d.c = "nan" THEN "ValueError" ELSE IF d.c = "inf" THEN "OverflowError" ELSE ""
AsIsToString(x, a) ==
  IF a = <<>> THEN HVal(VStr(PyNumberStr(x)))
  ELSE IF ArgIntErr(a[1]) # "" THEN HHost(ArgIntErr(a[1]))
  ELSE LET radix == FToInt(a[1]).i
           d == AToDRaw(x)
       IN IF radix < 2 \/ radix > 36 THEN HThrow("RangeError")
          ELSE IF radix = 10 THEN HVal(VStr(PyNumberStr(x)))
          ELSE IF d.c = "nan" THEN HHost("ValueError")
          ELSE IF d.c = "inf" THEN HHost("OverflowError")
          ELSE IF ~DIsInteger(d) THEN HVal(VStr((IF d.s = 1 THEN <<45>> ELSE <<>>) \o PyFloatRepr(DAbs(d))))   \* "just use base 10"
          ELSE HVal(VStr((IF d.s = 1 /\ d.c # "zero" THEN <<45>> ELSE <<>>) \o FRadixDigits(DTruncMag(d), radix)))
\* shape of a digits text: [-] int digits [. fraction digits] [e +- digits]
ShapeOf(text) ==
  LET body == IF text # <<>> /\ text[1] = 45 THEN Tail(text) ELSE text
      epos == {ji_k \in 1..Len(body) : body[ji_k] = 101}
      ei == IF epos = {} THEN Len(body) + 1 ELSE CHOOSE ji_k \in epos : TRUE
      mant == SubSeq(body, 1, ei - 1)
      dots == {ji_k \in 1..Len(mant) : mant[ji_k] = 46}
      di == IF dots = {} THEN Len(mant) + 1 ELSE CHOOSE ji_k \in dots : TRUE
      ds == SelectSeq(mant, LAMBDA c : c # 46)
      ex == SubSeq(body, ei + 1, Len(body))
      nz == {ji_k \in 1..Len(ds) : ds[ji_k] # 48}
  IN [ok |-> Cardinality(epos) <= 1 /\ Cardinality(dots) <= 1 /\ FAllDigits(ds)
               /\ (epos = {} \/ (Len(ex) >= 2 /\ ex[1] \in {43, 45} /\ FAllDigits(Tail(ex)))),
      neg |-> text # <<>> /\ text[1] = 45, exp |-> epos # {}, frac |-> Len(mant) - di + (IF dots = {} THEN 1 ELSE 0),
      ndig |-> Len(ds), sig |-> IF nz = {} THEN Len(ds) ELSE Len(ds) + 1 - (CHOOSE ji_k \in nz : \A ji_j \in nz : ji_k <= ji_j)]
\* |value(t1) - value(t2)| <= 2^-38 |value(t2)|  (t1 may overflow to Infinity when t2 is just below 2^1024)
CloseTexts(t1, t2) ==
  LET v1 == StrToD(t1)  v2 == StrToD(t2) IN
  IF v1.c = "inf" /\ v2.c = "fin" THEN v1.s = v2.s /\ v2.e = DEMax
  ELSE IF v1.c # "fin" \/ v2.c # "fin" THEN v1.c = v2.c
  ELSE LET df == DSub(v1, v2) IN df.c = "zero" \/ (df.c = "fin" /\ DMagCmp(DFin(0, df.m, df.e + 38), v2) <= 0)
\* one unit in the last mantissa digit of a digits text, as text
UnitText(text) ==
  LET body == IF text # <<>> /\ text[1] = 45 THEN Tail(text) ELSE text
      epos == {ji_k \in 1..Len(body) : body[ji_k] = 101}
      ei == IF epos = {} THEN Len(body) + 1 ELSE CHOOSE ji_k \in epos : TRUE
      dg == {ji_k \in 1..(ei - 1) : CvIsDigit(body[ji_k])}
      last == CHOOSE ji_k \in dg : \A ji_j \in dg : ji_k >= ji_j
  IN [ji_k \in 1..Len(body) |-> IF ji_k \in dg THEN (IF ji_k = last THEN 49 ELSE 48) ELSE body[ji_k]]
\* within one unit of the last printed digit (double rounding in js_round), or within 2^-38 relative
NearTexts(act, exp) ==
  \/ CloseTexts(act, exp)
  \/ LET v1 == StrToD(act)  v2 == StrToD(exp)  un == StrToD(UnitText(act))
     IN v1.c \in {"fin", "zero"} /\ v2.c \in {"fin", "zero"} /\ un.c = "fin"
        /\ LET df == DSub(v1, v2)
               slack == IF v2.c = "fin" THEN DAdd(un, DFin(0, v2.m, v2.e - 45)) ELSE un       \* the three texts are read with rounding
           IN df.c = "zero" \/ DMagCmp(df, slack) <= 0
\* the digits are computed with js_round / log10 / 10**exp in binary floating point: well formed, nearly the right value;
\* toFixed keeps the number of fraction digits, toExponential(f) the number of digits; toPrecision may be one digit
\* short or switch notation when log10 misjudges the exponent next to a power of ten
FloatDigitsOK(m, a, expText, actText) ==
  LET se == ShapeOf(expText)  sa == ShapeOf(actText) IN
  /\ sa.ok /\ sa.ndig >= 1 /\ NearTexts(actText, expText)
  /\ CASE m = "toFixed" -> sa.frac = se.frac /\ ~sa.exp
       [] m = "toExponential" /\ a # <<>> -> sa.exp /\ sa.ndig = se.ndig
       [] m = "toExponential" -> sa.exp /\ sa.ndig <= 17                       \* '%.15g' of the mantissa
       [] m = "toPrecision" -> sa.sig \in {se.sig - 1, se.sig, se.sig + 1}
TinyOrHuge(d) == d.c = "fin" /\ (DDecExp(d) <= -323)
AsIsNumberMethodOK(m, x, a, e, act) ==
  LET d == AToDRaw(x)
      argerr == a # <<>> /\ ArgIntErr(a[1]) # ""
      hosterr == act.o = "host" /\ act.type \in {"ValueError", "OverflowError", "ZeroDivisionError"}
  IN \/ (m = "toString" /\ HMatches(act, AsIsToString(x, a)))
     \/ (m = "toPrecision" /\ (a = <<>> \/ a[1].k = "undef") /\ HMatches(act, HVal(VStr(PyNumberStr(x)))))
     \/ (m # "toString" /\ hosterr /\ (argerr \/ d.c \in {"nan", "inf"} \/ TinyOrHuge(d)))
     \* toFixed multiplies by 10^digits in floating point: Infinity reaches math.floor
     \/ (m = "toFixed" /\ hosterr /\ d.c = "fin" /\ a # <<>> /\ DDecExp(d) + FToInt(a[1]).i >= 308)
     \* the digit-count check comes before the finite check: (Infinity).toPrecision(101) is a RangeError
     \/ (m # "toString" /\ act.o = "throw" /\ act.cls = "RangeError" /\ e.o = "value" /\ d.c \in {"nan", "inf"}
            /\ a # <<>> /\ (FToInt(a[1]).i < (IF m = "toPrecision" THEN 1 ELSE 0) \/ FToInt(a[1]).i > 100))
     \/ (m # "toString" /\ e.o = "value" /\ act.o = "value" /\ act.v.k = "str" /\ d.c \in {"fin", "zero"}
            /\ \/ FloatDigitsOK(m, a, e.v.u, act.v.u)
               \/ (d.c = "zero" /\ d.s = 1 /\ act.v.u = <<45>> \o e.v.u)                  \* -0 keeps its sign
               \/ (m = "toFixed" /\ DGe1e21(d) /\ ShapeOf(act.v.u).ok /\ CloseTexts(act.v.u, e.v.u)))   \* no 1e21 switch to ToString

\* ---- context.py _global_parseint / _global_parsefloat ------------------------------------------------
PyParseInt(a) ==
  LET s0 == PyStrip(AToStringU(AIn(FArg(a, 1), TRUE, AllOn), AllOn))
      rerr == IF Len(a) > 1 THEN ArgIntErr(a[2]) ELSE ""
      r0 == IF Len(a) > 1 THEN FToInt(a[2]).i ELSE 10
      r1 == IF r0 = 0 THEN 10 ELSE r0
      neg == s0 # <<>> /\ s0[1] = 45
      s1 == IF s0 # <<>> /\ s0[1] \in {43, 45} THEN Tail(s0) ELSE s0
      hasPrefix == Len(s1) >= 2 /\ s1[1] = 48 /\ s1[2] \in {120, 88}
      radix == IF hasPrefix THEN 16 ELSE r1                                   \* the prefix is honoured whatever the radix
      s2 == IF hasPrefix THEN SubSeq(s1, 3, Len(s1)) ELSE s1
      bad == {ji_k \in 1..Len(s2) : FAlnumVal(s2[ji_k]) >= radix}
      zend == IF bad = {} THEN Len(s2) ELSE (CHOOSE ji_k \in bad : \A ji_j \in bad : ji_k <= ji_j) - 1
      z == SubSeq(s2, 1, zend)
  IN IF rerr # "" THEN HHost(rerr)
     ELSE IF s0 = <<>> \/ z = <<>> THEN HVal(NumV(DNaN))
     ELSE IF radix > 32768 THEN [o |-> "opaque"]                                 \* digits weighed by a huge radix: not modelled
     ELSE HVal(AOut(AI(IF neg THEN 1 ELSE 0, BnFromDigits([ji_k \in 1..Len(z) |-> FAlnumVal(z[ji_k])], radix))))
\* the scanning loop of _global_parsefloat: index of the last unit it consumes
PyFloatScanEnd(s) ==
  LET start == IF s # <<>> /\ s[1] \in {43, 45} THEN 1 ELSE 0
      step(acc, k) ==
        IF acc.stop \/ k <= start \/ k <= acc.skip THEN acc
        ELSE IF CvIsDigit(s[k]) THEN [acc EXCEPT !.i = k]
        ELSE IF s[k] = 46 /\ ~acc.dot THEN [acc EXCEPT !.i = k, !.dot = TRUE]
        ELSE IF s[k] \in {101, 69} /\ ~acc.ex
             THEN IF k + 1 <= Len(s) /\ s[k + 1] \in {43, 45} THEN [acc EXCEPT !.i = k + 1, !.ex = TRUE, !.skip = k + 1]
                  ELSE [acc EXCEPT !.i = k, !.ex = TRUE]
        ELSE [acc EXCEPT !.stop = TRUE]
  IN BnFold(step, [i |-> start, dot |-> FALSE, ex |-> FALSE, stop |-> FALSE, skip |-> 0], BnIdx(Len(s))).i
PyParseFloat(a) ==
  LET s == PyStrip(AToStringU(AIn(FArg(a, 1), TRUE, AllOn), AllOn))
      pre(t) == Len(s) >= Len(t) /\ SubSeq(s, 1, Len(t)) = t
  IN IF s = <<>> THEN HVal(NumV(DNaN))
     ELSE IF pre(CvInfinityText) \/ pre(<<43>> \o CvInfinityText) THEN HVal(NumV(DInf(0)))
     ELSE IF pre(<<45>> \o CvInfinityText) THEN HVal(NumV(DInf(1)))
     ELSE LET iend == PyFloatScanEnd(s)
              lit == SubSeq(s, 1, iend)
              hasSign == lit # <<>> /\ lit[1] \in {43, 45}
              body == IF hasSign THEN Tail(lit) ELSE lit
              pr == IF body = <<>> THEN CvNaN ELSE CvDecLit(IF lit[1] = 45 THEN 1 ELSE 0, body)
          IN IF iend = 0 THEN HVal(NumV(DNaN)) ELSE HVal(NumV(CvToD(pr)))

\* ---- context.py _create_math_object --------------------------------------------------------------------
PyIntOfD(d) == IF d.c = "zero" THEN DZero(0) ELSE d                        \* a host integer has no -0
PyToInt(d, f(_)) == IF d.c = "nan" THEN HHost("ValueError") ELSE IF d.c = "inf" THEN HHost("OverflowError") ELSE HVal(NumV(PyIntOfD(f(d))))
PyLess(x, y) == x.c # "nan" /\ y.c # "nan" /\ DCmp(x, y) < 0
PyMin(ds) == IF ds = <<>> THEN DInf(0) ELSE BnFold(LAMBDA best, it : IF PyLess(it, best) THEN it ELSE best, ds[1], Tail(ds))
PyMax(ds) == IF ds = <<>> THEN DInf(1) ELSE BnFold(LAMBDA best, it : IF PyLess(best, it) THEN it ELSE best, ds[1], Tail(ds))
PyMathPow(x, y) ==
  IF x.c = "nan" THEN (IF y.c = "zero" THEN HVal(NumV(DOne)) ELSE HVal(NumV(DNaN)))
  ELSE IF y.c = "nan" THEN (IF x = DOne THEN HVal(NumV(DOne)) ELSE HVal(NumV(DNaN)))
  ELSE IF y.c = "zero" THEN HVal(NumV(DOne))
  ELSE IF x.c = "inf" THEN HVal(DPow(x, y))
  ELSE IF y.c = "inf" THEN (IF x.c = "fin" /\ DMagCmpOne(x) = 0 THEN HVal(NumV(DOne))
                            ELSE IF x.c = "zero" /\ y.s = 1 THEN HHost("ValueError") ELSE HVal(DPow(x, y)))
  ELSE IF x.c = "zero" THEN (IF y.s = 1 THEN HHost("ValueError") ELSE HVal(DPow(x, y)))
  ELSE IF x.s = 1 /\ ~DIsInteger(y) THEN HHost("ValueError")
  ELSE LET rf == DPow(x, y)
       IN IF IsApprox(rf) THEN [o |-> "approx-or-host", type |-> "OverflowError"]
          ELSE IF WIsInf(rf.w) THEN HHost("OverflowError") ELSE HVal(rf)
Exp709 == DOfDecimal(0, BnOfInt(7097), -1)                              \* 709.7 < ln(MAX) = 709.78...
MissingMath == {"sinh", "cosh", "tanh", "asinh", "acosh", "atanh"}
AsIsMath(fn, a) ==
  LET ds == [ji_k \in 1..Len(a) |-> ToNumberD(a[ji_k])]
      x == IF Len(a) >= 1 THEN ds[1] ELSE DNaN
      y == IF Len(a) >= 2 THEN ds[2] ELSE DNaN
      ref == MathFn(fn, a)
      half == DFin(0, DP52, -53)
  IN CASE fn \in MissingMath -> HThrow("TypeError")
       [] fn = "floor" -> PyToInt(x, DFloor)
       [] fn = "ceil" -> PyToInt(x, DCeil)
       [] fn = "trunc" -> PyToInt(x, DTrunc)
       [] fn = "round" -> PyToInt(DAdd(x, half), DFloor)                     \* math.floor(x + 0.5) in double arithmetic
       [] fn = "sign" -> IF x.c = "zero" THEN HVal(NumV(DZero(0))) ELSE ref
       [] fn = "min" -> HVal(NumV(PyMin(ds)))
       [] fn = "max" -> HVal(NumV(PyMax(ds)))
       [] fn = "pow" -> PyMathPow(x, y)
       [] fn \in {"sin", "cos", "tan"} -> IF x.c = "inf" THEN HHost("ValueError") ELSE ref
       [] fn \in {"log2", "log10"} -> IF x.c = "zero" THEN HVal(NumV(DNaN)) ELSE ref
       [] fn = "log1p" -> IF x = DNeg(DOne) THEN HVal(NumV(DNaN)) ELSE ref
       [] fn \in {"exp", "expm1"} -> IF x.c = "fin" /\ x.s = 0 /\ DCmp(x, Exp709) > 0 THEN [o |-> "approx-or-host", type |-> "OverflowError"] ELSE ref
       [] fn = "cbrt" -> IF x.c = "zero" THEN HVal(NumV(DZero(0))) ELSE ref
       [] fn = "fround" -> IF x.c = "fin" /\ DRoundF32(x).c = "inf" THEN HHost("OverflowError") ELSE ref
       [] fn = "clz32" -> IF Len(a) >= 1 /\ x.c = "nan" THEN HHost("ValueError") ELSE IF x.c = "inf" THEN HHost("OverflowError") ELSE ref
       [] fn = "imul" -> IF (Len(a) >= 1 /\ x.c = "nan") \/ (x.c # "inf" /\ Len(a) >= 2 /\ y.c = "nan") THEN HHost("ValueError")
                         ELSE IF (Len(a) >= 1 /\ x.c = "inf") \/ (Len(a) >= 2 /\ y.c = "inf") THEN HHost("OverflowError") ELSE ref
       [] OTHER -> ref

\* ---- explanation of a mismatch ---------------------------------------------------------------------------
ExplainFmt(r, x, e) ==
  LET xe == AIn(r.x, r.intrep, AllOn)
      act == r.out
  IN CASE r.g = "fmt" /\ r.m \in {"implicit", "String"} ->
            IF HMatches(act, HVal(VStr(ANumToText(xe, AllOn)))) THEN "Dev_NumToStrPy" ELSE ""
       [] r.g = "fmt" /\ r.m = "json" -> IF HMatches(act, HVal(VStr(PyJsonNumber(xe)))) THEN "Dev_JsonNumberPy" ELSE ""
       [] r.g = "fmt" -> IF AsIsNumberMethodOK(r.m, xe, r.a, e, act) THEN "Dev_NumberMethodsFloat" ELSE ""
       [] r.g = "parse" /\ r.m \in {"Number", "plus", "minus0", "times1"} ->
            LET try(dv) == LET n == AToNumber(AIn(r.a[1], r.intrep, dv), dv)
                               v == CASE r.m = "minus0" -> ASub(n, ANorm(AI(0, <<>>), dv), dv)
                                      [] r.m = "times1" -> AMul(n, ANorm(AI(0, BnOne), dv))
                                      [] OTHER -> n
                           IN HMatches(act, HVal(AOut(v)))
            IN IF try({"Dev_StrToNumPy"}) THEN "Dev_StrToNumPy" ELSE IF try({"Dev_IntRep"}) THEN "Dev_IntRep"
               ELSE IF try({"Dev_StrToNumPy", "Dev_IntRep"}) THEN "Dev_StrToNumPy" ELSE ""
       [] r.g = "parse" /\ r.m = "parseInt" -> LET p == PyParseInt(r.a) IN IF p.o = "opaque" \/ HMatches(act, p) THEN "Dev_ParseIntPy" ELSE ""
       [] r.g = "parse" /\ r.m = "parseFloat" -> IF HMatches(act, PyParseFloat(r.a)) THEN "Dev_ParseFloatPy" ELSE ""
       [] r.g = "math" -> LET p == AsIsMath(r.m, r.a)
                          IN IF ~HMatches(act, p) THEN "" ELSE IF r.m \in MissingMath THEN "Dev_MathMissing" ELSE "Dev_MathHost"
=============================================================================
