---------------------------- MODULE ContextModel ----------------------------
(* C12 - a context keeps its own state: persistent, isolated, usable after errors.      *)
(*                                                                                      *)
(* Part 1 (variable-free operators): the abstract context, the catalogue of snippet     *)
(*   kinds as *programs* (a parse step, a list of effects on the context, an exit), the *)
(*   atomic meaning of one event RunEvent, and the projection Observe that the driver   *)
(*   probes on the real engine after every step.                                        *)
(* Part 2 (state machine): contexts ctx[c], evals run as Begin / Effect* / Exit with    *)
(*   the current-VM pointer set in between; an error-free twin of every context.        *)
(*   TLC checks: Frame (an action on c leaves every other context unchanged), Recovery  *)
(*   (after any error the context equals the twin that never saw the error), effects    *)
(*   before the error persist, pointer clear after every exit, sub-steps agree with the *)
(*   atomic meaning used by the trace specification (C12.tla).                          *)
EXTENDS Naturals, Integers, Sequences, FiniteSets, TLC

\* ============================ Part 1: variable-free ======================================
Names   == {"g", "f"}                   \* g: a data global, f: a function global
Targets == <<"objproto", "math", "arrproto", "strctor", "errproto">>
   \* Object.prototype.zo | Math.zm | Object.getPrototypeOf([]).za | String.zs | Error.prototype.ze
   \* (String.prototype is not reachable from script code in this engine: Object.getPrototypeOf('')
   \*  is null and String.prototype undefined; the String constructor object stands in for it.)
NT == Len(Targets)
TargetIx(t) == CHOOSE j \in 1..NT : Targets[j] = t

\* abstract values: uniform records so TLC never compares different shapes
Absent == [k |-> "absent", n |-> 0]
Num(x) == [k |-> "num", n |-> x]        \* the number x (x >= 1)
Fn(x)  == [k |-> "fn", n |-> x]         \* a script function returning x
Undef  == [k |-> "undef", n |-> 0]      \* declared, value undefined (`var g;` on a context that has no g):
                                        \* typeof and get cannot tell it from absent, reading the name can

\* one context: globals (name -> abstract value), builtinsTouched (target -> 0 = pristine | value),
\* limits, and the current-VM pointer (TRUE while an eval of this context is running)
NewCtx(lim) == [globals |-> [nm \in Names |-> Absent],
                touched |-> [j \in 1..NT |-> 0],
                inv     |-> 0,             \* the marker of this history: on its inventory target (family I), on the object made
                                           \* from text (family T), the value the kept closure returns (family K); 0 = pristine
                made    |-> 0,             \* 1: the global h exists (the object / closure / carrier value made by an earlier eval)
                limits  |-> lim,
                ptr     |-> FALSE,         \* the current-VM pointer designates a running evaluation
                depth   |-> 0]             \* evaluations of this context in progress (an exposed callable may re-enter)
Core(cs) == [globals |-> cs.globals, touched |-> cs.touched, inv |-> cs.inv, made |-> cs.made]    \* everything that may carry over

BaseEvalKinds == {"defvar", "deffun", "assign", "delete",
              "mut_objproto", "mut_math", "mut_arrproto", "mut_strctor", "mut_errproto",
              "throw", "loop", "recurse", "syntax", "ieval", "ieval_loop", "newfn", "read", "reenter"}
\* re-declaration of a name that may exist already: a later program (or indirect eval text) that declares the
\* name again creates it as undefined only if it does not exist; a declaration inside a Function body is local
RedeclKinds == {"redecl", "redecl_f", "redecl_or", "redecl_dead", "redecl_ieval",
                "redecl_newfn", "redecl_newfn_init", "redecl_throw"}
\* family I: one object of the built-in object graph (the inventory target of the history, C12.tla) is modified
InvKinds == {"inv_mut", "inv_del", "inv_throw", "inv_ieval", "inv_loop"}
\* family T: an object is created at run time from text (new Function, Function(), indirect eval, RegExp from a string,
\* JSON.parse, a literal in the program text) and kept in the global h.  Every creation yields a NEW object: nothing written
\* to an earlier object made from the same text - in this or in any other context - is visible on it (tx_make).  When the
\* target of the history is an intrinsic of the context reached THROUGH the made object (its prototype chain), making the
\* object again leaves the marker alone (tx_makei).  tx_mut writes the marker.
TextKinds == {"tx_make", "tx_makei", "tx_mut"}
\* family K: a binding that is not a global but is kept alive by a closure in the global h (catch parameter, own name of a
\* function expression, arguments object, local, parameter, bound argument / this).  kb_make creates binding + closure;
\* kb_other / kb_other_err are later programs that create a binding of the same kind with another value (and end in an error)
\* without touching h: the closure keeps reading its own binding.
KeptKinds == {"kb_make", "kb_other", "kb_other_err"}
\* family V: a value made by one eval (array, function, closure, bound function, regex, object with accessor, native method
\* value ...) is kept in the global h and USED by later evals with a script callback, under every behaviour of the later eval
\* that depends on the interpreter instance running it: its own exception handlers (cv_catch at program level, cv_catchfn
\* inside a function), its own time budget (cv_work: more than one clock poll of work, after any amount of time has passed
\* since earlier evals), and after earlier uses that ended in an error inside the callback (cv_throw, cv_loop, cv_mem).
CarryKinds == {"cv_make", "cv_use", "cv_catch", "cv_catchfn", "cv_throw", "cv_loop", "cv_work", "cv_mem"}
CarryUseKinds == CarryKinds \ {"cv_make"}
EvalKinds == BaseEvalKinds \cup RedeclKinds \cup InvKinds \cup TextKinds \cup KeptKinds \cup CarryKinds
HostKinds == {"set", "get"}
BaseKinds == BaseEvalKinds \cup HostKinds
Kinds == EvalKinds \cup HostKinds
MutKinds == {"mut_objproto", "mut_math", "mut_arrproto", "mut_strctor", "mut_errproto"}
MutTarget(kd) == CASE kd = "mut_objproto" -> 1 [] kd = "mut_math" -> 2 [] kd = "mut_arrproto" -> 3
                   [] kd = "mut_strctor" -> 4 [] kd = "mut_errproto" -> 5

\* effects
EGlob(nm, av) == [e |-> "glob", nm |-> nm, av |-> av, tj |-> 0, tv |-> 0]
ETouch(j, x)  == [e |-> "touch", nm |-> "", av |-> Absent, tj |-> j, tv |-> x]
\* an exposed callable calls Context.eval again: a second evaluation of the same context starts and ends
\* inside the first one; when it ends the pointer designates the evaluation still in progress again
EEnter == [e |-> "enter", nm |-> "", av |-> Absent, tj |-> 0, tv |-> 0]
ELeave == [e |-> "leave", nm |-> "", av |-> Absent, tj |-> 0, tv |-> 0]
EInv(x) == [e |-> "inv", nm |-> "", av |-> Absent, tj |-> 0, tv |-> x]
EMade == [e |-> "made", nm |-> "", av |-> Absent, tj |-> 0, tv |-> 0]      \* the global h now holds the value made
ApplyEff(cs, ef) ==
  CASE ef.e = "glob"  -> [cs EXCEPT !.globals[ef.nm] = ef.av]
    [] ef.e = "made"  -> [cs EXCEPT !.made = 1]
    [] ef.e = "touch" -> [cs EXCEPT !.touched[ef.tj] = ef.tv]
    [] ef.e = "inv"   -> [cs EXCEPT !.inv = ef.tv]
    [] ef.e = "enter" -> [cs EXCEPT !.depth = cs.depth + 1, !.ptr = TRUE]
    [] ef.e = "leave" -> [cs EXCEPT !.depth = cs.depth - 1, !.ptr = (cs.depth - 1 > 0)]
RECURSIVE ApplyEffs(_, _)
ApplyEffs(cs, efs) == IF efs = <<>> THEN cs ELSE ApplyEffs(ApplyEff(cs, Head(efs)), Tail(efs))

\* the statement "assignment to an undeclared identifier" is not generated (DESIGN 4.4 item 1)
\* nor is a use of h before an eval has made it (a ReferenceError: nothing to learn)
Guard(kd, cs) == /\ kd # "assign" \/ cs.globals["g"].k # "absent"
                 /\ kd \in CarryUseKinds \cup {"tx_mut"} => cs.made = 1

\* Does recursion hit the memory limit before the time limit can fire?  The VM polls the clock every
\* POLL instructions; a frame costs FRAME bytes and the recursive snippet spends at most CALLCOST
\* instructions per level.  Only when that is certain does the model insist on "memlimit".
POLL == 1000
FRAME == 200
CALLCOST == 6
MemFirst(lim) == (lim.m \div FRAME + 2) * CALLCOST < POLL
\* cv_work: the callback spends more than one clock poll but less than WORKMAX instructions in all (the driver calibrates
\* the loop count and reports the steps; C12!TraceNext rejects a measurement outside the window as machinery).  The only
\* poll happens at instruction POLL of the eval, when between POLL and WORKMAX ticks of ITS OWN budget are spent - however
\* much virtual time passed between the evals of the history (C12!Gap).
WORKMAX == 1400
WorkOutcome(lim) == IF lim.t > WORKMAX THEN {"value"} ELSE IF lim.t < POLL THEN {"timelimit"} ELSE {"value", "timelimit"}

DontCare == -99
\* results are small integers: n >= 1 the number n, 0 = None (undefined/null/absent), DontCare = not judged
ReadG(cs) == IF cs.globals["g"].k = "num" THEN [os |-> {"value"}, r |-> cs.globals["g"].n]
             ELSE IF cs.globals["g"].k = "undef" THEN [os |-> {"value"}, r |-> 0]     \* declared, undefined
             ELSE [os |-> {"jserror"}, r |-> DontCare]              \* ReferenceError: still a usable context
\* a `var nm` declaration instantiated by a program: creates nm (undefined) unless it exists already
Declare(nm, cs) == IF cs.globals[nm].k = "absent" THEN <<EGlob(nm, Undef)>> ELSE <<>>

\* Prog: [parses, eff: sequence of effects committed in this order, exit: [os: acceptable outcome classes, r]]
Prog(kd, x, cs) ==
  LET val(r) == [os |-> {"value"}, r |-> r]
      P(efs, ex) == [parses |-> TRUE, eff |-> efs, exit |-> ex]
  IN CASE kd = "defvar"  -> P(<<EGlob("g", Num(x))>>, val(DontCare))          \* var g = x
       [] kd = "deffun"  -> P(<<EGlob("f", Fn(x))>>, val(DontCare))           \* function f(){ return x }
       [] kd = "assign"  -> P(<<EGlob("g", Num(x))>>, val(x))                 \* g = x
       [] kd = "delete"  -> P(<<ETouch(1, 0)>>, val(DontCare))                \* delete Object.prototype.zo
       [] kd \in MutKinds -> P(<<ETouch(MutTarget(kd), x)>>, val(DontCare))   \* <target>.z? = x
       [] kd = "throw"   -> P(<<EGlob("g", Num(x))>>, [os |-> {"jserror"}, r |-> DontCare])
       [] kd = "loop"    -> P(<<EGlob("g", Num(x))>>, [os |-> {"timelimit"}, r |-> DontCare])
       [] kd = "recurse" -> P(<<EGlob("g", Num(x))>>,
                              [os |-> IF MemFirst(cs.limits) THEN {"memlimit"} ELSE {"memlimit", "timelimit"},
                               r |-> DontCare])
       [] kd = "syntax"  -> [parses |-> FALSE, eff |-> <<>>, exit |-> [os |-> {"syntax"}, r |-> DontCare]]
       [] kd = "ieval"   -> P(<<EGlob("g", Num(x))>>, val(DontCare))          \* (1,eval)("var g = x")
       \* the limit error of a nested VM: its class belongs to C01; here only the state effects matter
       [] kd = "ieval_loop" -> P(<<EGlob("g", Num(x))>>, [os |-> {"timelimit", "jserror"}, r |-> DontCare])
       [] kd = "newfn"   -> P(<<>>, ReadG(cs))                                \* new Function("return g")()
       [] kd = "read"    -> P(<<>>, ReadG(cs))                                \* g
       \* re(x); ptr()  where re is an exposed callable that evaluates "var g = x" on the same context and ptr
       \* reports whether the current-VM pointer is set: it must be, the outer evaluation is still running
       [] kd = "reenter" -> P(<<EEnter, EGlob("g", Num(x)), ELeave>>, val(1))
       \* ---- re-declaration: the existing value survives; only a missing name is created (as undefined)
       [] kd = "redecl"      -> P(Declare("g", cs), val(DontCare))             \* var g;
       [] kd = "redecl_f"    -> P(Declare("f", cs), val(DontCare))             \* var f;
       [] kd = "redecl_or"   -> P(IF cs.globals["g"].k = "num" THEN <<>>       \* var g = g || x   (x >= 1 is truthy)
                                  ELSE Declare("g", cs) \o <<EGlob("g", Num(x))>>, val(DontCare))
       [] kd = "redecl_dead" -> P(Declare("g", cs), val(DontCare))             \* if (false) { var g = x }
       [] kd = "redecl_ieval" -> P(Declare("g", cs), val(DontCare))            \* (1,eval)("var g;")
       [] kd = "redecl_newfn" -> P(<<>>, val(0))                               \* new Function("var g; return g")()
       [] kd = "redecl_newfn_init" -> P(<<>>, val(x))                          \* new Function("var g = x; return g")()
       [] kd = "redecl_throw" -> P(Declare("g", cs), [os |-> {"jserror"}, r |-> DontCare])    \* var g; throw ...
       \* ---- family I: <target>.<marker> = x on the inventory target of the history
       [] kd = "inv_mut"   -> P(<<EInv(x)>>, val(DontCare))
       [] kd = "inv_del"   -> P(<<EInv(0)>>, val(DontCare))                    \* delete <target>.<marker>
       [] kd = "inv_throw" -> P(<<EInv(x)>>, [os |-> {"jserror"}, r |-> DontCare])
       [] kd = "inv_ieval" -> P(<<EInv(x)>>, val(DontCare))                    \* through indirect eval
       [] kd = "inv_loop"  -> P(<<EInv(x)>>, [os |-> {"timelimit"}, r |-> DontCare])
       \* ---- family T:  var h; (function(){ var hp = h; h = <form>; return hp === h ? 1 : 2 })()  : a new object (result 2),
       \*      pristine (marker 0) whatever was written to an object made from the same text before, here or elsewhere
       [] kd = "tx_make"   -> P(<<EMade, EInv(0)>>, val(2))
       [] kd = "tx_makei"  -> P(<<EMade>>, val(2))                             \* the marker sits on an intrinsic: it stays
       [] kd = "tx_mut"    -> P(<<EInv(x)>>, val(DontCare))                    \* <path from h>.<marker> = x
       \* ---- family K:  var h; <binding with value x, closure over it assigned to h>  /  <binding of the same kind, value x>
       [] kd = "kb_make"      -> P(<<EMade, EInv(x)>>, val(DontCare))
       [] kd = "kb_other"     -> P(<<>>, val(DontCare))
       [] kd = "kb_other_err" -> P(<<>>, [os |-> {"jserror"}, r |-> DontCare])
       \* ---- family V:  var h = <carrier>  /  var g; <use of h with a callback that first does g = x and then ...>
       [] kd = "cv_make"    -> P(<<EMade>>, val(DontCare))
       [] kd = "cv_use"     -> P(Declare("g", cs) \o <<EGlob("g", Num(x))>>, val(DontCare))     \* ... returns
       \* var r = 1; try { use; r = 2 } catch (e) { r = 3 } r : the callback throws, the handler of THIS eval catches it
       [] kd = "cv_catch"   -> P(Declare("g", cs) \o <<EGlob("g", Num(x))>>, val(3))
       [] kd = "cv_catchfn" -> P(Declare("g", cs) \o <<EGlob("g", Num(x))>>, val(3))            \* the same inside a function
       [] kd = "cv_throw"   -> P(Declare("g", cs) \o <<EGlob("g", Num(x))>>, [os |-> {"jserror"}, r |-> DontCare])
       \* try { use } catch (e) {} with a callback that loops / recurses for ever: limit errors are not catchable
       [] kd = "cv_loop"    -> P(Declare("g", cs) \o <<EGlob("g", Num(x))>>, [os |-> {"timelimit"}, r |-> DontCare])
       [] kd = "cv_mem"     -> P(Declare("g", cs) \o <<EGlob("g", Num(x))>>,
                                 [os |-> IF MemFirst(cs.limits) THEN {"memlimit"} ELSE {"memlimit", "timelimit"}, r |-> DontCare])
       [] kd = "cv_work"    -> P(Declare("g", cs) \o <<EGlob("g", Num(x))>>, [os |-> WorkOutcome(cs.limits), r |-> DontCare])

\* atomic meaning of one event: post-state, acceptable outcome classes, result
RunEvent(cs, kd, x) ==
  CASE kd = "set" -> [st |-> [cs EXCEPT !.globals["g"] = Num(x)], os |-> {"value"}, r |-> 0]
    [] kd = "get" -> [st |-> cs, os |-> {"value"}, r |-> IF cs.globals["g"].k = "num" THEN cs.globals["g"].n ELSE 0]
    [] OTHER -> LET p == Prog(kd, x, cs)
                IN [st |-> [ApplyEffs([cs EXCEPT !.depth = 1, !.ptr = TRUE], p.eff) EXCEPT !.ptr = FALSE, !.depth = 0],
                    os |-> p.exit.os, r |-> p.exit.r]

\* the error-free twin of a kind: what a history without the error would have run instead
TwinKind(kd) == CASE kd \in {"throw", "loop", "recurse"} -> "defvar"
                  [] kd = "ieval_loop" -> "ieval"
                  [] kd = "redecl_throw" -> "redecl"
                  [] kd \in {"inv_throw", "inv_loop"} -> "inv_mut"
                  [] kd = "kb_other_err" -> "kb_other"
                  [] kd \in {"cv_throw", "cv_loop", "cv_mem", "cv_work"} -> "cv_use"
                  [] OTHER -> kd
IsErrorKind(kd) == kd \in {"throw", "loop", "recurse", "syntax", "ieval_loop", "redecl_throw", "inv_throw", "inv_loop",
                           "kb_other_err", "cv_throw", "cv_loop", "cv_mem", "cv_work"}

\* the projection the driver probes (checks/c12_driver.py: probe()):
\*  <<get g, typeof g, eval g, get f, typeof f, f(), zo, zm, za, zs, ze, pointer clear, unexpected global names,
\*    g can be read (declared), f can be read, marker of the history (inventory target / object made from text / value
\*    returned by the kept closure), the global h exists>>
FnMark == -4
Observe(cs) ==
  LET gv == cs.globals["g"]  fv == cs.globals["f"]
  IN <<IF gv.k = "num" THEN gv.n ELSE 0,
       IF gv.k = "num" THEN 1 ELSE 0,
       IF gv.k = "num" THEN gv.n ELSE 0,
       IF fv.k = "fn" THEN FnMark ELSE 0,
       IF fv.k = "fn" THEN 2 ELSE 0,
       IF fv.k = "fn" THEN fv.n ELSE 0>>
     \o [j \in 1..NT |-> cs.touched[j]]
     \o <<IF cs.ptr THEN 0 ELSE 1, 0>>
     \o <<IF gv.k = "absent" THEN 0 ELSE 1, IF fv.k = "absent" THEN 0 ELSE 1, cs.inv, cs.made>>
ObsLen == 12 + NT
MadeIx == 12 + NT
DeclIx(nm) == IF nm = "g" THEN 9 + NT ELSE 10 + NT
InvIx == 11 + NT
\* adopt an observed projection as the model state (total trace validation: resync and keep going)
Adopt(cs, ob) ==
  [cs EXCEPT !.globals = [nm \in Names |-> IF nm = "g" /\ ob[3] >= 1 THEN Num(ob[3])
                                            ELSE IF nm = "f" /\ ob[6] >= 1 THEN Fn(ob[6])
                                            ELSE IF ob[DeclIx(nm)] = 1 THEN Undef ELSE Absent],
             !.touched = [j \in 1..NT |-> IF ob[6 + j] >= 0 THEN ob[6 + j] ELSE 0],
             !.inv = IF ob[InvIx] >= 0 THEN ob[InvIx] ELSE 0,
             !.made = IF ob[MadeIx] = 1 THEN 1 ELSE 0,
             !.ptr = FALSE]

\* ============================ Part 2: the state machine ===================================
CONSTANTS NC,        \* number of contexts
          MAXN,      \* history length bound (CONSTRAINT)
          Vals,      \* values written (model checking: a small set; the enumeration uses the position)
          MCKinds    \* the kinds enabled in this run (the whole catalogue, or a sub-catalogue with more values)
Ctxs == 1..NC
\* two contexts with different limits (ticks of the virtual clock, bytes), a third for long histories
LimitsOf(c) == CASE c = 1 -> [t |-> 500, m |-> 10000] [] c = 2 -> [t |-> 1500, m |-> 20000]
                 [] OTHER -> [t |-> 1500, m |-> 30000]

VARIABLES ctx,      \* [Ctxs -> context]
          twin,     \* [Ctxs -> context]: the same history with every error replaced by its error-free twin
          pc,       \* the eval in progress: [m: "idle"|"run", c, kind, x, i, start]
          evn,      \* completed events
          actor,    \* context of the last step (0 initially)
          last      \* outcome class of the last completed event
cmvars == <<ctx, twin, pc, evn, actor, last>>

Idle == [m |-> "idle", c |-> 0, kind |-> "", x |-> 0, i |-> 0, start |-> NewCtx(LimitsOf(1))]
Init == /\ ctx = [c \in Ctxs |-> NewCtx(LimitsOf(c))]
        /\ twin = [c \in Ctxs |-> NewCtx(LimitsOf(c))]
        /\ pc = Idle /\ evn = 0 /\ actor = 0 /\ last = "none"

TwinStep(c, kd, x) ==     \* the twin runs the error-free variant (nothing at all for a syntax error)
  IF kd = "syntax" \/ ~Guard(TwinKind(kd), twin[c]) THEN twin
  ELSE [twin EXCEPT ![c] = RunEvent(twin[c], TwinKind(kd), x).st]

\* Context.eval: parse + compile first (a syntax error leaves before any VM exists) ...
Begin(c, kd, x) ==
  /\ pc.m = "idle" /\ kd \in MCKinds /\ Guard(kd, ctx[c])
  /\ actor' = c
  /\ IF ~Prog(kd, x, ctx[c]).parses
     THEN /\ last' = "syntax" /\ evn' = evn + 1 /\ twin' = TwinStep(c, kd, x)
          /\ UNCHANGED <<ctx, pc>>
     ELSE /\ pc' = [m |-> "run", c |-> c, kind |-> kd, x |-> x, i |-> 1, start |-> ctx[c]]
          /\ ctx' = [ctx EXCEPT ![c].ptr = TRUE, ![c].depth = 1]          \* self._current_vm = vm
          /\ UNCHANGED <<twin, evn, last>>
\* ... the VM commits effects one at a time on the shared globals / built-in objects ...
Effect ==
  /\ pc.m = "run"
  /\ LET p == Prog(pc.kind, pc.x, pc.start)
     IN /\ pc.i <= Len(p.eff)
        /\ ctx' = [ctx EXCEPT ![pc.c] = ApplyEff(ctx[pc.c], p.eff[pc.i])]
        /\ pc' = [pc EXCEPT !.i = pc.i + 1]
  /\ actor' = pc.c
  /\ UNCHANGED <<twin, evn, last>>
\* ... and every exit (value or any error) goes through the finally clause that clears the pointer
Exit ==
  /\ pc.m = "run"
  /\ LET p == Prog(pc.kind, pc.x, pc.start)
     IN /\ pc.i > Len(p.eff)
        /\ \E o \in p.exit.os : last' = o
  /\ ctx' = [ctx EXCEPT ![pc.c].ptr = FALSE, ![pc.c].depth = 0]
  /\ twin' = TwinStep(pc.c, pc.kind, pc.x)
  /\ pc' = Idle /\ evn' = evn + 1 /\ actor' = pc.c

\* one named action per snippet kind, so that -coverage shows every kind firing
EvalDefVar(c) == /\ pc.m = "idle"
                  /\ \E x \in Vals : Begin(c, "defvar", x)
EvalDefFun(c) == /\ pc.m = "idle"
                  /\ \E x \in Vals : Begin(c, "deffun", x)
EvalAssign(c) == /\ pc.m = "idle"
                  /\ \E x \in Vals : Begin(c, "assign", x)
EvalDelete(c) == /\ pc.m = "idle"
                  /\ Begin(c, "delete", 0)
EvalMutObjProto(c) == /\ pc.m = "idle"
                       /\ \E x \in Vals : Begin(c, "mut_objproto", x)
EvalMutMath(c) == /\ pc.m = "idle"
                   /\ \E x \in Vals : Begin(c, "mut_math", x)
EvalMutArrProto(c) == /\ pc.m = "idle"
                       /\ \E x \in Vals : Begin(c, "mut_arrproto", x)
EvalMutStrCtor(c) == /\ pc.m = "idle"
                      /\ \E x \in Vals : Begin(c, "mut_strctor", x)
EvalMutErrProto(c) == /\ pc.m = "idle"
                       /\ \E x \in Vals : Begin(c, "mut_errproto", x)
EvalThrow(c) == /\ pc.m = "idle"
                 /\ \E x \in Vals : Begin(c, "throw", x)
EvalLoop(c) == /\ pc.m = "idle"
                /\ \E x \in Vals : Begin(c, "loop", x)
EvalRecurse(c) == /\ pc.m = "idle"
                   /\ \E x \in Vals : Begin(c, "recurse", x)
EvalSyntax(c) == /\ pc.m = "idle"
                  /\ Begin(c, "syntax", 0)
EvalIndirect(c) == /\ pc.m = "idle"
                    /\ \E x \in Vals : Begin(c, "ieval", x)
EvalIndirectLoop(c) == /\ pc.m = "idle"
                        /\ \E x \in Vals : Begin(c, "ieval_loop", x)
EvalNewFunction(c) == /\ pc.m = "idle"
                       /\ Begin(c, "newfn", 0)
EvalRead(c) == /\ pc.m = "idle"
                /\ Begin(c, "read", 0)
EvalReenter(c) == /\ pc.m = "idle"
                   /\ \E x \in Vals : Begin(c, "reenter", x)
EvalRedecl(c) == /\ pc.m = "idle"
                 /\ Begin(c, "redecl", 0)
EvalRedeclF(c) == /\ pc.m = "idle"
                  /\ Begin(c, "redecl_f", 0)
EvalRedeclOr(c) == /\ pc.m = "idle"
                   /\ \E x \in Vals : Begin(c, "redecl_or", x)
EvalRedeclDead(c) == /\ pc.m = "idle"
                     /\ \E x \in Vals : Begin(c, "redecl_dead", x)
EvalRedeclIndirect(c) == /\ pc.m = "idle"
                         /\ Begin(c, "redecl_ieval", 0)
EvalRedeclNewFn(c) == /\ pc.m = "idle"
                      /\ Begin(c, "redecl_newfn", 0)
EvalRedeclNewFnInit(c) == /\ pc.m = "idle"
                          /\ \E x \in Vals : Begin(c, "redecl_newfn_init", x)
EvalRedeclThrow(c) == /\ pc.m = "idle"
                      /\ Begin(c, "redecl_throw", 0)
EvalInvMut(c) == /\ pc.m = "idle"
                 /\ \E x \in Vals : Begin(c, "inv_mut", x)
EvalInvDel(c) == /\ pc.m = "idle"
                 /\ Begin(c, "inv_del", 0)
EvalInvThrow(c) == /\ pc.m = "idle"
                   /\ \E x \in Vals : Begin(c, "inv_throw", x)
EvalInvIndirect(c) == /\ pc.m = "idle"
                      /\ \E x \in Vals : Begin(c, "inv_ieval", x)
EvalInvLoop(c) == /\ pc.m = "idle"
                  /\ \E x \in Vals : Begin(c, "inv_loop", x)
EvalTxMake(c) == /\ pc.m = "idle"
                 /\ Begin(c, "tx_make", 0)
EvalTxMakeI(c) == /\ pc.m = "idle"
                  /\ Begin(c, "tx_makei", 0)
EvalTxMut(c) == /\ pc.m = "idle"
                /\ \E x \in Vals : Begin(c, "tx_mut", x)
EvalKbMake(c) == /\ pc.m = "idle"
                 /\ \E x \in Vals : Begin(c, "kb_make", x)
EvalKbOther(c) == /\ pc.m = "idle"
                  /\ \E x \in Vals : Begin(c, "kb_other", x)
EvalKbOtherErr(c) == /\ pc.m = "idle"
                     /\ \E x \in Vals : Begin(c, "kb_other_err", x)
EvalCvMake(c) == /\ pc.m = "idle"
                 /\ Begin(c, "cv_make", 0)
EvalCvUse(c) == /\ pc.m = "idle"
                /\ \E x \in Vals : Begin(c, "cv_use", x)
EvalCvCatch(c) == /\ pc.m = "idle"
                  /\ \E x \in Vals : Begin(c, "cv_catch", x)
EvalCvCatchFn(c) == /\ pc.m = "idle"
                    /\ \E x \in Vals : Begin(c, "cv_catchfn", x)
EvalCvThrow(c) == /\ pc.m = "idle"
                  /\ \E x \in Vals : Begin(c, "cv_throw", x)
EvalCvLoop(c) == /\ pc.m = "idle"
                 /\ \E x \in Vals : Begin(c, "cv_loop", x)
EvalCvWork(c) == /\ pc.m = "idle"
                 /\ \E x \in Vals : Begin(c, "cv_work", x)
EvalCvMem(c) == /\ pc.m = "idle"
                /\ \E x \in Vals : Begin(c, "cv_mem", x)
HostStep(c, kd, x) ==
  /\ pc.m = "idle" /\ kd \in MCKinds
  /\ ctx' = [ctx EXCEPT ![c] = RunEvent(ctx[c], kd, x).st]
  /\ twin' = [twin EXCEPT ![c] = RunEvent(twin[c], kd, x).st]
  /\ evn' = evn + 1 /\ actor' = c /\ last' = "value" /\ UNCHANGED pc
Set(c) == /\ pc.m = "idle"
           /\ \E x \in Vals : HostStep(c, "set", x)
Get(c) == /\ pc.m = "idle"
           /\ HostStep(c, "get", 0)

Next == \/ Effect \/ Exit
        \/ \E c \in Ctxs :
             \/ EvalDefVar(c) \/ EvalDefFun(c) \/ EvalAssign(c) \/ EvalDelete(c)
             \/ EvalMutObjProto(c) \/ EvalMutMath(c) \/ EvalMutArrProto(c) \/ EvalMutStrCtor(c) \/ EvalMutErrProto(c)
             \/ EvalThrow(c) \/ EvalLoop(c) \/ EvalRecurse(c) \/ EvalSyntax(c)
             \/ EvalIndirect(c) \/ EvalIndirectLoop(c) \/ EvalNewFunction(c) \/ EvalRead(c) \/ EvalReenter(c)
             \/ EvalRedecl(c) \/ EvalRedeclF(c) \/ EvalRedeclOr(c) \/ EvalRedeclDead(c) \/ EvalRedeclIndirect(c)
             \/ EvalRedeclNewFn(c) \/ EvalRedeclNewFnInit(c) \/ EvalRedeclThrow(c)
             \/ EvalInvMut(c) \/ EvalInvDel(c) \/ EvalInvThrow(c) \/ EvalInvIndirect(c) \/ EvalInvLoop(c)
             \/ EvalTxMake(c) \/ EvalTxMakeI(c) \/ EvalTxMut(c) \/ EvalKbMake(c) \/ EvalKbOther(c) \/ EvalKbOtherErr(c)
             \/ EvalCvMake(c) \/ EvalCvUse(c) \/ EvalCvCatch(c) \/ EvalCvCatchFn(c) \/ EvalCvThrow(c) \/ EvalCvLoop(c)
             \/ EvalCvWork(c) \/ EvalCvMem(c)
             \/ Set(c) \/ Get(c)
Spec == Init /\ [][Next]_cmvars
Bound == evn < MAXN \/ (evn = MAXN /\ pc.m = "idle")      \* CONSTRAINT: all histories up to MAXN events

\* ---------------- properties TLC checks ---------------------------------------------------------
TypeOK ==
  /\ \A c \in Ctxs : /\ \A nm \in Names : ctx[c].globals[nm].k \in {"absent", "undef", "num", "fn"}
                     /\ \A j \in 1..NT : ctx[c].touched[j] \in Nat
                     /\ ctx[c].inv \in Nat /\ ctx[c].made \in {0, 1}
                     /\ ctx[c].limits = LimitsOf(c)
  /\ pc.m \in {"idle", "run"} /\ evn \in 0..(MAXN + 1) /\ actor \in 0..NC
\* the current-VM pointer is clear after every exit (and belongs to the running eval only)
PointerClear ==
  /\ pc.m = "idle" => \A c \in Ctxs : ~ctx[c].ptr /\ ctx[c].depth = 0
  /\ pc.m = "run" => \A c \in Ctxs : /\ (ctx[c].ptr <=> c = pc.c)           \* also between a nested exit and the outer one
                                       /\ (ctx[c].depth >= 1 <=> c = pc.c)
\* recovery: whatever errors the history contained, every context is in the state of its error-free twin,
\* so every later event (guard, effects, outcome, result, projection) is the same as without the error
Recovery == pc.m = "idle" => \A c \in Ctxs : ctx[c] = twin[c]
\* spelled out (checked in the small configuration): same guards, effects, outcomes, results, projection
RecoveryBehaviour ==
  pc.m = "idle" =>
    \A c \in Ctxs : /\ Core(ctx[c]) = Core(twin[c])
                    /\ Observe(ctx[c]) = Observe(twin[c])
                    /\ \A kd \in Kinds : /\ Guard(kd, ctx[c]) = Guard(kd, twin[c])
                                         /\ Guard(kd, ctx[c]) => RunEvent(ctx[c], kd, 1) = RunEvent(twin[c], kd, 1)
\* frame condition: a step of context c leaves every other context unchanged
Frame == [][\A c \in Ctxs : c # actor' => ctx'[c] = ctx[c]]_cmvars
\* effects committed before the exit persist: leaving (with a value or an error) only clears the pointer
EffectsPersist == [][(pc.m = "run" /\ pc'.m = "idle") => Core(ctx'[pc.c]) = Core(ctx[pc.c])]_cmvars
\* nothing but a running evaluation changes what may carry over, and only through the listed effects
NestingBalanced == [][(pc.m = "run" /\ pc'.m = "idle") => ctx[pc.c].depth = 1]_cmvars
\* the sub-steps of an eval add up to the atomic meaning the trace specification uses
AtomicAgrees == [][(pc.m = "run" /\ pc'.m = "idle") => ctx'[pc.c] = RunEvent(pc.start, pc.kind, pc.x).st]_cmvars
\* a re-declaration (any form, also one that ends in an error) never changes a name that exists already, and a
\* declaration inside a Function body never touches the globals at all
RedeclKeeps == [][(pc.m = "run" /\ pc'.m = "idle" /\ pc.kind \in RedeclKinds) =>
                    \A nm \in Names : /\ pc.start.globals[nm].k \in {"num", "fn"} => ctx'[pc.c].globals[nm] = pc.start.globals[nm]
                                      /\ pc.kind \in {"redecl_newfn", "redecl_newfn_init"} => ctx'[pc.c].globals[nm] = pc.start.globals[nm]]_cmvars
\* an object made from text is NEW: pristine whatever marker an earlier object made from the same text carried (in this
\* context: pc.start.inv; in another one: Frame), and no other event resets a marker (family T)
FreshObjects == [][(pc.m = "run" /\ pc'.m = "idle") =>
                     /\ pc.kind = "tx_make" => ctx'[pc.c].inv = 0 /\ ctx'[pc.c].made = 1
                     /\ pc.kind = "tx_makei" => ctx'[pc.c].inv = pc.start.inv /\ ctx'[pc.c].made = 1]_cmvars
\* a later program that creates a binding of the same kind (also one that ends in an error) does not disturb the binding
\* a closure of an earlier program keeps alive (family K)
KeptBindings == [][(pc.m = "run" /\ pc'.m = "idle" /\ pc.kind \in {"kb_other", "kb_other_err"}) =>
                     Core(ctx'[pc.c]) = Core(pc.start)]_cmvars
\* what a later eval does with a carried value depends on the global state only, not on how earlier evals ended: every
\* use has the outcome classes and the result it has on the error-free twin (family V; Recovery makes the states equal)
OwnInterpreter == pc.m = "idle" =>
                    \A c \in Ctxs : \A kd \in CarryKinds \cap MCKinds :
                       /\ Guard(kd, ctx[c]) = Guard(kd, twin[c])
                       /\ Guard(kd, ctx[c]) => /\ RunEvent(ctx[c], kd, 1).os = RunEvent(twin[c], kd, 1).os
                                               /\ RunEvent(ctx[c], kd, 1).r = RunEvent(twin[c], kd, 1).r
\* a syntax error has no effect at all
SyntaxNoEffect == [][last' = "syntax" /\ evn' = evn + 1 => ctx' = ctx]_cmvars
=============================================================================
