#!/usr/bin/env python3
"""show mismatches of the last run compactly: tools/mm.py C05 [substring-of-case-label] [max]"""
import sys, json
pid = sys.argv[1]; pat = sys.argv[2] if len(sys.argv) > 2 else ""; mx = int(sys.argv[3]) if len(sys.argv) > 3 else 5
def sv(v):
    t = v.get("t")
    if t == "int": return str(v["i"])
    if t == "str": return repr(v["s"])
    if t == "bool": return str(v["b"]).lower()
    if t in ("undef", "null"): return t
    if t == "loc": return "<%s of node %s>" % (v["f"], v["nid"])
    return json.dumps(v)
def so(o):
    if o is None: return "-"
    return o["o"] + (":" + sv(o["v"]) if "v" in o else "") + ((" msg=" + repr(o.get("msg"))) if "msg" in o else "") + (" dev=" + o["dev"] if "dev" in o else "")
n = 0
for line in open("/verif/.work/%s/mismatches.ndjson" % pid):
    d = json.loads(line); det = d["detail"]
    if pat not in det["case"]: continue
    n += 1
    if n > mx: continue
    print("=" * 70); print(det["case"]); print(det["source"])
    print("expected:", [sv(v) for v in det["expected"]["log"]], so(det["expected"]["out"]))
    if det.get("as_is_model"): print("as-is   :", [sv(v) for v in det["as_is_model"]["log"]], so(det["as_is_model"]["out"]), "fired", det.get("fired"))
    print("actual  :", [sv(v) for v in det["actual"]["log"]], so(det["actual"]["out"]))
print(n, "matching mismatches")
