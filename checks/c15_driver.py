"""Engine-side driver for C15: runs a program (MiniJS AST or corpus source) and exports the slot layouts the
compiler chose (locals / cell_vars / free_vars of every compiled function).  `batch` runs several programs
one after the other in the same process, in the order given by the case."""
from harness import render as R
from checks.c05_driver import run_source, proj

PRELUDE = "console.log = __hostlog;"


def layouts(src):
    """slot lists of every function compiled from src, in a canonical order (independent of the lists' own order)"""
    from microjs.parser import Parser
    from microjs.compiler import Compiler, CompiledFunction
    try:
        top = Compiler().compile(Parser(src).parse())
    except Exception as e:                      # syntax errors etc. are judged through the outcome, not here
        return [{"name": "<compile failed>", "np": 0, "locals": [type(e).__name__], "cells": [], "frees": []}]
    out, seen = [], set()

    def walk(cf):
        if id(cf) in seen:
            return
        seen.add(id(cf))
        out.append({"name": cf.name or "", "np": len(cf.params), "locals": list(cf.locals), "cells": list(cf.cell_vars),
                    "frees": list(cf.free_vars)})
        for c in cf.constants:
            if isinstance(c, CompiledFunction):
                walk(c)
    walk(top)
    out.sort(key=lambda f: (f["name"], f["np"], sorted(f["locals"]), sorted(f["cells"]), sorted(f["frees"])))
    return out


def run_one(item, api):
    if "prog" in item:
        src, _ = R.render(item["prog"])
        log, out = run_source(api, src, wall=item.get("wall", 30.0))
    else:
        src = item["src"]
        log, out = run_corpus(api, src, wall=item.get("wall", 60.0))
    return {"id": item["id"], "log": log, "out": out, "lay": layouts(src)}


def run_corpus(api, src, wall=60.0):
    """corpus scripts define their own helpers; console.log and the script-visible string `log_str` are the observations"""
    ctx = api.new_context(time_limit=200000)
    log = []
    ctx.set("__hostlog", lambda *a: (log.append([proj(x) for x in a][0] if a else {"t": "undef"}), None)[1])
    ctx.eval(PRELUDE)
    box = ctx._raw_box
    del box[:]
    out = api.run(lambda: ctx.eval(src), wall=wall, cap=3000000, tick=1.0)
    if out["o"] == "value":
        out.pop("pv", None)
        out["v"] = proj(box[0]) if box else {"t": "host", "d": "no value"}
    if out["o"] == "jserror":
        out["msg"] = str(out.get("msg", ""))[:200]
    out.pop("steps", None)
    try:
        ls = ctx.get("log_str")
        if isinstance(ls, str):
            log.append({"t": "str", "s": ls[:2000]})
    except Exception:
        pass
    return log[:300], out


def driver(case, api):
    if "items" in case:                         # a batch: same process, given order
        res = []
        for item in case["items"]:
            r = run_one(item, api)
            r["id"] = "%s:%s" % (case["id"], item["id"])
            res.append(r)
        return res
    return run_one(case, api)
