------------------------------ MODULE RegexApi ------------------------------
(* The RegExp object protocol (ECMA-262 22.2.7.2 RegExpBuiltinExec, 22.2.6 test / @@match /  *)
(* @@replace / @@search / @@split, 22.1.3.19.1 GetSubstitution) over the matcher of RegexSem. *)
(* Variable-free library; the only state of a RegExp object is the value of `lastIndex`.      *)
(*   rx = [ast, f (flags i m s), g (global), y (sticky)]                                        *)
(*   li = the JsVal stored in lastIndex (any value script code may have assigned)               *)
EXTENDS RegexSem, JsString

Rx(ast, f, g, y) == [ast |-> ast, f |-> f, g |-> g, y |-> y]
Obs(s, m) == IF m.ok THEN [k |-> "m", i |-> m.index, g |-> GroupTexts(s, m)] ELSE [k |-> "null"]
ObsNull == [k |-> "null"]

\* ToLength(ToIntegerOrInfinity(ToNumber(v))) clamped to 2^30
LiSupported(v) == ConvSupported(v)
ToLengthV(v) == Max(ToIntClamp(v), 0)

\* ---- RegExpBuiltinExec --------------------------------------------------------------------------
\* -> [res |-> observation of the result array or null, li |-> lastIndex afterwards, e |-> end of the match or -1]
ExecAt(rx, s, li, devs) ==
  LET uses == rx.g \/ rx.y
      start == IF uses THEN ToLengthV(li) ELSE 0
      fail == [res |-> ObsNull, li |-> IF uses THEN VInt(0) ELSE li, e |-> -1]
  IN IF start > Len(s) THEN fail
     ELSE LET m == IF rx.y THEN Attempt(rx.ast, s, rx.f, start, devs) ELSE Search(rx.ast, s, rx.f, start, devs)
          IN IF ~m.ok THEN fail
             ELSE [res |-> Obs(s, m), li |-> IF uses THEN VInt(m.end) ELSE li, e |-> m.end]
TestAt(rx, s, li, devs) == LET r == ExecAt(rx, s, li, devs) IN [res |-> r.res.k = "m", li |-> r.li]

\* ---- the loop shared by global @@match / @@replace: all results, lastIndex advanced past empty matches ----
RECURSIVE GlobalResults(_, _, _, _, _)
GlobalResults(rx, s, li, devs, acc) ==
  LET r == ExecAt(rx, s, li, devs) IN
  IF r.res.k = "null" THEN [rs |-> acc, li |-> r.li]
  ELSE LET empty == r.res.g[1] = <<>>
           nli == IF empty THEN VInt(ToLengthV(r.li) + 1) ELSE r.li        \* AdvanceStringIndex (non-unicode)
       IN GlobalResults(rx, s, nli, devs, Append(acc, r.res))

TextVal(u) == IF u = UndefText THEN Undef ELSE VStr(u)
ArrOf(res) == VArr([k \in 1..Len(res.g) |-> TextVal(res.g[k])])

\* @@match -> [o, v, idx (index property of the result: -1 = absent), li]
MatchM(rx, s, li, devs) ==
  IF ~rx.g THEN LET r == ExecAt(rx, s, li, devs)
                IN IF r.res.k = "null" THEN [o |-> "value", v |-> Null, idx |-> -1, li |-> r.li]
                   ELSE [o |-> "value", v |-> ArrOf(r.res), idx |-> r.res.i, li |-> r.li]
  ELSE LET all == GlobalResults(rx, s, VInt(0), devs, <<>>)
       IN IF all.rs = <<>> THEN [o |-> "value", v |-> Null, idx |-> -1, li |-> all.li]
          ELSE [o |-> "value", v |-> VArr([k \in 1..Len(all.rs) |-> VStr(all.rs[k].g[1])]), idx |-> -1, li |-> all.li]

\* @@search: lastIndex is saved, set to 0 and restored
SearchM(rx, s, li, devs) ==
  LET r == ExecAt(rx, s, VInt(0), devs)
  IN [o |-> "value", v |-> VInt(IF r.res.k = "null" THEN -1 ELSE r.res.i), idx |-> -1, li |-> li]

\* ---- GetSubstitution (22.1.3.19.1), no named groups --------------------------------------------------
RECURSIVE Subst(_, _, _, _, _, _)
\* matched text, subject, position, caps (texts, UndefText = undefined), template, index into template
Subst(matched, s, pos, caps, t, i) ==
  IF i > Len(t) THEN <<>>
  ELSE IF t[i] # 36 \/ i = Len(t) THEN <<t[i]>> \o Subst(matched, s, pos, caps, t, i + 1)
  ELSE LET c == t[i + 1] IN
       IF c = 36 THEN <<36>> \o Subst(matched, s, pos, caps, t, i + 2)
       ELSE IF c = 38 THEN matched \o Subst(matched, s, pos, caps, t, i + 2)
       ELSE IF c = 96 THEN Slice(s, 0, pos) \o Subst(matched, s, pos, caps, t, i + 2)
       ELSE IF c = 39 THEN Slice(s, Min(pos + Len(matched), Len(s)), Len(s)) \o Subst(matched, s, pos, caps, t, i + 2)
       ELSE IF IsDigitUnit(c)
       THEN LET two == i + 2 <= Len(t) /\ IsDigitUnit(t[i + 2])
                n2 == IF two THEN (c - 48) * 10 + (t[i + 2] - 48) ELSE 0
                use2 == two /\ n2 <= Len(caps)
                n == IF use2 THEN n2 ELSE c - 48
                w == IF use2 THEN 2 ELSE 1
            IN IF n >= 1 /\ n <= Len(caps)
               THEN (IF caps[n] = UndefText THEN <<>> ELSE caps[n]) \o Subst(matched, s, pos, caps, t, i + 1 + w)
               ELSE SubSeq(t, i, i + w) \o Subst(matched, s, pos, caps, t, i + 1 + w)
       ELSE <<36>> \o Subst(matched, s, pos, caps, t, i + 1)
GetSubstitution(matched, s, pos, caps, t) == Subst(matched, s, pos, caps, t, 1)

\* replacer functions are a catalogue of scripted responders the driver installs under the same names
\*   "fnConst": function () { return "#"; }        "fnDollar": function () { return "$&"; }
\*   "fnArgs" : function (a, b, c, d, e) { return "<" + a + "|" + b + "|" + c + "|" + d + "|" + e + ">"; }
ArgText(v) == IF v = UndefText THEN U("undefined") ELSE v
CallReplacer(fn, matched, caps, pos, s) ==
  CASE fn = "fnConst" -> <<35>>
    [] fn = "fnDollar" -> <<36, 38>>
    [] fn = "fnArgs" -> LET args == <<matched>> \o caps \o <<IntText(pos), s>>
                            five == [k \in 1..5 |-> IF k <= Len(args) THEN ArgText(args[k]) ELSE U("undefined")]
                        IN <<60>> \o five[1] \o <<124>> \o five[2] \o <<124>> \o five[3] \o <<124>> \o five[4] \o <<124>> \o five[5] \o <<62>>
FnNames == {"fnConst", "fnDollar", "fnArgs"}

\* repl = [fn |-> name] or [t |-> template units]
RECURSIVE Accumulate(_, _, _, _, _, _)
Accumulate(s, rs, k, nextPos, repl, acc) ==
  IF k > Len(rs) THEN acc \o Slice(s, nextPos, Len(s))
  ELSE LET r == rs[k]
           matched == r.g[1]
           pos == Clamp(r.i, 0, Len(s))
           caps == SubSeq(r.g, 2, Len(r.g))
           rt == IF "fn" \in DOMAIN repl THEN CallReplacer(repl.fn, matched, caps, pos, s)
                 ELSE GetSubstitution(matched, s, pos, caps, repl.t)
       IN IF pos >= nextPos THEN Accumulate(s, rs, k + 1, pos + Len(matched), repl, acc \o Slice(s, nextPos, pos) \o rt)
          ELSE Accumulate(s, rs, k + 1, nextPos, repl, acc)
ReplaceM(rx, s, li, repl, devs) ==
  LET all == IF rx.g THEN GlobalResults(rx, s, VInt(0), devs, <<>>)
             ELSE LET r == ExecAt(rx, s, li, devs) IN [rs |-> IF r.res.k = "null" THEN <<>> ELSE <<r.res>>, li |-> r.li]
  IN [o |-> "value", v |-> VStr(Accumulate(s, all.rs, 1, 0, repl, <<>>)), idx |-> -1, li |-> all.li]
ReplaceAllM(rx, s, li, repl, devs) ==
  IF ~rx.g THEN [o |-> "throw", v |-> VStr(U("TypeError")), idx |-> -1, li |-> li] ELSE ReplaceM(rx, s, li, repl, devs)

\* @@split (22.2.6.14): a fresh sticky matcher tried at every position; the receiver's lastIndex is untouched
\* lim = number of pieces wanted (Lim = no limit)
RECURSIVE SplitLoop(_, _, _, _, _, _, _)
SplitLoop(rx, s, p, q, lim, devs, acc) ==
  IF Len(acc) >= lim THEN SubSeq(acc, 1, lim)
  ELSE IF q >= Len(s) THEN Append(acc, VStr(Slice(s, p, Len(s))))
  ELSE LET m == Attempt(rx.ast, s, rx.f, q, devs) IN
       IF ~m.ok THEN SplitLoop(rx, s, p, q + 1, lim, devs, acc)
       ELSE LET e == Min(m.end, Len(s)) IN
            IF e = p THEN SplitLoop(rx, s, p, q + 1, lim, devs, acc)
            ELSE LET caps == [k \in 1..Len(m.caps) |-> TextVal(CapText(s, m.caps[k]))]
                 IN SplitLoop(rx, s, e, e, lim, devs, Append(acc, VStr(Slice(s, p, q))) \o caps)
SplitM2(rx, s, li, lim, devs) ==
  LET out == IF lim = 0 THEN <<>>
             ELSE IF s = <<>> THEN (IF Attempt(rx.ast, s, rx.f, 0, devs).ok THEN <<>> ELSE <<VStr(s)>>)
             ELSE LET ps == SplitLoop(rx, s, 0, 0, lim, devs, <<>>) IN SubSeq(ps, 1, Min(Len(ps), lim))
  IN [o |-> "value", v |-> VArr(out), idx |-> -1, li |-> li]


\* ----------------------------------------------------------------------------------------------------
\* As-is rules of the engine (named deviations, DESIGN 2.3).  Each mirrors one code site; they are used by
\* the judges only to *explain* an observation that differs from the reference above.
\* -----------------------------------------------------------------------------------------------------
IsIntVal(v) == v.k = "num" /\ WIsSmallInt(v.w)
IntOf(v) == WTruncClamp(v.w)
\* regex/regex.py RegExp.exec / test called through values.py JSRegExp (raw lastIndex handed to the matcher).
\* Defined for an integer lastIndex in 0..len; the other raw values are input-class deviations (C20.tla).
\*   Dev_ExecEmptyAdvance : global, non-sticky, empty match: lastIndex = index + 1 (regex.py `else result.index + 1`)
\*   Dev_TestStickyNoUpdate: test() on a sticky, non-global regex never writes lastIndex (regex.py test: `if self._global`)
ExecAsIs(rx, s, li, devs, isTest) ==
  LET r == ExecAt(rx, s, li, devs)
      emptyAdv == "Dev_ExecEmptyAdvance" \in devs /\ rx.g /\ ~rx.y /\ r.res.k = "m" /\ r.res.g[1] = <<>>
      noUpd == "Dev_TestStickyNoUpdate" \in devs /\ isTest /\ rx.y /\ ~rx.g
  IN [res |-> r.res, li |-> IF noUpd THEN li ELSE IF emptyAdv THEN VInt(r.res.i + 1) ELSE r.li]

\* vm.py string methods drive RegexVM.search themselves: the sticky flag and lastIndex are ignored and never written
\*   Dev_StrMethodsIgnoreState
Unsticky(rx) == [rx EXCEPT !.y = FALSE]
\* vm.py replace.handle_replacement: successive str.replace passes over the whole template
\*   Dev_ReplaceTemplate:  "$$" -> marker; "$&" -> match; "$1".."$9" -> capture or ""; marker -> "$"   ($` $' $nn unknown)
RECURSIVE ReplaceAllText(_, _, _)
ReplaceAllText(t, pat, by) ==                       \* Python str.replace: non-overlapping, left to right
  LET k == IndexFrom(t, pat, 0)
  IN IF k = -1 THEN t ELSE Slice(t, 0, k) \o by \o ReplaceAllText(Slice(t, k + Len(pat), Len(t)), pat, by)
Marker == <<0, 68, 79, 76, 76, 65, 82, 0>>
RECURSIVE DollarDigits(_, _, _)
DollarDigits(t, caps, n) ==
  IF n > 9 THEN t
  ELSE DollarDigits(ReplaceAllText(t, <<36, 48 + n>>, IF n <= Len(caps) /\ caps[n] # UndefText THEN caps[n] ELSE <<>>), caps, n + 1)
TemplateAsIs(matched, caps, t) ==
  LET t1 == ReplaceAllText(t, <<36, 36>>, Marker)
      t2 == ReplaceAllText(t1, <<36, 38>>, matched)
      t3 == DollarDigits(t2, caps, 1)
  IN ReplaceAllText(t3, Marker, <<36>>)
RECURSIVE AccumulateAsIs(_, _, _, _, _, _)
AccumulateAsIs(s, rs, k, nextPos, t, acc) ==
  IF k > Len(rs) THEN acc \o Slice(s, nextPos, Len(s))
  ELSE LET r == rs[k]  matched == r.g[1]
       IN AccumulateAsIs(s, rs, k + 1, r.i + Len(matched), t,
                         acc \o Slice(s, nextPos, r.i) \o TemplateAsIs(matched, SubSeq(r.g, 2, Len(r.g)), t))
\* vm.py split: search from pos; always emits the piece before the match, also for an empty match at `last_end`
\* and at the very end;   Dev_SplitLoop
RECURSIVE SplitAsIs(_, _, _, _, _, _)
SplitAsIs(rx, s, lastEnd, pos, devs, acc) ==
  IF pos > Len(s) THEN Append(acc, VStr(Slice(s, lastEnd, Len(s))))
  ELSE LET m == Search(rx.ast, s, rx.f, pos, devs) IN
       IF ~m.ok THEN Append(acc, VStr(Slice(s, lastEnd, Len(s))))
       ELSE LET caps == [k \in 1..Len(m.caps) |-> TextVal(CapText(s, m.caps[k]))]
                acc2 == Append(acc, VStr(Slice(s, lastEnd, m.index))) \o caps
            IN SplitAsIs(rx, s, m.end, IF m.end > m.index THEN m.end ELSE m.index + 1, devs, acc2)

\* ---- catalogue of the lastIndex histories (shared by LastIndex.tla and C20.tla) -----------------------------------------------------------
PatA    == Chr(97)                                                  \* a
PatStar == Rep(Chr(97), 0, -1, TRUE)                                \* a*      matches empty
PatEps  == Eps                                                      \* (empty) matches empty
PatGrp  == Cat(Grp(1, Chr(97)), Rep(Grp(2, Chr(98)), 0, 1, TRUE))   \* (a)(b)?
PatBol  == Cat(Bol, Chr(97))                                        \* ^a
PatAlt  == Alt(Chr(65), Cat(Chr(98), Eol))                          \* A|b$
Patterns == <<PatA, PatStar, PatEps, PatGrp, PatBol, PatAlt>>
FlagSets == <<"", "g", "y", "gy", "gi", "gm">>
Subjects == <<<<>>, <<97, 97, 98>>, <<98, 97>>, <<98, 10, 97>>>>   \* "", "aab", "ba", "b\na"
HasFlag(fs, c) == \E k \in 1..Len(fs) : SubSeq(fs, k, k) = c
RxOf(p, fs) == Rx(Patterns[p], Flags(HasFlag(fs, "i"), HasFlag(fs, "m"), FALSE), HasFlag(fs, "g"), HasFlag(fs, "y"))

\* operations: exec, test, read, and assignments of lastIndex
WHalf15 == <<16376, 0, 0, 0>>                                       \* 1.5
AssignVal(op, n) ==
  CASE op = "set0" -> VInt(0)  [] op = "set1" -> VInt(1)  [] op = "set2" -> VInt(2)
    [] op = "setLen" -> VInt(n)  [] op = "setLen1" -> VInt(n + 1)  [] op = "setNeg" -> VInt(-1)
    [] op = "setHalf" -> VNumW(WHalf15)  [] op = "setStr1" -> VStr(<<49>>)
AssignOps == {"set0", "set1", "set2", "setLen", "setLen1", "setNeg", "setHalf", "setStr1"}
Ops == <<"exec", "test", "read", "set0", "set1", "set2", "setLen", "setLen1", "setNeg", "setHalf", "setStr1">>
OpSet == {Ops[k] : k \in 1..Len(Ops)}

=============================================================================
