"""Engine-side driver for C15: runs a program (MiniJS AST, source text given by the specification, or a corpus script)
and exports the slot layouts the compiler chose (locals / cell_vars / free_vars of every compiled function).

Cases:
  {"id", "prog" | "src", "mode": "ast" | "text" | "corpus", "ml"}      one program, fresh context, clock starts at 0
  {"id", "table": {key: item}}                                           programs the following cases refer to by key
  {"id", "items": [item | key ...], "clks": ["b2b" | "gap" ...], "fork": bool, "lay": bool (export layouts, default yes)}
        a history: the items one after the other, each on a fresh context, the whole list once per entry of `clks`,
        in one process.  The virtual clock is never set back; "b2b": it only moves while a program runs, "gap": before
        every evaluation it is advanced by more than any context's time limit.  fork: the history runs in a child
        forked from this (pristine) process, so nothing was evaluated before its first item.
The driver computes no expectation.
"""
import os, json, traceback
from harness import render as R
from checks.c05_driver import proj, LOG_CAP, TIME_LIMIT_STEPS

PRELUDE = "console.log = __hostlog;"
CORPUS_TIME_LIMIT = 200000
GAP = 1000000.0                 # virtual seconds between two evaluations of a "gap" round: beyond every time limit used here
TABLE = {}


def layouts(src):
    """slot lists of every function compiled from src, in a canonical order (independent of the lists' own order)"""
    from microjs.parser import Parser
    from microjs.compiler import Compiler, CompiledFunction
    try:
        top = Compiler().compile(Parser(src).parse())
    except Exception as e:                      # syntax errors etc. are judged through the outcome, not here
        return [{"name": "<compile failed>", "np": 0, "locals": [type(e).__name__], "cells": [], "frees": []}]
    out, seen = [], set()

    def walk(cf):
        if id(cf) in seen:
            return
        seen.add(id(cf))
        out.append({"name": cf.name or "", "np": len(cf.params), "locals": list(cf.locals), "cells": list(cf.cell_vars),
                    "frees": list(cf.free_vars)})
        for c in cf.constants:
            if isinstance(c, CompiledFunction):
                walk(c)
    walk(top)
    # Internal names of catch parameters ("e@17") carry a number drawn from a process-wide counter (since 02c280e a later
    # program never reuses the name of an earlier one). The number is not observable by a script; what matters for the
    # layout comparison is which catch clause a slot belongs to: renumber by rank within this compilation.
    import re
    nums = sorted({int(m.group(1)) for f in out for lst in (f["locals"], f["cells"], f["frees"]) for nm in lst
                   for m in [re.search(r"@(\d+)$", nm)] if m})
    rank = {n: i + 1 for i, n in enumerate(nums)}

    def canon(nm):
        m = re.search(r"@(\d+)$", nm)
        return nm[:m.start()] + "@%d" % rank[int(m.group(1))] if m else nm
    for f in out:
        for k in ("locals", "cells", "frees"):
            f[k] = [canon(nm) for nm in f[k]]
    out.sort(key=lambda f: (f["name"], f["np"], sorted(f["locals"]), sorted(f["cells"]), sorted(f["frees"])))
    return out


def run_source(api, src, memory_limit=None, wall=30.0, keep_clock=False):
    """a rendered MiniJS program or a text program: host function `log`, time limit in virtual seconds (= instructions)"""
    ctx = api.new_context(time_limit=TIME_LIMIT_STEPS, memory_limit=memory_limit or None)
    log = []

    def host_log(*a):
        if len(log) >= LOG_CAP:
            raise api.HarnessHang("log cap")
        log.append(proj(a[0]) if a else {"t": "undef"})

    ctx.set("log", host_log)
    box = ctx._raw_box
    del box[:]
    out = api.run(lambda: ctx.eval(src), wall=wall, cap=400000, tick=1.0, keep_clock=keep_clock)
    if out["o"] == "value":
        out.pop("pv", None)
        if not box:
            raise RuntimeError("raw-value tap did not fire")
        out["v"] = proj(box[0])
    if out["o"] == "jserror":
        out["msg"] = str(out.get("msg", ""))[:200]
    out.pop("steps", None)
    return log, out


def run_corpus(api, src, wall=60.0, keep_clock=False):
    """corpus scripts define their own helpers; console.log and the script-visible string `log_str` are the observations"""
    ctx = api.new_context(time_limit=CORPUS_TIME_LIMIT)
    log = []
    ctx.set("__hostlog", lambda *a: (log.append([proj(x) for x in a][0] if a else {"t": "undef"}), None)[1])
    ctx.eval(PRELUDE)
    box = ctx._raw_box
    del box[:]
    out = api.run(lambda: ctx.eval(src), wall=wall, cap=3000000, tick=1.0, keep_clock=keep_clock)
    if out["o"] == "value":
        out.pop("pv", None)
        out["v"] = proj(box[0]) if box else {"t": "host", "d": "no value"}
    if out["o"] == "jserror":
        out["msg"] = str(out.get("msg", ""))[:200]
    out.pop("steps", None)
    try:
        ls = ctx.get("log_str")
        if isinstance(ls, str):
            log.append({"t": "str", "s": ls[:2000]})
    except Exception:
        pass
    return log[:300], out


def run_one(item, api, keep_clock=False, want_lay=True):
    mode = item.get("mode") or ("ast" if "prog" in item else "corpus")
    if mode == "corpus":
        src = item["src"]
        log, out = run_corpus(api, src, wall=item.get("wall", 60.0), keep_clock=keep_clock)
    else:
        src = R.render(item["prog"])[0] if mode == "ast" else item["src"]
        log, out = run_source(api, src, memory_limit=item.get("ml"), wall=item.get("wall", 30.0), keep_clock=keep_clock)
    # so: the order in which this process iterates a set of strings - shows that the hash seed the check asked for is in force
    return {"id": item["id"], "log": log, "out": out, "hl": bool(want_lay), "lay": layouts(src) if want_lay else [],
            "so": "".join({"alpha", "beta", "gamma", "delta", "eps", "zeta", "eta", "theta"})}


def run_history(case, api):
    res = []
    for rnd, clk in enumerate(case["clks"], 1):
        for idx, it in enumerate(case["items"], 1):
            item = TABLE[it] if isinstance(it, str) else it
            if clk == "gap":
                api.vclock.now += GAP           # time passes while nothing runs
            r = run_one(item, api, keep_clock=True, want_lay=bool(case.get("lay", True)))
            r.update({"hid": case["id"], "round": rnd, "idx": idx, "clk": clk, "item": item["id"]})
            r["id"] = "%s|r%d|%d|%s" % (case["id"], rnd, idx, item["id"])
            res.append(r)
    return res


def forked(fn):
    """run fn() in a child forked from this process and return its (JSON) result"""
    rfd, wfd = os.pipe()
    pid = os.fork()
    if pid == 0:
        try:
            os.close(rfd)
            try:
                data = json.dumps(fn())
            except BaseException:                                   # noqa: BLE001 - reported to the parent as machinery
                data = json.dumps({"machinery": traceback.format_exc()[-1500:]})
            with os.fdopen(wfd, "w") as f:
                f.write(data)
        finally:
            os._exit(0)
    os.close(wfd)
    with os.fdopen(rfd) as f:
        data = f.read()
    os.waitpid(pid, 0)
    if not data:
        raise RuntimeError("forked history produced nothing")
    out = json.loads(data)
    if isinstance(out, dict) and "machinery" in out:
        raise RuntimeError("forked history failed: " + out["machinery"])
    return out


def driver(case, api):
    if "table" in case:
        TABLE.update(case["table"])
        return []
    if "items" in case:                         # a history: same process, given order
        if "clks" not in case:
            case = dict(case, clks=["b2b"])
        if case.get("fork"):
            return forked(lambda: run_history(case, api))
        return run_history(case, api)
    return run_one(case, api)
