#!/usr/bin/env python3
"""tools/keep_seed.py <Cxx> <seedout dir> <k> <caught: quick|thorough|missed> "<what it needs>" "<what I ran / result>" """
import sys, os, shutil, json, subprocess
P, D, K, caught, needs, ran = sys.argv[1:7]
dst = "/verif/seeded/%s-%s" % (P, os.environ.get("KEEP_AS", K))   # KEEP_AS: id suffix when a later round reuses k
os.makedirs(dst, exist_ok=True)
for f in ("patch.diff", "demo.py", "README.txt"):
    shutil.copy(os.path.join(D, K, f), os.path.join(dst, f))
head = subprocess.run(["git", "-C", "/repo", "log", "--format=%h", "-1"], capture_output=True, text=True).stdout.strip()
json.dump({"property": P, "breaks": P, "needs_to_manifest": needs, "repo_head_when_confirmed": head,
           "confirmed": ["patch applies to a clean worktree of /repo HEAD", "tools/baseline_check.py: 487/487 with the change",
                         "demo.py exits 1 with the change and 0 without"],
           "detected_by": caught, "ran": ran}, open(os.path.join(dst, "meta.json"), "w"), indent=1)
print("kept", dst)
