"""C13 driver (runs inside the engine child): parse / evaluate source texts, report raw observations.

case = {id, parse: [src...], mode: "expr" | "prog" | "stmt", evals: [src...]}
result = {id, parsed: [obs...], evals: [outcome...]}
  obs (mode expr) = {"o":"tree","t":<spec tree JSON>} | {"o":"syntax","line","col"} | {"o":"host","type","where"}
  obs (mode prog) = {"o":"tree","ast":<canonical JSON text of to_dict()>} | ...
  obs (mode stmt) = {"o":"tree","t":<statement tree in the record layout of spec/C13.tla>} | ...
No expectation is computed here; the tree is only re-shaped into the record layout of spec/JsGrammar.tla.
"""
import json

ERR = {"t": "error", "op": "", "kids": []}


def node(t, op, kids):
    return {"t": t, "op": op, "kids": kids}


def norm(n):
    """engine AST (to_dict) -> JsGrammar tree.  Unknown shapes become a node that equals no spec tree."""
    ty = n.get("type")
    if ty == "Identifier":
        return node("id", n["name"], [])
    if ty == "NumericLiteral":
        v = n["value"]
        if isinstance(v, float) and v == int(v) and abs(v) < 1e15:
            s = repr(v)
        else:
            s = repr(v)
        return node("num", s, [])
    if ty == "ThisExpression":
        return node("this", "this", [])
    if ty in ("BinaryExpression", "LogicalExpression"):
        return node("bin", n["operator"], [norm(n["left"]), norm(n["right"])])
    if ty == "SequenceExpression":
        xs = [norm(e) for e in n["expressions"]]
        if len(xs) < 2:
            return node("other", "SequenceExpression/%d" % len(xs), [])
        acc = xs[0]
        for x in xs[1:]:
            acc = node("bin", ",", [acc, x])
        return acc
    if ty == "UnaryExpression":
        return node("un", n["operator"], [norm(n["argument"])])
    if ty == "UpdateExpression":
        return node("pre" if n["prefix"] else "post", n["operator"], [norm(n["argument"])])
    if ty == "ConditionalExpression":
        return node("cond", "", [norm(n["test"]), norm(n["consequent"]), norm(n["alternate"])])
    if ty == "AssignmentExpression":
        return node("asg", n["operator"], [norm(n["left"]), norm(n["right"])])
    if ty == "MemberExpression":
        if n["computed"]:
            return node("idx", "", [norm(n["object"]), norm(n["property"])])
        p = n["property"]
        return node("mem", p.get("name", "?") if isinstance(p, dict) else "?", [norm(n["object"])])
    if ty == "CallExpression":
        return node("call", "", [norm(n["callee"])] + [norm(a) for a in n["arguments"]])
    if ty == "NewExpression":
        return node("new", "", [norm(n["callee"])] + [norm(a) for a in n["arguments"]])
    if ty == "ArrayExpression":
        return node("arr", "", [norm(e) for e in n["elements"]])
    if ty == "ArrowFunctionExpression" and n.get("expression") and len(n["params"]) == 1 and isinstance(n["body"], dict):
        return node("arrow", n["params"][0].get("name", "?"), [norm(n["body"])])
    return node("other", str(ty), [])


def norm_stmt(n):
    """engine statement AST (to_dict) -> the statement tree of spec/C13.tla (section "statement nesting")"""
    ty = n.get("type") if isinstance(n, dict) else None
    if ty == "Program":
        return node("prog", "", [norm_stmt(b) for b in n["body"]])
    if ty == "BlockStatement":
        return node("block", "", [norm_stmt(b) for b in n["body"]])
    if ty == "ExpressionStatement":
        return node("es", "", [norm(n["expression"])])
    if ty == "EmptyStatement":
        return node("empty", "", [])
    if ty == "VariableDeclaration" and n.get("kind") == "var" and len(n["declarations"]) == 1 and n["declarations"][0].get("init") is not None:
        d = n["declarations"][0]
        return node("var", d["id"].get("name", "?"), [norm(d["init"])])
    if ty == "IfStatement":
        return node("if", "", [norm(n["test"]), norm_stmt(n["consequent"])] + ([norm_stmt(n["alternate"])] if n.get("alternate") is not None else []))
    if ty == "WhileStatement":
        return node("while", "", [norm(n["test"]), norm_stmt(n["body"])])
    if ty == "DoWhileStatement":
        return node("do", "", [norm_stmt(n["body"]), norm(n["test"])])
    if ty == "ForStatement" and all(isinstance(n.get(k), dict) for k in ("init", "test", "update")):
        return node("for", "", [norm(n["init"]), norm(n["test"]), norm(n["update"]), norm_stmt(n["body"])])
    if ty == "LabeledStatement":
        return node("label", n["label"].get("name", "?"), [norm_stmt(n["body"])])
    if ty == "TryStatement":
        h, f = n.get("handler"), n.get("finalizer")
        kids = [norm_stmt(n["block"])]
        if h is not None:
            kids += [norm(h["param"]) if isinstance(h.get("param"), dict) else node("other", "param", []), norm_stmt(h["body"])]
        if f is not None:
            kids.append(norm_stmt(f))
        return node("try", ("c" if h is not None else "") + ("f" if f is not None else ""), kids)
    if ty == "FunctionDeclaration" and not n.get("params"):
        return node("fun", n["id"].get("name", "?") if isinstance(n.get("id"), dict) else "?", [norm_stmt(n["body"])])
    return node("other", str(ty), [])


def parse_obs(api, src, mode):
    from microjs.parser import Parser

    def go():
        return Parser(src).parse().to_dict()
    out = api.run(go, wall=10.0)
    if out["o"] == "value":
        d = out["pv"]
        if mode == "stmt":
            return {"o": "tree", "t": norm_stmt(d)}
        if mode == "prog":
            return {"o": "tree", "ast": json.dumps(d, sort_keys=True, default=str)}
        body = d.get("body", [])
        if len(body) == 1 and body[0].get("type") == "ExpressionStatement":
            return {"o": "tree", "t": norm(body[0]["expression"])}
        return {"o": "tree", "t": node("other", "Program/%d:%s" % (len(body), ",".join(str(b.get("type")) for b in body[:4])), [])}
    if out["o"] == "syntax":
        return {"o": "syntax", "line": out["line"], "col": out["col"]}
    return {"o": out["o"], "type": out.get("type", ""), "where": out.get("where", ""), "msg": out.get("msg", "")}


def eval_obs(api, src):
    ctx = api.new_context(time_limit=2.0)
    out = api.eval_outcome(ctx, src, wall=10.0, cap=500_000)
    out.pop("steps", None)
    return out


def driver(case, api):
    res = {"id": case["id"], "parsed": [], "evals": []}
    for src in case.get("parse", []):
        res["parsed"].append(parse_obs(api, src, case.get("mode", "expr")))
    for src in case.get("evals", []):
        res["evals"].append(eval_obs(api, src))
    return res
