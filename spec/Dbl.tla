--------------------------------- MODULE Dbl ---------------------------------
(* IEEE-754 binary64 over exact bignum arithmetic.  Variable-free library.      *)
(*                                                                              *)
(* A double travels as four 16-bit words (JsVal) and is decoded to             *)
(*   [c |-> "nan" | "inf" | "zero" | "fin", s |-> 0 | 1, m |-> BigNat, e |-> Int] *)
(* with value (-1)^s * m * 2^e for c = "fin" (canonical: 1 <= m < 2^53,         *)
(* m >= 2^52 or e = -1074, -1074 <= e <= 971).                                  *)
(*                                                                              *)
(* Two independent formulations of every rounded operation:                     *)
(*  - functional  (DAdd, DMul, DDiv, DFmod, DOfDecimal, DShortest): compute the  *)
(*    exact result as a bignum rational and round it (round-to-nearest-even);   *)
(*  - relational  (IsRounded, AddOK, ..., DecimalDenotes, IsShortest,           *)
(*    IsNearestDecimal): given a candidate result z (the engine's own output as *)
(*    the certificate) decide by multiplication and comparison only whether z is *)
(*    the correctly rounded image.  C06/C18 model-check that they agree.        *)
EXTENDS BigNat, JsVal

DNaN == [c |-> "nan", s |-> 0, m |-> <<>>, e |-> 0]
DInf(sg) == [c |-> "inf", s |-> sg, m |-> <<>>, e |-> 0]
DZero(sg) == [c |-> "zero", s |-> sg, m |-> <<>>, e |-> 0]
DFin(sg, mm, ee) == [c |-> "fin", s |-> sg, m |-> mm, e |-> ee]

DP52 == BnPow2(52)
DP53 == BnPow2(53)
DP32 == BnPow2(32)
DEMin == -1074
DEMax == 971

\* ---- words <-> decoded ---------------------------------------------------------------------
DFromW(w) ==
  LET sg == w[1] \div 32768
      be == (w[1] % 32768) \div 16
      hi == w[1] % 16
      top == (IF be = 0 THEN 0 ELSE 16) + hi
      mm == BnNorm(<< w[4] % 32768,
                      (w[4] \div 32768) + (w[3] % 16384) * 2,
                      (w[3] \div 16384) + (w[2] % 8192) * 4,
                      (w[2] \div 8192) + top * 8 >>)
  IN IF be = 2047 THEN (IF hi = 0 /\ w[2] = 0 /\ w[3] = 0 /\ w[4] = 0 THEN DInf(sg) ELSE DNaN)
     ELSE IF mm = <<>> THEN DZero(sg)
     ELSE DFin(sg, mm, IF be = 0 THEN DEMin ELSE be - 1075)

DCanon(d) ==
  /\ d.c \in {"nan", "inf", "zero", "fin"} /\ d.s \in {0, 1}
  /\ (d.c = "fin" => /\ d.m # <<>> /\ BnCmp(d.m, DP53) < 0
                     /\ d.e >= DEMin /\ d.e <= DEMax
                     /\ (BnCmp(d.m, DP52) >= 0 \/ d.e = DEMin))

DToW(d) ==
  CASE d.c = "nan" -> WNaN
    [] d.c = "inf" -> IF d.s = 1 THEN WNegInf ELSE WPosInf
    [] d.c = "zero" -> IF d.s = 1 THEN WNegZero ELSE WPosZero
    [] OTHER ->
       LET l1 == BnLimb(d.m, 1)  l2 == BnLimb(d.m, 2)  l3 == BnLimb(d.m, 3)  l4 == BnLimb(d.m, 4)
           top == l4 \div 8
           be == IF top >= 16 THEN d.e + 1075 ELSE 0
       IN << d.s * 32768 + be * 16 + (top % 16),
             (l3 \div 4) + (l4 % 8) * 8192,
             (l2 \div 2) + (l3 % 4) * 16384,
             l1 + (l2 % 2) * 32768 >>

DNeg(d) == IF d.c = "nan" THEN d ELSE [d EXCEPT !.s = 1 - d.s]
DAbs(d) == IF d.c = "nan" THEN d ELSE [d EXCEPT !.s = 0]
DIsNaN(d) == d.c = "nan"
DIsFin(d) == d.c = "fin"
DOne == DFin(0, DP52, -52)

\* ---- rounding an exact dyadic value --------------------------------------------------------
\* the exact positive value (n + st) * 2^e2, n > 0, st in [0, 1) known only as "sticky" (st > 0)
\* is rounded to nearest, ties to even.  With sticky the caller guarantees BnBitLen(n) >= 55.
DRoundDy(sg, n, e2, sticky) ==
  LET bl == BnBitLen(n)
      et == BnMax(e2 + bl - 53, DEMin)              \* exponent of the result's last place
      sh == et - e2
  IN IF sh <= 0 THEN (IF et > DEMax THEN DInf(sg) ELSE DFin(sg, BnShl(n, 0 - sh), et))     \* exact
     ELSE LET q == BnShr(n, sh)
              ch == BnCmp(BnLowBits(n, sh), BnPow2(sh - 1))
              up == ch > 0 \/ (ch = 0 /\ (sticky \/ BnIsOdd(q)))
              q1 == IF up THEN BnAdd(q, BnOne) ELSE q
              carry == q1 = DP53
              mm == IF carry THEN DP52 ELSE q1
              ee == IF carry THEN et + 1 ELSE et
          IN IF mm = <<>> THEN DZero(sg) ELSE IF ee > DEMax THEN DInf(sg) ELSE DFin(sg, mm, ee)
\* a natural number (exactly when < 2^53, rounded otherwise)
DOfNat(sg, n) == IF n = <<>> THEN DZero(sg) ELSE DRoundDy(sg, n, 0, FALSE)
DOfSmallInt(k) == IF k < 0 THEN DOfNat(1, BnOfInt(0 - k)) ELSE DOfNat(0, BnOfInt(k))

\* ---- comparison ------------------------------------------------------------------------------
\* magnitudes of two finite values: -1, 0, 1
DMagCmp(x, y) ==
  LET px == x.e + BnBitLen(x.m)   py == y.e + BnBitLen(y.m)
  IN IF px # py THEN (IF px < py THEN -1 ELSE 1)
     ELSE LET e0 == BnMin(x.e, y.e) IN BnCmp(BnShl(x.m, x.e - e0), BnShl(y.m, y.e - e0))
\* numeric order of two non-NaN doubles (-0 = +0): -1, 0, 1
DRank(d) == CASE d.c = "zero" -> 0 [] d.s = 1 -> -1 [] OTHER -> 1        \* sign class
DCmp(x, y) ==
  LET rx == DRank(x)  ry == DRank(y)
  IN IF rx # ry THEN (IF rx < ry THEN -1 ELSE 1)
     ELSE IF rx = 0 THEN 0
     ELSE LET mc == IF x.c = "inf" THEN (IF y.c = "inf" THEN 0 ELSE 1)
                    ELSE IF y.c = "inf" THEN -1 ELSE DMagCmp(x, y)
          IN IF rx = 1 THEN mc ELSE 0 - mc
DNumEq(x, y) == ~DIsNaN(x) /\ ~DIsNaN(y) /\ DCmp(x, y) = 0                  \* IEEE equality
DSame(x, y) == x = y                                                      \* same value incl. sign of zero (canonical)

\* ---- functional arithmetic (IEEE-754 round-to-nearest-even) ---------------------------------
DAddFin(x, y) ==
  LET e0 == BnMin(x.e, y.e)
      a == BnShl(x.m, x.e - e0)
      b == BnShl(y.m, y.e - e0)
  IN IF x.s = y.s THEN DRoundDy(x.s, BnAdd(a, b), e0, FALSE)
     ELSE LET cm == BnCmp(a, b)
          IN IF cm = 0 THEN DZero(0)
             ELSE IF cm > 0 THEN DRoundDy(x.s, BnSub(a, b), e0, FALSE)
             ELSE DRoundDy(y.s, BnSub(b, a), e0, FALSE)
DAdd(x, y) ==
  CASE x.c = "nan" \/ y.c = "nan" -> DNaN
    [] x.c = "inf" -> IF y.c = "inf" /\ y.s # x.s THEN DNaN ELSE x
    [] y.c = "inf" -> y
    [] x.c = "zero" -> IF y.c = "zero" THEN DZero(IF x.s = 1 /\ y.s = 1 THEN 1 ELSE 0) ELSE y
    [] y.c = "zero" -> x
    [] OTHER -> DAddFin(x, y)
DSub(x, y) == DAdd(x, DNeg(y))
DXor(a, b) == IF a = b THEN 0 ELSE 1
DMul(x, y) ==
  LET sg == DXor(x.s, y.s) IN
  CASE x.c = "nan" \/ y.c = "nan" -> DNaN
    [] x.c = "inf" -> IF y.c = "zero" THEN DNaN ELSE DInf(sg)
    [] y.c = "inf" -> IF x.c = "zero" THEN DNaN ELSE DInf(sg)
    [] x.c = "zero" \/ y.c = "zero" -> DZero(sg)
    [] OTHER -> DRoundDy(sg, BnMul(x.m, y.m), x.e + y.e, FALSE)
DDiv(x, y) ==
  LET sg == DXor(x.s, y.s) IN
  CASE x.c = "nan" \/ y.c = "nan" -> DNaN
    [] x.c = "inf" -> IF y.c = "inf" THEN DNaN ELSE DInf(sg)
    [] y.c = "inf" -> DZero(sg)
    [] x.c = "zero" -> IF y.c = "zero" THEN DNaN ELSE DZero(sg)
    [] y.c = "zero" -> DInf(sg)
    [] OTHER -> LET dm == BnDivMod(BnShl(x.m, 110), y.m)            \* quotient has >= 57 bits
                IN DRoundDy(sg, dm.q, x.e - y.e - 110, dm.r # <<>>)
\* ECMAScript Number::remainder = C fmod: exact, sign of the dividend
DFmod(x, y) ==
  CASE x.c = "nan" \/ y.c = "nan" -> DNaN
    [] x.c = "inf" \/ y.c = "zero" -> DNaN
    [] y.c = "inf" -> x
    [] x.c = "zero" -> x
    [] OTHER -> IF DMagCmp(x, y) < 0 THEN x
                ELSE LET e0 == BnMin(x.e, y.e)
                         r == BnDivMod(BnShl(x.m, x.e - e0), BnShl(y.m, y.e - e0)).r
                     IN IF r = <<>> THEN DZero(x.s) ELSE DRoundDy(x.s, r, e0, FALSE)

\* ---- relational: is z the correctly rounded image of (-1)^sg * num/den ? ------------------
\* positive rational num/den against the rounding interval of the finite double mm * 2^ee
DScale(v, p) == IF p > 0 THEN BnShl(v, p) ELSE v
DRoundsTo(num, den, mm, ee) ==
  LET even == ~BnIsOdd(mm)
      up  == BnAdd(BnMulS(mm, 2), BnOne)                                  \* upper midpoint (2m+1) * 2^(e-1)
      lo4 == mm = DP52 /\ ee > DEMin                                       \* binade boundary: finer spacing below
      low == IF lo4 THEN BnSub(BnMulS(mm, 4), BnOne) ELSE BnSub(BnMulS(mm, 2), BnOne)
      el  == IF lo4 THEN ee - 2 ELSE ee - 1
      CmpMid(mid, ex) == BnCmp(DScale(num, 0 - ex), DScale(BnMul(den, mid), ex))   \* num/den ? mid * 2^ex
      cu == CmpMid(up, ee - 1)
      cl == CmpMid(low, el)
  IN /\ (cu < 0 \/ (cu = 0 /\ even))
     /\ (cl > 0 \/ (cl = 0 /\ even))
DOverflowMid == BnSub(BnPow2(54), BnOne)                                    \* (2^54 - 1) * 2^970: ties go to Infinity
IsRounded(z, sg, num, den) ==
  /\ z.c \in {"fin", "inf", "zero"} /\ z.s = sg
  /\ CASE z.c = "fin" -> DRoundsTo(num, den, z.m, z.e)
       [] z.c = "inf" -> BnCmp(num, BnShl(BnMul(den, DOverflowMid), 970)) >= 0
       [] OTHER -> BnCmp(BnShl(num, 1075), den) <= 0                        \* <= 2^-1075: tie goes to even = 0
\* exact sum of two finite doubles as [s, n, e]: (-1)^s * n * 2^e  (n = <<>> for zero)
DExactSum(x, y) ==
  LET e0 == BnMin(x.e, y.e)
      a == BnShl(x.m, x.e - e0)
      b == BnShl(y.m, y.e - e0)
  IN IF x.s = y.s THEN [s |-> x.s, n |-> BnAdd(a, b), e |-> e0]
     ELSE IF BnCmp(a, b) >= 0 THEN [s |-> x.s, n |-> BnSub(a, b), e |-> e0]
     ELSE [s |-> y.s, n |-> BnSub(b, a), e |-> e0]
IsRoundedDy(z, sg, n, ee) == IsRounded(z, sg, DScale(n, ee), DScale(BnOne, 0 - ee))
AddOK(x, y, z) ==
  IF x.c = "fin" /\ y.c = "fin"
  THEN LET t == DExactSum(x, y) IN IF t.n = <<>> THEN z = DZero(0) ELSE IsRoundedDy(z, t.s, t.n, t.e)
  ELSE z = DAdd(x, y)                                                       \* special operands: table above
SubOK(x, y, z) == AddOK(x, DNeg(y), z)
MulOK(x, y, z) ==
  IF x.c = "fin" /\ y.c = "fin" THEN IsRoundedDy(z, DXor(x.s, y.s), BnMul(x.m, y.m), x.e + y.e)
  ELSE z = DMul(x, y)
DivOK(x, y, z) ==
  IF x.c = "fin" /\ y.c = "fin"
  THEN LET de == x.e - y.e IN IsRounded(z, DXor(x.s, y.s), DScale(x.m, de), DScale(y.m, 0 - de))
  ELSE z = DDiv(x, y)
\* z = x fmod y: sign of x, |z| < |y|, and |x| - |z| is a multiple of |y| (z exact, never rounded)
FmodOK(x, y, z) ==
  IF x.c = "fin" /\ y.c = "fin"
  THEN IF z.c = "zero" THEN z.s = x.s /\ LET e0 == BnMin(x.e, y.e) IN BnDivMod(BnShl(x.m, x.e - e0), BnShl(y.m, y.e - e0)).r = <<>>
       ELSE /\ z.c = "fin" /\ z.s = x.s /\ DMagCmp(z, y) < 0 /\ DMagCmp(z, x) <= 0
            /\ LET e0 == BnMin(BnMin(x.e, y.e), z.e)
                   df == BnSub(BnShl(x.m, x.e - e0), BnShl(z.m, z.e - e0))
               IN BnDivMod(df, BnShl(y.m, y.e - e0)).r = <<>>
  ELSE z = DFmod(x, y)

\* ---- decimal -> double ----------------------------------------------------------------------
\* the decimal (-1)^sg * ds * 10^p10 (ds a BigNat): correctly rounded
DDecHuge(ds, p10) == BnDecLen(ds) + p10 > 311
DDecTiny(ds, p10) == BnDecLen(ds) + p10 < -326
DOfDecimal(sg, ds, p10) ==
  IF ds = <<>> THEN DZero(sg)
  ELSE IF DDecHuge(ds, p10) THEN DInf(sg)
  ELSE IF DDecTiny(ds, p10) THEN DZero(sg)
  ELSE IF p10 >= 0 THEN DRoundDy(sg, BnMul(ds, BnPow10(p10)), 0, FALSE)
  ELSE LET den == BnPow10(0 - p10)
           kk == BnMax(0, 58 + BnBitLen(den) - BnBitLen(ds))
           dm == BnDivMod(BnShl(ds, kk), den)
       IN DRoundDy(sg, dm.q, 0 - kk, dm.r # <<>>)
DecimalDenotes(sg, ds, p10, z) ==
  IF ds = <<>> THEN z = DZero(sg)
  ELSE IF DDecHuge(ds, p10) THEN z = DInf(sg)
  ELSE IF DDecTiny(ds, p10) THEN z = DZero(sg)
  ELSE IF p10 >= 0 THEN IsRounded(z, sg, BnMul(ds, BnPow10(p10)), BnOne)
  ELSE IsRounded(z, sg, ds, BnPow10(0 - p10))

\* ---- double -> shortest decimal (ECMA-262 Number::toString, radix 10) ---------------------
\* positive finite d; a candidate is digits sd (BigNat, kd digits) with decimal point position nd:
\* value sd * 10^(nd - kd).
DAsRat(sd, p) == IF p >= 0 THEN [n |-> BnMul(sd, BnPow10(p)), d |-> BnOne] ELSE [n |-> sd, d |-> BnPow10(0 - p)]
DDecValid(d, sd, p) == LET x == DAsRat(sd, p) IN DRoundsTo(x.n, x.d, d.m, d.e)
\* d * 10^p as a rational [n, d]
DTimesPow10(d, p) ==
  [n |-> BnMul(DScale(d.m, d.e), IF p > 0 THEN BnPow10(p) ELSE BnOne),
   d |-> BnMul(DScale(BnOne, 0 - d.e), IF p < 0 THEN BnPow10(0 - p) ELSE BnOne)]
\* compare d with 10^j
DCmpPow10(d, j) == LET x == DTimesPow10(d, 0 - j) IN BnCmp(x.n, x.d)
DFloorDiv(x, y) == IF x >= 0 THEN x \div y ELSE 0 - ((0 - x + y - 1) \div y)            \* y > 0
\* nd with 10^(nd-1) <= d < 10^nd
DDecExp(d) ==
  LET bl == d.e + BnBitLen(d.m)                                 \* 2^(bl-1) <= d < 2^bl
      n0 == DFloorDiv((bl - 1) * 30103, 100000) + 1
  IN IF DCmpPow10(d, n0) >= 0 THEN n0 + 1 ELSE IF DCmpPow10(d, n0 - 1) < 0 THEN n0 - 1 ELSE n0
\* ES conditions: sd*10^(nd-kd) rounds to d; no shorter decimal does; sd closest to d, even on ties
IsShortest(d, sd, kd, nd) ==
  LET p == nd - kd
      v == DTimesPow10(d, 0 - p)                                  \* V = d / 10^p: the real number the digits approximate
      cs == BnCmp(BnMul(sd, v.d), v.n)                            \* sd ? V
      other == IF cs > 0 THEN BnSub(sd, BnOne) ELSE BnAdd(sd, BnOne)
      \* 2*|sd - V| ? 1
      twice == IF cs > 0 THEN BnCmp(BnMulS(BnSub(BnMul(sd, v.d), v.n), 2), v.d)
               ELSE BnCmp(BnMulS(BnSub(v.n, BnMul(sd, v.d)), 2), v.d)
  IN /\ kd >= 1 /\ sd # <<>> /\ BnDecLen(sd) = kd
     /\ DDecValid(d, sd, p)
     /\ \/ kd = 1
        \/ LET t0 == BnDivModS(sd, 10).q
           IN ~DDecValid(d, t0, p + 1) /\ ~DDecValid(d, BnAdd(t0, BnOne), p + 1)
     /\ \/ cs = 0
        \/ twice < 0
        \/ (twice = 0 /\ (~BnIsOdd(sd) \/ ~DDecValid(d, other, p)))
        \/ (twice > 0 /\ ~DDecValid(d, other, p)
               /\ LET far == IF cs > 0 THEN BnCmp(BnSub(BnMul(sd, v.d), v.n), v.d) ELSE BnCmp(BnSub(v.n, BnMul(sd, v.d)), v.d)
                  IN far < 0)                                      \* |sd - V| < 1
\* functional: [s, k, n]
DExistsAt(d, nd, kd) ==
  LET p == nd - kd
      v == DTimesPow10(d, 0 - p)
      lo == BnDivMod(v.n, v.d).q
  IN (lo # <<>> /\ DDecValid(d, lo, p)) \/ DDecValid(d, BnAdd(lo, BnOne), p)
DShortest(d) ==
  LET nd == DDecExp(d)
      bs == BnFold(LAMBDA acc, it : IF acc.lo >= acc.hi THEN acc
                                      ELSE LET mid == (acc.lo + acc.hi) \div 2
                                           IN IF DExistsAt(d, nd, mid) THEN [lo |-> acc.lo, hi |-> mid]
                                              ELSE [lo |-> mid + 1, hi |-> acc.hi],
                     [lo |-> 1, hi |-> 17], BnIdx(5))
      kd == bs.lo
      p == nd - kd
      v == DTimesPow10(d, 0 - p)
      dm == BnDivMod(v.n, v.d)
      lo == dm.q
      hi == BnAdd(lo, BnOne)
      vlo == lo # <<>> /\ DDecValid(d, lo, p)
      vhi == DDecValid(d, hi, p)
      c2 == BnCmp(BnMulS(dm.r, 2), v.d)                            \* 2 * frac(V) ? 1
      pick == IF dm.r = <<>> THEN lo
              ELSE IF vlo /\ vhi THEN (IF c2 < 0 THEN lo ELSE IF c2 > 0 THEN hi ELSE IF BnIsOdd(lo) THEN hi ELSE lo)
              ELSE IF vlo THEN lo ELSE hi
  IN IF pick = BnPow10(kd) THEN [s |-> BnPow10(kd - 1), k |-> kd, n |-> nd + 1]
     ELSE [s |-> pick, k |-> kd, n |-> nd]

\* n * 10^q is the decimal with that exponent nearest to |d| (d finite or zero), the larger n on ties
\* (toFixed: q = -fractionDigits; toExponential / toPrecision: q = e - p + 1)
IsNearestDecimal(d, nn, q) ==
  IF d.c = "zero" THEN nn = <<>>
  ELSE LET v == DTimesPow10(d, 0 - q)                               \* V = |d| / 10^q
           n2 == BnMulS(nn, 2)
           hiok == BnCmp(BnMulS(v.n, 2), BnMul(BnAdd(n2, BnOne), v.d)) < 0          \* 2V < 2n + 1
           look == nn = <<>> \/ BnCmp(BnMul(BnSub(n2, BnOne), v.d), BnMulS(v.n, 2)) <= 0    \* 2n - 1 <= 2V
       IN hiok /\ look

\* ---- neighbours (next double away from / towards zero, same sign) ------------------------------
DNextMag(d) ==
  CASE d.c = "zero" -> DFin(d.s, BnOne, DEMin)
    [] d.c = "fin" -> LET m1 == BnAdd(d.m, BnOne)
                      IN IF m1 = DP53 THEN (IF d.e + 1 > DEMax THEN DInf(d.s) ELSE DFin(d.s, DP52, d.e + 1)) ELSE DFin(d.s, m1, d.e)
    [] OTHER -> d
DPrevMag(d) ==
  CASE d.c = "fin" -> IF d.m = BnOne /\ d.e = DEMin THEN DZero(d.s)
                      ELSE IF d.m = DP52 /\ d.e > DEMin THEN DFin(d.s, BnSub(DP53, BnOne), d.e - 1)
                      ELSE DFin(d.s, BnSub(d.m, BnOne), d.e)
    [] d.c = "inf" -> DFin(d.s, BnSub(DP53, BnOne), DEMax)
    [] OTHER -> d
DPow2(k) == DRoundDy(0, BnOne, k, FALSE)                     \* 2^k, -1074 <= k <= 1023

\* ---- integers ---------------------------------------------------------------------------------
DIsInteger(d) == d.c = "zero" \/ (d.c = "fin" /\ (d.e >= 0 \/ BnLowBits(d.m, 0 - d.e) = <<>>))
\* magnitude of trunc(d) as a BigNat (finite d)
DTruncMag(d) == IF d.c # "fin" THEN <<>> ELSE IF d.e >= 0 THEN BnShl(d.m, d.e) ELSE BnShr(d.m, 0 - d.e)
DTrunc(d) == IF d.c # "fin" THEN d ELSE LET t == DTruncMag(d) IN IF t = <<>> THEN DZero(d.s) ELSE DOfNat(d.s, t)
\* ToInt32 / ToUint32 as 32 bits, index 1 = least significant
DToBits32(d) ==
  IF d.c # "fin" THEN [db_k \in 1..32 |-> 0]
  ELSE LET mag == IF d.e >= 32 THEN <<>> ELSE BnLowBits(DTruncMag(d), 32)
           u == IF d.s = 1 /\ mag # <<>> THEN BnSub(DP32, mag) ELSE mag
       IN [db_k \in 1..32 |-> BnBit(u, db_k - 1)]
DBitsSum(bits, from, to) == BnFold(LAMBDA acc, k : acc + bits[k] * BnP2Small[k - from], 0, [db_j \in 1..(to - from + 1) |-> from + db_j - 1])
DBitsNat(bits) == BnNorm(<<DBitsSum(bits, 1, 15), DBitsSum(bits, 16, 30), DBitsSum(bits, 31, 32)>>)
DOfBitsU(bits) == DOfNat(0, DBitsNat(bits))                                      \* as uint32
DOfBitsS(bits) == IF bits[32] = 0 THEN DOfNat(0, DBitsNat(bits))                 \* as int32
                  ELSE DOfNat(1, BnSub(DP32, DBitsNat(bits)))
DToInt32(d) == DOfBitsS(DToBits32(d))
DToUint32(d) == DOfBitsU(DToBits32(d))
\* small integer value of a double known to be an integer with |d| < 2^30
DToSmallInt(d) == IF d.c # "fin" THEN 0 ELSE LET t == BnToInt(DTruncMag(d)) IN IF d.s = 1 THEN 0 - t ELSE t
DIsSmallInt(d) == d.c = "zero" \/ (d.c = "fin" /\ DIsInteger(d) /\ d.e + BnBitLen(d.m) <= 30)
=============================================================================
