"""C12 driver (runs inside the engine child): replay one history on real Context objects.

A history is a sequence of events [c, k] over contexts 1..nc enumerated by TLC (spec/C12.tla).  The
driver renders each event, runs it, and after EVERY step probes the whole projected state of EVERY
context in play.  It defines no space and computes no expectation: the trace goes back to TLC.
"""
from harness import wire  # noqa: F401  (kept for symmetry with other drivers)

TICK = 0.001           # virtual seconds per interpreter step; limits arrive in ticks

SNIPPETS = {
    "defvar": "var g = %d",
    "deffun": "function f(){ return %d }",
    "assign": "g = %d",
    "delete": "delete Object.prototype.zo",
    "mut_objproto": "Object.prototype.zo = %d",
    "mut_math": "Math.zm = %d",
    "mut_arrproto": "Object.getPrototypeOf([]).za = %d",
    "mut_strctor": "String.zs = %d",
    "mut_errproto": "Error.prototype.ze = %d",
    "throw": "var g = %d; throw new Error('boom')",
    "loop": "var g = %d; while (true) {}",
    "recurse": "var g = %d; (function r(){ return r() + 1 })()",
    "syntax": "var g = %d; var = ;",
    "ieval": "(1,eval)('var g = %d')",
    "ieval_loop": "(1,eval)('var g = %d; while (true) {}')",
    "newfn": "new Function('return g')()",
    "read": "g",
    "reenter": "__re(%d); __ptr()",
}

# the probe is installed once per context (rendering it for every step costs 1.4 ms of parsing)
PROBE_SRC = (
    "function __p(){ var a = []; var o = {}; var e = new Error('x'); return ["
    "typeof g === 'undefined' ? 0 : (typeof g === 'number' ? 1 : 9), typeof g === 'undefined' ? 0 : g, "
    "typeof f === 'undefined' ? 0 : (typeof f === 'function' ? 2 : 9), typeof f === 'function' ? f() : 0, "
    "o.zo, Math.zm, a.za, String.zs, e.ze]; }"
)
NPROBE = 9


def cls(v):
    """small-integer image of a Python value handed back by get/eval (see ContextModel!Observe)"""
    import microjs.values as V
    if v is None:
        return 0
    if v is True:
        return -2
    if v is False:
        return -3
    if isinstance(v, (int, float)):
        if v == v and v in (float("inf"), float("-inf")):
            return -1
        if v != v or v != int(v) or not (0 <= v < 1000000):
            return -1
        return int(v)
    if isinstance(v, V.JSFunction):
        return -4
    return -1


def probe(api, ctx, baseline, ptr):
    gg = cls(ctx.get("g"))
    fg = cls(ctx.get("f"))
    out = api.run(lambda: ctx.eval("__p()"), tick=TICK, cap=20000, wall=60.0)
    if out["o"] == "value" and isinstance(out["pv"], list) and len(out["pv"]) == NPROBE:
        p = [cls(x) for x in out["pv"]]
    else:
        p = [-1] * NPROBE       # the context is not usable: a mismatch, judged by the specification
    extra = len([n for n in ctx._globals if n not in baseline and n not in ("g", "f")])
    return [gg, p[0], p[1], fg, p[2], p[3]] + p[4:] + [ptr, extra]


_PROBE_FN = []


def new_ctx(api, lim):
    """A fresh context with the probe installed.  The probe function is compiled once per child process and
    handed to every context with Context.set (a script function object carries no context state)."""
    ctx = api.Context(time_limit=lim["t"] * TICK, memory_limit=lim["m"])
    if not _PROBE_FN:
        scratch = api.Context()
        scratch.eval(PROBE_SRC)
        fn = scratch._globals["__p"]
        chk = api.Context()
        chk.set("__p", fn)
        got = chk.eval("__p()")
        if got != [0] * 4 + [None] * 5:
            raise RuntimeError("probe function does not work when shared between contexts: %r" % (got,))
        _PROBE_FN.append(fn)
    ctx.set("__p", _PROBE_FN[0])
    # exposed callables for the re-entrant snippet: evaluate on the same context / report the current-VM pointer
    ctx.set("__re", lambda n: (ctx.eval("var g = %d" % int(n)), None)[1])
    ctx.set("__ptr", lambda: 0 if ctx._current_vm is None else 1)
    return ctx, frozenset(ctx._globals)


def replay(case, api):
    """case = {id, nc, limits: [{t, m}], h: [{c, k}]} -> {tid, nc, ev: [{c,k,x,o,r,pr}]}"""
    nc = case["nc"]
    ctxs = [new_ctx(api, case["limits"][c]) for c in range(nc)]
    evs = []
    for n, e in enumerate(case["h"], start=1):
        c, k = e["c"], e["k"]
        ctx = ctxs[c - 1][0]
        if k == "set":
            out = api.run(lambda: ctx.set("g", n), tick=TICK, cap=50000, wall=60.0)
        elif k == "get":
            out = api.run(lambda: ctx.get("g"), tick=TICK, cap=50000, wall=60.0)
        else:
            t = SNIPPETS[k]
            src = t % n if "%d" in t else t
            out = api.run(lambda: ctx.eval(src), tick=TICK, cap=50000, wall=60.0)
        r = cls(out.get("pv")) if out["o"] == "value" else -1
        # the pointer of every context is read first: the probe itself evaluates, which would clear a stale pointer
        ptrs = [1 if cx._current_vm is None else 0 for cx, _ in ctxs]
        evs.append({"c": c, "k": k, "x": n, "o": out["o"], "r": r,
                    "pr": [probe(api, cx, base, p) for (cx, base), p in zip(ctxs, ptrs)]})
    return {"id": case["id"], "tid": case["id"], "nc": nc, "ev": evs}
