import os, sys, json, shutil, time

VERIF = os.path.dirname(os.path.dirname(os.path.abspath(__file__)))
REPO = os.environ.get("VERIF_REPO", "/repo")
PY = os.environ.get("VERIF_PYTHON", "/venv/bin/python")
SPEC = os.path.join(VERIF, "spec")
NPROC = int(os.environ.get("VERIF_NPROC", "16"))


class Machinery(Exception):
    """The verification machinery itself failed (exit code 2, never a VIOLATION)."""


def workdir(pid, sub=""):
    d = os.path.join(VERIF, ".work", pid, sub) if sub else os.path.join(VERIF, ".work", pid)
    os.makedirs(d, exist_ok=True)
    return d


def clean_workdir(pid):
    shutil.rmtree(os.path.join(VERIF, ".work", pid), ignore_errors=True)


def write_ndjson(path, recs):
    with open(path, "w") as f:
        for r in recs:
            f.write(json.dumps(r, separators=(",", ":")) + "\n")


def read_ndjson(path):
    out = []
    with open(path) as f:
        for line in f:
            line = line.strip()
            if line:
                out.append(json.loads(line))
    return out


def seed():
    try:
        return int(os.environ.get("VERIF_SEED", "0"))
    except ValueError:
        return 0
