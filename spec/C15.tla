-------------------------------- MODULE C15 --------------------------------
(* C15 - evaluation is deterministic and independent of the host's hash randomisation.            *)
(*   Model checking : Slots.tla (all permutations of the set-derived slot lists, wiring by name)     *)
(*   EqJudge  : one record per program with the observations made under PYTHONHASHSEED = 0..N in   *)
(*              separate processes and in shuffled batches inside one process: all outcomes and    *)
(*              logs are equal; the compiled slot layouts are instances of the Slots model's        *)
(*              nondeterministic choice (same fixed prefix params, arguments[, name], the rest a     *)
(*              permutation); for top-level function declarations the sets are the ones the model    *)
(*              computes from the AST (ScopeOK)                                                    *)
(*   Judge    : (from C05) the common observation is the one MiniJS prescribes                      *)
(*   Enum15   : the spaces enumerated here (second half of the module): capture-order programs,      *)
(*              programs that fail, bystanders that use their names, text-compiling built-ins, and   *)
(*              the histories (what is evaluated before what, how often, with how much time between) *)
EXTENDS C05

\* ---------------- scope analysis on MiniJS ASTs (what Slots calls Free / Captured / LocalSet) -------------------
\* Fv*(node, own): names referenced by the node; with own = FALSE only the references made by functions nested in it count
RECURSIVE FvE(_, _), FvS(_, _), FvL(_, _), FvEs(_, _)
FunLocals(fn) == {fn.params[j] : j \in 1..Len(fn.params)} \cup {"arguments"} \cup VarNamesL(fn.body) \cup FunDeclNames(fn.body)
                 \cup (IF fn.e = "fun" /\ fn.name # "" /\ ~fn.arrow THEN {fn.name} ELSE {})
FreeOfFun(fn) == FvL(fn.body, TRUE) \ FunLocals(fn)
CapturedOf(fn) == FunLocals(fn) \cap FvL(fn.body, FALSE)
AsFun(s) == [e |-> "fdecl", params |-> s.params, body |-> s.body, name |-> s.name, arrow |-> FALSE]
Own(own, S) == IF own THEN S ELSE {}
FvEs(xs, own) == IF xs = <<>> THEN {} ELSE FvE(Head(xs), own) \cup FvEs(Tail(xs), own)
FvE(x, own) ==
  CASE x.e = "var" -> Own(own, {x.x})
    [] x.e \in {"bin", "logic"} -> FvE(x.l, own) \cup FvE(x.r, own)
    [] x.e = "un" -> FvE(x.x, own)
    [] x.e = "cond" -> FvE(x.c, own) \cup FvE(x.a, own) \cup FvE(x.b, own)
    [] x.e \in {"asg", "casg"} -> Own(own, {x.x}) \cup FvE(x.r, own)
    [] x.e = "upd" -> Own(own, {x.x})
    [] x.e = "mem" -> FvE(x.o, own) \cup (IF x.dot THEN {} ELSE FvE(x.p, own))
    [] x.e = "masg" -> FvE(x.m, own) \cup FvE(x.r, own)
    [] x.e = "mupd" -> FvE(x.m, own)
    [] x.e \in {"call", "new"} -> FvE(x.f, own) \cup FvEs(x.a, own)
    [] x.e = "fun" -> FreeOfFun(x)
    [] x.e \in {"arr", "seq"} -> FvEs(x.a, own)
    [] x.e = "obj" -> FvEs(x.vs, own)
    [] OTHER -> {}
FvL(ss, own) == IF ss = <<>> THEN {} ELSE FvS(Head(ss), own) \cup FvL(Tail(ss), own)
FvS(s, own) ==
  CASE s.s = "expr" -> FvE(s.x, own)
    [] s.s = "var" -> UNION {Own(own, {s.ds[j].x}) \cup FvE(s.ds[j].i, own) : j \in 1..Len(s.ds)}
    [] s.s = "fdecl" -> Own(own, {s.name}) \cup FreeOfFun(AsFun(s))
    [] s.s = "block" -> FvL(s.b, own)
    [] s.s = "if" -> FvE(s.c, own) \cup FvS(s.a, own) \cup FvS(s.b, own)
    [] s.s \in {"while", "dowhile"} -> FvE(s.c, own) \cup FvS(s.b, own)
    [] s.s = "for" -> FvS(s.i, own) \cup FvE(s.c, own) \cup FvE(s.u, own) \cup FvS(s.b, own)
    [] s.s \in {"forin", "forof"} -> Own(own, {s.x}) \cup FvE(s.o, own) \cup FvS(s.b, own)
    [] s.s = "switch" -> FvE(s.d, own) \cup UNION {FvE(s.cs[j].t, own) \cup FvL(s.cs[j].b, own) : j \in 1..Len(s.cs)}
    [] s.s = "label" -> FvS(s.b, own)
    [] s.s \in {"return", "throw"} -> FvE(s.x, own)
    [] s.s = "try" -> FvS(s.b, own) \cup FvS(s.c, own) \cup FvS(s.f, own)
    [] OTHER -> {}

\* ---------------- EqJudge ------------------------------------------------------------------------------------------
\* record: [id, prog (MiniJS AST, or [body |-> <<>>] for corpus scripts), ast (BOOLEAN), obs: sequence of [src, log, out, lay]]
SetOf(sq) == {sq[j] : j \in 1..Len(sq)}
IsPermOf(a, b) == Len(a) = Len(b) /\ SetOf(a) = SetOf(b) /\ Cardinality(SetOf(a)) = Len(a)
\* two layouts of the same program: same functions, same fixed prefix, the rest permuted
SameShape(la, lb) ==
  /\ Len(la) = Len(lb)
  /\ \A j \in 1..Len(la) :
       /\ la[j].name = lb[j].name /\ la[j].np = lb[j].np
       /\ IsPermOf(la[j].locals, lb[j].locals) /\ IsPermOf(la[j].cells, lb[j].cells) /\ IsPermOf(la[j].frees, lb[j].frees)
       /\ LET pre == la[j].np + 1 + (IF la[j].name # "" /\ Len(la[j].locals) > la[j].np + 1 /\ la[j].locals[la[j].np + 2] = la[j].name THEN 1 ELSE 0)
          IN la[j].name = "<program>" \/ (Len(la[j].locals) >= la[j].np + 1 /\ SubSeq(la[j].locals, 1, pre) = SubSeq(lb[j].locals, 1, pre))
\* the lists of a top-level function declaration are the sets the scope analysis prescribes
TopDecls(prog) == {prog.body[j] : j \in {q \in 1..Len(prog.body) : prog.body[q].s = "fdecl"}}
UniqueName(prog, d) == Cardinality({e \in TopDecls(prog) : e.name = d.name}) = 1
RECURSIVE HasTryS(_), HasTryL(_)
HasTryL(ss) == IF ss = <<>> THEN FALSE ELSE HasTryS(Head(ss)) \/ HasTryL(Tail(ss))
HasTryS(s) == CASE s.s = "try" -> TRUE [] s.s = "block" -> HasTryL(s.b) [] s.s = "if" -> HasTryS(s.a) \/ HasTryS(s.b)
                [] s.s \in {"while", "dowhile", "for", "forin", "forof", "label"} -> HasTryS(s.b)
                [] s.s = "switch" -> \E j \in 1..Len(s.cs) : HasTryL(s.cs[j].b) [] OTHER -> FALSE
ScopeOK(prog, lay) ==
  \A d \in TopDecls(prog) :
    (UniqueName(prog, d) /\ ~HasTryL(d.body)) =>
      LET fn == AsFun(d)
          S == {j \in 1..Len(lay) : lay[j].name = d.name /\ lay[j].np = Len(d.params)}
      IN \A j \in S : /\ SetOf(lay[j].locals) = FunLocals(fn)
                      /\ CapturedOf(fn) \subseteq SetOf(lay[j].cells)          \* every captured variable has a cell ...
                      /\ SetOf(lay[j].cells) \subseteq FunLocals(fn)          \* ... and only locals have cells (the engine also gives
                                                                              \* `arguments` one when an inner function mentions its own)
                      /\ lay[j].frees = <<>>
\* the judged projections of an observation: log, outcome, and the compiled slot layouts (the distinct ones: a batch run
\* contributes hundreds of observations of one program)
\* (hl: the driver exported the layouts with this observation - it does not in the enumerated histories)
Lays(r) == {r.obs[j].lay : j \in {q \in 1..Len(r.obs) : r.obs[q].hl}}
\* r.exp: the class of outcome the specification prescribes for the program ("" = left open), see ItemExp below
EqVerdict(r) ==
  LET o1 == r.obs[1]
      eq == \A j \in 1..Len(r.obs) : r.obs[j].log = o1.log /\ r.obs[j].out = o1.out
      shp == \A l \in Lays(r) : SameShape(o1.lay, l)                      \* the first observation always has them
      scp == ~r.ast \/ \A l \in Lays(r) : ScopeOK(r.prog, l)
      cls == r.exp = "" \/ \A j \in 1..Len(r.obs) : r.obs[j].out.o = r.exp
      nlay == Cardinality(Lays(r))
      \* r.xv: the value the specification itself prescribes ("" = none): a string
      okv(j) == r.obs[j].out.o = "value" /\ r.obs[j].out.v.t = "str" /\ r.obs[j].out.v.s = r.xv
      val == r.xv = "" \/ \A j \in 1..Len(r.obs) : okv(j)
  IN [id |-> r.id, eq |-> eq, shape |-> shp, scope |-> scp, cls |-> cls, nlay |-> nlay, val |-> val,
      firstval |-> IF val THEN 0 ELSE CHOOSE j \in 1..Len(r.obs) : ~okv(j),
      first |-> IF eq THEN 0 ELSE CHOOSE j \in 1..Len(r.obs) : r.obs[j].log # o1.log \/ r.obs[j].out # o1.out,
      firstcls |-> IF cls THEN 0 ELSE CHOOSE j \in 1..Len(r.obs) : r.obs[j].out.o # r.exp]
EqInit == /\ rec_i \in 1..Len(Recs) /\ cur = <<>> /\ mst = [ctl |-> [m |-> "halt"]]
          /\ PrintT(ToJson(EqVerdict(Recs[rec_i])))
EqNext == UNCHANGED vars

\* ====================================================================================================================
\* The spaces C15 enumerates itself (next to the C05 families CL / HO / EO and the seeded programs):
\*   CO  hash-seed dimension : three function levels, several captured names first mentioned in different orders
\*   WS  write sites         : which construct writes a local / captured / free variable x which slot of the list it has
\*   FF  failing programs    : what fails x how deep x how the functions are made x what encloses the failing statement
\*   FV  bystander programs  : use the names of FF's locals as globals / locals / undeclared names / labels
\*   TX  programs whose built-ins compile or parse text at run time (regex literals, RegExp, string patterns, eval, ...)
\*   PK  computed property keys : kind of the key value x converting construct x container x where the key comes from
\*   EN  enumeration order   : sequence of property kinds (data / getter / setter / both) x how built x enumerating construct
\*   EV  run-time compile sites : site x what the compiled text contains x what of the surrounding program is alive
\*   H*  histories           : which programs are evaluated, in which order, on fresh contexts of ONE process, how often,
\*                             and how much time passes between two evaluations
\* ====================================================================================================================
SRaw(t) == [s |-> "raw", t |-> t]                    \* text that is not in the language (rendered as it is)
Mul(a, b) == Bin("*", a, b)
Perms(n) == {f \in [1..n -> 1..n] : \A a, b \in 1..n : f[a] = f[b] => a = b}
Rev(sq) == [j \in 1..Len(sq) |-> sq[Len(sq) + 1 - j]]

\* ======================= family CO: capture order =========================================================================
\* O(p) declares k variables; the middle function M mentions them in one order (or not at all, or only two of them), the
\* function I made by M mentions them in the order io; B writes the one I mentions first; dp = 1: I reaches them through one
\* more function level.  The value of I tells which name is wired to which variable (weights 1000, 100, 10, 1).
CONames(ns) == IF ns = "short" THEN <<"a", "b", "c", "d">> ELSE <<"alpha", "beta", "gamma", "delta">>
COWeight == <<1000, 100, 10, 1>>
COTerm(nm, q) == Mul(Var(nm[q]), I(COWeight[q]))
RECURSIVE COSumR(_, _, _)
COSumR(nm, ord, acc) == IF ord = <<>> THEN acc ELSE COSumR(nm, Tail(ord), Plus(acc, COTerm(nm, Head(ord))))
COSum(nm, ord) == COSumR(nm, Tail(ord), COTerm(nm, Head(ord)))
COMidOrder(c) == CASE c.mid = "use" -> [j \in 1..c.k |-> j] [] c.mid = "rev" -> Rev([j \in 1..c.k |-> j])
                   [] c.mid = "part" -> <<c.io[c.k], c.io[1]>> [] c.mid = "pass" -> <<>>
COMBody(c) ==
  LET nm == CONames(c.ns)
      sum == COSum(nm, c.io)
      ibody == IF c.dp = 0 THEN <<SRet(sum)>> ELSE <<SRet(Call(FnL(c.lvl, <<>>, <<SRet(sum)>>), <<>>))>>
  IN (IF c.mid = "pass" THEN <<>> ELSE <<SLog(COSum(nm, COMidOrder(c)))>>)
     \o <<SVar1("I", FnL(c.lvl, <<>>, ibody)),
          SVar1("B", FnL(c.lvl, <<>>, <<Set(nm[c.io[1]], Plus(Var(nm[c.io[1]]), I(100)))>>)),
          SLog(Call(Var("I"), <<>>)), SExpr(Call(Var("B"), <<>>)), SLog(Call(Var("I"), <<>>)), SRet(Var("t"))>>
COProg(c) ==
  LET nm == CONames(c.ns) IN
  Prog(<<SFun("O", <<"p">>,
              <<SVar([j \in 1..c.k |-> Decl(nm[j], Plus(Var("p"), I(j)))]),
                IF c.lvl = "arrow" THEN SVar1("M", Arrow(<<"t">>, COMBody(c))) ELSE SFun("M", <<"t">>, COMBody(c)),
                SLog(Call(Var("M"), <<I(5)>>)), SRet(COSum(nm, [j \in 1..c.k |-> j]))>>),
         SLog(Call(Var("O"), <<I(0)>>)), SLog(Call(Var("O"), <<I(10)>>)), SLog(I(50))>>)
COAll == UNION {[k : {k}, io : Perms(k), mid : {"use", "rev", "part", "pass"}, lvl : {"fn", "arrow"}, ns : {"short", "long"}, dp : {0, 1}] : k \in 2..4}
\* quick: every order of four names under the plain middle function; two orders with every other dimension; the orders of
\* three and two names
COQuickSel(c) ==
  \/ (c.k = 4 /\ c.mid = "use" /\ c.lvl = "fn" /\ c.ns = "short" /\ c.dp = 0)
  \/ (c.k = 4 /\ c.io \in {<<4, 3, 2, 1>>, <<2, 4, 1, 3>>})
  \/ (c.k < 4 /\ c.mid = "use" /\ c.lvl = "fn" /\ c.ns = "long" /\ c.dp = 0)
COCases == {c \in COAll : ~Quick \/ COQuickSel(c)}

\* ======================= family WS: write sites x slot position ==========================================================
\* CO writes a captured variable with a plain assignment only.  Here: the construct that writes (wf: assignment, compound
\* assignment, ++, the loop target of for-in / for-of written without `var`) x what the written name is to the function that
\* writes it (kd: a free variable - of a closure of the owner, or of a closure of a closure (pass-through) -, a captured local
\* (cell) of the writer itself, a parameter) x WHICH of three such names is written (t: every position of the slot list,
\* whatever rule orders it - sorted, first mention, a set) x the order io in which the writer mentions the three names first
\* x function / arrow x name length.  Every name is logged before and after, inside the loop body (which reads through the
\* slot the compiler resolved for a READ), from the owner, and `typeof <written name>` at script level tells whether a global
\* of that name appeared.
WSForms == {"asg", "casg", "upd", "forin", "forof"}
WSKinds == {"free", "pass", "cell", "param"}
WSNames(ns) == IF ns = "short" THEN <<"a", "b", "c">> ELSE <<"alpha", "beta", "gamma">>
WSWrite(wf, x) ==
  CASE wf = "asg" -> <<Set(x, Plus(Var(x), I(100)))>>
    [] wf = "casg" -> <<SExpr(CAsg("+", x, I(100)))>>
    [] wf = "upd" -> <<SExpr(Upd("++", FALSE, x))>>
    [] wf = "forin" -> <<SForIn(FALSE, x, Obj(<<"k7", "k8">>, <<I(1), I(2)>>), SBlock(<<SLog(Var(x))>>))>>
    [] wf = "forof" -> <<SForOf(FALSE, x, Arr(<<I(7), I(8)>>), SBlock(<<SLog(Var(x))>>))>>
WSReads(nm, io) == [j \in 1..3 |-> SLog(Var(nm[io[j]]))]
WSBody(c) ==
  LET nm == WSNames(c.ns)
      wr == WSWrite(c.wf, nm[c.t])
      acts == WSReads(nm, c.io) \o wr
  IN CASE c.kd = "free" -> <<SVar1("W", FnL(c.lvl, <<>>, acts)), SExpr(Call(Var("W"), <<>>)), SExpr(Call(Var("W"), <<>>))>>
       [] c.kd = "pass" -> <<SVar1("M", FnL(c.lvl, <<>>, <<SVar1("W", FnL(c.lvl, <<>>, acts)), SExpr(Call(Var("W"), <<>>))>>)),
                             SExpr(Call(Var("M"), <<>>)), SExpr(Call(Var("M"), <<>>))>>
       [] c.kd = "cell" -> <<SVar1("G", FnL(c.lvl, <<>>, WSReads(nm, c.io)))>> \o wr \o <<SExpr(Call(Var("G"), <<>>))>> \o wr
                           \o <<SExpr(Call(Var("G"), <<>>))>>
       [] c.kd = "param" -> acts \o WSReads(nm, c.io)
WSProg(c) ==
  LET nm == WSNames(c.ns)
      tail == <<SLog(Var(nm[1])), SLog(Var(nm[2])), SLog(Var(nm[3])), SRet(I(9))>>
      call(n) == IF c.kd = "param" THEN Call(Var("O"), <<I(n + 1), I(n + 2), I(n + 3)>>) ELSE Call(Var("O"), <<I(n)>>)
  IN Prog(<<IF c.kd = "param" THEN SFun("O", <<nm[1], nm[2], nm[3]>>, WSBody(c) \o tail)
            ELSE SFun("O", <<"p">>, <<SVar([j \in 1..3 |-> Decl(nm[j], Plus(Var("p"), I(j)))])>> \o WSBody(c) \o tail),
            SLog(call(0)), SLog(call(10)), SLog(TypeOf(Var(nm[c.t]))), SLog(I(50))>>)
WSAll == [wf : WSForms, kd : WSKinds, t : 1..3, io : Perms(3), lvl : {"fn", "arrow"}, ns : {"short", "long"}]
WSValid(c) == c.kd = "param" => c.lvl = "fn"                                 \* no closure there: one representative
\* quick: every (construct, kind, position) under one mention order; every mention order for the loop targets written from a
\* closure, at the first position and at the first-mentioned one; arrows and long names for a loop target and for ++
WSQuickSel(c) ==
  \/ (c.io = <<1, 2, 3>> /\ c.lvl = "fn" /\ c.ns = "short")
  \/ (c.wf \in {"forin", "forof"} /\ c.kd = "free" /\ c.t = 1 /\ c.lvl = "fn" /\ c.ns = "short")
  \/ (c.wf = "forin" /\ c.kd \in {"free", "pass"} /\ c.io[1] = c.t /\ c.lvl = "fn" /\ c.ns = "short")
  \/ (c.wf \in {"forin", "upd"} /\ c.io = <<2, 3, 1>> /\ c.lvl = "arrow" /\ c.ns = "long")
WSQuickCases == {c \in WSAll : WSValid(c) /\ WSQuickSel(c)}
WSCases == IF Quick THEN WSQuickCases ELSE {c \in WSAll : WSValid(c)}
\* the quick sub-grid contains every class (checked whenever the module is loaded)
WSGridLaw ==
  /\ \A wf \in WSForms, kd \in WSKinds, t \in 1..3 : \E c \in WSQuickCases : c.wf = wf /\ c.kd = kd /\ c.t = t
  /\ \A io \in Perms(3), wf \in {"forin", "forof"} : \E c \in WSQuickCases : c.io = io /\ c.wf = wf /\ c.kd = "free"
  /\ \A io \in Perms(3), kd \in {"free", "pass"} : \E c \in WSQuickCases : c.io = io /\ c.kd = kd /\ c.io[1] = c.t
  /\ \A kd \in WSKinds \ {"param"}, t \in 1..3 : \E c \in WSQuickCases : c.kd = kd /\ c.t = t /\ c.lvl = "arrow" /\ c.ns = "long" /\ c.wf = "forin"
ASSUME WSGridLaw

\* ======================= family FF: programs that fail ==================================================================
\* fk   : what goes wrong.  Rejected before anything runs: text that is not a program (syn_*), an assignment / update / for-in
\*        target that is no reference, break / continue without a loop, an unknown label; refused by the implementation: a
\*        function too large for it; at run time: an uncaught throw, an unbound name, a member of null, a call of undefined;
\*        stopped by a limit: time, memory.  "none": the same shape, nothing fails.
\* d    : how many functions enclose the failing statement (0 = script level)
\* lvl  : how those functions are made (declaration, function expression, arrow)
\* encl : the statement around the failing statement
\* The function at level j is f<x>(p<x>) with the variables v<x>, w<x> (w<x> is used by the next level), x = a, b, c.
FFKinds == {"none", "syn_expr", "syn_paren", "syn_token", "syn_eof", "syn_close", "syn_asg", "syn_upd", "forinlhs",
            "break", "continue", "breakL", "continueL", "toolarge", "throw", "referr", "typeerr", "notfn", "timelimit", "memlimit"}
FFEncls == {"none", "if", "block", "while", "dowhile", "for", "forin", "forof", "switch", "label", "try", "catch", "finally"}
FFLvls == {"fn", "fexpr", "arrow"}
FFLoops == {"while", "dowhile", "for", "forin", "forof"}
Letter(j) == <<"a", "b", "c">>[j]
FN(kind, j) == kind \o Letter(j)
FFFail(fk) ==
  CASE fk = "none" -> <<SLog(I(1))>>
    [] fk = "syn_expr" -> <<SRaw("var q = ;")>>
    [] fk = "syn_paren" -> <<SRaw("if (q {")>>
    [] fk = "syn_token" -> <<SRaw("q = 1 @ 2;")>>
    [] fk = "syn_eof" -> <<SRaw("function z() {")>>
    [] fk = "syn_close" -> <<SRaw("}")>>
    [] fk = "syn_asg" -> <<SRaw("1 = q;")>>
    [] fk = "syn_upd" -> <<SRaw("1++;")>>
    [] fk = "forinlhs" -> <<SRaw("for (1 in {}) { }")>>
    [] fk = "break" -> <<SBreak("")>>
    [] fk = "continue" -> <<SCont("")>>
    [] fk = "breakL" -> <<SBreak("Q")>>
    [] fk = "continueL" -> <<SCont("Q")>>
    [] fk = "toolarge" -> <<SLog(Dot(Arr([j \in 1..260 |-> I(1000 + j)]), "length"))>>
    [] fk = "throw" -> <<SThrow(I(7))>>
    [] fk = "referr" -> <<SExpr(Var("nope"))>>
    [] fk = "typeerr" -> <<SExpr(Dot(ENull, "x"))>>
    [] fk = "notfn" -> <<SVar1("u", NoE), SExpr(Call(Var("u"), <<>>))>>
    [] fk = "timelimit" -> <<SWhile(EBool(TRUE), SBlock(<<>>))>>
    [] fk = "memlimit" -> <<SVar1("R", Fun("R2", <<"n">>, <<SRet(Plus(Call(Var("R2"), <<Plus(Var("n"), I(1))>>), I(1)))>>)), SExpr(Call(Var("R"), <<I(0)>>))>>
FFEncl(en, ss) ==
  CASE en = "none" -> ss
    [] en = "if" -> <<SIf(EBool(TRUE), SBlock(ss), NoS)>>
    [] en = "block" -> <<SBlock(ss)>>
    [] en = "while" -> <<SWhile(EBool(TRUE), SBlock(ss \o <<SBreak("")>>))>>
    [] en = "dowhile" -> <<SDo(SBlock(ss), EBool(FALSE))>>
    [] en = "for" -> <<SFor(SVar1("i", I(0)), Bin("<", Var("i"), I(1)), Upd("++", FALSE, "i"), SBlock(ss))>>
    [] en = "forin" -> <<SForIn(TRUE, "k", Obj(<<"x">>, <<I(1)>>), SBlock(ss))>>
    [] en = "forof" -> <<SForOf(TRUE, "e", Arr(<<I(1)>>), SBlock(ss))>>
    [] en = "switch" -> <<SSwitch(I(1), <<Case(I(1), ss), Case(NoE, <<SLog(I(2))>>)>>)>>
    [] en = "label" -> <<SLabel("L", SBlock(ss))>>
    [] en = "try" -> <<STry(SBlock(ss), "e", NoS, SBlock(<<SLog(I(3))>>))>>
    [] en = "catch" -> <<STry(SBlock(<<SThrow(I(1))>>), "e", SBlock(ss), NoS)>>
    [] en = "finally" -> <<STry(SBlock(<<SLog(I(3))>>), "e", NoS, SBlock(ss))>>
\* the code at nesting depth j: the next function and its call, or (at depth d) the statement that fails
RECURSIVE FFCode(_, _)
FFCode(c, j) ==
  IF j = c.d THEN FFEncl(c.encl, FFFail(c.fk))
  ELSE LET f == FN("f", j + 1)  p == FN("p", j + 1)  v == FN("v", j + 1)  w == FN("w", j + 1)
           body == <<SVar(<<Decl(v, Plus(Var(p), IF j = 0 THEN I(1) ELSE Var(FN("w", j)))), Decl(w, I(j + 1))>>)>>
                   \o FFCode(c, j + 1) \o <<SRet(Plus(Var(v), Var(w)))>>
           def == CASE c.lvl = "fn" -> SFun(f, <<p>>, body)
                    [] c.lvl = "fexpr" -> SVar1(f, Fun("", <<p>>, body))
                    [] c.lvl = "arrow" -> SVar1(f, Arrow(<<p>>, body))
       IN <<def, SLog(Call(Var(f), <<I(j + 1)>>))>>
FFProg(c) == Prog(FFCode(c, 0) \o <<SLog(I(50))>>)
FFAll == [fk : FFKinds, d : 0..3, lvl : FFLvls, encl : FFEncls]
FFValid(c) ==
  /\ (c.d = 0 => c.lvl = "fn")                                               \* no function: one representative
  /\ (c.fk = "break" => c.encl \notin FFLoops \cup {"switch"})               \* there it would be legal
  /\ (c.fk = "continue" => c.encl \notin FFLoops)
\* quick: every kind at every depth; the other two ways to make the functions for one kind of each group at every depth;
\* every enclosing statement for one kind of each group two functions deep, and for two statically rejected kinds at script level
FFQuickSel(c) ==
  \/ (c.lvl = "fn" /\ c.encl = "none")
  \/ (c.encl = "none" /\ c.d \in {1, 2, 3} /\ c.fk \in {"syn_token", "continue", "breakL", "toolarge", "throw", "timelimit"})
  \/ (c.lvl = "fn" /\ c.d = 2 /\ c.fk \in {"syn_asg", "continue", "breakL", "referr", "memlimit"})
  \/ (c.d = 0 /\ c.fk \in {"breakL", "forinlhs"})
FFCases == {c \in FFAll : FFValid(c) /\ (~Quick \/ FFQuickSel(c))}
\* what the language says about the outcome ("" where the implementation is free: its own size limits)
FFExp(c) == CASE c.fk = "none" -> "value"
              [] c.fk \in {"throw", "referr", "typeerr", "notfn"} -> "jserror"
              [] c.fk = "timelimit" -> "timelimit" [] c.fk = "memlimit" -> "memlimit"
              [] c.fk = "toolarge" -> ""
              [] OTHER -> "syntax"
FFRef(c) == c.fk \in {"none", "throw", "referr", "typeerr", "notfn"}           \* MiniJS runs it
FFMem(c) == IF c.fk = "memlimit" THEN 20000 ELSE 0                             \* memory limit of the context (0: none)

\* ======================= family FV: bystanders ===========================================================================
\* Programs that use the twelve names of FF's functions, parameters and variables: as globals at script level, from a
\* function, from a closure, from arrows; as locals and captured locals of their own (with globals of the same names next
\* to them); as names nobody declares; as their own function declarations; and loop exits / labels that FF's enclosing
\* statements would have made legal.
FVKinds == {"script", "fn", "closure", "arrow", "shadow", "undecl", "fdecl", "vbreak", "vcontinue", "vbreakL"}
FVOrder == <<"script", "fn", "closure", "arrow", "shadow", "undecl", "fdecl", "vbreak", "vcontinue", "vbreakL">>
FVGlobals == SVar([q \in 1..12 |-> LET j == ((q - 1) \div 4) + 1  kd == <<"f", "p", "v", "w">>[((q - 1) % 4) + 1] IN Decl(FN(kd, j), I(q))])
\* what a user does to the names of level j: writes p, ++ w, reads v and f
FVTouch(j) == <<Set(FN("p", j), Plus(Var(FN("p", j)), Var("n"))), SExpr(Upd("++", FALSE, FN("w", j)))>>
FVRead(j) == Plus(Plus(Var(FN("p", j)), Var(FN("w", j))), Plus(Var(FN("v", j)), Var(FN("f", j))))
FVUserBody == FVTouch(1) \o FVTouch(2) \o FVTouch(3) \o <<SRet(Plus(Plus(FVRead(1), FVRead(2)), FVRead(3)))>>
FVShow == <<SLog(FVRead(1)), SLog(FVRead(2)), SLog(FVRead(3)), SLog(TypeOf(Var("fa"))), SLog(I(50))>>
FVProg(kd) ==
  CASE kd = "script" -> Prog(<<FVGlobals, SVar1("n", I(2))>> \o FVTouch(1) \o FVTouch(2) \o FVTouch(3) \o FVShow)
    [] kd = "fn" -> Prog(<<FVGlobals, SFun("T", <<"n">>, FVUserBody), SLog(Call(Var("T"), <<I(1)>>)), SLog(Call(Var("T"), <<I(2)>>))>> \o FVShow)
    [] kd = "closure" -> Prog(<<FVGlobals, SFun("mk", <<>>, <<SRet(Fun("", <<"n">>, <<SRet(Call(Fun("", <<>>, FVUserBody), <<>>))>>))>>),
                               SVar1("T", Call(Var("mk"), <<>>)), SLog(Call(Var("T"), <<I(1)>>)), SLog(Call(Var("T"), <<I(2)>>))>> \o FVShow)
    [] kd = "arrow" -> Prog(<<FVGlobals, SVar1("T", Arrow(<<"n">>, <<SRet(Call(Arrow(<<>>, FVUserBody), <<>>))>>)),
                             SLog(Call(Var("T"), <<I(1)>>)), SLog(Call(Var("T"), <<I(2)>>))>> \o FVShow)
    [] kd = "shadow" -> Prog(<<FVGlobals,
                              SFun("O", <<"pa", "pb">>, <<SVar(<<Decl("va", Plus(Var("pa"), I(10))), Decl("wa", I(20)), Decl("vb", I(30))>>),
                                                          SVar1("g", Fun("", <<"n">>, <<SExpr(Upd("++", FALSE, "va")), Set("pb", Plus(Var("pb"), Var("n"))),
                                                                                       SRet(Plus(Plus(Var("pa"), Var("va")), Plus(Var("pb"), Var("wb"))))>>)),
                                                          SLog(Call(Var("g"), <<I(1)>>)), SLog(Call(Var("g"), <<I(2)>>)),
                                                          SRet(Plus(Plus(Var("va"), Var("wa")), Plus(Var("vb"), Var("pc"))))>>),
                              SLog(Call(Var("O"), <<I(100), I(200)>>)), SLog(Call(Var("O"), <<I(300), I(400)>>))>> \o FVShow)
    [] kd = "undecl" -> Prog(<<SLog(TypeOf(Var("pa"))), SLog(TypeOf(Var("wb"))), SLog(TypeOf(Var("fc"))),
                              SFun("T", <<>>, <<SRet(Fun("", <<>>, <<SRet(TypeOf(Var("va")))>>))>>), SLog(Call(Call(Var("T"), <<>>), <<>>)),
                              STry(SBlock(<<SExpr(Var("vb"))>>), "e", SBlock(<<SLog(Dot(Var("e"), "name"))>>), NoS),
                              SLog(I(50)), SExpr(Var("wc"))>>)
    [] kd = "fdecl" -> Prog(<<SFun("fa", <<"x">>, <<SRet(Plus(Var("x"), I(1)))>>), SFun("fb", <<"pa">>, <<SRet(Mul(Call(Var("fa"), <<Var("pa")>>), I(2)))>>),
                             SFun("fc", <<"va">>, <<SVar1("wa", Call(Var("fb"), <<Var("va")>>)), SRet(Fun("", <<>>, <<SRet(Plus(Var("wa"), Var("va")))>>))>>),
                             SLog(Call(Var("fb"), <<I(1)>>)), SLog(Call(Call(Var("fc"), <<I(3)>>), <<>>)), SLog(I(50))>>)
    [] kd = "vbreak" -> Prog(<<SLog(I(1)), SBreak("")>>)
    [] kd = "vcontinue" -> Prog(<<SLog(I(1)), SCont("")>>)
    [] kd = "vbreakL" -> Prog(<<SLog(I(1)), SBreak("L")>>)
FVIsExit(kd) == kd \in {"vbreak", "vcontinue", "vbreakL"}
FVExp(kd) == IF FVIsExit(kd) THEN "syntax" ELSE IF kd = "undecl" THEN "jserror" ELSE "value"

\* ======================= family TX: built-ins that compile or parse text at run time ======================================
\* how the matcher is made x which method consumes it x flags x (pattern, subject) x where the call stands; and the other
\* text-consuming built-ins.  No reference semantics here (C10 / C11 own regular expressions): only "always the same".
TXPats == <<[p |-> "a+b", s |-> "xaabaab"], [p |-> "(o+)(x|y)", s |-> "fooxfooy"], [p |-> "id=", s |-> "zid=12;id=7"],
            [p |-> "[0-9]+", s |-> "ab12cd345"], [p |-> "q.t", s |-> "qat qt q.t"]>>
TXCtors == {"lit", "new", "call", "copy", "str"}
TXApis == {"test", "exec", "match", "search", "replace", "split", "replaceAll"}
TXQ(t) == "\"" \o t \o "\""
TXRx(ct, p, f) ==
  CASE ct = "lit" -> "/" \o p \o "/" \o f
    [] ct = "new" -> "new RegExp(" \o TXQ(p) \o ", " \o TXQ(f) \o ")"
    [] ct = "call" -> "RegExp(" \o TXQ(p) \o ", " \o TXQ(f) \o ")"
    [] ct = "copy" -> "new RegExp(/" \o p \o "/" \o f \o ")"
    [] ct = "str" -> TXQ(p)
TXCall(api) ==
  CASE api = "test" -> "R.test(S)" [] api = "exec" -> "R.exec(S)" [] api = "match" -> "S.match(R)" [] api = "search" -> "S.search(R)"
    [] api = "replace" -> "S.replace(R, \"#\")" [] api = "split" -> "S.split(R)" [] api = "replaceAll" -> "S.replaceAll(R, \"#\")"
TXSrc(c) ==
  LET pt == TXPats[c.pat]
      mk == "var R = " \o TXRx(c.ct, pt.p, c.fl) \o "; "
      call == "String(" \o TXCall(c.api) \o ")"
  IN CASE c.pl = "top" -> "var S = " \o TXQ(pt.s) \o "; " \o mk \o "var r1 = " \o call \o "; var r2 = " \o call \o "; r1 + \"|\" + r2;"
       [] c.pl = "fn" -> "function F(S) { " \o mk \o "return " \o call \o " + \"|\" + " \o call \o "; } F(" \o TXQ(pt.s) \o ") + \"/\" + F(" \o TXQ(pt.s) \o ");"
       [] c.pl = "loop" -> "var S = " \o TXQ(pt.s) \o "; var acc = \"\"; for (var i = 0; i < 3; i++) { " \o mk \o "acc = acc + " \o call \o " + \"|\"; } acc;"
TXOther == <<
    "var r = (1, eval)(\"var q = 2; q * 21\"); String(r);",
    "var f = new Function(\"a\", \"b\", \"return a * b + 1\"); String(f(2, 3)) + \"|\" + String(f(4, 5));",
    "var o = JSON.parse('{\"a\":[1,2,{\"b\":null}]}'); JSON.stringify(o);",
    "String(parseInt(\"42px\")) + \"|\" + String(parseFloat(\"3.5e1x\")) + \"|\" + String(Number(\"0x1f\"));",
    "var R = new RegExp(\"a+b\", \"gi\"); R.source + \"/\" + R.flags + \"/\" + String(R.lastIndex);",
    "var t = \"a-b-c\".split(\"-\").join(\"+\") + /b+/.exec(\"abbbc\")[0]; t + \"abc\".indexOf(\"c\");",
    "var g = function (s) { return s.match(\"b+\") + \":\" + s.search(\"c\") + \":\" + s.replace(\"b\", \"B\"); }; g(\"abbc\") + \" \" + g(\"cabbb\");"
  >>
TXrAll == [k : {"rx"}, ct : TXCtors, api : TXApis, fl : {"", "g", "i"}, pat : 1..Len(TXPats), pl : {"top", "fn", "loop"}]
TXrValid(c) ==
  /\ (c.ct = "str" => c.fl = "" /\ c.api \notin {"test", "exec"})              \* a string is no receiver, and has no flags
  /\ (c.api = "replaceAll" => c.fl = "g" \/ c.ct = "str")                       \* TypeError otherwise: another property's subject
\* quick: every (constructor, method) pair; every flag and pattern for three pairs; every place for three pairs
TXrQuickSel(c) ==
  \/ (c.pat = 1 /\ c.pl = "top" /\ (c.fl = "" \/ c.api = "replaceAll"))
  \/ (c.pl = "top" /\ <<c.ct, c.api>> \in {<<"lit", "match">>, <<"str", "match">>, <<"str", "search">>, <<"new", "exec">>})
  \/ (c.pat = 2 /\ c.fl \in {"", "g"} /\ <<c.ct, c.api>> \in {<<"lit", "test">>, <<"str", "search">>, <<"call", "replace">>, <<"copy", "split">>})
\* slot-heavy functions (kind "sl"): n variables of one function are locals / cells captured by an inner function / free
\* variables of a function two levels down, one of them (first, middle, last declared) is used.  Which slot the used
\* variable gets decides whether an operand fits one byte, i.e. whether the program runs or is refused: the outcome must not
\* depend on the order in which the host iterates a set of names (n around the 8-bit boundary and well beyond it).
SLDigit == <<"0", "1", "2", "3", "4", "5", "6", "7", "8", "9">>
RECURSIVE SLNum(_)
SLNum(n) == IF n < 10 THEN SLDigit[n + 1] ELSE SLNum(n \div 10) \o SLDigit[(n % 10) + 1]
RECURSIVE SLRange(_, _)             \* balanced: the recursion is log n deep (a linear one overflowed TLC's stack at n = 254)
SLRange(lo, hi) == IF lo > hi THEN "" ELSE IF lo = hi THEN "var v" \o SLNum(lo) \o "; "
                   ELSE LET mid == (lo + hi) \div 2 IN SLRange(lo, mid) \o SLRange(mid + 1, hi)
SLDecls(n) == SLRange(0, n - 1)
SLUsed(c) == "v" \o SLNum(CASE c.u = 0 -> 0 [] c.u = 1 -> c.n \div 2 [] OTHER -> c.n - 1)
SLSrc(c) ==
  LET d == SLDecls(c.n)  v == SLUsed(c)
  IN CASE c.sh = "locals" -> "function F() { " \o d \o v \o " = 7; return " \o v \o " + 1; } String(F());"
       [] c.sh = "cells" -> "function F() { " \o d \o v \o " = 7; var g = function () { return " \o v \o " + 1; }; return g(); } String(F());"
       [] c.sh = "frees" -> "function F() { " \o d \o v \o " = 7; return function () { return function () { return " \o v \o " + 1; }; }; } String(F()()());"
       [] OTHER -> "function F() { " \o d \o "var g = function () { " \o v \o " = 3; v0 = 4; return " \o v \o " + v0; }; return g() + " \o v \o "; } String(F());"
SLCases == [k : {"sl"}, sh : {"locals", "cells", "frees", "manycells"}, n : (IF Quick THEN {254, 256, 300} ELSE {200, 254, 255, 256, 257, 300, 600}), u : {0, 1, 2}]
TXrCases == {c \in TXrAll : TXrValid(c) /\ (~Quick \/ TXrQuickSel(c))} \cup {[k |-> "x", j |-> j] : j \in 1..Len(TXOther)} \cup SLCases
TXText(c) == IF c.k = "rx" THEN TXSrc(c) ELSE IF c.k = "sl" THEN SLSrc(c) ELSE TXOther[c.j]

\* ======================= family PK: computed property keys (round 3) ====================================================
\* A value used as a computed key names a property through ToPropertyKey (ECMA-262 7.1.19): the name is a function of the JS
\* value alone.  The host may identify values that JS keeps apart (Python: True == 1, False == 0, 1.0 == 1, -0.0 == 0) and
\* keep apart values that name one property (1, 1.0, "1").  key: the kind of value x op: the construct that converts it (read,
\* write, compound write, `in`, hasOwnProperty, delete) x cont: what is indexed (plain object, array with extra named
\* properties) x src: the key is written in the brackets or arrives as a parameter.  The container holds a value under every
\* name any of the keys can stand for (set through string keys), so a key converted to ANOTHER key's name shows.  The expected
\* value is computed here (PKExpect) and judged by EqVerdict (clause val): the programs are outside the MiniJS fragment.
\* The histories HK evaluate the programs of one key and then those of another in one pristine process, every ordered pair.
PKKeys == <<"i0", "i1", "bt", "bf", "f1", "fc", "nz", "s0", "s1", "st", "sf", "nul", "und", "h15">>
PKKeySet == {PKKeys[j] : j \in 1..Len(PKKeys)}
PKLit(k) == CASE k = "i0" -> "0" [] k = "i1" -> "1" [] k = "bt" -> "true" [] k = "bf" -> "false" [] k = "f1" -> "1.0"
              [] k = "fc" -> "(0.5 + 0.5)" [] k = "nz" -> "(-0)" [] k = "s0" -> "\"0\"" [] k = "s1" -> "\"1\"" [] k = "st" -> "\"true\""
              [] k = "sf" -> "\"false\"" [] k = "nul" -> "null" [] k = "und" -> "undefined" [] k = "h15" -> "1.5"
\* the property name the key stands for
PKName(k) == CASE k \in {"i0", "nz", "s0"} -> "0" [] k \in {"i1", "f1", "fc", "s1"} -> "1" [] k \in {"bt", "st"} -> "true"
               [] k \in {"bf", "sf"} -> "false" [] k = "nul" -> "null" [] k = "und" -> "undefined" [] k = "h15" -> "1.5"
PKProbe == <<"0", "1", "true", "false", "null", "undefined", "1.5">>
PKProbeSet == {PKProbe[j] : j \in 1..Len(PKProbe)}
PKInitVal(n) == CASE n = "0" -> "z" [] n = "1" -> "u" [] n = "true" -> "T" [] n = "false" -> "F" [] n = "null" -> "N"
                  [] n = "undefined" -> "U" [] n = "1.5" -> "h"
PKOpSeq == <<"set", "get", "casg", "in", "has", "del">>
PKOps == {PKOpSeq[j] : j \in 1..Len(PKOpSeq)}
PKConts == {"obj", "arr"}
PKSrcs == {"lit", "param"}
\* the names the container has: all of them, except for the two membership tests (there some are absent, and each group of
\* keys the host might identify - 1 / true, 0 / false - has a present and an absent name)
\* Arrays (/repo/spec.md, "Stricter Mode": no holes; vm.py _set_property refuses a non-integer number as the name of an array
\* property): the array container has no property "1.5", the key 1.5 is not generated for it, nor the deletion of an element.
PKPresent(c) == IF c.op \in {"in", "has"} THEN (IF c.cont = "obj" THEN {"1", "false", "null", "1.5"} ELSE {"0", "1", "null"})
                ELSE IF c.cont = "arr" THEN PKProbeSet \ {"1.5"} ELSE PKProbeSet
PKValid(c) == /\ (c.cont = "arr" => c.key # "h15")
              /\ (c.cont = "arr" /\ c.op = "del" => PKName(c.key) \notin {"0", "1"})
RECURSIVE PKSetupR(_, _)
PKSetupR(c, j) == IF j > Len(PKProbe) THEN ""
                  ELSE (IF PKProbe[j] \in PKPresent(c) /\ ~(c.cont = "arr" /\ PKProbe[j] \in {"0", "1"})
                        THEN "o[" \o TXQ(PKProbe[j]) \o "] = " \o TXQ(PKInitVal(PKProbe[j])) \o "; " ELSE "") \o PKSetupR(c, j + 1)
PKSetup(c) == (IF c.cont = "obj" THEN "var o = {}; " ELSE "var o = [\"z\", \"u\"]; ") \o PKSetupR(c, 1)
RECURSIVE PKProbeTextR(_)
PKProbeTextR(j) == "String(o[" \o TXQ(PKProbe[j]) \o "])" \o (IF j = Len(PKProbe) THEN "" ELSE " + \",\" + " \o PKProbeTextR(j + 1))
PKBody(c) ==
  LET K == IF c.src = "param" THEN "k" ELSE PKLit(c.key) IN
  CASE c.op = "get" -> "return String(o[" \o K \o "]);"
    [] c.op = "set" -> "o[" \o K \o "] = \"W\"; return " \o PKProbeTextR(1) \o ";"
    [] c.op = "casg" -> "o[" \o K \o "] += \"W\"; return " \o PKProbeTextR(1) \o ";"
    [] c.op = "in" -> "return String(" \o K \o " in o);"
    [] c.op = "has" -> "return String(o.hasOwnProperty(" \o K \o "));"
    [] c.op = "del" -> "delete o[" \o K \o "]; return " \o PKProbeTextR(1) \o ";"
PKSrc(c) == IF c.src = "param"
            THEN "function F(k) { " \o PKSetup(c) \o PKBody(c) \o " } F(" \o PKLit(c.key) \o ") + \"|\" + F(" \o PKLit(c.key) \o ");"
            ELSE "function F() { " \o PKSetup(c) \o PKBody(c) \o " } F() + \"|\" + F();"
\* what the program yields: the container as a function name -> String(value) ("undefined" for a name it does not have)
RECURSIVE PKJoinR(_, _)
PKJoinR(m, j) == m[PKProbe[j]] \o (IF j = Len(PKProbe) THEN "" ELSE "," \o PKJoinR(m, j + 1))
PKExpect(c) ==
  LET nm == PKName(c.key)
      m0 == [n \in PKProbeSet |-> IF n \in PKPresent(c) THEN PKInitVal(n) ELSE "undefined"]
      one == CASE c.op = "get" -> m0[nm]
               [] c.op = "set" -> PKJoinR([m0 EXCEPT ![nm] = "W"], 1)
               [] c.op = "casg" -> PKJoinR([m0 EXCEPT ![nm] = @ \o "W"], 1)
               [] c.op \in {"in", "has"} -> (IF nm \in PKPresent(c) THEN "true" ELSE "false")
               [] c.op = "del" -> PKJoinR([m0 EXCEPT ![nm] = "undefined"], 1)
  IN one \o "|" \o one
PKAll == [key : PKKeySet, op : PKOps, cont : PKConts, src : PKSrcs]
\* quick: every key x construct on an object with the key as a parameter, and on an array with the key in the brackets
\* (and what is not generated for the array, in the brackets of an object access)
PKQuickSel(c) == (c.cont = "obj" /\ c.src = "param") \/ (c.cont = "arr" /\ c.src = "lit") \/ (c.cont = "obj" /\ c.src = "lit" /\ ~PKValid([c EXCEPT !.cont = "arr"]))
PKQuickCases == {c \in PKAll : PKValid(c) /\ PKQuickSel(c)}
PKCases == IF Quick THEN PKQuickCases ELSE {c \in PKAll : PKValid(c)}
\* HK: the programs of key k1, then those of key k2 (same container and key source), pristine process, two rounds
HKAll == [k1 : PKKeySet, k2 : PKKeySet, cont : PKConts, src : PKSrcs, clk : {"b2b", "gap"}]
HKValid(h) == h.k1 # h.k2 /\ (h.cont = "arr" => "h15" \notin {h.k1, h.k2})
HKQuickSel(h) == (h.cont = "obj" /\ h.src = "param" /\ h.clk = "b2b") \/ (h.cont = "arr" /\ h.src = "lit" /\ h.clk = "gap")
HKQuickCases == {h \in HKAll : HKValid(h) /\ HKQuickSel(h)}
HKCases == IF Quick THEN HKQuickCases ELSE {h \in HKAll : HKValid(h)}
HKItems(h) == SelectSeq([j \in 1..(2 * Len(PKOpSeq)) |->
                 [fam |-> "PK", c |-> [key |-> IF j <= Len(PKOpSeq) THEN h.k1 ELSE h.k2, op |-> PKOpSeq[((j - 1) % Len(PKOpSeq)) + 1],
                                       cont |-> h.cont, src |-> h.src]]], LAMBDA it : PKValid(it.c))
\* the quick sub-grid contains every class: every key under every construct for both containers and both key sources, every
\* ordered pair of keys as a history under both containers / key sources / clocks, and every history refers to enumerated programs
PKGridLaw ==
  /\ \A c \in PKAll : PKValid(c) => /\ \E q \in PKQuickCases : q.key = c.key /\ q.op = c.op /\ q.cont = c.cont
                                    /\ \E q \in PKQuickCases : q.key = c.key /\ q.op = c.op /\ q.src = c.src
  /\ \A h \in HKAll : HKValid(h) => \E q \in HKQuickCases : q.k1 = h.k1 /\ q.k2 = h.k2 /\ q.cont = h.cont
  /\ \A k1, k2 \in PKKeySet \ {"h15"} : k1 # k2 => \A ck \in {"b2b", "gap"} : \E q \in HKQuickCases : q.k1 = k1 /\ q.k2 = k2 /\ q.clk = ck
  /\ \A h \in HKQuickCases : \A j \in 1..Len(HKItems(h)) : HKItems(h)[j].c \in PKQuickCases
  /\ \A k \in PKKeySet : PKName(k) \in PKProbeSet
ASSUME PKGridLaw

\* ======================= family EN: enumeration order of own properties (round 4) =======================================
\* The hash seed reaches a program not only through the compiler's sets: every run-time container whose iteration a script
\* can observe is a candidate.  Here: the own properties of an object, made of a SEQUENCE of property kinds (sh: data
\* property, getter, setter, getter + setter - every sequence of length 2..4, so objects with no, one, two, ... accessors, next
\* to each other or separated by data properties) x how the object is built (bd: object literal, or step by step with
\* assignment / Object.defineProperty) x the construct that enumerates it (use: for-in, Object.keys / values / entries /
\* assign, JSON.stringify, for-in over an object that inherits from it) x where (script level, a function called twice)
\* x name length.  No expected value: what an enumeration lists is the object model's subject; judged here is that it is the
\* same under every hash seed, in every order and on every clock (clause eq) and that it is a value (clause cls).
ENKinds == {"d", "g", "s", "gs"}
ENUses == {"forin", "keys", "values", "entries", "assign", "json", "inherit"}
ENBuilds == {"lit", "def"}
ENNames(ns) == IF ns = "short" THEN <<"a", "b", "c", "d">> ELSE <<"tag", "norm", "writes", "log">>
ENShapes == UNION {[1..n -> ENKinds] : n \in 2..4}
ENAcc(sh) == Cardinality({j \in 1..Len(sh) : sh[j] # "d"})
ENGet(j) == "function () { return " \o SLNum(j * 10) \o "; }"
ENSetF == "function (v) { w = w + 1; }"
ENLitProp(kd, nm, j) ==
  CASE kd = "d" -> nm \o ": " \o SLNum(j)
    [] kd = "g" -> "get " \o nm \o "() { return " \o SLNum(j * 10) \o "; }"
    [] kd = "s" -> "set " \o nm \o "(v) { w = w + 1; }"
    [] kd = "gs" -> "get " \o nm \o "() { return " \o SLNum(j * 10) \o "; }, set " \o nm \o "(v) { w = w + 1; }"
ENDefProp(kd, nm, j) ==
  CASE kd = "d" -> "o." \o nm \o " = " \o SLNum(j) \o "; "
    [] kd = "g" -> "Object.defineProperty(o, " \o TXQ(nm) \o ", {get: " \o ENGet(j) \o ", enumerable: true, configurable: true}); "
    [] kd = "s" -> "Object.defineProperty(o, " \o TXQ(nm) \o ", {set: " \o ENSetF \o ", enumerable: true, configurable: true}); "
    [] kd = "gs" -> "Object.defineProperty(o, " \o TXQ(nm) \o ", {get: " \o ENGet(j) \o ", set: " \o ENSetF \o ", enumerable: true, configurable: true}); "
RECURSIVE ENLitR(_, _, _), ENDefR(_, _, _)
ENLitR(sh, nm, j) == ENLitProp(sh[j], nm[j], j) \o (IF j = Len(sh) THEN "" ELSE ", " \o ENLitR(sh, nm, j + 1))
ENDefR(sh, nm, j) == ENDefProp(sh[j], nm[j], j) \o (IF j = Len(sh) THEN "" ELSE ENDefR(sh, nm, j + 1))
ENBuild(c) == "var w = 0; " \o (IF c.bd = "lit" THEN "var o = {" \o ENLitR(c.sh, ENNames(c.ns), 1) \o "}; " ELSE "var o = {}; " \o ENDefR(c.sh, ENNames(c.ns), 1))
ENLoop(x) == "var r = \"\"; for (var k in " \o x \o ") { r = r + k + \",\"; } "
\* statements, then the expression that shows the enumeration
ENUseStm(u) == CASE u = "forin" -> ENLoop("o") [] u = "inherit" -> "var t = Object.create(o); " \o ENLoop("t") [] OTHER -> ""
ENUseExp(u) == CASE u \in {"forin", "inherit"} -> "r" [] u = "keys" -> "Object.keys(o).join(\",\")" [] u = "values" -> "Object.values(o).join(\",\")"
                 [] u = "entries" -> "Object.entries(o).join(\";\")" [] u = "assign" -> "Object.keys(Object.assign({}, o)).join(\",\")"
                 [] u = "json" -> "JSON.stringify(o)"
ENSrc(c) == IF c.pl = "top" THEN ENBuild(c) \o ENUseStm(c.use) \o "String(" \o ENUseExp(c.use) \o ");"
            ELSE "function F() { " \o ENBuild(c) \o ENUseStm(c.use) \o "return String(" \o ENUseExp(c.use) \o "); } F() + \"|\" + F();"
ENAll == [sh : ENShapes, bd : ENBuilds, use : ENUses, pl : {"top", "fn"}, ns : {"short", "long"}]
ENValid(c) == (c.pl = "top") = (c.ns = "short")                      \* the two cosmetic dimensions move together
ENRepShapes == {<<"d", "g", "s", "gs">>, <<"g", "g", "g", "g">>, <<"gs", "d", "s", "g">>, <<"s", "gs", "d", "d">>}
\* quick: every sequence of up to three kinds under the literal / for-in; every construct x way of building for four sequences
\* of four with two or more accessors (both name sets / places for for-in and Object.keys)
ENQuickSel(c) ==
  \/ (Len(c.sh) <= 3 /\ c.bd = "lit" /\ c.use = "forin" /\ c.pl = "top")
  \/ (c.sh \in ENRepShapes /\ c.pl = "top")
  \/ (c.sh \in ENRepShapes /\ c.use \in {"forin", "keys"} /\ c.bd = "lit")
ENQuickCases == {c \in ENAll : ENValid(c) /\ ENQuickSel(c)}
ENCases == IF Quick THEN ENQuickCases ELSE {c \in ENAll : ENValid(c)}
ENGridLaw ==
  /\ \A u \in ENUses, b \in ENBuilds : \E c \in ENQuickCases : c.use = u /\ c.bd = b /\ ENAcc(c.sh) >= 2
  /\ \A sh \in ENShapes : Len(sh) <= 3 => \E c \in ENQuickCases : c.sh = sh
  /\ \A k1, k2 \in ENKinds : \E c \in ENQuickCases : \E j \in 1..(Len(c.sh) - 1) : c.sh[j] = k1 /\ c.sh[j + 1] = k2
  /\ \A n \in 0..4 : \E c \in ENQuickCases : ENAcc(c.sh) = n
  /\ \A p \in {"top", "fn"} : \E c \in ENQuickCases : c.pl = p /\ ENAcc(c.sh) >= 2
ASSUME ENGridLaw

\* ======================= family EV: text compiled at run time x names the compiler invents (round 4) ===================
\* TX has one indirect eval and one `new Function`, each with text that declares a variable.  Here: the site that compiles text
\* at run time (site: eval called directly, indirectly, inside a function, as a callback of a built-in; Function with and
\* without `new`) x what the compiled text contains (cons: a catch clause with the parameter name the surrounding program
\* uses, with another name, two nested catch clauses, no catch clause) x what of the surrounding program is alive meanwhile
\* (host: K catch clauses at script level whose parameters are read through closures afterwards; one clause in a function
\* with K activations) x K x how often the site runs (m) x whether it runs after the clauses or inside the last handler.
\* The result lists every parameter as its closure reads it at the end and what the compiled text saw; the expected
\* string is computed here (EVExpect, clause val).  The histories HE evaluate a program alone in a pristine process (twice),
\* and ordered pairs of programs: the first evaluation of a process, a later one, and one after another program's.
EVSites == {"eval", "ieval", "evalfn", "evalcb", "newfn", "fncall"}
EVConss == {"catch", "catchx", "catch2", "plain"}
EVHosts == {"pcatch", "fcatch"}
RECURSIVE EVRep(_, _)
EVRep(t, n) == IF n = 0 THEN "" ELSE t \o EVRep(t, n - 1)
EVText(cons) == CASE cons = "catch" -> "try { throw 'in'; } catch (e) { seen = seen + e + ';'; }"
                  [] cons = "catchx" -> "try { throw 'in'; } catch (x) { seen = seen + x + ';'; }"
                  [] cons = "catch2" -> "try { throw 'in'; } catch (e) { try { throw e + '2'; } catch (e) { seen = seen + e + ';'; } }"
                  [] cons = "plain" -> "seen = seen + 'in;';"
EVSaw(cons) == IF cons = "catch2" THEN "in2;" ELSE "in;"
EVCall(site) == CASE site = "eval" -> "eval(T); " [] site = "ieval" -> "(1, eval)(T); " [] site = "evalfn" -> "G(); "
                  [] site = "evalcb" -> "[T].forEach(eval); " [] site = "newfn" -> "new Function(T)(); " [] site = "fncall" -> "Function(T)(); "
EVCalls(c) == EVRep(EVCall(c.site), c.m)
EVPush == "rd.push(function () { return e; }); "
RECURSIVE EVClauses(_, _)
EVClauses(c, j) == IF j > c.K THEN ""
                   ELSE "try { throw \"o" \o SLNum(j) \o "\"; } catch (e) { " \o EVPush \o (IF j = c.K /\ c.when = "inside" THEN EVCalls(c) ELSE "") \o "} "
                        \o EVClauses(c, j + 1)
RECURSIVE EVActs(_, _)
EVActs(c, j) == IF j > c.K THEN "" ELSE "H(\"o" \o SLNum(j) \o "\"); " \o EVActs(c, j + 1)
EVHostText(c) == IF c.host = "pcatch" THEN EVClauses(c, 1)
                 ELSE "function H(t) { try { throw t; } catch (e) { " \o EVPush \o (IF c.when = "inside" THEN EVCalls(c) ELSE "") \o "} } " \o EVActs(c, 1)
EVSrc(c) == "var rd = []; var seen = \"\"; var T = " \o TXQ(EVText(c.cons)) \o "; " \o (IF c.site = "evalfn" THEN "function G() { eval(T); } " ELSE "")
            \o EVHostText(c) \o (IF c.when = "after" THEN EVCalls(c) ELSE "")
            \o "var r = \"\"; for (var i = 0; i < rd.length; i++) { r = r + rd[i]() + \",\"; } r + \"|\" + seen;"
RECURSIVE EVOuter(_, _)
EVOuter(j, K) == IF j > K THEN "" ELSE "o" \o SLNum(j) \o "," \o EVOuter(j + 1, K)
EVExpect(c) == EVOuter(1, c.K) \o "|" \o EVRep(EVSaw(c.cons), c.m * (IF c.host = "fcatch" /\ c.when = "inside" THEN c.K ELSE 1))
EVAll == [site : EVSites, cons : EVConss, host : EVHosts, K : 1..3, m : 1..3, when : {"after", "inside"}]
\* quick: every site x text x surrounding program with one clause and one run; every K x m for two sites; the handler position
\* for every site and surrounding program; nested clauses under three live parameters for every site
EVQuickSel(c) ==
  \/ (c.K = 1 /\ c.m = 1 /\ c.when = "after")
  \/ (c.site \in {"eval", "newfn"} /\ c.cons = "catch" /\ c.host = "pcatch" /\ c.when = "after")
  \/ (c.cons = "catch" /\ c.K = 2 /\ c.m = 2 /\ c.when = "inside")
  \/ (c.cons = "catch2" /\ c.host = "pcatch" /\ c.K = 3 /\ c.m = 2 /\ c.when = "after")
EVQuickCases == {c \in EVAll : EVQuickSel(c)}
EVCases == IF Quick THEN EVQuickCases ELSE EVAll
\* HE: one program alone (the list twice: the first evaluation of the process and a later one), or two programs one after the other
EVPairSel(c) == c.K = 1 /\ c.m = 1 /\ c.when = "after" /\ c.host = "pcatch" /\ c.cons \in {"catch", "plain"}
HEOnes == {[n |-> 1, p1 |-> c, p2 |-> c, clk |-> IF c.m = 2 THEN "gap" ELSE "b2b"] : c \in EVCases}
HETwos == {[n |-> 2, p1 |-> c1, p2 |-> c2, clk |-> IF c1.cons = c2.cons THEN "b2b" ELSE "gap"] :
             <<c1, c2>> \in {pr \in EVCases \X EVCases : EVPairSel(pr[1]) /\ EVPairSel(pr[2]) /\ pr[1] # pr[2]
                                                         /\ (Quick => pr[1].cons = "catch" \/ pr[2].cons = "catch")}}
HECases == HEOnes \cup HETwos
HEItems(h) == IF h.n = 1 THEN <<[fam |-> "EV", c |-> h.p1]>> ELSE <<[fam |-> "EV", c |-> h.p1], [fam |-> "EV", c |-> h.p2]>>
EVGridLaw ==
  /\ \A s \in EVSites, x \in EVConss, h \in EVHosts : \E c \in EVQuickCases : c.site = s /\ c.cons = x /\ c.host = h
  /\ \A K \in 1..3, m \in 1..3 : \E c \in EVQuickCases : c.K = K /\ c.m = m /\ c.cons = "catch" /\ c.host = "pcatch"
  /\ \A s \in EVSites, h \in EVHosts : \E c \in EVQuickCases : c.site = s /\ c.host = h /\ c.when = "inside"
  /\ \A c \in EVQuickCases : \E h \in {x \in HEOnes : x.p1 \in EVQuickCases} : h.p1 = c
  /\ \A s1, s2 \in EVSites : s1 # s2 => \E c1, c2 \in EVQuickCases : c1.site = s1 /\ c2.site = s2 /\ EVPairSel(c1) /\ EVPairSel(c2) /\ c1.cons = "catch" /\ c2.cons = "catch"
ASSUME EVGridLaw

\* ======================= programs and histories ============================================================================
ProgItems == {[fam |-> "CO", c |-> c] : c \in COCases} \cup {[fam |-> "WS", c |-> c] : c \in WSCases} \cup {[fam |-> "FF", c |-> c] : c \in FFCases}
             \cup {[fam |-> "FV", c |-> [kd |-> kd]] : kd \in FVKinds} \cup {[fam |-> "TX", c |-> c] : c \in TXrCases}
             \cup {[fam |-> "PK", c |-> c] : c \in PKCases} \cup {[fam |-> "EN", c |-> c] : c \in ENCases} \cup {[fam |-> "EV", c |-> c] : c \in EVCases}
ItemId(it) == it                              \* the parameter record itself (printed as JSON; the driver uses it as a key)
ItemAst(it) == it.fam \notin {"TX", "PK", "EN", "EV"}
ItemProg(it) == CASE it.fam = "CO" -> COProg(it.c) [] it.fam = "WS" -> WSProg(it.c) [] it.fam = "FF" -> FFProg(it.c) [] it.fam = "FV" -> FVProg(it.c.kd) [] OTHER -> Prog(<<>>)
ItemRef(it) == CASE it.fam \in {"CO", "WS"} -> TRUE [] it.fam = "FF" -> FFRef(it.c) [] it.fam = "FV" -> ~FVIsExit(it.c.kd) [] OTHER -> FALSE
ItemExp(it) == CASE it.fam \in {"CO", "WS"} -> "value" [] it.fam = "FF" -> FFExp(it.c) [] it.fam = "FV" -> FVExp(it.c.kd) [] it.fam \in {"PK", "EN", "EV"} -> "value" [] OTHER -> ""
\* the value the specification prescribes for the program ("": the outcome class only, or the reference machine decides)
ItemXv(it) == IF it.fam = "PK" THEN PKExpect(it.c) ELSE IF it.fam = "EV" THEN EVExpect(it.c) ELSE ""
\* A history: programs evaluated one after the other, each on a fresh context, in one process that evaluated nothing before;
\* the whole list `rounds` times; clk = "b2b": the clock only moves while a program runs, "gap": between two evaluations
\* more time passes than any context's time limit.
\*   HF : the bystanders (rotated by rot) with one failing program at position pos
\*   HT : the TX programs of one pattern (all "other" ones for pat = 0), rotated
InsertAt(sq, pos, x) == SubSeq(sq, 1, pos - 1) \o <<x>> \o SubSeq(sq, pos, Len(sq))
Rot(sq, r) == [j \in 1..Len(sq) |-> sq[((j - 1 + r) % Len(sq)) + 1]]
NV == Len(FVOrder)
HFAll == [f : FFCases, pos : 1..(NV + 1), rot : 0..(NV - 1), clk : {"b2b", "gap"}]
\* the failing program first, in the middle, last; quick: one clock each (both occur), thorough: both clocks each
HFQuickSel(h) == \/ (h.pos = 1 /\ h.rot = 0 /\ h.clk = "gap")
                 \/ (h.pos = 6 /\ h.rot = 3 /\ h.clk = "b2b")
                 \/ (h.pos = NV + 1 /\ h.rot = 7 /\ h.clk = "gap")
HFThoroughSel(h) == h.pos \in {1, 6, NV + 1} /\ h.rot = (h.pos * 3) % NV
HFCases == {h \in HFAll : IF Quick THEN HFQuickSel(h) ELSE HFThoroughSel(h)}
HFItems(h) == InsertAt(Rot([j \in 1..NV |-> ItemId([fam |-> "FV", c |-> [kd |-> FVOrder[j]]])], h.rot), h.pos, ItemId([fam |-> "FF", c |-> h.f]))
TXOfPat(pat) == IF pat = 0 THEN {c \in TXrCases : c.k = "x"} ELSE {c \in TXrCases : c.k = "rx" /\ c.pat = pat}
HTCases == [pat : 0..Len(TXPats), rot : IF Quick THEN {0} ELSE {0, 5}, clk : {"b2b", "gap"}]
SXQ == INSTANCE SequencesExt
HTItems(h) == LET sq == SXQ!SetToSeq({ItemId([fam |-> "TX", c |-> c]) : c \in TXOfPat(h.pat)}) IN Rot(sq, h.rot % Len(sq))
HistItems == {[fam |-> "HF", c |-> h] : h \in HFCases} \cup {[fam |-> "HT", c |-> h] : h \in HTCases} \cup {[fam |-> "HK", c |-> h] : h \in HKCases} \cup {[fam |-> "HE", c |-> h] : h \in HECases}
IsHist(it) == it.fam \in {"HF", "HT", "HK", "HE"}
C15Items == ProgItems \cup HistItems
ItemJson(it, steps) ==
  IF IsHist(it)
  THEN [kind |-> "hist", id |-> ItemId(it), fam |-> it.fam, items |-> IF it.fam = "HF" THEN HFItems(it.c) ELSE IF it.fam = "HK" THEN HKItems(it.c) ELSE IF it.fam = "HE" THEN HEItems(it.c) ELSE HTItems(it.c), rounds |-> 2, clk |-> it.c.clk]
  ELSE [kind |-> "prog", id |-> ItemId(it), fam |-> it.fam, par |-> it.c, ast |-> ItemAst(it), prog |-> ItemProg(it),
        src |-> IF it.fam = "TX" THEN TXText(it.c) ELSE IF it.fam = "PK" THEN PKSrc(it.c) ELSE IF it.fam = "EN" THEN ENSrc(it.c) ELSE IF it.fam = "EV" THEN EVSrc(it.c) ELSE "", ref |-> ItemRef(it), exp |-> ItemExp(it), xv |-> ItemXv(it),
        ml |-> IF it.fam = "FF" THEN FFMem(it.c) ELSE 0, steps |-> steps]
\* Enum15: every program MiniJS can run runs on the reference machine (its invariants on every state, termination inside the
\* fragment); the others and the histories are printed as they are
Enum15Init == /\ rec_i = 0 /\ cur \in C15Items
              /\ mst = InitState(IF ~IsHist(cur) /\ ItemRef(cur) THEN ItemProg(cur) ELSE Prog(<<>>), {})
Enum15Emit == ~Halted(mst) \/ PrintT(ToJson(ItemJson(cur, mst.steps)))
\* the full WS product alone (INIT Enum15WSInit): every program of the family on the reference machine, whatever the tier
Enum15WSInit == /\ rec_i = 0 /\ cur \in {[fam |-> "WS", c |-> c] : c \in {c \in WSAll : WSValid(c)}}
                /\ mst = InitState(ItemProg(cur), {})
=============================================================================
