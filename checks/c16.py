"""C16 - String methods follow ECMAScript for every argument shape (DESIGN 5/C16)."""
import json, random
from harness import tlc, engine
from harness.common import Machinery

ENUM_CFG = "INIT EnumInit\nNEXT EnumNext\nCONSTRAINT EnumEmit\nINVARIANT LawsHold\nCHECK_DEADLOCK FALSE\n"
JUDGE_CFG = "INIT JudgeInit\nNEXT JudgeNext\nCHECK_DEADLOCK FALSE\n"


def key(c):
    return json.dumps(c, sort_keys=True)


def run(rep):
    # 1. model-check the reference's own laws while TLC enumerates the case space
    res = tlc.run(rep.pid, "C16", ENUM_CFG, env={"TIER": rep.tier}, timeout=1800, tag="enum")
    rep.add_tlc("C16.Enum+Laws", res)
    seen, cases = set(), []
    for c in res.records:
        k = key(c)
        if k not in seen:
            seen.add(k)
            c["id"] = len(cases)
            cases.append(c)
    if len(cases) < 1000:
        raise Machinery("enumeration produced only %d cases" % len(cases))
    rep.spaces.append({"space": "method x receiver grid x argument grid (TLC-enumerated)", "cases": len(cases),
                       "complete": True})
    # also run every case with integer-valued numbers held as Python ints (representation mix)
    extra = []
    for c in cases:
        if any(a.get("k") == "num" for a in c["args"]):
            d = dict(c)
            d["id"] = len(cases) + len(extra)
            d["intrep"] = True
            extra.append(d)
    allc = cases + extra
    for c in allc:
        c["again"] = True       # every call is made twice, the first result modified in between (spec: C16!Verdict, clause Again)
    # thorough: seeded random longer receivers with argument values drawn from the enumerated grid (spec-level JSON;
    # the judge re-checks Supported and skips what lies outside the specified fragment)
    nrandom = 0
    if rep.tier == "thorough":
        rnd = random.Random(rep.seed)
        pool = {}
        for c in cases:
            for i, a in enumerate(c["args"]):
                pool.setdefault((c["m"], i), {})[key(a)] = a
        alphabet = [97, 98, 99, 65, 66, 88, 48, 49, 32, 9, 10, 160, 8232, 233, 223, 946, 12354, 65279, 55357, 56832, 45, 46]
        methods = sorted({c["m"] for c in cases if not c["m"].startswith("fn:")})
        for _ in range(40000):
            m = rnd.choice(methods)
            n = rnd.choice([0, 1, 2, 3, 5, 8, 13, 21, 40])
            u = [rnd.choice(alphabet) for _ in range(n)]
            npos = max([i for (mm, i) in pool if mm == m] + [-1]) + 1
            k = rnd.randint(0, npos)
            if m == "[]":
                k = 1               # the index accessor always has its key
            args = [rnd.choice(list(pool[(m, i)].values())) for i in range(k)]
            if m == "repeat":
                continue        # counts from the grid reach 2^31: only the enumerated (Supported) repeat cases are run
            allc.append({"id": len(allc), "m": m, "recv": {"k": "str", "u": u}, "args": args, "random": True,
                         "intrep": rnd.random() < 0.3})
            nrandom += 1
        rep.spaces.append({"space": "seeded random receivers (<= 40 units) x grid arguments", "cases": nrandom, "complete": False})
    # 2. replay into the engine
    results = engine.run_cases(rep.pid, allc, driver="harness.drivers:call_driver")
    byid = {c["id"]: c for c in allc}
    recs = []
    for r in results:
        c = byid[r["id"]]
        recs.append({"id": r["id"], "m": c["m"], "recv": c["recv"], "args": c["args"], "out": normal(r["out"])})
    # 3. judge in TLC
    verdicts, st, tr, wall = tlc.judge(rep.pid, "C16", recs, JUDGE_CFG)
    rep.add_judge(len(recs), st, tr)
    rep.evaluations = len(recs)
    got = {v["id"]: v for v in verdicts}
    if len(got) != len(recs):
        raise Machinery("judge returned %d verdicts for %d records" % (len(got), len(recs)))
    rmap = {r["id"]: r for r in recs}
    for i, v in sorted(got.items()):
        r = rmap[i]
        if v["v"] == "pass":
            if len(rep.samples) < 4 and i % 997 == 0:
                rep.sample({"case": show_case(byid[i]), "engine": r["out"], "verdict": "pass"})
            continue
        if v["v"] == "unsupported":
            if byid[i].get("random"):
                continue
            raise Machinery("judge called an enumerated case unsupported: %r" % byid[i])
        rep.mismatch(show_case(byid[i]), {"expected": v["exp"], "actual": r["out"], "case": byid[i]}, dev=v.get("dev", ""))
    rep.exhaustive = True          # the enumerated grids are complete; the random part is a sample on top
    rep.notes["rule"] = "distinct (method, receiver, argument vector, number representation) tuples; every one is judged"
    rep.notes["distinct_nontrivial"] = len(recs)
    rep.assumptions += ["JsString.tla transcribes ECMA-262 String.prototype for the listed methods",
                        "case mapping judged on ASCII only (documented restriction)"]


def normal(out):
    """keep only what the judge reads; map non-value outcomes to a record the spec can compare"""
    if out["o"] == "value":
        return {"o": "value", "v": out["v"], "recv_after": out["recv_after"], "v2": out.get("v2", out["v"])}
    if out["o"] == "throw":
        return {"o": "throw", "cls": out["cls"]}
    return {"o": out["o"], "cls": out.get("type", out["o"]) + "@" + out.get("where", "")}


def show_case(c):
    from harness import wire
    return "%s.%s(%s)%s" % (wire.show(c["recv"]), c["m"], ", ".join(wire.show(a) for a in c["args"]),
                            " [int repr]" if c.get("intrep") else "")
