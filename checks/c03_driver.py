"""C03 driver: internal-name vs fresh-name pairs, observable-value kinds, returned values."""
import glob, os, json, inspect
from harness import wire

RECV = {
    "number": "1.5", "string": "'str'", "boolean": "true", "null": "null", "undefined": "undefined",
    "object": "({a:1})", "array": "[1,2]", "typedarray": "new Int32Array(2)", "arraybuffer": "new ArrayBuffer(4)",
    "function": "(function fn(a){ return a })", "boundfn": "(function(){ return 1 }).bind(null)",
    "nativemethod": "[].push", "constructor": "Object", "regex": "/a/g", "error": "new Error('x')",
    "arguments": "(function(){ return arguments })(1,2)", "Math": "Math", "JSON": "JSON", "hostfn": "hostfn",
    "protoless": "Object.create(null)", "arrow": "(() => 1)", "stringmethod": "'s'.charAt",
}
FORMS = {
    "read": "R[n]", "call": "R[n]()", "write_read": "(R[n] = 5, R[n])", "delete": "delete R[n]", "in": "n in R",
    "forin": "(function(){ var ks=[]; for (var k in R) ks.push(k); return ks.indexOf(n) })()",
    "keys": "Object.keys(R).indexOf(n)", "stringify": "JSON.stringify(R)", "typeof": "typeof R[n]",
    "instanceof": "R[n] instanceof Object", "new": "new R[n]()", "as_prototype": "Object.create(R)[n]",
    "hasOwn": "R.hasOwnProperty(n)", "getOwnDesc": "typeof Object.getOwnPropertyDescriptor(R, n)",
    "compound": "(R[n] += 1, typeof R[n])", "update": "(R[n]++, typeof R[n])",
    "defineProperty": "(Object.defineProperty(R, n, {get: function(){ return 7 }}), R[n])",
}
CALL_FORMS = {"call", "new"}
MASK = "«NAME»"


def harvest():
    """every attribute name of every class of the engine, instance attributes of live objects, the dunder vocabulary"""
    import microjs, microjs.values as V, microjs.vm as VM, microjs.context as C, microjs.compiler as K
    names = set()
    for mod in (V, VM, C, K):
        for _, cls in inspect.getmembers(mod, inspect.isclass):
            if getattr(cls, "__module__", "").startswith("microjs"):
                names.update(dir(cls))
                names.update(getattr(cls, "__annotations__", {}).keys())
    ctx = microjs.Context()
    probe = ctx.eval
    for expr in RECV.values():
        if expr == "hostfn":
            continue
        box = []
        ctx.set("__grab", lambda v: box.append(v))
        try:
            ctx.eval("__grab(%s)" % expr)
        except Exception:
            continue
        for v in box:
            names.update(getattr(v, "__dict__", {}).keys())
            names.update(dir(v))
    names.update(dir(object)); names.update(dir(type)); names.update(dir(lambda: 0)); names.update(dir(ctx))
    names.update(["__globals__", "__builtins__", "__code__", "__closure__", "__subclasses__", "__mro__", "__bases__",
                  "__import__", "__loader__", "__spec__", "__file__", "func_globals", "gi_frame", "f_globals", "f_back",
                  "bytecode", "constants", "co_consts", "mro", "im_func", "__self__", "__func__", "__wrapped__"])
    return sorted(n for n in names if isinstance(n, str) and n)


def project(out, name):
    """what a script (or the embedder) can observe of an outcome, with the property name masked"""
    def mask(s):
        return s.replace(name, MASK)
    if out["o"] == "value":
        v = out["v"]
        k = v["k"]
        if k in ("num", "bool", "undef", "null"):
            p = wire.show(v)
        elif k == "str":
            p = mask(wire.from_units(v["u"]))
        elif k == "arr":
            p = "arr%d" % len(v["e"])
        else:
            p = ""
        return {"o": "value", "k": k, "p": p}
    if out["o"] == "throw":
        return {"o": "throw", "k": out["cls"], "p": ""}
    return {"o": out["o"], "k": out.get("type", "none") if out["o"] == "host" else "none", "p": mask(out.get("where", ""))}


ERRCLS = ("function __cls(e){ if (e instanceof TypeError) return 'TypeError'; if (e instanceof ReferenceError) return 'ReferenceError';"
          " if (e instanceof RangeError) return 'RangeError'; if (e instanceof SyntaxError) return 'SyntaxError';"
          " if (e instanceof Error) return 'Error'; return 'thrown-value' }")


def run_form(api, recv, form, name):
    ctx = api.new_context(time_limit=5.0)
    calls = []
    ctx.set("hostfn", lambda *a: (calls.append([wire.to_wire(x)["k"] for x in a]), 1)[1])
    got = []
    ctx.set("__out", lambda *a: (got.append(a), None)[1])
    ctx.set("n", name)
    if form == "read_dot":
        expr = "R.%s" % name
    else:
        expr = FORMS[form]
    src = ERRCLS + " var R = %s; try { __out('v', %s) } catch (e) { __out('t', __cls(e)) }" % (RECV[recv], expr)
    out = api.eval_outcome(ctx, src, wall=20.0, cap=500_000)
    if out["o"] == "value":
        if len(got) != 1:
            out = {"o": "host", "type": "NoOutcome", "where": "driver"}
        elif got[0][0] == "v":
            out = {"o": "value", "v": wire.to_wire(got[0][1])}
        else:
            out = {"o": "throw", "cls": str(got[0][1])}
    bad_args = [k for c in calls for k in c if k in ("hostval",)]
    return out, len(calls), bad_args


def is_ident(s):
    import re
    return re.match(r"^[A-Za-z_$][A-Za-z0-9_$]*$", s) is not None and s not in (
        "class", "new", "delete", "in", "typeof", "var", "function", "return", "this", "null", "true", "false", "if", "else",
        "for", "while", "do", "break", "continue", "switch", "case", "default", "throw", "try", "catch", "finally",
        "instanceof", "void", "with", "debugger", "const", "let", "enum", "export", "import", "super", "extends", "yield",
        "static", "await", "async", "of", "get", "set")


def driver(case, api):
    k = case["kind"]
    if k == "harvest":
        return {"id": case["id"], "names": harvest()}
    if k == "pairs":
        recv, form = case["recv"], case["form"]
        res = []
        for i, name in enumerate(case["names"]):
            if form == "read_dot" and not is_ident(name):
                continue
            fresh = case["fresh"][i % len(case["fresh"])]
            a, ca, bad_a = run_form(api, recv, form, name)
            b, cb, bad_b = run_form(api, recv, form, fresh)
            res.append({"id": "%s|%s|%s" % (recv, form, name), "kind": "pair", "a": project(a, name), "b": project(b, fresh),
                        "hostcalls_a": ca, "hostcalls_b": cb, "calls_expected": (recv == "hostfn" and form in CALL_FORMS),
                        "bad_args": bad_a + bad_b})
        return res
    if k == "trace":
        # run a corpus script with an observer that classifies every value that becomes observable
        seen = {}
        V = __import__("microjs.values", fromlist=["x"])
        VMm = __import__("microjs.vm", fromlist=["x"])

        def kind_of(v):
            if isinstance(v, (VMm.ForInIterator, VMm.ForOfIterator)):
                return "hostval:iterator"
            w = wire.to_wire(v, depth=11)      # shallow
            return w["k"] if w["k"] != "hostval" else "hostval:" + w.get("t", "")

        def obs(kind, vm, op, arg, frame, _):
            if kind not in ("main", "cb"):
                return
            nm = op.name
            st = vm.stack
            vals = ()
            if nm in ("STORE_NAME", "STORE_LOCAL", "STORE_CELL", "STORE_CLOSURE", "RETURN", "THROW") and st:
                vals = (st[-1],)
            elif nm == "SET_PROP" and len(st) >= 3:
                vals = (st[-1], st[-2])
            elif nm in ("CALL", "NEW") and arg is not None and len(st) >= arg + 1:
                vals = tuple(st[len(st) - arg - 1:])
            elif nm == "CALL_METHOD" and arg is not None and len(st) >= arg + 2:
                vals = tuple(st[len(st) - arg - 2:])
            elif nm == "BUILD_ARRAY" and arg:
                vals = tuple(st[len(st) - arg:])
            elif nm == "BUILD_OBJECT" and arg:
                vals = tuple(st[len(st) - 3 * arg + 2::3])
            for v in vals:
                kk = kind_of(v)
                if (kk, nm) not in seen:
                    seen[(kk, nm)] = 1
        ctx = api.new_context(time_limit=20.0)
        ctx.set("hostfn", lambda *a: 1)
        orig = api.steps.reset

        def reset_and_hook(*a, **k2):
            orig(*a, **k2)
            api.steps.user = obs
        api.steps.reset = reset_and_hook
        try:
            out = api.eval_outcome(ctx, case["src"], wall=60.0, cap=3_000_000)
        finally:
            api.steps.reset = orig
            api.steps.user = None
        res = [{"id": case["id"], "kind": "trace", "seen": [{"k": a, "at": b} for (a, b) in sorted(seen)], "o": out["o"]}]
        if out["o"] == "value":
            res.append({"id": case["id"] + "#ret", "kind": "ret", "v": prune(out["v"])})
        return res
    raise ValueError(k)


def prune(w, depth=0):
    """keep returned structures small for the judge"""
    if w.get("k") == "arr":
        return {"k": "arr", "e": [prune(e, depth + 1) for e in w["e"][:8]]} if depth < 4 else {"k": "arr", "e": []}
    if w.get("k") == "obj":
        return {"k": "obj", "p": [{"n": p["n"][:20], "v": prune(p["v"], depth + 1)} for p in w["p"][:8]]} if depth < 4 else {"k": "obj", "p": []}
    if w.get("k") == "str":
        return {"k": "str", "u": w["u"][:30]}
    if w.get("k") == "tarr":
        return {"k": "tarr", "t": w["t"], "e": w["e"][:8]}
    return w
