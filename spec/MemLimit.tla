------------------------------ MODULE MemLimit ------------------------------
(* Layer I: the interpreter's memory accounting (vm.py VM._check_limits) and the host  *)
(* stack budget, as a state machine.                                                   *)
(*   est = SLOT * operands + FRAME * frames  is compared with M before EVERY step;      *)
(*   script-to-script calls push a frame (no host recursion);                           *)
(*   a native that runs script code (callback, accessor, conversion, call/apply, eval)  *)
(*   nests an interpreter loop on the HOST stack: native depth is capped (NCAP).        *)
(* TLC explores every interleaving of growth actions for small constants and checks     *)
(*   MemBound : while running, est never exceeds M by more than one step's growth;      *)
(*   HostBound: the host stack never exceeds its own limit (no RecursionError);         *)
(*   Stops    : a behaviour that only grows ends in "memlimit" (no other terminal state) *)
(* Cap = FALSE models the engine before the native-depth cap: HostBound must fail.       *)
EXTENDS Naturals, Integers, TLC

CONSTANTS M,          \* memory_limit in bytes; 0 = unset
          SLOT, FRAME,\* accounting constants (100, 200 in the code; scaled down here)
          NCAP,       \* MAX_NATIVE_DEPTH
          HOSTPER,    \* host frames consumed per nested native level
          HOSTMAX,    \* the host's recursion limit
          MAXGROW,    \* largest number of operands one instruction can push
          Cap         \* TRUE: the native-depth cap is in force

VARIABLES ops, frames, native, status
vars == <<ops, frames, native, status>>
Est == SLOT * ops + FRAME * frames
Host == HOSTPER * native

Init == ops = 0 /\ frames = 1 /\ native = 0 /\ status = "run"

\* _check_limits runs before every instruction
LimitHit == M > 0 /\ Est > M
Check(next) == IF LimitHit THEN status' = "memlimit" /\ UNCHANGED <<ops, frames, native>> ELSE next

Push(k) == status = "run" /\ Check(ops' = ops + k /\ UNCHANGED <<frames, native, status>>)
Pop     == status = "run" /\ ops > 0 /\ Check(ops' = ops - 1 /\ UNCHANGED <<frames, native, status>>)
CallJS  == status = "run" /\ Check(frames' = frames + 1 /\ UNCHANGED <<ops, native, status>>)
Return  == status = "run" /\ frames > 1 /\ Check(frames' = frames - 1 /\ UNCHANGED <<ops, native, status>>)
\* a native re-enters the interpreter: one more host level and one more frame
CallNative == status = "run" /\
  Check(IF Cap /\ native >= NCAP THEN status' = "memlimit" /\ UNCHANGED <<ops, frames, native>>
        ELSE IF Host + HOSTPER > HOSTMAX THEN status' = "hostoverflow" /\ UNCHANGED <<ops, frames, native>>
        ELSE native' = native + 1 /\ frames' = frames + 1 /\ UNCHANGED <<ops, status>>)
NativeReturn == status = "run" /\ native > 0 /\ frames > 1 /\
  Check(native' = native - 1 /\ frames' = frames - 1 /\ UNCHANGED <<ops, status>>)
Finish == status = "run" /\ frames = 1 /\ native = 0 /\ status' = "done" /\ UNCHANGED <<ops, frames, native>>

Next == (\E k \in 1..MAXGROW : Push(k)) \/ Pop \/ CallJS \/ Return \/ CallNative \/ NativeReturn \/ Finish
Spec == Init /\ [][Next]_vars

MemBound == (M > 0 /\ status = "run") => Est <= M + SLOT * MAXGROW + FRAME
HostBound == status # "hostoverflow"
TypeOK == status \in {"run", "memlimit", "done", "hostoverflow"}
\* growth cannot go on for ever: with M set the state space is finite without any constraint
Finite == M > 0 => (ops <= (M \div SLOT) + MAXGROW + 1 /\ frames <= (M \div FRAME) + 2)
\* with M unset only the native depth is bounded (documented: heap and plain recursion are not)
Constr == M > 0 \/ (ops <= 6 /\ frames <= NCAP + 4)
=============================================================================
