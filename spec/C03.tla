-------------------------------- MODULE C03 --------------------------------
(* C03 - scripts reach only JavaScript values, never host internals.                   *)
(*  Sandbox.tla : reference model of property access + NonInterference / NoPhantom (MC). *)
(*  This module : Enum  - receiver kind x access form (the names are harvested from the   *)
(*                        engine's own classes at run time, plus the host language's      *)
(*                        dunder vocabulary and fresh names);                              *)
(*                Judge - (a) pairs of outcomes: the same script with an internal name and  *)
(*                        with a fresh name must be indistinguishable, and no host function *)
(*                        may have run unless the form calls it;                            *)
(*                        (b) kinds of every value that became observable during recorded   *)
(*                        executions (stored, passed, returned, placed in a literal, handed  *)
(*                        to the embedder): JsVal!TypeOK.                                    *)
EXTENDS JsVal, Json, IOUtils

Tier == IF "TIER" \in DOMAIN IOEnv THEN IOEnv.TIER ELSE "quick"
Receivers == {"number", "string", "boolean", "null", "undefined", "object", "array", "typedarray", "arraybuffer",
              "function", "boundfn", "nativemethod", "constructor", "regex", "error", "arguments", "Math", "JSON",
              "hostfn", "protoless", "arrow", "stringmethod"}
Forms == {"read", "read_dot", "call", "write_read", "delete", "in", "forin", "keys", "stringify", "typeof",
          "instanceof", "new", "as_prototype", "hasOwn", "getOwnDesc", "compound", "update", "defineProperty"}
\* JavaScript-level properties the receiver kinds legitimately have: a harvested name found here is a property,
\* not an internal (probe on the unchanged tree: these are the only harvested names that differ from fresh ones)
Legit == {"length", "push", "pop", "keys", "values", "entries", "parse", "stringify", "test", "exec", "lastIndex", "set",
          "byteLength", "name", "message", "prototype", "constructor", "call", "apply", "bind", "toString", "valueOf",
          "hasOwnProperty", "source", "flags", "global", "ignoreCase", "multiline", "buffer", "byteOffset", "subarray",
          "index", "input", "get", "has", "stack", "lineNumber", "columnNumber", "join", "map", "filter", "slice",
          "splice", "sort", "reverse", "concat", "indexOf", "lastIndexOf", "forEach", "reduce", "reduceRight", "some",
          "every", "find", "findIndex", "includes", "shift", "unshift", "split", "replace", "match", "search", "trim",
          "charAt", "charCodeAt", "substring", "repeat", "startsWith", "endsWith", "toLowerCase", "toUpperCase",
          "toFixed", "toPrecision", "toExponential", "sticky", "dotAll", "unicode", "fill", "floor", "ceil", "round",
          "abs", "max", "min", "pow", "sqrt", "random", "sin", "cos", "tan", "log", "exp", "PI", "E", "trimStart",
          "trimEnd", "replaceAll", "create", "assign", "freeze", "isArray", "from", "of", "now", "toJSON", "isFrozen",
          "getPrototypeOf", "setPrototypeOf", "defineProperty", "getOwnPropertyNames", "getOwnPropertyDescriptor"}

\* ---- probes: the values built-in code hands to script code, and results with optional parts ---------------------------
\* (the property: "every value a script can hold"; "host functions run ... with JavaScript values as arguments")
\* cb     : callback-taking array methods x receivers: this and every argument of every callback call
\* rxcb   : function replacers: pattern (with groups that may not participate) x subject x method
\* rxres  : match results: every element / member of what exec, match, split, search, test return
\* conv   : conversion methods and accessors run by operators and built-ins: this and arguments
\* callf  : call forms: this and arguments as seen by the callee
\* none   : a host function that returns nothing, used wherever a built-in consumes a callback's result
\* json   : reviver / replacer / toJSON calls
CbApis == {"forEach", "map", "filter", "some", "every", "find", "findIndex", "reduce", "reduceRight", "sort"}
CbRecvs == {"[1,2]", "[undefined,null,3]", "['a',[1],{k:1}]", "[NaN,-0]", "Object.keys({a:1,b:2})", "'a-b'.split('-')"}
CbRets == {"undefined", "true", "0"}
RxPats == {"(a)|(b)", "x(y)?z", "(?:(a)|b)+", "(a)?(b)?", "(?:x(a))?b|(a)", "()", "a(?=(b))?", "(a)|b"}
RxSubjs == {"ab", "xz", "b", "", "xyzxz"}
RxCbApis == {"replace", "replaceAll", "replace_strpat"}
RxResApis == {"exec", "match", "match_g", "split", "split_lim", "search", "test", "exec_g_twice", "exec_y"}
ConvUses == {"plus", "concat", "join", "sort_default", "compare", "index", "String", "Number", "getter", "setter",
             "defprop_get", "defprop_set", "in_loop"}
CallForms == {"plain", "method", "call_undef", "call_null", "call_prim", "call_obj", "apply_undef", "apply_arr", "apply_none",
              "bind", "bind_args", "new", "new_args", "arrow"}
NoneUses == {"result", "call", "apply", "bind", "map", "forEach", "filter", "reduce", "sort", "find", "replace", "replaceAll",
             "stringify", "parse", "new", "getter", "setter", "valueOf", "toString", "toJSON", "nested_arg", "in_array", "in_object",
             "conditional", "return"}
JsonUses == {"reviver", "replacer_fn", "replacer_arr", "toJSON", "toJSON_nested", "indent"}
\* iter   : loop variables of for-in / for-of and callback arguments while the body deletes keys or shrinks the receiver
\* text   : values of code or data made from text at run time (direct / indirect eval, Function bodies, JSON.parse, nested eval)
IterLoops == {"forin_obj", "forin_arr", "forof_arr", "forEach", "map", "some", "reduce", "forin_proto", "forof_str"}
IterMuts == {"none", "delete_first", "delete_middle", "delete_last", "delete_all", "delete_next", "pop", "shift", "truncate", "splice_tail", "add_key", "push"}
TextMakers == {"eval", "ieval", "Function", "eval_in_fn", "eval_in_eval", "JSON.parse", "eval_via_var", "eval_call"}
TextValues == {"({a:1})", "[1,2]", "null", "undefined", "({a:[1,{b:2}]})", "[[1],[2]]", "(function(){ return 1 })", "/a/g", "'s'", "1.5", "[]", "({})",
               "new Error('x')", "[null, undefined]"}
\* rxu    : match results under the u flag on subjects with astral characters (index / lastIndex arithmetic in two units)
\* rebind : a host function or a built-in stored under a global name the engine itself looks up (error constructors, Array,
\*          Object, ...), then an operation that makes the engine use that name: the host function must not run (the script never
\*          calls it), and what the script catches or gets is a JavaScript value
RxuPats == {"b", ".", "(.)b?", "[^a]", "\\u{1F600}", "(?:)", "b|(c)"}
RxuFlags == {"u", "gu", "yu", "giu", "gmu"}
RxuSubjs == {"\\u{1F600}b", "a\\u{1F600}b\\u{1F600}", "\\u{1F600}", "\\u{1F600}\\u{1F600}bb"}
RxuApis == {"exec", "exec_twice", "match", "replace_fn", "search", "split", "test_lastIndex", "matchdetached"}
RebindNames == {"TypeError", "RangeError", "ReferenceError", "SyntaxError", "Error", "Array", "Object", "String", "Number", "RegExp", "Function",
                "Boolean", "JSON", "Math", "eval", "parseInt", "isNaN", "console"}
RebindValues == {"hostfn", "hostnone", "console.log", "Math.abs", "hostfn.bind(null)"}
RebindTriggers == {"null_read", "undeclared", "repeat_neg", "bad_regex", "call_number", "new_number", "bad_length", "json_bad", "array_literal",
                   "object_literal", "string_method", "number_method", "regex_literal", "function_literal", "for_in", "plus_string"}
Probes == [fam : {"cb"}, api : CbApis, recv : CbRecvs, ret : CbRets]
          \cup [fam : {"rxu"}, api : RxuApis, pat : RxuPats, fl : RxuFlags, subj : RxuSubjs]
          \cup [fam : {"rebind"}, name : RebindNames, val : RebindValues, trig : RebindTriggers]
          \cup [fam : {"iter"}, loop : IterLoops, mut : IterMuts]
          \cup [fam : {"text"}, mk : TextMakers, val : TextValues]
          \cup [fam : {"rxcb"}, api : RxCbApis, pat : RxPats, subj : RxSubjs]
          \cup [fam : {"rxres"}, api : RxResApis, pat : RxPats, subj : RxSubjs]
          \cup [fam : {"conv"}, use : ConvUses]
          \cup [fam : {"callf"}, form : CallForms]
          \cup [fam : {"none"}, use : NoneUses]
          \cup [fam : {"json"}, use : JsonUses]
ProbePick(q) == \/ Tier # "quick"
                \/ q.fam \notin {"cb", "rxcb", "rxres", "rxu", "rebind"}
                \/ q.fam = "rxu" /\ (q.pat \in {"b", "(.)b?"} \/ q.fl = "gu") /\ q.subj \in {"\\u{1F600}b", "a\\u{1F600}b\\u{1F600}"}
                \/ q.fam = "rebind" /\ (q.val \in {"hostfn", "hostnone"} \/ q.trig \in {"null_read", "repeat_neg"})
                                     /\ (q.name \in {"TypeError", "RangeError", "ReferenceError", "SyntaxError", "Error", "Array", "Object"}
                                         \/ q.trig \in {"null_read", "array_literal", "string_method"})
                \/ q.fam = "cb" /\ (q.ret = "undefined" \/ q.recv = "[1,2]")
                \/ q.fam \in {"rxcb", "rxres"} /\ (q.subj \in {"ab", "xz"} \/ q.pat \in {"(a)|(b)", "x(y)?z"})

VARIABLES ph, cur, rec_i
vars == <<ph, cur, rec_i>>
EnumInit == ph = "start" /\ cur = <<>> /\ rec_i = 0
EnumNext == /\ ph = "start" /\ UNCHANGED rec_i
            /\ \/ \E r \in Receivers : \E f \in Forms : ph' = "case" /\ cur' = [recv |-> r, form |-> f]
               \/ ph' = "case" /\ cur' = [legit |-> Legit]
               \/ \E q \in Probes : ProbePick(q) /\ ph' = "case" /\ cur' = [probe |-> q]
EnumEmit == ph = "start" \/ PrintT(ToJson(cur))

\* ---- Judge ------------------------------------------------------------------------------------
Recs == ndJsonDeserialize(IOEnv.OBS_FILE)
\* pair record: [id, kind = "pair", a: outcome with the internal name, b: outcome with the fresh name, hostcalls_a, hostcalls_b, calls_expected]
\*   outcomes are projected by the driver to [o, k (value kind or error class), p (primitive payload rendered with the name masked)]
\* trace record: [id, kind = "trace", seen: seq of [k (value kind), at (opcode)]]
\* ret record:   [id, kind = "ret", v: wire value returned by eval/get]
SameOutcome(a, b) == a.o = b.o /\ a.k = b.k /\ a.p = b.p
PairVerdict(r) ==
  \* a host exception that escapes for the internal AND for the fresh name alike says nothing about internals:
  \* it is judged by C04 (eval fails only with JSError), not here
  IF r.a.o = "hang" \/ r.b.o = "hang" THEN "hang"
  ELSE IF ~SameOutcome(r.a, r.b) THEN "internal-name-distinguishable"
  ELSE IF r.hostcalls_a # r.hostcalls_b THEN "host-function-runs-for-internal-name"
  ELSE IF ~r.calls_expected /\ r.hostcalls_a > 0 THEN "host-function-ran-without-a-call"
  ELSE IF r.a.o # "host" /\ r.a.k \notin (JsKinds \cup {"TypeError", "ReferenceError", "RangeError", "SyntaxError", "Error", "none", "thrown-value"}) THEN "host-value-observable"
  ELSE "pass"
TraceVerdict(r) == IF \A j \in 1..Len(r.seen) : r.seen[j].k \in JsKinds THEN "pass" ELSE "host-value-observable"
RetVerdict(r) == IF TypeOK(r.v) \/ r.v.k = "none" THEN "pass" ELSE "host-value-returned"
Verdict(r) == CASE r.kind = "pair" -> PairVerdict(r) [] r.kind = "trace" -> TraceVerdict(r) [] r.kind = "ret" -> RetVerdict(r)
JudgeInit == /\ rec_i \in 1..Len(Recs) /\ ph = "judge" /\ cur = <<>>
             /\ LET r == Recs[rec_i] IN PrintT(ToJson([id |-> r.id, v |-> Verdict(r)]))
JudgeNext == UNCHANGED vars
=============================================================================
