------------------------------ MODULE MiniAst ------------------------------
(* Abstract syntax of the MiniJS fragment (DESIGN 4.2) as tagged records, the value  *)
(* universe of the reference machine, and the static functions of the language       *)
(* (hoisted names).  Variable-free library.  The same records travel as JSON: TLC    *)
(* prints them (ToJson), harness/render.py turns them into source text, the seeded   *)
(* generators emit them.  Absent parts are the sentinels NoE / NoS (never JSON null). *)
EXTENDS Naturals, Integers, Sequences, FiniteSets, TLC

\* ---------------- values of the machine ------------------------------------------------------
VUndef   == [t |-> "undef"]
VNull    == [t |-> "null"]
VInt(n)  == [t |-> "int", i |-> n]
VBool(b) == [t |-> "bool", b |-> b]
VStr(x)  == [t |-> "str", s |-> x]
VRef(a)  == [t |-> "ref", r |-> a]                   \* heap address of an object / array / function / error
VNat(n)  == [t |-> "nat", n |-> n]                   \* built-in function (log, Error, forEach, ...)
VLoc(n, f) == [t |-> "loc", nid |-> n, f |-> f]      \* line / column of AST node n (known to the renderer only)
Empty    == [t |-> "empty"]                          \* the empty completion value
Unsup    == [t |-> "unsup"]                          \* outside the modelled fragment (never generated)

\* ---------------- expressions -----------------------------------------------------------------
NoE == [e |-> "none"]
ENum(n) == [e |-> "num", n |-> n]
EStr(x) == [e |-> "str", s |-> x]
EBool(b) == [e |-> "bool", b |-> b]
EUndef  == [e |-> "undef"]
ENull   == [e |-> "null"]
VarAt(n, x) == [e |-> "var", x |-> x, nid |-> n]
Var(x)  == VarAt(0, x)
Bin(o, l, r) == [e |-> "bin", o |-> o, l |-> l, r |-> r]          \* + - < > <= >= == != === !== instanceof
Un(o, x) == [e |-> "un", o |-> o, x |-> x]                          \* ! typeof -
Not(x) == Un("!", x)
TypeOf(x) == Un("typeof", x)
And(l, r) == [e |-> "logic", o |-> "&&", l |-> l, r |-> r]
Or(l, r)  == [e |-> "logic", o |-> "||", l |-> l, r |-> r]
Cond(c, a, b) == [e |-> "cond", c |-> c, a |-> a, b |-> b]
Asg(x, r) == [e |-> "asg", x |-> x, r |-> r]                        \* x = r
CAsg(o, x, r) == [e |-> "casg", o |-> o, x |-> x, r |-> r]          \* x o= r     (o in + -)
Upd(o, pre, x) == [e |-> "upd", o |-> o, pre |-> pre, x |-> x]      \* ++x x++ --x x--
MemAt(n, o, p) == [e |-> "mem", o |-> o, p |-> p, dot |-> FALSE, nid |-> n]     \* o[p]
DotAt(n, o, name) == [e |-> "mem", o |-> o, p |-> EStr(name), dot |-> TRUE, nid |-> n]   \* o.name
Mem(o, p) == MemAt(0, o, p)
Dot(o, name) == DotAt(0, o, name)
MAsg(m, r) == [e |-> "masg", m |-> m, r |-> r]                      \* m (a mem node) = r
MUpd(o, pre, m) == [e |-> "mupd", o |-> o, pre |-> pre, m |-> m]    \* ++o[p] o.n++ ...
CallAt(n, f, a) == [e |-> "call", f |-> f, a |-> a, nid |-> n]      \* f(a..)   f a mem node: method call
Call(f, a) == CallAt(0, f, a)
NewAt(n, f, a) == [e |-> "new", f |-> f, a |-> a, nid |-> n]
New(f, a) == NewAt(0, f, a)
Fun(name, params, body) == [e |-> "fun", name |-> name, params |-> params, body |-> body, arrow |-> FALSE]
Arrow(params, body) == [e |-> "fun", name |-> "", params |-> params, body |-> body, arrow |-> TRUE]
Arr(a) == [e |-> "arr", a |-> a]
ObjK(ks, kd, vs) == [e |-> "obj", ks |-> ks, kd |-> kd, vs |-> vs]      \* kd[j]: "init" | "get" | "set" (vs[j] a function for get / set)
Obj(ks, vs) == ObjK(ks, [j \in 1..Len(ks) |-> "init"], vs)
Comma(a) == [e |-> "seq", a |-> a]
Log(x) == Call(Var("log"), <<x>>)

\* ---------------- statements ------------------------------------------------------------------
NoS == [s |-> "none"]
SExpr(x) == [s |-> "expr", x |-> x]
SLog(x)  == SExpr(Log(x))
Decl(x, i) == [x |-> x, i |-> i]
SVar(ds) == [s |-> "var", ds |-> ds]
SVar1(x, i) == SVar(<<Decl(x, i)>>)
SFun(name, params, body) == [s |-> "fdecl", name |-> name, params |-> params, body |-> body]
SBlock(b) == [s |-> "block", b |-> b]
SEmpty == [s |-> "empty"]
SIf(c, a, b) == [s |-> "if", c |-> c, a |-> a, b |-> b]
SWhile(c, b) == [s |-> "while", c |-> c, b |-> b]
SDo(b, c) == [s |-> "dowhile", c |-> c, b |-> b]
SFor(i, c, u, b) == [s |-> "for", i |-> i, c |-> c, u |-> u, b |-> b]     \* i: var / expr statement or NoS
SForIn(decl, x, o, b) == [s |-> "forin", decl |-> decl, x |-> x, o |-> o, b |-> b]
SForOf(decl, x, o, b) == [s |-> "forof", decl |-> decl, x |-> x, o |-> o, b |-> b]
Case(t, b) == [t |-> t, b |-> b]                                        \* t = NoE: the default clause
SSwitch(d, cs) == [s |-> "switch", d |-> d, cs |-> cs]
SLabel(l, b) == [s |-> "label", l |-> l, b |-> b]
SBreak(l) == [s |-> "break", l |-> l]                                   \* l = "": unlabelled
SCont(l) == [s |-> "continue", l |-> l]
SRet(x) == [s |-> "return", x |-> x]                                    \* x = NoE: plain return
SThrowAt(n, x) == [s |-> "throw", x |-> x, nid |-> n]
SThrow(x) == SThrowAt(0, x)
STry(b, cv, c, f) == [s |-> "try", b |-> b, cv |-> cv, c |-> c, f |-> f]     \* b, c, f: block statements or NoS
Prog(body) == [body |-> body]
\* an arrow function whose body is an expression (`(p) => x`): it means { return x } (ECMA-262 ConciseBody); the extra
\* field xb only tells the renderer to print the expression form
XArrow(params, x) == [e |-> "fun", name |-> "", params |-> params, body |-> <<SRet(x)>>, arrow |-> TRUE, xb |-> TRUE]

\* ---------------- completions -----------------------------------------------------------------
CN(v)     == [c |-> "normal", v |-> v, lab |-> ""]
CBreak(l) == [c |-> "break", v |-> Empty, lab |-> l]
CCont(l)  == [c |-> "continue", v |-> Empty, lab |-> l]
CRet(v)   == [c |-> "return", v |-> v, lab |-> ""]
CThrow(v) == [c |-> "throw", v |-> v, lab |-> ""]
UpdateEmpty(c, v) == IF c.v.t = "empty" THEN [c EXCEPT !.v = v] ELSE c

\* ---------------- static semantics: hoisted names ----------------------------------------------
\* VarScopedDeclarations: names declared by `var` (including for / for-in / for-of heads) anywhere in
\* the statement list, not descending into functions.
RECURSIVE VarNamesS(_), VarNamesL(_)
VarNamesL(ss) == IF ss = <<>> THEN {} ELSE VarNamesS(Head(ss)) \cup VarNamesL(Tail(ss))
VarNamesS(s) ==
  CASE s.s = "var" -> {s.ds[j].x : j \in 1..Len(s.ds)}
    [] s.s = "block" -> VarNamesL(s.b)
    [] s.s = "if" -> VarNamesS(s.a) \cup VarNamesS(s.b)
    [] s.s \in {"while", "dowhile"} -> VarNamesS(s.b)
    [] s.s = "for" -> VarNamesS(s.i) \cup VarNamesS(s.b)
    [] s.s \in {"forin", "forof"} -> (IF s.decl THEN {s.x} ELSE {}) \cup VarNamesS(s.b)
    [] s.s = "switch" -> UNION {VarNamesL(s.cs[j].b) : j \in 1..Len(s.cs)}
    [] s.s = "label" -> VarNamesS(s.b)
    [] s.s = "try" -> VarNamesS(s.b) \cup VarNamesS(s.c) \cup VarNamesS(s.f)
    [] OTHER -> {}
\* function declarations of a body (top level of the body only: the generators never nest them in blocks)
FunDecls(ss) == SelectSeq(ss, LAMBDA s : s.s = "fdecl")
FunDeclNames(ss) == {ss[j].name : j \in {q \in 1..Len(ss) : ss[q].s = "fdecl"}}
=============================================================================
