-------------------------------- MODULE C08 --------------------------------
EXTENDS ObjModel, Json, IOUtils

EnvOr(n, d) == IF n \in DOMAIN IOEnv THEN IOEnv[n] ELSE d
NatOf == [t \in {ToString(j) : j \in 0..64} |-> CHOOSE j \in 0..64 : ToString(j) = t]
MaxLen == NatOf[EnvOr("MAXLEN", "2")]

ENext == Len(m_hist) < MaxLen /\ MNext
EmitAll == m_hist = <<>> \/ PrintT(ToJson([h |-> m_hist]))
EmitLast == Len(m_hist) < MaxLen \/ PrintT(ToJson([h |-> m_hist]))
=============================================================================
