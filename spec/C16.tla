-------------------------------- MODULE C16 --------------------------------
(* C16 - String methods follow ECMAScript for every argument shape.            *)
(*   Laws   : properties of the reference (JsString) itself, model-checked.    *)
(*   Enum   : the case space (method x receiver x argument grid), printed.      *)
(*   Judge  : records observed on the real engine, judged against JsString.    *)
EXTENDS JsString, Json, IOUtils

\* ---------------- grids -----------------------------------------------------------------------
Receivers == <<
  <<>>, U("a"), U("abc"), U("aaa"), U("abcabc"), U("aXbY"), U("  a b  "), U("0123"),
  <<9, 10, 11, 12, 13, 32, 97, 160, 5760, 8192, 8202, 8232, 8233, 8239, 8287, 12288, 65279>>,
  <<233, 97, 223>>,                         \* e-acute a sharp-s (non-ASCII BMP)
  <<97, 55357, 56832, 98>>                  \* a <surrogate pair> b
>>
QuickReceivers == <<1, 2, 3, 5, 6, 7, 9, 10, 11>>          \* indexes into Receivers

\* numbers: NaN, +-Infinity, -1, 0, -0, 1, 2, 3, 4, 6, 7, 0.5, -0.5, 1.5, 2^31, 2^53, -2^31
WHalf == <<16352, 0, 0, 0>>
W1p5  == <<16376, 0, 0, 0>>
W2p31 == <<16864, 0, 0, 0>>
W2p53 == <<17216, 0, 0, 0>>
W65539 == <<16624, 48, 0, 0>>            \* 65539 = 0x10003
W1e30 == <<17961, 15961, 14752, 36074>>   \* 1e30
NumGrid == {WNaN, WPosInf, WNegInf, WOfInt(-1), WPosZero, WNegZero, WOfInt(1), WOfInt(2), WOfInt(3), WOfInt(4),
            WOfInt(6), WOfInt(7), WOfInt(17), WOfInt(65), WOfInt(65535), WOfInt(65536), WOfInt(65601), WOfInt(-65), WHalf, WNeg(WHalf), W1p5, WNeg(W1p5), W2p31, WNeg(W2p31), W2p53, WOfInt(-2), WOfInt(-7), W1e30}
W1p5neg == WNeg(W1p5)
QuickNumGrid == {WNaN, WPosInf, WNegInf, WOfInt(-1), WPosZero, WOfInt(1), WOfInt(3), WOfInt(6), WHalf, WNeg(WHalf), W1p5neg, W2p31, WOfInt(-2), W1e30}
IndexArgs(q) == {Undef, Null, VBool(TRUE), VStr(U("1")), VStr(U("x")), VStr(<<>>), VObj(<<>>), VArr(<<>>)}
                  \cup {VNumW(w) : w \in (IF q THEN QuickNumGrid ELSE NumGrid)}
TextArgs(q) == {Undef, Null, VBool(FALSE), VStr(<<>>), VStr(U("a")), VStr(U("b")), VStr(U("bc")), VStr(U("abc")),
                VStr(U(" ")), VStr(U("X")), VNumW(WOfInt(1)), VNumW(WOfInt(12))}
                 \cup (IF q THEN {} ELSE {VStr(U("aa")), VStr(U("abcd")), VStr(<<56832>>), VNumW(WNaN), VObj(<<>>), VArr(<<>>)})
TemplArgs(q) == {Undef, Null, VStr(<<>>), VStr(U("x")), VStr(U("$&")), VStr(U("$$")), VStr(<<36, 96>>), VStr(U("$'")), VStr(U("$1")),
                 VStr(U("[$&$&]")), VStr(U("$")), VStr(U("a$")), VStr(U("$0$<n>")), VStr(<<36, 39, 36, 96>>), VNumW(WOfInt(1))}
                 \cup (IF q THEN {} ELSE {VStr(U("$$$$")), VStr(U("$$&")), VStr(U("$&$")), VStr(U("$01")), VBool(TRUE), VStr(U("-$'-$&-"))})
SearchArgs == {VStr(U("a|b")), VStr(U("b|a")), VStr(U("|")), VStr(U("x|")), VStr(U("bc|a")), VStr(U("ab|c")), VStr(U("X|Y|b")), VStr(U("c|abc|b")), VStr(U("z|q"))}
ArgsAt(m, i, q) == IF m = "search" /\ i = 1 THEN TextArgs(q) \cup SearchArgs
                   ELSE IF i \in IndexPos(m) THEN IndexArgs(q) ELSE IF i \in TextPos(m) THEN TextArgs(q)
                   ELSE IF i \in TemplPos(m) THEN TemplArgs(q)
                   ELSE IF m = "[]" THEN {VNumW(w) : w \in NumGrid \ {WNegZero}} \cup {VStr(u) : u \in IndexKeyTexts} ELSE {}
ArgVectors(m, q) ==
  {<<>>} \cup (IF Arity(m) >= 1 THEN {<<x>> : x \in ArgsAt(m, 1, q)} ELSE {})
         \cup (IF Arity(m) >= 2 THEN {<<x, y>> : x \in ArgsAt(m, 1, q), y \in ArgsAt(m, 2, q)} ELSE {})
Tier == IF "TIER" \in DOMAIN IOEnv THEN IOEnv.TIER ELSE "quick"
Quick == Tier = "quick"
RecvIdx == IF Quick THEN {QuickReceivers[i] : i \in 1..Len(QuickReceivers)} ELSE 1..Len(Receivers)
Cases == {c \in [m : Methods, r : RecvIdx, a : UNION {ArgVectors(m, Quick) : m \in Methods}] :
            c.a \in ArgVectors(c.m, Quick) /\ Supported(c.m, Receivers[c.r], c.a)}

\* ---------------- Enum: print the case space --------------------------------------------------
VARIABLES ph, cur, rec_i          \* rec_i: never a name that library operators bind
vars == <<ph, cur, rec_i>>
EnumInit == ph = "start" /\ cur = <<>> /\ rec_i = 0
EnumNext == /\ ph = "start"
            /\ \E m \in Methods : \E r \in RecvIdx : \E a \in ArgVectors(m, Quick) :
                 /\ Supported(m, Receivers[r], a)
                 /\ ph' = "case"
                 /\ cur' = [m |-> m, recv |-> VStr(Receivers[r]), args |-> a]
                 /\ UNCHANGED rec_i
EnumEmit == ph = "start" \/ PrintT(ToJson(cur))

\* ---------------- Laws of the reference -------------------------------------------------------
\* evaluated on every enumerated case (INVARIANT LawsHold in the Enum configuration)
Law(c) ==
  LET s == c.recv.u  a == c.args  m == c.m  e == Expected(m, s, a) IN
  /\ (m \in {"substring", "slice", "trim", "trimStart", "trimEnd"} =>
        e.o = "value" /\ Len(e.v.u) <= Len(s) /\ (e.v.u = <<>> \/ IndexFrom(s, e.v.u, 0) # -1))      \* result is a substring
  /\ (m = "indexOf" => LET k == WTruncClamp(e.v.w) IN k = -1 \/ OccursAt(s, ToStrU(Arg(a, 1)), k))  \* witness
  /\ (m = "lastIndexOf" => LET k == WTruncClamp(e.v.w) IN k = -1 \/ OccursAt(s, ToStrU(Arg(a, 1)), k))
  /\ (m = "includes" => (e.v.b <=> Expected("indexOf", s, a).v.w # WOfInt(-1)))
  /\ (m \in {"trim", "trimStart", "trimEnd"} => Expected(m, e.v.u, <<>>) = e)                          \* idempotent
  /\ (m = "split" /\ Len(a) = 1 /\ a[1].k = "str" /\ a[1].u # <<>> =>
        LET ps == e.v.e IN Len(ps) >= 1 /\
            Flatten([i \in 1..(2 * Len(ps) - 1) |-> IF i % 2 = 1 THEN ps[(i + 1) \div 2].u ELSE a[1].u]) = s) \* join inverse
  /\ (m = "charAt" => Len(e.v.u) <= 1)
  /\ (m = "toLowerCase" => Expected("toLowerCase", e.v.u, <<>>) = e)
LawsHold == ph = "start" \/ Law(cur)

\* ---------------- Judge ------------------------------------------------------------------------
Recs == ndJsonDeserialize(IOEnv.OBS_FILE)           \* [id, m, recv, args, out]
\* Named deviations (DESIGN 2.3): the engine's as-is behaviour for the listed findings, modelled exactly.
\* Dev_CodePoints : the engine keeps strings as sequences of code points, so a surrogate pair is ONE element.
\*                  As-is = the reference applied to the code-point image of receiver and text arguments.
\* Dev_ObjectArgNoToPrimitive : ToNumber / ToString of an object or array argument skip ToPrimitive:
\*                  ToNumber(obj) = NaN, ToString(obj) = "[object Object]" (ES: [] -> "" -> 0).
IsHi(c) == c >= 55296 /\ c <= 56319
IsLo(c) == c >= 56320 /\ c <= 57343
HasPair(u) == \E i \in 1..(Len(u) - 1) : IsHi(u[i]) /\ IsLo(u[i + 1])
RECURSIVE ToCP(_)
ToCP(u) == IF u = <<>> THEN <<>>
           ELSE IF Len(u) >= 2 /\ IsHi(u[1]) /\ IsLo(u[2])
                THEN <<65536 + (u[1] - 55296) * 1024 + (u[2] - 56320)>> \o ToCP(SubSeq(u, 3, Len(u)))
                ELSE <<u[1]>> \o ToCP(Tail(u))
FromCP(u) == Flatten([i \in 1..Len(u) |-> IF u[i] >= 65536
                                          THEN <<55296 + ((u[i] - 65536) \div 1024), 56320 + ((u[i] - 65536) % 1024)>>
                                          ELSE <<u[i]>>])
IsObjArg(v) == v.k \in {"arr", "obj"}
\* (an array in a text position is joined, as ECMAScript says: only its use as a NUMBER skips ToPrimitive)
AsIsArg(m, a, i) == IF IsObjArg(a[i]) THEN (IF i \in IndexPos(m) THEN VNaN ELSE IF a[i].k = "arr" THEN VStr(<<>>) ELSE VStr(U("[object Object]")))
                    ELSE IF a[i].k = "str" THEN VStr(ToCP(a[i].u)) ELSE a[i]
AsIsRes(e) == IF e.o # "value" THEN e
              ELSE CASE e.v.k = "str" -> RVal(VStr(FromCP(e.v.u)))
                     [] e.v.k = "arr" -> RVal(VArr([i \in 1..Len(e.v.e) |-> VStr(FromCP(e.v.e[i].u))]))
                     [] OTHER -> e
AsIs(m, s, a) == AsIsRes(Expected(m, ToCP(s), [i \in 1..Len(a) |-> AsIsArg(m, a, i)]))

OutMatches(act, exp) ==
  /\ act.o = exp.o
  /\ IF exp.o = "value" THEN SameVal(act.v, exp.v) ELSE act.cls = exp.cls
Verdict(r) ==
  LET s == r.recv.u
      exp == Expected(r.m, s, r.args)
      unchanged == r.out.o # "value" \/ SameVal(r.out.recv_after, r.recv)
      pairs == HasPair(s) \/ (\E i \in 1..Len(r.args) : r.args[i].k = "str" /\ HasPair(r.args[i].u))
      objs  == \E i \in 1..Len(r.args) : IsObjArg(r.args[i])
      \* Again: the same call made a second time, after the first result was modified in place (elements pushed, reversed,
      \* overwritten), gives the same value: results depend on (method, receiver, arguments) only and every call returns a fresh value
      again == r.out.o # "value" \/ SameVal(r.out.v2, r.out.v)
  IN IF ~Supported(r.m, s, r.args) THEN [v |-> "unsupported", dev |-> "", exp |-> exp]
     ELSE IF ~again THEN [v |-> "mismatch", dev |-> "", exp |-> exp]
     ELSE IF OutMatches(r.out, exp) /\ unchanged THEN [v |-> "pass", dev |-> "", exp |-> exp]
     ELSE IF (pairs \/ objs) /\ unchanged /\ OutMatches(r.out, AsIs(r.m, s, r.args))
          THEN [v |-> "mismatch", dev |-> (IF pairs THEN "Dev_CodePoints" ELSE "Dev_ObjectArgNoToPrimitive"), exp |-> exp]
     ELSE [v |-> "mismatch", dev |-> "", exp |-> exp]
JudgeInit == /\ rec_i \in 1..Len(Recs) /\ ph = "judge" /\ cur = <<>>
             /\ LET r == Recs[rec_i]  v == Verdict(r)
                IN PrintT(ToJson([id |-> r.id, v |-> v.v, dev |-> v.dev, exp |-> v.exp]))
JudgeNext == UNCHANGED vars
=============================================================================
