"""C08 - objects, prototypes, functions and `this` behave as specified (DESIGN 5/C08).

Part A (object model, spec/ObjModel.tla):
  MC    TLC model-checks ObjModel's invariants (acyclic chains, agreement laws, frame condition) on every
        history it enumerates.
  S->C  the enumerated histories (all up to length 2 over the full alphabet; thorough: all of length 3 over the
        core alphabet) and `-simulate` walks are replayed into the engine by checks/c08_driver.py, ONE fresh
        Context per history, followed by the whole observation battery.
  C->S  spec/C08_Trace.tla replays every recorded history through the model and judges every recorded step
        outcome and observation (reference / named deviation / violation); ObjModel's invariants are evaluated
        on every state of every recorded execution.  Thorough adds seeded random histories (length <= 25)
        generated as spec-level JSON; the spec cuts them at the first operation it does not allow.
Part B (call form x function kind, spec/C08.tla): TLC enumerates the product, the driver renders and runs each
  cell, TLC judges this / arguments / length / name / new-return against the table in the specification.
Part C (kind of the this-value x explicit-this call form x function kind, spec/C08.tla): same pipeline as Part B
  (quick: representative sub-grid containing every this-value kind, call form and function kind; thorough: the product).
Part D (kind of the value a computed key evaluates to x site that turns a key into a property name, spec/C08.tla): same
  pipeline; a cell is a two-step history (write site x spelling, then a second step) with the whole battery of routes
  (member read by value / in place / by the canonical string, in, both hasOwnProperty routes, getOwnPropertyDescriptor,
  keys / values / entries / for-in, the child object) observed after each step.  The canonical name comes from the spec.
Part E (re-entry, spec/C08.tla): same pipeline; a cell is a function that refers to itself (own name of a named function
  expression, declaration / variable of the enclosing scope, captured by a nested closure) x the call form that enters it x the
  call form of the inner call it makes through that reference; this / arguments / instance linkage of three levels are judged.
Part F (derivation chains, spec/C08.tla): same pipeline; a cell is a base function of some kind with a chain of bind levels on top
  (each level with its own this and its own number of bound arguments) x the form that calls the outermost function; this,
  all arguments, parameters, instance linkage, length, name, and the function one level below (unchanged by the re-bind) are judged.
Python never computes an expected value.
"""
import json, os, random, collections, time
from harness import tlc, engine
from harness.common import Machinery, workdir
from checks import c08_driver as drv

ENUM_CFG = ("CONSTANT CoreFrom = %d\nINIT EInit\nNEXT ENext\nINVARIANT ModelInv\nINVARIANT Frame\nINVARIANT EmitAll\n"
            "CHECK_DEADLOCK FALSE\n")
SIM_CFG = "CONSTANT CoreFrom = 0\nINIT SimInit\nNEXT SimNext\nCHECK_DEADLOCK FALSE\n"
TRACE_CFG = "CONSTANT CoreFrom = 0\nINIT TInit\nNEXT TNext\nCONSTRAINT TReport\nINVARIANT TInv\nCHECK_DEADLOCK FALSE\n"
CALL_ENUM_CFG = "CONSTANT CoreFrom = 0\nINIT CInit\nNEXT CNext\nINVARIANT CLawsHold\nCHECK_DEADLOCK FALSE\n"
CALL_JUDGE_CFG = "CONSTANT CoreFrom = 0\nINIT CJudgeInit\nNEXT CNext\nCHECK_DEADLOCK FALSE\n"


def tlc_run(*a, **kw):
    """tlc.run, repeated when the JVM was killed from outside (shared machine: OOM killer, another agent's pkill)"""
    for attempt in range(4):
        res = tlc.run(*a, **kw)
        if res.rc not in (-9, -15, 137, 143):
            return res
        time.sleep(3 + 5 * attempt)
    return res


def tlc_judge(*a, **kw):
    for attempt in range(4):
        try:
            return tlc.judge(*a, **kw)
        except Machinery as e:
            if not any(("rc=%d" % k) in str(e) for k in (-9, -15, 137, 143)) or attempt == 3:
                raise
            time.sleep(3 + 5 * attempt)


def hkey(h):
    return json.dumps(h, sort_keys=True)


def show_hist(h, upto=None):
    return "; ".join(drv.render_op(o) for o in (h if upto is None else h[:upto]))


def listed(rep, part):
    return sorted(d for d, f in rep.findings.items() if f.get("part") == part)


# --------------------------------------------------------------------------------------------------
def judge_traces(rep, recs, dv, tag, cal=False):
    for r in recs:
        r["dv"] = dv
        r["cal"] = cal
    if not recs:
        return {}, 0, 0
    out, st, tr, wall = tlc_judge(rep.pid, "C08_Trace", recs, TRACE_CFG, tag=tag, timeout=2400,
                                  shards=min(16, max(1, len(recs) // 40)))
    got = {v["id"]: v for v in out}
    if len(got) != len(recs):
        raise Machinery("trace judge returned %d verdicts for %d traces" % (len(got), len(recs)))
    return got, st, tr


def calibrate(rep, recs, got, dv):
    """The engine may have some of the listed defects repaired.  When traces are violated, TLC re-judges them in
    calibration mode: wherever the engine followed the reference although the as-is model predicts otherwise,
    C08_Trace names the deviations whose removal makes the as-is model agree (`anti`).  Deviations with more such
    counter-evidence than necessary attributions on the violated traces are dropped and the violated traces are
    judged again; the result is kept only if it is better."""
    for _ in range(4):
        viol = [r for r in recs if got[r["id"]]["cnt"]["viol"] > 0]
        if not viol or not dv:
            break
        g1, st, tr = judge_traces(rep, [dict(r) for r in viol[:400]], dv, "calib", cal=True)
        rep.add_judge(0, st, tr)
        anti = collections.Counter(d for v in g1.values() for d in v["anti"])
        sure = collections.Counter(m["dev"] for v in g1.values() for m in v["mis"] if m["v"] == "known")
        cand = [d for d in dv if not anti[d] > sure[d]]
        if cand == dv:
            break
        g2, st, tr = judge_traces(rep, [dict(r) for r in viol], cand, "rejudge")
        rep.add_judge(0, st, tr)
        if sum(v["cnt"]["viol"] for v in g2.values()) >= sum(got[r["id"]]["cnt"]["viol"] for r in viol):
            break
        got.update(g2)
        dv = cand
    return dv


def part_histories(rep):
    quick = rep.tier == "quick"
    pid = rep.pid
    phases = rep.notes.setdefault("phase_wall_s", {})
    t0 = time.time()
    # ---- 1. model checking + enumeration -------------------------------------------------------------
    res = tlc_run(pid, "C08", ENUM_CFG % 0, env={"MAXLEN": "2"}, timeout=900, tag="enum2")
    rep.add_tlc("ObjModel histories<=2, full alphabet (ModelInv, Frame)", res)
    bat = [x for x in res.records if "on" in x]
    if len(bat) != 1:
        raise Machinery("battery record missing")
    bat = bat[0]
    universe = [x for x in res.records if "universe" in x][0]["universe"]
    hists = {}
    for x in res.records:
        if "h" in x:
            hists.setdefault(hkey(x["h"]), x["h"])
    n2 = len(hists)
    if n2 < 3000:
        raise Machinery("enumeration produced only %d histories" % n2)
    rep.spaces.append({"space": "all histories of length <= 2 over the full alphabet", "cases": n2, "complete": True})
    if not quick:
        res3 = tlc_run(pid, "C08", ENUM_CFG % 1, env={"MAXLEN": "3"}, timeout=1500, tag="enum3")
        rep.add_tlc("ObjModel histories<=3, core alphabet (ModelInv, Frame)", res3)
        for x in res3.records:
            if "h" in x:
                hists.setdefault(hkey(x["h"]), x["h"])
        rep.spaces.append({"space": "all histories of length <= 3 over the core alphabet", "cases": len(hists) - n2,
                           "complete": True})
    phases["enumerate+modelcheck"] = round(time.time() - t0, 1)
    t0 = time.time()
    flat_n = len(bat["on"]) * len(bat["objs"]) + len(bat["glob"])
    bpath = os.path.join(workdir(pid), "battery.json")
    with open(bpath, "w") as f:
        json.dump(bat, f)
    cases = []
    for h in hists.values():
        cases.append({"id": len(cases), "h": h, "observe": "last", "battery": bpath, "src": "enum"})
    # ---- 2. simulation walks ----------------------------------------------------------------------------
    per_worker = 24 if quick else 150
    if os.environ.get("C08_WALKS"):                  # scratch runs on a loaded machine (mutant trials): fewer walks
        per_worker = int(os.environ["C08_WALKS"])
    sim = tlc_run(pid, "C08", SIM_CFG, env={"MAXLEN": "12"}, timeout=900, tag="sim", simulate="num=%d" % per_worker,
                  depth=14, seed=rep.seed)
    rep.add_tlc("ObjModel -simulate walks depth 12", sim)
    walks = {}
    for x in sim.records:
        if "h" in x:
            walks.setdefault(hkey(x["h"]), x["h"])
    if len(walks) < per_worker * 4 or not walks:
        raise Machinery("simulation produced only %d walks" % len(walks))
    if not quick:
        sim2 = tlc_run(pid, "C08", SIM_CFG, env={"MAXLEN": "25"}, timeout=900, tag="sim25", simulate="num=30",
                       depth=27, seed=rep.seed + 1)
        rep.add_tlc("ObjModel -simulate walks depth 25", sim2)
        for x in sim2.records:
            if "h" in x:
                walks.setdefault(hkey(x["h"]), x["h"])
    for h in walks.values():
        cases.append({"id": len(cases), "h": h, "observe": "all", "battery": bpath, "src": "walk"})
    rep.spaces.append({"space": "TLC -simulate walks through ObjModel (depth 12%s), every step observed" %
                       ("" if quick else " and 25"), "cases": len(walks), "complete": False})
    # ---- 3. seeded random histories as spec-level JSON (thorough) ----------------------------------------------
    nrand = 0
    if not quick:
        rnd = random.Random(rep.seed)
        for _ in range(1000):
            cases.append({"id": len(cases), "h": random_history(rnd, universe), "observe": "all", "battery": bpath,
                          "src": "random"})
            nrand += 1
        rep.spaces.append({"space": "seeded random histories, length <= 25, cut by the spec at the first inapplicable operation",
                           "cases": nrand, "complete": False})
    phases["simulate"] = round(time.time() - t0, 1)
    t0 = time.time()
    # ---- 4./5. replay into the engine, trace validation (in chunks: bounded memory) -----------------------------
    byid = {c["id"]: c for c in cases}
    dv = listed(rep, "objmodel")
    got, viol_recs = {}, []
    cuts = collections.Counter()
    t_eng = t_judge = 0.0
    CH = 24000
    for lo in range(0, len(cases), CH):
        t0 = time.time()
        results = engine.run_cases(pid, cases[lo:lo + CH], driver="checks.c08_driver:hist_driver", timeout=3000)
        t_eng += time.time() - t0
        recs = []
        for r in results:
            c = byid[r["id"]]
            if r["cut"].startswith("setup:"):
                raise Machinery("setup script failed: " + r["cut"])
            for s in r["steps"]:
                if s["obs"] and len(s["obs"]) != flat_n:
                    raise Machinery("observation vector of length %d, battery has %d" % (len(s["obs"]), flat_n))
            if r["cut"]:
                cuts[r["cut"]] += 1
            recs.append({"id": r["id"], "h": c["h"], "steps": r["steps"], "cut": r["cut"]})
        del results
        t0 = time.time()
        g, st, tr = judge_traces(rep, recs, dv, "trace")
        t_judge += time.time() - t0
        rep.add_judge(len(recs), st, tr)
        got.update(g)
        viol_recs += [r for r in recs if g[r["id"]]["cnt"]["viol"] > 0][:2000]
        del recs
    phases["engine_replay"] = round(t_eng, 1)
    t0 = time.time()
    rep.notes["deviations_in_force"] = calibrate(rep, viol_recs, got, dv)
    phases["trace_validation"] = round(t_judge + time.time() - t0, 1)
    steps = obs = skipped = 0
    for c in cases:
        v = got[c["id"]]
        steps += v["cnt"]["steps"]
        obs += v["cnt"]["obs"]
        if v["status"] == "inapplicable":
            if c["src"] != "random":
                raise Machinery("the spec calls its own history inapplicable: %s" % show_hist(c["h"]))
            skipped += 1
        for m in v["mis"]:
            what = "step outcome" if m["j"] == 0 else drv.render_obs(m["ob"])
            label = "%s  ==>  %s" % (show_hist(c["h"], m["l"]), what)
            detail = {"expected": m["exp"], "actual": m["act"], "step": m["l"], "clause": m["ob"], "history": c["h"],
                      "source": c["src"]}
            rep.mismatch(label, detail, dev=m["dev"].lstrip("?") if m["v"] == "known" else "")
        if not v["mis"] and len(rep.samples) < 2:
            rep.sample({"history": show_hist(c["h"]), "observations_judged": v["cnt"]["obs"], "verdict": "pass"})
    for c in cases:                                  # one sample with a known finding, from a long walk
        v = got[c["id"]]
        if len(rep.samples) < 4 and v["mis"] and c["src"] == "walk":
            m = v["mis"][0]
            rep.sample({"history": show_hist(c["h"], m["l"]), "observation": drv.render_obs(m["ob"]) if m["j"] else "step",
                        "reference": m["exp"], "engine": m["act"], "verdict": m["v"], "deviation": m["dev"]})
            break
    rep.notes["steps_judged"] = steps
    rep.notes["observations_judged"] = obs
    rep.notes["histories_cut"] = dict(cuts)
    rep.notes["random_histories_cut_as_inapplicable"] = skipped
    rep.notes["histories"] = {"enumerated": len(hists), "walks": len(walks), "random": nrand}
    return len(cases)


def random_history(rnd, universe):
    """Draw operations from the alphabet the spec printed; only the slot bookkeeping is done here, the
    specification decides applicability (C08_Trace cuts at the first inapplicable operation)."""
    n = rnd.randint(6, 25)
    alloc, h = [], []
    slots = ["o1", "o2", "o3"]
    while len(h) < n:
        o = dict(rnd.choice(universe))
        creation = o["op"] in ("lit", "create", "new", "func")
        if creation:
            if len(alloc) == 3 or (alloc and rnd.random() < 0.5):
                continue
            o["x"] = slots[len(alloc)]
        names = [z for z in (o["x"], o["p"]) if z in slots]
        if any(z not in alloc and not (creation and z == o["x"]) for z in names):
            continue
        if creation:
            alloc.append(o["x"])
        if o["n"] != 0:
            o["n"] = len(h) + 1
        h.append(o)
    return h


# --------------------------------------------------------------------------------------------------
def part_callforms(rep):
    pid = rep.pid
    res = tlc_run(pid, "C08", CALL_ENUM_CFG, env={"TIER": rep.tier}, timeout=600, tag="callenum")
    rep.add_tlc("C08 call-form table laws + enumeration", res)
    cells = [x for x in res.records if "form" in x]
    if len(cells) < 60:
        raise Machinery("call-form enumeration produced only %d cells" % len(cells))
    for i, c in enumerate(cells):
        c["id"] = i
    rep.spaces.append({"space": "call form x function kind, plus new-return rules and constructor chains",
                       "cases": sum(1 for c in cells if c["form"] not in ("tv", "key", "re", "bc")), "complete": True})
    ntv = sum(1 for c in cells if c["form"] == "tv")
    if ntv < 300:
        raise Machinery("this-value enumeration produced only %d cells" % ntv)
    rep.spaces.append({"space": "kind of the this-value x call form taking an explicit this x function kind (%s grid)" % rep.tier,
                       "cases": ntv, "complete": True})
    nkey = sum(1 for c in cells if c["form"] == "key")
    if nkey < 300:
        raise Machinery("key-kind enumeration produced only %d cells" % nkey)
    rep.spaces.append({"space": "kind of the computed key's value x site that turns a key into a property name "
                                "(write site x spelling x second step, %s grid), battery of 21 observations after each step" % rep.tier,
                       "cases": nkey, "complete": True})
    nre = sum(1 for c in cells if c["form"] == "re")
    if nre < 200:
        raise Machinery("re-entry enumeration produced only %d cells" % nre)
    rep.spaces.append({"space": "re-entry: how the function refers to itself x call form entering level 0 x call form of the inner "
                                "call through the self-reference (%s grid), three levels observed" % rep.tier,
                       "cases": nre, "complete": True})
    nbc = sum(1 for c in cells if c["form"] == "bc")
    if nbc < 150:
        raise Machinery("derivation-chain enumeration produced only %d cells" % nbc)
    rep.spaces.append({"space": "derivation chains: base function kind x chain of bind levels (0-2 bound arguments per level, depth 1-3) "
                                "x form calling the outermost function (%s grid)" % rep.tier, "cases": nbc, "complete": True})
    rep.notes["cells"] = {"call_forms": len(cells) - ntv - nkey - nre - nbc, "this_value": ntv, "key_kind": nkey, "re_entry": nre,
                          "bind_chain": nbc}
    results = engine.run_cases(pid, cells, driver="checks.c08_driver:cell_driver", tag="calleng")
    byid = {c["id"]: c for c in cells}
    dv = sorted(rep.findings)          # the chain cells also meet object-model deviations
    recs = [{"id": r["id"], "cell": {k: byid[r["id"]][k] for k in ("form", "kind", "ret", "via")}, "obs": r["obs"], "dv": dv}
            for r in results]
    verdicts, st, tr, wall = tlc_judge(pid, "C08", recs, CALL_JUDGE_CFG, tag="calljudge",
                                         shards=min(16, max(2, len(recs) // 250)))
    rep.add_judge(len(recs), st, tr)
    if len(verdicts) != len(recs):
        raise Machinery("call-form judge returned %d verdicts for %d cells" % (len(verdicts), len(recs)))
    for v in verdicts:
        c = byid[v["id"]]
        if c["form"] == "key":
            label = "key kind %s (%s, name %r) written by %s, then %s" % (c["kind"], drv.KEY_EXPR[c["kind"]], c["name"], c["via"], c["ret"])
        elif c["form"] == "re":
            label = "re-entry: %s function entered by %s, inner %s call through its self-reference" % (c["kind"], c["via"], c["ret"])
        elif c["form"] == "bc":
            label = "bind chain %s over a %s function (digits: arguments bound per level), called by %s" % (c["via"], c["kind"], c["ret"])
        elif c["form"] == "tv":
            label = "this-value %s through %s x kind %s" % (c["ret"], c["via"], c["kind"])
        else:
            label = "call form %s x kind %s%s" % (c["form"], c["kind"], (" return " + c["ret"]) if c.get("ret") else "")
        for m in v["mis"]:
            rep.mismatch(label + " : " + m["aspect"], {"expected": m["exp"], "actual": m["act"], "cell": c, "source": v.get("src", "")},
                         dev=m["dev"] if m["v"] == "known" else "")
        if not v["mis"] and len(rep.samples) < 6:
            rep.sample({"cell": label, "engine": [r for r in results if r["id"] == v["id"]][0]["obs"], "verdict": "pass"})
    return len(recs)


def run(rep):
    if os.environ.get("C08_PARTS") == "cells":       # scratch runs (mutant trials on the cell tables alone); never the recorded evidence
        rep.notes["phase_wall_s"] = {}
        rep.notes["observations_judged"] = 0
        rep.evaluations = part_callforms(rep)
        rep.exhaustive = False
        return
    n1 = part_histories(rep)
    t0 = time.time()
    n2 = part_callforms(rep)
    rep.notes["phase_wall_s"]["call_forms"] = round(time.time() - t0, 1)
    rep.evaluations = rep.notes["observations_judged"] + n2
    rep.exhaustive = True
    rep.notes["rule"] = ("one trace per history (distinct operation sequences), every recorded observation judged; "
                         "one record per call-form cell")
    rep.assumptions += [
        "ObjModel.tla transcribes OrdinaryGet/OrdinarySet/[[Delete]]/[[DefineOwnProperty]]/[[SetPrototypeOf]] for ordinary objects with "
        "all attributes true (DESIGN 4.4(5)); for-in enumerates own keys only (documented restriction)",
        "objects mixing integer-like and other keys are compared as sets for enumeration (DESIGN 4.4(2))",
        "the driver parses identical source text once per child process (setup script and observer calls)",
    ]
