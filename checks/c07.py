"""C07 - exceptions unwind to the right handler; finally runs exactly once (DESIGN 5/C07).

Families of spec/C07.tla (throw site x handler placement x intermediate try x expression context; one try in
a loop with every exit kind in try / catch / finally; error objects; where the faulting node stands in its statement;
programs of n rounds of throw-and-catch in one evaluation, n up to more than the engine's nesting budget; several throw sites in
same-named functions of one evaluation, each reporting its own location) are enumerated by TLC on the reference
machine (FinallyOnce, TryAccounting, KontWF, CatchGetsThrown on every state / transition), replayed into the
engine and judged by TLC.  Every program that reports locations is also rendered k lines lower and k columns to
the right (k in {1, 7}); TLC checks that the reported locations shift by exactly k.
"""
import os, random
from harness import tlc
from harness.common import Machinery
from checks import c05, c05_gen

ENUM_CFG = ("INIT C07EnumInit\nNEXT C07EnumNext\nCONSTRAINT C07EnumEmit\nINVARIANT Invariants\nINVARIANT EnumTerminates\n"
            "PROPERTY LogAppendOnly\nPROPERTY CatchGetsThrown\nCHECK_DEADLOCK FALSE\n")
# records of family RP are marked `rounds`: C07JudgeNext runs them k steps per transition under the larger step bound
JUDGE_NEXT = "NEXT C07JudgeNext"
SHIFT_CFG = "INIT JudgeInit\nNEXT MachineNext\nCONSTRAINT ShiftEmit\nINVARIANT Invariants\nCHECK_DEADLOCK FALSE\n"


def reports_locations(prog):
    """does the program read lineNumber / columnNumber?  (syntactic: decides which programs are re-rendered shifted)"""
    def walk(x):
        if isinstance(x, dict):
            if x.get("e") == "str" and x.get("s") in ("lineNumber", "columnNumber"):
                return True
            return any(walk(v) for v in x.values())
        if isinstance(x, list):
            return any(walk(v) for v in x)
        return False
    return walk(prog)


def judge(rep, recs):
    """c05.judge (three-way verdict, TLC decides) with C07's transition relation"""
    saved = (c05.JUDGE_REF_CFG, c05.JUDGE_ASIS_CFG)
    c05.JUDGE_REF_CFG, c05.JUDGE_ASIS_CFG = (x.replace("NEXT MachineNext", JUDGE_NEXT) for x in saved)
    try:
        return c05.judge(rep, "C07", recs, enumerated=False)
    finally:
        c05.JUDGE_REF_CFG, c05.JUDGE_ASIS_CFG = saved


def run(rep):
    fams = os.environ.get("C07_FAMS")
    cases = c05.enumerate_programs(rep, "C07", rep.tier, cfg=ENUM_CFG, env={"FAMS": fams or "TS FO ER EL RP ML CT"})
    if len(cases) < 300 and not fams:
        raise Machinery("enumeration produced only %d programs" % len(cases))
    cnt = {}
    for c in cases:
        cnt[c["fam"]] = cnt.get(c["fam"], 0) + 1
    rep.spaces.append({"space": "C07 program families (TLC-enumerated): " + ", ".join("%s=%d" % kv for kv in sorted(cnt.items())),
                       "cases": len(cases), "complete": True})
    # shifted renderings of the programs that report locations
    n = len(cases)
    shifted = []
    for c in cases:
        if reports_locations(c["prog"]):
            for k in (1, 7):
                shifted.append({"id": "%s+%d" % (c["id"], k), "fam": c["fam"], "par": dict(c["par"], shift=k), "prog": c["prog"],
                                "dl": k, "dc": k, "base": c["id"], "k": k})
    # seeded random programs with throws, try/catch/finally and callbacks (same generator as C05, other seed stream)
    nrand = int(os.environ.get("C07_NRAND", "200" if rep.tier == "quick" else "3000"))
    rnd = random.Random(rep.seed * 7919 + 7)
    rcases = [{"id": "r%d" % i, "fam": "RND", "par": {"seed": rep.seed, "n": i}, "prog": c05_gen.random_program(rnd, throwy=True)}
              for i in range(nrand)]
    allc = cases + shifted + rcases
    results = c05.run_engine(rep, allc)
    recs = [{"id": c["id"], "prog": c["prog"], "log": results[c["id"]]["log"], "out": results[c["id"]]["out"],
             "pos": results[c["id"]]["pos"]} for c in allc]
    for c, r in zip(allc, recs):
        if c["fam"] == "RP":
            r["rounds"] = True
    verdicts = judge(rep, recs)
    for c in cases + shifted:
        if verdicts[c["id"]]["v"] == "skip":
            raise Machinery("reference machine could not run an enumerated program (%s): %s" % (verdicts[c["id"]].get("why"), c["par"]))
    c05.report(rep, allc, results, verdicts)
    # code -> spec: instruction traces of the enumerated programs against the JsVM throw rule (JsVM_Trace)
    # (programs of many rounds are left out here: their instruction traces exceed the trace driver's event limit)
    c05.trace_stage(rep, [c for c in cases if not (c["fam"] == "RP" and c["par"]["n"] > 4)], int(os.environ.get("C07_NTRACE", "300" if rep.tier == "quick" else "2000")))
    # shift law, judged on pairs (base rendering, shifted rendering)
    srecs = []
    for c in shifted:
        b, s = results[c["base"]], results[c["id"]]
        srecs.append({"id": c["id"], "prog": c["prog"], "devs": [], "k": c["k"],
                      "base": {"log": b["log"], "out": b["out"]}, "shifted": {"log": s["log"], "out": s["out"]}})
    if srecs:
        sv, st, tr, wall = tlc.judge(rep.pid, "C07", srecs, SHIFT_CFG, shards=min(c05.SHARDS, max(1, len(srecs) // 25)), tag="judge_shift")
        rep.add_judge(len(srecs), st, tr)
        got = {v["id"]: v for v in sv}
        if len(got) != len(srecs):
            raise Machinery("shift judge returned %d verdicts for %d records" % (len(got), len(srecs)))
        byid = {c["id"]: c for c in shifted}
        for sid, v in sorted(got.items()):
            if not v["ok"] and verdicts[sid]["v"] == "pass" and verdicts[byid[sid]["base"]]["v"] == "pass":
                # both renderings agree with the reference yet differ by something else than k: cannot happen
                raise Machinery("shift law and per-rendering verdicts disagree on %s" % sid)
            if not v["ok"] and verdicts[sid]["v"] == "known" and verdicts[byid[sid]["base"]]["v"] in ("known", "pass"):
                continue                      # explained by the recorded finding already reported for this program
            if not v["ok"] and not (verdicts[sid]["v"] == "violation" or verdicts[byid[sid]["base"]]["v"] == "violation"):
                rep.mismatch("shift law " + c05.key(byid[sid]["par"]), {"case": byid[sid]["par"], "k": byid[sid]["k"],
                             "base": results[byid[sid]["base"]]["log"], "shifted": results[sid]["log"]}, dev="")
        rep.spaces.append({"space": "shift law: programs reporting locations x k in {1, 7}", "cases": len(srecs), "complete": True})
    rverdicts = {c["id"]: verdicts[c["id"]] for c in rcases}
    skipped = sum(1 for v in rverdicts.values() if v["v"] == "skip")
    if nrand and skipped * 3 > nrand:
        raise Machinery("%d of %d random programs fall outside the step bound" % (skipped, nrand))
    rep.spaces.append({"space": "seeded random programs rich in throw / try / finally / callbacks", "cases": nrand,
                       "judged": nrand - skipped, "complete": False})
    rep.evaluations = len(recs) + len(srecs)
    rep.exhaustive = True
    rep.assumptions += ["MiniJS.tla is the ECMAScript strict-mode semantics of the fragment (DESIGN 4.2, 4.4)",
                        "a reported location is right if it is the position of the faulting node or of the statement containing it",
                        "the JSError of an uncaught throw is judged by containing the thrown value's text / message, not by its name"]
