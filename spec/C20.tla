-------------------------------- MODULE C20 --------------------------------
(* C20 - lastIndex protocol and regex-driven string methods.                                   *)
(*   Enum   : the history space (operation alphabet, length, catalogue of patterns x flags x     *)
(*            subjects) and the string-method grid, printed as JSON.                            *)
(*   Trace  : a TOTAL trace specification: one behaviour per recorded history, one step per     *)
(*            event; a step that disagrees with RegexApi records its clause (and the named      *)
(*            deviation that explains it, if one does), adopts the observed lastIndex and       *)
(*            keeps going.                                                                      *)
(*   Judge  : string-method cases (match / replace / replaceAll / split / search) judged        *)
(*            against RegexApi.                                                                 *)
(* The protocol's own invariants are model-checked in LastIndex.tla.                            *)
EXTENDS RegexApi, Json, IOUtils

Tier  == IF "TIER" \in DOMAIN IOEnv THEN IOEnv.TIER ELSE "quick"
Quick == Tier = "quick"
HistLen == IF Quick THEN 3 ELSE 4
HistSubjects == IF Quick THEN {1, 2, 4} ELSE 1..4            \* indexes into Subjects: quick leaves out "ba"

\* ---------------- string-method grid --------------------------------------------------------------
RECURSIVE Words(_, _)
Words(alpha, n) == IF n = 0 THEN {<<>>} ELSE LET w == Words(alpha, n - 1) IN w \cup {Append(u, c) : u \in {v \in w : Len(v) = n - 1}, c \in alpha}
SmSubjects == IF Quick THEN {<<>>, <<97>>, <<98>>, <<97, 98>>, <<98, 97>>, <<97, 97>>, <<97, 97, 98>>, <<97, 98, 97>>, <<99, 97, 98>>}
              ELSE Words({97, 98, 99}, 3) \cup {<<97, 97, 98, 97>>, <<98, 97, 98, 97>>}
SmAtoms == {Chr(97), Chr(98), AnyC, Eps}
SmUnary(k, a) ==
  CASE k = 1 -> Rep(a, 0, -1, TRUE)   [] k = 2 -> Rep(a, 1, -1, TRUE)   [] k = 3 -> Rep(a, 0, 1, TRUE)
    [] k = 4 -> Rep(a, 0, -1, FALSE)  [] k = 5 -> Rep(a, 1, -1, FALSE)  [] k = 6 -> Rep(a, 0, 1, FALSE)
    [] k = 7 -> Rep(a, 2, 2, TRUE)    [] k = 8 -> Rep(a, 1, 2, TRUE)    [] k = 9 -> Grp(1, a)
    [] k = 10 -> La(FALSE, a)         [] k = 11 -> La(TRUE, a)          [] k = 12 -> Lb(FALSE, a)
    [] k = 13 -> Lb(TRUE, a)
SmPatterns ==
  SmAtoms \cup {SmUnary(k, a) : k \in 1..13, a \in SmAtoms} \cup {Cat(a, b) : a, b \in SmAtoms} \cup {Alt(a, b) : a, b \in SmAtoms}
  \cup {PatGrp, Alt(Grp(1, Chr(97)), Grp(2, Chr(98))), Cat(Grp(1, Rep(Chr(97), 0, -1, TRUE)), Grp(2, Chr(98))),
        Rep(Grp(1, Alt(Chr(97), Chr(98))), 1, -1, TRUE), Cat(Chr(97), La(FALSE, Grp(1, Chr(98))))}
SmFlags == {"", "g", "y", "gy"}
Templates == {<<>>, U("x"), U("$$"), U("$&"), U("$`"), U("$'"), U("$1"), U("$2"), U("$01"), U("$10"), U("$0"), U("$"),
              U("$$&"), U("$1$1"), U("[$&|$`|$']"), U("$3"), U("$&$&"), U("a$")}
QuickTemplates == {<<>>, U("$$"), U("$&"), U("$1"), U("$2"), U("$01"), U("$10"), U("$0"), U("[$&|$`|$']"), U("$$&"), U("$&-$&")}
\* a variant = [m |-> method, t |-> template | fn |-> replacer | lim |-> limit (-1 = undefined)], li0 = lastIndex before the call
Variants ==
  {[m |-> "match"], [m |-> "search"]}
  \cup {[m |-> "split", lim |-> n] : n \in {-1, 0, 1, 2}}
  \cup {[m |-> "replace", t |-> t] : t \in (IF Quick THEN QuickTemplates ELSE Templates)}
  \cup {[m |-> "replace", fn |-> f] : f \in FnNames}
  \cup {[m |-> "replaceAll", t |-> t] : t \in {U("x"), U("$&$1")}} \cup {[m |-> "replaceAll", fn |-> "fnArgs"]}
Li0s == {0, 1}
\* for global / sticky regexes a few variants are also called right after an exec() on the same subject, so that the engine's
\* private copy of lastIndex is not the initial one (the judge takes the lastIndex observed just before the call as pre-state)
AfterExec == {[m |-> "match"], [m |-> "search"], [m |-> "split", lim |-> -1], [m |-> "replace", t |-> U("$&")]}

\* ---------------- group-count family (Gc): the NUMBER of capture groups against the $n / $nn references ----------------
\* GetSubstitution reads `$nn` as a two-digit reference only when nn <= m (m = number of groups of the pattern) and falls back
\* to `$n` followed by an ordinary digit otherwise: what a template means depends on m.  The grid above has m <= 2, where a
\* two-digit reference with a non-zero first digit can never be in range and the fallback never finds a group either.  This
\* family enumerates m itself (up to and beyond the one-digit / two-digit border 9 | 10) x every class of `$nn` relative to m
\* x the text that follows the reference.  A variant is the same record the string-method judge already understands.
GcCounts == IF Quick THEN {3, 9, 10, 11} ELSE 1..13
GcShapes == {"flat", "optlast"}                       \* (a)(b)(c)...   |   (a)(b)...(k)?   (last group may not participate: undefined capture)
GcLetter(k) == 96 + k
GcGroup(k, opt) == IF opt THEN Rep(Grp(k, Chr(GcLetter(k))), 0, 1, TRUE) ELSE Grp(k, Chr(GcLetter(k)))
RECURSIVE GcCat(_, _, _)
GcCat(k, gn, optLast) == IF k = gn THEN GcGroup(k, optLast) ELSE Cat(GcGroup(k, FALSE), GcCat(k + 1, gn, optLast))
GcPattern(gn, sh) == GcCat(1, gn, sh = "optlast")
GcLetters(gn) == [k \in 1..gn |-> GcLetter(k)]
\* "-abc..-" (one match, text on both sides; a sticky regex matches it from lastIndex 1), the subject without its last letter
\* (flat: no match; optlast: the last capture is undefined), the letters twice (two matches of a global regex)
GcSubjects(gn) == {<<45>> \o GcLetters(gn) \o <<45>>, GcLetters(gn - 1), GcLetters(gn) \o GcLetters(gn)}
\* how GetSubstitution reads the two digits nn = r against gn groups
GcClass(gn, r) ==
  LET n == r \div 10 IN
  CASE r = 0 -> "zero: literal"
    [] r >= 1 /\ r < gn /\ n = 0 -> "two digits, leading zero, in range"
    [] r >= 1 /\ r < gn /\ n > 0 -> "two digits, in range"
    [] r >= 1 /\ r = gn -> "two digits, the last group"
    [] r = gn + 1 /\ n >= 1 /\ n <= gn -> "one past the last group: $n then a digit"
    [] r > gn + 1 /\ n >= 1 /\ n <= gn -> "beyond the groups: $n then a digit"
    [] r > gn /\ n = 0 -> "leading zero, out of range: literal"
    [] OTHER -> "first digit out of range: literal"
GcRefs(gn) == IF Quick THEN {0, 1, 9, 10, 19, 20, 99} \cup {r \in (gn - 1)..(gn + 2) : r >= 0} ELSE 0..(gn + 10) \cup {20, 30, 90, 99}
GcRef(r) == <<36, 48 + (r \div 10), 48 + (r % 10)>>                                   \* $nn
GcForms == {"bracket", "bare", "digit"}                \* [$nn] (a non-digit follows)  |  $nn (the template ends)  |  $nn1 (a digit follows)
GcT(form, r) == CASE form = "bracket" -> <<91>> \o GcRef(r) \o <<93>>  [] form = "bare" -> GcRef(r)  [] form = "digit" -> GcRef(r) \o <<49>>
GcTemplates(gn) ==
  {GcT(f, r) : f \in GcForms, r \in GcRefs(gn)}
  \cup {<<91, 36, 48 + n, 93>> : n \in {0, 1, 9} \cup {Min(gn, 9)}}                  \* [$n]
  \cup {GcRef(gn) \o GcRef(gn + 1) \o GcRef(1) \o <<36, 49>>}                           \* several references in a row
GcVariants(gn) ==
  {[m |-> "replace", t |-> t] : t \in GcTemplates(gn)}
  \cup {[m |-> "replaceAll", t |-> GcT("bracket", r)] : r \in {gn, gn + 1}}
  \cup {[m |-> "replace", fn |-> "fnArgs"], [m |-> "match"], [m |-> "split", lim |-> -1]}
\* the quick sub-grid of references contains every class that exists for its group counts
GcGridLaw(gn) == {GcClass(gn, r) : r \in GcRefs(gn)} = {GcClass(gn, r) : r \in 0..99}
\* the reference's GetSubstitution against an independent statement of the same rule (by class), all captures defined
GcSubstLaw(gn) ==
  LET caps == [k \in 1..gn |-> <<GcLetter(k)>>] IN
  \A r \in GcRefs(gn) :
    LET n == r \div 10  d == <<48 + (r % 10)>>  cl == GcClass(gn, r)
        got == GetSubstitution(GcLetters(gn), GcLetters(gn), 0, caps, GcRef(r))
    IN IF r >= 1 /\ r <= gn THEN got = caps[r]
       ELSE IF n >= 1 /\ n <= gn THEN got = caps[n] \o d
       ELSE got = GcRef(r)

\* ---------------- assertion family (Za): histories over patterns whose match depends on text it does not consume ----------
\* The history catalogue of RegexApi has six patterns; apart from ^ and $ none of them looks at text outside the characters it
\* consumes.  Whether exec / test find the matches near the END of the subject (and what they leave in lastIndex there) depends
\* on exactly that: a lookahead reads characters the pattern then consumes again (or characters after the match), a lookbehind
\* and \b read characters before lastIndex.  This family enumerates the zero-width assertions themselves: every kind of assertion
\* (positive / negative lookahead and lookbehind over a and over b, ^, $, \b, \B) x its position (before / after a consuming
\* term) x the consuming term, plus composites (a lookahead over two characters that are then consumed, two lookaheads at one
\* position, a lookahead inside a repeated group, a captured lookahead, a backreference, a counted repeat), and replays all
\* histories over exec / test / lastIndex assignments on them.  The trace specification below judges them step by step.
ZaAsserts == UNION {{[a |-> La(FALSE, Chr(c)), n |-> "lookahead", b |-> IF c = 97 THEN "over a" ELSE "over b"], [a |-> La(TRUE, Chr(c)), n |-> "negative lookahead", b |-> IF c = 97 THEN "over a" ELSE "over b"],
                     [a |-> Lb(FALSE, Chr(c)), n |-> "lookbehind", b |-> IF c = 97 THEN "over a" ELSE "over b"], [a |-> Lb(TRUE, Chr(c)), n |-> "negative lookbehind", b |-> IF c = 97 THEN "over a" ELSE "over b"]} : c \in {97, 98}}
             \cup {[a |-> Bol, n |-> "^", b |-> "position"], [a |-> Eol, n |-> "$", b |-> "position"], [a |-> Wb, n |-> "\\b", b |-> "position"], [a |-> Nwb, n |-> "\\B", b |-> "position"]}
ZaAB == Cat(Chr(97), Chr(98))
ZaComposites ==
  {[ast |-> Cat(La(FALSE, ZaAB), ZaAB), cls |-> <<"composite", "", "lookahead over two characters, both consumed">>],                     \* (?=ab)ab
   [ast |-> Cat(La(FALSE, Chr(97)), Cat(La(FALSE, Cat(AnyC, Chr(98))), Cat(AnyC, AnyC))), cls |-> <<"composite", "", "two lookaheads at one position">>],  \* (?=a)(?=.b)..
   [ast |-> Rep(Ncg(Cat(La(FALSE, Chr(97)), Chr(97))), 1, -1, TRUE), cls |-> <<"composite", "", "lookahead inside a repeated group">>],    \* (?:(?=a)a)+
   [ast |-> Cat(La(FALSE, Grp(1, Chr(97))), AnyC), cls |-> <<"composite", "", "captured lookahead">>],                                     \* (?=(a)).
   [ast |-> Cat(Grp(1, Chr(97)), Bref(1)), cls |-> <<"composite", "", "backreference">>],                                                  \* (a)\1
   [ast |-> Rep(Chr(97), 2, 2, TRUE), cls |-> <<"composite", "", "counted repeat">>]}                                                      \* a{2}
ZaOf(cons) ==
  {[ast |-> Cat(z.a, c), cls |-> <<z.n, "before the consumed text", z.b>>] : z \in ZaAsserts, c \in cons}
  \cup {[ast |-> Cat(c, z.a), cls |-> <<z.n, "after the consumed text", z.b>>] : z \in ZaAsserts, c \in cons}
  \cup ZaComposites
ZaFull == ZaOf({Chr(97), AnyC})
ZaPatterns == IF Quick THEN ZaOf({Chr(97)}) ELSE ZaFull
\* the quick sub-grid contains every class (kind of assertion x position x what it looks at) of the full family
ZaGridLaw == {z.cls : z \in ZaPatterns} = {z.cls : z \in ZaFull}
ZaOpNames == IF Quick THEN {"exec", "test", "set1", "set2", "setLen"} ELSE {"exec", "test", "read", "set0", "set1", "set2", "setLen"}
ZaOps == {k \in 1..Len(Ops) : Ops[k] \in ZaOpNames}                   \* indexes into Ops
ZaLen == 3
ZaFlags == 1..4                                                        \* indexes into FlagSets: '' g y gy
ZaSubjects == IF Quick THEN <<<<97, 97>>, <<97, 98, 97>>, <<98, 97, 97, 98>>>>                                   \* aa, aba, baab
              ELSE <<<<97, 97>>, <<97, 98, 97>>, <<98, 97, 97, 98>>, <<97>>, <<97, 98>>, <<97, 98, 97, 98>>>>   \* + a, ab, abab
\* law of the reference over the family: the exec loop of a global regex skips no match - every position where an attempt of the
\* pattern succeeds lies inside (or at the start of) one of the matches the loop reports, and the loop ends with lastIndex 0
ZaNoSkipLaw(a) ==
  \A k \in 1..Len(ZaSubjects) :
    LET s == ZaSubjects[k]
        all == GlobalResults(Rx(a, NoFlags, TRUE, FALSE), s, VInt(0), {}, <<>>)
    IN /\ all.li = VInt(0)
       /\ \A p \in 0..Len(s) :
            Attempt(a, s, NoFlags, p, {}).ok =>
              \E j \in 1..Len(all.rs) : all.rs[j].i = p \/ (all.rs[j].i < p /\ p < all.rs[j].i + Len(all.rs[j].g[1]))

\* ---------------- Enum ---------------------------------------------------------------------------------
VARIABLES ph, cur, tid, step, mli, bad
tvars == <<ph, cur, tid, step, mli, bad>>
EnumInit == ph = "start" /\ cur = <<>> /\ tid = 0 /\ step = 0 /\ mli = VInt(0) /\ bad = <<>>
Idle == UNCHANGED <<tid, step, mli, bad>>
EnumNext ==
  /\ ph = "start" /\ Idle
  /\ \/ /\ ph' = "space"
        /\ cur' = [kind |-> "histories", ops |-> Ops, len |-> HistLen, subjects |-> HistSubjects,
                   assign |-> [s \in 1..Len(Subjects) |-> [k \in 1..Len(Ops) |-> IF Ops[k] \in AssignOps THEN AssignVal(Ops[k], Len(Subjects[s])) ELSE Undef]]]
     \/ \E p \in 1..Len(Patterns) : \E fl \in 1..Len(FlagSets) :
          /\ ph' = "cfg"
          /\ cur' = [kind |-> "cfg", p |-> p, fl |-> fl, flags |-> FlagSets[fl], src |-> Render(Patterns[p]), subjects |-> Subjects]
     \/ \E a \in SmPatterns :
          /\ ph' = "smpat" /\ cur' = [kind |-> "smpat", ast |-> a, src |-> Render(a)]
     \/ \E gn \in GcCounts : \E sh \in GcShapes :
          /\ ph' = "gcpat"
          /\ cur' = [kind |-> "gcpat", gn |-> gn, shape |-> sh, ast |-> GcPattern(gn, sh), src |-> Render(GcPattern(gn, sh)),
                     subjects |-> GcSubjects(gn), variants |-> GcVariants(gn),
                     classes |-> {GcClass(gn, r) : r \in GcRefs(gn)}]
     \/ /\ ph' = "zaspace"
        /\ cur' = [kind |-> "zaspace", ops |-> ZaOps, len |-> ZaLen, flags |-> ZaFlags, subjects |-> ZaSubjects,
                   classes |-> {z.cls : z \in ZaPatterns},
                   assign |-> [s \in 1..Len(ZaSubjects) |-> [k \in 1..Len(Ops) |-> IF Ops[k] \in AssignOps THEN AssignVal(Ops[k], Len(ZaSubjects[s])) ELSE Undef]]]
     \/ \E z \in ZaPatterns :
          /\ ph' = "zapat" /\ cur' = [kind |-> "zapat", ast |-> z.ast, src |-> Render(z.ast), cls |-> z.cls]
     \/ /\ ph' = "smgrid"
        /\ cur' = [kind |-> "smgrid", flags |-> SmFlags, subjects |-> SmSubjects, variants |-> Variants, li0 |-> Li0s, afterexec |-> AfterExec]
EnumEmit == ph = "start" \/ PrintT(ToJson(cur))
\* laws of the reference API evaluated while enumerating (INVARIANT in the Enum configuration)
SmLaw(a) ==
  \A s \in Words({97, 98}, 2) \cup {<<97, 98, 97>>} :
    LET g == Rx(a, NoFlags, TRUE, FALSE)  ng == Rx(a, NoFlags, FALSE, FALSE)
        all == GlobalResults(g, s, VInt(0), {}, <<>>)
        idn == ReplaceM(g, s, VInt(0), [t |-> U("$&")], {})
        sp == SplitM2(ng, s, VInt(0), Lim, {})
    IN /\ idn.v.u = s /\ idn.li = VInt(0)                                            \* replacing every match by itself is the identity
       /\ all.li = VInt(0)
       /\ \A k \in 1..(Len(all.rs) - 1) : all.rs[k].i + Len(all.rs[k].g[1]) <= all.rs[k + 1].i /\ all.rs[k].i < all.rs[k + 1].i   \* matches in order, disjoint
       /\ ReplaceM(ng, s, VInt(0), [t |-> U("$`$&$'")], {}).v.u =
            (LET r == ExecAt(ng, s, VInt(0), {}) IN IF r.res.k = "null" THEN s ELSE Slice(s, 0, r.res.i) \o s \o Slice(s, r.e, Len(s)))
       /\ SearchM(ng, s, VInt(5), {}).li = VInt(5)
       /\ (NCaps(a) = 0 => Flatten([k \in 1..Len(sp.v.e) |-> sp.v.e[k].u]) = ReplaceM(g, s, VInt(0), [t |-> <<>>], {}).v.u
                           \/ sp.v.e = <<>>)                                          \* split pieces = subject with the separators removed
       /\ SplitM2(ng, s, VInt(0), 1, {}).v.e = SubSeq(sp.v.e, 1, Min(1, Len(sp.v.e)))
LawsHold == /\ ph # "smpat" \/ SmLaw(cur.ast)
            /\ ph # "gcpat" \/ (GcGridLaw(cur.gn) /\ GcSubstLaw(cur.gn))
            /\ ph # "zaspace" \/ ZaGridLaw
            /\ ph # "zapat" \/ ZaNoSkipLaw(cur.ast)

\* ---------------- Trace: total trace specification over recorded histories ------------------------------
Recs == ndJsonDeserialize(IOEnv.OBS_FILE)
\* a history record: [id, p, fl, s (indexes into the catalogue), ops (indexes into Ops),
\*                    obs: per step [out ("ok" | "host" | "jserror" ...), ty, res, li]]
\*   res: exec -> match observation; test -> [k |-> "bool", b]; read -> [k |-> "val", v]; assignment -> [k |-> "none"]
ApiDevs(rxv) == (IF rxv.g /\ ~rxv.y THEN {"Dev_ExecEmptyAdvance"} ELSE {}) \cup (IF rxv.y /\ ~rxv.g THEN {"Dev_TestStickyNoUpdate"} ELSE {})
HeldAsFloat(v) == "f" \in DOMAIN v /\ v.f          \* the driver marks a number the engine holds as a Python float
SameRes(op, act, exp) ==
  IF op = "exec" THEN act.k = exp.k /\ (act.k = "m" => act.i = exp.i /\ act.g = exp.g)
  ELSE act.k = "bool" /\ act.b = (exp.k = "m")
\* verdict of one step: [ok, clause, dev, exp]
StepVerdict(rxv, s, op, pre, ev) ==
  IF op = "read" THEN
       IF ev.out = "ok" /\ ev.res.k = "val" /\ SameVal(ev.res.v, pre) /\ SameVal(ev.li, pre) THEN [ok |-> TRUE, clause |-> "", dev |-> "", exp |-> pre]
       ELSE [ok |-> FALSE, clause |-> "read", dev |-> "", exp |-> pre]
  ELSE IF op \in AssignOps THEN
       LET v == AssignVal(op, Len(s)) IN
       IF ev.out = "ok" /\ SameVal(ev.li, v) THEN [ok |-> TRUE, clause |-> "", dev |-> "", exp |-> v]
       ELSE [ok |-> FALSE, clause |-> "assign", dev |-> "", exp |-> v]
  ELSE IF ~LiSupported(pre) THEN [ok |-> FALSE, clause |-> "unsupported-lastIndex", dev |-> "", exp |-> pre]
  ELSE
    LET ref == ExecAt(rxv, s, pre, {})
        uses == rxv.g \/ rxv.y
        good == ev.out = "ok" /\ SameRes(op, ev.res, ref.res) /\ SameVal(ev.li, ref.li)
        clause == IF ev.out # "ok" THEN "outcome" ELSE IF ~SameRes(op, ev.res, ref.res) THEN "result" ELSE "lastIndex"
        exp == [res |-> ref.res, li |-> ref.li]
    IN IF good THEN [ok |-> TRUE, clause |-> "", dev |-> "", exp |-> exp]
       ELSE
         LET special ==
               IF uses /\ (~IsIntVal(pre) \/ HeldAsFloat(pre)) /\ ev.out = "host" /\ ev.ty = "TypeError" /\ SameVal(ev.li, pre)
               THEN \* as-is: the raw value (1.5, "1", or an integer held as a float) reaches range() / string indexing
                    \* (values.py JSRegExp.exec -> regex/vm.py search, _execute): host TypeError, nothing written
                    "Dev_LastIndexNotInteger"
               ELSE IF uses /\ IsIntVal(pre) /\ IntOf(pre) < 0 /\ (ev.out = "ok" \/ (ev.out = "host" /\ ev.ty = "IndexError"))
               THEN \* as-is: a negative start position indexes the subject from its end (regex/vm.py _execute): opaque on this input class
                    "Dev_LastIndexNegative"
               ELSE IF rxv.y /\ IsIntVal(pre) /\ IntOf(pre) > Len(s) /\ (ev.out = "ok" \/ (ev.out = "host" /\ ev.ty = "IndexError"))
               THEN \* as-is: RegexVM.match is started beyond the end of the subject; patterns that need no character match there
                    "Dev_StickyBeyondEnd"
               ELSE ""
             cands == {d \in SUBSET (ApiDevs(rxv) \cup Applicable(rxv.ast, rxv.f)) : d # {}}
             hit == IF ev.out # "ok" THEN {}
                    ELSE {d \in cands : LET r == ExecAsIs(rxv, s, pre, d, op = "test") IN SameRes(op, ev.res, r.res) /\ SameVal(ev.li, r.li)}
         IN [ok |-> FALSE, clause |-> clause, exp |-> exp,
             dev |-> IF hit # {} THEN LET d == CHOOSE d \in hit : \A e \in hit : Cardinality(d) <= Cardinality(e) IN CHOOSE x \in d : TRUE
                     ELSE special]
\* a history of the catalogue names its pattern and subject by index (p, s); a history of the assertion family carries them (ast, subj)
HistRx(r) == IF "ast" \in DOMAIN r
             THEN LET fs == FlagSets[r.fl] IN Rx(r.ast, Flags(HasFlag(fs, "i"), HasFlag(fs, "m"), FALSE), HasFlag(fs, "g"), HasFlag(fs, "y"))
             ELSE RxOf(r.p, FlagSets[r.fl])
HistSubject(r) == IF "subj" \in DOMAIN r THEN r.subj ELSE Subjects[r.s]
TraceInit == /\ tid \in 1..Len(Recs) /\ step = 1 /\ mli = VInt(0) /\ bad = <<>> /\ ph = "trace" /\ cur = <<>>
TraceNext ==
  /\ step <= Len(Recs[tid].ops)
  /\ LET r == Recs[tid]
         ev == r.obs[step]
         v == StepVerdict(HistRx(r), HistSubject(r), Ops[r.ops[step]], mli, ev)
     IN /\ mli' = ev.li                                       \* adopt what the engine shows (equal to the prediction on a good step)
        /\ bad' = IF v.ok THEN bad ELSE Append(bad, [at |-> step, clause |-> v.clause, dev |-> v.dev, exp |-> v.exp])
  /\ step' = step + 1 /\ UNCHANGED <<tid, ph, cur>>
TraceDone == step = Len(Recs[tid].ops) + 1
TraceReport == ~TraceDone \/ PrintT(ToJson([id |-> Recs[tid].id, n |-> step - 1, bad |-> bad]))

\* ---------------- Judge: string methods ------------------------------------------------------------------
\* a record: [id, ast, flags (text), s, li0, var (variant), out: [o, v, idx, li] | [o |-> "throw", cls] | [o |-> "host", ty, at]]
SmRx(r) == Rx(r.ast, NoFlags, HasFlag(r.flags, "g"), HasFlag(r.flags, "y"))
ReplOf(var) == IF "fn" \in DOMAIN var THEN [fn |-> var.fn] ELSE [t |-> var.t]
RefCall(rxv, s, li, var, devs) ==
  CASE var.m = "match" -> MatchM(rxv, s, li, devs)
    [] var.m = "search" -> SearchM(rxv, s, li, devs)
    [] var.m = "split" -> SplitM2(rxv, s, li, IF var.lim = -1 THEN Lim ELSE var.lim, devs)
    [] var.m = "replace" -> ReplaceM(rxv, s, li, ReplOf(var), devs)
    [] var.m = "replaceAll" -> ReplaceAllM(rxv, s, li, ReplOf(var), devs)
\* the engine's own loops (vm.py _make_string_method): sticky and lastIndex ignored, template by successive replaces, split loop
AsIsCall(rxv, s, li, var, devs) ==
  LET ig == "Dev_StrMethodsIgnoreState" \in devs
      rx1 == IF ig THEN Unsticky(rxv) ELSE rxv
      li1 == IF ig THEN VInt(0) ELSE li
      base == CASE var.m = "split" /\ "Dev_SplitLoop" \in devs ->
                     LET ps == IF s = <<>> /\ FALSE THEN <<>> ELSE SplitAsIs(rx1, s, 0, 0, devs, <<>>)
                         lim == IF var.lim = -1 THEN Len(ps) ELSE Min(var.lim, Len(ps))
                     IN [o |-> "value", v |-> VArr(SubSeq(ps, 1, lim)), idx |-> -1, li |-> li]
                [] var.m \in {"replace", "replaceAll"} /\ "t" \in DOMAIN var /\ "Dev_ReplaceTemplate" \in devs /\ (var.m = "replace" \/ rxv.g) ->
                     LET all == IF rx1.g THEN GlobalResults(rx1, s, VInt(0), devs, <<>>)
                                ELSE LET r == ExecAt(rx1, s, li1, devs) IN [rs |-> IF r.res.k = "null" THEN <<>> ELSE <<r.res>>, li |-> r.li]
                     IN [o |-> "value", v |-> VStr(AccumulateAsIs(s, all.rs, 1, 0, var.t, <<>>)), idx |-> -1, li |-> all.li]
                [] OTHER -> RefCall(rx1, s, li1, var, devs)
  IN IF ig THEN [base EXCEPT !.li = li] ELSE base
SmApiDevs(rxv, var) ==
  {"Dev_StrMethodsIgnoreState"} \cup (IF var.m = "split" THEN {"Dev_SplitLoop"} ELSE {})
  \cup (IF var.m \in {"replace", "replaceAll"} /\ "t" \in DOMAIN var THEN {"Dev_ReplaceTemplate"} ELSE {})
SameCall(act, exp) ==
  /\ act.o = exp.o
  /\ IF exp.o = "value" THEN SameVal(act.v, exp.v) /\ act.idx = exp.idx /\ SameVal(act.li, exp.li)
     ELSE act.cls = exp.v.u
SmVerdict(r) ==
  LET rxv == SmRx(r)  li == VInt(r.li1)          \* li1: lastIndex observed just before the call (= li0 unless an exec() came first)
      ref == RefCall(rxv, r.s, li, r.var, {})
      act == IF r.out.o = "throw" THEN [o |-> "throw", cls |-> U(r.out.cls)] ELSE r.out
  IN IF r.out.o \in {"value", "throw"} /\ SameCall(act, ref) THEN [id |-> r.id, v |-> "pass", dev |-> "", exp |-> ref]
     ELSE IF r.out.o \notin {"value", "throw"} THEN [id |-> r.id, v |-> "mismatch", dev |-> "", exp |-> ref]
     ELSE IF "fn" \in DOMAIN r.var /\ r.out.o = "value" /\ r.out.v.k = "str" /\ (r.var.m = "replace" \/ rxv.g)
          THEN \* as-is: vm.py replace does to_string(args[1]): a function replacer is never called (opaque on this input class)
               [id |-> r.id, v |-> "mismatch", dev |-> "Dev_FnReplacer", exp |-> ref]
     ELSE LET cands == {d \in SUBSET (SmApiDevs(rxv, r.var) \cup Applicable(r.ast, NoFlags)) : d # {}}
              hit == {d \in cands : SameCall(act, AsIsCall(rxv, r.s, li, r.var, d))}
          IN IF hit # {} THEN [id |-> r.id, v |-> "mismatch", exp |-> ref,
                               dev |-> LET d == CHOOSE d \in hit : \A e \in hit : Cardinality(d) <= Cardinality(e) IN CHOOSE x \in d : TRUE]
             ELSE IF SubBad(r.ast, NoFlags, "la") THEN [id |-> r.id, v |-> "mismatch", dev |-> "Dev_LaSubmatcher", exp |-> ref]
             ELSE IF SubBad(r.ast, NoFlags, "lb") THEN [id |-> r.id, v |-> "mismatch", dev |-> "Dev_LbSubmatcher", exp |-> ref]
             ELSE [id |-> r.id, v |-> "mismatch", dev |-> "", exp |-> ref]
JudgeInit == /\ tid \in 1..Len(Recs) /\ step = 0 /\ mli = VInt(0) /\ bad = <<>> /\ ph = "judge" /\ cur = <<>>
             /\ LET v == SmVerdict(Recs[tid]) IN PrintT(ToJson(IF v.v = "pass" THEN [id |-> v.id, v |-> "pass"] ELSE v))
JudgeNext == UNCHANGED tvars
=============================================================================
