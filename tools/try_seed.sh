#!/bin/bash
# tools/try_seed.sh <Cxx> <seedout dir> <k> [tier]  -- confirm a seeded change and run the check against it
# uses a dedicated worktree $MT (never /repo itself, other builders are reading it)
P=$1; D=$2; K=$3; TIER=${4:-quick}
# LANE: several confirmations may run side by side, each lane has its own mutant tree and its own copy of /verif
L=${LANE:-}; MT=/tmp/lead_mut_tree$L; VC=/root/scratch/verif_mut$L
cd /repo && { [ -d $MT ] || git worktree add -q --detach $MT HEAD; }
cd $MT && git reset -q --hard; git clean -fdq; git checkout -q --detach main
echo "== demo on clean tree:"; PYTHONPATH=$MT/src /venv/bin/python $D/$K/demo.py > /root/scratch/demo_clean$L.out 2>&1; echo "exit $?"
git apply $D/$K/patch.diff || { echo "PATCH DOES NOT APPLY"; git reset -q --hard; exit 3; }
echo "== baseline with change:"; python3 /verif/tools/baseline_check.py $MT
echo "== demo with change:"; PYTHONPATH=$MT/src /venv/bin/python $D/$K/demo.py > /root/scratch/demo_mut$L.out 2>&1; echo "exit $?"
echo "== check $P ($TIER) against the change:"
# the check runs from a copy of /verif so that evidence/ and .work/ of /verif itself are not touched
rsync -a --delete --exclude .work --exclude .git /verif/ $VC/
cd $VC && VERIF_REPO=$MT ./check $P --tier $TIER --keep 2>&1 | grep -v '^"{' | grep "VIOLATION\|KNOWN\|$P $TIER\|MACHINERY" | cut -c1-200 | tail -6
cd $MT && git checkout -q -- . && git clean -fdq
