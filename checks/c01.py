"""C01 - the time limit bounds every evaluation (DESIGN 5/C01)."""
import json
from harness import tlc, engine
from harness.common import Machinery

TL_CFG = """CONSTANTS PV = %d
 PR = %d
 D = %d
 MaxNest = %d
 FreshVm2 = %s
 FreshAttempt = %s
 Catchable = %s
 Unpolled = %s
SPECIFICATION Spec
INVARIANT LateBound
INVARIANT NeverCaught
INVARIANT NoLateFinish
INVARIANT TypeOK
PROPERTY Termination
PROPERTY StaysStopped
CHECK_DEADLOCK FALSE
"""
ENUM_CFG = "INIT EnumInit\nNEXT EnumNext\nCONSTRAINT EnumEmit\nCHECK_DEADLOCK FALSE\n"
JUDGE_CFG = "INIT JudgeInit\nNEXT JudgeNext\nCHECK_DEADLOCK FALSE\n"


def name(c):
    return "%s@%s/%s T=%s M=%s%s%s" % (c["loop"], c["place"], c["wrap"], c["t"], c["m"], " finite" if c["finite"] else "",
                                       "" if c.get("prof", "uniform") == "uniform" else " " + c["prof"])


def run(rep):
    quick = rep.tier == "quick"
    # 1. the enforcement model: all nestings up to MaxNest, every position of the deadline relative to every counter
    grid = [(3, 2, 5, 4)] if quick else [(3, 2, 5, 4), (4, 3, 7, 5), (2, 2, 1, 4)]
    for pv, pr, d, nest in grid:
        r = tlc.run(rep.pid, "TimeLimit", TL_CFG % (pv, pr, d, nest, "FALSE", "FALSE", "FALSE", "{}"), timeout=1200,
                    tag="tl_%d_%d_%d" % (pv, pr, d), coverage=True)
        rep.add_tlc("TimeLimit(PV=%d,PR=%d,D=%d,nest<=%d)" % (pv, pr, d, nest), r)
    # non-vacuity: each pre-fix behaviour must violate its invariant
    for dev, inv in (("FreshVm2", "LateBound"), ("FreshAttempt", "LateBound"), ("Catchable", "NeverCaught")):
        flags = {k: ("TRUE" if k == dev else "FALSE") for k in ("FreshVm2", "FreshAttempt", "Catchable")}
        b = tlc.run(rep.pid, "TimeLimit", TL_CFG % (3, 2, 5, 4, flags["FreshVm2"], flags["FreshAttempt"], flags["Catchable"], "{}"),
                    timeout=600, tag="tl_dev_" + dev)
        if inv not in b.violated:
            raise Machinery("TimeLimit: deviation %s does not violate %s (vacuous invariant)" % (dev, inv))
    # a "safepoint" interpreter that skips the limit check before one kind of control transfer: both the bound and
    # termination must fail (this is why C01.tla has one keep-running construct per kind of transfer)
    for kind in ("new", "method", "iter"):
        b = tlc.run(rep.pid, "TimeLimit", TL_CFG % (3, 2, 5, 4, "FALSE", "FALSE", "FALSE", '{"%s"}' % kind), timeout=600, tag="tl_unpolled_" + kind)
        if "LateBound" not in b.violated:
            raise Machinery("TimeLimit: Unpolled={%s} does not violate LateBound (vacuous invariant)" % kind)
    rep.notes["model_deviations_detected"] = ["FreshVm2", "FreshAttempt", "Catchable", "Unpolled={new}", "Unpolled={method}", "Unpolled={iter}"]
    # 2. enumerate cases
    en = tlc.run(rep.pid, "C01", ENUM_CFG, env={"TIER": rep.tier}, timeout=900, tag="enum")
    rep.add_tlc("C01.Enum", en)
    seen, cases = set(), []
    for c in en.records:
        k = json.dumps(c, sort_keys=True)
        if k in seen:
            continue
        seen.add(k)
        c["id"] = len(cases)
        cases.append(c)
    if len(cases) < 200:
        raise Machinery("too few cases: %d" % len(cases))
    rep.spaces.append({"space": "keep-running construct x place x wrapper x T x memory_limit x step-cost profile (+ finite twins)", "cases": len(cases), "complete": True})
    results = engine.run_cases(rep.pid, cases, driver="checks.c01_driver:driver", timeout=3000)
    recs = [{k: r[k] for k in ("id", "finite", "o", "lateV", "lateR", "steps", "t", "isnum")} for r in results]
    verdicts, st, tr, _ = tlc.judge(rep.pid, "C01", recs, JUDGE_CFG, shards=8)
    rep.add_judge(len(recs), st, tr)
    byid = {r["id"]: r for r in results}
    cmap = {c["id"]: c for c in cases}
    worstV = worstR = 0
    for v in verdicts:
        r, c = byid[v["id"]], cmap[v["id"]]
        if not r["finite"] and r["o"] == "timelimit":
            worstV, worstR = max(worstV, r["lateV"]), max(worstR, r["lateR"])
        if v["v"] == "pass":
            if len(rep.samples) < 5 and v["id"] % 97 == 0:
                rep.sample({"case": name(c), "src": r["src"][:200], "outcome": r["o"], "lateV": r["lateV"], "lateR": r["lateR"], "steps": r["steps"]})
            continue
        rep.mismatch(name(c), {"verdict": v["v"], "src": r["src"], "outcome": r["o"], "info": r["info"],
                               "lateV": r["lateV"], "lateR": r["lateR"], "steps": r["steps"]})
    rep.notes["worst_late_vm_steps"] = worstV
    rep.notes["worst_late_regex_steps"] = worstR
    rep.exhaustive = True
    rep.evaluations = len(recs)
    rep.assumptions += ["time is virtual: time.monotonic is replaced before microjs is imported and advances one tick per hooked "
                        "interpreter instruction / regex step; wall-clock seconds are not judged",
                        "one native operation on a gigantic operand is outside the guarantee (property scope)"]
