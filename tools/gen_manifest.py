#!/usr/bin/env python3
"""Regenerate /verif/MANIFEST.json from the table below (kept valid at all times)."""
import json, os, subprocess

V = "/verif"
CHECKS = {
 "C16": dict(
   technique="TLA+ reference (JsString) + TLC: case space enumerated by TLC, replayed into the engine, judged by TLC",
   text="Model checking of an explicit TLA+ transcription of ECMA-262 String.prototype (spec/JsString.tla): TLC checks the reference's own laws on every enumerated case, enumerates the full product method x receiver grid x argument grid (quick 18k, thorough 52k cases, each also with integer-valued numbers held as host ints), the driver replays every case into the engine and TLC judges value, type, error class and receiver immutability. Exhaustive within the grids; not a proof beyond them.",
   design_ref="DESIGN.md 5/C16",
   note="Trusted: TLC, the wire codec and value classifier (harness/wire.py), JsString.tla as a transcription of ECMA-262; case mapping judged on ASCII only (documented restriction); regex-taking overloads are judged under C20."),
 "C14": dict(
   technique="TLA+ model of the instruction encoding (Encoding.tla, exhaustive over all emission sequences with a small byte base) + TLC-judged sweep of size templates across the 8-bit/16-bit boundaries on the real compiler and VM",
   text="Model checking: Encoding.tla models emitter, back-patching and decoder; TLC explores every emission sequence up to 5-6 instructions with byte base 4 (all operand/target overflow boundaries, 1e5-1.4e6 states) and checks Decode(Encode(p)) = p or refused, and that the pre-fix masking emitter violates it (non-vacuity). Conformance: TLC enumerates (template, n) over 19 shape templates with n across 255/256 and the 64 KB code boundary (quick 225, thorough ~430 programs up to n = 1e5), the engine runs each, TLC judges the result against the closed form in C14.tla or accepts a refusal only if it is a JSError raised before anything executed; TLC also judges, on the exported real bytecode of every compiled function, that all jump targets are instruction starts and that the decoder tables of both interpreter loops and the emitter agree (read from the engine's source).",
   design_ref="DESIGN.md 5/C14",
   note="Trusted: TLC; the template renderer in checks/c14_driver.py against the closed forms (cross-checked at n = 1, 2, 50); extraction of decoder tables from vm.py by ast (failure = exit 2). Operator chains deeper than the documented parser recursion limit are out of scope."),
 "C02": dict(
   technique="TLA+ models MemLimit (accounting + host-stack budget) and JsVM (abstract VM over exported real bytecode, all static paths) checked by TLC; depth statistics recorded at every loop back-edge of real runs judged by TLC",
   text="Model checking: MemLimit.tla (the est = 100*operands + 200*frames check before every step, script calls pushing frames, natives nesting interpreter loops under a depth cap) is explored exhaustively for M set/unset: MemBound, HostBound (violated without the cap: non-vacuity), finiteness. JsVM.tla is run by TLC over the REAL bytecode of every enumerated statement body (inner construct x exit kind x enclosure x place; quick ~830 bodies / 2400 functions, thorough the full valid product): both outcomes of every branch, an exception edge from every instruction that can raise, invariants no-underflow, valid targets, end/return cleanliness, handler balance and bounded depth - a universally quantified statement over iteration counts. Conformance: each body runs N = 1, 30/50, 200/2000 times under a small fixed M with the hook recording operand/handler/frame depth at every backward jump; TLC judges steadiness at every loop head, equal outcome and equal peak depths for all N, never MemoryLimitError. Recursion shapes (self, mutual, each callback-taking built-in, accessors, conversions, call/apply/bind, new, eval, Function) x M: TLC judges MemoryLimitError after at most M/200 + 2 levels, never a host error.",
   design_ref="DESIGN.md 5/C02",
   note="Trusted: TLC; the stack-effect table in JsVM.tla (transcribed from VM._execute_opcode; an unknown opcode is reported as bad:opcode); the hook. Static findings are violations only when a real run confirms them (otherwise listed as static_only in evidence). Bytes and seconds are not judged (steps and depths are); heap data is documented as unaccounted."),
 "C01": dict(
   technique="TLA+ state machine of the deadline enforcement (TimeLimit.tla) model-checked by TLC; scripts enumerated by TLC (construct x place x wrapper x T x M) run under a virtual clock, late steps per loop kind judged by TLC",
   text="Model checking: TimeLimit.tla models the interpreter loops that can nest on the host stack (main, callback loop, nested VM, regex matcher, lookaround sub-matcher), their shared counters and poll points over a virtual clock; TLC explores all nestings up to depth 4-5 and every position of the deadline relative to every counter: LateBound (at most one poll interval of VM instructions and of regex steps after the deadline), NeverCaught, NoLateFinish; the three pre-fix behaviours (fresh counters per nested VM / per regex attempt, catchable limit error) each violate their invariant (non-vacuity). Conformance: TLC enumerates keep-running constructs (while/for/do-while/labelled continue/self and mutual recursion/catastrophic regex/many short regex calls/lookahead/nested eval loops) x 24 places where script code runs (top level, function, arrow, constructor, every callback-taking array method, sort comparator, getter, setter, valueOf, call/apply/bind, indirect eval, new Function, eval in eval, callback in callback) x 7 try/catch/finally wrappers x T x memory_limit (quick 830, thorough ~6700 scripts) plus finite twins that must not be stopped; every script runs with time.monotonic replaced by a clock that advances one tick per hooked instruction/regex step; TLC judges outcome = TimeLimitError, late VM steps <= 1000 + 2, late regex steps <= 100 + 2.",
   design_ref="DESIGN.md 5/C01",
   note="Trusted: TLC, the hook sites (one per interpreter/regex loop; a loop added without a hook executes unseen steps - the wall-clock watchdog then reports hang), the virtual clock substitution. Wall-clock seconds are recorded, not judged; a single native operation on a huge operand is outside the property's scope."),
 "C03": dict(
   technique="TLA+ reference model of property access (Sandbox.tla: NonInterference, NoPhantom, TypeOK) model-checked by TLC; paired executions (internal name vs fresh name) and observable-value kinds recorded through the hook judged by TLC",
   text="Model checking: Sandbox.tla models lookup by receiver over own properties, the receiver kind's fixed built-in list and the prototype chain; TLC explores all operation sequences over a small object graph (74k distinct / 4.2M generated states) and checks that two names unknown to every table are indistinguishable under every access form, that an unknown name never resolves to anything, and TypeOK. Conformance: TLC enumerates 22 receiver kinds x 18 access forms; the driver harvests EVERY attribute name of every class of microjs.values/vm/context/compiler, of live engine objects, and the host dunder vocabulary (~700 names on the current tree; names that C03.tla lists as JavaScript properties are classified as such), and runs each (receiver, form) once with the internal name and once with a fresh name: TLC judges the two observations equal kind-for-kind (name masked), no host function invoked unless the form calls it. Every corpus program and ~100-450 generated programs run with a hook that classifies each value becoming observable (operands of STORE_*, SET_PROP, RETURN, THROW, call arguments, literal elements) and each value returned to the embedder: TLC judges JsVal!TypeOK. Quick samples 100 names (36k pairs), thorough uses all (~280k pairs).",
   design_ref="DESIGN.md 5/C03",
   note="Trusted: TLC; the value classifier (harness/wire.py to_wire); the list Legit in C03.tla. A host exception that escapes identically for the internal and the fresh name is C04's business, not judged here."),
 "C17": dict(
   technique="TLA+ reference of Array.prototype / typed arrays (JsArray.tla, TypedArr.tla) with the array store as a state machine and scripted callback responders; TLC enumerates calls and histories, engine replay, TLC judges results, receiver snapshots, identities and callback logs (total trace spec for histories)",
   text="Model checking: laws of the reference on every enumerated case (fresh vs same identity, splice/slice/length laws, sort = stable permutation with undefined last, codec laws for the nine element kinds incl. 13 hand-checked binary32 vectors, views stay inside their buffer) and the array store as a state machine (14 methods x receivers x responder tables, depth 2/3: density, reference integrity, frame condition; quick 7k, thorough 440k distinct states). Conformance: TLC enumerates (method, receiver, args) over 44 receivers of length 0..6 x the adversarial index grid, every callback method x every responder table of length <= 3 over {truthy, falsy, throw, push, pop, shorten}, sort over all short arrays x 10 comparators, typed-array scripts (9 kinds x stored-value grid, construction from length/array/buffer, two views of one buffer, set, subarray); the engine replays (~70k judged records in quick); TLC judges result or error class, identity, a snapshot of every array after the call and the callback log. Thorough adds seeded random histories validated event by event by a total trace specification.",
   design_ref="DESIGN.md 5/C17, notes/C17.md",
   note="Trusted: TLC, wire codec, JsArray/TypedArr as transcriptions of ECMA-262 under the documented stricter mode (dense arrays, out-of-bound writes are errors); comparator call sequences and the order produced by inconsistent comparators are not judged (implementation-defined)."),
}
NOT_APPLICABLE = {}
ALL = ["C%02d" % i for i in range(1, 21)]
PENDING_REASON = "check under construction in this round: not yet claimed (no evidence produced); see DESIGN.md section 8"


def main():
    checks = []
    for pid in ALL:
        if pid not in CHECKS:
            continue
        c = CHECKS[pid]
        checks.append({
            "property_id": pid,
            "quick_cmd": "./check %s --tier quick" % pid,
            "thorough_cmd": "./check %s --tier thorough" % pid,
            "evidence_file": "/verif/evidence/%s.json" % pid,
            "replay_cmd_template": "./check %s --replay {path}" % pid,
            "engine": "tlc",
            "level_claimed": {"category": "model_checking", "text": c["text"], "design_ref": c["design_ref"]},
            "level_note": c["note"],
            "technique": c["technique"],
        })
    na = [{"property_id": p, "reason": NOT_APPLICABLE.get(p, PENDING_REASON)} for p in ALL if p not in CHECKS]
    hooks_commit = subprocess.run(["git", "-C", "/repo", "log", "--format=%h", "--grep", "verification hooks"],
                                  capture_output=True, text=True).stdout.split()
    m = {
     "version": 1,
     "setup_cmd": "cd /verif && python3 -c \"import harness.cli, harness.tlc, harness.engine\" && tla-sany spec/JsVal.tla > /dev/null",
     "hooks": {
      "guard": "MICROJS_VERIF",
      "enable": "MICROJS_VERIF=1 in the environment of the engine child processes (harness/engine.py); observers are installed through microjs.vm._verif_install / microjs.regex.vm._verif_install, which refuse unless the variable is set",
      "baseline_off_cmd": "cd /repo && env -u MICROJS_VERIF /venv/bin/python -m pytest -ra -q -p no:cacheprovider --timeout=900 --continue-on-collection-errors",
      "source_commits": hooks_commit,
      "add_only": True,
     },
     "engines": [{"name": "tlc", "path": "/verif/harness/tlc.py", "serves_properties": sorted(CHECKS),
                  "kind_free_text": "TLC 1.8 model checker on explicit TLA+ specifications in /verif/spec, bound to the engine by replay (spec->code) and trace/observation judging (code->spec)"}],
     "checks": checks,
     "not_applicable": na,
     "notes": "All verdicts come from TLC runs over TLA+ specifications; Python only renders cases and records observations. Known findings: /verif/known_findings/<id>.json.",
    }
    with open(os.path.join(V, "MANIFEST.json"), "w") as f:
        json.dump(m, f, indent=1)


if __name__ == "__main__":
    main()
