----------------------------- MODULE C08_Trace -----------------------------
(* C08, code -> spec: total trace specification.                                          *)
(* One behaviour per recorded history.  The recorded operations are replayed through       *)
(* ObjModel's rules: the reference state is ObjModel's own m_st (so ModelInv and Frame are *)
(* evaluated on every state of every observed execution), the as-is state t_dev follows    *)
(* the deviations named in the record, and t_alt[d] follows all of them but d (used only   *)
(* to name the deviation that is necessary to explain a mismatch).                         *)
(* Every recorded step outcome and observation is compared with the predictions:           *)
(*   = reference                      -> pass (even if a deviation predicted otherwise)    *)
(*   # reference, = as-is prediction  -> known, named deviation                            *)
(*   otherwise                        -> violation (clause = the observation, step index)  *)
(* A mismatch never stops the replay: it is recorded, the engine's outcome is adopted      *)
(* (a step that threw although no model throws had no effect) and the replay continues.    *)
EXTENDS ObjModel, Json, IOUtils, SequencesExt

Recs == ndJsonDeserialize(IOEnv.OBS_FILE)       \* [id, dv, h, steps : Seq([out, obs]), cut]
VARIABLES t_rec, t_l, t_dev, t_alt, t_mis, t_cnt, t_status, t_anti
t_vars == <<t_rec, t_l, t_dev, t_alt, t_mis, t_cnt, t_status, t_anti>>
SeqSet(sq) == {sq[j] : j \in 1..Len(sq)}
DvOf(r) == SeqSet(r.dv)

OutStr(out) == IF out = "ok" THEN "ok" ELSE "!" \o out
NeedsRecv(o) == o.op \in {"set", "del", "def", "setproto"}
DevStep(st, dv, o) == IF NeedsRecv(o) /\ ~Alloc(st, o.x) THEN R(st, "TypeError") ELSE Step(st, dv, o)
Explains(st, dv, ob, act) == /\ (ob.o = "fproto" \/ Alloc(st, ob.x))
                             /\ SameObs(st, dv, ob, Observe(st, dv, ob), act)
AnyOf(S) == CHOOSE d \in S : TRUE
\* when no single deviation is necessary (two of them explain the mismatch independently) name the most specific one
DevPriority == <<"Dev_FnNotObject", "Dev_EnumSkipsAccessors", "Dev_DefinePropMerge", "Dev_GetterFirst", "Dev_SetterFirst",
                 "Dev_DeleteKeepsAccessor", "Dev_InOwnOnly", "Dev_ComputedKeyLiteral", "Dev_FnProtoAssign", "Dev_ProtoCycle",
                 "Dev_CtorEnumerable", "Dev_FnProtoNoObjectProto">>
Preferred(S) == LET J == {j \in 1..Len(DevPriority) : DevPriority[j] \in S}
                IN IF J = {} THEN AnyOf(S) ELSE DevPriority[CHOOSE j \in J : \A m \in J : j <= m]

\* verdict of one recorded observation: <<"pass", "">> | <<"known", dev>> | <<"violation", "">>
ObsVerdict(sr, sd, alt, dv, ob, act) ==
  IF SameObs(sr, {}, ob, Observe(sr, {}, ob), act) THEN <<"pass", "">>
  ELSE IF Explains(sd, dv, ob, act)
       THEN LET need == {d \in dv : ~Explains(alt[d], dv \ {d}, ob, act)}      \* deviations the explanation cannot do without
            IN <<"known", IF need # {} THEN AnyOf(need) ELSE "?" \o Preferred(dv)>>     \* "?": no single deviation is necessary
  ELSE <<"violation", "">>
\* calibration (records with cal = TRUE): the engine followed the reference where the as-is model predicts
\* otherwise - the deviations whose removal makes the as-is model agree are evidence of a repaired defect
ObsAnti(sr, sd, alt, dv, ob, act) ==
  IF SameObs(sr, {}, ob, Observe(sr, {}, ob), act) /\ ~Explains(sd, dv, ob, act)
  THEN {d \in dv : Explains(alt[d], dv \ {d}, ob, act)} ELSE {}

\* the record is copied into the state: Recs is a Java-backed operator that TLC re-evaluates at every use
TInit == /\ LET all == Recs IN t_rec \in {all[j] : j \in 1..Len(all)}
         /\ t_l = 1
         /\ MInit
         /\ t_dev = State0D(DvOf(t_rec))
         /\ t_alt = [d \in DvOf(t_rec) |-> State0D(DvOf(t_rec) \ {d})]
         /\ t_mis = <<>>
         /\ t_cnt = [steps |-> 0, obs |-> 0, known |-> 0, viol |-> 0]
         /\ t_status = "run"
         /\ t_anti = {}

MisRec(l, j, v, ob, exp, act) == [l |-> l, j |-> j, v |-> v[1], dev |-> v[2], ob |-> ob, exp |-> exp, act |-> act]
NoOb == Ob("step", "", "", "")
\* keep every violation (up to a cap) and the first example of each known deviation
Keep(mis, rec) == IF rec.v = "violation" THEN (IF Len(mis) < 40 THEN Append(mis, rec) ELSE mis)
                  ELSE IF \E m \in 1..Len(mis) : mis[m].dev = rec.dev THEN mis ELSE Append(mis, rec)

TStep ==
  LET rec == t_rec
      dv == DvOf(rec)
      o == rec.h[t_l]
      a == rec.steps[t_l]
  IN IF ~Applicable(m_st, o, t_l)
     THEN /\ t_status' = "inapplicable" /\ UNCHANGED <<t_rec, t_l, t_dev, t_alt, t_mis, t_cnt, t_anti, m_vars>>
     ELSE
       LET rr == Step(m_st, {}, o)
           rd == DevStep(t_dev, dv, o)
           ra == [d \in dv |-> DevStep(t_alt[d], dv \ {d}, o)]
           sv == IF a.out = OutStr(rr.out) THEN <<"pass", "">>
                 ELSE IF a.out = OutStr(rd.out)
                      THEN LET need == {d \in dv : a.out # OutStr(ra[d].out)}
                           IN <<"known", IF need # {} THEN AnyOf(need) ELSE "?" \o Preferred(dv)>>
                 ELSE <<"violation", "">>
           anti_s == IF a.out = OutStr(rr.out) /\ a.out # OutStr(rd.out) THEN {d \in dv : OutStr(ra[d].out) = a.out} ELSE {}
           \* adopt: when the engine threw although neither model does, the step had no effect
           noeff == sv[1] = "violation" /\ a.out # "ok"
           nr == IF noeff THEN m_st ELSE rr.st
           nd == IF noeff THEN t_dev ELSE rd.st
           na == [d \in dv |-> IF noeff THEN t_alt[d] ELSE ra[d].st]
           mis0 == IF sv[1] = "pass" THEN t_mis ELSE Keep(t_mis, MisRec(t_l, 0, sv, NoOb, <<OutStr(rr.out)>>, <<a.out>>))
           \* one pass over the recorded observations (FoldLeft is iterative; function-valued LETs are re-evaluated per use)
           acc0 == [mis |-> mis0, nobs |-> 0, nk |-> 0, nv |-> 0, anti |-> anti_s]
           res == FoldLeft(LAMBDA acc, j :
                     IF ~Observable(nr, Battery[j]) THEN acc
                     ELSE LET v == ObsVerdict(nr, nd, na, dv, Battery[j], a.obs[j])
                          IN IF v[1] = "pass"
                             THEN [acc EXCEPT !.nobs = acc.nobs + 1,
                                              !.anti = IF rec.cal THEN acc.anti \cup ObsAnti(nr, nd, na, dv, Battery[j], a.obs[j]) ELSE acc.anti]
                             ELSE [anti |-> acc.anti, mis |-> Keep(acc.mis, MisRec(t_l, j, v, Battery[j], Observe(nr, {}, Battery[j]), a.obs[j])),
                                   nobs |-> acc.nobs + 1,
                                   nk |-> acc.nk + (IF v[1] = "known" THEN 1 ELSE 0),
                                   nv |-> acc.nv + (IF v[1] = "violation" THEN 1 ELSE 0)],
                     acc0, [j \in 1..Len(a.obs) |-> j])
           nk == res.nk + (IF sv[1] = "known" THEN 1 ELSE 0)
           nv == res.nv + (IF sv[1] = "violation" THEN 1 ELSE 0)
       IN /\ m_st' = nr /\ m_prev' = m_st /\ m_hist' = Append(m_hist, o)
          /\ t_dev' = nd /\ t_alt' = na
          /\ t_mis' = res.mis /\ t_anti' = t_anti \cup res.anti
          /\ t_cnt' = [steps |-> t_cnt.steps + 1, obs |-> t_cnt.obs + res.nobs,
                       known |-> t_cnt.known + nk, viol |-> t_cnt.viol + nv]
          /\ t_l' = t_l + 1
          /\ t_status' = IF t_l = Len(rec.steps) THEN "done" ELSE "run"
          /\ UNCHANGED t_rec

TNext == /\ t_status = "run"
         /\ IF t_l > Len(t_rec.steps)
            THEN t_status' = "done" /\ UNCHANGED <<t_rec, t_l, t_dev, t_alt, t_mis, t_cnt, t_anti, m_vars>>
            ELSE TStep
TReport == t_status = "run" \/
           PrintT(ToJson([id |-> t_rec.id, status |-> t_status, at |-> t_l, cut |-> t_rec.cut, cnt |-> t_cnt, mis |-> t_mis, anti |-> t_anti]))
TInv == ModelInv /\ Frame
=============================================================================
