-------------------------------- MODULE JsLit --------------------------------
(* Primitive values written as SOURCE TEXT: the ways a script can denote a value  *)
(* without the host handing it over (ECMA-262 12.9.3 NumericLiteral, 12.9.4        *)
(* StringLiteral, the words null / true / false, the global names NaN / Infinity / *)
(* undefined, and unary minus in front of a numeric literal).                      *)
(*   LitSpellings(v) : the spellings of v that the case space uses                 *)
(*   LitValue(t)     : the value a spelling denotes, read independently of how the *)
(*                     spelling was produced (C06 model-checks LitValue o Spelling  *)
(*                     = identity on the whole grid and the judge re-reads every    *)
(*                     literal of every program it is shown)                        *)
(* Variable-free library module.                                                   *)
EXTENDS JsOps

LtHas(t, cs) == \E lt_k \in 1..Len(t) : t[lt_k] \in cs
LtHexUnit(dv) == IF dv < 10 THEN 48 + dv ELSE 87 + dv                  \* 0-9 a-f
\* hexadecimal digits of a natural number (BigNat), most significant first, "0" for zero
LtHexUnits(n) ==
  LET nd == IF n = <<>> THEN 1 ELSE (BnBitLen(n) + 3) \div 4
  IN [lt_k \in 1..nd |-> LtHexUnit(BnToInt(BnLowBits(BnShr(n, 4 * (nd - lt_k)), 4)))]
LtHex4(c) == <<LtHexUnit((c \div 4096) % 16), LtHexUnit((c \div 256) % 16), LtHexUnit((c \div 16) % 16), LtHexUnit(c % 16)>>

\* ---- spellings -------------------------------------------------------------------------------------
LtSp(nm, txt) == [sp |-> nm, t |-> txt]
\* a non-negative finite number: shortest decimal (the host keeps an integer for integer literals), the same with a
\* fraction part / an exponent part (a host float), hexadecimal for integers below 2^53
LtNoPlus(t) == SelectSeq(t, LAMBDA c : c # 43)
LtMagSpellings(m) ==
  LET t == NumToText(m)
      isint == m.c = "zero" \/ (DIsInteger(m) /\ m.e + BnBitLen(m.m) <= 53)
  IN <<LtSp("dec", t)>>
     \o (IF ~LtHas(t, {46, 101}) THEN <<LtSp("dot", t \o <<46, 48>>)>> ELSE <<>>)
     \o (IF ~LtHas(t, {101}) THEN <<LtSp("exp", t \o <<101, 48>>)>>
         ELSE <<LtSp("exp", [lt_k \in 1..Len(LtNoPlus(t)) |-> IF LtNoPlus(t)[lt_k] = 101 THEN 69 ELSE LtNoPlus(t)[lt_k]])>>)      \* 1e+21 as 1E21
     \o (IF isint THEN <<LtSp("hex", <<48, 120>> \o LtHexUnits(DTruncMag(m)))>> ELSE <<>>)
LtMinus(sps) == [lt_k \in 1..Len(sps) |-> LtSp(sps[lt_k].sp, <<45>> \o sps[lt_k].t)]
\* a string literal: the quote, the backslash, controls, line terminators and white space beyond the blank are escaped;
\* style "dq": everything outside printable ASCII as \uHHHH;  style "sq": \n \t \r, \xHH below 256, other BMP characters raw
LtRawOK(c) == c > 160 /\ c \notin WhiteSpace /\ ~(c >= 55296 /\ c <= 57343) /\ c < 65534
LtQuoteUnit(c, q, raw) ==
  IF c = q \/ c = 92 THEN <<92, c>>
  ELSE IF c >= 32 /\ c <= 126 THEN <<c>>
  ELSE IF ~raw THEN <<92, 117>> \o LtHex4(c)
  ELSE IF c = 10 THEN <<92, 110>> ELSE IF c = 9 THEN <<92, 116>> ELSE IF c = 13 THEN <<92, 114>>
  ELSE IF c < 256 THEN <<92, 120, LtHexUnit(c \div 16), LtHexUnit(c % 16)>>
  ELSE IF LtRawOK(c) THEN <<c>> ELSE <<92, 117>> \o LtHex4(c)
LtQuote(u, q, raw) == <<q>> \o BnFold(LAMBDA acc, c : acc \o LtQuoteUnit(c, q, raw), <<>>, u) \o <<q>>
TxtNaN == <<78, 97, 78>>
LitSpellings(v) ==
  CASE v.k = "undef" -> <<LtSp("word", TxtUndefined)>>
    [] v.k = "null" -> <<LtSp("word", TxtNull)>>
    [] v.k = "bool" -> <<LtSp("word", IF v.b THEN TxtTrue ELSE TxtFalse)>>
    [] v.k = "str" -> <<LtSp("dq", LtQuote(v.u, 34, FALSE)), LtSp("sq", LtQuote(v.u, 39, TRUE))>>
    [] v.k = "num" ->
         LET d == DFromW(v.w)
             mags == CASE d.c = "nan" -> <<LtSp("word", TxtNaN)>>
                       [] d.c = "inf" -> <<LtSp("word", CvInfinityText), LtSp("huge", <<49, 101, 52, 48, 48>>)>>      \* 1e400
                       [] OTHER -> LtMagSpellings(DAbs(d))
         IN IF d.c # "nan" /\ d.s = 1 THEN LtMinus(mags) ELSE mags

\* ---- reading ---------------------------------------------------------------------------------------
LtBad == [k |-> "badlit"]
LtStrStep(st, c, q) ==
  CASE st.m = "n" -> IF c = 92 THEN [st EXCEPT !.m = "e"]
                     ELSE IF c \in {q, 10, 13} THEN [st EXCEPT !.m = "bad"]          \* the quote or a line break, unescaped
                     ELSE [st EXCEPT !.o = Append(@, c)]
    [] st.m = "e" ->
         IF c = 120 THEN [st EXCEPT !.m = "h", !.need = 2, !.acc = 0]
         ELSE IF c = 117 THEN [st EXCEPT !.m = "h", !.need = 4, !.acc = 0]
         ELSE [st EXCEPT !.m = "n",
                         !.o = Append(@, CASE c = 110 -> 10 [] c = 116 -> 9 [] c = 114 -> 13 [] c = 98 -> 8
                                           [] c = 102 -> 12 [] c = 118 -> 11 [] c = 48 -> 0 [] OTHER -> c)]
    [] st.m = "h" ->
         IF CvDigitVal(c) > 15 THEN [st EXCEPT !.m = "bad"]
         ELSE IF st.need = 1 THEN [st EXCEPT !.m = "n", !.o = Append(@, st.acc * 16 + CvDigitVal(c)), !.need = 0, !.acc = 0]
         ELSE [st EXCEPT !.acc = @ * 16 + CvDigitVal(c), !.need = @ - 1]
    [] OTHER -> st
LtStrValue(t) ==
  LET body == SubSeq(t, 2, Len(t) - 1)
      fin == BnFold(LAMBDA st, c : LtStrStep(st, c, t[1]), [m |-> "n", o |-> <<>>, acc |-> 0, need |-> 0], body)
  IN IF Len(t) < 2 \/ t[Len(t)] # t[1] \/ fin.m # "n" THEN LtBad ELSE VStr(fin.o)
\* NumericLiteral: decimal with optional fraction / exponent, 0x 0o 0b integers: the part of the StringNumericLiteral
\* grammar without white space, sign and Infinity (no legacy octal, no separators: not generated)
LtNumValue(t) ==
  LET pr == StrNumParse(t)
  IN IF t # Trim(t) \/ pr.t \notin {"dec", "int"} \/ (Len(t) >= 2 /\ t[1] = 48 /\ CvIsDigit(t[2])) THEN LtBad ELSE NumV(CvToD(pr))
LitAtom(t) ==
  IF t = <<>> THEN LtBad
  ELSE IF t = TxtUndefined THEN Undef ELSE IF t = TxtNull THEN Null
  ELSE IF t = TxtTrue THEN VBool(TRUE) ELSE IF t = TxtFalse THEN VBool(FALSE)
  ELSE IF t = TxtNaN THEN NumV(DNaN) ELSE IF t = CvInfinityText THEN NumV(DInf(0))
  ELSE IF t[1] \in {34, 39} THEN LtStrValue(t)
  ELSE IF CvIsDigit(t[1]) \/ t[1] = 46 THEN LtNumValue(t)
  ELSE LtBad
\* a spelling: an atom, or unary minus applied to an atom that denotes a number
LitValue(t) ==
  IF t # <<>> /\ t[1] = 45
  THEN LET x == LitAtom(Tail(t)) IN IF x.k = "num" THEN UnOp("neg", x) ELSE LtBad
  ELSE LitAtom(t)
=============================================================================
