------------------------------- MODULE JsVal -------------------------------
(* The universe of JavaScript values as they travel between the engine and the      *)
(* specifications (harness/wire.py).  Every kind has its own payload field so that  *)
(* TLC never compares an integer with a string.  Variable-free library module.      *)
EXTENDS Naturals, Integers, Sequences, FiniteSets, TLC

Undef    == [k |-> "undef"]
Null     == [k |-> "null"]
VBool(x) == [k |-> "bool", b |-> x]
VNumW(x) == [k |-> "num", w |-> x]          \* x = <<w3,w2,w1,w0>> 16-bit words, big endian
VStr(x)  == [k |-> "str", u |-> x]          \* x = sequence of UTF-16 code units
VArr(x)  == [k |-> "arr", e |-> x]
VObj(x)  == [k |-> "obj", p |-> x]          \* x = sequence of [n |-> units, v |-> value]

IsUndef(v) == v.k = "undef"
IsNull(v)  == v.k = "null"
IsBool(v)  == v.k = "bool"
IsNum(v)   == v.k = "num"
IsStr(v)   == v.k = "str"
IsArr(v)   == v.k = "arr"
IsObj(v)   == v.k = "obj"
IsPrim(v)  == v.k \in {"undef", "null", "bool", "num", "str"}

PrimKinds == {"undef", "null", "bool", "num", "str"}
JsKinds   == PrimKinds \cup {"arr", "obj", "fn", "native", "regex", "tarr", "cyc"}
\* anything else ("hostval", ...) is not a JavaScript value

\* ---- numbers as words --------------------------------------------------------
WSign(w)  == w[1] \div 32768
WExp(w)   == (w[1] % 32768) \div 16                 \* biased exponent 0..2047
WFracZero(w) == (w[1] % 16) = 0 /\ w[2] = 0 /\ w[3] = 0 /\ w[4] = 0
WIsNaN(w)  == WExp(w) = 2047 /\ ~WFracZero(w)
WIsInf(w)  == WExp(w) = 2047 /\ WFracZero(w)
WIsZero(w) == WExp(w) = 0 /\ WFracZero(w)
WNaN     == <<32760, 0, 0, 0>>
WPosInf  == <<32752, 0, 0, 0>>
WNegInf  == <<65520, 0, 0, 0>>
WPosZero == <<0, 0, 0, 0>>
WNegZero == <<32768, 0, 0, 0>>
WNeg(w)  == <<(w[1] + 32768) % 65536, w[2], w[3], w[4]>>

\* Small integers (|n| < 2^31) to words, without bignums: find the top bit.
RECURSIVE BitLenSmall(_)
BitLenSmall(n) == IF n = 0 THEN 0 ELSE 1 + BitLenSmall(n \div 2)
Pow2Small(n) == 2 ^ n                                      \* n <= 30
WOfNat(n) ==                                               \* 0 <= n < 2^31
  IF n = 0 THEN WPosZero
  ELSE LET bl == BitLenSmall(n)                            \* n in [2^(bl-1), 2^bl)
           ex == bl - 1                                    \* unbiased exponent
           fr == n - Pow2Small(ex)                         \* fraction bits, ex of them
           \* 52-bit fraction = fr * 2^(52-ex); split into 4 + 16 + 16 + 16 bits
           \* top 20 bits of the fraction: fr shifted so that it has 20 bits when ex <= 20
           top20 == IF ex <= 20 THEN fr * Pow2Small(20 - ex) ELSE fr \div Pow2Small(ex - 20)
           rest  == IF ex <= 20 THEN 0 ELSE fr % Pow2Small(ex - 20)     \* ex-20 <= 10 low bits
           w1    == IF ex <= 20 THEN 0 ELSE rest * Pow2Small(16 - (ex - 20))
       IN <<(1023 + ex) * 16 + (top20 \div 65536), top20 % 65536, w1, 0>>
WOfInt(n) == IF n < 0 THEN WNeg(WOfNat(0 - n)) ELSE WOfNat(n)
VInt(n)  == VNumW(WOfInt(n))
VNaN     == VNumW(WNaN)

\* ToIntegerOrInfinity clamped to [-lim, lim], lim = 2^30 (enough for every index argument)
Lim == 1073741824
WTruncClamp(w) ==
  IF WIsNaN(w) THEN 0
  ELSE LET sg == IF WSign(w) = 1 THEN -1 ELSE 1
           be == WExp(w)
           ex == be - 1023
       IN IF be = 2047 \/ ex >= 30 THEN sg * Lim
          ELSE IF ex < 0 THEN 0
          ELSE LET top == (16 + (w[1] % 16)) * 65536 + w[2]          \* mantissa53 >> 32  (21 bits)
                   sh  == 52 - ex                                        \* 23..52
                   mag == IF sh >= 32 THEN top \div Pow2Small(sh - 32)
                          ELSE top * Pow2Small(32 - sh) + (w[3] \div Pow2Small(16 - (32 - sh)))
               IN sg * mag
\* is the double an integer with |n| < 2^30 ?  then its value
WIsSmallInt(w) == ~WIsNaN(w) /\ WExp(w) # 2047 /\ (WIsZero(w) \/ (WExp(w) - 1023 < 30 /\ WOfInt(WTruncClamp(w)) = w))

\* ---- structural "same value" (NaN = NaN, +0 # -0), total on mixed kinds ---------------
RECURSIVE SameVal(_, _)
SameVal(a, b) ==
  /\ a.k = b.k
  /\ CASE a.k = "num" -> (WIsNaN(a.w) /\ WIsNaN(b.w)) \/ a.w = b.w
       [] a.k = "bool" -> a.b = b.b
       [] a.k = "str" -> a.u = b.u
       [] a.k = "arr" -> Len(a.e) = Len(b.e) /\ \A i \in 1..Len(a.e) : SameVal(a.e[i], b.e[i])
       [] a.k = "obj" -> Len(a.p) = Len(b.p) /\ \A i \in 1..Len(a.p) : a.p[i].n = b.p[i].n /\ SameVal(a.p[i].v, b.p[i].v)
       [] OTHER -> TRUE

\* every value script code or the embedder can see must be a JavaScript value
RECURSIVE TypeOK(_)
TypeOK(v) ==
  /\ v.k \in JsKinds
  /\ CASE v.k = "arr" -> \A i \in 1..Len(v.e) : TypeOK(v.e[i])
       [] v.k = "obj" -> \A i \in 1..Len(v.p) : TypeOK(v.p[i].v)
       [] v.k = "tarr" -> \A i \in 1..Len(v.e) : v.e[i].k = "num"
       [] OTHER -> TRUE

\* ---- outcomes of an evaluation ----------------------------------------------------------
\* [o |-> "value", v |-> val] | [o |-> "jserror", name, msg] | [o |-> "syntax", line, col]
\* | [o |-> "timelimit"] | [o |-> "memlimit"] | [o |-> "host", type, where] | [o |-> "hang"]
InJSErrorFamily(out) == out.o \in {"value", "jserror", "syntax", "timelimit", "memlimit"}

\* ---- text helpers -------------------------------------------------------------------------
Ascii(s) == s          \* placeholder: specs write code units directly
=============================================================================
