"""C20 - lastIndex protocol and regex-driven string methods (DESIGN 5/C20).

(a) TLC model-checks the protocol (spec/LastIndex.tla: two copies, Sync / Refines / Range / Reset / Advance / Frame)
    over all histories <= 6 of the model, and the laws of RegexApi over the string-method patterns.
(b) TLC defines the history space (operation alphabet x length x catalogue) and the string-method grid; the drivers
    replay them on the engine; TLC trace-validates every history step by step (total trace specification) and judges
    every string-method call against RegexApi.  Thorough adds seeded random histories (length <= 12)."""
import itertools, json, os, random, time
from harness import tlc, engine, wire
from harness.common import Machinery

ENUM_CFG = "INIT EnumInit\nNEXT EnumNext\nCONSTRAINT EnumEmit\nINVARIANT LawsHold\nCHECK_DEADLOCK FALSE\n"
MODEL_CFG = ("CONSTANT MaxLen = 6\nSPECIFICATION Spec\nINVARIANTS LiTypeOK Sync Refines Range Reset Advance Progress\n"
             "PROPERTY Frame\nCHECK_DEADLOCK FALSE\n")
TRACE_CFG = "INIT TraceInit\nNEXT TraceNext\nCONSTRAINT TraceReport\nCHECK_DEADLOCK FALSE\n"
JUDGE_CFG = "INIT JudgeInit\nNEXT JudgeNext\nCHECK_DEADLOCK FALSE\n"


def cpu():
    t = os.times()
    return t.children_user + t.children_system + t.user + t.system


def run(rep):
    # 1a. the protocol model: invariants over all histories <= 6
    res = tlc.run(rep.pid, "LastIndex", MODEL_CFG, timeout=3600, tag="model", workers=8)
    rep.add_tlc("LastIndex(model, histories<=6)", res)
    if res.distinct < 10000:
        raise Machinery("LastIndex model explored only %d states" % res.distinct)
    # 1b. the spaces + laws of RegexApi
    res = tlc.run(rep.pid, "C20", ENUM_CFG, env={"TIER": rep.tier}, timeout=3600, tag="enum")
    rep.add_tlc("C20.Enum+Laws(RegexApi)", res)
    hist = [r for r in res.records if r.get("kind") == "histories"]
    cfgs = {(r["p"], r["fl"]): r for r in res.records if r.get("kind") == "cfg"}
    smpats = {json.dumps(r["ast"], sort_keys=True): r for r in res.records if r.get("kind") == "smpat"}
    grid = [r for r in res.records if r.get("kind") == "smgrid"]
    gcpats = {json.dumps(r["ast"], sort_keys=True): r for r in res.records if r.get("kind") == "gcpat"}
    if not gcpats or any(not r["variants"] or not r["subjects"] for r in gcpats.values()):
        raise Machinery("enumeration incomplete: group-count family has %d patterns" % len(gcpats))
    if not hist or not grid or len(cfgs) < 30 or len(smpats) < 50:
        raise Machinery("enumeration incomplete: %d cfg, %d patterns" % (len(cfgs), len(smpats)))
    zaspace = [r for r in res.records if r.get("kind") == "zaspace"]
    zapats = sorted((r for r in res.records if r.get("kind") == "zapat"), key=lambda r: json.dumps(r["ast"], sort_keys=True))
    if len(zaspace) != 1 or not zapats or not zaspace[0]["ops"] or not zaspace[0]["subjects"] or not zaspace[0]["flags"]:
        raise Machinery("enumeration incomplete: assertion family has %d patterns" % len(zapats))
    if {tuple(r["cls"]) for r in zapats} != {tuple(c) for c in zaspace[0]["classes"]}:
        raise Machinery("enumeration incomplete: assertion family classes")
    hist, grid = hist[0], grid[0]
    histories(rep, hist, cfgs, zaspace[0], zapats)
    string_methods(rep, grid, list(smpats.values()), sorted(gcpats.values(), key=lambda r: (r["gn"], r["shape"])))
    rep.exhaustive = True
    rep.notes["rule"] = ("histories: every step of every history is one judged observation [result, lastIndex]; "
                         "string methods: one judged call = (method, pattern, flags, subject, lastIndex before, replacement/limit)")
    rep.assumptions += ["RegexApi.tla transcribes ECMA-262 22.2.6 / 22.2.7.2 / 22.1.3.19.1 (non-unicode mode)",
                        "matcher deviations recorded under C09 are threaded through (same names), so C20 judges the protocol, not the matcher"]


def show_hist(c, upto=None):
    ops = [c["names"][k] for k in c["ops"]]
    if upto is not None:
        ops = ops[:upto + 1]
    return "/%s/%s on %r: %s" % (wire.from_units(c["src"]), c["flags"], wire.from_units(c["s"]), " ; ".join(ops))


def histories(rep, hist, cfgs, za, zapats):
    names, L = hist["ops"], hist["len"]
    nops = len(names)
    cases = []

    def add(cfg, si, ops, intrep):
        cases.append({"id": len(cases), "p": cfg["p"], "fl": cfg["fl"], "si": si + 1, "src": cfg["src"], "flags": cfg["flags"],
                      "s": cfg["subjects"][si], "names": names, "ops": list(ops), "vals": hist["assign"][si], "intrep": intrep})

    for cfg in cfgs.values():
        for si in sorted(k - 1 for k in hist["subjects"]):
            for ops in itertools.product(range(nops), repeat=L):          # every history of length L (prefixes are judged step by step)
                add(cfg, si, ops, True)
            for ops in itertools.product(range(nops), repeat=2):          # integer-valued lastIndex held as a Python float
                add(cfg, si, ops, False)
    ncat = len(cases)
    # assertion family: the spec gives the patterns (ast + source), the sub-alphabet, the flag sets and the subjects
    zaops = sorted(k - 1 for k in za["ops"])
    for zp in zapats:
        for fl in sorted(za["flags"]):
            flags = next(c["flags"] for c in cfgs.values() if c["fl"] == fl)
            for si, s in enumerate(za["subjects"]):
                for ops in itertools.product(zaops, repeat=za["len"]):
                    cases.append({"id": len(cases), "ast": zp["ast"], "fl": fl, "src": zp["src"], "flags": flags, "s": s, "names": names,
                                  "ops": list(ops), "vals": za["assign"][si], "intrep": True})
    rep.spaces.append({"space": "assertion family: all histories of length %d over %s x %d patterns (zero-width assertions before / after the consumed text, "
                                "composites) x %d flag sets x %d subjects" % (za["len"], [names[k] for k in zaops], len(zapats), len(za["flags"]), len(za["subjects"])),
                       "histories": len(cases) - ncat, "classes": sorted(" ".join(x for x in c if x) for c in za["classes"]), "complete": True})
    nexh = len(cases)
    rep.spaces.append({"space": "all histories of length %d over %d operations x %d (pattern, flags) x %d subjects (+ length 2 with float representation)"
                       % (L, nops, len(cfgs), len(hist["subjects"])), "histories": ncat, "complete": True})
    if rep.tier == "thorough":
        rnd = random.Random(rep.seed)
        cl = list(cfgs.values())
        for _ in range(int(os.environ.get("C20_RANDOM", "60000"))):
            cfg = rnd.choice(cl)
            si = rnd.randrange(len(cfg["subjects"]))
            n = rnd.randint(5, 12)
            # exec/test twice as likely as each assignment
            ops = [rnd.choice([0, 0, 0, 1, 1, 2] + list(range(3, nops))) for _ in range(n)]
            add(cfg, si, ops, rnd.random() < 0.7)
        rep.spaces.append({"space": "seeded random histories, length 5..12", "histories": len(cases) - nexh, "complete": False, "seed": rep.seed})
    t0, c0 = time.time(), cpu()
    results = engine.run_cases(rep.pid, cases, driver="checks.c20_driver:history_driver", tag="eng_hist", timeout=14400)
    rep.notes["hist_engine_wall_cpu_s"] = [round(time.time() - t0, 1), round(cpu() - c0, 1)]
    recs = []
    for r in results:
        c = cases[r["id"]]
        if "setup" in r:
            rep.mismatch(show_hist(c, -1), {"expected": "a RegExp", "actual": r["setup"], "case": c}, dev="")
            continue
        if "ast" in c:
            recs.append({"id": r["id"], "ast": c["ast"], "fl": c["fl"], "subj": c["s"], "ops": [k + 1 for k in c["ops"]], "obs": r["obs"]})
        else:
            recs.append({"id": r["id"], "p": c["p"], "fl": c["fl"], "s": c["si"], "ops": [k + 1 for k in c["ops"]], "obs": r["obs"]})
    t0, c0 = time.time(), cpu()
    verdicts, st, tr, wall = tlc.judge(rep.pid, "C20", recs, TRACE_CFG, tag="trace", timeout=14400)
    rep.notes["hist_judge_wall_cpu_s"] = [round(time.time() - t0, 1), round(cpu() - c0, 1)]
    got = {v["id"]: v for v in verdicts}
    if len(got) != len(recs):
        raise Machinery("trace validation returned %d verdicts for %d histories" % (len(got), len(recs)))
    steps = 0
    for rec in recs:
        v = got[rec["id"]]
        c = cases[rec["id"]]
        if v["n"] != len(rec["ops"]):
            raise Machinery("history %d: %d of %d steps consumed" % (rec["id"], v["n"], len(rec["ops"])))
        steps += v["n"]
        if not v["bad"] and len(rep.samples) < 3 and rec["id"] % 40009 == 11:
            rep.sample({"case": show_hist(c), "engine": rec["obs"], "verdict": "pass"})
        for b in v["bad"]:
            k = b["at"] - 1
            rep.mismatch("%s [step %d, %s%s]" % (show_hist(c, k), b["at"], b["clause"], "" if c["intrep"] else ", float repr"),
                         {"expected": b["exp"], "actual": rec["obs"][k], "clause": b["clause"], "case": {kk: c[kk] for kk in ("src", "flags", "s", "ops", "intrep")}},
                         dev=b["dev"])
    rep.add_judge(len(recs), st, tr)
    rep.evaluations = (rep.evaluations or 0) + steps
    rep.notes["history_steps_judged"] = steps


def show_sm(g, c):
    var = c["var"]
    arg = var.get("fn") or (repr(wire.from_units(var["t"])) if "t" in var else ("" if var.get("lim", -1) < 0 else str(var["lim"])))
    return "%r.%s(/%s/%s%s) lastIndex=%d%s" % (wire.from_units(c["s"]), var["m"], wire.from_units(g["src"]), g["flags"], ", " + arg if arg else "", c["li0"],
                                                  " after exec" if c.get("pre") else "")


def string_methods(rep, grid, pats, gcpats):
    groups, ncase = [], 0
    li0s = sorted(grid["li0"])
    ngen = 0
    for p in pats + gcpats:
        if p.get("kind") == "gcpat" and not ngen:
            ngen = ncase
        for fl in grid["flags"]:
            g = {"id": len(groups), "src": p["src"], "ast": p["ast"], "flags": fl, "cases": []}
            # the group-count family brings its own subjects and variants (both depend on the number of groups)
            for s in p.get("subjects", grid["subjects"]):
                for var in p.get("variants", grid["variants"]):
                    for li0 in (li0s if "y" in fl else li0s[:1]):          # lastIndex before the call matters to sticky regexes only
                        g["cases"].append({"id": ncase, "s": s, "li0": li0, "var": var})
                        ncase += 1
                    if fl and var in grid["afterexec"]:                     # the same call right after an exec() (global / sticky)
                        g["cases"].append({"id": ncase, "s": s, "li0": 0, "var": var, "pre": "exec"})
                        ncase += 1
            groups.append(g)
    rep.spaces.append({"space": "string methods: %d patterns x %d flag sets x %d subjects x %d variants (x lastIndex before the call for sticky)"
                       % (len(pats), len(grid["flags"]), len(grid["subjects"]), len(grid["variants"])), "cases": ngen, "complete": True})
    rep.spaces.append({"space": "group-count family: patterns with %s capture groups x %d shapes x %d flag sets x 3 subjects x ($nn classes x 3 forms, $n, "
                                "replaceAll, function replacer, match, split)"
                       % (sorted({p["gn"] for p in gcpats}), len({p["shape"] for p in gcpats}), len(grid["flags"])),
                       "cases": ncase - ngen, "classes": sorted({c for p in gcpats for c in p["classes"]}), "complete": True})
    t0, c0 = time.time(), cpu()
    results = engine.run_cases(rep.pid, [{"id": g["id"], "src": g["src"], "flags": g["flags"], "cases": g["cases"]} for g in groups],
                               driver="checks.c20_driver:strmethod_driver", tag="eng_sm", timeout=14400)
    rep.notes["sm_engine_wall_cpu_s"] = [round(time.time() - t0, 1), round(cpu() - c0, 1)]
    bycase = {}
    for g in groups:
        for c in g["cases"]:
            bycase[c["id"]] = (g, c)
    recs = []
    for r in results:
        g, c = bycase[r["id"]]
        if r.get("li1", 0) < 0:
            rep.mismatch(show_sm(g, c) + " [lastIndex before the call]", {"expected": "an integer", "actual": r.get("li1"), "case": c}, dev="")
            continue
        recs.append({"id": r["id"], "ast": g["ast"], "flags": g["flags"], "s": c["s"], "li0": c["li0"], "li1": r.get("li1", c["li0"]), "var": c["var"], "out": r["out"]})
    if len(results) != ncase:
        raise Machinery("engine returned %d results for %d string-method cases" % (len(results), ncase))
    t0, c0 = time.time(), cpu()
    verdicts, st, tr, wall = tlc.judge(rep.pid, "C20", recs, JUDGE_CFG, tag="judge_sm", timeout=14400)
    rep.notes["sm_judge_wall_cpu_s"] = [round(time.time() - t0, 1), round(cpu() - c0, 1)]
    got = {v["id"]: v for v in verdicts}
    if len(got) != len(recs):
        raise Machinery("judge returned %d verdicts for %d string-method cases" % (len(got), len(recs)))
    for rec in recs:
        v = got[rec["id"]]
        g, c = bycase[rec["id"]]
        if v["v"] == "pass":
            if len(rep.samples) < 6 and rec["id"] % 30011 == 5:
                rep.sample({"case": show_sm(g, c), "engine": rec["out"], "verdict": "pass"})
            continue
        rep.mismatch(show_sm(g, c), {"expected": v["exp"], "actual": rec["out"], "case": {"src": g["src"], "flags": g["flags"], "c": c}}, dev=v["dev"])
    rep.add_judge(len(recs), st, tr)
    rep.evaluations = (rep.evaluations or 0) + len(recs)
