----------------------------- MODULE JsVM_Trace -----------------------------
(* Trace validation of the bytecode VM: every instruction the REAL engine executed      *)
(* (recorded through the MICROJS_VERIF hook, one event per instruction) is checked       *)
(* against the abstract machine: stack effect of the opcode, control transfer, frame      *)
(* push/return protocol, exception unwinding, handler stack.  The specification is TOTAL:  *)
(* on a mismatch it records the first failing clause (why, at) and keeps consuming, so the  *)
(* rest of the trace is still checked and a rejection always names its clause.              *)
(*                                                                                        *)
(* Event e = [nf, fid, at, len, op, arg, sl, hl, bp, lp]                                  *)
(*   nf frames on the call stack, fid function id, at/len offset and length of the          *)
(*   instruction, sl operand-stack length BEFORE it executes, hl handler-stack length,       *)
(*   bp base of the executing frame, lp the loop that executes it ("main" | "cb").           *)
(* Shadow state reconstructed from the events:                                             *)
(*   rets : one record per live frame above the first: [fid, ip, sl, push, hl]               *)
(*          (where the caller continues, operand length it must see minus the result)        *)
(*   hs   : handler stack [nf, fid, catch, depth]                                            *)
(* Clauses (names reported in `why`):                                                       *)
(*   underflow, ip, depth, handlers, call-base, call-handlers, ret-target, ret-residue,      *)
(*   ret-handlers, catch-target, catch-depth, catch-handlers, bad-end, no-rule               *)
EXTENDS Naturals, Integers, Sequences, FiniteSets, TLC, Json, IOUtils

Traces == ndJsonDeserialize(IOEnv.OBS_FILE)          \* [id, ev : seq of events, end : [o, sl]]

VARIABLES tid, l, rets, hs, ok, why
vars == <<tid, l, rets, hs, ok, why>>

\* <<needs, pops, pushes>> as in JsVM.tla
Eff(i) ==
  LET o == i.op a == i.arg IN
  CASE o = "POP" -> <<0, 1, 0>>
    [] o = "DUP" -> <<1, 0, 1>>   [] o = "DUP2" -> <<2, 0, 2>>
    [] o = "SWAP" -> <<2, 0, 0>> [] o = "ROT3" -> <<3, 0, 0>> [] o = "ROT4" -> <<4, 0, 0>>
    [] o \in {"LOAD_CONST", "LOAD_UNDEFINED", "LOAD_NULL", "LOAD_TRUE", "LOAD_FALSE", "LOAD_NAME", "LOAD_LOCAL",
              "LOAD_CLOSURE", "LOAD_CELL", "THIS", "BUILD_REGEX", "TYPEOF_NAME"} -> <<0, 0, 1>>
    [] o \in {"STORE_NAME", "STORE_LOCAL", "STORE_CLOSURE", "STORE_CELL"} -> <<1, 0, 0>>
    [] o \in {"GET_PROP", "DELETE_PROP"} -> <<2, 2, 1>>
    [] o = "SET_PROP" -> <<3, 3, 1>>
    [] o = "BUILD_ARRAY" -> <<a, a, 1>>
    [] o = "BUILD_OBJECT" -> <<3 * a, 3 * a, 1>>
    [] o \in {"ADD", "SUB", "MUL", "DIV", "MOD", "POW", "BAND", "BOR", "BXOR", "SHL", "SHR", "USHR",
              "LT", "LE", "GT", "GE", "EQ", "NE", "SEQ", "SNE", "INSTANCEOF", "IN"} -> <<2, 2, 1>>
    [] o \in {"NEG", "POS", "BNOT", "NOT", "TYPEOF", "INC", "DEC", "MAKE_CLOSURE", "FOR_IN_INIT", "FOR_OF_INIT"} -> <<1, 1, 1>>
    [] o \in {"JUMP", "TRY_START", "TRY_END", "CATCH"} -> <<0, 0, 0>>
    [] o \in {"JUMP_IF_FALSE", "JUMP_IF_TRUE", "THROW"} -> <<1, 1, 0>>
    [] o \in {"CALL", "NEW"} -> <<a + 1, a + 1, 1>>
    [] o = "CALL_METHOD" -> <<a + 2, a + 2, 1>>
    [] o \in {"RETURN"} -> <<1, 1, 0>>
    [] o = "RETURN_UNDEFINED" -> <<0, 0, 0>>
    [] o \in {"FOR_IN_NEXT", "FOR_OF_NEXT"} -> <<1, 0, 1>>
    [] OTHER -> <<0, 0, 0>>
IsRet(e) == e.op \in {"RETURN", "RETURN_UNDEFINED"}
\* instructions during which script code may be entered (a frame push follows)
MayEnter(e) == e.op \in {"CALL", "CALL_METHOD", "NEW", "GET_PROP", "SET_PROP", "ADD", "SUB", "MUL", "DIV", "MOD", "POW",
                         "LT", "LE", "GT", "GE", "EQ", "NE", "NEG", "POS", "INC", "DEC", "BAND", "BOR", "BXOR", "SHL", "SHR",
                         "USHR", "BNOT", "IN", "INSTANCEOF", "DELETE_PROP"}

Init == tid \in 1..Len(Traces) /\ l = 1 /\ rets = <<>> /\ hs = <<>> /\ ok = TRUE /\ why = <<>>
Fail(c) == ok' = FALSE /\ why' = IF ok THEN <<l, c>> ELSE why
Good == UNCHANGED <<ok, why>>
Check(cond, c) == IF cond THEN Good ELSE Fail(c)
Top(q) == q[Len(q)]
Pop(q) == SubSeq(q, 1, Len(q) - 1)
\* handlers that belong to frames strictly below depth nf (what survives when frame nf is gone)
HsBelow(q, nf) == SelectSeq(q, LAMBDA h : h.nf < nf)

Step ==
  LET T == Traces[tid].ev  e == T[l]  f == T[l + 1]
      ef == Eff(e)  popped == e.sl - ef[2]  after == popped + ef[3]  nip == e.at + e.len
  IN
  /\ l < Len(T) /\ l' = l + 1 /\ UNCHANGED tid
  /\ IF e.op # "POP" /\ e.sl - e.bp < ef[1] THEN Fail("underflow") /\ UNCHANGED <<rets, hs>>
     \* ---- the exception edge: the next instruction is the catch address of the innermost handler --------
     ELSE IF hs # <<>> /\ f.nf = Top(hs).nf /\ f.fid = Top(hs).fid /\ f.at = Top(hs).catch
             /\ ~(f.nf = e.nf /\ f.fid = e.fid /\ e.op = "JUMP" /\ e.arg = f.at) /\ ~(f.nf = e.nf /\ f.fid = e.fid /\ nip = f.at /\ e.op \in {"TRY_END", "JUMP_IF_FALSE", "JUMP_IF_TRUE", "POP"})
          THEN /\ Check(f.sl = Top(hs).depth + 1, "catch-depth")
               /\ hs' = Pop(hs)
               /\ rets' = SubSeq(rets, 1, f.nf - Traces[tid].ev[1].nf)
     \* ---- same frame, next instruction ---------------------------------------------------------------
     ELSE IF f.nf = e.nf /\ f.fid = e.fid /\ ~IsRet(e) THEN
          LET ipok == CASE e.op = "JUMP" -> f.at = e.arg
                        [] e.op \in {"JUMP_IF_FALSE", "JUMP_IF_TRUE"} -> f.at \in {e.arg, nip}
                        [] OTHER -> f.at = nip
              slok == CASE e.op \in {"FOR_IN_NEXT", "FOR_OF_NEXT"} -> f.sl \in {e.sl + 1, e.sl + 2}
                        [] e.op = "POP" -> f.sl = (IF e.sl > 0 THEN e.sl - 1 ELSE 0)
                        [] OTHER -> f.sl = after
              hl2  == CASE e.op = "TRY_START" -> e.hl + 1
                        [] e.op = "TRY_END" -> (IF e.hl > 0 THEN e.hl - 1 ELSE 0)
                        [] OTHER -> e.hl
          IN /\ (IF ~ipok THEN Fail("ip") ELSE IF ~slok THEN Fail("depth") ELSE IF f.hl # hl2 THEN Fail("handlers") ELSE Good)
             /\ hs' = (CASE e.op = "TRY_START" -> Append(hs, [nf |-> e.nf, fid |-> e.fid, catch |-> e.arg, depth |-> e.sl])
                         [] e.op = "TRY_END" -> (IF hs = <<>> THEN hs ELSE Pop(hs))
                         [] OTHER -> hs)
             /\ UNCHANGED rets
     \* ---- frame push: a call, or a native running script code --------------------------------------
     ELSE IF f.nf = e.nf + 1 /\ f.at = 0 /\ MayEnter(e) THEN
          /\ (IF f.bp # popped THEN Fail("call-base") ELSE IF f.sl # f.bp THEN Fail("call-base") ELSE IF f.hl # e.hl THEN Fail("call-handlers") ELSE Good)
          /\ rets' = Append(rets, [fid |-> e.fid, ip |-> nip, sl |-> popped, push |-> ef[3], hl |-> e.hl, nf |-> e.nf])
          /\ UNCHANGED hs
     \* ---- return: the caller continues after its call instruction and sees exactly the result -------
     ELSE IF IsRet(e) /\ rets # <<>> /\ f.nf = e.nf - 1 THEN
          LET r == Top(rets) IN
          /\ (IF f.fid # r.fid \/ f.at # r.ip THEN Fail("ret-target")
              ELSE IF f.sl # r.sl + r.push THEN Fail("ret-residue")
              ELSE IF f.hl # Len(HsBelow(hs, e.nf)) THEN Fail("ret-handlers") ELSE Good)
          /\ rets' = Pop(rets) /\ hs' = HsBelow(hs, e.nf)
     \* ---- a native calls back again after a callback returned (forEach and friends) ------------------
     ELSE IF IsRet(e) /\ rets # <<>> /\ f.nf = e.nf /\ f.at = 0 THEN
          LET r == Top(rets) IN
          /\ (IF f.bp # r.sl THEN Fail("cb-residue") ELSE IF f.hl # Len(HsBelow(hs, e.nf)) THEN Fail("ret-handlers") ELSE Good)
          /\ hs' = HsBelow(hs, e.nf) /\ UNCHANGED rets
     ELSE Fail("no-rule") /\ UNCHANGED <<rets, hs>>

\* the last event: the program ended there
Finish ==
  LET T == Traces[tid].ev  e == T[l]  en == Traces[tid].end IN
  /\ l = Len(T) /\ l' = l + 1 /\ UNCHANGED <<tid, rets, hs>>
  /\ IF en.o = "value" THEN Check(IsRet(e) /\ e.nf = T[1].nf, "bad-end")
     ELSE Good                     \* an uncaught throw / limit error may stop anywhere; no handler may have been live for a throw:
Next == Step \/ Finish
Spec == Init /\ [][Next]_vars
Done == l = Len(Traces[tid].ev) + 1
Report == ~Done \/ PrintT(ToJson([id |-> Traces[tid].id, ok |-> ok, why |-> why]))
\* invariants evaluated at every consumed step
ShadowSane == Len(hs) <= 64 /\ Len(rets) <= 512
=============================================================================
