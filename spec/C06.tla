-------------------------------- MODULE C06 --------------------------------
(* C06 - operators and conversions on primitive values follow ECMAScript.       *)
(*   Grid   : the boundary operand values, written as the texts that denote them *)
(*   Enum   : the case space (operator x operand pair x target form), printed    *)
(*   Laws   : properties of the reference (JsOps / Dbl / JsConv) itself           *)
(*   Judge  : records observed on the real engine, judged against JsOps          *)
EXTENDS JsOpsAsIs, JsLit, Json, IOUtils, TLCExt

S(txt) == VStr(U(txt))
N(txt) == ToNumberV(S(txt))

\* ---------------- operand grid -----------------------------------------------------------------
GridSeq == <<
  \* 1..10
  N("NaN"), N("0"), N("-0"), N("Infinity"), N("-Infinity"), N("1"), N("-1"), N("0.5"), N("1.5"), N("-7"),
  \* 11..20
  N("3"), N("2147483648"), N("4294967295"), N("9007199254740992"), N("1e21"), N("1e-7"), N("5e-324"),
  N("1.7976931348623157e308"), S(""), S(" 12 "),
  \* 21..31   (the quick grid is 1..31)
  S("1e3"), S("0x10"), S("1_0"), S("Infinity"), S("abc"), S("-0"), S("a"), VBool(TRUE), VBool(FALSE), Null, Undef,
  \* 32..  numbers
  N("-0.5"), N("-1.5"), N("0.1"), N("0.3"), N("2"), N("7"), N("10"), N("31"), N("32"), N("33"),
  N("2147483647"), N("2147483649"), N("-2147483648"), N("-2147483649"), N("4294967296"), N("4294967297"),
  N("-4294967295"), N("4294967296.5"), N("9007199254740991"), N("9007199254740994"), N("-9007199254740992"),
  N("-9007199254740991"), N("1e16"), N("123456789"), N("1e-5"), N("0.000001"), N("-1e21"), N("1e300"),
  N("2.2250738585072014e-308"), N("-5e-324"), N("-1.7976931348623157e308"), N("1e-300"), N("65535.5"),
  \* strings
  S(" "), S("0"), S("1"), S("-1"), S("1.5"), S("10"), S("9"), S("0b1"), S("0o17"), S("-Infinity"), S("+Infinity"),
  S("1,2"), S("b"), S("ab"), S("true"), S("null"), S("undefined"), S("NaN"), S(".5"), S("5."), S("+5"), S("1e"),
  S("0x"), S("-0x10"), S("1e1000"), S("-1e-400"), S("9007199254740993"), S("1E3"), S("0.1"), S("Infinit"), S("infinity"),
  VStr(<<65279, 49, 160>>), VStr(<<28, 49>>), VStr(<<9, 10, 49, 50, 13>>), S("1 2"), S("1e21"), S("1e-7"), S("1000000000000000000000"),
  S("12px"), S("-"), S("A"), S("0xe"), S("0x1E"), S("-0.0"), S("1_0.5"), S("00012"), S("1e+2"), S("-.5e1")
>>
NGrid == Len(GridSeq)
Tier == IF "TIER" \in DOMAIN IOEnv THEN IOEnv.TIER ELSE "quick"
Quick == Tier = "quick"
\* the quick grid: the first 31 values plus the string "0" and the two strings that tell the ECMAScript white space
\* set from the host's (a mutant that made "0" falsy, or trimmed with the host set, was seen only by random trees before)
\* round 3: a negative non-integer and a negative even integer (the int32 boundary): the quick grid had no negative
\* number that is not an odd integer (GridLaw below names the classes)
QuickExtra == {gi \in 1..NGrid : GridSeq[gi] \in {S("0"), VStr(<<65279, 49, 160>>), VStr(<<28, 49>>), N("-1.5"), N("-2147483648")}}
GridIdx == IF Quick THEN (1..31) \cup QuickExtra ELSE 1..NGrid
\* sub-grid for the assignment-target forms (the lowering, not the operator, is what varies there); it contains a
\* negative number so that >>>= and >>= differ (a mutant mapping >>>= to the >> opcode went unnoticed without it)
TargetIdx == IF Quick THEN {1, 3, 6, 7, 9, 14, 20, 27, 28, 31} ELSE {1, 2, 3, 4, 6, 7, 9, 10, 12, 14, 15, 17, 19, 20, 21, 23, 25, 27, 28, 30, 31}
Targets == <<"global", "local", "cell", "free", "dot", "computed", "elem", "elemvar">>
BinOpSeq == <<"+", "-", "*", "/", "%", "**", "&", "|", "^", "<<", ">>", ">>>", "<", "<=", ">", ">=", "==", "!=", "===", "!==", "&&", "||", ",">>
CmpdOpSeq == <<"+", "-", "*", "/", "%", "**", "&", "|", "^", "<<", ">>", ">>>">>
UnOpSeq == <<"neg", "pos", "!", "~", "typeof", "void">>
CondA == 6            \* index of 1
CondB == 27           \* index of "a"

\* ---------------- strings of look-alike characters (round 2) -----------------------------------
\* The StringNumericLiteral grammar knows the ASCII digits, the ASCII signs, ".", "e" / "E", "0x" / "0o" / "0b" and the
\* word Infinity, inside the ECMAScript white space set.  A host's conversion routines know more: every Unicode decimal
\* digit, "digits" that are not decimal (superscripts, circled, Roman, CJK), other signs, words such as inf / nan, another
\* white space set, a length limit.  The family puts a look-alike into every POSITION of the grammar
\* (class = position x kind of substitute); the grid above contains Latin-script strings only.
UStr(cls, us) == [ui_k \in 1..Len(us) |-> [cls |-> cls, u |-> us[ui_k]]]
UDigitZeros == <<1632, 65296, 2406, 1776, 3664, 6160>>    \* digit zero of Arabic-Indic, fullwidth, Devanagari, Extended Arabic-Indic, Thai, Mongolian (Unicode Nd)
UOtherDigits == << <<178, 185>>, <<9312, 9313>>, <<8321, 8322>>, <<8544, 8545>>, <<19968, 20108>>, <<189>>, <<9332>>, <<12295>> >>
                                                          \* superscript, circled, subscript, Roman, CJK, one half, parenthesized, ideographic zero
UEsWsSeq == <<12288, 8232, 160, 5760, 8192, 8193, 8194, 8195, 8196, 8197, 8198, 8199, 8200, 8201, 8202, 8233, 8239, 8287, 9, 10, 11, 12, 13, 32>>
UHostWsSeq == <<133, 31, 28, 29, 30>>                     \* trimmed by the host's strip(), not white space in ECMAScript
UNoWsSeq == <<8203, 6158, 8288, 0, 8204, 65534>>          \* white space for neither (zero width space, Mongolian vowel separator, ...)
URep(c, n) == [ui_k \in 1..n |-> c]
UniAll ==
     UStr("digits-nd", [ui_k \in 1..Len(UDigitZeros) |-> <<UDigitZeros[ui_k] + 1, UDigitZeros[ui_k] + 2>>])
  \o UStr("digits-other", UOtherDigits)
  \o UStr("digit-mixed", << <<49, 1634>>, <<178, 50>>, <<1633, 50>>, <<49, 65298>>, <<9312, 48>> >>)
  \o UStr("digit-frac", << <<49, 46, 1637>>, <<46, 65301>>, <<1633, 46, 53>>, <<49, 46, 178>> >>)
  \o UStr("digit-exp", << <<49, 101, 1635>>, <<49, 101, 45, 65299>>, <<65297, 101, 51>>, <<49, 69, 179>> >>)
  \o UStr("digit-signed", << <<45, 1633>>, <<43, 65297>>, <<45, 185>>, <<43, 2407>> >>)
  \o UStr("digit-radix", << <<48, 120, 1633>>, <<48, 120, 65345>>, <<48, 98, 65297>>, <<48, 111, 1639>>, <<48, 120, 65313>> >>)
  \o UStr("sign", << <<8722, 49>>, <<65291, 49>>, <<65293, 49>>, <<8211, 49>>, <<65123, 49>>, <<8208, 49>> >>)
  \o UStr("point", << <<49, 65294, 53>>, <<49, 1643, 53>>, <<49, 183, 53>>, <<49, 12290, 53>> >>)
  \o UStr("expmark", << <<49, 65349, 51>>, <<49, 1077, 51>>, <<49, 8495, 51>>, <<49, 65317, 51>> >>)
  \o UStr("radixmark", << <<48, 65368, 49, 48>>, <<65296, 120, 49, 48>>, <<48, 1093, 49, 48>>, <<48, 215, 49, 48>>, <<48, 65336, 49, 48>> >>)
  \o UStr("word-alike", << <<65321>> \o U("nfinity"), <<8734>>, U("Inf") \o <<305>> \o U("nity"), <<45, 8734>>, U("Infinit") \o <<65369>> >>)
  \o UStr("word-host", << U("inf"), U("nan"), U("-inf"), U("+nan"), U("INFINITY"), U("Inf"), U("-Infinit"), U("1e"), U("Infinityx") >>)
  \o UStr("ws-es-only", << <<65279, 49>>, <<49, 65279>> >>)
  \o UStr("ws-host-lead", [ui_k \in 1..Len(UHostWsSeq) |-> <<UHostWsSeq[ui_k], 49>>])
  \o UStr("ws-host-trail", [ui_k \in 1..Len(UHostWsSeq) |-> <<49, UHostWsSeq[ui_k]>>])
  \o UStr("ws-both-lead", [ui_k \in 1..Len(UEsWsSeq) |-> <<UEsWsSeq[ui_k], 49>>])
  \o UStr("ws-both-trail", [ui_k \in 1..Len(UEsWsSeq) |-> <<49, UEsWsSeq[Len(UEsWsSeq) + 1 - ui_k]>>])
  \o UStr("ws-none", << <<8203, 49>>, <<49, 6158>>, <<8288, 49>>, <<49, 0>>, <<8204, 49>>, <<49, 65534>> >>)
  \o UStr("ws-inner", << <<45, 32, 49>>, <<49, 12288, 101, 51>>, <<48, 32, 120, 49>>, <<43, 160, 49>>, <<49, 46, 32, 53>> >>)
  \* long operands: a white space run beyond the host's 4300-digit conversion limit, digit runs of 400 (Str!Trim is
  \* quadratic in the trimmed length, so digit runs beyond the host limit are not affordable here)
  \o UStr("long", << URep(32, 4400) \o <<49>> \o URep(10, 300), URep(48, 400) \o <<55>>, <<49>> \o URep(48, 400),
                     <<48, 46>> \o URep(48, 400) \o <<49>>, <<48, 120>> \o URep(48, 400) \o <<102>>, <<45>> \o URep(48, 400) >>)
NUni == Len(UniAll)
UniClasses == {UniAll[ui_k].cls : ui_k \in 1..NUni}
URank(k) == Cardinality({ui_j \in 1..k : UniAll[ui_j].cls = UniAll[k].cls})
\* quick: the first two members of every class (so every class is there by construction); thorough: all
UniIdx == {NGrid + ui_k : ui_k \in {ui_j \in 1..NUni : ~Quick \/ URank(ui_j) <= 2}}
\* ---------------- the Number::exponentiate table: base class x exponent class (round 3) ----------
\* Number::exponentiate is a table over the CLASS of the base (NaN, zero, infinity, magnitude one / below / above, each
\* sign) and the class of the exponent (NaN, zero, infinity, odd integer, even integer, non-integer whose integer part
\* is odd / even, each sign, also beyond 2^31, 2^32 and 2^53 where every double is an even integer).  The family is
\* the product of the two, under `**` and `**=`; members of a class alternate in sign.
PCls(role, cls, txts) == [pi_k \in 1..Len(txts) |-> [role |-> role, cls |-> cls, v |-> N(txts[pi_k])]]
PowAll ==
     PCls("base", "zero", <<"-0", "0">>)
  \o PCls("base", "inf", <<"-Infinity", "Infinity">>)
  \o PCls("base", "nan", <<"NaN">>)
  \o PCls("base", "one", <<"-1", "1">>)
  \o PCls("base", "lt1", <<"-0.5", "0.5", "0.9999999999999999", "-5e-324", "5e-324", "-0.3">>)
  \o PCls("base", "gt1", <<"-2", "2", "-1.0000000000000002", "3", "-3", "1.5", "-1.5", "10", "-7",
                            "1.7976931348623157e308", "-1.7976931348623157e308">>)
  \o PCls("exp", "special", <<"NaN", "0", "-0", "Infinity", "-Infinity">>)
  \o PCls("exp", "odd-int", <<"-1", "3", "-3", "1", "-7", "9007199254740991", "-9007199254740991", "-2147483647", "4294967295">>)
  \o PCls("exp", "even-int", <<"-2", "2", "-4", "2147483648", "-4294967296", "9007199254740992", "-9007199254740992",
                               "1e21", "-1e21", "1.7976931348623157e308">>)
  \o PCls("exp", "frac-odd-trunc", <<"-1.5", "1.5", "-3.5", "-7.25", "-2147483647.5", "4294967295.5", "-1.0000000000000002",
                                     "4503599627370497.5">>)
  \o PCls("exp", "frac-even-trunc", <<"-2.5", "0.5", "-0.5", "2.5", "-2147483648.5", "5e-324", "-5e-324", "4503599627370496.5">>)
NPow == Len(PowAll)
PowClasses == {<<PowAll[pi_k].role, PowAll[pi_k].cls>> : pi_k \in 1..NPow}
PRank(k) == Cardinality({pi_j \in 1..k : PowAll[pi_j].role = PowAll[k].role /\ PowAll[pi_j].cls = PowAll[k].cls})
\* quick: the first two members of every class (one of each sign) and every special exponent; thorough: all
PowActive == {pi_k \in 1..NPow : ~Quick \/ PRank(pi_k) <= 2 \/ PowAll[pi_k].cls = "special"}
PowBaseIdx == {NGrid + NUni + pi_k : pi_k \in {pi_j \in PowActive : PowAll[pi_j].role = "base"}}
PowExpIdx == {NGrid + NUni + pi_k : pi_k \in {pi_j \in PowActive : PowAll[pi_j].role = "exp"}}
PowOps == <<"**">>
PowTargets == IF Quick THEN <<"global", "dot">> ELSE <<"global", "local", "cell", "free", "dot", "computed", "elem", "elemvar">>
AllSeq == GridSeq \o [ui_k \in 1..NUni |-> VStr(UniAll[ui_k].u)] \o [pi_k \in 1..NPow |-> PowAll[pi_k].v]
NAll == NGrid + NUni + NPow
\* partners of a look-alike string (both orders, every binary operator): a number (ToNumber path) and a string (+ < == between strings)
UniPartnerIdx == IF Quick THEN {6, 21} ELSE {1, 3, 6, 12, 19, 21, 25, 28}
UniCmpdPartner == 6
UniTargets == <<"local", "computed">>

\* ---------------- operands written as source text (round 2) -------------------------------------
\* So far every operand reached the script as a host value (Context.set).  LitIdx: values that are ALSO written as
\* literals, both operands in one program (one function body, one constant pool): every binary operator on the first
\* spelling of each, the other spellings next to the partners below; compound assignment `var x = <lit>; x op= <lit>` in
\* every target form; unary / update / conditional on every spelling.
LitIdx == IF Quick THEN (1..18) \cup {19, 20, 25, 28, 30, 31} ELSE 1..48
LitAltPartners == IF Quick THEN {2, 3, 6, 25} ELSE TargetIdx
LitTgtIdx == IF Quick THEN {2, 3, 7, 9, 20, 28} ELSE {2, 3, 6, 7, 9, 14, 20, 28}
LitAltOps == <<"+", "-", ",">>
LitAltCmpdOps == <<"+", "-", "*", "/">>                  \* thorough only: compound assignment on the other spellings
Lits(gi) == LitSpellings(AllSeq[gi])
LitCombos(ia, ib) ==
  LET na == Len(Lits(ia))  nb == Len(Lits(ib))
      tgt == ia \in LitTgtIdx /\ ib \in LitTgtIdx
  IN <<[sa |-> 1, sb |-> 1, bin |-> BinOpSeq, cmpd |-> IF tgt THEN CmpdOpSeq ELSE <<>>]>>
     \o (IF ib \in LitAltPartners
         THEN [li_k \in 1..(na - 1) |-> [sa |-> li_k + 1, sb |-> 1, bin |-> LitAltOps, cmpd |-> IF tgt /\ ~Quick THEN LitAltCmpdOps ELSE <<>>]] ELSE <<>>)
     \o (IF ia \in LitAltPartners
         THEN [li_k \in 1..(nb - 1) |-> [sa |-> 1, sb |-> li_k + 1, bin |-> LitAltOps, cmpd |-> IF tgt /\ ~Quick THEN LitAltCmpdOps ELSE <<>>]] ELSE <<>>)
\* ---------------- operands that change the assignment target (round 3) ---------------------------
\* Until now the operands of every enumerated case were values: no operand had an effect.  The operators of the property
\* that WRITE (++ -- = op=) can be operands of each other and of every other operator, and then it matters WHEN an
\* operator reads its target / its operands: `t op= R`, `t op R`, `R op t`, `R op R`, `R ? t : b`, `t ? R : t` where R is a
\* side effect on the same target t: the four update forms, `t = b`, `t += b`, a call of a function that stores b in t.
\* Trees are printed with grid indices at the leaves (JsOps!EvalS is the reference); every target form.
SeLit(gi) == [t |-> "lit", gi |-> gi]
SeVar == [t |-> "var"]
SeAIdx == IF Quick THEN {3, 6, 25} ELSE {1, 3, 6, 9, 14, 20, 25, 28, 31}       \* what the target holds at first
SeBSeq == IF Quick THEN <<7, 20>> ELSE <<7, 20, 9, 28>>                       \* what a side effect stores / adds
SeRet == 11                                                                   \* what the storing function returns
SeUpds == << [t |-> "upd", op |-> "++", pre |-> FALSE], [t |-> "upd", op |-> "++", pre |-> TRUE],
             [t |-> "upd", op |-> "--", pre |-> FALSE], [t |-> "upd", op |-> "--", pre |-> TRUE] >>
SeWrites(ib) == << [t |-> "asg", x |-> SeLit(ib)], [t |-> "cmpd", op |-> "+", x |-> SeLit(ib)],
                   [t |-> "call", w |-> SeLit(ib), x |-> SeLit(SeRet)] >>
SeR == SeUpds \o [se_k \in 1..(3 * Len(SeBSeq)) |-> SeWrites(SeBSeq[((se_k - 1) \div 3) + 1])[((se_k - 1) % 3) + 1]]
NSeR == Len(SeR)
SeBinOpSeq == IF Quick THEN <<"+", "-", "<", "&&", ",">> ELSE <<"+", "-", "*", "/", "&", ">>>", "<", ">=", "==", "===", "&&", "||", ",">>
SeBin(op, l, r) == [t |-> "bin", op |-> op, l |-> l, r |-> r]
\* t op= R, every compound operator
SeCm == [se_k \in 1..(Len(CmpdOpSeq) * NSeR) |-> [t |-> "cmpd", op |-> CmpdOpSeq[((se_k - 1) \div NSeR) + 1], x |-> SeR[((se_k - 1) % NSeR) + 1]]]
\* t op R, R op t, R op R;  R ? t : b,  t ? R : t
SeEx ==    [se_k \in 1..(Len(SeBinOpSeq) * NSeR) |-> SeBin(SeBinOpSeq[((se_k - 1) \div NSeR) + 1], SeVar, SeR[((se_k - 1) % NSeR) + 1])]
        \o [se_k \in 1..(Len(SeBinOpSeq) * NSeR) |-> SeBin(SeBinOpSeq[((se_k - 1) \div NSeR) + 1], SeR[((se_k - 1) % NSeR) + 1], SeVar)]
        \o [se_k \in 1..(Len(SeBinOpSeq) * NSeR) |-> SeBin(SeBinOpSeq[((se_k - 1) \div NSeR) + 1], SeR[((se_k - 1) % NSeR) + 1], SeR[((se_k - 1) % NSeR) + 1])]
        \o [se_k \in 1..NSeR |-> [t |-> "cond", c |-> SeR[se_k], x |-> SeVar, y |-> SeLit(SeBSeq[1])]]
        \o [se_k \in 1..NSeR |-> [t |-> "cond", c |-> SeVar, x |-> SeR[se_k], y |-> SeVar]]
SeExTargets == IF Quick THEN <<"global", "cell", "dot", "elemvar">> ELSE Targets
RECURSIVE SeFill(_)
SeFill(tr) ==
  CASE tr.t = "lit" -> [t |-> "lit", v |-> AllSeq[tr.gi]]
    [] tr.t \in {"asg", "cmpd", "un"} -> [tr EXCEPT !.x = SeFill(tr.x)]
    [] tr.t = "call" -> [tr EXCEPT !.w = SeFill(tr.w), !.x = SeFill(tr.x)]
    [] tr.t = "bin" -> [tr EXCEPT !.l = SeFill(tr.l), !.r = SeFill(tr.r)]
    [] tr.t = "cond" -> [tr EXCEPT !.c = SeFill(tr.c), !.x = SeFill(tr.x), !.y = SeFill(tr.y)]
    [] OTHER -> tr
\* laws of EvalS: `t op= R` is `t = t op R`; with R = `t = b`: `t op R` is a op b, `R op t` is b op b and b is left in t;
\* `t op= t++` is a op ToNumber(a); an expression without side effects is EvalTree and leaves t alone
SeLaws(a) ==
  /\ \A se_k \in 1..Len(SeCm) :
        LET tr == SeFill(SeCm[se_k])
        IN EvalS(tr, a) = EvalS([t |-> "asg", x |-> SeBin(tr.op, SeVar, tr.x)], a)
  /\ \A oi \in 1..Len(CmpdOpSeq) :
        LET e == EvalS([t |-> "cmpd", op |-> CmpdOpSeq[oi], x |-> SeUpds[1]], a)
        IN e.v = BinOp(CmpdOpSeq[oi], a, UnOp("pos", a)) /\ e.t = e.v
  /\ \A oi \in 1..Len(BinOpSeq) : \A bi \in 1..Len(SeBSeq) :
        LET op == BinOpSeq[oi]  b == AllSeq[SeBSeq[bi]]
            wr == [t |-> "asg", x |-> [t |-> "lit", v |-> b]]
            lr == EvalS(SeBin(op, SeVar, wr), a)
            rl == EvalS(SeBin(op, wr, SeVar), a)
            pure == SeBin(op, [t |-> "lit", v |-> a], [t |-> "lit", v |-> b])
        IN /\ (op \notin LogicOps => lr.v = BinOp(op, a, b) /\ lr.t = b /\ rl.v = BinOp(op, b, b) /\ rl.t = b)
           /\ (op \in LogicOps => (lr.t = a \/ lr.t = b) /\ rl.t = b)
           /\ EvalS(pure, a) = [v |-> EvalTree(pure), t |-> a]
\* an odd integer, said another way: an integer whose remainder modulo 2 has magnitude one
PowLaws(x, y) ==
  LET two == DOfSmallInt(2)
      odd == y.c = "fin" /\ DIsInteger(y) /\ LET rm == DFmod(y, two) IN rm.c = "fin" /\ DMagCmp(rm, DOne) = 0
      p == DPow(x, y)  q == DPow(DNeg(x), y)
  IN /\ DIsOddInt(y) = odd
     /\ (x.c = "zero" /\ y.c \in {"fin", "inf"} /\ y.s = 1 => p = NumV(DInf(IF x.s = 1 /\ odd THEN 1 ELSE 0)))
     \* (-x) ** y: the sign flips for an odd integer exponent, nothing changes for an even one
     /\ (y.c = "fin" /\ DIsInteger(y) /\ x.c # "nan" /\ ~IsApprox(p) /\ ~IsApprox(q) =>
            q = (IF odd THEN NumV(DNeg(DFromW(p.w))) ELSE p))
     /\ (IsApprox(p) /\ IsApprox(q) /\ y.c = "fin" /\ DIsInteger(y) => (p.s = q.s) = ~odd)
\* the quick grid has a finite non-zero number of every sign x {odd integer, even integer, non-integer}
GridLaw ==
  \A sg \in {0, 1} : \A cl \in {"odd", "even", "frac"} :
     \E gi \in GridIdx : /\ GridSeq[gi].k = "num"
                         /\ LET d == DFromW(GridSeq[gi].w)
                            IN /\ d.c = "fin" /\ d.s = sg
                               /\ cl = (IF ~DIsInteger(d) THEN "frac" ELSE IF DIsOddInt(d) THEN "odd" ELSE "even")
\* the sub-grids cover what they are meant to cover (a dropped class fails the specification run, not silently)
SpaceLaw ==
  /\ GridLaw
  /\ \A pc \in PowClasses : \E pi_k \in PowActive : <<PowAll[pi_k].role, PowAll[pi_k].cls>> = pc
  /\ \A pc \in PowClasses : pc[2] \notin {"nan", "special"} =>
        \A sg \in {0, 1} : \E pi_k \in PowActive : <<PowAll[pi_k].role, PowAll[pi_k].cls>> = pc /\ WSign(PowAll[pi_k].v.w) = sg
  /\ SeAIdx \subseteq GridIdx /\ {SeBSeq[se_k] : se_k \in 1..Len(SeBSeq)} \cup {SeRet} \subseteq LitIdx
  /\ \E gi \in SeAIdx : AllSeq[gi].k = "str"
  /\ \E gi \in SeAIdx : AllSeq[gi].k = "num"
  /\ \A cl \in UniClasses : \E gi \in UniIdx : UniAll[gi - NGrid].cls = cl
  /\ LitIdx \subseteq GridIdx /\ LitTgtIdx \subseteq LitIdx /\ LitAltPartners \subseteq LitIdx /\ UniPartnerIdx \subseteq GridIdx
  /\ {N("0"), N("-0")} \subseteq {AllSeq[gi] : gi \in LitTgtIdx \cap LitAltPartners}
  /\ \A kd \in PrimKinds : \E gi \in LitIdx : AllSeq[gi].k = kd
  /\ \A gi \in LitIdx : AllSeq[gi].k = "num" /\ DFromW(AllSeq[gi].w).c \in {"zero", "fin"} => Len(Lits(gi)) >= 2

\* ---------------- Enum: print the case space --------------------------------------------------
VARIABLES ph, cur, rec_i          \* rec_i: never a name that library operators bind
vars == <<ph, cur, rec_i>>
EnumInit == ph = "start" /\ cur = [a |-> 0, b |-> 0] /\ rec_i = 0
PairPartners(ia) == IF ia \in PowBaseIdx THEN PowExpIdx
                    ELSE IF ia \in UniIdx THEN UniPartnerIdx ELSE GridIdx \cup (IF ia \in UniPartnerIdx THEN UniIdx ELSE {})
EnumNext ==
  \/ /\ ph = "start"
     /\ \E ia \in GridIdx \cup UniIdx \cup PowBaseIdx : ph' = "row" /\ cur' = [a |-> ia, b |-> 0] /\ UNCHANGED rec_i
  \/ /\ ph = "start"
     /\ \E ia \in SeAIdx : ph' = "se" /\ cur' = [a |-> ia, b |-> 0] /\ UNCHANGED rec_i
  \/ /\ ph = "row"
     /\ \E ib \in PairPartners(cur.a) : ph' = "pair" /\ cur' = [a |-> cur.a, b |-> ib] /\ UNCHANGED rec_i
EnumEmit ==
  CASE ph = "start" -> PrintT(ToJson([kind |-> "grid", vals |-> AllSeq, ngrid |-> NGrid, nuni |-> NUni, targets |-> Targets,
                                      lits |-> [gi \in 1..NAll |-> Lits(gi)]]))
    [] ph = "row" -> PrintT(ToJson([kind |-> "single", a |-> cur.a, un |-> UnOpSeq, upd |-> <<"++", "--">>,
                                    targets |-> IF cur.a \in TargetIdx \cup UniIdx THEN Targets ELSE <<"global", "dot">>,
                                    untargets |-> <<"global", "local">>,
                                    cond |-> [a |-> CondA, b |-> CondB],
                                    lit |-> IF cur.a \in LitIdx THEN [li_k \in 1..Len(Lits(cur.a)) |-> li_k] ELSE <<>>]))
    [] ph = "se" -> PrintT(ToJson([kind |-> "se", a |-> cur.a, cm |-> SeCm, ex |-> SeEx, cmtargets |-> Targets,
                                  extargets |-> SeExTargets, lit |-> (cur.a \in LitIdx)]))
    [] ph = "pair" /\ cur.a \in PowBaseIdx ->
                      PrintT(ToJson([kind |-> "pair", fam |-> "pow", a |-> cur.a, b |-> cur.b, bin |-> PowOps, cmpd |-> PowOps,
                                     targets |-> PowTargets,
                                     lit |-> <<[sa |-> 1, sb |-> 1, bin |-> PowOps, cmpd |-> PowOps]>>]))
    [] ph = "pair" /\ cur.a \notin PowBaseIdx -> LET uni == cur.a \in UniIdx \/ cur.b \in UniIdx IN
                      PrintT(ToJson([kind |-> "pair", fam |-> "", a |-> cur.a, b |-> cur.b, bin |-> BinOpSeq,
                                     cmpd |-> IF (cur.a \in TargetIdx /\ cur.b \in TargetIdx) \/ (cur.a \in UniIdx /\ cur.b = UniCmpdPartner)
                                              THEN CmpdOpSeq ELSE <<>>,
                                     targets |-> IF uni THEN UniTargets ELSE Targets,
                                     lit |-> IF cur.a \in LitIdx /\ cur.b \in LitIdx THEN LitCombos(cur.a, cur.b) ELSE <<>>]))

\* ---------------- Laws of the reference -------------------------------------------------------
IsT(v) == v.k = "bool" /\ v.b
B(op, a, b) == BinOp(op, a, b)
NumResultOK(v) == IsApprox(v) \/ (v.k = "num" /\ DCanon(DFromW(v.w)) /\ DToW(DFromW(v.w)) = v.w)
PairLaws(a, b) ==
  LET x == ToNumberD(a)  y == ToNumberD(b)
      anynan == x.c = "nan" \/ y.c = "nan"
      nostr == a.k # "str" /\ b.k # "str"
      sum == DAdd(x, y)  dif == DSub(x, y)  prd == DMul(x, y)  quo == DDiv(x, y)  rem == DFmod(x, y)
  IN /\ IsT(B("<", a, b)) = IsT(B(">", b, a))
     /\ IsT(B("<=", a, b)) = IsT(B(">=", b, a))
     /\ (IsT(B("===", a, b)) => IsT(B("==", a, b)))
     /\ IsT(B("==", a, b)) = IsT(B("==", b, a))
     /\ IsT(B("===", a, b)) = IsT(B("===", b, a))
     /\ IsT(B("!=", a, b)) = ~IsT(B("==", a, b))
     /\ IsT(B("!==", a, b)) = ~IsT(B("===", a, b))
     \* at most one of <, ==(numeric), > ; exactly one when neither side converts to NaN and they are not both strings
     /\ ~(IsT(B("<", a, b)) /\ IsT(B(">", a, b)))
     /\ (~anynan /\ ~(a.k = "str" /\ b.k = "str") =>
           (IF IsT(B("<", a, b)) THEN 1 ELSE 0) + (IF IsT(B(">", a, b)) THEN 1 ELSE 0) + (IF DNumEq(x, y) THEN 1 ELSE 0) = 1)
     /\ (anynan /\ ~(a.k = "str" /\ b.k = "str") => \A op \in RelOps : ~IsT(B(op, a, b)))
     \* NaN poisons arithmetic
     /\ (anynan => \A op \in {"-", "*", "/", "%"} : B(op, a, b) = NumV(DNaN))
     /\ (anynan /\ nostr => B("+", a, b) = NumV(DNaN))
     \* results of numeric operators are doubles in canonical encoding
     /\ \A op \in ArithOps \cup BitOps : NumResultOK(B(op, a, b))
     /\ (nostr => NumResultOK(B("+", a, b)))
     /\ (~nostr => B("+", a, b).k = "str")
     \* commutativity
     /\ sum = DAdd(y, x) /\ prd = DMul(y, x)
     /\ B("&", a, b) = B("&", b, a) /\ B("|", a, b) = B("|", b, a) /\ B("^", a, b) = B("^", b, a)
     \* the functional results satisfy the relational specifications (two independent formulations)
     /\ AddOK(x, y, sum) /\ SubOK(x, y, dif) /\ MulOK(x, y, prd) /\ DivOK(x, y, quo) /\ FmodOK(x, y, rem)
     /\ DCanon(sum) /\ DCanon(dif) /\ DCanon(prd) /\ DCanon(quo) /\ DCanon(rem)
     \* remainder: sign of the dividend, magnitude below the divisor
     /\ (rem.c = "fin" => rem.s = x.s /\ (y.c = "inf" \/ DMagCmp(rem, y) < 0))
     /\ (rem.c = "zero" /\ x.c # "nan" => rem.s = x.s)
     \* x - y = x + (-y);  (-x) * y = -(x * y);  (-x) / y = -(x / y)
     /\ dif = DAdd(x, DNeg(y)) /\ DMul(DNeg(x), y) = DNeg(prd) /\ DDiv(DNeg(x), y) = DNeg(quo)
     \* bitwise results are int32, >>> results are uint32; shifts mask the count
     /\ \A op \in {"&", "|", "^", "<<", ">>"} : LET r == DFromW(B(op, a, b).w) IN DToInt32(r) = r
     /\ LET r == DFromW(B(">>>", a, b).w) IN DToUint32(r) = r
     /\ B("|", a, VInt(0)) = NumV(DToInt32(x)) /\ B(">>>", a, VInt(0)) = NumV(DToUint32(x))
     /\ B("<<", a, b) = B("<<", a, NumV(DOfSmallInt(ShiftCount(y))))
     \* logical operators select an operand
     /\ B("&&", a, b) = (IF ToBool(a) THEN b ELSE a) /\ B("||", a, b) = (IF ToBool(a) THEN a ELSE b)
     \* compound assignment is Get; Op; Put
     /\ \A op \in CompoundOps : CmpdOp(op, a, b).after = B(op, a, b)
     \* the implementation-shaped model with every deviation switched off is the reference
     /\ \A ir \in BOOLEAN : \A oi \in 1..Len(BinOpSeq) :
           LET op == BinOpSeq[oi]  x1 == ABinOp(op, AIn(a, ir, {}), AIn(b, ir, {}), {})
           IN (IF x1.k = "approx" THEN x1 ELSE AOut(x1)) = B(op, a, b)
SingleLaws(a) ==
  LET x == ToNumberD(a)
      inc == UpdOp("++", TRUE, a)  pinc == UpdOp("++", FALSE, a)
  IN /\ TypeOfU(a) \in {TypeOfU(Undef), TypeOfU(Null), TypeOfU(VBool(TRUE)), TypeOfU(VInt(1)), TypeOfU(VStr(<<>>))}
     /\ UnOp("!", UnOp("!", a)) = VBool(ToBool(a))
     /\ UnOp("pos", a) = B("-", a, VInt(0)) /\ UnOp("pos", a) = B("*", a, VInt(1)) /\ UnOp("pos", a) = B("/", a, VInt(1))
     /\ UnOp("neg", UnOp("neg", a)) = UnOp("pos", a)
     /\ (x.c # "nan" => UnOp("~", UnOp("~", a)) = B("|", a, VInt(0)))
     /\ DToInt32(DToInt32(x)) = DToInt32(x) /\ DToInt32(DToUint32(x)) = DToInt32(x)
     /\ inc.res = inc.after /\ pinc.res = UnOp("pos", a) /\ pinc.after = inc.after /\ inc.after = B("+", UnOp("pos", a), VInt(1))
     \* number -> text -> number round trip; the functional text satisfies the relational specification
     /\ (a.k = "num" => /\ ToNumberV(VStr(ToStringU(a))) = (IF WIsZero(a.w) THEN VInt(0) ELSE a)
                        /\ NumTextOK(DFromW(a.w), ToStringU(a)))
     /\ (a.k = "str" => StrDenotes(a.u, x) /\ DCanon(x))
     /\ IsT(B("===", a, a)) = (a.k # "num" \/ ~WIsNaN(a.w))
     \* the implementation-shaped model with every deviation switched off is the reference
     /\ \A ir \in BOOLEAN :
           /\ \A oi \in 1..Len(UnOpSeq) : AOut(AUnOp(UnOpSeq[oi], AIn(a, ir, {}), {})) = UnOp(UnOpSeq[oi], a)
           /\ \A op \in UpdateOps : \A pre \in BOOLEAN :
                 LET u1 == AUpdOp(op, pre, AIn(a, ir, {}), {})  u0 == UpdOp(op, pre, a)
                 IN AOut(u1.res) = u0.res /\ AOut(u1.after) = u0.after
\* every spelling of a value, read back, denotes that value; the first spelling of a number is its ToString
LitLaws(a) ==
  LET sps == LitSpellings(a)
  IN /\ sps # <<>>
     /\ \A li_k \in 1..Len(sps) : LitValue(sps[li_k].t) = a
     /\ (a.k = "num" => sps[1].t = ToStringU(a) \/ (WIsZero(a.w) /\ WSign(a.w) = 1))
     /\ \A li_k, li_j \in 1..Len(sps) : li_k # li_j => sps[li_k].t # sps[li_j].t
LawsHold == CASE ph = "start" -> /\ \A gi \in GridIdx \cup UniIdx : AllSeq[gi].k \in PrimKinds /\ (AllSeq[gi].k = "num" => NumResultOK(AllSeq[gi]))
                                 /\ SpaceLaw
              [] ph = "row" -> SingleLaws(AllSeq[cur.a]) /\ LitLaws(AllSeq[cur.a])
              [] ph = "pair" -> /\ PairLaws(AllSeq[cur.a], AllSeq[cur.b])
                                /\ (cur.a \in PowBaseIdx => PowLaws(ToNumberD(AllSeq[cur.a]), ToNumberD(AllSeq[cur.b])))
              [] ph = "se" -> SeLaws(AllSeq[cur.a])
              [] OTHER -> TRUE

\* ---------------- Judge ------------------------------------------------------------------------
Recs == ndJsonDeserialize(IOEnv.OBS_FILE)     \* [id, f, op, tgt, pre, a, b, c, la, lb, lc, intrep, tree, out]
\* operands written as source text (la / lb / lc, tree leaves' lt; <<>> = handed over as a host value): the judge reads the
\* literal itself; the value the enumeration attached to it must be what the text denotes
LitOK(txt, v) == txt = <<>> \/ TLCCache(LitValue(txt), txt) = v        \* memoised per text (decimal -> binary is the costly part)
RECURSIVE TreeLitsOK(_)
TreeLitsOK(tr) == CASE tr.t = "lit" -> LitOK(tr.lt, tr.v)
                    [] tr.t = "un" -> TreeLitsOK(tr.x)
                    [] tr.t = "bin" -> TreeLitsOK(tr.l) /\ TreeLitsOK(tr.r)
                    [] tr.t = "cond" -> TreeLitsOK(tr.c) /\ TreeLitsOK(tr.x) /\ TreeLitsOK(tr.y)
                    [] OTHER -> TRUE
RECURSIVE SeLitsOK(_)
SeLitsOK(tr) == CASE tr.t = "lit" -> LitOK(tr.lt, tr.v)
                  [] tr.t \in {"asg", "cmpd", "un"} -> SeLitsOK(tr.x)
                  [] tr.t = "call" -> SeLitsOK(tr.w) /\ SeLitsOK(tr.x)
                  [] tr.t = "bin" -> SeLitsOK(tr.l) /\ SeLitsOK(tr.r)
                  [] tr.t = "cond" -> SeLitsOK(tr.c) /\ SeLitsOK(tr.x) /\ SeLitsOK(tr.y)
                  [] OTHER -> TRUE
LitsOK(r) == LitOK(r.la, r.a) /\ LitOK(r.lb, r.b) /\ LitOK(r.lc, r.c) /\ (IF r.f = "se" THEN SeLitsOK(r.tree) ELSE TreeLitsOK(r.tree))
NoTarget == Undef
Expect(r) ==
  CASE r.f = "bin" -> [res |-> BinOp(r.op, r.a, r.b), after |-> NoTarget]
    [] r.f = "un" -> [res |-> UnOp(r.op, r.a), after |-> NoTarget]
    [] r.f = "upd" -> UpdOp(r.op, r.pre, r.a)
    [] r.f = "cmpd" -> CmpdOp(r.op, r.a, r.b)
    [] r.f = "asg" -> [res |-> r.b, after |-> r.b]
    [] r.f = "cond" -> [res |-> CondOp(r.c, r.a, r.b), after |-> NoTarget]
    [] r.f = "tree" -> [res |-> EvalTree(r.tree), after |-> NoTarget]
    [] r.f = "se" -> LET e == EvalS(r.tree, r.a) IN [res |-> e.v, after |-> e.t]
\* the relational specification with the engine's own result as the certificate
RelApplies(r) == r.f = "bin" /\ r.op \in {"+", "-", "*", "/", "%"} /\ ~(r.op = "+" /\ (r.a.k = "str" \/ r.b.k = "str"))
                 /\ r.out.o = "value" /\ r.out.res.k = "num"
RelOK(r) ==
  LET x == ToNumberD(r.a)  y == ToNumberD(r.b)  z == DFromW(r.out.res.w) IN
  CASE r.op = "+" -> AddOK(x, y, z) [] r.op = "-" -> SubOK(x, y, z) [] r.op = "*" -> MulOK(x, y, z)
    [] r.op = "/" -> DivOK(x, y, z) [] r.op = "%" -> FmodOK(x, y, z)
OutMatches(act, exp) == act.o = "value" /\ ValAgrees(act.res, exp.res) /\ ValAgrees(act.after, exp.after)
ShowExp(e) == [res |-> e.res, after |-> e.after]
Verdict(r) ==
  LET exp == Expect(r)
      fun == OutMatches(r.out, exp)
  IN IF ~LitsOK(r) THEN [v |-> "spec-inconsistent", dev |-> "", exp |-> ShowExp(exp)]               \* a literal does not denote its value: machinery
     ELSE IF fun /\ (~RelApplies(r) \/ RelOK(r)) THEN [v |-> "pass", dev |-> "", exp |-> ShowExp(exp)]
     ELSE IF fun \/ (RelApplies(r) /\ RelOK(r) /\ r.out.after = exp.after)
          THEN [v |-> "spec-inconsistent", dev |-> "", exp |-> ShowExp(exp)]      \* the two formulations disagree: machinery
     ELSE [v |-> "mismatch", dev |-> IF r.f = "se" THEN "" ELSE Explain(r, exp), exp |-> ShowExp(exp)]   \* no as-is model of the side-effect family
JudgeInit == /\ rec_i \in 1..Len(Recs) /\ ph = "judge" /\ cur = [a |-> 0, b |-> 0]
             /\ LET r == Recs[rec_i]  v == Verdict(r)
                IN PrintT(ToJson([id |-> r.id, v |-> v.v, dev |-> v.dev, exp |-> v.exp]))
JudgeNext == UNCHANGED vars
=============================================================================
