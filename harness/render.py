"""MiniJS AST (spec/MiniAst.tla, as JSON) -> JavaScript source text.

The only place where source text is produced for the MiniJS-based checks (C05, C07, C15).
`render(prog, dl, dc)` returns (source, pos): `pos` maps the `nid` of every node that carries
one (throw statements, calls, member accesses, identifiers that may fail) to the 1-based
[line, column] where the renderer put its first character.  `dl` blank lines are put in front
and every line is indented by `dc` extra columns (the shift law of C07).

Layout: one statement per line, two spaces per nesting level, every compound sub-expression
parenthesised (no reliance on operator precedence: that is C13's subject).
"""

IDENT_OK = set("abcdefghijklmnopqrstuvwxyzABCDEFGHIJKLMNOPQRSTUVWXYZ0123456789_$")


class RenderError(Exception):
    pass


class W:
    def __init__(self, dl, dc):
        self.out = []
        self.line = 1
        self.col = 1
        self.dc = dc
        self.pos = {}
        self.fresh = True           # at the start of a line (indent not yet written)
        self.sline = self.scol = 1  # start of the innermost statement being written
        for _ in range(dl):
            self.out.append("\n")
            self.line += 1

    def w(self, text):
        assert "\n" not in text
        self.out.append(text)
        self.col += len(text)
        self.fresh = False

    def start(self, depth):
        """begin a line: shift + indentation"""
        if not self.fresh:
            self.nl()
        pad = " " * (self.dc + 2 * depth)
        self.out.append(pad)
        self.col = 1 + len(pad)
        self.fresh = False

    def nl(self):
        self.out.append("\n")
        self.line += 1
        self.col = 1
        self.fresh = True

    def mark(self, nid):
        """node position, and the position of the statement it belongs to"""
        if nid:
            self.pos[str(nid)] = [self.line, self.col, self.sline, self.scol]

    def stmt_begins(self):
        self.sline, self.scol = self.line, self.col


def ident(x):
    if not x or not set(x) <= IDENT_OK or x[0].isdigit():
        raise RenderError("bad identifier %r" % (x,))
    return x


def strlit(s):
    out = ['"']
    for ch in s:
        if ch == '"' or ch == "\\":
            out.append("\\" + ch)
        elif ch == "\n":
            out.append("\\n")
        elif 32 <= ord(ch) < 127:
            out.append(ch)
        else:
            out.append("\\u%04x" % ord(ch))
    out.append('"')
    return "".join(out)


ATOMS = {"num", "str", "bool", "undef", "null", "var", "arr", "obj", "call", "mem", "new"}


def expr(w, x, depth, top=False):
    """write expression x; compound expressions are parenthesised unless `top`"""
    e = x["e"]
    paren = (e not in ATOMS) and not top
    if e == "num" and x["n"] < 0:
        paren = True
    if e == "new":
        paren = not top          # `new F(a).b` / `new F(a)(b)` ambiguity: keep it closed
    if paren:
        w.w("(")
    if e == "num":
        n = x["n"]
        w.w(str(n) if n >= 0 else "-" + str(-n))
    elif e == "str":
        w.w(strlit(x["s"]))
    elif e == "bool":
        w.w("true" if x["b"] else "false")
    elif e == "undef":
        w.w("undefined")
    elif e == "null":
        w.w("null")
    elif e == "var":
        w.mark(x.get("nid", 0))
        w.w(ident(x["x"]))
    elif e == "bin":
        expr(w, x["l"], depth)
        w.w(" " + x["o"] + " ")
        expr(w, x["r"], depth)
    elif e == "un":
        w.w(x["o"] + (" " if x["o"] == "typeof" else ""))
        expr(w, x["x"], depth)
    elif e == "logic":
        expr(w, x["l"], depth)
        w.w(" " + x["o"] + " ")
        expr(w, x["r"], depth)
    elif e == "cond":
        expr(w, x["c"], depth)
        w.w(" ? ")
        expr(w, x["a"], depth)
        w.w(" : ")
        expr(w, x["b"], depth)
    elif e == "asg":
        w.w(ident(x["x"]) + " = ")
        expr(w, x["r"], depth)
    elif e == "casg":
        w.w(ident(x["x"]) + " " + x["o"] + "= ")
        expr(w, x["r"], depth)
    elif e == "upd":
        w.w((x["o"] + ident(x["x"])) if x["pre"] else (ident(x["x"]) + x["o"]))
    elif e == "mem":
        member(w, x, depth)
    elif e == "masg":
        member(w, x["m"], depth)
        w.w(" = ")
        expr(w, x["r"], depth)
    elif e == "mupd":
        if x["pre"]:
            w.w(x["o"])
            member(w, x["m"], depth)
        else:
            member(w, x["m"], depth)
            w.w(x["o"])
    elif e in ("call", "new"):
        w.mark(x.get("nid", 0))
        if e == "new":
            w.w("new ")
        f = x["f"]
        if f["e"] == "mem":
            member(w, f, depth)
        elif f["e"] == "var":
            expr(w, f, depth)
        else:
            w.w("(")
            expr(w, f, depth, top=True)
            w.w(")")
        w.w("(")
        for i, a in enumerate(x["a"]):
            if i:
                w.w(", ")
            expr(w, a, depth, top=(a["e"] != "seq"))
        w.w(")")
    elif e == "fun" and x.get("xb"):
        # expression-bodied arrow (MiniAst!XArrow): the body is [return x]; compound bodies and object literals in parentheses
        bx = x["body"][0]["x"]
        w.w("(" + ", ".join(ident(p) for p in x["params"]) + ") => ")
        if bx["e"] in ATOMS and bx["e"] != "obj":
            expr(w, bx, depth)
        else:
            w.w("(")
            expr(w, bx, depth, top=True)
            w.w(")")
    elif e == "fun":
        if x["arrow"]:
            w.w("(" + ", ".join(ident(p) for p in x["params"]) + ") => {")
        else:
            w.w("function " + (ident(x["name"]) + " " if x["name"] else "") + "(" + ", ".join(ident(p) for p in x["params"]) + ") {")
        body(w, x["body"], depth + 1)
        w.start(depth)
        w.w("}")
    elif e == "arr":
        w.w("[")
        for i, a in enumerate(x["a"]):
            if i:
                w.w(", ")
            expr(w, a, depth, top=(a["e"] != "seq"))
        w.w("]")
    elif e == "obj":
        w.w("{")
        kinds = x.get("kd") or ["init"] * len(x["ks"])
        for i, (k, kd, v) in enumerate(zip(x["ks"], kinds, x["vs"])):
            if i:
                w.w(", ")
            if kd == "init":
                w.w(ident(k) + ": ")
                expr(w, v, depth, top=(v["e"] != "seq"))
            else:                                   # accessor: get k() {...} / set k(p) {...}
                if v["e"] != "fun" or v["arrow"]:
                    raise RenderError("accessor needs a function")
                w.w(kd + " " + ident(k) + "(" + ", ".join(ident(p) for p in v["params"]) + ") {")
                body(w, v["body"], depth + 1)
                w.start(depth)
                w.w("}")
        w.w("}")
    elif e == "seq":
        for i, a in enumerate(x["a"]):
            if i:
                w.w(", ")
            expr(w, a, depth)
    else:
        raise RenderError("unknown expression %r" % (e,))
    if paren:
        w.w(")")


def member(w, x, depth):
    w.mark(x.get("nid", 0))
    o = x["o"]
    if o["e"] in ("var", "mem", "call", "arr", "str"):
        expr(w, o, depth)
    else:
        w.w("(")
        expr(w, o, depth, top=True)
        w.w(")")
    if x["dot"]:
        w.w("." + ident(x["p"]["s"]))
    else:
        w.w("[")
        expr(w, x["p"], depth, top=True)
        w.w("]")


def body(w, ss, depth):
    for s in ss:
        stmt(w, s, depth)


def braced(w, s, depth):
    """`{ ... }` around a statement used as a body (blocks are not doubled)"""
    w.w("{")
    if s["s"] == "block":
        body(w, s["b"], depth + 1)
    else:
        stmt(w, s, depth + 1)
    w.start(depth)
    w.w("}")


def stmt(w, s, depth, inline=False):
    """write statement s.  A node marked after a nested statement has been written (the rest of a statement that
    contains a function literal, the condition of a do-while, the update of a for) belongs to the enclosing statement:
    its start is restored when the nested one is complete."""
    outer = (w.sline, w.scol)
    try:
        _stmt(w, s, depth, inline)
    finally:
        w.sline, w.scol = outer


def _stmt(w, s, depth, inline):
    k = s["s"]
    if not inline:
        w.start(depth)
    w.stmt_begins()
    if k == "expr":
        x = s["x"]
        expr(w, x, depth, top=(x["e"] not in ("obj", "fun")))
        w.w(";")
    elif k == "var":
        w.w("var ")
        for i, d in enumerate(s["ds"]):
            if i:
                w.w(", ")
            w.w(ident(d["x"]))
            if d["i"]["e"] != "none":
                w.w(" = ")
                expr(w, d["i"], depth, top=(d["i"]["e"] != "seq"))
        w.w(";")
    elif k == "fdecl":
        w.w("function " + ident(s["name"]) + "(" + ", ".join(ident(p) for p in s["params"]) + ") {")
        body(w, s["body"], depth + 1)
        w.start(depth)
        w.w("}")
    elif k == "block":
        w.w("{")
        body(w, s["b"], depth + 1)
        w.start(depth)
        w.w("}")
    elif k == "empty":
        w.w(";")
    elif k == "if":
        w.w("if (")
        expr(w, s["c"], depth, top=True)
        w.w(") ")
        braced(w, s["a"], depth)
        if s["b"]["s"] != "none":
            w.w(" else ")
            braced(w, s["b"], depth)
    elif k == "while":
        w.w("while (")
        expr(w, s["c"], depth, top=True)
        w.w(") ")
        braced(w, s["b"], depth)
    elif k == "dowhile":
        w.w("do ")
        braced(w, s["b"], depth)
        w.w(" while (")
        expr(w, s["c"], depth, top=True)
        w.w(");")
    elif k == "for":
        w.w("for (")
        i = s["i"]
        if i["s"] == "var":
            w.w("var ")
            for j, d in enumerate(i["ds"]):
                if j:
                    w.w(", ")
                w.w(ident(d["x"]))
                if d["i"]["e"] != "none":
                    w.w(" = ")
                    expr(w, d["i"], depth, top=(d["i"]["e"] != "seq"))
        elif i["s"] == "expr":
            expr(w, i["x"], depth, top=True)
        elif i["s"] != "none":
            raise RenderError("bad for-init")
        w.w("; ")
        if s["c"]["e"] != "none":
            expr(w, s["c"], depth, top=True)
        w.w("; ")
        if s["u"]["e"] != "none":
            expr(w, s["u"], depth, top=True)
        w.w(") ")
        braced(w, s["b"], depth)
    elif k in ("forin", "forof"):
        w.w("for (" + ("var " if s["decl"] else "") + ident(s["x"]) + (" in " if k == "forin" else " of "))
        expr(w, s["o"], depth, top=True)
        w.w(") ")
        braced(w, s["b"], depth)
    elif k == "switch":
        w.w("switch (")
        expr(w, s["d"], depth, top=True)
        w.w(") {")
        for c in s["cs"]:
            w.start(depth + 1)
            if c["t"]["e"] == "none":
                w.w("default:")
            else:
                w.w("case ")
                expr(w, c["t"], depth + 1, top=True)
                w.w(":")
            body(w, c["b"], depth + 2)
        w.start(depth)
        w.w("}")
    elif k == "label":
        w.w(ident(s["l"]) + ": ")
        stmt(w, s["b"], depth, inline=True)
    elif k == "break":
        w.w("break" + (" " + ident(s["l"]) if s["l"] else "") + ";")
    elif k == "continue":
        w.w("continue" + (" " + ident(s["l"]) if s["l"] else "") + ";")
    elif k == "return":
        if s["x"]["e"] == "none":
            w.w("return;")
        else:
            w.w("return ")
            expr(w, s["x"], depth, top=True)
            w.w(";")
    elif k == "throw":
        w.mark(s.get("nid", 0))
        w.w("throw ")
        expr(w, s["x"], depth, top=True)
        w.w(";")
    elif k == "try":
        w.w("try ")
        braced(w, s["b"], depth)
        if s["c"]["s"] != "none":
            w.w(" catch (" + ident(s["cv"]) + ") ")
            braced(w, s["c"], depth)
        if s["f"]["s"] != "none":
            w.w(" finally ")
            braced(w, s["f"], depth)
    elif k == "raw":
        # source text given by the specification as it is (one line): programs that are NOT in the language
        # (C15: syntax errors in every position of a batch); no MiniJS semantics, never judged against the machine
        w.w(s["t"])
    else:
        raise RenderError("unknown statement %r" % (k,))


def render(prog, dl=0, dc=0):
    w = W(dl, dc)
    body(w, prog["body"], 0)
    if not w.fresh:
        w.nl()
    return "".join(w.out), w.pos
