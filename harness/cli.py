import sys, os, argparse, importlib, traceback, json
from .common import Machinery, seed, clean_workdir
from .report import Report


def main():
    ap = argparse.ArgumentParser()
    ap.add_argument("pid")
    ap.add_argument("--tier", default=os.environ.get("VERIF_TIER", "quick"), choices=["quick", "thorough"])
    ap.add_argument("--replay")
    ap.add_argument("--keep", action="store_true", help="keep the scratch directory")
    a = ap.parse_args()
    pid = a.pid.upper()
    mod = importlib.import_module("checks." + pid.lower())
    if a.replay:
        return mod.replay(a.replay) if hasattr(mod, "replay") else _generic_replay(a.replay)
    rep = Report(pid, a.tier, seed())
    try:
        mod.run(rep)
        rc = rep.finish()
    except Machinery as e:
        print("MACHINERY-FAILURE %s: %s" % (pid, e), file=sys.stderr)
        return 2
    except Exception:
        traceback.print_exc()
        print("MACHINERY-FAILURE %s: harness crashed" % pid, file=sys.stderr)
        return 2
    if not a.keep and rc == 0:
        clean_workdir(pid)
    return rc


def _generic_replay(path):
    with open(path) as f:
        print(json.dumps(json.load(f), indent=1))
    return 0


if __name__ == "__main__":
    sys.exit(main())
