------------------------------- MODULE BigNat -------------------------------
(* Natural numbers of any size as little-endian sequences of base-2^15 limbs  *)
(* (TLC integers are 32 bit).  <<>> is zero; values are kept normalised (no   *)
(* leading zero limb).  Every long iteration is a FoldLeft (Java-overridden,   *)
(* iterative): no deep recursion.  Variable-free library module.               *)
EXTENDS Naturals, Integers, Sequences, FiniteSets, TLC
LOCAL INSTANCE SequencesExt          \* FoldLeft only; not re-exported (its Min/Max would clash with Str)

BnB == 32768
\* re-export of the iterative fold for the modules above (they cannot instantiate SequencesExt next to Str)
BnFold(bn_op(_, _), bn_base, bn_seq) == FoldLeft(bn_op, bn_base, bn_seq)
BnIdx(n) == [bn_i \in 1..n |-> bn_i]
BnMax(x, y) == IF x > y THEN x ELSE y
BnMin(x, y) == IF x < y THEN x ELSE y

BnNorm(a) == LET nz == {bn_i \in 1..Len(a) : a[bn_i] # 0}
             IN IF nz = {} THEN <<>> ELSE SubSeq(a, 1, CHOOSE bn_i \in nz : \A bn_j \in nz : bn_j <= bn_i)
BnLimb(a, k) == IF k >= 1 /\ k <= Len(a) THEN a[k] ELSE 0
BnZero == <<>>
BnOne == <<1>>
BnIsZero(a) == a = <<>>

\* small integers (0 <= n < 2^31) <-> limbs
BnOfInt(n) == IF n = 0 THEN <<>> ELSE IF n < BnB THEN <<n>>
              ELSE IF n < BnB * BnB THEN <<n % BnB, n \div BnB>>
              ELSE <<n % BnB, (n \div BnB) % BnB, n \div (BnB * BnB)>>
BnFitsInt(a) == Len(a) <= 2                                  \* < 2^30
BnToInt(a) == IF Len(a) = 0 THEN 0 ELSE IF Len(a) = 1 THEN a[1] ELSE a[1] + BnB * a[2]

\* -1, 0, 1 (normalised inputs)
BnCmp(a, b) ==
  IF Len(a) # Len(b) THEN (IF Len(a) < Len(b) THEN -1 ELSE 1)
  ELSE LET df == {bn_i \in 1..Len(a) : a[bn_i] # b[bn_i]}
       IN IF df = {} THEN 0
          ELSE LET top == CHOOSE bn_i \in df : \A bn_j \in df : bn_j <= bn_i
               IN IF a[top] < b[top] THEN -1 ELSE 1
BnLt(a, b) == BnCmp(a, b) < 0
BnLe(a, b) == BnCmp(a, b) <= 0
BnEq(a, b) == a = b

BnAdd(a, b) ==
  LET n == BnMax(Len(a), Len(b))
      r == FoldLeft(LAMBDA acc, k : LET v == BnLimb(a, k) + BnLimb(b, k) + acc.c
                                    IN [o |-> Append(acc.o, v % BnB), c |-> v \div BnB],
                    [o |-> <<>>, c |-> 0], BnIdx(n))
  IN IF r.c = 0 THEN r.o ELSE Append(r.o, r.c)

\* a - b for a >= b
BnSub(a, b) ==
  LET r == FoldLeft(LAMBDA acc, k : LET v == a[k] - BnLimb(b, k) - acc.c
                                    IN IF v < 0 THEN [o |-> Append(acc.o, v + BnB), c |-> 1]
                                       ELSE [o |-> Append(acc.o, v), c |-> 0],
                    [o |-> <<>>, c |-> 0], BnIdx(Len(a)))
  IN BnNorm(r.o)
BnAbsDiff(a, b) == IF BnCmp(a, b) >= 0 THEN BnSub(a, b) ELSE BnSub(b, a)

\* a * m for 0 <= m <= 2^15
BnMulS(a, m) ==
  IF m = 0 THEN <<>> ELSE
  LET r == FoldLeft(LAMBDA acc, x : LET v == x * m + acc.c
                                    IN [o |-> Append(acc.o, v % BnB), c |-> v \div BnB],
                    [o |-> <<>>, c |-> 0], a)
  IN IF r.c = 0 THEN r.o ELSE IF r.c < BnB THEN Append(r.o, r.c) ELSE r.o \o <<r.c % BnB, r.c \div BnB>>

BnShiftLimbs(a, k) == IF a = <<>> \/ k <= 0 THEN a ELSE [bn_i \in 1..k |-> 0] \o a
BnMul0(a, b) == FoldLeft(LAMBDA acc, k : IF b[k] = 0 THEN acc ELSE BnAdd(acc, BnShiftLimbs(BnMulS(a, b[k]), k - 1)),
                         <<>>, BnIdx(Len(b)))
BnMul(a, b) == IF a = <<>> \/ b = <<>> THEN <<>> ELSE IF Len(a) >= Len(b) THEN BnMul0(a, b) ELSE BnMul0(b, a)

BnP2Small == [bn_k \in 0..15 |-> 2 ^ bn_k]
BnShl(a, bits) == IF bits <= 0 THEN a ELSE BnShiftLimbs(BnMulS(a, BnP2Small[bits % 15]), bits \div 15)
BnPow2(k) == BnShl(BnOne, k)

\* a div m, a mod m for 1 <= m <= 2^15
BnDivModS(a, m) ==
  LET r == FoldLeft(LAMBDA acc, k : LET v == acc.r * BnB + a[Len(a) + 1 - k]
                                    IN [q |-> <<v \div m>> \o acc.q, r |-> v % m],
                    [q |-> <<>>, r |-> 0], BnIdx(Len(a)))
  IN [q |-> BnNorm(r.q), r |-> r.r]

\* floor(a / 2^bits)
BnShr(a, bits) ==
  IF bits <= 0 THEN a
  ELSE LET ld == bits \div 15   bd == bits % 15
       IN IF ld >= Len(a) THEN <<>>
          ELSE LET hi == SubSeq(a, ld + 1, Len(a))
               IN IF bd = 0 THEN hi ELSE BnDivModS(hi, BnP2Small[bd]).q
\* a mod 2^bits
BnLowBits(a, bits) ==
  IF bits <= 0 THEN <<>>
  ELSE LET ld == bits \div 15   bd == bits % 15
       IN IF ld >= Len(a) THEN a
          ELSE BnNorm(SubSeq(a, 1, ld) \o (IF bd = 0 THEN <<>> ELSE <<a[ld + 1] % BnP2Small[bd]>>))

RECURSIVE BnBitLenSmall(_)
BnBitLenSmall(n) == IF n = 0 THEN 0 ELSE 1 + BnBitLenSmall(n \div 2)     \* depth <= 31
BnBitLen(a) == IF a = <<>> THEN 0 ELSE 15 * (Len(a) - 1) + BnBitLenSmall(a[Len(a)])
BnBit(a, k) == (BnLimb(a, (k \div 15) + 1) \div BnP2Small[k % 15]) % 2        \* bit k (0 = least significant)
BnIsOdd(a) == a # <<>> /\ a[1] % 2 = 1
\* number of trailing zero bits (a # 0)
BnTrailingZeros(a) ==
  LET nzl == CHOOSE bn_i \in 1..Len(a) : a[bn_i] # 0 /\ \A bn_j \in 1..(bn_i - 1) : a[bn_j] = 0
      x == a[nzl]
      tz == CHOOSE bn_k \in 0..14 : (x \div BnP2Small[bn_k]) % 2 = 1 /\ x % BnP2Small[bn_k] = 0
  IN 15 * (nzl - 1) + tz

\* ---- long division (Knuth D over 15-bit limbs): [q, r] with a = q*b + r, 0 <= r < b;  b # 0 ----
BnDivModLong(a, b) ==
  LET sh == 15 - BnBitLenSmall(b[Len(b)])          \* normalise: top limb of bn >= 2^14
      bn == BnShl(b, sh)
      an == BnShl(a, sh)
      n  == Len(bn)
      btop == bn[n]
      la == Len(an)
      step(acc, k) ==
        LET limb == an[la + 1 - k]
            r1 == BnNorm(<<limb>> \o acc.r)                        \* acc.r * B + limb  (< bn * B)
            t2 == BnLimb(r1, n + 1) * BnB + BnLimb(r1, n)
            qh0 == BnMin(BnB - 1, t2 \div btop)
            p0 == BnMulS(bn, qh0)
            over0 == BnCmp(p0, r1) > 0
            qh1 == IF over0 THEN qh0 - 1 ELSE qh0
            p1 == IF over0 THEN BnSub(p0, bn) ELSE p0
            over1 == BnCmp(p1, r1) > 0
            qh2 == IF over1 THEN qh1 - 1 ELSE qh1
            p2 == IF over1 THEN BnSub(p1, bn) ELSE p1
            over2 == BnCmp(p2, r1) > 0
            qh3 == IF over2 THEN qh2 - 1 ELSE qh2
            p3 == IF over2 THEN BnSub(p2, bn) ELSE p2
        IN [q |-> <<qh3>> \o acc.q, r |-> BnSub(r1, p3)]
      res == FoldLeft(step, [q |-> <<>>, r |-> <<>>], BnIdx(la))
  IN [q |-> BnNorm(res.q), r |-> BnShr(res.r, sh)]
BnDivMod(a, b) ==
  IF BnCmp(a, b) < 0 THEN [q |-> <<>>, r |-> a]
  ELSE IF Len(b) = 1 THEN LET x == BnDivModS(a, b[1]) IN [q |-> x.q, r |-> BnOfInt(x.r)]
  ELSE BnDivModLong(a, b)

\* ---- tables and decimal conversion ------------------------------------------------------
BnP10Max == 440
BnP10 == FoldLeft(LAMBDA acc, k : Append(acc, BnMulS(acc[Len(acc)], 10)), << <<1>> >>, BnIdx(BnP10Max))
BnPow10(k) == BnP10[k + 1]                            \* 0 <= k <= BnP10Max
\* digits: sequence of digit values, most significant first
BnFromDigits(ds, radix) == FoldLeft(LAMBDA acc, d : BnAdd(BnMulS(acc, radix), BnOfInt(d)), <<>>, ds)
\* decimal digits (most significant first) of a; <<0>> for zero
BnDigits4(n) == <<n \div 1000, (n \div 100) % 10, (n \div 10) % 10, n % 10>>
BnStripLeadingZeros(ds) == LET nz == {bn_i \in 1..Len(ds) : ds[bn_i] # 0}
                           IN IF nz = {} THEN <<0>> ELSE SubSeq(ds, CHOOSE bn_i \in nz : \A bn_j \in nz : bn_i <= bn_j, Len(ds))
BnDecDigits(a) ==
  LET steps == (BnBitLen(a) \div 13) + 1                \* 10^4 > 2^13: enough chunks of four digits
      r == FoldLeft(LAMBDA acc, k : IF acc.n = <<>> THEN acc
                                    ELSE LET dm == BnDivModS(acc.n, 10000)
                                         IN [n |-> dm.q, o |-> BnDigits4(dm.r) \o acc.o],
                    [n |-> a, o |-> <<>>], BnIdx(steps))
  IN BnStripLeadingZeros(r.o)
\* number of decimal digits of a > 0
BnDecLen(a) == Len(BnDecDigits(a))
=============================================================================
