"""C15 - evaluation is deterministic and independent of host hash randomisation (DESIGN 5/C15).

(a) TLC model-checks spec/Slots.tla: every permutation of the set-derived slot lists, wiring by name, same behaviour.
(b) Closure-heavy programs (C05 families CL / HO / EO enumerated by TLC, seeded closure-heavy and general random
    programs) and the corpus scripts of /repo/tests/basic and /repo/tests/compat run under PYTHONHASHSEED = 0..N-1
    in separate processes and in two shuffled batches inside one process each.  TLC judges (EqJudge of spec/C15.tla)
    that all observations of a program are equal and that the compiled slot layouts are instances of the Slots
    model's choice; the common observation is judged against MiniJS (Judge of C05).  Python only collects.
"""
import os, glob, json, random
from concurrent.futures import ThreadPoolExecutor
from harness import tlc, engine
from harness.common import Machinery, REPO
from checks import c05, c05_gen

SLOTS_CFG = "INIT SlotsInit\nNEXT SlotsNext\nINVARIANT SlotsInRange\nINVARIANT LayoutIndependent\nINVARIANT Terminates\nCHECK_DEADLOCK FALSE\n"
EQ_CFG = "INIT EqInit\nNEXT EqNext\nCHECK_DEADLOCK FALSE\n"
SKIP_CORPUS = ("mandelbrot.js",)              # 30 s of rendering; nothing about slots in it


def corpus():
    items = []
    for d in ("tests/basic", "tests/compat"):
        for path in sorted(glob.glob(os.path.join(REPO, d, "*.js"))):
            if os.path.basename(path) in SKIP_CORPUS:
                continue
            with open(path, encoding="utf-8") as f:
                items.append({"id": "corpus/" + os.path.basename(path), "src": f.read(), "fam": "corpus"})
    return items


def run(rep):
    quick = rep.tier == "quick"
    # (a) the model
    res = tlc.run(rep.pid, "Slots", SLOTS_CFG, env={"TIER": rep.tier}, timeout=1200, tag="slots", heap="4g")
    rep.add_tlc("Slots (all permutations of locals / cell_vars / free_vars of 5 closure programs, wiring by name)", res)
    rep.spaces.append({"space": "Slots: layouts x steps of the abstract closure programs", "cases": res.distinct, "complete": True})
    # vacuity guard: the same model with closures wired by position must violate LayoutIndependent
    bad = tlc.run(rep.pid, "Slots", SLOTS_CFG, env={"TIER": "quick", "WIRING": "index"}, timeout=600, tag="slots_selftest", heap="4g")
    if "LayoutIndependent" not in bad.violated:
        raise Machinery("Slots self-test: index-based wiring was not rejected (%s)" % (bad.violated or bad.errors[:2]))
    rep.notes["slots_selftest"] = "index-based wiring violates LayoutIndependent after %d states" % bad.distinct
    # (b) programs
    fam_cases = c05.enumerate_programs(rep, "C05", rep.tier, tag="enum_closure", env={"FAMS": "CL HO EO"})
    progs = [{"id": "F%d" % c["id"], "fam": c["fam"], "par": c["par"], "prog": c["prog"]} for c in fam_cases]
    rnd = random.Random(rep.seed * 104729 + 15)
    nclo = int(os.environ.get("C15_NCLO", "150" if quick else "1000"))
    ngen = int(os.environ.get("C15_NGEN", "40" if quick else "300"))
    for i in range(nclo):
        progs.append({"id": "C%d" % i, "fam": "closure-random", "par": {"seed": rep.seed, "n": i}, "prog": c05_gen.closure_program(rnd)})
    for i in range(ngen):
        progs.append({"id": "G%d" % i, "fam": "general-random", "par": {"seed": rep.seed, "n": i}, "prog": c05_gen.random_program(rnd)})
    items = progs + corpus()
    nseeds = int(os.environ.get("C15_SEEDS", "16" if quick else "64"))
    byid = {it["id"]: it for it in items}
    obs = {it["id"]: [] for it in items}
    cases = [dict((k, v) for k, v in it.items() if k in ("id", "prog", "src")) for it in items]

    def wall_hang(r):
        return r["out"].get("o") == "hang" and "wall" in str(r["out"].get("why", ""))

    def one_seed(seed):
        # each hash seed in processes of its own
        rs = engine.run_cases(rep.pid, cases, driver="checks.c15_driver:driver", hashseed=str(seed), tag="eng_seed%d" % seed,
                              procs=1 if nseeds >= 16 else None)
        # a wall-clock watchdog verdict (overloaded machine) is re-run alone before it counts (DESIGN 3.4)
        again = [dict(c, wall=900.0) for c in cases if any(r["id"] == c["id"] and wall_hang(r) for r in rs)]
        if again:
            redo = {r["id"]: r for r in engine.run_cases(rep.pid, again, driver="checks.c15_driver:driver", hashseed=str(seed),
                                                         tag="eng_seed%d_rerun" % seed, procs=1)}
            rs = [redo.get(r["id"], r) for r in rs]
        return seed, rs

    with ThreadPoolExecutor(max_workers=16) as ex:
        for seed, rs in ex.map(one_seed, range(nseeds)):
            if len(rs) != len(cases):
                raise Machinery("seed %d: %d results for %d cases" % (seed, len(rs), len(cases)))
            for r in rs:
                obs[r["id"]].append({"src": "seed%d" % seed, "log": r["log"], "out": r["out"], "lay": r["lay"]})
    # shuffled batches inside one process (does anything depend on what was evaluated before?)
    batches = []
    for b in range(2 if quick else 4):
        order = list(cases)
        random.Random(rep.seed + 1000 + b).shuffle(order)
        batches.append({"id": "batch%d" % b, "items": order})

    def one_batch(bc):
        seed = 1 + int(bc["id"][5:])
        return engine.run_cases(rep.pid, [bc], driver="checks.c15_driver:driver", hashseed=str(seed), tag="eng_" + bc["id"], procs=1)

    with ThreadPoolExecutor(max_workers=4) as ex:
        for rs in ex.map(one_batch, batches):
            for r in rs:
                b, iid = r["id"].split(":", 1)
                if wall_hang(r):            # overloaded machine: this observation is not comparable (counted, not judged)
                    rep.notes["batch_observations_dropped_wall_clock"] = rep.notes.get("batch_observations_dropped_wall_clock", 0) + 1
                    continue
                obs[iid].append({"src": b, "log": r["log"], "out": r["out"], "lay": r["lay"]})
    # EqJudge
    eq_recs = []
    for it in items:
        isast = "prog" in it
        eq_recs.append({"id": it["id"], "ast": isast, "prog": it["prog"] if isast else {"body": []}, "devs": [], "obs": obs[it["id"]]})
    verdicts, st, tr, wall = tlc.judge(rep.pid, "C15", eq_recs, EQ_CFG, shards=c05.SHARDS, tag="judge_eq")
    rep.add_judge(sum(len(r["obs"]) for r in eq_recs), st, tr)
    got = {v["id"]: v for v in verdicts}
    if len(got) != len(eq_recs):
        raise Machinery("EqJudge returned %d verdicts for %d records" % (len(got), len(eq_recs)))
    varied = 0
    for it in items:
        v = got[it["id"]]
        if v["nlay"] > 1:
            varied += 1
        if not (v["eq"] and v["shape"] and v["scope"]):
            o = obs[it["id"]]
            why = "outcomes differ between hash seeds / evaluation orders" if not v["eq"] else \
                  ("slot layouts are not permutations of each other with a fixed prefix" if not v["shape"]
                   else "slot lists of a top-level function are not the sets the scope analysis prescribes")
            k = v.get("first", 0) or 1
            rep.mismatch("%s %s" % (it["fam"], it["id"]),
                         {"why": why, "par": it.get("par"), "first": o[0], "differing": o[min(k, len(o)) - 1],
                          "source": it.get("src") or __import__("harness.render", fromlist=["render"]).render(it["prog"])[0]}, dev="")
    rep.notes["programs_with_layouts_varying_across_seeds"] = varied
    if varied == 0:
        raise Machinery("no program's slot layout varied across hash seeds: the experiment does not exercise what it claims")
    # the common observation against the reference semantics
    ast_items = [it for it in items if "prog" in it]
    recs = [{"id": it["id"], "prog": it["prog"], "log": obs[it["id"]][0]["log"], "out": obs[it["id"]][0]["out"], "pos": []} for it in ast_items]
    results = {it["id"]: {"log": obs[it["id"]][0]["log"], "out": obs[it["id"]][0]["out"]} for it in ast_items}
    jv = c05.judge(rep, "C15", recs, enumerated=False)
    c05.report(rep, ast_items, results, jv)
    rep.spaces.append({"space": "programs x hash seeds (separate processes) + shuffled in-process batches",
                       "cases": len(items), "seeds": nseeds, "batches": len(batches), "complete": False})
    rep.evaluations = sum(len(o) for o in obs.values())
    rep.exhaustive = True           # the Slots model and the enumerated families were completed; seeds are a sample by nature
    rep.assumptions += ["the hash seed influences the engine only through set / dict iteration order (CPython)",
                        "Math.random and Date.now are excluded (not used by the programs)"]
