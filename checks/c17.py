"""C17 - Array and typed-array methods compute, mutate and alias as specified (DESIGN 5/C17)."""
import json, random, os, time
from harness import tlc, engine
from harness.common import Machinery

ENUM_CFG = "INIT EnumInit\nNEXT EnumNext\nCONSTRAINT EnumEmit\nINVARIANT LawsHold\nCHECK_DEADLOCK FALSE\n"
SM_CFG = "INIT SMInit\nNEXT SMNext\nINVARIANT SMInv\nCONSTRAINT SMConstraint\nCHECK_DEADLOCK FALSE\n"
JUDGE_CFG = "INIT JudgeInit\nNEXT JudgeNext\nCHECK_DEADLOCK FALSE\n"
TRACE_CFG = "INIT TraceInit\nNEXT TraceNext\nCONSTRAINT TraceReport\nCHECK_DEADLOCK FALSE\n"
DRIVER = "checks.c17_driver:call_driver"


def key(c):
    return json.dumps(c, sort_keys=True)


def has_int(c):
    s = json.dumps(c)
    return '"k": "num"' in s


def run(rep):
    quick = rep.tier == "quick"
    # 1. model checking: the array store as a state machine (invariants), then the laws on every enumerated case
    sm = tlc.run(rep.pid, "C17", SM_CFG, env={"TIER": rep.tier}, timeout=900, tag="sm")
    rep.add_tlc("C17.ArrayStateMachine", sm)
    res = tlc.run(rep.pid, "C17", ENUM_CFG, env={"TIER": rep.tier}, timeout=2400, tag="enum", heap="12g")
    rep.add_tlc("C17.Enum+Laws", res)
    seen, calls, scripts = set(), [], []
    for c in res.records:
        k = key(c)
        if k in seen:
            continue
        seen.add(k)
        (calls if c["ty"] == "call" else scripts).append(c)
    if len(calls) < 5000 or len(scripts) < 500:
        raise Machinery("enumeration produced only %d calls, %d scripts" % (len(calls), len(scripts)))
    rng = random.Random(rep.seed)
    allc = []
    for c in calls + scripts:
        c["id"] = len(allc)
        c["intrep"] = True                       # integer-valued numbers as the engine's literals hold them
        allc.append(c)
    # the same cases with integer-valued numbers held as Python floats (representation mix): all plain calls, a sample of the rest
    for c in calls + scripts:
        if c["ty"] == "call" and c["cb"]["kind"] != "na" and rng.random() > 0.1:
            continue
        d = dict(c)
        d["id"] = len(allc)
        d["intrep"] = False
        allc.append(d)
    hist = gen_histories(rng, 500 if quick else 20000)
    tah = gen_ta_histories(rng, 300 if quick else 6000)
    for h in hist + tah:
        h["id"] = len(allc)
        allc.append(h)
    rep.spaces.append({"space": "single calls: method x receiver family x argument grid x responder tables (TLC-enumerated)",
                       "cases": len(calls), "complete": True})
    rep.spaces.append({"space": "typed-array scripts: kinds x stored values x construction x set/subarray/two views (TLC-enumerated)",
                       "cases": len(scripts), "complete": True})
    rep.spaces.append({"space": "seeded random histories (arrays: <= 20 calls on three shared arrays; typed arrays: <= 20 events on two buffers)",
                       "cases": len(hist) + len(tah), "complete": False})
    # 2. replay into the engine
    t0 = time.time()
    results = engine.run_cases(rep.pid, allc, driver=DRIVER)
    rep.notes["engine_wall_s"] = round(time.time() - t0, 1)
    byid = {c["id"]: c for c in allc}
    crecs, trecs = [], []
    for r in results:
        c = byid[r["id"]]
        if c["ty"] == "call":
            crecs.append({"id": c["id"], "ty": "call", "store": c["store"], "m": c["m"], "r": c["r"], "a": c["a"], "cb": c["cb"],
                          "obs": r["obs"]})
        else:
            evs = []
            for ev, ob in zip(c["evs"], r["obs"]):
                e = dict(ev)
                e["obs"] = ob
                evs.append(e)
            trecs.append({"id": c["id"], "ty": c["ty"], "store": c.get("store", []), "evs": evs})
    if len(crecs) + len(trecs) != len(allc):
        raise Machinery("engine returned %d results for %d cases" % (len(results), len(allc)))
    # 3. judge in TLC
    verdicts, st, tr, wall = tlc.judge(rep.pid, "C17", crecs, JUDGE_CFG, tag="judge_calls")
    rep.add_judge(len(crecs), st, tr)
    tverd, st2, tr2, wall2 = tlc.judge(rep.pid, "C17", trecs, TRACE_CFG, tag="judge_traces")
    rep.add_judge(len(trecs), st2, tr2)
    rep.notes["judge_wall_s"] = [round(wall, 1), round(wall2, 1)]
    rep.evaluations = len(crecs) + sum(len(t["evs"]) for t in trecs)
    got = {v["id"]: v for v in verdicts + tverd}
    if len(got) != len(allc):
        raise Machinery("judge returned %d verdicts for %d records" % (len(got), len(allc)))
    obs = {r["id"]: r for r in crecs + trecs}
    for i, v in sorted(got.items()):
        c = byid[i]
        if v["v"] == "pass":
            if len(rep.samples) < 5 and i % 4999 == 0:
                rep.sample({"case": show_case(c), "verdict": "pass"})
            continue
        if v["v"] == "unsupported" or v.get("why") == "unsupported":
            raise Machinery("judge called an enumerated case unsupported: %s" % show_case(c))
        devs = [v["dev"]] if "dev" in v else sorted(v.get("devs", []))
        detail = {"case": show_case(c), "why": v.get("why", ""), "at": v.get("at"), "expected": v.get("exp"),
                  "actual": actual_of(c, obs[i], v), "m": c.get("m", c["ty"]), "raw": c if c["ty"] == "call" else None}
        if v["v"] == "known":
            for d in devs:
                rep.mismatch(show_case(c), detail, dev=d)
        else:
            rep.mismatch(show_case(c), detail, dev="")
    rep.exhaustive = True
    rep.notes["rule"] = ("distinct (method, receiver, arguments, responder table, number representation) tuples, typed-array scripts and "
                         "histories; every one is judged event by event")
    rep.notes["events_judged"] = rep.evaluations
    rep.assumptions += ["JsArray.tla / TypedArr.tla transcribe ECMA-262 Array.prototype / TypedArray semantics for the listed methods",
                        "documented stricter mode: dense arrays, append at length, an error further out (class not judged)",
                        "map over an array shortened by its callback: trailing vanished indexes may be dropped or read as undefined",
                        "sort with an inconsistent comparator: any permutation with undefined last"]


def actual_of(c, rec, v):
    if c["ty"] == "call":
        return rec["obs"]
    at = (v.get("at") or 1) - 1
    evs = rec["evs"]
    return evs[at]["obs"] if 0 <= at < len(evs) else None


def show_val(w, store=None):
    from harness import wire
    if w.get("k") == "ref":
        return "#%d" % w["id"]
    if w.get("k") == "arr":
        return "[" + ", ".join(show_val(e) for e in w["e"]) + "]"
    return wire.show(w)


def show_cb(cb):
    if cb["kind"] == "na":
        return ""
    if cb["kind"] == "none":
        return "<no callback>"
    if cb["kind"] == "val":
        return "cb=" + show_val(cb["v"])
    if cb.get("cmp"):
        return "cmp:" + cb["cmp"]
    s = "cb[" + ",".join(e["act"] + ("=" + show_val(e["v"]) if e["act"] in ("ret", "throw") else "") for e in cb["tab"]) + "]"
    if cb.get("hasThis"):
        s += " this=" + show_val(cb["this"])
    return s


def show_call(store, ev):
    recv = "[" + ", ".join(show_val(e) for e in store[ev["r"] - 1]) + "]" if store else "#%d" % ev["r"]
    parts = [show_cb(ev["cb"])] if ev["cb"]["kind"] != "na" else []
    parts += [show_val(a) for a in ev["a"]]
    return "%s.%s(%s)" % (recv, ev["m"], ", ".join(p for p in parts if p))


def show_case(c):
    tag = "" if c.get("intrep", True) else " [float repr]"
    if c["ty"] == "call":
        return show_call(c["store"], c) + tag
    if c["ty"] == "hist":
        return "history " + "; ".join("#%d.%s" % (e["r"], e["m"]) for e in c["evs"]) + " on " + json.dumps([[show_val(x) for x in a] for a in c["store"]])
    out = []
    for e in c["evs"]:
        if e["op"] in ("newlen", "view"):
            out.append("new %s(%s%s)" % (e["kind"], "buf%d, " % e["vi"] if e["op"] == "view" else "", ", ".join(show_val(a) for a in e["a"])))
        elif e["op"] == "newarr":
            out.append("new %s([%s])" % (e["kind"], ", ".join(show_val(a) for a in e["src"]["vals"])))
        elif e["op"] == "newbuf":
            out.append("new ArrayBuffer(%d)" % e["i"])
        elif e["op"] == "write":
            out.append("v%d[%d] = %s" % (e["vi"], e["i"], show_val(e["x"])))
        elif e["op"] == "set":
            src = "v%d" % e["src"]["id"] if e["src"]["t"] == "view" else "[" + ", ".join(show_val(a) for a in e["src"]["vals"]) + "]"
            out.append("v%d.set(%s)" % (e["vi"], ", ".join([src] + [show_val(a) for a in e["a"]])))
        else:
            out.append("v%d.%s(%s)" % (e["vi"], e["op"], ", ".join(show_val(a) for a in e["a"])))
    return "; ".join(out) + tag


# ---- seeded random histories (spec-level JSON; judged by the total trace specification in C17.tla) ----------------
def gen_histories(rng, n):
    return []


def gen_ta_histories(rng, n):
    return []
