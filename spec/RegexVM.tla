------------------------------- MODULE RegexVM -------------------------------
(* Layer I: the budgets of the backtracking regex VM (regex/vm.py), with the data abstracted     *)
(* away.  One `search` = up to N+1 attempts of the main loop (_execute); an attempt may start      *)
(* sub-matcher activations (_execute_lookahead, _try_lookbehind_at).  Every loop iteration is one *)
(* Step: it counts, polls, checks its budgets, then executes an instruction whose effect on the   *)
(* backtrack stack is nondeterministic (advance / push / backtrack / enter or leave a sub-matcher  *)
(* / match).                                                                                      *)
(*                                                                                                *)
(* devs = {}                    : the design every loop kind should follow                         *)
(* devs = {"Dev_SubNoStepLimit"}: as-is, the two sub-matcher loops never compare their step count  *)
(*                                with step_limit (regex/vm.py _execute_lookahead,                 *)
(*                                _try_lookbehind_at)                                              *)
(* devs = {"Var_PollPerRun"}    : a variant that was never the engine's state but is one edit away: *)
(*                                each run (attempt, sub-matcher activation) paces polling with its *)
(*                                own step count instead of the counter shared by all runs.         *)
(*                                PollBound and LateBound fail: runs shorter than the poll interval *)
(*                                add up to unpolled work (the check requires exactly that).        *)
(* The embedder's time limit: the poll callback is a monotone function of time - it may say stop   *)
(* at any poll, and from the deadline dl (a number of steps; chosen from Deadlines, one of them     *)
(* beyond every run = no deadline) it always does.  LateBound: the search never executes more than  *)
(* PollInterval steps after the deadline.                                                           *)
(* TLC checks (small constants): StepBound, StackBound, PollBound, WorkBound and that exhaustion   *)
(* of a budget leads to a defined outcome.  With the as-is deviation on, SubStepBound fails - the  *)
(* model-level statement of the finding.                                                           *)
EXTENDS Naturals, Sequences, FiniteSets, TLC

CONSTANTS StepLimit, StackLimit, PollInterval, Deadlines, N, MaxSub, MaxSubRuns, Devs

VARIABLES att,        \* attempt number 0..N of the search
          acts,       \* stack of activations, innermost last: [kind, steps, stack]
          pollc,      \* steps since creation of the VM (paces polling, shared by all loops)
          since,      \* steps executed since the last poll callback
          work,       \* [re, la, lb]: total steps per loop kind
          subruns,    \* sub-matcher activations started in this attempt (bounded to keep the model finite)
          status,     \* "run" | "match" | "null" | "overflow" | "timeout"
          dl          \* the deadline of this search, in steps: from step dl + 1 on the poll callback always says stop
vars == <<att, acts, pollc, since, work, subruns, status, dl>>

Act(kind) == [kind |-> kind, steps |-> 0, stack |-> 0]
Top == acts[Len(acts)]
SetTop(a) == [acts EXCEPT ![Len(acts)] = a]
Pop == SubSeq(acts, 1, Len(acts) - 1)

Init == /\ att = 0 /\ acts = <<Act("re")>> /\ pollc = 0 /\ since = 0
        /\ work = [re |-> 0, la |-> 0, lb |-> 0] /\ subruns = 0 /\ status = "run" /\ dl \in Deadlines

\* the attempt (or sub-matcher) on top of the activation stack ends without a match
FailTop ==
  IF Len(acts) = 1
  THEN \* _execute returned None: search() goes on with the next start position
       IF att < N THEN att' = att + 1 /\ acts' = <<Act("re")>> /\ subruns' = 0 /\ status' = status
       ELSE att' = att /\ acts' = acts /\ subruns' = subruns /\ status' = "null"
  ELSE \* the sub-matcher failed: the enclosing loop goes on (it backtracks or, for a negative assertion, continues)
       att' = att /\ acts' = Pop /\ subruns' = subruns /\ status' = status

LimitedKind(k) == k = "re" \/ "Dev_SubNoStepLimit" \notin Devs

\* one iteration of a loop: count, poll, budget checks, then the instruction
Step ==
  /\ status = "run"
  /\ LET a == Top
         n == a.steps + 1
         polled == IF "Var_PollPerRun" \in Devs THEN n % PollInterval = 0        \* the step count of this run
                   ELSE (pollc + 1) % PollInterval = 0                              \* the count shared by all runs of the search
     IN /\ pollc' = pollc + 1 /\ dl' = dl
        /\ work' = [work EXCEPT ![a.kind] = @ + 1]
        /\ \/ \* the poll callback asks to stop (only at a poll point)
              /\ polled /\ since' = 0 /\ status' = "timeout" /\ UNCHANGED <<att, acts, subruns>>
           \/ /\ ~(polled /\ pollc + 1 > dl)                     \* a callback after the deadline never says go on
              /\ since' = IF polled THEN 0 ELSE since + 1
              /\ IF LimitedKind(a.kind) /\ n > StepLimit
                 THEN \* step budget of this activation exhausted: it fails gracefully
                      FailTop
                 ELSE IF a.stack > StackLimit
                 THEN status' = "overflow" /\ UNCHANGED <<att, acts, subruns>>
                 ELSE \/ \* an instruction that neither pushes nor pops
                         acts' = SetTop([a EXCEPT !.steps = n]) /\ UNCHANGED <<att, subruns, status>>
                      \/ \* SPLIT: push a backtrack entry
                         acts' = SetTop([a EXCEPT !.steps = n, !.stack = @ + 1]) /\ UNCHANGED <<att, subruns, status>>
                      \/ \* a failing instruction: backtrack, or fail when the stack is empty
                         IF a.stack > 0 THEN acts' = SetTop([a EXCEPT !.steps = n, !.stack = @ - 1]) /\ UNCHANGED <<att, subruns, status>>
                         ELSE FailTop
                      \/ \* LOOKAHEAD / LOOKBEHIND: run a sub-matcher
                         /\ Len(acts) <= MaxSub /\ subruns < MaxSubRuns
                         /\ \E k \in {"la", "lb"} : acts' = Append(SetTop([a EXCEPT !.steps = n]), Act(k))
                         /\ subruns' = subruns + 1 /\ UNCHANGED <<att, status>>
                      \/ \* MATCH / LOOKAHEAD_END / LOOKBEHIND_END
                         IF Len(acts) = 1 THEN status' = "match" /\ UNCHANGED <<att, acts, subruns>>
                         ELSE acts' = Pop /\ UNCHANGED <<att, subruns, status>>
Done == status # "run" /\ UNCHANGED vars
Next == Step \/ Done
Spec == Init /\ [][Next]_vars /\ WF_vars(Step)

\* ---- invariants ------------------------------------------------------------------------------------
TypeOK == /\ att \in 0..N /\ status \in {"run", "match", "null", "overflow", "timeout"}
          /\ \A i \in 1..Len(acts) : acts[i].kind \in {"re", "la", "lb"}
StepBound    == \A i \in 1..Len(acts) : acts[i].kind = "re" => acts[i].steps <= StepLimit + 1
SubStepBound == \A i \in 1..Len(acts) : acts[i].kind # "re" => acts[i].steps <= StepLimit + 1
StackBound   == \A i \in 1..Len(acts) : acts[i].stack <= StackLimit + 1
PollBound    == since < PollInterval                   \* every loop kind counts and polls: never PollInterval steps without a callback
LateBound    == pollc <= dl + PollInterval             \* at most one poll interval of steps after the deadline, over all runs of the search
WorkBound    == work.re <= (att + 1) * (StepLimit + 1)
\* sub-matcher work per attempt: at most MaxSubRuns activations, each within its step budget (needs SubStepBound)
SubWorkBound == "Dev_SubNoStepLimit" \in Devs \/ work.la + work.lb <= (att + 1) * MaxSubRuns * (StepLimit + 1)
\* a terminal status is one of the defined outcomes; "overflow" is raised as an exception (C10: must be of the JSError family)
Outcome == status \in {"run", "match", "null", "overflow", "timeout"}
\* liveness: under fair scheduling every search ends
Terminates == <>(status # "run")
\* the bound the conformance half compares observed counts with (regex steps of one search over a subject of length n)
\* keeps the as-is model finite: sub-matcher steps are followed a little beyond the budget they should have had
SubCap == \A i \in 1..Len(acts) : acts[i].steps <= StepLimit + 3
MainBound(n, stepLimit) == (n + 1) * (stepLimit + 1)
=============================================================================
