-------------------------------- MODULE C08 --------------------------------
EXTENDS ObjModel, Json, IOUtils, SequencesExt

EnvOr(n, d) == IF n \in DOMAIN IOEnv THEN IOEnv[n] ELSE d
NatOf == [t \in {ToString(j) : j \in 0..64} |-> CHOOSE j \in 0..64 : ToString(j) = t]
MaxLen == NatOf[EnvOr("MAXLEN", "2")]

EInit == MInit /\ PrintT(ToJson([on |-> BatteryOn, objs |-> BatteryObjs, glob |-> BatteryGlob]))
ENext == Len(m_hist) < MaxLen /\ MNext
EmitAll == m_hist = <<>> \/ PrintT(ToJson([h |-> m_hist]))
EmitLast == Len(m_hist) < MaxLen \/ PrintT(ToJson([h |-> m_hist]))

=============================================================================
