------------------------------- MODULE JsJSON -------------------------------
(* JSON.parse / JSON.stringify of ECMA-262 (25.5) over UTF-16 code-unit text.        *)
(* Variable-free library.                                                          *)
(*   JParse(t, dv)        recursive-descent acceptor over code units, scannerless   *)
(*   JAccepts2(t)         INDEPENDENT formulation of the acceptance set: a table-    *)
(*                        driven lexer (two DFAs, maximal munch) followed by a stack *)
(*                        automaton over token classes                               *)
(*   JStringify(v, dv, ir) SerializeJSONProperty / QuoteJSONString / cycle check     *)
(* dv is the set of named deviations that are switched on (DESIGN 2.3): {} is the    *)
(* ECMAScript behaviour.                                                             *)
(* Values: JsVal records, plus  [k |-> "fn"], [k |-> "native"] (callables) and       *)
(* [k |-> "back", d |-> n]  = a reference to the n-th enclosing container (cycle).    *)
(* Numbers produced by JParse carry r |-> "i" | "f": the syntax of the token (integer *)
(* syntax / fraction-or-exponent syntax); only the as-is models read it.             *)
(* Results: [o |-> "value", v |-> val] | [o |-> "throw", cls |-> name]                *)
(*          | [o |-> "escape", cls |-> name]  (an exception no script catch receives) *)
EXTENDS JsConv
LOCAL JTX == INSTANCE TLCExt         \* JTX!TLCCache(e, key) = e (memoised by TLC)
LOCAL JSX == INSTANCE SequencesExt    \* JSX!FoldLeft (iterative): long scans must not recurse (Java stack)

JVal(v)      == [o |-> "value", v |-> v]
JThrow(cls)  == [o |-> "throw", cls |-> cls]
JEscape(cls) == [o |-> "escape", cls |-> cls]
JNone        == [o |-> "none"]

VFn      == [k |-> "fn"]
VNative  == [k |-> "native"]
VBack(d) == [k |-> "back", d |-> d]

\* ---- named deviations (the engine's as-is behaviour, see known_findings/C19.json) ----------
DevParseEscapes   == "Dev_ParseErrorEscapes"        \* SyntaxError raised by the native is not catchable
DevParseConstants == "Dev_ParseHostConstants"       \* host decoder also accepts NaN, Infinity, -Infinity
DevParseNegZero   == "Dev_ParseNegZeroInt"          \* the token -0 (integer syntax) gives +0
DevParseBigInt    == "Dev_ParseBigIntNotDouble"     \* integer-syntax tokens beyond 2^53 stay host integers
DevParseNoProto   == "Dev_ParseNoPrototype"         \* results are not linked to Object/Array.prototype
DevParseSplitPair == "Dev_ParseSplitSurrogateKey"   \* a pair spelled half raw, half escaped stays two code points
DevFloatRepr      == "Dev_DumpsFloatRepr"           \* float-held numbers print as the host repr (1.0, -0.0, 1e-07)
DevNonFinite      == "Dev_DumpsNonFinite"           \* NaN, Infinity, -Infinity printed bare
DevEnsureAscii    == "Dev_DumpsEnsureAscii"         \* every unit above U+007E is \u-escaped
DevRootNull       == "Dev_StringifyRootNull"        \* undefined / function root gives the string "null"
DevFnNull         == "Dev_StringifyFunctionNull"    \* function-valued property printed as null, not omitted
DevCycle          == "Dev_StringifyCycleRecursion"  \* cycle ends in a host RecursionError
DevToStringRepr   == "Dev_ToStringReprLayout"       \* values.to_string: host exponent layout (1e-07, 1e+16)
ParseDevs == {DevParseEscapes, DevParseConstants, DevParseNegZero, DevParseBigInt, DevParseNoProto, DevParseSplitPair}
StrDevs   == {DevFloatRepr, DevNonFinite, DevEnsureAscii, DevRootNull, DevFnNull, DevCycle, DevToStringRepr}
AllDevs   == ParseDevs \cup StrDevs

\* ---- text constants ------------------------------------------------------------------------
UNull == U("null")      UTrue == U("true")      UFalse == U("false")
UNaN == U("NaN")        UInf == U("Infinity")   UNegInf == U("-Infinity")
JsonWs == {9, 10, 13, 32}
JAt(t, p) == IF p >= 1 /\ p <= Len(t) THEN t[p] ELSE -1
JIsDigit(c) == c >= 48 /\ c <= 57
JIsHi(c) == c >= 55296 /\ c <= 56319
JIsLo(c) == c >= 56320 /\ c <= 57343
JHexVal(c) == IF c >= 48 /\ c <= 57 THEN c - 48
              ELSE IF c >= 65 /\ c <= 70 THEN c - 55
              ELSE IF c >= 97 /\ c <= 102 THEN c - 87 ELSE -1
JHexDigit(n) == IF n < 10 THEN 48 + n ELSE 87 + n                 \* lowercase
JHex4(c) == <<JHexDigit(c \div 4096), JHexDigit((c \div 256) % 16), JHexDigit((c \div 16) % 16), JHexDigit(c % 16)>>

\* ---- numbers: exact fast path on small dyadic values, JsConv (bignum) for everything else ----
JP10 == <<10, 100, 1000, 10000, 100000, 1000000, 10000000, 100000000, 1000000000>>
JPow10(k) == IF k = 0 THEN 1 ELSE JP10[k]
JP5 == <<5, 25, 125, 625, 3125, 15625>>
JPow5(k) == IF k = 0 THEN 1 ELSE JP5[k]
RECURSIVE JStripZeros(_, _)
JStripZeros(m, k) == IF k > 0 /\ m % 10 = 0 THEN JStripZeros(m \div 10, k - 1) ELSE <<m, k>>
JWScale(w, k) == <<w[1] + 16 * k, w[2], w[3], w[4]>>      \* times 2^k on a normal finite non-zero double
JSigned(neg, w) == IF neg THEN WNeg(w) ELSE w
\* value of the token  [-] intD [. fracD] [e [+-] expD]  (digit-unit sequences); <<>> when not on the fast path
JNumFast(neg, intD, fracD, eneg, expD) ==
  IF Len(intD) + Len(fracD) > 9 \/ Len(expD) > 2 THEN <<>>
  ELSE LET m0 == DigitsVal(intD \o fracD)
           ex == (IF eneg THEN 0 - DigitsVal(expD) ELSE DigitsVal(expD)) - Len(fracD)
       IN IF m0 = 0 THEN JSigned(neg, WPosZero)
          ELSE IF ex >= 0
               THEN (IF ex <= 9 /\ m0 <= (Lim - 1) \div JPow10(ex) THEN JSigned(neg, WOfNat(m0 * JPow10(ex))) ELSE <<>>)
               ELSE LET st == JStripZeros(m0, 0 - ex)
                        m == st[1]
                        k == st[2]
                    IN IF k = 0 THEN JSigned(neg, WOfNat(m))
                       ELSE IF k <= 6 /\ m % JPow5(k) = 0 THEN JSigned(neg, JWScale(WOfNat(m \div JPow5(k)), 0 - k))
                       ELSE <<>>
JNumSlow(text) == JTX!TLCCache(DToW(StrToD(text)), text)                        \* a JSON number token is a StrDecimalLiteral
JNumTokenW(text, neg, intD, fracD, eneg, expD) ==
  LET f == JNumFast(neg, intD, fracD, eneg, expD) IN IF f # <<>> THEN f ELSE JNumSlow(text)

\* smallest k in 0..6 with w * 2^k a small integer, or -1
JDyadicK(w) == LET S == {k \in 0..6 : WIsSmallInt(JWScale(w, k))}
               IN IF S = {} THEN -1 ELSE CHOOSE k \in S : \A j \in S : k <= j
JAbs(n) == IF n < 0 THEN 0 - n ELSE n
JPadLeft(u, n) == [i \in 1..(n - Len(u)) |-> 48] \o u
\* Number::toString on the fast path (finite, non-zero): <<>> when not on it
JTextFast(w) ==
  LET k == IF WIsZero(w) \/ WExp(w) = 0 THEN -1 ELSE JDyadicK(w) IN
  IF k < 0 THEN <<>>
  ELSE LET n == JAbs(WTruncClamp(JWScale(w, k))) IN
       IF n > 2147483647 \div JPow5(k) THEN <<>>
       ELSE LET d == n * JPow5(k)
                sg == IF WSign(w) = 1 THEN <<45>> ELSE <<>>
            IN IF k = 0 THEN sg \o DigitsOf(n)
               ELSE sg \o DigitsOf(d \div JPow10(k)) \o <<46>> \o JPadLeft(DigitsOf(d % JPow10(k)), k)
\* ECMAScript Number::toString(x) for finite x
JNumToString(w) == IF WIsZero(w) THEN <<48>>
                   ELSE LET f == JTextFast(w) IN IF f # <<>> THEN f ELSE JTX!TLCCache(NumToText(DFromW(w)), w)
\* host repr layout of a finite double (shortest digits, positional for 1e-4 <= |x| < 1e16, else d.ddde+XX)
JPyLayout(digs, k, n, dotzero) ==
  LET x == n - 1 IN
  IF x >= -4 /\ x < 16
  THEN (IF k <= n THEN digs \o CvZeros(n - k) \o (IF dotzero THEN <<46, 48>> ELSE <<>>)
        ELSE IF n > 0 THEN SubSeq(digs, 1, n) \o <<46>> \o SubSeq(digs, n + 1, k)
        ELSE <<48, 46>> \o CvZeros(0 - n) \o digs)
  ELSE LET ax == IF x < 0 THEN 0 - x ELSE x
           et == <<101, IF x < 0 THEN 45 ELSE 43>> \o (IF ax < 10 THEN <<48>> ELSE <<>>) \o DigitsOf(ax)
       IN IF k = 1 THEN digs \o et ELSE <<digs[1], 46>> \o SubSeq(digs, 2, k) \o et
JPyRepr(w, dotzero) ==
  IF WIsZero(w) THEN (IF WSign(w) = 1 /\ dotzero THEN <<45, 48>> ELSE <<48>>) \o (IF dotzero THEN <<46, 48>> ELSE <<>>)
  ELSE LET f == JTextFast(w) IN
       IF f # <<>> THEN (IF JDyadicK(w) = 0 /\ dotzero THEN f \o <<46, 48>> ELSE f)
       ELSE LET d == DFromW(w)
                sh == DShortest(DAbs(d))
            IN (IF d.s = 1 THEN <<45>> ELSE <<>>) \o JPyLayout(CvDigitUnits(sh.s), sh.k, sh.n, dotzero)

\* is the number held as a host float ("f") or a host integer ("i") inside the engine?
\* parsed numbers carry it; operands of a case follow the case's flag ir (DESIGN: intrep)
\* (the driver builds a host integer for every integer-valued operand with |x| <= 2^53 when ir is set, -0 excepted)
JHostIntable(w) == /\ w # WNegZero
                   /\ \/ WIsSmallInt(w)
                      \/ /\ WExp(w) # 2047
                         /\ (WExp(w) - 1023 < 53 \/ (WExp(w) - 1023 = 53 /\ WFracZero(w)))
                         /\ DIsInteger(DFromW(w))
JNumRep(v, ir) == IF "r" \in DOMAIN v THEN v.r
                  ELSE IF ir /\ JHostIntable(v.w) THEN "i" ELSE "f"

\* ---- JParse: recursive descent over code units ------------------------------------------------
JFail == [ok |-> FALSE, v |-> Undef, p |-> 0]
JOk(v, p) == [ok |-> TRUE, v |-> v, p |-> p]
RECURSIVE JSkipWs(_, _)
JSkipWs(t, p0) == LET p == p0 IN IF p <= Len(t) /\ t[p] \in JsonWs THEN JSkipWs(t, p + 1) ELSE p
\* first position at or after p0 that holds no digit (no recursion: digit runs of 300 and more units, family nt of C19;
\* TLC tries the candidates of the interval in ascending order, the answer is unique anyway)
JDigitsEnd(t, p0) == LET p == p0 IN
  CHOOSE j \in p..(Max(p, Len(t) + 1)) : (j > Len(t) \/ ~JIsDigit(t[j])) /\ \A x \in p..(j - 1) : JIsDigit(t[x])

JEscUnit(e) == CASE e = 34 -> 34 [] e = 92 -> 92 [] e = 47 -> 47 [] e = 98 -> 8 [] e = 102 -> 12
                 [] e = 110 -> 10 [] e = 114 -> 13 [] e = 116 -> 9 [] OTHER -> -1
\* The engine keeps strings as code points.  Its decoder joins a high and a low surrogate into one code point when
\* both are raw (they arrive as one astral character) or both are \u escapes; a pair spelled half raw, half escaped
\* stays two code points: a different string for the engine, the same string for ECMAScript.  JCpImage is that
\* code-point identity (esc[i] = unit i was written as an escape); only Dev_ParseSplitSurrogateKey reads it.
RECURSIVE JCpImage(_, _, _)
JCpImage(u, esc, i0) ==
  LET i == i0 IN
  IF i > Len(u) THEN <<>>
  ELSE IF i < Len(u) /\ JIsHi(u[i]) /\ JIsLo(u[i + 1]) /\ esc[i] = esc[i + 1]
       THEN <<65536 + (u[i] - 55296) * 1024 + (u[i + 1] - 56320)>> \o JCpImage(u, esc, i + 2)
       ELSE <<u[i]>> \o JCpImage(u, esc, i + 1)
\* p: first unit after the opening quote; acc: units so far, as [u |-> units, x |-> escape flags]
RECURSIVE JScanStrX(_, _, _)
JScanStr(t, p, acc) == JScanStrX(t, p, [u |-> <<>>, x |-> <<>>])
JScanStrX(t, p0, acc0) ==
  LET p == p0
      acc == acc0
      c == JAt(t, p)
  IN IF c < 32 THEN JFail                                   \* end of text (-1) or a raw control character
     ELSE IF c = 34 THEN JOk([k |-> "str", u |-> acc.u, x |-> acc.x], p + 1)
     ELSE IF c = 92
          THEN LET e == JAt(t, p + 1) IN
               IF e = 117
               THEN LET h1 == JHexVal(JAt(t, p + 2))  h2 == JHexVal(JAt(t, p + 3))
                        h3 == JHexVal(JAt(t, p + 4))  h4 == JHexVal(JAt(t, p + 5))
                    IN IF h1 < 0 \/ h2 < 0 \/ h3 < 0 \/ h4 < 0 THEN JFail
                       ELSE JScanStrX(t, p + 6, [u |-> Append(acc.u, h1 * 4096 + h2 * 256 + h3 * 16 + h4), x |-> Append(acc.x, TRUE)])
               ELSE IF JEscUnit(e) < 0 THEN JFail
               ELSE JScanStrX(t, p + 2, [u |-> Append(acc.u, JEscUnit(e)), x |-> Append(acc.x, TRUE)])
     ELSE JScanStrX(t, p + 1, [u |-> Append(acc.u, c), x |-> Append(acc.x, FALSE)])

\* does the double w equal the decimal integer intD exactly?
JExactInt(intD, w) == LET d == DFromW(w) IN
  d.c = "fin" /\ d.e >= 0 /\ BnCmp(BnShl(d.m, d.e), BnFromDigits(CvDigitVals(intD), 10)) = 0

\* JSON number:  -? (0 | [1-9][0-9]*) (. [0-9]+)? ([eE] [+-]? [0-9]+)?
JScanNum(t, p0, dv) ==
  LET p == p0
      neg == JAt(t, p) = 45
      i0 == IF neg THEN p + 1 ELSE p
      c0 == JAt(t, i0)
  IN IF ~JIsDigit(c0) THEN JFail
     ELSE LET i1 == IF c0 = 48 THEN i0 + 1 ELSE JDigitsEnd(t, i0)
              hasF == JAt(t, i1) = 46
              f1 == IF hasF THEN JDigitsEnd(t, i1 + 1) ELSE i1
          IN IF hasF /\ f1 = i1 + 1 THEN JFail
             ELSE LET hasE == JAt(t, f1) \in {101, 69}
                      esg == hasE /\ JAt(t, f1 + 1) \in {43, 45}
                      es == IF esg THEN f1 + 2 ELSE f1 + 1
                      e1 == IF hasE THEN JDigitsEnd(t, es) ELSE f1
                  IN IF hasE /\ e1 = es THEN JFail
                     ELSE LET intD == SubSeq(t, i0, i1 - 1)
                              fracD == IF hasF THEN SubSeq(t, i1 + 1, f1 - 1) ELSE <<>>
                              expD == IF hasE THEN SubSeq(t, es, e1 - 1) ELSE <<>>
                              eneg == esg /\ JAt(t, f1 + 1) = 45
                              w0 == JNumTokenW(SubSeq(t, p, e1 - 1), neg, intD, fracD, eneg, expD)
                              isInt == ~hasF /\ ~hasE
                              w == IF isInt /\ DevParseNegZero \in dv /\ w0 = WNegZero THEN WPosZero ELSE w0
                          IN IF isInt /\ DevParseBigInt \in dv /\ WExp(w) - 1023 >= 53 /\ ~JExactInt(intD, w)
                             THEN JOk([k |-> "hostval", u |-> SubSeq(t, p, e1 - 1)], e1)   \* a host integer that is no double
                             ELSE JOk([k |-> "num", w |-> w, r |-> IF isInt THEN "i" ELSE "f"], e1)

\* ks = the scanned key ([u, x]); its identity is the unit sequence (ECMAScript) or the code-point image (as-is)
JPutKey(acc, ks, val, dv) ==
  LET key == ks.u
      id == IF DevParseSplitPair \in dv THEN JCpImage(ks.u, ks.x, 1) ELSE ks.u
      S == {i \in 1..Len(acc) : acc[i].id = id}
  IN IF S = {} THEN Append(acc, [n |-> key, v |-> val, id |-> id])
     ELSE LET i == CHOOSE j \in S : TRUE IN [acc EXCEPT ![i] = [n |-> key, v |-> val, id |-> id]]   \* first position, last value

RECURSIVE JPVal(_, _, _), JPElems(_, _, _, _), JPMembers(_, _, _, _)
JPVal(t, p0, dv) ==
  LET p == JSkipWs(t, p0)
      c == JAt(t, p)
  IN CASE c = 123 -> LET q == JSkipWs(t, p + 1) IN IF JAt(t, q) = 125 THEN JOk(VObj(<<>>), q + 1) ELSE JPMembers(t, q, <<>>, dv)
       [] c = 91  -> LET q == JSkipWs(t, p + 1) IN IF JAt(t, q) = 93 THEN JOk(VArr(<<>>), q + 1) ELSE JPElems(t, q, <<>>, dv)
       [] c = 34  -> JScanStr(t, p + 1, <<>>)
       [] c = 116 -> IF OccursAt(t, UTrue, p - 1) THEN JOk(VBool(TRUE), p + 4) ELSE JFail
       [] c = 102 -> IF OccursAt(t, UFalse, p - 1) THEN JOk(VBool(FALSE), p + 5) ELSE JFail
       [] c = 110 -> IF OccursAt(t, UNull, p - 1) THEN JOk(Null, p + 4) ELSE JFail
       [] c = 78 /\ DevParseConstants \in dv ->
             IF OccursAt(t, UNaN, p - 1) THEN JOk([k |-> "num", w |-> WNaN, r |-> "f"], p + 3) ELSE JFail
       [] c = 73 /\ DevParseConstants \in dv ->
             IF OccursAt(t, UInf, p - 1) THEN JOk([k |-> "num", w |-> WPosInf, r |-> "f"], p + 8) ELSE JFail
       [] c = 45 /\ DevParseConstants \in dv /\ JAt(t, p + 1) = 73 ->
             IF OccursAt(t, UNegInf, p - 1) THEN JOk([k |-> "num", w |-> WNegInf, r |-> "f"], p + 9) ELSE JFail
       [] (c = 45 /\ ~(DevParseConstants \in dv /\ JAt(t, p + 1) = 73)) \/ JIsDigit(c) -> JScanNum(t, p, dv)
       [] OTHER -> JFail
JPElems(t, p, acc0, dv) ==
  LET acc == acc0
      r == JPVal(t, p, dv)
      q == JSkipWs(t, r.p)
      c == JAt(t, q)
      acc2 == Append(acc, r.v)
  IN IF ~r.ok THEN JFail
     ELSE IF c = 44 THEN JPElems(t, q + 1, acc2, dv)
     ELSE IF c = 93 THEN JOk(VArr(acc2), q + 1)
     ELSE JFail
\* (one flat LET: its members are evaluated on demand, and the nesting stays shallow for the Java stack)
JPMembers(t, p, acc0, dv) ==
  LET acc == acc0
      q == JSkipWs(t, p)
      ks == JScanStr(t, q + 1, <<>>)
      cpos == JSkipWs(t, ks.p)
      r == JPVal(t, cpos + 1, dv)
      q2 == JSkipWs(t, r.p)
      c == JAt(t, q2)
      acc2 == JPutKey(acc, ks.v, r.v, dv)
  IN IF JAt(t, q) # 34 THEN JFail
     ELSE IF ~ks.ok THEN JFail
     ELSE IF JAt(t, cpos) # 58 THEN JFail
     ELSE IF ~r.ok THEN JFail
     ELSE IF c = 44 THEN JPMembers(t, q2 + 1, acc2, dv)
     ELSE IF c = 125 THEN JOk(VObj(acc2), q2 + 1)
     ELSE JFail

\* the whole text must be one value surrounded by JSON white space
JParse(t0, dv) ==
  LET t == t0
      r == JPVal(t, 1, dv) IN
  IF r.ok /\ JSkipWs(t, r.p) = Len(t) + 1 THEN JVal(r.v)
  ELSE IF DevParseEscapes \in dv THEN JEscape("SyntaxError") ELSE JThrow("SyntaxError")
JAccepts(t) == JParse(t, {}).o = "value"

\* ---- JAccepts2: lexer (DFAs, maximal munch) + stack automaton ------------------------------------
JNumDelta(st, c) ==
  LET dg == JIsDigit(c)  nz == c >= 49 /\ c <= 57  ee == c \in {101, 69} IN
  CASE st = 0 -> IF c = 45 THEN 1 ELSE IF c = 48 THEN 2 ELSE IF nz THEN 3 ELSE -1
    [] st = 1 -> IF c = 48 THEN 2 ELSE IF nz THEN 3 ELSE -1
    [] st = 2 -> IF c = 46 THEN 4 ELSE IF ee THEN 6 ELSE -1
    [] st = 3 -> IF dg THEN 3 ELSE IF c = 46 THEN 4 ELSE IF ee THEN 6 ELSE -1
    [] st = 4 -> IF dg THEN 5 ELSE -1
    [] st = 5 -> IF dg THEN 5 ELSE IF ee THEN 6 ELSE -1
    [] st = 6 -> IF c \in {43, 45} THEN 7 ELSE IF dg THEN 8 ELSE -1
    [] st = 7 -> IF dg THEN 8 ELSE -1
    [] OTHER  -> IF dg THEN 8 ELSE -1
JNumAcc == {2, 3, 5, 8}
\* string DFA: 0 plain, 1 after backslash, 2..5 = 4..1 hex digits still required; 9 = closed, -1 = dead
JStrDelta(st, c) ==
  CASE st = 0 -> IF c = 34 THEN 9 ELSE IF c = 92 THEN 1 ELSE IF c < 32 THEN -1 ELSE 0
    [] st = 1 -> IF c \in {34, 92, 47, 98, 102, 110, 114, 116} THEN 0 ELSE IF c = 117 THEN 2 ELSE -1
    [] OTHER  -> IF JHexVal(c) < 0 THEN -1 ELSE IF st = 5 THEN 0 ELSE st + 1
JPunct(c) == CASE c = 123 -> "{" [] c = 125 -> "}" [] c = 91 -> "[" [] c = 93 -> "]" [] c = 44 -> "," [] c = 58 -> ":" [] OTHER -> ""
\* one pass over the units (a fold, no recursion): m = mode, n = DFA state / position in a literal, l = the literal, toks = classes so far
JLexIdle(toks) == [m |-> "idle", n |-> 0, l |-> <<>>, toks |-> toks]
JLexBad == [m |-> "bad", n |-> 0, l |-> <<>>, toks |-> <<>>]
JLexIdleStep(a, c) ==
  IF c \in JsonWs THEN a
  ELSE IF JPunct(c) # "" THEN JLexIdle(Append(a.toks, JPunct(c)))
  ELSE IF c = 34 THEN [a EXCEPT !.m = "str", !.n = 0]
  ELSE IF JNumDelta(0, c) # -1 THEN [a EXCEPT !.m = "num", !.n = JNumDelta(0, c)]
  ELSE IF c = 116 THEN [a EXCEPT !.m = "lit", !.n = 2, !.l = UTrue]
  ELSE IF c = 102 THEN [a EXCEPT !.m = "lit", !.n = 2, !.l = UFalse]
  ELSE IF c = 110 THEN [a EXCEPT !.m = "lit", !.n = 2, !.l = UNull]
  ELSE JLexBad
JLexStep(a0, c0) ==
  LET a == a0
      c == c0 IN
  CASE a.m = "bad" -> a
    [] a.m = "str" -> LET n2 == JStrDelta(a.n, c) IN
                      IF n2 = -1 THEN JLexBad ELSE IF n2 = 9 THEN JLexIdle(Append(a.toks, "S")) ELSE [a EXCEPT !.n = n2]
    [] a.m = "lit" -> IF c # a.l[a.n] THEN JLexBad
                      ELSE IF a.n = Len(a.l) THEN JLexIdle(Append(a.toks, "V")) ELSE [a EXCEPT !.n = a.n + 1]
    [] a.m = "num" -> LET n2 == JNumDelta(a.n, c) IN
                      IF n2 # -1 THEN [a EXCEPT !.n = n2]
                      ELSE IF a.n \in JNumAcc THEN JLexIdleStep(JLexIdle(Append(a.toks, "V")), c)     \* maximal munch: the token ended before c
                      ELSE JLexBad
    [] OTHER -> JLexIdleStep(a, c)
JBad == <<"bad">>
JLex(t) ==
  LET a == JSX!FoldLeft(JLexStep, JLexIdle(<<>>), t) IN
  CASE a.m = "idle" -> a.toks
    [] a.m = "num" /\ a.n \in JNumAcc -> Append(a.toks, "V")
    [] OTHER -> JBad
\* stack automaton: stk = open containers ("A" | "O"), md = what may come next
\*   "v" a value, "vc" a value or ], "kc" a key or }, "k" a key, "c" a colon, "a" after a complete value
JPdaBad == [ok |-> FALSE, stk |-> <<>>, md |-> "a"]
JPop(s) == [ok |-> TRUE, stk |-> SubSeq(s.stk, 1, Len(s.stk) - 1), md |-> "a"]
JPdaStep(s0, tk0) ==
  LET s == s0
      tk == tk0
      top == IF s.stk = <<>> THEN "" ELSE s.stk[Len(s.stk)] IN
  IF ~s.ok THEN s
  ELSE CASE s.md \in {"v", "vc"} ->
              (CASE tk \in {"S", "V"} -> [s EXCEPT !.md = "a"]
                 [] tk = "[" -> [s EXCEPT !.stk = Append(s.stk, "A"), !.md = "vc"]
                 [] tk = "{" -> [s EXCEPT !.stk = Append(s.stk, "O"), !.md = "kc"]
                 [] tk = "]" /\ s.md = "vc" -> JPop(s)
                 [] OTHER -> JPdaBad)
         [] s.md \in {"k", "kc"} ->
              (CASE tk = "S" -> [s EXCEPT !.md = "c"]
                 [] tk = "}" /\ s.md = "kc" -> JPop(s)
                 [] OTHER -> JPdaBad)
         [] s.md = "c" -> IF tk = ":" THEN [s EXCEPT !.md = "v"] ELSE JPdaBad
         [] OTHER ->
              (CASE top = "A" /\ tk = "," -> [s EXCEPT !.md = "v"]
                 [] top = "A" /\ tk = "]" -> JPop(s)
                 [] top = "O" /\ tk = "," -> [s EXCEPT !.md = "k"]
                 [] top = "O" /\ tk = "}" -> JPop(s)
                 [] OTHER -> JPdaBad)
JAccepts2(t0) ==
  LET t == t0
      toks == JLex(t) IN
  toks # JBad /\ LET s == JSX!FoldLeft(JPdaStep, [ok |-> TRUE, stk |-> <<>>, md |-> "v"], toks)
                 IN s.ok /\ s.md = "a" /\ s.stk = <<>>
\* can the text still be continued to a JSON text (complete tokens, automaton not dead)?
JViablePrefix(t0) ==
  LET t == t0
      toks == JLex(t) IN
  toks # JBad /\ JSX!FoldLeft(JPdaStep, [ok |-> TRUE, stk |-> <<>>, md |-> "v"], toks).ok
\* Flatten for long sequences of pieces (Str!Flatten recurses once per piece)
JFlatLong(ss) == JSX!FoldLeft(LAMBDA x, y : x \o y, <<>>, ss)

\* ---- JStringify -----------------------------------------------------------------------------------
\* QuoteJSONString (ECMA-262 25.5.2.3, well-formed JSON.stringify)
JQuoteUnit(u, i, dv) ==
  LET c == u[i] IN
  CASE c = 34 -> <<92, 34>>
    [] c = 92 -> <<92, 92>>
    [] c = 8  -> <<92, 98>>
    [] c = 9  -> <<92, 116>>
    [] c = 10 -> <<92, 110>>
    [] c = 12 -> <<92, 102>>
    [] c = 13 -> <<92, 114>>
    [] c < 32 -> <<92, 117>> \o JHex4(c)
    [] c >= 127 /\ DevEnsureAscii \in dv -> <<92, 117>> \o JHex4(c)
    [] JIsHi(c) -> IF i < Len(u) /\ JIsLo(u[i + 1]) THEN <<c>> ELSE <<92, 117>> \o JHex4(c)
    [] JIsLo(c) -> IF i > 1 /\ JIsHi(u[i - 1]) THEN <<c>> ELSE <<92, 117>> \o JHex4(c)
    [] OTHER -> <<c>>
JQuote(u0, dv) == LET u == u0 IN <<34>> \o Flatten([i \in 1..Len(u) |-> JQuoteUnit(u, i, dv)]) \o <<34>>

JNumJson(v, dv, ir) ==
  LET w == v.w IN
  IF WIsNaN(w) THEN (IF DevNonFinite \in dv THEN UNaN ELSE UNull)
  ELSE IF WIsInf(w) THEN (IF DevNonFinite \in dv THEN (IF WSign(w) = 1 THEN UNegInf ELSE UInf) ELSE UNull)
  ELSE IF JNumRep(v, ir) = "i" THEN JNumToString(w)                          \* host integers print as integers
  ELSE IF DevFloatRepr \in dv THEN JPyRepr(w, TRUE)
  ELSE IF DevToStringRepr \in dv THEN JPyRepr(w, FALSE)
  ELSE JNumToString(w)

JTxt(u) == [t |-> "text", u |-> u]
JOmit == [t |-> "undef", u |-> <<>>]
JCyc == [t |-> "cycle", u |-> <<>>]
JJoinComma(ss) == Flatten([i \in 1..Len(ss) |-> IF i = 1 THEN ss[i] ELSE <<44>> \o ss[i]])
JIsCallable(v) == v.k \in {"fn", "native"}
\* SerializeJSONProperty without toJSON / replacer / gap; a "back" node is an object that is already on the stack
RECURSIVE JSer(_, _, _)
JSer(v0, dv, ir) ==
  LET v == v0 IN
  CASE v.k = "null" -> JTxt(UNull)
    [] v.k = "bool" -> JTxt(IF v.b THEN UTrue ELSE UFalse)
    [] v.k = "num"  -> JTxt(JNumJson(v, dv, ir))
    [] v.k = "str"  -> JTxt(JQuote(v.u, dv))
    [] v.k = "back" -> JCyc
    [] v.k = "hostval" -> JTxt(v.u)                          \* as-is only: a host integer prints its digits
    [] v.k = "arr"  ->
         LET parts == [i \in 1..Len(v.e) |-> JSer(v.e[i], dv, ir)] IN
         IF \E i \in 1..Len(parts) : parts[i].t = "cycle" THEN JCyc
         ELSE JTxt(<<91>> \o JJoinComma([i \in 1..Len(parts) |-> IF parts[i].t = "undef" THEN UNull ELSE parts[i].u]) \o <<93>>)
    [] v.k = "obj"  ->
         LET parts == [i \in 1..Len(v.p) |-> JSer(v.p[i].v, dv, ir)] IN
         IF \E i \in 1..Len(parts) : parts[i].t = "cycle" THEN JCyc
         ELSE LET member(i) ==
                    IF parts[i].t = "text" THEN <<JQuote(v.p[i].n, dv) \o <<58>> \o parts[i].u>>
                    ELSE IF DevFnNull \in dv /\ JIsCallable(v.p[i].v) THEN <<JQuote(v.p[i].n, dv) \o <<58>> \o UNull>>
                    ELSE <<>>
              IN JTxt(<<123>> \o JJoinComma(Flatten([i \in 1..Len(parts) |-> member(i)])) \o <<125>>)
    [] OTHER -> JOmit                                       \* undefined, functions
JStringify(v0, dv, ir) ==
  LET v == v0
      s == JSer(v, dv, ir) IN
  CASE s.t = "cycle" -> IF DevCycle \in dv THEN JEscape("RecursionError") ELSE JThrow("TypeError")
    [] s.t = "undef" -> IF DevRootNull \in dv THEN JVal(VStr(UNull)) ELSE JVal(Undef)
    [] OTHER -> JVal(VStr(s.u))

\* ---- predicates on values -------------------------------------------------------------------------
\* all leaves of a value, keys included (as string values), in document order
RECURSIVE JLeaves(_)
JLeaves(v) ==
  CASE v.k = "arr" -> Flatten([i \in 1..Len(v.e) |-> JLeaves(v.e[i])])
    [] v.k = "obj" -> Flatten([i \in 1..Len(v.p) |-> <<VStr(v.p[i].n)>> \o JLeaves(v.p[i].v)])
    [] OTHER -> <<v>>
JNonFiniteOrNegZero(w) == WIsNaN(w) \/ WIsInf(w) \/ w = WNegZero
\* the values JSON can represent: parse(stringify(v)) = v is claimed exactly for these
JRepresentable(v) == LET ls == JLeaves(v) IN
  \A i \in 1..Len(ls) : /\ ls[i].k \notin {"undef", "fn", "native", "back", "hostval"}
                         /\ (ls[i].k = "num" => ~JNonFiniteOrNegZero(ls[i].w))
\* back references must point at an enclosing container
RECURSIVE JWellFormed(_, _)
JWellFormed(v, depth) ==
  CASE v.k = "back" -> v.d >= 1 /\ v.d <= depth
    [] v.k = "arr" -> \A i \in 1..Len(v.e) : JWellFormed(v.e[i], depth + 1)
    [] v.k = "obj" -> /\ \A i \in 1..Len(v.p) : JWellFormed(v.p[i].v, depth + 1)
                      /\ \A i, j \in 1..Len(v.p) : i # j => v.p[i].n # v.p[j].n
    [] OTHER -> TRUE
=============================================================================
