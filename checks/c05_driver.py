"""Engine-side driver for the MiniJS-based checks (C05, C07, C15).

case = {"id", "prog": MiniJS AST (JSON), "dl", "dc"}  ->  {"id", "log": [...], "out": {...}, "pos": {...}}
The driver renders the AST (harness/render.py), runs the source on a fresh Context with the host
function `log`, and records what happened.  It computes no expectation.  Values are projected the
way MiniJS.Proj does: primitives as they are, references by kind.
"""
from harness import render as R

LOG_CAP = 300                 # a runaway program is stopped by the log, the time limit or the step cap
TIME_LIMIT_STEPS = 30000      # virtual clock: one tick per VM instruction


def proj(v):
    from microjs import values as V
    if v is V.UNDEFINED:
        return {"t": "undef"}
    if v is V.NULL:
        return {"t": "null"}
    if isinstance(v, bool):
        return {"t": "bool", "b": v}
    if isinstance(v, (int, float)):
        try:
            f = float(v)
        except OverflowError:
            return {"t": "host", "d": "int(out of double range)"}
        if f == f and abs(f) < 2 ** 31 and f == int(f) and not (f == 0 and str(f)[0] == "-"):
            return {"t": "int", "i": int(f)}
        return {"t": "num", "d": repr(f)}
    if isinstance(v, str):
        return {"t": "str", "s": v}
    if isinstance(v, V.JSFunction):
        return {"t": "ref", "h": "fun"}
    if isinstance(v, V.JSArray):
        return {"t": "ref", "h": "arr"}
    if isinstance(v, V.JSObject):
        if hasattr(v, "_call_fn"):
            return {"t": "ref", "h": "fun"}
        return {"t": "ref", "h": "obj"}
    if callable(v):
        return {"t": "ref", "h": "fun"}
    return {"t": "host", "d": type(v).__name__}


def run_source(api, src, time_limit=TIME_LIMIT_STEPS, cap=400000, wall=30.0, pre=()):
    ctx = api.new_context(time_limit=time_limit)
    for name in pre:              # globals the host provides, set to 0 before the script runs (C05!ProgPre)
        ctx.set(name, 0)
    log = []

    def host_log(*a):
        if len(log) >= LOG_CAP:
            raise api.HarnessHang("log cap")
        log.append(proj(a[0]) if a else {"t": "undef"})

    ctx.set("log", host_log)
    box = ctx._raw_box
    del box[:]
    out = api.run(lambda: ctx.eval(src), wall=wall, cap=cap, tick=1.0)
    if out["o"] == "value":
        out.pop("pv", None)
        if not box:
            raise RuntimeError("raw-value tap did not fire")
        out["v"] = proj(box[0])
    if out["o"] == "jserror":
        out["msg"] = str(out.get("msg", ""))[:200]
    out.pop("steps", None)
    return log, out


def driver(case, api):
    src, pos = R.render(case["prog"], case.get("dl", 0), case.get("dc", 0))
    log, out = run_source(api, src, wall=case.get("wall", 30.0), pre=case["prog"].get("pre", ()))
    res = {"id": case["id"], "log": log, "out": out,
           "pos": [[int(n)] + list(lc) for n, lc in sorted(pos.items(), key=lambda kv: int(kv[0]))]}
    if case.get("want_src"):
        res["src"] = src
    return res
