-------------------------------- MODULE C09 --------------------------------
(* C09 - regular expressions match exactly as ECMAScript backtracking specifies.          *)
(*   Enum  : the pattern space (all ASTs up to a size over small atom sets) and the        *)
(*           subject sets, printed as JSON; the laws of RegexSem are invariants of it.     *)
(*   Judge : per pattern, the observations of the real engine on every subject of the     *)
(*           named subject set (API level and script level), judged against RegexSem.      *)
EXTENDS RegexSem, Json, IOUtils

Tier  == IF "TIER" \in DOMAIN IOEnv THEN IOEnv.TIER ELSE "quick"
Quick == Tier = "quick"

\* ---------------- subjects ------------------------------------------------------------------
RECURSIVE Words(_, _)
Words(alpha, n) == IF n = 0 THEN {<<>>} ELSE LET w == Words(alpha, n - 1) IN w \cup {Append(u, c) : u \in {v \in w : Len(v) = n - 1}, c \in alpha}
Abc == {97, 98, 99}
Mix == {97, 65, 49, 95, 32, 10}                       \* a A 1 _ space newline
ClsAlpha == {97, 98, 99, 66, 49, 95, 32, 45}          \* a b c B 1 _ space -   (character-class family)
\* canonical order of a subject set: by length, then lexicographic (the driver receives the list)
RECURSIVE SeqLess(_, _)
SeqLess(u, v) == IF Len(u) # Len(v) THEN Len(u) < Len(v)
                 ELSE IF u = <<>> THEN FALSE
                 ELSE IF Head(u) # Head(v) THEN Head(u) < Head(v) ELSE SeqLess(Tail(u), Tail(v))
LOCAL SX2 == INSTANCE SequencesExt
Ordered(S) == SX2!SetToSortSeq(S, SeqLess)
SubjectSets == [abc2 |-> Ordered(Words(Abc, 2)), abc3 |-> Ordered(Words(Abc, 3)), abc4 |-> Ordered(Words(Abc, 4)), abc5 |-> Ordered(Words(Abc, 5)),
                aAb4 |-> Ordered(Words({97, 65, 98}, 4)),                \* both cases of one letter: case-insensitive backreferences
                cls1 |-> Ordered(Words(ClsAlpha, 1)), cls2 |-> Ordered(Words(ClsAlpha, 2)),
                mix2 |-> Ordered(Words(Mix, 2)), mix3 |-> Ordered(Words(Mix, 3)), mix4 |-> Ordered(Words(Mix, 4)),
                \* leftmost-search family: long words over two letters (occurrences of a literal word overlap), each also followed by c
                ab6c |-> Ordered(Words({97, 98}, 6) \cup {Append(w, 99) : w \in Words({97, 98}, 6)})]
SubjectsOf(name) == SubjectSets[name]

\* ---------------- pattern space ----------------------------------------------------------------
ClsAB   == Cls(FALSE, <<Rng(97, 97), Rng(98, 98)>>)            \* [ab]
ClsNotA == Cls(TRUE, <<Rng(97, 97)>>)                           \* [^a]
AtomsFull    == {Chr(97), Chr(98), Chr(99), AnyC, ClsAB, ClsNotA, Sh(100), Sh(119), Sh(115), Bol, Eol, Wb, Nwb, Eps}     \* 14
AtomsReduced == {Chr(97), Chr(98), AnyC, Eps}
\* atoms the flags i / m / s act on, matched against subjects over Mix
AtomsMix == {Chr(97), Chr(65), Chr(49), Chr(95), Chr(10), AnyC, ClsAB, ClsNotA, Cls(FALSE, <<Rng(65, 90)>>), Cls(TRUE, <<ShItem(119), Rng(32, 32)>>),
             Sh(100), Sh(68), Sh(119), Sh(87), Sh(115), Sh(83), Bol, Eol, Wb, Nwb}                                       \* 20
\* unary operators: * + ? *? +? ?? {2} {1,2} {2,} {0,2}? (..) (?:..) (?=..) (?!..) (?<=..) (?<!..)
ApplyU(k, a) ==
  CASE k = 1 -> Rep(a, 0, -1, TRUE)   [] k = 2 -> Rep(a, 1, -1, TRUE)   [] k = 3 -> Rep(a, 0, 1, TRUE)
    [] k = 4 -> Rep(a, 0, -1, FALSE)  [] k = 5 -> Rep(a, 1, -1, FALSE)  [] k = 6 -> Rep(a, 0, 1, FALSE)
    [] k = 7 -> Rep(a, 2, 2, TRUE)    [] k = 8 -> Rep(a, 1, 2, TRUE)    [] k = 9 -> Rep(a, 2, -1, TRUE)
    [] k = 10 -> Rep(a, 0, 2, FALSE)  [] k = 11 -> Grp(0, a)            [] k = 12 -> Ncg(a)
    [] k = 13 -> La(FALSE, a)         [] k = 14 -> La(TRUE, a)          [] k = 15 -> Lb(FALSE, a)
    [] k = 16 -> Lb(TRUE, a)
UAll == 1..16
URep == {1, 5, 8, 11, 13, 16}                    \* one representative per operator family (3-operator space)
ApplyB(k, l, r) == IF k = 1 THEN Cat(l, r) ELSE Alt(l, r)
\* all trees with exactly n operator nodes (groups still unnumbered)
RECURSIVE Trees(_, _, _)
Trees(n, atoms, us) ==
  IF n = 0 THEN atoms
  ELSE {ApplyU(k, t) : k \in us, t \in Trees(n - 1, atoms, us)}
       \cup UNION {{ApplyB(b, l, r) : b \in 1..2, l \in Trees(j, atoms, us), r \in Trees(n - 1 - j, atoms, us)} : j \in 0..(n - 1)}
\* trees with exactly n operator nodes whose root is operator `top` (17 = cat, 18 = alt): the unit of parallel work
TreesTop(n, atoms, us, top) ==
  IF n = 0 THEN (IF top = 0 THEN atoms ELSE {})
  ELSE IF top = 0 THEN {}
  ELSE IF top <= 16 THEN (IF top \in us THEN {ApplyU(top, t) : t \in Trees(n - 1, atoms, us)} ELSE {})
  ELSE UNION {{ApplyB(top - 16, l, r) : l \in Trees(j, atoms, us), r \in Trees(n - 1 - j, atoms, us)} : j \in 0..(n - 1)}

\* backreference family: a group, then \1 (also quantified, also across an alternation, also inside a lookaround)
BrefBodies == {Chr(97), Rep(Chr(97), 0, -1, TRUE), Rep(Chr(97), 1, -1, FALSE), Alt(Chr(97), Chr(98)), AnyC, Eps, Alt(Chr(97), Eps), Rep(ClsAB, 1, 2, TRUE)}
BrefShapes(b) ==
         {Cat(Grp(1, b), Bref(1)), Cat(Grp(1, b), Rep(Bref(1), 0, -1, TRUE)), Cat(Grp(1, b), Rep(Bref(1), 1, -1, FALSE)),
          Cat(Rep(Grp(1, b), 0, -1, TRUE), Bref(1)), Cat(Rep(Grp(1, b), 0, 1, TRUE), Bref(1)), Cat(Alt(Grp(1, b), Chr(98)), Bref(1)),
          Cat(Grp(1, b), Cat(Chr(98), Bref(1))), Cat(La(FALSE, Grp(1, b)), Bref(1)), Cat(Grp(1, b), La(TRUE, Bref(1))),
          Cat(Grp(1, b), Lb(FALSE, Bref(1))), Cat(Chr(97), Lb(FALSE, Cat(Bref(1), Grp(1, b)))), Rep(Cat(Grp(1, b), Bref(1)), 0, -1, TRUE),
          Grp(1, Cat(b, Bref(1))), Rep(Alt(Grp(1, b), Bref(1)), 2, 2, TRUE)}
BrefTrees == UNION {BrefShapes(b) : b \in BrefBodies}
\* backreference family, second part.  The position of the reference relative to its group is a dimension of its own (after it: above;
\* inside it, before or behind the body; in front of it), and so is what FOLLOWS the construct: only a continuation that can fail
\* makes the matcher come back into the group / the reference after the group has closed once (the capture it then sees must be the
\* one of the path being tried, not of the abandoned one).  Every shape is followed by `b` and by `ab`.
BrefShapesIn(b) == {Grp(1, Cat(Bref(1), b)), Cat(Bref(1), Grp(1, b))}
BrefSuffixes == {Chr(98), Cat(Chr(97), Chr(98))}
BrefKOf(b) == BrefShapesIn(b) \cup {Cat(t, k) : t \in BrefShapes(b) \cup BrefShapesIn(b), k \in BrefSuffixes}
BrefKTrees == UNION {BrefKOf(b) : b \in BrefBodies}

\* capture-reset family (three operator nodes, needed already in the quick tier): a group that takes part in one iteration
\* of an enclosing quantifier and not in the next must read undefined afterwards
ResetQuants == {<<0, -1, TRUE>>, <<1, -1, TRUE>>, <<0, -1, FALSE>>, <<1, -1, FALSE>>, <<2, 2, TRUE>>, <<1, 2, TRUE>>, <<2, -1, TRUE>>, <<0, 2, FALSE>>}
ResetTrees ==
  UNION {{Rep(Alt(Grp(1, x), y), q[1], q[2], q[3]), Rep(Alt(y, Grp(1, x)), q[1], q[2], q[3]), Rep(Cat(Rep(Grp(1, x), 0, 1, TRUE), y), q[1], q[2], q[3])}
         : x \in AtomsReduced, y \in AtomsReduced, q \in ResetQuants}
\* capture-reset family, second part.  RepeatMatcher clears every group whose left parenthesis lies inside the quantified atom, WHEREVER
\* inside: directly in the alternative, nested in another group, under an inner quantifier, in the body of a lookahead or a lookbehind
\* (positive: the captures survive the assertion; negative: they never do).  Dimensions: the wrapper around the group x, the consumer z
\* behind it, the other alternative y, the position of the wrapped group among its sibling groups (only / first / last / middle: an
\* implementation that clears a numeric interval of groups is right by accident in the middle), the quantifier.
WrapG(w, g) == CASE w = 1 -> g                  [] w = 2 -> La(FALSE, g)       [] w = 3 -> Lb(FALSE, g)   [] w = 4 -> Grp(0, g)
                 [] w = 5 -> Rep(g, 0, 1, TRUE) [] w = 6 -> La(TRUE, g)        [] w = 7 -> Lb(TRUE, g)    [] w = 8 -> Ncg(g)
ResetWGrid == IF Quick THEN [x |-> {Chr(97), AnyC}, z |-> {Chr(97), Chr(98)}, y |-> {Chr(98)}, w |-> 1..7, sh |-> 1..4,
                             q |-> {<<0, -1, TRUE>>, <<1, -1, FALSE>>, <<2, 2, TRUE>>, <<1, 2, TRUE>>, <<2, -1, TRUE>>, <<0, 2, FALSE>>}]
              ELSE [x |-> {Chr(97), AnyC, Eps}, z |-> {Chr(97), Chr(98), AnyC}, y |-> {Chr(97), Chr(98), AnyC}, w |-> 1..8, sh |-> 1..6, q |-> ResetQuants]
ResetWTrees ==
  LET G == ResetWGrid
      Shapes(br, y) == LET all == <<Alt(br, y), Alt(y, br), Alt(br, Grp(0, y)), Alt(Grp(0, y), br),
                                Alt(Grp(0, y), Alt(br, Grp(0, Chr(99)))), Alt(Grp(0, Chr(99)), Alt(Grp(0, y), br))>>
                   IN {all[k] : k \in G.sh}
  IN UNION {{Renumber(Rep(t, q[1], q[2], q[3])) : t \in Shapes(Cat(WrapG(w, Grp(0, x)), z), y)} : x \in G.x, z \in G.z, y \in G.y, w \in G.w, q \in G.q}

\* character-class family.  A class is the UNION of its members, whatever their order and however they relate: the same member twice,
\* disjoint, touching, overlapping, one contained in the other (at its start, inside, at its end), single units, ranges and the six
\* class escapes, plain and negated, with and without the i flag.  Subjects: one representative unit of every kind the members tell
\* apart (the three letters, an upper-case letter, a digit, the underscore, white space, punctuation).
ClsMembers == {Rng(97, 97), Rng(98, 98), Rng(99, 99), Rng(97, 98), Rng(98, 99), Rng(97, 99), Rng(65, 67), Rng(49, 49), Rng(45, 45),
               ShItem(100), ShItem(68), ShItem(119), ShItem(87), ShItem(115), ShItem(83)}                                        \* 15
ClsMembers3 == IF Quick THEN {Rng(98, 98), Rng(97, 98), Rng(97, 99), ShItem(100)}
               ELSE {Rng(98, 98), Rng(97, 98), Rng(98, 99), Rng(97, 99), Rng(65, 67), ShItem(100), ShItem(119), ShItem(83)}
ClsItemSeqs == {<<p>> : p \in ClsMembers} \cup {<<p, q>> : p \in ClsMembers, q \in ClsMembers}
               \cup {<<p, q, r>> : p \in ClsMembers3, q \in ClsMembers3, r \in ClsMembers3}
ClsOf(t) == IF t.t = "rep" THEN t.x[1] ELSE t
ClsTrees == LET cs == {Cls(neg, its) : neg \in BOOLEAN, its \in ClsItemSeqs}
            IN IF Quick THEN cs ELSE cs \cup {Rep(c, 1, -1, TRUE) : c \in cs}
\* leftmost-search family ("lead").  exec tries the start positions 0, 1, 2, ... in order, EVERY one of them: the match is the first
\* position at which the whole pattern succeeds.  The dimension is what the pattern opens with - a literal WORD of 2..4 letters (all
\* words over {a, b}: with and without a border, i.e. occurrences that overlap themselves: aa, aba, abab, aab ...) - x what FOLLOWS it
\* (a tail that can fail where the word occurs: anchors, boundaries, classes, lookarounds, a group, an optional, an alternation) x how
\* the word is reached (bare at the start; inside a group; as one alternative; behind a star, a dot, ^).  Subjects ({a,b}^<=6, each also
\* followed by c) are long enough for two or three overlapping occurrences, so a failed attempt at one occurrence is followed by a successful one that overlaps it.
RECURSIVE WordAst(_)
WordAst(w) == IF Len(w) = 1 THEN Chr(w[1]) ELSE Cat(Chr(w[1]), WordAst(Tail(w)))
LeadWords == {w \in Words({97, 98}, 4) : Len(w) >= 2}                                                                       \* 28
LeadTail(k) == CASE k = 1 -> Eol                              [] k = 2 -> Wb                                [] k = 3 -> La(TRUE, Chr(97))
                 [] k = 4 -> Cls(FALSE, <<Rng(98, 99)>>)      [] k = 5 -> Grp(0, Chr(99))                   [] k = 6 -> Cat(Rep(Chr(98), 0, 1, TRUE), Chr(99))
                 [] k = 7 -> ClsNotA                          [] k = 8 -> Cat(AnyC, Eol)                    [] k = 9 -> Lb(TRUE, Cat(Chr(98), Chr(97)))
                 [] k = 10 -> Cat(Rep(Chr(99), 0, -1, TRUE), Eol) [] k = 11 -> Ncg(Alt(Chr(98), Chr(99)))   [] k = 12 -> Nwb
LeadTails == 1..12
LeadHead(h, w, t) == CASE h = 1 -> Cat(w, t)                                      [] h = 2 -> Cat(Grp(0, w), t)
                       [] h = 3 -> Cat(Ncg(Alt(w, Chr(99))), t)                   [] h = 4 -> Cat(Rep(Chr(98), 0, -1, TRUE), Cat(w, t))
                       [] h = 5 -> Cat(AnyC, Cat(w, t))                           [] h = 6 -> Cat(Bol, Cat(w, t))
LeadHeads == 1..6
\* quick: the bare word with every word and every tail; the other heads on representative words (border / no border, 2 and 3 letters) and tails
LeadGrid == IF Quick THEN {<<1, w, t>> : w \in LeadWords, t \in LeadTails}
                          \cup {<<h, w, t>> : h \in LeadHeads, w \in {<<97, 97>>, <<97, 98>>, <<97, 98, 97>>, <<97, 97, 98>>}, t \in {1, 4, 5, 6}}
            ELSE LeadHeads \X LeadWords \X LeadTails
ASSUME {g[1] : g \in LeadGrid} = LeadHeads /\ {g[2] : g \in LeadGrid} = LeadWords /\ {g[3] : g \in LeadGrid} = LeadTails    \* the sub-grid keeps every class
LeadTreesOf(t) == {Renumber(LeadHead(g[1], WordAst(g[2]), LeadTail(g[3]))) : g \in {x \in LeadGrid : x[3] = t}}
LeadSubs == "ab6c"
LeadISubs == "aAb4"
LeadFlags(t) == IF Quick /\ t \notin {1, 4, 5} THEN {NoFlags} ELSE {NoFlags, Flags(TRUE, FALSE, FALSE)}
\* quantified-alternation family ("qalt").  RepeatMatcher runs the WHOLE body again on every iteration and rejects exactly the iterations
\* that end where they began; which alternative of a disjunction is taken is decided per iteration.  The dimension is the WIDTH PROFILE of
\* the alternatives of a quantified disjunction: an alternative that always consumes, one that never does (an assertion: ^ $ \b \B, the four
\* lookarounds, a sequence of assertions), one that may or may not (empty, (), x?, x*?, assertion + optional), an assertion glued to a
\* consumer - every ordered pair of them (a body "can be empty" if ANY alternative can; it "is always empty" only if ALL are) x every
\* quantifier x capturing or not x what surrounds the quantified atom (nothing; a continuation that can fail, so the matcher gives
\* iterations back; something in front; inside a lookahead; under an outer star; behind, in a lookbehind).  With m (and i, s) on subjects
\* with line breaks for the pairs of an anchor and a consumer.
QaltAlts == <<Chr(97), AnyC, Sh(119),                                                                                       \* 1..3   always consume
              Bol, Eol, Wb, Nwb, La(FALSE, Chr(97)), La(TRUE, Chr(97)), Lb(FALSE, Chr(97)), Lb(TRUE, Chr(97)), Cat(Wb, Bol),  \* 4..12  never consume
              Eps, Grp(0, Eps), Rep(Chr(97), 0, 1, TRUE), Rep(Chr(97), 0, -1, FALSE), Cat(Wb, Rep(Chr(97), 0, 1, TRUE)),      \* 13..17 may be empty
              Cat(Bol, Chr(97)), Cat(Chr(97), Eol)>>                                                                         \* 18..19 assertion + consumer
QaltN == Len(QaltAlts)
QaltKind(k) == IF k <= 3 THEN "adv" ELSE IF k <= 12 THEN "zero" ELSE IF k <= 17 THEN "opt" ELSE "adv"
QaltWrap(w, a) == IF w = 1 THEN a ELSE Grp(0, a)                         \* (?:p|q) / (p|q)
QaltCtx(c, t) == CASE c = 1 -> t                                          [] c = 2 -> Cat(t, Chr(98))
                   [] c = 3 -> Cat(Chr(98), t)                            [] c = 4 -> Cat(La(FALSE, Cat(t, Chr(98))), AnyC)
                   [] c = 5 -> Rep(Ncg(Cat(t, Chr(98))), 0, -1, TRUE)     [] c = 6 -> Cat(AnyC, Lb(FALSE, Cat(Chr(98), t)))
QaltCtxs == 1..6
QaltQuants == 1..10                                                       \* the ten quantifiers of ApplyU
QaltTree(g) == Renumber(QaltCtx(g[5], ApplyU(g[3], QaltWrap(g[4], Alt(QaltAlts[g[1]], QaltAlts[g[2]])))))      \* g = <<p, q, quantifier, wrapper, context>>
\* quick: every alternative against `a` (every quantifier) and against `$` (* +? {1,2}), both orders, bare and uncaptured; the capturing
\* wrapper and the other contexts on nine representative pairs (every pair of width profiles occurs) under six quantifiers
QaltRepPairs == {<<4, 1>>, <<1, 5>>, <<6, 2>>, <<8, 1>>, <<1, 13>>, <<15, 5>>, <<3, 10>>, <<18, 4>>, <<16, 14>>}
QaltQ6 == {1, 2, 3, 5, 8, 10}                                                \* * + ? +? {1,2} {0,2}?
QaltGrid == IF Quick THEN {<<p, 1, u, 1, 1>> : p \in 1..QaltN, u \in QaltQuants} \cup {<<1, p, u, 1, 1>> : p \in 1..QaltN, u \in QaltQuants}
                          \cup {<<p, 5, u, 1, 1>> : p \in 1..QaltN, u \in {1, 5, 8}} \cup {<<5, p, u, 1, 1>> : p \in 1..QaltN, u \in {1, 5, 8}}
                          \cup {<<pq[1], pq[2], u, 2, c>> : pq \in QaltRepPairs, u \in QaltQ6, c \in {1, 2}}
                          \cup {<<pq[1], pq[2], u, 1, c>> : pq \in QaltRepPairs, u \in QaltQ6, c \in QaltCtxs \ {1}}
            ELSE \* thorough: all ordered pairs x every quantifier x both wrappers, bare and before a continuation; the other contexts under six quantifiers
                 ((1..QaltN) \X (1..QaltN) \X QaltQuants \X {1, 2} \X {1, 2}) \cup ((1..QaltN) \X (1..QaltN) \X QaltQ6 \X {1} \X (QaltCtxs \ {1, 2}))
ASSUME /\ {g[1] : g \in QaltGrid} = 1..QaltN /\ {g[2] : g \in QaltGrid} = 1..QaltN /\ {g[3] : g \in QaltGrid} = QaltQuants       \* the sub-grid keeps every class
       /\ {g[4] : g \in QaltGrid} = {1, 2} /\ {g[5] : g \in QaltGrid} = QaltCtxs
       /\ {<<QaltKind(g[1]), QaltKind(g[2])>> : g \in QaltGrid} = {"adv", "zero", "opt"} \X {"adv", "zero", "opt"}
QaltTreesOf(u) == {QaltTree(g) : g \in {x \in QaltGrid : x[3] = u}}
\* with flags: an anchor (^ $ ^a a$) against a consumer (a . \w), both orders, on subjects with line breaks and both cases
QaltMPairs == IF Quick THEN {<<4, 1>>, <<5, 1>>, <<4, 2>>, <<5, 3>>, <<18, 2>>, <<19, 3>>} ELSE {4, 5, 18, 19} \X {1, 2, 3}
QaltMGrid == {<<pq[1], pq[2], u, w, c>> : pq \in QaltMPairs \cup {<<x[2], x[1]>> : x \in QaltMPairs}, u \in (IF Quick THEN QaltQ6 ELSE QaltQuants),
                                         w \in (IF Quick THEN {1} ELSE {1, 2}), c \in (IF Quick THEN {1} ELSE {1, 2})}
ASSUME {g[1] : g \in QaltMGrid} = {1, 2, 3, 4, 5, 18, 19} /\ {g[2] : g \in QaltMGrid} = {1, 2, 3, 4, 5, 18, 19}
QaltMTreesOf(u) == {QaltTree(g) : g \in {x \in QaltMGrid : x[3] = u}}
QaltMFlags == {Flags(FALSE, TRUE, FALSE), Flags(TRUE, TRUE, TRUE)}
\* families given as explicit tree sets: [name, trees, flag sets, subject set without / with the i flag].  A family is cut into parts
\* (one record per part, same name) only so that TLC's workers share the enumeration and the laws: the union is what is stated above.
BrefSubs == IF Quick THEN "abc4" ELSE "abc5"
IFlag == Flags(TRUE, FALSE, FALSE)
SFam(name, trees, fls, subs, isubs) == [name |-> name, trees |-> trees, fls |-> fls, subs |-> subs, isubs |-> isubs]
SpecialFamilies ==
  SX2!SetToSeq({SFam("bref", BrefShapes(b), {NoFlags, IFlag}, BrefSubs, "aAb4") : b \in BrefBodies})
  \o SX2!SetToSeq({SFam("reset3", {t \in ResetTrees : <<t.min, t.max, t.g>> = q}, {NoFlags}, BrefSubs, "aAb4") : q \in ResetQuants})
  \o SX2!SetToSeq({SFam("brefk", BrefKOf(b), {NoFlags, IFlag}, BrefSubs, "aAb4") : b \in BrefBodies})
  \o SX2!SetToSeq({SFam("resetw", {t \in ResetWTrees : <<t.min, t.max, t.g>> = q}, {NoFlags}, "abc4", "aAb4") : q \in ResetQuants} \ {SFam("resetw", {}, {NoFlags}, "abc4", "aAb4")})
  \o SX2!SetToSeq({SFam("cls", {t \in ClsTrees : ClsOf(t).neg = neg /\ ClsOf(t).items[1] = p}, {NoFlags, IFlag}, "cls2", "cls2") : neg \in BOOLEAN, p \in ClsMembers})
  \o SX2!SetToSeq({SFam("lead", LeadTreesOf(t), LeadFlags(t), LeadSubs, LeadISubs) : t \in LeadTails})
  \o SX2!SetToSeq({SFam("qalt", QaltTreesOf(u), {NoFlags}, "abc4", "abc4") : u \in QaltQuants})
  \o SX2!SetToSeq({SFam("qalt", QaltMTreesOf(u), QaltMFlags, "mix3", "mix3") : u \in QaltQuants})

\* flag sets worth trying on a tree: a flag is added only where a node it acts on occurs
HasLetters(a) == Kinds(a) \cap {"chr", "cls", "bref"} # {}
FlagSetsOf(a) == {NoFlags} \cup (IF HasLetters(a) THEN {Flags(TRUE, FALSE, FALSE)} ELSE {})
                 \cup (IF Kinds(a) \cap {"bol", "eol"} # {} THEN {Flags(FALSE, TRUE, FALSE)} ELSE {})
                 \cup (IF "any" \in Kinds(a) THEN {Flags(FALSE, FALSE, TRUE)} ELSE {})
                 \cup (IF HasLetters(a) /\ Kinds(a) \cap {"bol", "eol", "any"} # {} THEN {Flags(TRUE, TRUE, TRUE)} ELSE {})

\* The families.  [name, n (operator nodes), atoms, us, subs, flags (TRUE: FlagSetsOf, FALSE: none)]
Fam(name, n, atoms, us, subs, fl) == [name |-> name, n |-> n, atoms |-> atoms, us |-> us, subs |-> subs, fl |-> fl]
Families ==
  IF Quick THEN <<Fam("full0", 0, AtomsFull, UAll, "abc4", FALSE), Fam("full1", 1, AtomsFull, UAll, "abc4", FALSE),
                  Fam("red2", 2, AtomsReduced, UAll, "abc4", FALSE),
                  Fam("mix0", 0, AtomsMix, UAll, "mix3", TRUE), Fam("mix1", 1, AtomsMix, UAll, "mix3", TRUE)>>
  ELSE <<Fam("full0", 0, AtomsFull, UAll, "abc5", FALSE), Fam("full1", 1, AtomsFull, UAll, "abc5", FALSE),
         Fam("full2", 2, AtomsFull, UAll, "abc4", FALSE), Fam("red2", 2, AtomsReduced, UAll, "abc5", FALSE),
         Fam("red3", 3, AtomsReduced, URep, "abc4", FALSE),
         Fam("mix0", 0, AtomsMix, UAll, "mix4", TRUE), Fam("mix1", 1, AtomsMix, UAll, "mix3", TRUE)>>
UsedSubjectSets == {Families[k].subs : k \in 1..Len(Families)}
                   \cup UNION {{SpecialFamilies[j].subs, SpecialFamilies[j].isubs} : j \in 1..Len(SpecialFamilies)}

\* ---------------- Enum ------------------------------------------------------------------------
VARIABLES ph, cur, rec_i
vars == <<ph, cur, rec_i>>
\* development aid: C09_ONLY=<family> restricts the enumeration to one family (the check itself never sets it)
OnlyFam == IF "C09_ONLY" \in DOMAIN IOEnv THEN IOEnv.C09_ONLY ELSE ""
EnumInit == ph = "start" /\ cur = <<>> /\ rec_i = 0
PickFamily == /\ ph = "start"
              /\ \/ \E k \in 1..Len(Families) : \E top \in 0..18 :
                      /\ OnlyFam \in {"", Families[k].name}
                      /\ TreesTop(Families[k].n, Families[k].atoms, Families[k].us, top) # {}
                      /\ ph' = "fam" /\ cur' = [k |-> k, top |-> top] /\ UNCHANGED rec_i
                 \/ \E j \in 1..Len(SpecialFamilies) : OnlyFam \in {"", SpecialFamilies[j].name} /\ ph' = "fam" /\ cur' = [k |-> 0, top |-> j] /\ UNCHANGED rec_i    \* explicit tree sets
                 \/ \E nm \in UsedSubjectSets : ph' = "subs" /\ cur' = [kind |-> "subs", name |-> nm, list |-> SubjectsOf(nm)] /\ UNCHANGED rec_i
EmitPattern == /\ ph = "fam"
               /\ IF cur.k = 0
                  THEN \E t \in SpecialFamilies[cur.top].trees : \E f \in SpecialFamilies[cur.top].fls :
                         /\ ph' = "pat" /\ UNCHANGED rec_i
                         /\ cur' = [kind |-> "pat", fam |-> SpecialFamilies[cur.top].name, ast |-> t, src |-> Render(t), fl |-> f,
                                    subs |-> IF f.i THEN SpecialFamilies[cur.top].isubs ELSE SpecialFamilies[cur.top].subs]
                  ELSE LET F == Families[cur.k] IN
                       \E t0 \in TreesTop(F.n, F.atoms, F.us, cur.top) :
                         LET t == Renumber(t0) IN
                         \E f \in (IF F.fl THEN FlagSetsOf(t) ELSE {NoFlags}) :
                           /\ ph' = "pat" /\ UNCHANGED rec_i
                           /\ cur' = [kind |-> "pat", fam |-> F.name, ast |-> t, src |-> Render(t), fl |-> f, subs |-> F.subs]
EnumNext == PickFamily \/ EmitPattern
EnumEmit == ph \in {"start", "fam"} \/ PrintT(ToJson(cur))

\* ---------------- Laws of the reference (invariants of the enumeration) ---------------------------
\* mirror image of a tree / a subject: forward matching of a on s = backward matching of Mirror(a) on Reverse(s)
RECURSIVE Mirror(_)
Mirror(a) ==
  CASE a.t = "cat" -> Cat(Mirror(a.x[2]), Mirror(a.x[1]))
    [] a.t = "alt" -> Alt(Mirror(a.x[1]), Mirror(a.x[2]))
    [] a.t = "bol" -> Eol  [] a.t = "eol" -> Bol
    [] a.t = "la" -> Lb(a.neg, Mirror(a.x[1]))   [] a.t = "lb" -> La(a.neg, Mirror(a.x[1]))
    [] a.t \in {"rep", "grp", "ncg"} -> [a EXCEPT !.x = <<Mirror(a.x[1])>>]
    [] OTHER -> a
Rev(s) == [k \in 1..Len(s) |-> s[Len(s) + 1 - k]]
MirrorSt(r, n) == St(n - r.e, [k \in 1..Len(r.c) |-> IF r.c[k] = NoCap THEN NoCap ELSE <<n - r.c[k][2], n - r.c[k][1]>>])
RECURSIVE AllLazy(_, _)
AllLazy(a, g) == IF a.t = "rep" THEN [a EXCEPT !.g = g, !.x = <<AllLazy(a.x[1], g)>>]
                 ELSE IF a.t \in Unary THEN [a EXCEPT !.x = <<AllLazy(a.x[1], g)>>]
                 ELSE IF a.t \in Binary THEN [a EXCEPT !.x = <<AllLazy(a.x[1], g), AllLazy(a.x[2], g)>>]
                 ELSE a
SeqSet(q) == {q[k] : k \in 1..Len(q)}
\* small families are checked on more subjects than the big ones
LawSubjects(fam, f) == IF fam = "cls" THEN SubjectsOf("cls1")
                       ELSE IF fam \in {"mix0", "mix1"} \/ f.i \/ f.m THEN SubjectsOf("mix2")
                       ELSE IF fam \in {"full0", "full1", "bref", "reset3", "brefk"} THEN SubjectsOf("abc3") ELSE SubjectsOf("abc2")
SyntaxLaw(a) ==
  LET src == Render(a)  p == Parse(src) IN
  /\ WellNumbered(a)
  /\ p.ok /\ Norm(p.a) = Norm(a)                        \* Render lands in the grammar and means the same tree
  /\ ParseMode(src, TRUE).ok                            \* 22.2.1 is contained in B.1.2
  /\ Render(Norm(a)) = Render(Norm(Norm(a)))
MatchLaw(a, f, s) ==
  LET n == Len(s)
      nc == NCaps(a)
      m == Search(a, s, f, 0, {}) IN
  /\ (m.ok => /\ 0 <= m.index /\ m.index <= m.end /\ m.end <= n                            \* bounds
              /\ \A k \in 1..nc : m.caps[k] = NoCap \/ (0 <= m.caps[k][1] /\ m.caps[k][1] <= m.caps[k][2] /\ m.caps[k][2] <= n)
              /\ \A j \in 0..(m.index - 1) : ~Attempt(a, s, f, j, {}).ok)                  \* leftmost
  /\ \A i \in 0..n :
       LET fw == AttemptAll(a, s, f, i, {}) IN
       /\ [k \in 1..Len(fw) |-> MirrorSt(fw[k], n)] = M(Mirror(a), St(n - i, [k \in 1..nc |-> NoCap]), -1, Cx(Rev(s), f, {}))    \* direction symmetry
       /\ (Kinds(a) \cap {"la", "lb"} = {} =>                                             \* greedy and lazy explore the same set
             SeqSet(AttemptAll(AllLazy(a, TRUE), s, f, i, {})) = SeqSet(AttemptAll(AllLazy(a, FALSE), s, f, i, {})))
       /\ AttemptAll(Norm(a), s, f, i, {}) = fw                                             \* (?:x) = x, sequencing associates
       /\ AttemptAll(Rep(Ncg(a), 1, 1, TRUE), s, f, i, {}) = Dedupe(fw)                          \* x{1} = x
LawsHold == ph # "pat" \/ (SyntaxLaw(cur.ast) /\ \A k \in 1..Len(LawSubjects(cur.fam, cur.fl)) : MatchLaw(cur.ast, cur.fl, LawSubjects(cur.fam, cur.fl)[k]))

\* ---------------- Judge -------------------------------------------------------------------------
Recs == ndJsonDeserialize(IOEnv.OBS_FILE)     \* [id, ast, fl, subs, open (names of the open findings' deviations), o (distinct observations), ch (seq of seq of index into o, one per channel)]
\* an observation: [k |-> "null"] | [k |-> "m", i |-> index, g |-> texts] | [k |-> "err", cls |-> outcome kind, ty |-> exception type / error name, at |-> site]
ObsOf(s, m) == IF m.ok THEN [k |-> "m", i |-> m.index, g |-> GroupTexts(s, m)] ELSE [k |-> "null"]
SameObs(x, y) == x.k = y.k /\ (x.k = "m" => x.i = y.i /\ x.g = y.g) /\ (x.k = "err" => x.cls = y.cls /\ x.ty = y.ty)

\* named deviations (known findings): exact as-is rules live in RegexSem (cx.devs) ...
FlagsOf(r) == Flags(r.fl.i, r.fl.m, r.fl.s)
\* `open` = the deviations listed as open findings (known_findings/C09.json, handed through with every record).  The other named rules of
\* RegexSem describe defects repaired in the engine since: they still give a mismatch a name (triage), but never the name of an open
\* finding - a combination of a repaired rule with an open one must not hide a regression behind the open one.
Explain(a, f, s, act, open) ==
  IF act.k = "err"
  THEN (IF act.ty = "RegExpError" /\ Fwd(a, 0).bad THEN "Dev_ForwardRef"
        ELSE IF act.ty = "RegexStackOverflow" /\ SpinBad(a, f) THEN "Dev_SubmatcherOverflow" ELSE "")
  ELSE
  LET ds == Applicable(a, f)
      Hits(S) == {d \in SUBSET S : d # {} /\ SameObs(act, ObsOf(s, Search(a, s, f, 0, d)))}
      Least(H) == CHOOSE d \in H : \A e \in H : Cardinality(d) <= Cardinality(e)
      h1 == Hits(ds \cap open)
  IN IF h1 # {} THEN (CHOOSE x \in Least(h1) : TRUE)
     ELSE LET h2 == Hits(ds)
          IN IF h2 # {} THEN (CHOOSE x \in Least(h2) \ open : TRUE)
             ELSE IF SubBad(a, f, "la") THEN "Dev_LaSubmatcher"
             ELSE IF SubBad(a, f, "lb") THEN "Dev_LbSubmatcher"
             ELSE ""
\* per subject: the reference once; every *distinct* observation of the channels is compared (and explained) once
JudgeRec(r) ==
  LET a == r.ast  f == FlagsOf(r)  subs == IF r.subs = "" THEN r.sl ELSE SubjectsOf(r.subs)
      open == {r.open[k] : k \in 1..Len(r.open)}
      PerSubject(k) == LET ref == ObsOf(subs[k], Search(a, subs[k], f, 0, {}))
                           ois == {r.ch[c][k] : c \in 1..Len(r.ch)}
                       IN {[k |-> k, oi |-> oi, dev |-> Explain(a, f, subs[k], r.o[oi], open), exp |-> ref] : oi \in {x \in ois : ~SameObs(r.o[x], ref)}}
  IN [id |-> r.id, n |-> Len(r.ch) * Len(subs), bad |-> SX2!SetToSeq(UNION {PerSubject(k) : k \in 1..Len(subs)})]
JudgeInit == /\ rec_i \in 1..Len(Recs) /\ ph = "judge" /\ cur = <<>>
             /\ PrintT(ToJson(JudgeRec(Recs[rec_i])))
JudgeNext == UNCHANGED vars
\* random trees arrive as JSON: the spec renders them (and checks they are inside its own grammar)
RenderInit == /\ rec_i \in 1..Len(Recs) /\ ph = "render" /\ cur = <<>>
              /\ LET a == Recs[rec_i].ast  src == Render(a)  p == Parse(src)
                 IN PrintT(ToJson([id |-> Recs[rec_i].id, ok |-> WellNumbered(a) /\ p.ok /\ Norm(p.a) = Norm(a), src |-> src]))
=============================================================================
