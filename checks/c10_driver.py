"""C10 drivers (run inside the engine child).

construct_driver: a batch of pattern strings through six channels (microjs.regex.RegExp, regex literal, RegExp(), new RegExp(),
  "s".match(P), "s".search(P) with a string P), each script channel inside try/catch (does script code receive a SyntaxError?)
  and, on request, without (does Python receive a JSError?).  Compilation work is counted (AST nodes visited, instructions emitted).
run_driver: one matching run of a family under one run configuration (package API with a poll interval, or a script entry point,
  bare or inside try/catch; deadline in hooked steps) with step / stack / poll / late-step counting through the guarded hook.
fold_batch: case-insensitive matching of short subjects with special-casing characters through the API and six script operations.
The drivers only record outcome codes and counts; spec/C10.tla judges."""
import sys
import time
from harness import wire
from harness.drivers import CLASSIFY_JS


def code_of(out, caught):
    """outcome of one script evaluation -> code"""
    if out["o"] == "value":
        return caught                      # what the script reported: 'ok' or the class its catch clause saw
    if out["o"] == "syntax":
        return "syntax"
    if out["o"] == "jserror":
        return "jserror"                   # reached Python as a JSError (class name not judged)
    if out["o"] == "host":
        return "host:" + str(out.get("type"))
    return out["o"]                        # hang, timelimit, memlimit


def script_channel(api, ctx, got, body, wall):
    del got[:]
    _emits[0] = _visits[0] = 0
    out = api.eval_outcome(ctx, body, wall=wall, cap=20_000_000)
    if out["o"] == "value":
        if len(got) != 1:
            return "noresult"
        tag = got[0]
        return "ok" if tag == "ok" else ("SyntaxError" if tag == "SyntaxError" else "caught:" + str(tag))
    return code_of(out, None)


EMIT_CAP = 3_000_000
VISIT_CAP = 6_000_000
_emits = [0]
_visits = [0]
_counting = [False, False]          # [emit counter installed, node-visit counter installed]
_prog = [0]                         # the longest program of a compiler seen at a counted emission / node visit
_prog_seen = [True]                 # False once a compiler without a `bytecode` list has been met (then not reported)


def _see_program(compiler):
    try:
        n = len(compiler.bytecode)
    except Exception:       # noqa: BLE001
        _prog_seen[0] = False
        return
    if n > _prog[0]:
        _prog[0] = n


def _peak_rss_kb():
    try:
        import resource
        return int(resource.getrusage(resource.RUSAGE_SELF).ru_maxrss)
    except Exception:       # noqa: BLE001
        return -1


def install_emit_counter(api):
    """Unbounded compilation is detected by counting, not by the clock: every instruction the regex compiler emits and every
    AST node it visits is counted and the construction is stopped (outcome "hang") beyond EMIT_CAP / VISIT_CAP (a counted
    quantifier over a body that emits nothing spends its time visiting nodes).  If the internal names are gone the wall-clock
    watchdog of api.run remains."""
    try:
        from microjs.regex.compiler import RegexCompiler
    except Exception:       # noqa: BLE001
        return False
    if getattr(RegexCompiler, "_verif_wrapped", False):
        return True
    orig = getattr(RegexCompiler, "_emit", None)
    if orig is None:
        return False

    def counted(self, *a, **k):
        _emits[0] += 1
        _see_program(self)
        if _emits[0] > EMIT_CAP:
            raise api.HarnessHang("emit cap")
        return orig(self, *a, **k)
    RegexCompiler._emit = counted
    _counting[0] = True
    orig_node = getattr(RegexCompiler, "_compile_node", None)
    if orig_node is not None:
        def visited(self, *a, **k):
            _visits[0] += 1
            if _visits[0] > VISIT_CAP:
                raise api.HarnessHang("node-visit cap")
            return orig_node(self, *a, **k)
        RegexCompiler._compile_node = visited
        _counting[1] = True
    RegexCompiler._verif_wrapped = True
    return True


STRING_CHANNELS = [("'s'.match(P)", "match"), ("'s'.search(P)", "search")]
CAUGHT = "try { %s; __out('ok'); } catch (e) { __out(__cls(e)); }"
UNCAUGHT = "%s; __out('ok');"


def tag_code(tag):
    return "ok" if tag == "ok" else ("SyntaxError" if tag == "SyntaxError" else "caught:" + str(tag))


CTOR_CAUGHT = ["try { var r = RegExp(P, F); __out('v', r); } catch (e) { __out(__cls(e)); }",
               "try { var r = new RegExp(P, F); __out('v', r); } catch (e) { __out(__cls(e)); }"]
# the statements of channels 3-6, unchanged, as the body of a function that is defined once per context
BULK_FN = "function __bulk() { " + " ".join(CTOR_CAUGHT + [CAUGHT % e for e, _ in STRING_CHANNELS]) + " }"


def bulk_channels(api, ctx, got, wall):
    """Channels 3-6 (RegExp(P, F), new RegExp(P, F), 's'.match(P), 's'.search(P), each in its try/catch) in one evaluation
    `__bulk()`: the script to parse is short, which makes the bulk of the string space (length >= 4) cost a third.  Returns None
    unless the call ended with the four reports (a foreign exception or a stop ends the whole script): the caller then evaluates
    every channel on its own as a top-level statement - the form used for all shorter strings, the flag strings and the specials."""
    del got[:]
    _emits[0] = _visits[0] = 0
    out = api.eval_outcome(ctx, "__bulk()", wall=wall, cap=20_000_000)
    if out["o"] == "value" and len(got) == 4:
        return [tag_code(t) for t in got]
    return None


def string_channels(api, ctx, got, wall):
    """'s'.match(P) and 's'.search(P) inside try/catch as top-level statements of one evaluation; whenever that does not end with
    two reports each channel is evaluated on its own."""
    del got[:]
    _emits[0] = _visits[0] = 0
    out = api.eval_outcome(ctx, " ".join(CAUGHT % e for e, _ in STRING_CHANNELS), wall=wall, cap=20_000_000)
    if out["o"] == "value" and len(got) == 2:
        return [tag_code(t) for t in got]
    return [script_channel(api, ctx, got, CAUGHT % e, wall) for e, _ in STRING_CHANNELS]


def construct_batch(case, api):
    """case = {id, items:[{id, p:[units], fl:"", uncaught:bool, wall:float}]}"""
    from microjs.regex import RegExp, RegExpError
    install_emit_counter(api)
    ctx = api.new_context(time_limit=None)
    got = []
    # success = the expression produced a RegExp object (classified on the raw engine value, not by script code)
    ctx.set("__out", lambda *a: (got.append(str(a[0]) if len(a) == 1 else ("ok" if wire.to_wire(a[1]).get("k") == "regex" else "notregexp")), None)[1])
    api.eval_outcome(ctx, CLASSIFY_JS, wall=10.0)
    if api.eval_outcome(ctx, BULK_FN, wall=10.0)["o"] != "value":
        raise RuntimeError("could not define the bulk-channel function")
    res = []
    for it in case["items"]:
        p = wire.from_units(it["p"])
        fl = it.get("fl", "")
        wall = float(it.get("wall", 10.0))
        t0 = time.process_time()
        # channel 1: the package API
        _emits[0] = _visits[0] = _prog[0] = 0
        rss0 = _peak_rss_kb()
        out = api.run(lambda: RegExp(p, fl), wall=wall, cap=10**9)
        rss1 = _peak_rss_kb()
        # [AST nodes visited, instructions emitted, longest program seen on the way, growth of the peak resident set in KB]
        work = [_visits[0] if _counting[1] else -1, _emits[0] if _counting[0] else -1,
                _prog[0] if _counting[0] and _prog_seen[0] else -1, rss1 - rss0 if rss0 >= 0 and rss1 >= 0 else -1]
        if out["o"] == "value":
            c1 = "ok"
        elif out["o"] == "host" and out.get("type") == "RegExpError":
            c1 = "RegExpError"
        else:
            c1 = code_of(out, None)
        ch = [c1]
        # channel 2: literal (only where the text can be written as a literal: non-empty, no line break, no "/" )
        lit_ok = p != "" and "\n" not in p and "/" not in p and not p.startswith("*")
        if lit_ok and not it.get("nolit"):
            ch.append(script_channel(api, ctx, got, "try { var r = /" + p + "/" + fl + "; __out('v', r); } catch (e) { __out(__cls(e)); }", wall))
        else:
            ch.append("skip")
        ctx.set("P", p)
        ctx.set("F", fl)
        # channels 3, 4: RegExp(P, F), new RegExp(P, F); channels 5, 6: a string pattern given to String.prototype.match / search
        # (these have no flags argument)
        strs = fl == ""
        toplevel = bool(it.get("uncaught") or it.get("name") or fl)
        four = None if toplevel else bulk_channels(api, ctx, got, wall)
        if four is not None:
            ch.extend(four)
        else:
            for body in CTOR_CAUGHT:
                ch.append(script_channel(api, ctx, got, body, wall))
            ch.extend(string_channels(api, ctx, got, wall) if strs else ["skip", "skip"])
        un = []
        if it.get("uncaught"):
            if lit_ok and not it.get("nolit"):
                un.append(script_channel(api, ctx, got, "var r = /" + p + "/" + fl + "; __out('v', r);", wall))
            else:
                un.append("skip")
            un.append(script_channel(api, ctx, got, "var r = RegExp(P, F); __out('v', r);", wall))
            un.append(script_channel(api, ctx, got, "var r = new RegExp(P, F); __out('v', r);", wall))
            for e, _ in STRING_CHANNELS:
                un.append(script_channel(api, ctx, got, UNCAUGHT % e, wall) if strs else "skip")
        r = {"id": it["id"], "ch": ch, "un": un}
        if it.get("name"):
            r["work"] = work
            r["cpu_s"] = round(time.process_time() - t0, 2)       # recorded, not judged
        res.append(r)
    return res


class Counter:
    """observer installed as api.steps.user: per loop kind totals, per-activation maxima, attempts, stack high-water mark"""
    def __init__(self, api, cap):
        self.api, self.cap = api, cap
        self.steps = {"re": 0, "la": 0, "lb": 0}
        self.maxstep = {"re": 0, "la": 0, "lb": 0}
        self.attempts = 0
        self.maxstack = 0
        self.total = 0
        # steps per activation as the observer counts them (not the matcher's own step_count): an activation of the matcher loop
        # is one host frame of the function that calls the hook; acts = the activations in progress, innermost last
        self.own = {"re": 0, "la": 0, "lb": 0}
        self.acts = []                 # [frame, kind, hook calls]
        self.depth = None              # host frames between this observer and the matcher loop (found at the first step)

    def activation(self, kind):
        if self.depth is None:
            f, d = sys._getframe(2), 2
            while f is not None and not f.f_code.co_filename.replace("\\", "/").endswith("regex/vm.py"):
                f, d = f.f_back, d + 1
            self.depth = d if f is not None else -1
        if self.depth < 0:
            return
        f = sys._getframe(self.depth)
        acts = self.acts
        if acts and acts[-1][0] is f:
            acts[-1][2] += 1
        else:
            k = len(acts) - 1
            while k >= 0 and acts[k][0] is not f:
                k -= 1
            if k >= 0:                 # the runs nested in f have returned
                del acts[k + 1:]
                acts[k][2] += 1
            else:                      # a new run: forget the runs that are over (their frames are not among the callers of f)
                chain, g = set(), f.f_back
                while g is not None:
                    chain.add(id(g))
                    g = g.f_back
                while acts and id(acts[-1][0]) not in chain:
                    acts.pop()
                acts.append([f, kind, 1])
        if acts[-1][2] > self.own[kind]:
            self.own[kind] = acts[-1][2]

    def finish(self):
        del self.acts[:]
        if self.depth is None or self.depth < 0:
            return {"re": -1, "la": -1, "lb": -1} if self.total else dict(self.own)
        return dict(self.own)

    def __call__(self, kind, vm, pc, sp, stacklen, step_count):
        if kind not in self.steps:
            return
        self.steps[kind] += 1
        self.total += 1
        self.activation(kind)
        if step_count + 1 > self.maxstep[kind]:
            self.maxstep[kind] = step_count + 1
        if kind == "re" and step_count == 0:
            self.attempts += 1
        if stacklen > self.maxstack:
            self.maxstack = stacklen
        if self.total > self.cap:
            raise self.api.HarnessHang("count cap")


# the entry points that run the matcher on a RegExp object (script level); R = new RegExp(P, F), S = the subject
# the pattern argument of the entry points that build the matcher themselves from a non-RegExp value (cfg.arg)
ARG_JS = {"string": "P", "strobj": "new String(P)"}
OPS_JS = {
    "test": "R.test(S)", "exec": "R.exec(S)", "match": "S.match(R)", "search": "S.search(R)", "replace": "S.replace(R, '-')",
    "replaceAll": "S.replaceAll(R, '-')", "split": "S.split(R)",
}


def run_driver(case, api):
    """One matching run, counted through the guarded hook.
    case = {id, src, unit, n, tail, cap, wall, cfg: {mode: "api" | "script", deadline (steps, 0 = none),
            api: interval (poll_interval of the package API); script: op, fl, form ("bare" | "try")}}
    Deadlines are virtual: in api mode the poll callback says stop once the hook has counted `deadline` steps, in script mode the
    context has time_limit = deadline virtual seconds and the clock advances one second per hooked step (VM or regex), so "how long
    did the matcher go on after the deadline" is a number of steps (late), not a time."""
    from microjs.regex import RegExp
    src = wire.from_units(case["src"])
    subject = wire.from_units(case["unit"]) * case["n"] + wire.from_units(case["tail"])
    cfg = case["cfg"]
    D = int(cfg["deadline"])
    cnt = Counter(api, case["cap"])
    polls = [0]
    out_code, ty, late = "?", "", 0
    out = {}
    if cfg["mode"] == "api":
        def cb():
            polls[0] += 1
            return D > 0 and cnt.total >= D
        r = RegExp(src, "", poll_callback=cb, poll_interval=int(cfg["interval"]))

        def go():
            api.steps.user = cnt
            try:
                return r.exec(subject)
            finally:
                api.steps.user = None
        out = api.run(go, wall=case.get("wall", 300.0), cap=10**12)
        late = max(0, cnt.total - D) if D > 0 else 0
        if out["o"] == "value":
            out_code = "null" if out["pv"] is None else "match"
        elif out["o"] == "hang":
            out_code = "capped" if "count cap" in out.get("why", "") else "hang"
        elif out["o"] == "host" and out.get("type") == "RegexTimeoutError":
            out_code = "timeout"                     # the package's documented way of reporting an aborted run
        elif out["o"] == "host" and out.get("type") == "RegexStackOverflow":
            out_code = "overflow"                    # likewise exported by the package for an exhausted backtrack stack
        else:
            out_code, ty = out["o"], str(out.get("type", ""))
    else:
        ctx = api.new_context(time_limit=(float(D) if D else None))
        got = []
        ctx.set("__out", lambda *a: (got.append(str(a[0])), None)[1])
        api.eval_outcome(ctx, CLASSIFY_JS, wall=10.0)
        ctx.set("P", src)
        ctx.set("F", wire.from_units(cfg["fl"]))
        ctx.set("S", subject)
        arg = cfg.get("arg", "regexp")
        if arg == "regexp":
            call = "var R = new RegExp(P, F); var v = %s;" % OPS_JS[cfg["op"]]
        else:                                                  # no RegExp object in the script: the entry point builds the matcher
            call = "var v = S.%s(%s);" % ({"match": "match", "search": "search"}[cfg["op"]], ARG_JS[arg])
        body = call + " __out(v === null ? 'null' : v === false ? 'false' : v === true ? 'true' : 'v');"
        if cfg["form"] == "try":
            body = "try { " + body + " } catch (e) { __out('caught:' + __cls(e)); }"

        def go2():
            api.steps.user = cnt
            try:
                return ctx.eval(body)
            finally:
                api.steps.user = None
        out = api.run(go2, wall=case.get("wall", 300.0), cap=10**12, tick=(1.0 if D else 0.0), deadline=(float(D) if D else None))
        lt = api.steps.late
        late = lt["re"] + lt["la"] + lt["lb"]
        if out["o"] == "value":
            if len(got) != 1:
                out_code, ty = "noresult", str(got)[:80]
            elif got[0].startswith("caught:"):
                out_code, ty = "caught", got[0][7:]            # the script's catch clause received an error of this class
            elif cfg["op"] == "test":
                out_code = {"true": "match", "false": "null"}.get(got[0], "badvalue")
            elif cfg["op"] in ("exec", "match"):
                out_code = "null" if got[0] == "null" else ("match" if got[0] == "v" else "badvalue")
            else:
                out_code = "value"                             # search: a number, replace: a string, split: an array (not judged further)
        elif out["o"] == "hang":
            out_code = "capped" if "count cap" in out.get("why", "") else "hang"
        elif out["o"] == "timelimit":
            out_code = "timeout"
        elif out["o"] in ("jserror", "memlimit"):
            out_code, ty = "jserror", str(out.get("name", out["o"]))      # an error of the JSError family
        else:
            out_code, ty = out["o"], str(out.get("type", out.get("name", "")))
    api.steps.user = None
    return {"id": case["id"], "out": out_code, "ty": ty, "attempts": cnt.attempts, "steps": cnt.steps, "maxstep": cnt.maxstep,
            "maxstack": cnt.maxstack, "polls": polls[0], "late": late, "len": len(subject), "where": str(out.get("where", "")),
            "own": cnt.finish()}


FOLD_JS = {
    "exec": "var m = new RegExp(P, F).exec(S); __out(m === null ? 'null' : 'match');",
    "test": "__out(new RegExp(P, F).test(S) ? 'match' : 'null');",
    "match": "var m = S.match(new RegExp(P, F)); __out(m === null ? 'null' : 'match');",
    "search": "__out(S.search(new RegExp(P, F)) < 0 ? 'null' : 'match');",
    "replace": "__out(S.replace(new RegExp(P, F), '-') === S ? 'null' : 'match');",        # no subject contains '-'
    "split": "__out(S.split(new RegExp(P, F)).length > 1 ? 'match' : 'null');",            # no pattern of the grid matches empty
}


def fold_batch(case, api):
    """case = {id, items:[{id, src:[units], fl:[units], subj:[units], ops:[...]}]} -> per item one outcome code per op:
    match | null | caught (+ class in ty) | jserror | host (+ type and site in ty) | hang | timelimit | noresult"""
    from microjs.regex import RegExp
    ctx = api.new_context(time_limit=None)
    got = []
    ctx.set("__out", lambda *a: (got.append(str(a[0])), None)[1])
    api.eval_outcome(ctx, CLASSIFY_JS, wall=10.0)
    res = []
    for it in case["items"]:
        p, fl, subj = wire.from_units(it["src"]), wire.from_units(it["fl"]), wire.from_units(it["subj"])
        ctx.set("P", p)
        ctx.set("F", fl)
        ctx.set("S", subj)
        outs, tys = [], []
        for op in it["ops"]:
            if op == "api":
                out = api.run(lambda: RegExp(p, fl).exec(subj), wall=20.0, cap=2_000_000)
                code, ty = ("null" if out["pv"] is None else "match", "") if out["o"] == "value" else (out["o"], "")
            else:
                del got[:]
                out = api.eval_outcome(ctx, "try { " + FOLD_JS[op] + " } catch (e) { __out('caught:' + __cls(e)); }", wall=20.0, cap=2_000_000)
                if out["o"] != "value":
                    code, ty = out["o"], ""
                elif len(got) != 1:
                    code, ty = "noresult", str(got)[:80]
                elif got[0] in ("match", "null"):
                    code, ty = got[0], ""
                elif got[0].startswith("caught:"):
                    code, ty = "caught", got[0][7:]
                else:
                    code, ty = "noresult", got[0][:80]
            if out["o"] == "host":
                ty = "%s @ %s" % (out.get("type"), out.get("where"))
            elif out["o"] == "jserror":
                ty = str(out.get("name"))
            outs.append(code)
            tys.append(ty)
        res.append({"id": it["id"], "out": outs, "ty": tys})
    return res


POS_OPS_JS = {
    "exec": "R.exec(S)", "test": "R.test(S)", "match": "S.match(R)", "search": "S.search(R)", "replace": "S.replace(R, '-')",
    "replaceAll": "S.replaceAll(R, '-')", "split": "S.split(R)",
}
POS_ONE = ("function __one(i, j) { var R; try { R = new RegExp(P, F); } catch (e) { __rep(i, j, 'rejected', 0, 0); return; } "
           "var before, code; try { LIS[i](R, S); before = R.lastIndex; var v = OPS[j](R, S); "
           "code = v === null ? 'null' : v === false ? 'false' : v === true ? 'true' : 'v'; } catch (e) { code = 'caught:' + __cls(e); } "
           "__rep(i, j, code, before, R.lastIndex); } "
           "function __all() { for (var i = 0; i < LIS.length; i++) for (var j = 0; j < OPS.length; j++) __one(i, j); }")


def pos_batch(case, api):
    """Matching from a given state of the RegExp object.  case = {id, lis: [{name, pre, js}], ops: [...], items: [{id, src, fl, subj}]}
    -> per item a matrix out[li][op] of outcome codes (+ ty: error class / host exception and site; li_seen: lastIndex before and
    after the call where it is a small integer, recorded only).  All (lastIndex, op) pairs of an item run in one call `__all()`,
    each pair in its own try/catch; whenever that call does not end with every report (a foreign exception ends the script) each
    pair is evaluated on its own as `__one(i, j)`."""
    ctx = api.new_context(time_limit=None)
    got = {}

    def small(v):
        return int(v) if isinstance(v, (int, float)) and not isinstance(v, bool) and v == v and abs(v) < 2**31 and int(v) == v else -1

    def rep_(i, j, code, before, after):
        got[(small(i), small(j))] = (str(code), small(before), small(after))
    ctx.set("__rep", rep_)
    api.eval_outcome(ctx, CLASSIFY_JS, wall=10.0)
    lis, ops = case["lis"], case["ops"]
    setup = ("var LIS = [" + ", ".join("function (R, S) { %s %s }" % (li["pre"], ("R.lastIndex = " + li["js"] + ";") if li["js"] else "") for li in lis) + "]; "
             + "var OPS = [" + ", ".join("function (R, S) { return %s; }" % POS_OPS_JS[op] for op in ops) + "]; " + POS_ONE)
    o = api.eval_outcome(ctx, setup, wall=20.0)
    if o["o"] != "value":
        raise RuntimeError("could not define the position-grid functions: %r" % (o,))
    res = []
    for it in case["items"]:
        ctx.set("P", wire.from_units(it["src"]))
        ctx.set("F", wire.from_units(it["fl"]))
        ctx.set("S", wire.from_units(it["subj"]))
        got.clear()
        out = api.eval_outcome(ctx, "__all()", wall=60.0, cap=5_000_000)
        whole = out["o"] == "value" and len(got) == len(lis) * len(ops)
        outs, tys, seen = [], [], []
        for i in range(len(lis)):
            ro, rt, rs = [], [], []
            for j in range(len(ops)):
                if not whole:
                    got.pop((i, j), None)
                    out = api.eval_outcome(ctx, "__one(%d, %d)" % (i, j), wall=20.0, cap=2_000_000)
                    if out["o"] != "value":
                        ro.append("jserror" if out["o"] in ("jserror", "memlimit") else out["o"])
                        rt.append("%s @ %s" % (out.get("type"), out.get("where")) if out["o"] == "host" else str(out.get("name", "")))
                        rs.append([-1, -1])
                        continue
                g = got.get((i, j))
                if g is None:
                    ro.append("noresult"); rt.append(""); rs.append([-1, -1])
                elif g[0].startswith("caught:"):
                    ro.append("caught"); rt.append(g[0][7:]); rs.append([g[1], g[2]])
                else:
                    ro.append(g[0]); rt.append(""); rs.append([g[1], g[2]])
            outs.append(ro); tys.append(rt); seen.append(rs)
        res.append({"id": it["id"], "out": outs, "ty": tys, "li_seen": seen, "whole": whole})
    return res
