-------------------------------- MODULE C12 --------------------------------
(* C12 - a context keeps its own state: persistent, isolated, usable after errors.       *)
(*   ContextModel.tla : the state machine and its model-checked properties.              *)
(*   Enum  (S->C)     : TLC enumerates every history of exactly L events over NC         *)
(*                      contexts (every shorter history is a prefix of one of them and   *)
(*                      is probed step by step); -simulate draws long random histories.  *)
(*   Trace (C->S)     : total trace specification over the ndjson traces the driver      *)
(*                      recorded: every event is replayed through ContextModel!RunEvent, *)
(*                      the whole projected state of every context is compared after     *)
(*                      every step; a mismatch records clause + index, adopts the        *)
(*                      observed state and keeps going.                                  *)
EXTENDS ContextModel, Json, IOUtils

\* ---------------- alphabets ---------------------------------------------------------------------
\* the core alphabet drops the events that the per-step probe already performs (get, read), three of the
\* five built-in targets, the nested limit error and the re-entrant eval
CoreKinds == {"defvar", "deffun", "assign", "delete", "mut_objproto", "mut_arrproto",
              "throw", "loop", "recurse", "syntax", "ieval", "newfn", "set"}
\* family R (re-declaration of names that may exist): "redecl" is the base catalogue plus every re-declaration form;
\* "redecl1" is the sub-alphabet of everything that defines, re-declares or reads g and f, for longer histories on
\* one context
Redecl1Kinds == {"defvar", "deffun", "assign", "set", "throw", "ieval", "read", "newfn"} \cup RedeclKinds
\* family I (isolation of the whole built-in object graph): the history works on one inventory target
InvCoreKinds == {"inv_mut", "inv_del", "inv_throw"}
AlphabetName == IF "ALPHABET" \in DOMAIN IOEnv THEN IOEnv.ALPHABET ELSE "full"
Alphabet == CASE AlphabetName = "core" -> CoreKinds
              [] AlphabetName = "redecl" -> BaseKinds \cup RedeclKinds
              [] AlphabetName = "redecl1" -> Redecl1Kinds
              [] AlphabetName = "inv" -> InvCoreKinds
              [] AlphabetName = "invfull" -> InvKinds
              [] OTHER -> BaseKinds

\* ---------------- the inventory of the built-in object graph (family I) ---------------------------
\* The driver reports, for a fresh context, every global name and, for each access path <root> x <via>, whether
\* the path designates an object that keeps a property written to it (ok = 1; one scratch context per path).
\* Roots are the names found in the context at run time (lit = 0) and a few literal forms (lit = 1, via gpo only).
\*   self  <root>                           proto <root>.prototype
\*   gpo   Object.getPrototypeOf(<root>)    inst  Object.getPrototypeOf(new <root>())
\*   mem   an existing member <root>.<mem> is overwritten / deleted (ord = its position among the root's keys)
\*   pmem  the same for <root>.prototype.<mem>
\* The marker of every other via is a new property `zq`.  The specification decides which paths are targets.
Vias == {"self", "proto", "gpo", "inst", "mem", "pmem"}
Inventory == IF "INV_FILE" \in DOMAIN IOEnv THEN ndJsonDeserialize(IOEnv.INV_FILE) ELSE <<>>
InvSub == IF "INV_SUB" \in DOMAIN IOEnv THEN IOEnv.INV_SUB ELSE "all"
IsMember(rec) == rec.via \in {"mem", "pmem"}
InvTargets == {j \in 1..Len(Inventory) :
                 /\ Inventory[j].ok = 1 /\ Inventory[j].via \in Vias
                 /\ (InvSub = "all" \/ ~IsMember(Inventory[j]) \/ Inventory[j].ord = 1)}   \* quick: first member of every root
\* vacuity guard (machinery, not a verdict on the engine): the discovery found the object graph
MustRoots == {"Object", "Array", "Math", "JSON", "Function", "Error", "String", "Number"}
InvWellFormed ==
  /\ \A j \in 1..Len(Inventory) : Inventory[j].via \in Vias /\ Inventory[j].ok \in {0, 1} /\ Inventory[j].lit \in {0, 1}
  /\ \A r \in MustRoots : \E j \in InvTargets : Inventory[j].root = r /\ Inventory[j].via = "self" /\ Inventory[j].lit = 0
  /\ \A v \in Vias : \E j \in InvTargets : Inventory[j].via = v
  /\ \E j \in InvTargets : Inventory[j].lit = 1
  /\ Cardinality(InvTargets) >= 30
IsInvAlphabet == AlphabetName \in {"inv", "invfull"}
\* the parameters of a history besides its events: the inventory target it works on (0 = none) and whether the
\* contexts other than the first actor's are created only after the first event has run
FamSpace == IF IsInvAlphabet THEN {[tj |-> j, late |-> b] : j \in InvTargets, b \in {0, 1}}
            ELSE {[tj |-> 0, late |-> 0]}

VARIABLES hist,     \* Enum: the history so far, a sequence of [c, k]
          fam,      \* Enum: the parameters of the history [tj, late]
          tid,      \* Trace: index of the trace being validated
          tl,       \* Trace: next event
          tok,      \* Trace: no mismatch so far
          twhy,     \* Trace: first mismatch [at, clause, c, exp]
          tdevs     \* Trace: named deviations (known findings) that explained an observation
vars == <<cmvars, hist, fam, tid, tl, tok, twhy, tdevs>>
NoWhy == [at |-> 0, clause |-> "", c |-> 0, exp |-> <<>>]
\* the limits of the contexts are part of the specification: the driver reads them from this line
ASSUME PrintT(ToJson([limits |-> [c \in 1..3 |-> LimitsOf(c)]]))
ASSUME IsInvAlphabet => PrintT(ToJson([inv_ok |-> InvWellFormed, inv_n |-> Cardinality(InvTargets),
                                       inv_len |-> Len(Inventory)]))

\* ---------------- Enum --------------------------------------------------------------------------
\* the value written by event number n is n: every write of a history is distinguishable
EnumInit == /\ ctx = [c \in Ctxs |-> NewCtx(LimitsOf(c))] /\ twin = <<>> /\ pc = Idle
            /\ evn = 0 /\ actor = 0 /\ last = "none"
            /\ hist = <<>> /\ fam \in FamSpace /\ tid = 0 /\ tl = 0 /\ tok = TRUE /\ twhy = NoWhy /\ tdevs = {}
EnumExtend == /\ evn < MAXN
              /\ \E c \in Ctxs : \E kd \in Alphabet :
                   /\ Guard(kd, ctx[c])
                   /\ ctx' = [ctx EXCEPT ![c] = RunEvent(ctx[c], kd, evn + 1).st]
                   /\ evn' = evn + 1 /\ actor' = c
                   /\ hist' = Append(hist, [c |-> c, k |-> kd])
                   /\ UNCHANGED <<twin, pc, last, fam, tid, tl, tok, twhy, tdevs>>
\* a complete history is printed exactly once and not extended.  (No CONSTRAINT is used for this: TLC's
\* simulator retries for ever when every successor of a state violates a constraint.)
\* NOVEL = 1 (quick tier): the histories over the base catalogue alone are enumerated by the "full" run already, the
\* re-declaration runs print only the histories that contain a re-declaration
Novel == ("NOVEL" \notin DOMAIN IOEnv) \/ IOEnv.NOVEL # "1" \/ \E n \in 1..Len(hist) : hist[n].k \in RedeclKinds
EnumFinish == /\ evn = MAXN /\ tl = 0
              /\ Novel => PrintT(ToJson([h |-> hist, tj |-> fam.tj, late |-> fam.late]))
              /\ tl' = 1
              /\ UNCHANGED <<cmvars, hist, fam, tid, tok, twhy, tdevs>>
EnumNext == EnumExtend \/ EnumFinish

\* ---------------- Trace -------------------------------------------------------------------------
\* one line per history: [tid, nc, tj, ev: <<[c, k, x, o, r, pr: <<projection of ctx 1, ...>>]>>]
\* (tj >= 1: the history worked on an inventory target; the model does not care which one)
Traces == ndJsonDeserialize(IOEnv.OBS_FILE)
PtrIx == 7 + NT
ExtraIx == 8 + NT

\* named deviations (known findings, DESIGN 2.3): the as-is rule of the engine, exactly where it applies.
\* Dev_ReentrantPointer: Context.eval ends with `self._current_vm = None` instead of restoring the pointer of the
\*   evaluation that is still running, so after a re-entrant eval the outer evaluation reports "pointer not set"
\*   (result 0 of the reenter snippet).  State effects are as specified.
Deviation(ev, pred) ==
  IF ev.k = "reenter" /\ ev.o = "value" /\ pred.r = 1 /\ ev.r = 0 THEN "Dev_ReentrantPointer" ELSE ""

\* first failing clause of one event, or "" : pre = model state before, pred = RunEvent's prediction
Clause(ev, pre, pred, nc) ==
  LET post(c) == IF c = ev.c THEN pred.st ELSE pre[c]
      bad(c)  == ev.pr[c] # Observe(post(c))
  IN IF ev.o \notin pred.os THEN [clause |-> "outcome", c |-> ev.c]
     ELSE IF pred.r # DontCare /\ ev.r # pred.r /\ Deviation(ev, pred) = "" THEN [clause |-> "result", c |-> ev.c]
     ELSE IF \E c \in 1..nc : ev.pr[c][PtrIx] # 1
          THEN [clause |-> "pointer", c |-> CHOOSE c \in 1..nc : ev.pr[c][PtrIx] # 1]
     ELSE IF \E c \in 1..nc : ev.pr[c][ExtraIx] # 0
          THEN [clause |-> "leak", c |-> CHOOSE c \in 1..nc : ev.pr[c][ExtraIx] # 0]
     ELSE IF \E c \in 1..nc : c # ev.c /\ bad(c)
          THEN [clause |-> "frame", c |-> CHOOSE c \in 1..nc : c # ev.c /\ bad(c)]
     ELSE IF bad(ev.c) THEN [clause |-> "state", c |-> ev.c]
     ELSE [clause |-> "", c |-> 0]

TraceInit == /\ tid \in 1..Len(Traces)
             /\ ctx = [c \in 1..Traces[tid].nc |-> NewCtx(LimitsOf(c))]
             /\ twin = <<>> /\ pc = Idle /\ evn = 0 /\ actor = 0 /\ last = "none" /\ hist = <<>>
             /\ fam = [tj |-> 0, late |-> 0]
             /\ tl = 1 /\ tok = TRUE /\ twhy = NoWhy /\ tdevs = {}
TraceNext ==
  /\ tl <= Len(Traces[tid].ev)
  /\ LET tr == Traces[tid]
         ev == tr.ev[tl]
         enabled == /\ ev.k \in Kinds /\ ev.c \in 1..tr.nc /\ Guard(ev.k, ctx[ev.c])
                    /\ (ev.k \in InvKinds => tr.tj >= 1)
     IN IF ~enabled
        THEN \* the model cannot take this event at all: the generator left the specification (machinery)
             /\ tok' = FALSE
             /\ twhy' = IF tok THEN [at |-> tl, clause |-> "unsupported", c |-> ev.c, exp |-> <<>>] ELSE twhy
             /\ ctx' = [c \in 1..tr.nc |-> Adopt(ctx[c], ev.pr[c])]
             /\ UNCHANGED <<evn, actor, last, tdevs>>
        ELSE LET pred == RunEvent(ctx[ev.c], ev.k, ev.x)
                 cl == Clause(ev, ctx, pred, tr.nc)
                 good == cl.clause = ""
             IN /\ ctx' = IF good THEN [ctx EXCEPT ![ev.c] = pred.st]
                          ELSE [c \in 1..tr.nc |-> Adopt(ctx[c], ev.pr[c])]       \* resync, keep going
                /\ tok' = (tok /\ good)
                /\ twhy' = IF tok /\ ~good
                           THEN [at |-> tl, clause |-> cl.clause, c |-> cl.c,
                                 exp |-> Observe(IF cl.c = ev.c THEN pred.st ELSE ctx[cl.c])]
                           ELSE twhy
                /\ tdevs' = IF Deviation(ev, pred) # "" THEN tdevs \cup {Deviation(ev, pred)} ELSE tdevs
                /\ evn' = evn + 1 /\ actor' = ev.c /\ last' = ev.o
  /\ tl' = tl + 1
  /\ UNCHANGED <<twin, pc, hist, fam, tid>>
\* CONSTRAINT: a fully consumed trace prints its verdict
TraceEmit == tl <= Len(Traces[tid].ev)
             \/ PrintT(ToJson([tid |-> Traces[tid].tid, ok |-> tok, n |-> tl - 1, why |-> twhy,
                                devs |-> IF tdevs = {} THEN "" ELSE CHOOSE d \in tdevs : TRUE]))
\* invariants evaluated on every state of every observed execution
TraceTypeOK ==
  \A c \in DOMAIN ctx : /\ \A nm \in Names : ctx[c].globals[nm].k \in {"absent", "undef", "num", "fn"}
                        /\ \A j \in 1..NT : ctx[c].touched[j] \in Nat /\ ctx[c].inv \in Nat
                        /\ ~ctx[c].ptr /\ ctx[c].depth = 0 /\ ctx[c].limits = LimitsOf(c)
=============================================================================
