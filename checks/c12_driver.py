"""C12 driver (runs inside the engine child): replay one history on real Context objects.

A history is a sequence of events [c, k] over contexts 1..nc enumerated by TLC (spec/C12.tla).  The
driver renders each event, runs it, and after EVERY step probes the whole projected state of EVERY
context in play.  It defines no space and computes no expectation: the trace goes back to TLC.
"""
from harness import wire  # noqa: F401  (kept for symmetry with other drivers)

TICK = 0.001           # virtual seconds per interpreter step; limits arrive in ticks

SNIPPETS = {
    "defvar": "var g = %d",
    "deffun": "function f(){ return %d }",
    "assign": "g = %d",
    "delete": "delete Object.prototype.zo",
    "mut_objproto": "Object.prototype.zo = %d",
    "mut_math": "Math.zm = %d",
    "mut_arrproto": "Object.getPrototypeOf([]).za = %d",
    "mut_strctor": "String.zs = %d",
    "mut_errproto": "Error.prototype.ze = %d",
    "throw": "var g = %d; throw new Error('boom')",
    "loop": "var g = %d; while (true) {}",
    "recurse": "var g = %d; (function r(){ return r() + 1 })()",
    "syntax": "var g = %d; var = ;",
    "ieval": "(1,eval)('var g = %d')",
    "ieval_loop": "(1,eval)('var g = %d; while (true) {}')",
    "newfn": "new Function('return g')()",
    "read": "g",
    "reenter": "__re(%d); __ptr()",
    # re-declaration of a name that may exist already (family R)
    "redecl": "var g;",
    "redecl_f": "var f;",
    "redecl_or": "var g = g || %d",
    "redecl_dead": "if (false) { var g = %d }",
    "redecl_ieval": "(1,eval)('var g;')",
    "redecl_newfn": "new Function('var g; return g')()",
    "redecl_newfn_init": "new Function('var g = %d; return g')()",
    "redecl_throw": "var g; throw new Error('boom')",
}
# family I: the target (an object expression and a property name) comes with the history
INV_SNIPPETS = {
    "inv_mut": "%(obj)s.%(prop)s = %(x)d",
    "inv_del": "delete %(obj)s.%(prop)s",
    "inv_throw": "%(obj)s.%(prop)s = %(x)d; throw new Error('boom')",
    "inv_ieval": '(1,eval)("%(obj)s.%(prop)s = %(x)d")',          # no root expression contains a double quote
    "inv_loop": "%(obj)s.%(prop)s = %(x)d; while (true) {}",
}
# family T: ways of making an object from text at run time (the expression is evaluated by tx_make / tx_makei and the
# result kept in the global h).  Candidates; the discovery reports which paths from h keep a marker, C12.tla selects.
TEXT_FORMS = {
    "new_function": "new Function('a', 'return a')",
    "call_function": "Function('a', 'return a')",
    "ieval_function": "(1,eval)('(function(a){ return a })')",
    "ieval_array": "(1,eval)('[[1], 2]')",
    "ieval_object": "(1,eval)('({a: {b: 1}})')",
    "ieval_regex": "(1,eval)('/a/g')",
    "new_regexp": "new RegExp('a', 'g')",
    "call_regexp": "RegExp('a', 'g')",
    "json_object": "JSON.parse('{\"a\": {\"b\": 1}}')",
    "json_array": "JSON.parse('[[1], 2]')",
    "function_result_object": "new Function('return {a: {b: 1}}')()",
    "function_result_array": "new Function('return [[1], 2]')()",
    "function_result_function": "new Function('return function(a){ return a }')()",
    "function_result_regex": "new Function('return /a/g')()",
    "literal_function": "function(a){ return a }",
    "literal_object": "{a: {b: 1}}",
    "literal_array": "[[1], 2]",
    "literal_regex": "/a/g",
    "new_object": "new Object()",
    "new_array": "new Array(2)",
    "object_create": "Object.create(Object.prototype)",
    "new_error": "new Error('x')",
}
TEXT_VIAS = {"tself": ("h", None), "tproto": ("h.prototype", None), "tnest": ("h.a", None), "telem": ("h[0]", None),
             "tmem": ("h", "lastIndex"), "tgpo": ("Object.getPrototypeOf(h)", None),
             "tpgpo": ("Object.getPrototypeOf(h.prototype)", None)}

# family K: statement S that creates a binding with value %(x)d and assigns a closure over it to the (declared) global h;
# statement O that creates a binding of the same kind with value %(x)d and touches no global.  No double quotes.
KEPT = {
    "catch": ("try { throw %(x)d } catch (e) { h = function(){ return e } }",
              "try { throw %(x)d } catch (e) { }"),
    "catch_in_function": ("h = (function(){ try { throw %(x)d } catch (e) { return function(){ return e } } })()",
                          "(function(){ try { throw %(x)d } catch (e) { return e } })()"),
    "function_own_name": ("h = function me(q){ return q ? %(x)d : me(1) }",
                          "(function me(q){ return q ? %(x)d : me(1) })(0)"),
    "arguments": ("h = (function(){ var a = arguments; return function(){ return a[0] } })(%(x)d)",
                  "(function(){ return arguments[0] })(%(x)d)"),
    "local": ("h = (function(){ var v = %(x)d; return function(){ return v } })()",
              "(function(){ var v = %(x)d; return v })()"),
    "parameter": ("h = (function(v){ return function(){ return v } })(%(x)d)",
                  "(function(v){ return v })(%(x)d)"),
    "bound_argument": ("h = (function(v){ return v }).bind(null, %(x)d)",
                       "(function(v){ return v }).bind(null, %(x)d)()"),
    "bound_this": ("h = (function(){ return this.v }).bind({v: %(x)d})",
                   "(function(){ return this.v }).bind({v: %(x)d})()"),
}
# text mode "same" (C12!TextModes): ONE source text per kind of binding, used by the making program and by every later
# program of the history.  The value bound is read from the host-set global __x; __k says what this run does with the
# binding: 1 = keep a closure over it in h, 0 = nothing, 2 = nothing and throw afterwards.  One binding site per text.
KEPT_SAME = {
    "catch": "try { throw __x } catch (e) { if (__k === 1) { h = function(){ return e } } }",
    "catch_in_function": "(function(){ try { throw __x } catch (e) { if (__k === 1) { h = function(){ return e } } } })()",
    "function_own_name": "(function(){ var v = __x; var m = function me(q){ return q ? v : me(1) }; "
                         "if (__k === 1) { h = m } else { m(0) } })()",
    "arguments": "(function(){ var a = arguments; if (__k === 1) { h = function(){ return a[0] } } })(__x)",
    "local": "(function(){ var v = __x; if (__k === 1) { h = function(){ return v } } })()",
    "parameter": "(function(v){ if (__k === 1) { h = function(){ return v } } })(__x)",
    "bound_argument": "(function(){ var b = (function(v){ return v }).bind(null, __x); "
                      "if (__k === 1) { h = b } else { b() } })()",
    "bound_this": "(function(){ var b = (function(){ return this.v }).bind({v: __x}); "
                  "if (__k === 1) { h = b } else { b() } })()",
}
KEPT_SAME_TAIL = "; if (__k === 2) { throw new Error(1) }"
ROUTES = {"top": "%s", "ieval": '(1,eval)("%s")', "newfn": 'new Function("%s")()'}

# family V: carriers (the value kept in h) and uses (how a later eval hands it the callback CB)
CARRIERS = {
    "array": "[1, 2, 3]",
    "function": "function(cb){ return cb(7) }",
    "closure": "(function(){ var n = 0; return function(cb){ n = n + 1; return cb(n) } })()",
    "arrow": "(cb => cb(7))",
    "bound_function": "(function(cb){ return cb(7) }).bind(null)",
    "regex": "/b/g",
    "regex_new": "new RegExp('b', 'g')",
    "accessor_literal": "{ get p(){ return this.cb(7) } }",
    "accessor_defined": "Object.defineProperty({}, 'p', { get: function(){ return this.cb(7) }, "
                        "set: function(v){ this.cb(v) } })",
    "object_method": "{ m: function(cb){ return cb(7) } }",
    "object_tostring": "{ toString: function(){ return this.cb(7) } }",
    "native_array_forEach": "[1, 2, 3].forEach",
    "native_array_sort": "[3, 1, 2].sort",
    "native_string_replace": "'abc'.replace",
    "native_function_call": "(function(cb){ return cb(7) }).call",
    "native_function_apply": "(function(cb){ return cb(7) }).apply",
}
USES = {
    "call_direct": "h(CB)", "dot_call": "h.call(null, CB)", "dot_apply": "h.apply(null, [CB])",
    "replace": "'abc'.replace(h, CB)", "replaceAll": "'abc'.replaceAll(h, CB)",
    "get": "(h.cb = CB, h.p)", "set": "(h.cb = CB, h.p = 1)", "call_method": "h.m(CB)", "concat": "(h.cb = CB, '' + h)",
    "call_regex": "h(/b/, CB)", "call_null": "h(null, CB)", "apply_null": "h(null, [CB])",
}
# a carried regex handed to the matcher by a later eval (no script callback involved): consumer x route.  The built-in
# runs first, then the callback of the event is called by script code
RX = "(function(cb){ var q = %s; return cb(7) })(CB)"
USES.update({
    "rx_test": RX % "h.test('abc')", "rx_exec": RX % "h.exec('abc')", "rx_match": RX % "'abc'.match(h)",
    "rx_search": RX % "'abc'.search(h)", "rx_replace": RX % "'abc'.replace(h, 'x')",
    "rx_replaceAll": RX % "'abc'.replaceAll(h, 'x')", "rx_split": RX % "'abc'.split(h)",
    "rx_call_test": RX % "h.test.call(h, 'abc')", "rx_apply_test": RX % "h.test.apply(h, ['abc'])",
    "rx_detached_test": RX % "(function(t){ return t('abc') })(h.test)",
    "rx_detached_exec": RX % "(function(t){ return t('abc') })(h.exec)",
    "rx_detached_split": RX % "(function(t){ return t(h) })('abc'.split)",
    "rx_apply_split": RX % "'abc'.split.apply('abc', [h])", "rx_bind_split": RX % "'abc'.split.bind('abc')(h)",
    "rx_apply_replace": RX % "'abc'.replace.apply('abc', [h, 'x'])", "rx_callback_test": RX % "['abc'].map(h.test)",
})
CARRY_SNIPPETS = {      # @U@ = the use with its callback; the callback first commits g = x
    "cv_use": ("var g; @U@", "function(v){ g = %(x)d; return v }"),
    "cv_catch": ("var g; var r = 1; try { @U@; r = 2 } catch (e) { r = 3 } r",
                 "function(v){ g = %(x)d; throw new Error('boom') }"),
    "cv_catchfn": ("var g; (function(){ var r = 1; try { @U@; r = 2 } catch (e) { r = 3 } return r })()",
                   "function(v){ g = %(x)d; throw new Error('boom') }"),
    "cv_throw": ("var g; @U@", "function(v){ g = %(x)d; throw new Error('boom') }"),
    "cv_loop": ("var g; try { @U@ } catch (e) { }", "function(v){ g = %(x)d; while (true) {} }"),
    "cv_mem": ("var g; try { @U@ } catch (e) { }", "function(v){ g = %(x)d; return (function r(){ return r() + 1 })() }"),
    # the work is done once, however often the carrier calls back
    "cv_work": ("var g; (function(){ var w = 0; @U@ })()",
                "function(v){ g = %(x)d; if (w === 0) { w = 1; for (var i = 0; i < %(n)d; i++) { } } return v }"),
}
MARKER = "zq"
VIAS = ["self", "proto", "gpo", "inst", "mem", "pmem"]
# literal roots (objects that are reachable without a global name): their prototype objects
LITERAL_ROOTS = ["[]", "({})", "(function(){})", "(x => x)", "''", "(0)", "true", "/x/", "new Error('x')",
                 "JSON.parse('{}')", "JSON.parse('[]')", "[].concat([])", "Object.keys({})", "'a'.split('')"]


def target_of(rec):
    """inventory record -> (object expression, property name).  Pure rendering."""
    root, via = rec["root"], rec["via"]
    if via in TEXT_VIAS:
        obj, prop = TEXT_VIAS[via]
        return obj, prop or MARKER
    if via == "self":
        return root, MARKER
    if via == "proto":
        return root + ".prototype", MARKER
    if via == "gpo":
        return "Object.getPrototypeOf(%s)" % root, MARKER
    if via == "inst":
        return "Object.getPrototypeOf(new %s())" % root, MARKER
    if via == "mem":
        return root, rec["mem"]
    if via == "pmem":
        return root + ".prototype", rec["mem"]
    raise ValueError(via)


def mark_of(expr):
    """the marker as a small integer: a positive integer written by a history, 0 for anything else"""
    return "(function(v){ return (typeof v === 'number' && v === (v | 0) && v >= 1) ? v : 0 })(%s)" % expr


def read_expr(obj, prop):
    return mark_of("%s.%s" % (obj, prop))


def render_carry(kind, form, x, n=0):
    """family V: the program of one event.  Pure rendering of the form the specification chose."""
    if kind == "cv_make":
        return "var h = " + CARRIERS[form["cr"]]
    prog, cb = CARRY_SNIPPETS[kind]
    use = USES[form["use"]] if form["cr"] != "array" else "h.%s(CB)" % form["use"]
    return prog.replace("@U@", use.replace("CB", cb % {"x": x, "n": n}))


def render_kept(kind, form, x):
    """family K: the program of one event."""
    mk, ot = KEPT[form["kb"]]
    if form.get("tx") == "same":
        # the same text whatever the kind of event and the value (replay sets __x and __k before it runs)
        return "var h; " + ROUTES[form["mk"] if kind == "kb_make" else form["ot"]] % (KEPT_SAME[form["kb"]] + KEPT_SAME_TAIL)
    if kind == "kb_make":
        return "var h; " + ROUTES[form["mk"]] % (mk % {"x": x})
    body = ot % {"x": x}
    if kind == "kb_other_err":
        body += "; throw new Error(1)"
    return ROUTES[form["ot"]] % body


def render_text(kind, rec, x, target):
    """family T: the program of one event."""
    if kind in ("tx_make", "tx_makei"):
        return "var h; (function(){ var hp = h; h = %s; return (hp === h) ? 1 : 2 })()" % TEXT_FORMS[rec["root"]]
    return "%s.%s = %d" % (target[0], target[1], x)

# the probe is installed once per context (rendering it for every step costs 1.4 ms of parsing)
PROBE_SRC = (
    "function __p(){ var a = []; var o = {}; var e = new Error('x'); var dg = 1; var df = 1; "
    "try { g } catch (x) { dg = 0 } try { f } catch (x) { df = 0 } return ["
    "typeof g === 'undefined' ? 0 : (typeof g === 'number' ? 1 : 9), typeof g === 'undefined' ? 0 : g, "
    "typeof f === 'undefined' ? 0 : (typeof f === 'function' ? 2 : 9), typeof f === 'function' ? f() : 0, "
    "o.zo, Math.zm, a.za, String.zs, e.ze, dg, df, typeof h === 'undefined' ? 0 : 1]; }"
)
NPROBE = 12


def cls(v):
    """small-integer image of a Python value handed back by get/eval (see ContextModel!Observe)"""
    import microjs.values as V
    if v is None:
        return 0
    if v is True:
        return -2
    if v is False:
        return -3
    if isinstance(v, (int, float)):
        if v == v and v in (float("inf"), float("-inf")):
            return -1
        if v != v or v != int(v) or not (0 <= v < 1000000):
            return -1
        return int(v)
    if isinstance(v, V.JSFunction):
        return -4
    return -1


def probe(api, ctx, baseline, ptr, names, inv=False):
    gg = cls(ctx.get("g"))
    fg = cls(ctx.get("f"))
    # the marker of this history (families I, T, K) is read through its access path in the same evaluation
    out = api.run(lambda: ctx.eval("[__p(), __q()]" if inv else "[__p(), 0]"), tick=TICK, cap=20000, wall=60.0,
                  keep_clock=True)
    pv = out.get("pv")
    if (out["o"] == "value" and isinstance(pv, list) and len(pv) == 2 and isinstance(pv[0], list)
            and len(pv[0]) == NPROBE):
        p = [cls(x) for x in pv[0]]
        q = cls(pv[1])
    else:
        p = [-1] * NPROBE       # the context is not usable: a mismatch, judged by the specification
        q = -1
    # unexpected global names (the engine's internal slots - "e@7", the renamed parameter of a program-level catch
    # clause: `@` cannot occur in a name a script writes - are not names of the language)
    extra = len([n for n in ctx._globals if n not in baseline and n not in names and "@" not in n])
    return [gg, p[0], p[1], fg, p[2], p[3]] + p[4:9] + [ptr, extra] + p[9:11] + [q, p[11]]


_PROBE_FN = []
_TARGET_FN = {}        # reader source -> compiled reader of the marker, one per child process
_WORK_N = {}           # (form, limits) is not needed: the loop count depends on the engine only


def reader_of(fam, target, rec=None):
    """-> (source of the expression __q returns, program after which it must read 7 on a scratch context, program that
    undoes it or None)"""
    if fam == "kept":       # the value the kept closure returns
        return "(typeof h === 'function') ? %s : 0" % mark_of("h()"), "var h = function(){ return 7 }", None
    if fam == "text":       # the marker on the path from the made object; 0 while this context has not made one
        return ("(typeof h === 'undefined') ? 0 : %s" % read_expr(*target),
                "var h = %s; %s.%s = 7" % ((TEXT_FORMS[rec["root"]],) + target), None)
    return read_expr(*target), "%s.%s = 7" % target, "delete %s.%s" % target


def new_ctx(api, lim, reader=None):
    """A fresh context with the probe installed.  The probe function is compiled once per child process and
    handed to every context with Context.set (a script function object carries no context state)."""
    ctx = api.Context(time_limit=lim["t"] * TICK, memory_limit=lim["m"])
    if not _PROBE_FN:
        scratch = api.Context()
        scratch.eval(PROBE_SRC)
        fn = scratch._globals["__p"]
        chk = api.Context()
        chk.set("__p", fn)
        got = chk.eval("__p()")
        if got != [0] * 4 + [None] * 5 + [0, 0, 0]:
            raise RuntimeError("probe function does not work when shared between contexts: %r" % (got,))
        chk.eval("var h = 1")
        if chk.eval("__p()")[11] != 1:
            raise RuntimeError("probe function does not see the calling context's global h")
        _PROBE_FN.append(fn)
    ctx.set("__p", _PROBE_FN[0])
    # exposed callables for the re-entrant snippet: evaluate on the same context / report the current-VM pointer
    ctx.set("__re", lambda n: (ctx.eval("var g = %d" % int(n)), None)[1])
    ctx.set("__ptr", lambda: 0 if ctx._current_vm is None else 1)
    # family K, text mode "same": the parameters of the one text (set by the host before the event)
    ctx.set("__x", 0)
    ctx.set("__k", 0)
    if reader is not None:
        src, setup, undo = reader
        if src not in _TARGET_FN:
            scratch = api.Context()
            scratch.eval("function __q(){ return %s }" % src)
            fn = scratch._globals["__q"]
            chk = api.Context()
            chk.set("__q", fn)
            if chk.eval("__q()") != 0:
                raise RuntimeError("marker reader %s does not read 0 on a fresh context" % src)
            chk.eval(setup)
            got = chk.eval("__q()")
            if undo:
                chk.eval(undo)
            if got != 7:        # the function must resolve the path in the context that calls it
                raise RuntimeError("marker reader %s does not work when shared between contexts" % src)
            _TARGET_FN[src] = fn
        ctx.set("__q", _TARGET_FN[src])
    return ctx, frozenset(ctx._globals)


def discover(case, api):
    """Family I, the inventory: every global name of a fresh context (and the literal roots) x every via, with
    ok = 1 iff on a scratch context the path designates an object/function, the marker reads 0 there, a number
    written to it reads back, and deleting it makes it read 0 again.  Raw facts; C12.tla decides what is a target.
    Family T: the same test for every way of making an object from text (lit = 2) x every path from the made object."""
    names = sorted(api.Context()._globals)
    recs = []

    def test(obj, prop, setup="", existing=False):
        s = api.Context(time_limit=1.0)
        rd = read_expr(obj, prop)
        # an existing member (tmem: lastIndex) cannot be deleted: it is written back to 0 instead
        undo = ("%s.%s = 0" % (obj, prop)) if existing else ("delete %s.%s" % (obj, prop))
        src = (setup + "var r = 0; var o = %s; if ((typeof o === 'object' || typeof o === 'function') && o !== null) { "
               "if (%s === 0) { %s.%s = 7; if (%s === 7) { %s; if (%s === 0) { r = 1 } } } } r"
               % (obj, rd, obj, prop, rd, undo, rd))
        out = api.run(lambda: s.eval(src), wall=20.0, cap=200000)
        return 1 if out["o"] == "value" and out["pv"] == 1 else 0      # an error: the path cannot be evaluated, not a target

    def keys(obj):
        s = api.Context(time_limit=1.0)
        out = api.run(lambda: s.eval("var o = %s; ((typeof o === 'object' || typeof o === 'function') && o !== null) "
                                     "? Object.keys(o) : []" % obj), wall=20.0, cap=200000)
        ks = out["pv"] if out["o"] == "value" else []
        return [k for k in ks if isinstance(k, str) and k.isidentifier() and k != "prototype"] if isinstance(ks, list) else []

    for lit, roots in ((0, names), (1, LITERAL_ROOTS)):
        for root in roots:
            for via in (VIAS if lit == 0 else ["gpo"]):
                if via in ("mem", "pmem"):
                    holder = root if via == "mem" else root + ".prototype"
                    for n, k in enumerate(keys(holder), start=1):
                        rec = {"root": root, "lit": lit, "via": via, "mem": k, "ord": n}
                        rec["ok"] = test(*target_of(rec))
                        recs.append(rec)
                else:
                    rec = {"root": root, "lit": lit, "via": via, "mem": "", "ord": 0}
                    rec["ok"] = test(*target_of(rec))
                    recs.append(rec)
    for form in sorted(TEXT_FORMS):
        for via in sorted(TEXT_VIAS):
            rec = {"root": form, "lit": 2, "via": via, "mem": TEXT_VIAS[via][1] or "", "ord": 0}
            rec["ok"] = test(*target_of(rec), setup="var h = %s; " % TEXT_FORMS[form], existing=(via == "tmem"))
            recs.append(rec)
    return {"id": case["id"], "inventory": recs}


def work_count(api, lo, hi):
    """cv_work: the loop count with which the work program takes about (lo + hi) / 2 interpreter steps, measured on a
    scratch context (two runs: cost per iteration and overhead).  The steps of every real event go back to TLC."""
    if "n" not in _WORK_N:
        form = {"cr": "function", "use": "call_direct"}

        def steps(n):
            c = api.Context()
            c.eval("var h = " + CARRIERS["function"])
            out = api.run(lambda: c.eval(render_carry("cv_work", form, 1, n)), cap=200000, wall=60.0)
            if out["o"] != "value":
                raise RuntimeError("work calibration failed: %r" % (out,))
            return out["steps"]
        a, b = steps(10), steps(110)
        per = (b - a) / 100.0
        n = int(round(((lo + hi) / 2.0 - (a - 10 * per)) / per))
        got = steps(n)
        if not (lo <= got <= hi):
            raise RuntimeError("work calibration: %d iterations take %d steps, outside [%d, %d]" % (n, got, lo, hi))
        _WORK_N["n"] = n
    return _WORK_N["n"]


def replay(case, api):
    """case = {id, nc, limits: [{t, m}], h: [{c, k}], fam, tj, late, target | form, gap, names, work}
    -> {tid, nc, tj, cls, ev: [{c,k,x,o,r,w,pr}]}"""
    nc = case["nc"]
    tj, late, fam = case.get("tj", 0), case.get("late", 0), case.get("fam", "")
    bb = case.get("bb", 0)      # back to back: no evaluation between the events, one probe after the last
    target = target_of(case["target"]) if case.get("target") else None
    form = case.get("form")
    reader = reader_of(fam, target, case.get("target")) if fam in ("inv", "text", "kept") else None
    names = frozenset(case["names"])
    gap = case["gap"] * TICK
    first = case["h"][0]["c"] - 1
    # late: the contexts other than the first actor's are created after the first event has run
    ctxs = [new_ctx(api, case["limits"][c], reader) if (not late or c == first) else None for c in range(nc)]
    nwork = work_count(api, case["work"]["lo"], case["work"]["hi"]) if fam == "carry" else 0
    evs = []
    for n, e in enumerate(case["h"], start=1):
        c, k = e["c"], e["k"]
        ctx = ctxs[c - 1][0]
        # virtual time goes on through the whole history (probes included) and `gap` ticks pass before every event:
        # an eval's time budget is its own, however long ago earlier evals of the context started
        if n == 1:
            api.vclock.now = 0.0
        api.vclock.now += gap
        if k == "set":
            out = api.run(lambda: ctx.set("g", n), tick=TICK, cap=50000, wall=60.0, keep_clock=True)
        elif k == "get":
            out = api.run(lambda: ctx.get("g"), tick=TICK, cap=50000, wall=60.0, keep_clock=True)
        else:
            if k in INV_SNIPPETS:
                src = INV_SNIPPETS[k] % {"obj": target[0], "prop": target[1], "x": n}
            elif k.startswith("tx_"):
                src = render_text(k, case["target"], n, target)
            elif k.startswith("kb_"):
                src = render_kept(k, form, n)
                if form.get("tx") == "same":
                    ctx.set("__x", n)
                    ctx.set("__k", {"kb_make": 1, "kb_other": 0, "kb_other_err": 2}[k])
            elif k.startswith("cv_"):
                src = render_carry(k, form, n, nwork)
            else:
                t = SNIPPETS[k]
                src = t % n if "%d" in t else t
            out = api.run(lambda: ctx.eval(src), tick=TICK, cap=50000, wall=60.0, keep_clock=True)
        r = cls(out.get("pv")) if out["o"] == "value" else -1
        ctxs = [cx if cx is not None else new_ctx(api, case["limits"][j], reader) for j, cx in enumerate(ctxs)]
        if bb and n < len(case["h"]):
            evs.append({"c": c, "k": k, "x": n, "o": out["o"], "r": r, "w": out.get("steps", 0), "np": 1, "pr": []})
            continue
        # the pointer of every context is read first: the probe itself evaluates, which would clear a stale pointer
        ptrs = [1 if cx._current_vm is None else 0 for cx, _ in ctxs]
        evs.append({"c": c, "k": k, "x": n, "o": out["o"], "r": r, "w": out.get("steps", 0), "np": 0,
                    "pr": [probe(api, cx, base, p, names, inv=reader is not None) for (cx, base), p in zip(ctxs, ptrs)]})
    return {"id": case["id"], "tid": case["id"], "nc": nc, "tj": tj, "cls": case.get("cls", ""), "ev": evs}
