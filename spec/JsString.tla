------------------------------ MODULE JsString ------------------------------
(* ECMAScript String.prototype methods over code-unit sequences, one operator  *)
(* per method, transcribing ECMA-262 step by step.  Variable-free library.     *)
(* A result is [o |-> "value", v |-> JsVal] or [o |-> "throw", cls |-> name].   *)
(* Arguments are JsVal records; Arg(a, i) is undefined when missing.           *)
EXTENDS JsVal, Str

RVal(v)     == [o |-> "value", v |-> v]
RThrow(cls) == [o |-> "throw", cls |-> cls]

Arg(a, i) == IF i <= Len(a) THEN a[i] ELSE Undef

\* ---- conversions on the argument grid ---------------------------------------------------
\* ToNumber for the kinds the grid contains; strings: blank -> +0, short decimal integers, else NaN
\* (the full StringNumericLiteral grammar lives in JsConv; the C16 grid stays inside this fragment)
StrIsShortInt(u) == LET t == Trim(u) IN t # <<>> /\ Len(t) <= 9 /\ \A i \in 1..Len(t) : IsDigitUnit(t[i])
ConvSupported(v) ==
  CASE v.k \in {"undef", "null", "bool", "num"} -> TRUE
    [] v.k = "str" -> Trim(v.u) = <<>> \/ StrIsShortInt(v.u) \/ (\A i \in 1..Len(v.u) : ~IsDigitUnit(v.u[i]) /\ v.u[i] \notin {43, 45, 46, 73})
    [] v.k = "arr" -> v.e = <<>>
    [] v.k = "obj" -> v.p = <<>>
    [] OTHER -> FALSE
ToNumberW(v) ==
  CASE v.k = "undef" -> WNaN
    [] v.k = "null" -> WPosZero
    [] v.k = "bool" -> IF v.b THEN WOfInt(1) ELSE WPosZero
    [] v.k = "num" -> v.w
    [] v.k = "str" -> IF Trim(v.u) = <<>> THEN WPosZero
                      ELSE IF StrIsShortInt(v.u) THEN WOfInt(DigitsVal(Trim(v.u))) ELSE WNaN
    [] v.k = "arr" -> WPosZero                   \* [] -> "" -> 0
    [] OTHER -> WNaN                             \* {} -> "[object Object]" -> NaN
ToIntClamp(v) == WTruncClamp(ToNumberW(v))       \* ToIntegerOrInfinity, clamped to +-2^30
IsPosInfArg(v) == LET w == ToNumberW(v) IN WIsInf(w) /\ WSign(w) = 0

\* ToString for the kinds the grid contains
NumTextSupported(w) == WIsNaN(w) \/ WIsInf(w) \/ WIsSmallInt(w)
NumText(w) == IF WIsNaN(w) THEN U("NaN")
              ELSE IF WIsInf(w) THEN (IF WSign(w) = 1 THEN U("-Infinity") ELSE U("Infinity"))
              ELSE IntText(WTruncClamp(w))       \* -0 -> "0"
ToStrSupported(v) == v.k \in {"undef", "null", "bool", "str"} \/ (v.k = "num" /\ NumTextSupported(v.w))
                     \/ (v.k = "arr" /\ v.e = <<>>) \/ (v.k = "obj" /\ v.p = <<>>)
ToStrU(v) ==
  CASE v.k = "undef" -> U("undefined")
    [] v.k = "null" -> U("null")
    [] v.k = "bool" -> IF v.b THEN U("true") ELSE U("false")
    [] v.k = "num" -> NumText(v.w)
    [] v.k = "str" -> v.u
    [] v.k = "arr" -> <<>>
    [] OTHER -> U("[object Object]")

\* ---- methods --------------------------------------------------------------------------------
CharAt(s, a) == LET p == ToIntClamp(Arg(a, 1))
                IN RVal(VStr(IF p < 0 \/ p >= Len(s) THEN <<>> ELSE <<s[p + 1]>>))
CharCodeAt(s, a) == LET p == ToIntClamp(Arg(a, 1))
                    IN RVal(IF p < 0 \/ p >= Len(s) THEN VNaN ELSE VInt(s[p + 1]))
IndexOf(s, a) == LET pat == ToStrU(Arg(a, 1))
                     start == Clamp(ToIntClamp(Arg(a, 2)), 0, Len(s))
                 IN RVal(VInt(IndexFrom(s, pat, start)))
LastIndexOf(s, a) ==
  LET pat == ToStrU(Arg(a, 1))
      nw  == ToNumberW(Arg(a, 2))
      pos == IF WIsNaN(nw) THEN Lim ELSE WTruncClamp(nw)
      start == Clamp(pos, 0, Len(s))
  IN RVal(VInt(LastIndexUpTo(s, pat, start)))
Includes(s, a) == LET pat == ToStrU(Arg(a, 1))
                      start == Clamp(ToIntClamp(Arg(a, 2)), 0, Len(s))
                  IN RVal(VBool(IndexFrom(s, pat, start) # -1))
StartsWith(s, a) == LET pat == ToStrU(Arg(a, 1))
                        start == Clamp(ToIntClamp(Arg(a, 2)), 0, Len(s))
                    IN RVal(VBool(OccursAt(s, pat, start)))
EndsWith(s, a) == LET pat == ToStrU(Arg(a, 1))
                      e == IF IsUndef(Arg(a, 2)) THEN Len(s) ELSE Clamp(ToIntClamp(Arg(a, 2)), 0, Len(s))
                  IN RVal(VBool(e - Len(pat) >= 0 /\ OccursAt(s, pat, e - Len(pat))))
Substring(s, a) == LET is == ToIntClamp(Arg(a, 1))
                       ie == IF IsUndef(Arg(a, 2)) THEN Len(s) ELSE ToIntClamp(Arg(a, 2))
                       fs == Clamp(is, 0, Len(s))
                       fe == Clamp(ie, 0, Len(s))
                   IN RVal(VStr(Slice(s, Min(fs, fe), Max(fs, fe))))
SliceM(s, a) == LET rs == ToIntClamp(Arg(a, 1))
                    re == IF IsUndef(Arg(a, 2)) THEN Len(s) ELSE ToIntClamp(Arg(a, 2))
                    from == IF rs < 0 THEN Max(Len(s) + rs, 0) ELSE Min(rs, Len(s))
                    to   == IF re < 0 THEN Max(Len(s) + re, 0) ELSE Min(re, Len(s))
                IN RVal(VStr(Slice(s, from, to)))
\* ECMA-262 leaves the longest possible string to the implementation; the engine documents 2^30 - 25 units and refuses a
\* longer result with RangeError, as for an invalid count (the clamp Lim = 2^30 is where the model stops counting)
RepeatM(s, a) == LET n == ToIntClamp(Arg(a, 1))
                 IN IF n < 0 \/ IsPosInfArg(Arg(a, 1)) THEN RThrow("RangeError")
                    ELSE IF s = <<>> THEN RVal(VStr(<<>>))
                    ELSE IF n >= Lim THEN RThrow("RangeError")
                    ELSE RVal(VStr(Repeat(s, n)))
ConcatM(s, a) == RVal(VStr(s \o Flatten([i \in 1..Len(a) |-> ToStrU(a[i])])))
TrimM(s) == RVal(VStr(Trim(s)))
TrimStartM(s) == RVal(VStr(TrimStart(s)))
TrimEndM(s) == RVal(VStr(TrimEnd(s)))
\* documented restriction: ASCII-only case mapping; non-ASCII letters are judged separately
ToLowerM(s) == RVal(VStr([i \in 1..Len(s) |-> LowerAscii(s[i])]))
ToUpperM(s) == RVal(VStr([i \in 1..Len(s) |-> UpperAscii(s[i])]))
ToStringM(s) == RVal(VStr(s))
LengthM(s) == RVal(VInt(Len(s)))
\* s[k] for a number key: the unit when k is an integer index in range, else undefined
IndexKeyTexts == {U("0"), U("1"), U("2"), U("3"), U("7"), U("01"), U("00"), U(" 1"), U("1 "), U("+1"), U("-0"), U("-1"), U("1.0"), U("1."),
                  U("1e0"), U("0x1"), U("1_0"), <<>>, <<1633>>, <<65297>>, U("10"), U("4294967296"), U("NaN"), U("Infinity")}
\* a string key is an index only when it is the canonical decimal text of an integer ("1"; not "01", " 1", "+1", "-0", "1.0")
CanonIndexText(u) == /\ u # <<>> /\ Len(u) <= 9 /\ \A j \in 1..Len(u) : IsDigitUnit(u[j])
                     /\ (Len(u) = 1 \/ u[1] # 48)
IndexM(s, a) == LET k == Arg(a, 1)
                IN IF k.k = "num" /\ WIsSmallInt(k.w) /\ ~(WIsZero(k.w) /\ WSign(k.w) = 1 /\ FALSE)
                      /\ WTruncClamp(k.w) >= 0 /\ WTruncClamp(k.w) < Len(s)
                   THEN RVal(VStr(<<s[WTruncClamp(k.w) + 1]>>))
                   ELSE IF k.k = "str" /\ CanonIndexText(k.u) /\ DigitsVal(k.u) < Len(s)
                   THEN RVal(VStr(<<s[DigitsVal(k.u) + 1]>>))
                   ELSE RVal(Undef)
\* split with a string (or undefined) separator
RECURSIVE SplitAt(_, _, _)
SplitAt(s, sep, from) ==                        \* pieces of s starting at 0-based `from`, sep non-empty
  LET k == IndexFrom(s, sep, from)
  IN IF k = -1 THEN <<Slice(s, from, Len(s))>>
     ELSE <<Slice(s, from, k)>> \o SplitAt(s, sep, k + Len(sep))
SplitM(s, a) ==
  LET sepv == Arg(a, 1)
      limv == Arg(a, 2)
      lw   == ToNumberW(limv)
      pieces == IF IsUndef(sepv) THEN <<s>>
                ELSE LET sep == ToStrU(sepv)
                     IN IF sep = <<>> THEN [i \in 1..Len(s) |-> <<s[i]>>]
                        ELSE SplitAt(s, sep, 0)
      \* lim = 2^32 - 1 when undefined, else ToUint32(limit): NaN, +-Infinity -> 0, negative -> 2^32 - k
      take == IF IsUndef(limv) THEN Len(pieces)
              ELSE IF WIsNaN(lw) \/ WIsInf(lw) THEN 0
              ELSE IF WTruncClamp(lw) < 0 THEN Len(pieces)
              ELSE Min(WTruncClamp(lw), Len(pieces))
  IN RVal(VArr([i \in 1..take |-> VStr(pieces[i])]))
\* |limit| >= 2^30 would need modular arithmetic the clamped integer has lost
SplitLimitSupported(v) == IsUndef(v) \/ (ConvSupported(v) /\ LET w == ToNumberW(v) IN WIsNaN(w) \/ WIsInf(w) \/ (WTruncClamp(w) < Lim /\ WTruncClamp(w) > 0 - Lim))

\* String(value): ToString of the argument ("" when absent); String.fromCharCode(...): ToUint16 of each argument
StringFn(a) == RVal(VStr(IF Len(a) = 0 THEN <<>> ELSE ToStrU(a[1])))
ToUint16(v) == LET w == ToNumberW(v) IN
               IF WIsNaN(w) \/ WIsInf(w) THEN 0
               ELSE LET t == WTruncClamp(w) IN IF t >= 0 THEN t % 65536 ELSE (65536 - ((0 - t) % 65536)) % 65536
FromCharCode(a) == RVal(VStr([i \in 1..Len(a) |-> ToUint16(a[i])]))
Uint16Supported(v) == ConvSupported(v) /\ LET w == ToNumberW(v) IN WIsNaN(w) \/ WIsInf(w) \/ (WTruncClamp(w) < Lim /\ WTruncClamp(w) > 0 - Lim)

\* replace / replaceAll with a STRING search value (ECMA-262 22.1.3.19 / .20, GetSubstitution with no captures:
\* only $$, $&, $` and $' are special, every other "$" is copied). The replacement value is a template (ToString of a
\* non-callable) or, for the methods "replace_fn" / "replaceAll_fn", a function of (matched, position, string) that the
\* driver supplies: it returns "<" matched "|" position "|" string ">".
RECURSIVE StrSubst(_, _, _, _)
StrSubst(t, matched, pre, post) ==
  IF t = <<>> THEN <<>>
  ELSE IF t[1] = 36 /\ Len(t) >= 2 /\ t[2] \in {36, 38, 96, 39}
       THEN (CASE t[2] = 36 -> <<36>> [] t[2] = 38 -> matched [] t[2] = 96 -> pre [] OTHER -> post)
            \o StrSubst(SubSeq(t, 3, Len(t)), matched, pre, post)
       ELSE <<t[1]>> \o StrSubst(Tail(t), matched, pre, post)
FnReplacement(s, matched, p) == <<60>> \o matched \o <<124>> \o IntText(p) \o <<124>> \o s \o <<62>>
ReplacementAt(s, search, p, fn, templ) ==
  IF fn THEN FnReplacement(s, search, p)
  ELSE StrSubst(templ, search, Slice(s, 0, p), Slice(s, p + Len(search), Len(s)))
ReplaceStr(s, a, fn) ==
  LET search == ToStrU(Arg(a, 1))
      templ == IF fn THEN <<>> ELSE ToStrU(Arg(a, 2))
      p == IndexFrom(s, search, 0)
  IN RVal(VStr(IF p = -1 THEN s
               ELSE Slice(s, 0, p) \o ReplacementAt(s, search, p, fn, templ) \o Slice(s, p + Len(search), Len(s))))
RECURSIVE ReplaceAllFrom(_, _, _, _, _, _)
ReplaceAllFrom(s, search, fn, templ, from, endOfLast) ==      \* from: where the next search starts; endOfLast: end of the previous match
  LET p == IF from > Len(s) THEN -1 ELSE IndexFrom(s, search, from)
  IN IF p = -1 THEN Slice(s, endOfLast, Len(s))
     ELSE Slice(s, endOfLast, p) \o ReplacementAt(s, search, p, fn, templ)
          \o ReplaceAllFrom(s, search, fn, templ, p + Max(1, Len(search)), p + Len(search))
ReplaceAllStr(s, a, fn) ==
  LET search == ToStrU(Arg(a, 1))
      templ == IF fn THEN <<>> ELSE ToStrU(Arg(a, 2))
  IN RVal(VStr(ReplaceAllFrom(s, search, fn, templ, 0, 0)))

\* function replacer whose RESULT contains dollar patterns: it is used verbatim (no GetSubstitution on a function's result)
FnReplacementD(matched) == <<91, 36, 38, 36, 36, 36, 96, 36, 39, 93>> \o matched          \* "[$&$$$`$']" matched
ReplaceStrD(s, a, all) ==
  LET search == ToStrU(Arg(a, 1))
      RECURSIVE Go(_, _)
      Go(from, endOfLast) == LET p == IF from > Len(s) THEN -1 ELSE IndexFrom(s, search, from)
                             IN IF p = -1 THEN Slice(s, endOfLast, Len(s))
                                ELSE Slice(s, endOfLast, p) \o FnReplacementD(search)
                                     \o (IF all THEN Go(p + Max(1, Len(search)), p + Len(search)) ELSE Slice(s, p + Len(search), Len(s)))
  IN RVal(VStr(Go(0, 0)))
\* search with a STRING argument: the text is a pattern (RegExpCreate(ToString(arg))). Specified here for patterns made of
\* literal letters, digits, blanks and the alternation bar only: the leftmost position at which some alternative occurs
RECURSIVE SrchSplitBar(_)
SrchSplitBar(u) == LET S == {k \in 1..Len(u) : u[k] = 124}
                   IN IF S = {} THEN <<u>> ELSE LET k == CHOOSE x \in S : \A y \in S : x <= y
                                                IN <<SubSeq(u, 1, k - 1)>> \o SrchSplitBar(SubSeq(u, k + 1, Len(u)))
SrchPlain(u) == \A k \in 1..Len(u) : u[k] = 124 \/ u[k] = 32 \/ (u[k] >= 48 /\ u[k] <= 57) \/ (u[k] >= 65 /\ u[k] <= 90) \/ (u[k] >= 97 /\ u[k] <= 122)
SearchStr(s, a) ==
  LET pat == IF Len(a) = 0 THEN <<>> ELSE IF IsUndef(a[1]) THEN <<>> ELSE ToStrU(a[1])
      alts == SrchSplitBar(pat)
      hits == {k \in 0..Len(s) : \E j \in 1..Len(alts) : OccursAt(s, alts[j], k)}
  IN RVal(VInt(IF hits = {} THEN -1 ELSE CHOOSE k \in hits : \A q \in hits : k <= q))

Methods == {"search", "replace_fnd", "replaceAll_fnd", "replace", "replaceAll", "replace_fn", "replaceAll_fn", "fn:String", "fn:String.fromCharCode", "charAt", "charCodeAt", "indexOf", "lastIndexOf", "includes", "startsWith", "endsWith",
            "substring", "slice", "repeat", "concat", "trim", "trimStart", "trimEnd",
            "toLowerCase", "toUpperCase", "toString", ".length", "[]", "split"}

Expected(m, s, a) ==
  CASE m = "fn:String" -> StringFn(a)        [] m = "fn:String.fromCharCode" -> FromCharCode(a)
    [] m = "charAt" -> CharAt(s, a)         [] m = "charCodeAt" -> CharCodeAt(s, a)
    [] m = "indexOf" -> IndexOf(s, a)       [] m = "lastIndexOf" -> LastIndexOf(s, a)
    [] m = "includes" -> Includes(s, a)     [] m = "startsWith" -> StartsWith(s, a)
    [] m = "endsWith" -> EndsWith(s, a)     [] m = "substring" -> Substring(s, a)
    [] m = "slice" -> SliceM(s, a)          [] m = "repeat" -> RepeatM(s, a)
    [] m = "concat" -> ConcatM(s, a)        [] m = "trim" -> TrimM(s)
    [] m = "trimStart" -> TrimStartM(s)     [] m = "trimEnd" -> TrimEndM(s)
    [] m = "toLowerCase" -> ToLowerM(s)     [] m = "toUpperCase" -> ToUpperM(s)
    [] m = "toString" -> ToStringM(s)       [] m = ".length" -> LengthM(s)
    [] m = "[]" -> IndexM(s, a)             [] m = "split" -> SplitM(s, a)
    [] m = "replace" -> ReplaceStr(s, a, FALSE)       [] m = "replaceAll" -> ReplaceAllStr(s, a, FALSE)
    [] m = "replace_fn" -> ReplaceStr(s, a, TRUE)     [] m = "replaceAll_fn" -> ReplaceAllStr(s, a, TRUE)
    [] m = "replace_fnd" -> ReplaceStrD(s, a, FALSE)  [] m = "replaceAll_fnd" -> ReplaceStrD(s, a, TRUE)
    [] m = "search" -> SearchStr(s, a)

\* which argument positions are index-like (ToIntegerOrInfinity) / text-like (ToString)
IndexPos(m) == CASE m \in {"charAt", "charCodeAt", "substring", "slice", "repeat", "fn:String.fromCharCode"} -> {1, 2}
                 [] m \in {"indexOf", "lastIndexOf", "includes", "startsWith", "endsWith", "split"} -> {2}
                 [] OTHER -> {}
TextPos(m) == CASE m = "fn:String" -> {1}
                [] m \in {"indexOf", "lastIndexOf", "includes", "startsWith", "endsWith", "split"} -> {1}
                [] m = "concat" -> {1, 2}
                [] m \in {"replace", "replaceAll", "replace_fn", "replaceAll_fn", "replace_fnd", "replaceAll_fnd", "search"} -> {1}
                [] OTHER -> {}
\* replacement templates (ToString, then GetSubstitution)
TemplPos(m) == IF m \in {"replace", "replaceAll"} THEN {2} ELSE {}
Arity(m) == CASE m \in {"charAt", "charCodeAt", "repeat", "[]", "fn:String", "replace_fn", "replaceAll_fn", "replace_fnd", "replaceAll_fnd", "search"} -> 1
              [] m \in {"trim", "trimStart", "trimEnd", "toLowerCase", "toUpperCase", "toString", ".length"} -> 0
              [] OTHER -> 2

\* Is the case inside the fragment this module specifies (and safe to run)?
Supported(m, s, a) ==
  /\ Len(a) <= Arity(m)
  /\ \A i \in 1..Len(a) : (i \in IndexPos(m) => ConvSupported(a[i])) /\ (i \in TextPos(m) \cup TemplPos(m) => ToStrSupported(a[i]))
  /\ (m \in {"replace_fn", "replaceAll_fn", "replace_fnd", "replaceAll_fnd"} => Len(a) = 1)
  /\ (m = "search" => IF Len(a) = 0 THEN TRUE
                       ELSE (IsUndef(a[1]) \/ (a[1].k \in {"str", "num", "bool", "null"} /\ ToStrSupported(a[1]) /\ SrchPlain(ToStrU(a[1])))))
  /\ (m = "fn:String.fromCharCode" => \A i \in 1..Len(a) : Uint16Supported(a[i]))
  /\ (m \in {"fn:String", "fn:String.fromCharCode"} => s = <<>>)          \* plain functions: no receiver
  /\ (m = "repeat" => Len(a) = 1 /\ (s = <<>> \/ ToIntClamp(a[1]) <= 6 \/ ToIntClamp(a[1]) >= Lim \/ IsPosInfArg(a[1])))
  /\ (m = "split" /\ Len(a) >= 2 => SplitLimitSupported(a[2]))
  /\ (m = "[]" => Len(a) = 1 /\ ((a[1].k = "num" /\ (WIsSmallInt(a[1].w) \/ WIsNaN(a[1].w) \/ WIsInf(a[1].w)) /\ a[1].w # WNegZero)
                                 \/ (a[1].k = "str" /\ a[1].u \in IndexKeyTexts)))      \* keys that name no other property of a string
  \* documented restriction: ASCII-only case mapping; receivers with non-ASCII units are not judged
  /\ (m \in {"toLowerCase", "toUpperCase"} => \A i \in 1..Len(s) : IsAsciiUnit(s[i]))
=============================================================================
