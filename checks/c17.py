"""C17 - Array and typed-array methods compute, mutate and alias as specified (DESIGN 5/C17)."""
import json, random, os, time
from harness import tlc, engine
from harness.common import Machinery

ENUM_CFG = "INIT EnumInit\nNEXT EnumNext\nCONSTRAINT EnumEmit\nINVARIANT LawsHold\nCHECK_DEADLOCK FALSE\n"
SM_CFG = "INIT SMInit\nNEXT SMNext\nINVARIANT SMInv\nCONSTRAINT SMConstraint\nCHECK_DEADLOCK FALSE\n"
JUDGE_CFG = "INIT JudgeInit\nNEXT JudgeNext\nCHECK_DEADLOCK FALSE\n"
TRACE_CFG = "INIT TraceInit\nNEXT TraceNext\nCONSTRAINT TraceReport\nCHECK_DEADLOCK FALSE\n"
DRIVER = "checks.c17_driver:call_driver"


def key(c):
    return json.dumps(c, sort_keys=True)


def run(rep):
    quick = rep.tier == "quick"
    parts = os.environ.get("C17_PARTS", "all")          # development switch: "rw" = only the read/write-path family (partial run)
    # 1. model checking: the array store as a state machine (invariants), then the laws on every enumerated case
    # (the two runs are independent: the state machine runs beside the enumeration, which is one thread for most of its time)
    from concurrent.futures import ThreadPoolExecutor
    with ThreadPoolExecutor(max_workers=1) as pool:
        smf = pool.submit(tlc.run, rep.pid, "C17", SM_CFG, env={"TIER": rep.tier}, timeout=1800, tag="sm", heap="4g",
                          workers=8 if quick else None) if parts == "all" else None
        res = tlc.run(rep.pid, "C17", ENUM_CFG, env={"TIER": rep.tier, "C17_PARTS": parts}, timeout=2400, tag="enum", heap="6g")
        if smf is not None:
            rep.add_tlc("C17.ArrayStateMachine", smf.result())
    rep.add_tlc("C17.Enum+Laws", res)
    seen, calls, scripts, keys, binds = set(), [], [], [], []
    import hashlib
    for c in res.records:
        k = hashlib.md5(key(c).encode()).digest()
        if k in seen:
            continue
        seen.add(k)
        (calls if c["ty"] == "call" else keys if c["ty"] == "key" else binds if c["ty"] == "bind" else scripts).append(c)
    res.records, res.stdout, seen = [], "", None          # the enumeration output is large: free it
    nrw = sum(1 for c in scripts if c.get("fam") == "rw")
    if (parts == "all" and (len(calls) < 5000 or len(scripts) - nrw < 500)) or (parts not in ("key", "bind") and nrw < 500) \
            or (parts in ("all", "key") and len(keys) < 1000) or (parts in ("all", "bind") and len(binds) < 3000):
        raise Machinery("enumeration produced only %d calls, %d scripts, %d key scripts, %d lookup-time scripts"
                        % (len(calls), len(scripts), len(keys), len(binds)))
    rng = random.Random(rep.seed)
    allc = []
    for c in calls + scripts + keys + binds:
        c["id"] = len(allc)
        c["intrep"] = True                       # integer-valued numbers as the engine's literals hold them
        allc.append(c)
    # the same cases with integer-valued numbers held as Python floats (representation mix): all plain calls, a sample of the rest
    for c in calls + scripts + keys + binds:
        if c.get("fam") == "rw":
            p = 0.25 if quick else 0.1               # a family about histories and aliasing, not about number representations
        elif c["ty"] == "bind":
            p = 0.1                                  # a family about the order of lookup, change and call
        elif c["ty"] == "key":
            p = 1.0                                  # a number key held as a Python float is a key kind of its own
        else:
            p = 0.1 if c["ty"] == "call" and c["cb"]["kind"] != "na" else (1.0 if quick else 0.3)
        if rng.random() > p:
            continue
        d = dict(c)
        d["id"] = len(allc)
        d["intrep"] = False
        allc.append(d)
    hist = gen_histories(rng, 500 if quick else 8000) if parts == "all" else []
    tah = gen_ta_histories(rng, 300 if quick else 3000) if parts == "all" else []
    tah += gen_ta_histories(rng, 100 if quick else 1000, render=True) if parts in ("all", "rwh") else []
    for h in hist + tah:
        h["id"] = len(allc)
        allc.append(h)
    rep.spaces.append({"space": "single calls: method x receiver family x argument grid x responder tables (TLC-enumerated)",
                       "cases": len(calls), "complete": True})
    rep.spaces.append({"space": "typed-array scripts: kinds x stored values x construction x set/subarray/two views (TLC-enumerated)",
                       "cases": len(scripts) - nrw, "complete": True})
    rep.spaces.append({"space": "typed-array read/write-path scripts on one buffer: kind pairs x observer (view, second view, subarray; writer created "
                                "before / after the first read) x read path before (none, join, toString, copied by set) x writing view x "
                                "write method (index, set from array, set from typed array) x read path after (TLC-enumerated, RWLaw)",
                       "cases": nrw, "complete": True})
    rep.spaces.append({"space": "element reads and writes by property key: key kind (boolean, undefined, null, index / non-index string, index number, "
                                "-0, negative and non-integer number) x read / write / write then read through any key / two writes x receiver "
                                "length 0..3 (6 thorough); elements, own named properties and reads by name observed after every event "
                                "(TLC-enumerated, KeyGridLaw)",
                       "cases": len(keys), "complete": True})
    rep.spaces.append({"space": "method looked up, receiver changed, method called: construction form (change inside the argument list; method value kept "
                                "and called by call / apply / detached) x intervening change (none; in place: push pop shift unshift reverse sort "
                                "element write; splice; length shortened / extended; two in a row) x every method x receiver length 0, 1, 4 "
                                "(TLC-enumerated, BindGridLaw)",
                       "cases": len(binds), "complete": True})
    rep.spaces.append({"space": "seeded random histories (arrays: <= 20 calls on three shared arrays; typed arrays: <= 20 events on two buffers, a quarter of them with join / toString between the writes)",
                       "cases": len(hist) + len(tah), "complete": False})
    # 2./3. replay into the engine and judge in TLC, batch by batch (bounded memory)
    BATCH = 100000 if quick else 30000          # quick: one batch (every batch costs 32 JVM starts)
    rep.notes["engine_wall_s"] = 0.0
    rep.notes["judge_wall_s"] = [0.0, 0.0]
    rep.evaluations = 0
    for lo in range(0, len(allc), BATCH):
        process(rep, allc[lo:lo + BATCH], None if quick else 8)
    rep.exhaustive = parts == "all"
    if parts != "all":
        rep.notes["partial_run"] = "C17_PARTS=" + parts
    # methods the engine offers that the specification does not cover yet (reported, not judged)
    names = ["at", "fill", "keys", "values", "entries", "flat", "flatMap", "findLast", "findLastIndex", "copyWithin", "toSorted", "toReversed",
             "toSpliced", "with", "reduceRight", "lastIndexOf"]
    tnames = ["fill", "slice", "map", "forEach", "indexOf", "reverse", "sort", "at", "byteLength", "byteOffset", "buffer", "BYTES_PER_ELEMENT"]
    src = ("var __r = [], __n = %s, __t = %s, __i; var __ta = new Uint8Array(1);"
           "for (__i = 0; __i < __n.length; __i = __i + 1) { if (typeof [][__n[__i]] !== 'undefined') { __r.push(__n[__i]); } }"
           "for (__i = 0; __i < __t.length; __i = __i + 1) { if (typeof __ta[__t[__i]] !== 'undefined') { __r.push('TypedArray.' + __t[__i]); } }"
           "__r.join(' ')") % (json.dumps(names), json.dumps(tnames))
    pr = engine.run_cases(rep.pid, [{"id": 0, "src": src, "time_limit": 5.0}], procs=1, tag="eng_probe")
    if pr and pr[0]["out"]["o"] == "value" and pr[0]["out"]["v"]["k"] == "str":
        from harness import wire
        offered = wire.from_units(pr[0]["out"]["v"]["u"]).split()
        rep.notes["engine_members_outside_the_specification"] = [n for n in offered if n not in ("reduceRight", "lastIndexOf")]
    rep.notes["rule"] = ("distinct (method, receiver, arguments, responder table, number representation) tuples, typed-array scripts and "
                         "histories; every one is judged event by event")
    rep.notes["events_judged"] = rep.evaluations
    rep.assumptions += ["JsArray.tla / TypedArr.tla transcribe ECMA-262 Array.prototype / TypedArray semantics for the listed methods",
                        "documented stricter mode: dense arrays, append at length, an error further out (class not judged)",
                        "map over an array shortened by its callback: trailing vanished indexes may be dropped or read as undefined",
                        "sort with an inconsistent comparator: any permutation with undefined last"]


def process(rep, batch, shards):
    t0 = time.time()
    results = engine.run_cases(rep.pid, batch, driver=DRIVER, tag="eng")

    # a wall-clock watchdog hit on a loaded machine is not an observation: run those cases once more, alone
    def hung(r):
        obs = r["obs"] if isinstance(r["obs"], list) else [r["obs"]]
        if len(obs) == 1 and "fin" in obs[0]:                       # family B: the intervening calls and the call
            obs = obs[0]["pre"] + [obs[0]["fin"]]
        return any(o["out"]["o"] == "hang" and "wall" in o["out"].get("msg", "") for o in obs)
    byid = {c["id"]: c for c in batch}
    again = [r["id"] for r in results if hung(r)]
    if again:
        redo = engine.run_cases(rep.pid, [byid[i] for i in again], driver=DRIVER, procs=1, tag="eng_retry")
        fixed = {r["id"]: r for r in redo}
        results = [fixed.get(r["id"], r) for r in results]
        rep.notes["watchdog_retries"] = rep.notes.get("watchdog_retries", 0) + len(again)
    rep.notes["engine_wall_s"] = round(rep.notes["engine_wall_s"] + time.time() - t0, 1)
    crecs, trecs = [], []
    for r in results:
        c = byid[r["id"]]
        if c["ty"] == "call":
            crecs.append({"id": c["id"], "ty": "call", "store": c["store"], "m": c["m"], "r": c["r"], "a": c["a"], "cb": c["cb"],
                          "obs": r["obs"]})
        elif c["ty"] == "bind":
            crecs.append({"id": c["id"], "ty": "bind", "store": c["store"], "r": c["r"], "pre": c["pre"], "m": c["m"], "a": c["a"], "cb": c["cb"],
                          "form": c["form"], "obs": r["obs"]})
        elif c["ty"] == "key":
            crecs.append({"id": c["id"], "ty": "key", "store": c["store"], "r": c["r"], "probes": c["probes"],
                          "evs": [dict(ev, obs=ob) for ev, ob in zip(c["evs"], r["obs"])]})
        else:
            evs = []
            for ev, ob in zip(c["evs"], r["obs"]):
                e = dict(ev)
                e["obs"] = ob
                evs.append(e)
            trecs.append({"id": c["id"], "ty": c["ty"], "store": c.get("store", []), "evs": evs})
    if len(crecs) + len(trecs) != len(batch):
        raise Machinery("engine returned %d results for %d cases" % (len(results), len(batch)))
    verdicts, st, tr, wall = tlc.judge(rep.pid, "C17", crecs, JUDGE_CFG, tag="judge_calls", shards=shards)
    rep.add_judge(len(crecs), st, tr)
    tverd, st2, tr2, wall2 = tlc.judge(rep.pid, "C17", trecs, TRACE_CFG, tag="judge_traces", shards=shards)
    rep.add_judge(len(trecs), st2, tr2)
    rep.notes["judge_wall_s"] = [round(rep.notes["judge_wall_s"][0] + wall, 1), round(rep.notes["judge_wall_s"][1] + wall2, 1)]
    rep.evaluations += sum(len(t["evs"]) if t["ty"] == "key" else 1 + len(t["pre"]) if t["ty"] == "bind" else 1 for t in crecs) + sum(len(t["evs"]) for t in trecs)
    got = {v["id"]: v for v in verdicts + tverd}
    if len(got) != len(batch):
        raise Machinery("judge returned %d verdicts for %d records" % (len(got), len(batch)))
    obs = {r["id"]: r for r in crecs + trecs}
    for i, v in sorted(got.items()):
        c = byid[i]
        if v["v"] == "pass":
            if len(rep.samples) < 5 and i % 4999 == 0:
                rep.sample({"case": show_case(c), "verdict": "pass"})
            continue
        if v["v"] == "unsupported" or v.get("why") == "unsupported":
            raise Machinery("judge called an enumerated case unsupported: %s" % show_case(c))
        devs = [v["dev"]] if "dev" in v else sorted(v.get("devs", []))
        detail = {"case": show_case(c), "why": v.get("why", ""), "at": v.get("at"), "expected": v.get("exp"),
                  "actual": actual_of(c, obs[i], v), "m": c.get("m", c["ty"]), "raw": c if c["ty"] == "call" else None}
        if v["v"] == "known":
            for d in devs:
                rep.mismatch(show_case(c), detail, dev=d)
        else:
            rep.mismatch(show_case(c), detail, dev="")


def actual_of(c, rec, v):
    if c["ty"] == "call":
        return rec["obs"]
    if c["ty"] == "bind":
        at = (v.get("at") or 1) - 1
        return rec["obs"]["pre"][at] if at < len(c["pre"]) else rec["obs"]["fin"]
    at = (v.get("at") or 1) - 1
    evs = rec["evs"]
    return evs[at]["obs"] if 0 <= at < len(evs) else None


def show_val(w, store=None):
    from harness import wire
    if w.get("k") == "ref":
        return "#%d" % w["id"]
    if w.get("k") == "arr":
        return "[" + ", ".join(show_val(e) for e in w["e"]) + "]"
    return wire.show(w)


def show_cb(cb):
    if cb["kind"] == "na":
        return ""
    if cb["kind"] == "none":
        return "<no callback>"
    if cb["kind"] == "val":
        return "cb=" + show_val(cb["v"])
    if cb.get("cmp"):
        return "cmp:" + cb["cmp"]
    s = "cb[" + ",".join(e["act"] + ("=" + show_val(e["v"]) if e["act"] in ("ret", "throw") else "") for e in cb["tab"]) + "]"
    if cb.get("hasThis"):
        s += " this=" + show_val(cb["this"])
    return s


def show_call(store, ev):
    recv = "[" + ", ".join(show_val(e) for e in store[ev["r"] - 1]) + "]" if store else "#%d" % ev["r"]
    parts = [show_cb(ev["cb"])] if ev["cb"]["kind"] != "na" else []
    parts += [show_val(a) for a in ev["a"]]
    return "%s.%s(%s)" % (recv, ev["m"], ", ".join(p for p in parts if p))


def show_case(c):
    tag = "" if c.get("intrep", True) else " [float repr]"
    if c["ty"] == "call":
        return show_call(c["store"], c) + tag
    if c["ty"] == "key":
        recv = "[" + ", ".join(show_val(e) for e in c["store"][c["r"] - 1]) + "]"
        return "a = " + recv + "; " + "; ".join(("a[%s]" % show_val(e["k"])) + (" = " + show_val(e["v"]) if e["op"] == "set" else "")
                                                 for e in c["evs"]) + tag
    if c["ty"] == "bind":
        recv = "[" + ", ".join(show_val(e) for e in c["store"][c["r"] - 1]) + "]"
        pre = [show_call([], dict(e, r=c["r"])).replace("#%d" % c["r"], "a") for e in c["pre"]]
        args = [p for p in ([show_cb(c["cb"])] if c["cb"]["kind"] != "na" else []) + [show_val(a) for a in c["a"]] if p]
        if c["form"] == "inarg":
            return "a = %s; a.%s(%s)%s" % (recv, c["m"], ", ".join(["(" + ", ".join(pre + (args[:1] or ["undefined"])) + ")"] + args[1:]) if pre
                                           else ", ".join(args), tag)
        fin = {"call": "f.call(%s)" % ", ".join(["a"] + args), "apply": "f.apply(a, [%s])" % ", ".join(args), "detached": "f(%s)" % ", ".join(args)}
        return "a = %s; f = a.%s; %s%s%s" % (recv, c["m"], "".join(p + "; " for p in pre), fin[c["form"]], tag)
    if c["ty"] == "hist":
        return "history " + "; ".join("#%d.%s" % (e["r"], e["m"]) for e in c["evs"]) + " on " + json.dumps([[show_val(x) for x in a] for a in c["store"]])
    out = []
    for e in c["evs"]:
        if e["op"] in ("newlen", "view"):
            out.append("new %s(%s%s)" % (e["kind"], "buf%d, " % e["vi"] if e["op"] == "view" else "", ", ".join(show_val(a) for a in e["a"])))
        elif e["op"] == "newarr":
            out.append("new %s([%s])" % (e["kind"], ", ".join(show_val(a) for a in e["src"]["vals"])))
        elif e["op"] == "newbuf":
            out.append("new ArrayBuffer(%d)" % e["i"])
        elif e["op"] == "write":
            out.append("v%d[%d] = %s" % (e["vi"], e["i"], show_val(e["x"])))
        elif e["op"] == "set":
            src = "v%d" % e["src"]["id"] if e["src"]["t"] == "view" else "[" + ", ".join(show_val(a) for a in e["src"]["vals"]) + "]"
            out.append("v%d.set(%s)" % (e["vi"], ", ".join([src] + [show_val(a) for a in e["a"]])))
        else:
            out.append("v%d.%s(%s)" % (e["vi"], e["op"], ", ".join(show_val(a) for a in e["a"])))
    return "; ".join(out) + tag


# ---- seeded random histories (spec-level JSON; judged by the total trace specification in C17.tla) ----------------
from harness.wire import W_num, W_str, W_bool, W_undef, W_null


def ref(i):
    return {"k": "ref", "id": i}


PRIMS = [W_num(1), W_num(2), W_num(9), W_num(0), W_num(10), W_str("a"), W_str("10"), W_str("b"), W_undef(), W_null(),
         W_num(float("nan")), W_bool(True), W_bool(False)]
IDX = [W_num(x) for x in (-7, -2, -1, 0, 1, 2, 3, 5, 7)] + [W_num(1.5), W_num(-0.5), W_num(float("nan")), W_num(float("inf")),
                                                              W_num(float("-inf")), W_undef(), W_null(), W_str("1"), W_str("x"), W_bool(True)]
SEPS = [[], [W_undef()], [W_str("-")], [W_str("")], [W_num(1)]]
SYMS = ["T", "F", "throw", "push", "pop", "shorten"]
ITER = ["forEach", "map", "filter", "find", "findIndex", "some", "every"]
TRUTHY = [W_num(7), W_str("0"), W_bool(True)]
FALSY = [W_num(0), W_str(""), W_undef(), W_num(float("nan")), W_null(), W_bool(False)]
NOCB = {"kind": "na", "v": W_undef(), "tab": [], "dflt": {"act": "ret", "v": W_undef(), "x": W_undef(), "n": 0},
        "this": W_undef(), "hasThis": False, "cmp": ""}


def entry(m, sym, p):
    cont = FALSY[(p - 1) % 6] if m in ("some", "find", "findIndex") else TRUTHY[(p - 1) % 3]
    e = {"act": "ret", "v": cont, "x": W_undef(), "n": 0}
    if sym == "T":
        e["v"] = TRUTHY[(p - 1) % 3]
    elif sym == "F":
        e["v"] = FALSY[(p - 1) % 6]
    elif sym == "throw":
        e.update(act="throw", v=W_num(40 + p))
    elif sym == "push":
        e.update(act="push", x=W_num(70 + p))
    elif sym == "pop":
        e.update(act="pop")
    elif sym == "shorten":
        e.update(act="len", n=1)
    return e


def fncb(rng, m):
    syms = [rng.choice(SYMS) for _ in range(rng.randint(0, 3))]
    cb = dict(NOCB)
    cb.update(kind="fn", tab=[entry(m, s, i + 1) for i, s in enumerate(syms)],
              dflt={"act": "ret", "v": FALSY[0] if m in ("some", "find", "findIndex") else TRUTHY[0], "x": W_undef(), "n": 0})
    if m in ITER and rng.random() < 0.2:
        cb.update(hasThis=True, this=rng.choice([W_num(5), ref(4), W_undef()]))
    return cb


def item(rng, r):
    """a value that may be stored into array r: primitives, or a higher-numbered array (never a cycle)"""
    if rng.random() < 0.2 and r < 4:
        return ref(rng.randint(r + 1, 4))
    return rng.choice(PRIMS)


def gen_histories(rng, n):
    out = []
    for _ in range(n):
        store = []
        for r in (1, 2, 3):
            store.append([item(rng, r) for _ in range(rng.randint(0, 5))])
        store.append([W_num(1)])
        evs = []
        for _ in range(rng.randint(3, 20)):
            r = rng.randint(1, 3) if rng.random() < 0.95 else 4
            m = rng.choice(["push", "push", "pop", "shift", "unshift", "splice", "splice", "splice", "reverse", "sort", ".length=", "[]=", "[]=",
                            "concat", "slice", "join", "toString", "indexOf", "lastIndexOf", "includes", "[]", ".length",
                            "forEach", "map", "filter", "find", "findIndex", "some", "every", "reduce", "reduceRight"])
            a, cb = [], NOCB
            if m in ("push", "unshift"):
                a = [item(rng, r) for _ in range(rng.randint(0, 2))]
            elif m == "concat":
                a = [rng.choice(PRIMS + [ref(1), ref(2), ref(3), ref(4)]) for _ in range(rng.randint(0, 2))]
            elif m == "splice":
                a = [rng.choice(IDX) for _ in range(rng.randint(0, 2))]
                if len(a) == 2:
                    a += [item(rng, r) for _ in range(rng.randint(0, 2))]
            elif m == "slice":
                a = [rng.choice(IDX) for _ in range(rng.randint(0, 2))]
            elif m in ("indexOf", "lastIndexOf", "includes"):
                a = [rng.choice(PRIMS + [ref(4), ref(2)])] + ([rng.choice(IDX)] if rng.random() < 0.4 else [])
            elif m == "join":
                a = rng.choice(SEPS)
            elif m == ".length=":
                a = [rng.choice([W_num(x) for x in (0, 1, 2, 3, 4, 6, 8, -1, 1.5)] + [W_str("2"), W_undef(), W_null(), W_num(float("nan"))])]
            elif m == "[]":
                a = [W_num(rng.choice([0, 1, 2, 3, 5, 8, -1, 1.5]))]
            elif m == "[]=":
                a = [W_num(rng.randint(0, 7)), item(rng, r)]
            elif m == "sort":
                k = rng.choice(["none", "none", "undef", "one", "neg", "alt", "nan", "val"])
                cb = dict(NOCB)
                if k == "none":
                    cb.update(kind="none")
                elif k == "val":
                    cb.update(kind="val", v=rng.choice([W_undef(), W_null(), W_num(1)]))
                else:
                    cb.update(kind="fn", cmp=k)
            elif m in ITER:
                cb = fncb(rng, m)
            elif m in ("reduce", "reduceRight"):
                cb = fncb(rng, m)
                a = rng.choice([[], [W_num(100)], [W_undef()]])
            evs.append({"m": m, "r": r, "a": a, "cb": cb})
        out.append({"ty": "hist", "store": store, "evs": evs})
    return out


TAKINDS = ["Int8Array", "Uint8Array", "Uint8ClampedArray", "Int16Array", "Uint16Array", "Int32Array", "Uint32Array", "Float32Array", "Float64Array"]
TASIZE = {"Int8Array": 1, "Uint8Array": 1, "Uint8ClampedArray": 1, "Int16Array": 2, "Uint16Array": 2, "Int32Array": 4, "Uint32Array": 4,
          "Float32Array": 4, "Float64Array": 8}
TAVALS = [W_num(x) for x in (0, 1, -1, 127, 128, 255, 256, 0.5, 1.5, 2.5, -0.5, 2.0 ** 31, 2.0 ** 32 + 1, -129, 65535, 65536, 1e21, 254.5,
                             16777217.0, 3.5, -2.0 ** 31, 1e39, float("nan"), float("inf"), float("-inf"), -0.0)] + [W_str("7"), W_undef(), W_null(), W_bool(True)]
NOSRC = {"t": "arr", "vals": [], "id": 0}


def taev(op, kind="", vi=0, i=0, x=None, a=None, src=None):
    return {"op": op, "kind": kind, "vi": vi, "i": i, "x": x or W_undef(), "a": a or [], "src": src or NOSRC}


SMALLKINDS = [k for k in TAKINDS if TASIZE[k] <= 2]     # every element is an integer below 2^16: its text is inside the specified fragment
OPS = ["view", "view", "newlen", "newarr", "write", "write", "write", "write", "set", "set", "subarray", "len"]
JOINSEPS = [[], [], [W_str("-")], [W_undef()], [W_str("")]]


def gen_ta_histories(rng, n, render=False):
    """render: the views are also read by join / toString at any point of the history (kinds of at most 16 bits)"""
    out = []
    kinds = SMALLKINDS if render else TAKINDS
    ops = OPS + ["join", "join", "join", "tostr", "tostr"] if render else OPS
    for _ in range(n):
        sizes = [rng.choice([8, 16, 24]), rng.choice([4, 8, 16])]
        evs = [taev("newbuf", i=sizes[0]), taev("newbuf", i=sizes[1])]
        nviews, nsub = 0, 0
        for _ in range(rng.randint(3, 18)):
            op = rng.choice(ops)
            if nviews == 0 and op not in ("view", "newlen", "newarr"):
                op = "view"
            kd = rng.choice(kinds)
            sz = TASIZE[kd]
            vi = rng.randint(1, max(1, nviews))
            if op == "view":
                b = rng.randint(1, 2)
                if rng.random() < 0.9:                                   # a valid view
                    off = sz * rng.randint(0, sizes[b - 1] // sz)
                    room = (sizes[b - 1] - off) // sz
                    a = [W_num(off)] + ([W_num(rng.randint(0, room))] if rng.random() < 0.7 else [])
                    if off == 0 and len(a) == 1 and rng.random() < 0.5:
                        a = []
                else:
                    a = [W_num(rng.choice([1, 3, 5, 64, -1])), W_num(rng.randint(0, 3))]
                evs.append(taev("view", kind=kd, vi=b, a=a))
                nviews += 1
            elif op == "newlen":
                evs.append(taev("newlen", kind=kd, a=[rng.choice([W_num(x) for x in (0, 1, 2, 3, 4)] + [W_num(2.5), W_str("2"), W_null()])]))
                nviews += 1
            elif op == "newarr":
                evs.append(taev("newarr", kind=kd, src={"t": "arr", "vals": [rng.choice(TAVALS) for _ in range(rng.randint(0, 4))], "id": 0}))
                nviews += 1
            elif op == "write":
                evs.append(taev("write", vi=vi, i=rng.randint(0, 5), x=rng.choice(TAVALS)))
            elif op == "set":
                src = ({"t": "view", "vals": [], "id": rng.randint(1, max(1, nviews))} if rng.random() < 0.5
                       else {"t": "arr", "vals": [rng.choice(TAVALS) for _ in range(rng.randint(0, 3))], "id": 0})
                a = rng.choice([[], [], [W_num(0)], [W_num(1)], [W_num(2)], [W_num(5)], [W_num(-1)], [W_undef()], [W_num(1.5)]])
                evs.append(taev("set", vi=vi, src=src, a=a))
            elif op == "subarray" and nsub < 3:
                a = [rng.choice([W_num(x) for x in (-2, -1, 0, 1, 2, 3, 9)] + [W_undef(), W_num(float("nan")), W_num(float("inf")), W_num(1.5)])
                     for _ in range(rng.randint(0, 2))]
                evs.append(taev("subarray", vi=vi, a=a))
                nviews += 1
                nsub += 1
            elif op == "join":
                evs.append(taev("join", vi=vi, a=rng.choice(JOINSEPS)))
            elif op == "tostr":
                evs.append(taev("tostr", vi=vi))
            else:
                evs.append(taev("len", vi=vi))
        out.append({"ty": "ta", "evs": evs})
    return out
