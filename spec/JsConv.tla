-------------------------------- MODULE JsConv --------------------------------
(* ECMAScript conversions between numbers and text, over code-unit sequences.    *)
(*   StringToNumber : the StringNumericLiteral grammar (ECMA-262 7.1.4.1) as an   *)
(*                    acceptor producing a decimal / radix integer, then the       *)
(*                    correctly rounded double (Dbl).                              *)
(*   Number::toString(radix 10): shortest digits (Dbl!DShortest / IsShortest)      *)
(*                    and the notation rules (NumberLayout).                       *)
(* Variable-free library module.                                                   *)
EXTENDS Dbl, Str

\* ---- StringNumericLiteral --------------------------------------------------------------------
CvIsDigit(c) == c >= 48 /\ c <= 57
\* value of a digit in radix <= 16, 99 if not a digit
CvDigitVal(c) == IF c >= 48 /\ c <= 57 THEN c - 48
                 ELSE IF c >= 97 /\ c <= 102 THEN c - 87
                 ELSE IF c >= 65 /\ c <= 70 THEN c - 55 ELSE 99
\* index of the last unit of the maximal digit run starting at `from` (from - 1 if there is none)
CvDigitRunEnd(u, from) ==
  LET stops == {cv_j \in from..Len(u) : ~CvIsDigit(u[cv_j])}
  IN IF stops = {} THEN Len(u) ELSE (CHOOSE cv_j \in stops : \A cv_k \in stops : cv_j <= cv_k) - 1
CvDigitVals(u) == [cv_j \in 1..Len(u) |-> u[cv_j] - 48]
CvStripZeros(u) == LET nz == {cv_j \in 1..Len(u) : u[cv_j] # 48}
                   IN IF nz = {} THEN <<>> ELSE SubSeq(u, CHOOSE cv_j \in nz : \A cv_k \in nz : cv_j <= cv_k, Len(u))
\* exponent digits -> value, clamped (anything beyond 10^7 is far outside the double range)
CvExpVal(u) == LET t == CvStripZeros(u) IN IF Len(t) > 7 THEN 9999999 ELSE DigitsVal(t)

CvNaN == [t |-> "nan", s |-> 0, ds |-> <<>>, p |-> 0]
CvInf(sg) == [t |-> "inf", s |-> sg, ds |-> <<>>, p |-> 0]
CvDec(sg, ds, p) == [t |-> "dec", s |-> sg, ds |-> ds, p |-> p]          \* (-1)^sg * ds * 10^p
CvInt(n) == [t |-> "int", s |-> 0, ds |-> n, p |-> 0]                    \* non-decimal integer literal

\* StrUnsignedDecimalLiteral (without Infinity) over the whole of r
CvDecLit(sg, r) ==
  LET i1 == CvDigitRunEnd(r, 1)
      intd == SubSeq(r, 1, i1)
      hasDot == i1 + 1 <= Len(r) /\ r[i1 + 1] = 46
      f0 == IF hasDot THEN i1 + 2 ELSE i1 + 1
      i2 == IF hasDot THEN CvDigitRunEnd(r, f0) ELSE i1
      fracd == IF hasDot THEN SubSeq(r, f0, i2) ELSE <<>>
      nx == i2 + 1
      hasExp == nx <= Len(r)
      esignp == nx + 1 <= Len(r) /\ r[nx + 1] \in {43, 45}
      e0 == IF esignp THEN nx + 2 ELSE nx + 1
      expd == IF hasExp THEN SubSeq(r, e0, Len(r)) ELSE <<>>
      expok == ~hasExp \/ (r[nx] \in {101, 69} /\ expd # <<>> /\ \A cv_j \in 1..Len(expd) : CvIsDigit(expd[cv_j]))
      ev == IF ~hasExp THEN 0 ELSE IF esignp /\ r[nx + 1] = 45 THEN 0 - CvExpVal(expd) ELSE CvExpVal(expd)
  IN IF Len(intd) + Len(fracd) >= 1 /\ expok
     THEN CvDec(sg, BnFromDigits(CvDigitVals(intd \o fracd), 10), ev - Len(fracd))
     ELSE CvNaN
CvRadixOf(c) == CASE c \in {120, 88} -> 16 [] c \in {111, 79} -> 8 [] c \in {98, 66} -> 2 [] OTHER -> 0
CvRadixLit(r) ==
  LET radix == CvRadixOf(r[2])
      ds == SubSeq(r, 3, Len(r))
  IN IF ds # <<>> /\ \A cv_j \in 1..Len(ds) : CvDigitVal(ds[cv_j]) < radix
     THEN CvInt(BnFromDigits([cv_j \in 1..Len(ds) |-> CvDigitVal(ds[cv_j])], radix))
     ELSE CvNaN
CvInfinityText == <<73, 110, 102, 105, 110, 105, 116, 121>>
\* the literal after white space has been trimmed; ws = the set of units trimmed
CvParseTrimmed(t) ==
  IF t = <<>> THEN CvDec(0, <<>>, 0)
  ELSE LET hasSign == t[1] \in {43, 45}
           sg == IF t[1] = 45 THEN 1 ELSE 0
           r == IF hasSign THEN Tail(t) ELSE t
       IN IF r = CvInfinityText THEN CvInf(sg)
          ELSE IF ~hasSign /\ Len(r) >= 2 /\ r[1] = 48 /\ CvRadixOf(r[2]) # 0 THEN CvRadixLit(r)
          ELSE IF r = <<>> THEN CvNaN
          ELSE CvDecLit(sg, r)
StrNumParse(u) == CvParseTrimmed(Trim(u))
\* number of significant decimal digits of the literal (ECMA-262 allows approximating beyond 20)
StrNumSigDigits(u) == LET pr == StrNumParse(u) IN IF pr.t = "dec" /\ pr.ds # <<>> THEN BnDecLen(pr.ds) ELSE 0

CvToD(pr) ==
  CASE pr.t = "nan" -> DNaN
    [] pr.t = "inf" -> DInf(pr.s)
    [] pr.t = "int" -> DOfNat(0, pr.ds)
    [] OTHER -> DOfDecimal(pr.s, pr.ds, pr.p)
\* functional StringToNumber
StrToD(u) == CvToD(StrNumParse(u))
\* relational: is z the Number the text denotes ?
StrDenotes(u, z) ==
  LET pr == StrNumParse(u) IN
  CASE pr.t = "nan" -> z.c = "nan"
    [] pr.t = "inf" -> z = DInf(pr.s)
    [] pr.t = "int" -> IF pr.ds = <<>> THEN z = DZero(0) ELSE IsRounded(z, 0, pr.ds, BnOne)
    [] OTHER -> DecimalDenotes(pr.s, pr.ds, pr.p, z)

\* ---- Number::toString, radix 10 -----------------------------------------------------------------
CvDigitUnits(n) == LET ds == BnDecDigits(n) IN [cv_j \in 1..Len(ds) |-> 48 + ds[cv_j]]
CvZeros(n) == [cv_j \in 1..n |-> 48]
\* digs: k digit units (no leading zero), decimal point position n: ECMA-262 6.1.6.1.20 steps 6-14
NumberLayout(digs, k, n) ==
  IF k <= n /\ n <= 21 THEN digs \o CvZeros(n - k)
  ELSE IF 0 < n /\ n <= 21 THEN SubSeq(digs, 1, n) \o <<46>> \o SubSeq(digs, n + 1, k)
  ELSE IF -6 < n /\ n <= 0 THEN <<48, 46>> \o CvZeros(0 - n) \o digs
  ELSE LET ex == n - 1
           et == <<101, IF ex < 0 THEN 45 ELSE 43>> \o DigitsOf(IF ex < 0 THEN 0 - ex ELSE ex)
       IN IF k = 1 THEN digs \o et ELSE <<digs[1], 46>> \o SubSeq(digs, 2, k) \o et
NumToText(d) ==
  CASE d.c = "nan" -> <<78, 97, 78>>
    [] d.c = "zero" -> <<48>>
    [] d.c = "inf" -> IF d.s = 1 THEN <<45>> \o CvInfinityText ELSE CvInfinityText
    [] OTHER -> LET sh == DShortest(DAbs(d))
                IN (IF d.s = 1 THEN <<45>> ELSE <<>>) \o NumberLayout(CvDigitUnits(sh.s), sh.k, sh.n)

\* layout-independent reading of an unsigned numeric text  digits[.digits][e[+-]digits]  as [ok, s, k, n]:
\* value s * 10^(n - k), s without leading / trailing zeros (k digits)
ParseNumberText(body) ==
  LET epos == {cv_j \in 1..Len(body) : body[cv_j] \in {101, 69}}
      ei == IF epos = {} THEN Len(body) + 1 ELSE CHOOSE cv_j \in epos : \A cv_k \in epos : cv_j <= cv_k
      mant == SubSeq(body, 1, ei - 1)
      dots == {cv_j \in 1..Len(mant) : mant[cv_j] = 46}
      di == IF dots = {} THEN Len(mant) + 1 ELSE CHOOSE cv_j \in dots : TRUE
      ip == SubSeq(mant, 1, di - 1)
      fp == SubSeq(mant, di + 1, Len(mant))
      alld == ip \o fp
      esg == ei + 1 <= Len(body) /\ body[ei + 1] \in {43, 45}
      ed == SubSeq(body, IF esg THEN ei + 2 ELSE ei + 1, Len(body))
      okm == Cardinality(dots) <= 1 /\ alld # <<>> /\ \A cv_j \in 1..Len(alld) : CvIsDigit(alld[cv_j])
      oke == epos = {} \/ (ed # <<>> /\ Len(ed) <= 4 /\ \A cv_j \in 1..Len(ed) : CvIsDigit(ed[cv_j]))
      x == IF epos = {} \/ ~oke THEN 0 ELSE IF esg /\ body[ei + 1] = 45 THEN 0 - DigitsVal(ed) ELSE DigitsVal(ed)
      nz == {cv_j \in 1..Len(alld) : alld[cv_j] # 48}
  IN IF ~(okm /\ oke) \/ nz = {} THEN [ok |-> FALSE, s |-> <<>>, k |-> 0, n |-> 0]
     ELSE LET first == CHOOSE cv_j \in nz : \A cv_k \in nz : cv_j <= cv_k
              last == CHOOSE cv_j \in nz : \A cv_k \in nz : cv_j >= cv_k
              sig == SubSeq(alld, first, last)
              p == x - Len(fp) + (Len(alld) - last)
          IN [ok |-> TRUE, s |-> BnFromDigits(CvDigitVals(sig), 10), k |-> Len(sig), n |-> Len(sig) + p]
\* relational: is `text` the ECMAScript text of d ?   why = "" | "form" | "digits" | "layout"
NumTextWhy(d, text) ==
  IF d.c # "fin" THEN (IF text = NumToText(d) THEN "" ELSE "form")
  ELSE LET neg == d.s = 1
           body == IF neg /\ text # <<>> /\ text[1] = 45 THEN Tail(text) ELSE text
           pr == ParseNumberText(body)
       IN IF (neg /\ (text = <<>> \/ text[1] # 45)) \/ ~pr.ok THEN "form"
          ELSE IF ~IsShortest(DAbs(d), pr.s, pr.k, pr.n) THEN "digits"
          ELSE IF NumberLayout(CvDigitUnits(pr.s), pr.k, pr.n) # body THEN "layout" ELSE ""
NumTextOK(d, text) == NumTextWhy(d, text) = ""
=============================================================================
