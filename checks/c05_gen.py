"""Python mirror of the MiniAst constructors (spec/MiniAst.tla) and the seeded generator of larger
random MiniJS programs.  Everything here emits the *specification's* AST as JSON-able dicts; source
text is produced only by harness/render.py, expectations only by MiniJS in TLC."""

NoE = {"e": "none"}
NoS = {"s": "none"}


def Num(n): return {"e": "num", "n": n}
def Str(s): return {"e": "str", "s": s}
def Bool(b): return {"e": "bool", "b": b}
Undef = {"e": "undef"}
Null = {"e": "null"}
def Var(x, nid=0): return {"e": "var", "x": x, "nid": nid}
def Bin(o, l, r): return {"e": "bin", "o": o, "l": l, "r": r}
def Un(o, x): return {"e": "un", "o": o, "x": x}
def And(l, r): return {"e": "logic", "o": "&&", "l": l, "r": r}
def Or(l, r): return {"e": "logic", "o": "||", "l": l, "r": r}
def Cond(c, a, b): return {"e": "cond", "c": c, "a": a, "b": b}
def Asg(x, r): return {"e": "asg", "x": x, "r": r}
def CAsg(o, x, r): return {"e": "casg", "o": o, "x": x, "r": r}
def Upd(o, pre, x): return {"e": "upd", "o": o, "pre": pre, "x": x}
def Mem(o, p, nid=0): return {"e": "mem", "o": o, "p": p, "dot": False, "nid": nid}
def Dot(o, name, nid=0): return {"e": "mem", "o": o, "p": Str(name), "dot": True, "nid": nid}
def MAsg(m, r): return {"e": "masg", "m": m, "r": r}
def MUpd(o, pre, m): return {"e": "mupd", "o": o, "pre": pre, "m": m}
def Call(f, a, nid=0): return {"e": "call", "f": f, "a": list(a), "nid": nid}
def New(f, a, nid=0): return {"e": "new", "f": f, "a": list(a), "nid": nid}
def Fun(name, params, body): return {"e": "fun", "name": name, "params": list(params), "body": list(body), "arrow": False}
def Arrow(params, body): return {"e": "fun", "name": "", "params": list(params), "body": list(body), "arrow": True}
def XArrow(params, x): return {"e": "fun", "name": "", "params": list(params), "body": [SRet(x)], "arrow": True, "xb": True}   # (p) => x
def Arr(a): return {"e": "arr", "a": list(a)}
def Obj(ks, vs, kd=None): return {"e": "obj", "ks": list(ks), "kd": list(kd) if kd else ["init"] * len(ks), "vs": list(vs)}
def Comma(a): return {"e": "seq", "a": list(a)}
def Log(x): return Call(Var("log"), [x])

def SExpr(x): return {"s": "expr", "x": x}
def SLog(x): return SExpr(Log(x))
def SVar(*ds): return {"s": "var", "ds": [{"x": x, "i": i} for x, i in ds]}
def SFun(name, params, body): return {"s": "fdecl", "name": name, "params": list(params), "body": list(body)}
def SBlock(b): return {"s": "block", "b": list(b)}
SEmpty = {"s": "empty"}
def SIf(c, a, b=NoS): return {"s": "if", "c": c, "a": a, "b": b}
def SWhile(c, b): return {"s": "while", "c": c, "b": b}
def SDo(b, c): return {"s": "dowhile", "c": c, "b": b}
def SFor(i, c, u, b): return {"s": "for", "i": i, "c": c, "u": u, "b": b}
def SForIn(decl, x, o, b): return {"s": "forin", "decl": decl, "x": x, "o": o, "b": b}
def SForOf(decl, x, o, b): return {"s": "forof", "decl": decl, "x": x, "o": o, "b": b}
def Case(t, b): return {"t": t, "b": list(b)}
def SSwitch(d, cs): return {"s": "switch", "d": d, "cs": list(cs)}
def SLabel(l, b): return {"s": "label", "l": l, "b": b}
def SBreak(l=""): return {"s": "break", "l": l}
def SCont(l=""): return {"s": "continue", "l": l}
def SRet(x=NoE): return {"s": "return", "x": x}
def SThrow(x, nid=0): return {"s": "throw", "x": x, "nid": nid}
def STry(b, cv="e", c=NoS, f=NoS): return {"s": "try", "b": b, "cv": cv, "c": c, "f": f}
def Prog(body): return {"body": list(body)}


# ------------------------------------------------------------------------------------------------
# Seeded generator of larger programs: several functions, bounded loops, recursion, closures,
# labelled exits, switch, try/catch/finally, array callbacks.  Typed by construction so that the
# programs stay inside the fragment MiniJS models: every arithmetic operand is a small integer,
# every function returns an integer on every path, every variable is initialised where it is
# declared, loops are bounded by dedicated counters.  What a program *means* is decided by TLC.
# ------------------------------------------------------------------------------------------------
class Gen:
    def __init__(self, rnd, size=1.0, throwy=False, forms=False):
        self.r = rnd
        self.size = size
        self.throwy = throwy      # more throw statements, try statements and callbacks (C07)
        self.forms = forms        # C05 only (it changes the random stream): functions in every construction form (declaration,
                                  # function expression, arrow, expression-bodied arrow), functions that begin with a loop
        self.uid = 0
        self.funcs = []          # (name, nparams) callable from later code
        self.budget = 0

    def fresh(self, p):
        self.uid += 1
        return "%s%d" % (p, self.uid)

    def pick(self, xs):
        return xs[self.r.randrange(len(xs))]

    def chance(self, p):
        return self.r.random() < p

    # ---- expressions -------------------------------------------------------------------------
    def int_expr(self, sc, depth=0):
        r = self.r.random()
        ints = sc["ints"]
        if depth >= 2 or r < 0.25:
            return Num(self.r.randrange(0, 10))
        if r < 0.55 and ints:
            return Var(self.pick(ints))
        if r < 0.70:
            return Bin(self.pick(["+", "-"]), self.int_expr(sc, depth + 1), self.int_expr(sc, depth + 1))
        if r < 0.74:
            return Bin("*", self.int_expr(sc, depth + 1), Num(self.r.randrange(1, 4)))      # never * 0: -0 is outside the fragment
        if r < 0.80:
            return Cond(self.bool_expr(sc, depth + 1), self.int_expr(sc, depth + 1), self.int_expr(sc, depth + 1))
        if r < 0.86 and sc["mut"]:
            x = self.pick(sc["mut"])
            k = self.r.randrange(4)
            if k == 0:
                return Upd(self.pick(["++", "--"]), self.chance(0.5), x)
            if k == 1:
                return Asg(x, self.int_expr(sc, depth + 1))
            if k == 2:
                return CAsg(self.pick(["+", "-"]), x, self.int_expr(sc, depth + 1))
            return Comma([Asg(x, self.int_expr(sc, depth + 1)), Var(x)])
        if r < 0.95 and self.funcs and sc["calls"] > 0 and self.budget > 0:
            self.budget -= 1
            name, n, kind = self.pick(self.funcs)
            if kind == "rec":
                return Call(Var(name), [Num(self.r.randrange(0, 3))] + [self.int_expr(sc, depth + 1) for _ in range(n - 1)])
            return Call(Var(name), [self.int_expr(sc, depth + 1) for _ in range(n)])
        if sc["arrs"]:
            a = self.pick(sc["arrs"])
            return Dot(Var(a), "length")
        return Num(self.r.randrange(0, 10))

    def bool_expr(self, sc, depth=0):
        r = self.r.random()
        if depth >= 2 or r < 0.7:
            return Bin(self.pick(["<", ">", "<=", ">=", "==", "!=", "===", "!=="]), self.int_expr(sc, depth + 1), self.int_expr(sc, depth + 1))
        if r < 0.8:
            return Un("!", self.bool_expr(sc, depth + 1))
        return (And if self.chance(0.5) else Or)(self.bool_expr(sc, depth + 1), self.bool_expr(sc, depth + 1))

    # ---- statements --------------------------------------------------------------------------
    def block(self, sc, depth, n=None):
        n = n if n is not None else self.r.randrange(1, 4)
        return SBlock([self.stmt(sc, depth) for _ in range(n)])

    def exit_stmt(self, sc):
        """an abrupt statement that is legal here"""
        opts = []
        if sc["loops"]:
            opts += [SBreak(), SCont()]
        if sc["breakable"] and not sc["loops"]:
            opts += [SBreak()]
        for lab in sc["labels"]:
            opts.append(SBreak(lab))
        for lab in sc["looplabels"]:
            opts.append(SCont(lab))
        if sc["infn"]:
            opts.append(SRet(self.int_expr(sc, 1)))
        if sc["tries"] > 0 or self.throwy or self.chance(0.15):
            opts.append(SThrow(self.int_expr(sc, 1)))
            if self.throwy:
                opts.append(SThrow(self.int_expr(sc, 1)))
        if not opts:
            return SLog(self.int_expr(sc))
        return self.pick(opts)

    def stmt(self, sc, depth):
        r = self.r.random()
        if self.throwy and depth < 3:
            if r < 0.22:
                return self.try_stmt(sc, depth)
            if r < 0.30:
                return SIf(self.bool_expr(sc), SBlock([self.exit_stmt(sc)]))
            if r < 0.36 and sc["arrs"] and sc.get("arrw"):
                return self.array_stmt(sc, depth)
            r = self.r.random()
        if depth >= 3 or r < 0.30:
            return SLog(self.int_expr(sc))
        if r < 0.40 and sc["mut"]:
            return SExpr(Asg(self.pick(sc["mut"]), self.int_expr(sc)))
        if r < 0.50:
            return SIf(self.bool_expr(sc), self.block(sc, depth + 1), self.block(sc, depth + 1) if self.chance(0.4) else NoS)
        if r < 0.58:
            return SIf(self.bool_expr(sc), SBlock([self.exit_stmt(sc)]))
        if r < 0.72:
            return self.loop(sc, depth)
        if r < 0.78:
            return self.switch(sc, depth)
        if r < 0.88:
            return self.try_stmt(sc, depth)
        if r < 0.92 and sc["arrs"] and sc.get("arrw"):
            return self.array_stmt(sc, depth)
        if r < 0.95:
            lab = self.fresh("B")
            inner = dict(sc, labels=sc["labels"] + [lab])
            return SLabel(lab, self.block(inner, depth + 1))
        return SLog(self.int_expr(sc))

    def loop(self, sc, depth):
        kind = self.pick(["for", "while", "dowhile", "forin", "forof", "forina"])
        lab = self.fresh("L") if self.chance(0.4) else None
        inner = dict(sc, loops=sc["loops"] + 1, calls=sc["calls"] - 1)
        if lab:
            inner["labels"] = sc["labels"] + [lab]
            inner["looplabels"] = sc["looplabels"] + [lab]
        n = self.r.randrange(1, 4)
        if kind == "for":
            i = self.fresh("i")
            sc["decl"].append(i)
            inner["ints"] = sc["ints"] + [i]
            s = SFor(SVar((i, Num(0))), Bin("<", Var(i), Num(n)), Upd("++", self.chance(0.5), i), self.block(inner, depth + 1))
        elif kind in ("while", "dowhile"):
            c = self.fresh("c")
            sc["decl"].append(c)
            inner["ints"] = sc["ints"] + [c]
            body = self.block(inner, depth + 1)
            body["b"].insert(0, SExpr(Upd("++", False, c)))
            pre = SExpr(Asg(c, Num(0)))
            s = SWhile(Bin("<", Var(c), Num(n)), body) if kind == "while" else SDo(body, Bin("<", Var(c), Num(n)))
            s = [pre, s]
        elif kind == "forin":
            k = self.fresh("k")
            sc["decl"].append(k)
            keys = ["p", "q", "r"][:n]
            obj = Obj(keys, [self.int_expr(sc, 1) for _ in keys])
            body = self.block(inner, depth + 1)
            body["b"].insert(0, SLog(Var(k)))
            s = SForIn(True, k, obj, body)
        elif kind == "forina":
            k = self.fresh("k")
            sc["decl"].append(k)
            arr = Arr([self.int_expr(sc, 1) for _ in range(n)])
            body = self.block(inner, depth + 1)
            body["b"].insert(0, SLog(Var(k)))
            s = SForIn(True, k, arr, body)
        else:
            v = self.fresh("v")
            sc["decl"].append(v)
            inner["ints"] = sc["ints"] + [v]
            s = SForOf(True, v, Arr([self.int_expr(sc, 1) for _ in range(n)]), self.block(inner, depth + 1))
        if isinstance(s, list):
            pre, loop = s
            return SBlock([pre, SLabel(lab, loop) if lab else loop])
        return SLabel(lab, s) if lab else s

    def switch(self, sc, depth):
        inner = dict(sc, breakable=True)
        cases = []
        vals = self.r.sample(range(0, 5), self.r.randrange(1, 4))
        for v in vals:
            body = [self.stmt(inner, depth + 1) for _ in range(self.r.randrange(0, 3))]
            if self.chance(0.6):
                body.append(SBreak())
            cases.append(Case(Num(v), body))
        if self.chance(0.6):
            body = [self.stmt(inner, depth + 1)]
            if self.chance(0.5):
                body.append(SBreak())
            cases.insert(self.r.randrange(0, len(cases) + 1), Case(NoE, body))
        return SSwitch(self.int_expr(sc, 1), cases)

    def try_stmt(self, sc, depth):
        e = self.fresh("e")
        inner = dict(sc, tries=sc["tries"] + 1)
        b = self.block(inner, depth + 1)
        k = self.r.randrange(3)
        csc = dict(sc, ints=sc["ints"] + [e])
        c = SBlock([SLog(Var(e))] + self.block(csc, depth + 1, self.r.randrange(0, 2))["b"]) if k != 1 else NoS
        f = SBlock([SLog(Num(self.r.randrange(90, 100)))] + self.block(sc, depth + 1, self.r.randrange(0, 2))["b"]) if k != 0 else NoS
        return STry(b, e, c, f)

    def array_stmt(self, sc, depth):
        a = self.pick(sc["arrs"])
        k = self.r.randrange(3)
        if k == 0:
            return SExpr(Call(Dot(Var(a), "push"), [self.int_expr(sc)]))
        x = self.fresh("x")
        inner = dict(sc, ints=sc["ints"] + [x], infn=True, loops=0, breakable=False, labels=[], looplabels=[], tries=0,
                     decl=[], calls=sc["calls"] - 1, arrw=False)
        body = [self.stmt(inner, depth + 1) for _ in range(self.r.randrange(1, 3))]
        body = self.with_decls(inner, body) + [SRet(self.int_expr(inner, 1))]
        fn = Fun("", [x], body) if self.chance(0.7) else Arrow([x], body)
        if k == 1:
            return SExpr(Call(Dot(Var(a), "forEach"), [fn]))
        return SLog(Dot(Call(Dot(Var(a), "map"), [fn]), "length"))

    def with_decls(self, sc, body):
        """declare (and initialise) the counters and loop variables the body uses"""
        ds = [(x, Num(0)) for x in sc["decl"] if not x.startswith(("i", "k", "v"))]
        return ([SVar(*ds)] if ds else []) + body

    # ---- functions and program ---------------------------------------------------------------
    def function(self, name, kind):
        n = self.r.randrange(1, 4)
        params = [self.fresh("p") for _ in range(n)]
        locs = [self.fresh("a") for _ in range(self.r.randrange(0, 3))]
        sc = {"ints": params + locs + self.globals, "mut": params + locs + self.globals, "arrs": list(self.garrs),
              "loops": 0, "breakable": False, "labels": [], "looplabels": [], "infn": True, "tries": 0, "decl": [],
              "calls": 2}
        body = []
        if kind == "rec":
            # params[0] is the recursion depth: the recursive call happens only while it is positive
            rest = [self.int_expr(sc, 1) for _ in params[1:]]
            body.append(SIf(Bin(">", Var(params[0]), Num(0)),
                            SBlock([SLog(Var(params[0])),
                                    SExpr(Asg(locs[0] if locs else params[-1], Call(Var(name), [Bin("-", Var(params[0]), Num(1))] + rest)))])))
            sc["mut"] = [x for x in sc["mut"] if x != params[0]]
        body += [self.stmt(sc, 1) for _ in range(self.r.randrange(1, 4))]
        body.append(SRet(self.int_expr(sc, 1)))
        decls = [SVar(*[(x, Num(self.r.randrange(0, 5))) for x in locs])] if locs else []
        body = decls + self.with_decls(sc, body)
        if self.forms and kind != "rec" and self.chance(0.35):
            body = self.leading_loop(params) + body
        return SFun(name, params, body), len(params)

    def leading_loop(self, params):
        """a while loop over the first parameter as the very first code of the function (its test is the first instruction
        of the compiled unit); the body sees parameters and globals only (the locals are not initialised yet) and every
        counter it needs is the parameter itself; bounded whatever the argument is"""
        c = params[0]
        n = self.r.randrange(1, 4)
        lab = self.fresh("L") if self.chance(0.4) else None
        sc = {"ints": params + self.globals, "mut": [x for x in params[1:]] + self.globals, "arrs": [], "loops": 1, "breakable": False,
              "labels": [lab] if lab else [], "looplabels": [lab] if lab else [], "infn": True, "tries": 0, "decl": [], "calls": 0}
        stmts = [SExpr(Upd("++", False, c))]
        for _ in range(self.r.randrange(1, 3)):
            k = self.r.random()
            if k < 0.5:
                stmts.append(SIf(self.bool_expr(sc), SBlock([self.pick([SCont(), SCont(lab) if lab else SCont(), SBreak()])])))
            elif k < 0.7:
                stmts.append(SSwitch(Var(c), [Case(Num(self.r.randrange(0, 3)), [SCont()]), Case(NoE, [SLog(Var(c))])]))
            else:
                stmts.append(SLog(self.int_expr(sc, 1)))
        stmts.append(SLog(Var(c)))
        loop = SWhile(And(Bin("<", Var(c), Num(n)), Bin(">", Var(c), Num(-1))), SBlock(stmts))
        return [SLabel(lab, loop) if lab else loop]

    def closure_maker(self, name):
        """mk(p): a pair of closures over one captured variable; returns an object {g, s}"""
        p = self.fresh("p")
        v = self.fresh("w")
        cap = self.pick([p, v])
        a = self.fresh("q")
        sc = {"ints": [p, v, a] + self.globals, "mut": [cap] + self.globals, "arrs": [], "loops": 0, "breakable": False,
              "labels": [], "looplabels": [], "infn": True, "tries": 0, "decl": [], "calls": 0}
        if self.forms and self.chance(0.6):
            return self.closure_maker_forms(name, p, v, a, sc)
        setter = Fun("", [a], [SExpr(Asg(cap, self.int_expr(sc, 1))), SRet(Var(cap))])
        getter = Fun("", [], [SRet(Bin("+", Var(cap), Var(v)))])
        return SFun(name, [p], [SVar((v, self.int_expr({**sc, "ints": [p] + self.globals, "mut": []}, 1))),
                                SRet(Obj(["g", "s"], [getter, setter]))])

    def closure_maker_forms(self, name, p, v, a, sc):
        """the same pair of closures with the maker and the closures in a random construction form; an expression-bodied
        maker has no local: both closures work on the parameter"""
        def fn(form, params, x):
            return Fun("", params, [SRet(x)]) if form == 0 else Arrow(params, [SRet(x)]) if form == 1 else XArrow(params, x)
        mform = self.r.randrange(4)                     # declaration, function expression, arrow, expression-bodied arrow
        cap = p if mform == 3 else self.pick([p, v])
        sc = dict(sc, ints=[p, a] + self.globals if mform == 3 else sc["ints"], mut=[cap] + self.globals)
        setter = fn(self.r.randrange(3), [a], Comma([Asg(cap, self.int_expr(sc, 1)), Var(cap)]))
        getter = fn(self.r.randrange(3), [], Bin("+", Var(cap), Var(p if mform == 3 else v)))
        pair = Obj(["g", "s"], [getter, setter])
        if mform == 3:
            return SVar((name, XArrow([p], pair)))
        body = [SVar((v, self.int_expr({**sc, "ints": [p] + self.globals, "mut": []}, 1))), SRet(pair)]
        if mform == 0:
            return SFun(name, [p], body)
        return SVar((name, Fun("", [p], body) if mform == 1 else Arrow([p], body)))

    def program(self):
        self.globals = [self.fresh("g") for _ in range(self.r.randrange(1, 4))]
        self.garrs = [self.fresh("arr") for _ in range(self.r.randrange(0, 2))]
        head = [SVar(*[(g, Num(self.r.randrange(0, 5))) for g in self.globals])]
        for a in self.garrs:
            head.append(SVar((a, Arr([Num(self.r.randrange(0, 5)) for _ in range(self.r.randrange(0, 3))]))))
        fdecls = []
        nf = self.r.randrange(1, 4)
        for j in range(nf):
            name = self.fresh("f")
            kind = "rec" if self.chance(0.3) else "plain"
            self.budget = 3
            d, n = self.function(name, kind)
            fdecls.append(d)
            self.funcs.append((name, n, kind))
        main = []
        objs = []
        if self.chance(0.6):
            mk = self.fresh("mk")
            d = self.closure_maker(mk)
            (head if d["s"] == "var" else fdecls).append(d)      # a maker held by a variable must exist before the calls
            for _ in range(self.r.randrange(1, 3)):
                o = self.fresh("o")
                objs.append(o)
                main.append(SVar((o, Call(Var(mk), [Num(self.r.randrange(0, 5))]))))
        sc = {"ints": list(self.globals), "mut": list(self.globals), "arrs": list(self.garrs), "loops": 0, "breakable": False,
              "labels": [], "looplabels": [], "infn": False, "tries": 0, "decl": [], "calls": 2, "arrw": True}
        self.budget = 6
        for _ in range(self.r.randrange(2, 6)):
            if objs and self.chance(0.3):
                o = self.pick(objs)
                main.append(SLog(Call(Dot(Var(o), self.pick(["g", "s"])), [self.int_expr(sc, 1)])))
            else:
                main.append(self.stmt(sc, 0))
        main = self.with_decls(sc, main)
        # function declarations may stand before or after the code that calls them (hoisting)
        if self.chance(0.5):
            body = head + fdecls + main
        else:
            body = head + main + fdecls
        body.append(SExpr(Var(self.globals[0])))         # completion value of the script
        return Prog(body)


def random_program(rnd, throwy=False, forms=False):
    return Gen(rnd, throwy=throwy, forms=forms).program()


# ------------------------------------------------------------------------------------------------
# Closure-heavy programs for C15: many locals, parameters, captured and pass-through variables,
# named function expressions, `arguments`, several activations.  All data values are integers;
# closures live in variables whose names start with "h" and are only called.
# ------------------------------------------------------------------------------------------------
class ClosureGen:
    NAMES = ["alpha", "beta", "gamma", "delta", "eps", "zeta", "eta", "theta", "iota", "kappa", "lam", "mu", "nu", "xi",
             "omi", "pi", "rho", "sigma", "tau", "ups", "phi", "chi", "psi", "omega"]

    def __init__(self, rnd):
        self.r = rnd
        self.uid = 0

    def fresh(self, p=None):
        self.uid += 1
        return "%s%d" % (p or self.r.choice(self.NAMES), self.uid)

    def int_expr(self, ints, depth=0):
        if depth >= 2 or not ints or self.r.random() < 0.3:
            return Num(self.r.randrange(0, 10)) if (not ints or self.r.random() < 0.4) else Var(self.r.choice(ints))
        return Bin(self.r.choice(["+", "-"]), self.int_expr(ints, depth + 1), self.int_expr(ints, depth + 1))

    def function(self, depth, outer_ints, name=""):
        """returns a Fun expression: params, locals, inner closures (some exported into the global array G), returns an int"""
        params = [self.fresh() for _ in range(self.r.randrange(0, 4))]
        locs = [self.fresh() for _ in range(self.r.randrange(1, 6))]
        own = params + locs
        ints = own + outer_ints
        body = [SVar(*[(x, self.int_expr(params + outer_ints, 1)) for x in locs])]
        hs = []
        for _ in range(self.r.randrange(0, 3) if depth < 2 else 0):
            h = self.fresh("h")
            fname = self.fresh("nf") if self.r.random() < 0.3 else ""
            inner = self.function(depth + 1, ints, fname)
            if self.r.random() < 0.3 and not fname:
                inner_decl = SFun(h, inner["params"], inner["body"])
                body.append(inner_decl)
            else:
                body.append(SVar((h, inner)))
            hs.append((h, len(inner["params"])))
        for _ in range(self.r.randrange(1, 5)):
            k = self.r.random()
            if k < 0.35:
                body.append(SExpr(Asg(self.r.choice(ints), self.int_expr(ints))))
            elif k < 0.5:
                body.append(SExpr(Upd(self.r.choice(["++", "--"]), self.r.random() < 0.5, self.r.choice(ints))))
            elif k < 0.65:
                body.append(SLog(self.int_expr(ints)))
            elif k < 0.8 and hs:
                h, n = self.r.choice(hs)
                body.append(SLog(Call(Var(h), [self.int_expr(ints, 1) for _ in range(n)])))
            elif k < 0.9 and hs:
                h, n = self.r.choice(hs)
                body.append(SExpr(Call(Dot(Var("G"), "push"), [Var(h)])))
                self.exported.append(n)
            elif k < 0.95:
                body.append(SLog(Dot(Var("arguments"), "length")))
            else:
                body.append(SLog(Cond(Bin(">", Dot(Var("arguments"), "length"), Num(0)), Mem(Var("arguments"), Num(0)), Num(-1 + 1))))
        if name and self.r.random() < 0.5:
            body.append(SLog(Un("typeof", Var(name))))
        body.append(SRet(self.int_expr(ints)))
        return Fun(name, params, body)

    def program(self):
        self.exported = []
        gl = [self.fresh() for _ in range(self.r.randrange(1, 4))]
        body = [SVar(("G", Arr([]))), SVar(*[(g, Num(self.r.randrange(0, 5))) for g in gl])]
        tops = []
        for _ in range(self.r.randrange(1, 4)):
            name = self.fresh("top")
            f = self.function(0, gl)
            body.append(SFun(name, f["params"], f["body"]))
            tops.append((name, len(f["params"])))
        for _ in range(self.r.randrange(2, 5)):
            name, n = self.r.choice(tops)
            nargs = n if self.r.random() < 0.7 else self.r.randrange(n, n + 3)          # extra arguments are visible in `arguments`
            body.append(SLog(Call(Var(name), [Num(self.r.randrange(0, 10)) for _ in range(nargs)])))
        # call what the activations exported, in a shuffled order, some of them twice
        calls = []
        for i, n in enumerate(self.exported[:6]):
            calls.append(SIf(Bin(">", Dot(Var("G"), "length"), Num(i)),
                             SBlock([SLog(Call(Mem(Var("G"), Num(i)), [Num(self.r.randrange(0, 10)) for _ in range(n)]))])))
        calls = calls + calls[:2]
        self.r.shuffle(calls)
        body += calls
        body.append(SExpr(Var(gl[0])))
        return Prog(body)


def closure_program(rnd):
    return ClosureGen(rnd).program()
