------------------------------ MODULE LastIndex ------------------------------
(* Layer I: the lastIndex protocol as the engine implements it - the value is kept twice     *)
(* (script-visible property `prop` on values.py JSRegExp, field `intl` on regex/regex.py     *)
(* RegExp); exec/test copy prop -> intl, run, copy intl -> prop; an assignment from script    *)
(* writes prop only.  `li` is the single lastIndex of the reference protocol (RegexApi).     *)
(* TLC checks, over every history up to MaxLen of every configuration of the catalogue:      *)
(*   Sync     the two copies agree at every return from exec/test                             *)
(*   Refines  the two-copy implementation shows script code the reference's lastIndex         *)
(*   Range    after exec/test on a global or sticky regex lastIndex is an integer in 0..len   *)
(*   Reset    a failed exec/test on a global or sticky regex leaves 0                         *)
(*   Frame    a regex that is neither global nor sticky never writes lastIndex                *)
(*   Advance  a successful exec on a global/sticky regex leaves the end of the match, which   *)
(*            is >= the position the search started from                                      *)
EXTENDS RegexApi

CONSTANT MaxLen
VARIABLES cf,        \* [p, fl, s]: indexes into the catalogue
          li,        \* reference lastIndex (RegexApi)
          prop, intl, \* the implementation's two copies
          last,      \* [op, res, start]: the last operation, its result and the position it started from
          hlen
vars == <<cf, li, prop, intl, last, hlen>>

Init == /\ cf \in [p : 1..Len(Patterns), fl : 1..Len(FlagSets), s : 1..Len(Subjects)]
        /\ li = VInt(0) /\ prop = VInt(0) /\ intl = VInt(0)
        /\ last = [op |-> "new", res |-> ObsNull, start |-> 0] /\ hlen = 0
rx == RxOf(cf.p, FlagSets[cf.fl])
subj == Subjects[cf.s]
Uses == rx.g \/ rx.y

\* exec / test: reference step on li; implementation step = sync in, run on the private copy, sync out
Call(op) ==
  LET ref == ExecAt(rx, subj, li, {})
      run == ExecAt(rx, subj, prop, {})              \* JSRegExp.exec: self._internal.lastIndex = self.lastIndex; run
  IN /\ li' = ref.li
     /\ intl' = run.li                                \* RegExp.exec writes its own field ...
     /\ prop' = run.li                                \* ... JSRegExp copies it back
     /\ last' = [op |-> op, res |-> ref.res, start |-> IF Uses THEN ToLengthV(li) ELSE 0]
Assign(op) == /\ li' = AssignVal(op, Len(subj)) /\ prop' = AssignVal(op, Len(subj)) /\ UNCHANGED intl       \* script writes the property only
              /\ last' = [op |-> op, res |-> ObsNull, start |-> 0]
Read == /\ UNCHANGED <<li, prop, intl>> /\ last' = [op |-> "read", res |-> ObsNull, start |-> 0]
Next == /\ hlen < MaxLen /\ hlen' = hlen + 1 /\ UNCHANGED cf
        /\ \/ Call("exec") \/ Call("test") \/ Read \/ \E op \in AssignOps : Assign(op)
Spec == Init /\ [][Next]_vars

LiTypeOK == /\ li.k \in {"num", "str"} /\ prop.k \in {"num", "str"} /\ intl.k \in {"num", "str"} /\ hlen \in 0..MaxLen
Sync == last.op \in {"exec", "test"} => prop = intl
Refines == prop = li
Range == (last.op \in {"exec", "test"} /\ Uses) => (IsIntVal(li) /\ IntOf(li) >= 0 /\ IntOf(li) <= Len(subj))
Reset == (last.op \in {"exec", "test"} /\ Uses /\ last.res.k = "null") => li = VInt(0)
Advance == (last.op \in {"exec", "test"} /\ Uses /\ last.res.k = "m") =>
              /\ IntOf(li) = last.res.i + Len(last.res.g[1])
              /\ last.res.i >= last.start /\ (rx.y => last.res.i = last.start)
Frame == [][~Uses /\ last'.op \in {"exec", "test", "read"} => li' = li]_vars
\* a global regex walked with exec from 0 visits matches in increasing order and ends with null within len + 2 calls,
\* unless it sits on an empty match (then lastIndex does not move: the caller must advance, as @@match / @@replace do)
Progress == (last.op = "exec" /\ Uses /\ last.res.k = "m" /\ last.res.g[1] # <<>>) => IntOf(li) > last.start
=============================================================================
