------------------------------ MODULE TimeLimit ------------------------------
(* Layer I: how the deadline is enforced (vm.py VM._check_limits, the regex VM's poll, *)
(* the nested interpreter loops), as a state machine over a VIRTUAL clock that advances *)
(* one tick per interpreter instruction or regex step.                                  *)
(*                                                                                      *)
(* loops  : host-level stack of running loops: "main" (VM._execute), "cb" (nested loop   *)
(*          for callbacks/accessors/conversions), "vm2" (nested VM of eval/Function),     *)
(*          "re" (regex matcher), "sub" (lookahead/lookbehind sub-matcher).               *)
(* ic     : VM instruction counter (shared by main, cb and - since the fix - vm2 loops);  *)
(*          the clock is read when ic reaches a multiple of PV.                           *)
(* rc     : regex step counter of the running regex call (shared by its attempts and      *)
(*          sub-matchers - since the fix); the clock is read at the start of every regex  *)
(*          call and when rc reaches a multiple of PR.                                    *)
(* Deviation switches reproduce the engine BEFORE the fixes, to show the invariant is not  *)
(* vacuous: FreshVm2 (nested VM restarts clock and counter), FreshAttempt (each regex      *)
(* attempt restarts its counter, no poll at call entry), Catchable (a script handler can   *)
(* intercept the limit error), Unpolled (kinds of instruction before which _check_limits  *)
(* is skipped: a "poll only at safepoints" interpreter; {} in the engine as built - every  *)
(* cycle of the interpreter contains a control transfer, and a cycle whose only transfer   *)
(* is of an unpolled kind never reads the clock).                                          *)
EXTENDS Naturals, Integers, Sequences, TLC

CONSTANTS PV, PR,          \* poll intervals (1000 and 100 in the code)
          D,               \* deadline in ticks
          MaxNest,         \* bound on nesting of loops
          FreshVm2, FreshAttempt, Catchable,
          Unpolled         \* subset of Kinds

VARIABLES now, loops, ic, rc, lateV, lateR, status, handler, vmStart
vars == <<now, loops, ic, rc, lateV, lateR, status, handler, vmStart>>
\* vmStart: start time the innermost VM compares against (0 unless FreshVm2 restarted it)

Top == loops[Len(loops)]
Expired(start) == now - start > D
Horizon == D + 2 * PV * (PR + 1) + 4          \* the model's clock saturates here (keeps the state space finite)
Tick == IF now < Horizon THEN now + 1 ELSE now

Init == /\ now = 0 /\ loops = <<"main">> /\ ic = 0 /\ rc = 0 /\ lateV = 0 /\ lateR = 0
        /\ status = "run" /\ handler \in BOOLEAN /\ vmStart = 0

Raise == /\ IF Catchable /\ handler THEN status' = "caught" ELSE status' = "timelimit"
         /\ UNCHANGED <<now, loops, ic, rc, lateV, lateR, handler, vmStart>>

\* kinds of VM instruction: the control transfers that can close a cycle (backward jump, call, method call, construction,
\* iterator step) and everything else
Kinds == {"plain", "jump", "call", "method", "new", "iter"}
\* one VM instruction in a main / cb / vm2 loop: _check_limits, then the instruction
StepVM == /\ status = "run" /\ Top \in {"main", "cb", "vm2"}
          /\ \E k \in Kinds :
             LET polled == k \notin Unpolled
                 c == IF polled THEN ic + 1 ELSE ic IN
             IF polled /\ c % PV = 0 /\ Expired(vmStart) THEN Raise
             ELSE /\ ic' = c % PV /\ now' = Tick
                  /\ lateV' = IF now > D THEN lateV + 1 ELSE lateV
                  /\ UNCHANGED <<loops, rc, lateR, status, handler, vmStart>>
\* one regex step
StepRE == /\ status = "run" /\ Top \in {"re", "sub"}
          /\ LET c == rc + 1 IN
             IF c % PR = 0 /\ Expired(0) THEN Raise
             ELSE /\ rc' = c % PR /\ now' = Tick
                  /\ lateR' = IF now > D THEN lateR + 1 ELSE lateR
                  /\ UNCHANGED <<loops, ic, lateV, status, handler, vmStart>>
\* a native of the running loop starts another loop.  Entering costs a step of the running loop (the instruction
\* that invokes the native, or the regex step that starts a lookaround), so no behaviour can spin on Enter/Exit
\* without the clock advancing and the counters moving towards their next poll.
Enter(k) == /\ status = "run" /\ Len(loops) < MaxNest
            /\ \/ Top \in {"main", "cb", "vm2"} /\ k \in {"cb", "vm2", "re"}
               \/ Top \in {"re", "sub"} /\ k = "sub"
            /\ LET vmTop == Top \in {"main", "cb", "vm2"}
                   c == IF vmTop THEN ic + 1 ELSE rc + 1
                   pollNow == IF vmTop THEN c % PV = 0 /\ Expired(vmStart) ELSE c % PR = 0 /\ Expired(0)
               IN IF pollNow THEN Raise
                  ELSE IF k = "re" /\ ~FreshAttempt /\ Expired(0) THEN Raise           \* poll at regex call entry
                  ELSE /\ loops' = Append(loops, k)
                       /\ now' = Tick
                       /\ lateV' = IF vmTop /\ now > D THEN lateV + 1 ELSE lateV
                       /\ lateR' = IF ~vmTop /\ now > D THEN lateR + 1 ELSE lateR
                       /\ rc' = IF k = "re" THEN 0 ELSE IF vmTop THEN rc ELSE c % PR
                       /\ ic' = IF k = "vm2" /\ FreshVm2 THEN 0 ELSE IF vmTop THEN c % PV ELSE ic
                       /\ vmStart' = IF k = "vm2" /\ FreshVm2 THEN now ELSE vmStart
                       /\ UNCHANGED <<status, handler>>
\* a regex call starts its next attempt (search at the next position)
NextAttempt == /\ status = "run" /\ Top = "re"
               /\ rc' = IF FreshAttempt THEN 0 ELSE rc
               /\ UNCHANGED <<now, loops, ic, lateV, lateR, status, handler, vmStart>>
Exit == /\ status = "run" /\ Len(loops) > 1
        /\ loops' = SubSeq(loops, 1, Len(loops) - 1)
        /\ vmStart' = 0            \* back in the outer VM (at most one fresh vm2 level matters for the bound)
        /\ UNCHANGED <<now, ic, rc, lateV, lateR, status, handler>>
Finish == /\ status = "run" /\ Len(loops) = 1 /\ status' = "done"
          /\ UNCHANGED <<now, loops, ic, rc, lateV, lateR, handler, vmStart>>

Next == StepVM \/ StepRE \/ (\E k \in {"cb", "vm2", "re", "sub"} : Enter(k)) \/ NextAttempt \/ Exit \/ Finish
Spec == Init /\ [][Next]_vars /\ WF_vars(Next)
\* Liveness: every evaluation ends - it finishes, or it is stopped.  Checked WITHOUT a state constraint (the clock
\* saturates at Horizon and counters are kept modulo their poll interval, so the model is finite): a constraint
\* could hide a non-progress cycle such as a loop that never polls.
Termination == <>(status # "run")
\* once stopped, an evaluation stays stopped (no handler brings it back to life)
StaysStopped == [][status = "timelimit" => status' = "timelimit"]_vars

\* once the deadline has passed at most one poll interval of each kind is executed
LateBound == lateV <= PV /\ lateR <= PR
\* the limit error is never intercepted by a script handler
NeverCaught == status # "caught"
\* a value is returned only by an evaluation that finished: after the deadline + one poll interval nothing is running
NoLateFinish == status = "done" => (lateV <= PV /\ lateR <= PR)
TypeOK == status \in {"run", "done", "timelimit", "caught"} /\ Len(loops) >= 1
=============================================================================
