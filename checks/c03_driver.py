"""C03 driver: internal-name vs fresh-name pairs, observable-value kinds, returned values."""
import glob, os, json, inspect
from harness import wire

RECV = {
    "number": "1.5", "string": "'str'", "boolean": "true", "null": "null", "undefined": "undefined",
    "object": "({a:1})", "array": "[1,2]", "typedarray": "new Int32Array(2)", "arraybuffer": "new ArrayBuffer(4)",
    "function": "(function fn(a){ return a })", "boundfn": "(function(){ return 1 }).bind(null)",
    "nativemethod": "[].push", "constructor": "Object", "regex": "/a/g", "error": "new Error('x')",
    "arguments": "(function(){ return arguments })(1,2)", "Math": "Math", "JSON": "JSON", "hostfn": "hostfn",
    "protoless": "Object.create(null)", "arrow": "(() => 1)", "stringmethod": "'s'.charAt",
}
FORMS = {
    "read": "R[n]", "call": "R[n]()", "write_read": "(R[n] = 5, R[n])", "delete": "delete R[n]", "in": "n in R",
    "forin": "(function(){ var ks=[]; for (var k in R) ks.push(k); return ks.indexOf(n) })()",
    "keys": "Object.keys(R).indexOf(n)", "stringify": "JSON.stringify(R)", "typeof": "typeof R[n]",
    "instanceof": "R[n] instanceof Object", "new": "new R[n]()", "as_prototype": "Object.create(R)[n]",
    "hasOwn": "R.hasOwnProperty(n)", "getOwnDesc": "typeof Object.getOwnPropertyDescriptor(R, n)",
    "compound": "(R[n] += 1, typeof R[n])", "update": "(R[n]++, typeof R[n])",
    "defineProperty": "(Object.defineProperty(R, n, {get: function(){ return 7 }}), R[n])",
}
CALL_FORMS = {"call", "new"}
# prelude of the probe programs: K(tag, v...) classifies every value given; CB is a callback that reports this and all arguments
PROBE_PRE = ("function K(tag){ for (var i=1;i<arguments.length;i++) __kind(tag, arguments[i]); if (arguments.length<2) __kind(tag) } "
             "function CBT(tag, ret){ return function(){ __kind(tag + ' this', this); for (var i=0;i<arguments.length;i++) __kind(tag + ' arg', arguments[i]); "
             "if (arguments.length>0) { var a0 = arguments[0]; __kind(tag + ' arg', a0) } return ret } } "
             "function EACH(tag, r){ __kind(tag, r); if (r && typeof r === 'object') { for (var k in r) __kind(tag + ' member', r[k]); "
             "if (typeof r.length === 'number') for (var i=0;i<r.length;i++) __kind(tag + ' element', r[i]) } } ")

MASK = "«NAME»"


def harvest():
    """every attribute name of every class of the engine, instance attributes of live objects, the dunder vocabulary"""
    import microjs, microjs.values as V, microjs.vm as VM, microjs.context as C, microjs.compiler as K
    names = set()
    for mod in (V, VM, C, K):
        for _, cls in inspect.getmembers(mod, inspect.isclass):
            if getattr(cls, "__module__", "").startswith("microjs"):
                names.update(dir(cls))
                names.update(getattr(cls, "__annotations__", {}).keys())
    ctx = microjs.Context()
    probe = ctx.eval
    for expr in RECV.values():
        if expr == "hostfn":
            continue
        box = []
        ctx.set("__grab", lambda v: box.append(v))
        try:
            ctx.eval("__grab(%s)" % expr)
        except Exception:
            continue
        for v in box:
            names.update(getattr(v, "__dict__", {}).keys())
            names.update(dir(v))
    names.update(dir(object)); names.update(dir(type)); names.update(dir(lambda: 0)); names.update(dir(ctx))
    names.update(["__globals__", "__builtins__", "__code__", "__closure__", "__subclasses__", "__mro__", "__bases__",
                  "__import__", "__loader__", "__spec__", "__file__", "func_globals", "gi_frame", "f_globals", "f_back",
                  "bytecode", "constants", "co_consts", "mro", "im_func", "__self__", "__func__", "__wrapped__"])
    return sorted(n for n in names if isinstance(n, str) and n)


def project(out, name):
    """what a script (or the embedder) can observe of an outcome, with the property name masked"""
    def mask(s):
        return s.replace(name, MASK)
    if out["o"] == "value":
        v = out["v"]
        k = v["k"]
        if k in ("num", "bool", "undef", "null"):
            p = wire.show(v)
        elif k == "str":
            p = mask(wire.from_units(v["u"]))
        elif k == "arr":
            p = "arr%d" % len(v["e"])
        else:
            p = ""
        return {"o": "value", "k": k, "p": p}
    if out["o"] == "throw":
        return {"o": "throw", "k": out["cls"], "p": ""}
    # host exception: only its type is compared (the site string may contain the property name by coincidence)
    return {"o": out["o"], "k": out.get("type", "none") if out["o"] == "host" else "none", "p": ""}


ERRCLS = ("function __cls(e){ if (e instanceof TypeError) return 'TypeError'; if (e instanceof ReferenceError) return 'ReferenceError';"
          " if (e instanceof RangeError) return 'RangeError'; if (e instanceof SyntaxError) return 'SyntaxError';"
          " if (e instanceof Error) return 'Error'; return 'thrown-value' }")


def run_form(api, recv, form, name):
    ctx = api.new_context(time_limit=5.0)
    calls = []
    ctx.set("hostfn", lambda *a: (calls.append([wire.to_wire(x)["k"] for x in a]), 1)[1])
    got = []
    ctx.set("__out", lambda *a: (got.append(a), None)[1])
    ctx.set("n", name)
    if form == "read_dot":
        expr = "R.%s" % name
    else:
        expr = FORMS[form]
    src = ERRCLS + " var R = %s; try { __out('v', %s) } catch (e) { __out('t', __cls(e)) }" % (RECV[recv], expr)
    out = api.eval_outcome(ctx, src, wall=20.0, cap=500_000)
    if out["o"] == "value":
        if len(got) != 1:
            out = {"o": "host", "type": "NoOutcome", "where": "driver"}
        elif got[0][0] == "v":
            out = {"o": "value", "v": wire.to_wire(got[0][1])}
        else:
            out = {"o": "throw", "cls": str(got[0][1])}
    bad_args = [k for c in calls for k in c if k in ("hostval",)]
    return out, len(calls), bad_args


def render_probe(q):
    """program for one probe record of C03.tla!Probes (prelude PROBE_PRE defines K, CBT, EACH)"""
    fam = q["fam"]
    t = "'" + "/".join("%s" % q[k] for k in sorted(q) if k != "fam").replace("\\", "\\\\").replace("'", "\\'") + "'"
    if fam == "cb":
        api, recv, ret = q["api"], q["recv"], q["ret"]
        if api in ("reduce", "reduceRight"):
            return "var R = %s; EACH(%s, R.%s(CBT(%s, %s))); EACH(%s, R.%s(CBT(%s, %s), undefined));" % (recv, t, api, t, ret, t, api, t, ret)
        return "var R = %s; EACH(%s, R.%s(CBT(%s, %s))); EACH(%s, R.%s(CBT(%s, %s), null)); EACH(%s, R);" % (recv, t, api, t, ret, t, api, t, ret, t)
    if fam == "iter":
        loop, mut = q["loop"], q["mut"]
        isarr = loop in ("forin_arr", "forof_arr", "forEach", "map", "some", "reduce")
        recv = "[10, 20, 30, 40]" if isarr else ("Object.create({p1: 1, p2: 2})" if loop == "forin_proto" else "({a: 1, b: 2, c: 3, d: 4})")
        if loop == "forof_str":
            recv = "'wxyz'"
        m_obj = {"none": "", "delete_first": "delete R.a;", "delete_middle": "delete R.b; delete R.c;", "delete_last": "delete R.d;",
                 "delete_all": "delete R.a; delete R.b; delete R.c; delete R.d;", "delete_next": "delete R.b;", "pop": "delete R.d;",
                 "shift": "delete R.a;", "truncate": "delete R.c; delete R.d;", "splice_tail": "delete R.c; delete R.d;",
                 "add_key": "R.zz = 9;", "push": "R.yy = 8;"}
        m_arr = {"none": "", "delete_first": "R.shift();", "delete_middle": "R.splice(1, 2);", "delete_last": "R.pop();", "delete_all": "R.length = 0;",
                 "delete_next": "R.splice(1, 1);", "pop": "R.pop();", "shift": "R.shift();", "truncate": "R.length = 1;", "splice_tail": "R.splice(2);",
                 "add_key": "R.zz = 9;", "push": "if (R.length < 8) R.push(50);"}
        mt = "" if loop == "forof_str" else (m_arr if isarr else m_obj)[mut]
        if loop == "forin_proto" and mut.startswith("delete"):
            mt = "delete Object.getPrototypeOf(R).p2; delete R.own;"
        once = "if (n++ == 0) { %s }" % mt if mt else "n++;"
        body = {"forin_obj": "for (var k in R) { %s K(T, k, R[k]); }", "forin_proto": "R.own = 5; for (var k in R) { %s K(T, k, R[k]); }",
                "forin_arr": "for (var k in R) { %s K(T, k, R[k]); }", "forof_arr": "for (var x of R) { %s K(T, x); }",
                "forof_str": "for (var x of R) { %s K(T, x); }",
                "forEach": "R.forEach(function (x, i, a) { %s K(T, x, i, a[i]); });", "map": "EACH(T, R.map(function (x, i) { %s K(T, x, i); return x; }));",
                "some": "K(T, R.some(function (x, i) { %s K(T, x, i); return false; }));",
                "reduce": "K(T, R.reduce(function (acc, x, i) { %s K(T, acc, x, i); return x; }));"}[loop] % once
        return "var T = %s; var R = %s; var n = 0; try { %s } catch (e) { K(T, e) } EACH(T, R);" % (t, recv, body)
    if fam == "text":
        mk, val = q["mk"], q["val"]
        lit = js_quote(val)
        e = {"eval": "eval(%s)" % lit, "ieval": "(1, eval)(%s)" % lit, "Function": "new Function('return ' + %s)()" % lit,
             "eval_in_fn": "(function () { return eval(%s) })()" % lit, "eval_in_eval": "eval('eval(' + %s + ')')" % js_quote(lit),
             "JSON.parse": "JSON.parse(JSON.stringify(eval(%s)) || 'null')" % lit, "eval_via_var": "(function () { var e = eval; return e(%s) })()" % lit,
             "eval_call": "eval.call(null, %s)" % lit}[mk]
        return ("var T = %s; try { var v = %s; EACH(T, v); K(T, [v][0], {p: v}.p, typeof v, v === undefined, v === null); "
                "if (v && typeof v === 'object') { for (var k in v) EACH(T, v[k]); K(T, Object.keys(v), Array.isArray(v)) } } catch (e) { K(T, e) }" % (t, e))
    if fam == "rxu":
        api, pat, fl, subj = q["api"], q["pat"], q["fl"], q["subj"]
        body = {"exec": "var m = R.exec(S); EACH(T, m); if (m) K(T, m.index, m.input, R.lastIndex);",
                "exec_twice": "R.exec(S); var m = R.exec(S); EACH(T, m); if (m) K(T, m.index, m.input); K(T, R.lastIndex);",
                "match": "var m = S.match(R); EACH(T, m); if (m) K(T, m.index, m.input); K(T, R.lastIndex);",
                "replace_fn": "K(T, S.replace(R, CBT(T, 'z')), R.lastIndex);", "search": "K(T, S.search(R), R.lastIndex);",
                "split": "EACH(T, S.split(R)); K(T, R.lastIndex);", "test_lastIndex": "K(T, R.test(S), R.lastIndex, R.test(S), R.lastIndex);",
                "matchdetached": "var e = R.exec; var m = e(S); EACH(T, m); if (m) K(T, m.index);"}[api]
        return "var T = %s; try { var R = new RegExp('%s', '%s'); var S = '%s'; %s } catch (e) { K(T, e) }" % (t, pat.replace("\\", "\\\\"), fl, subj, body)
    if fam == "rebind":
        name, val, trig = q["name"], q["val"], q["trig"]
        tr = {"null_read": "null.x", "undeclared": "zzUndeclared + 1", "repeat_neg": "'a'.repeat(-1)", "bad_regex": "new RegExp('(')",
              "call_number": "(5)()", "new_number": "new (5)()", "bad_length": "[].length = -1", "json_bad": "JSON.parse('[')",
              "array_literal": "[1, [2]].concat([3]).map(function (x) { return x })", "object_literal": "({a: {b: 1}}).a.b",
              "string_method": "'abc'.split('b').join('-').toUpperCase()", "number_method": "(255).toString(16) + (1.5).toFixed(1)",
              "regex_literal": "/a(b)?/.exec('ab')", "function_literal": "(function (a) { return arguments.length }).call(null, 1, 2)",
              "for_in": "(function () { var ks = []; for (var k in {p: 1, q: 2}) ks.push(k); return ks })()", "plus_string": "1 + {} + [] + null"}[trig]
        return ("var T = %s; var SAVED = %s; try { %s = %s; } catch (e0) { K(T, e0) } var out; try { out = %s; EACH(T, out); } catch (e) { K(T, e); "
                "if (e && typeof e === 'object') K(T, e.message, e.name, e.stack) } try { %s = SAVED; } catch (e1) { }" % (t, name, name, val, tr, name))
    if fam == "rxcb":
        api, pat, subj = q["api"], q["pat"], q["subj"]
        if api == "replace_strpat":
            return "EACH(%s, '%s'.replace('%s', CBT(%s, 'z')));" % (t, subj, subj[:1], t)
        return "EACH(%s, '%s'.%s(/%s/g, CBT(%s, 'z'))); EACH(%s, '%s'.replace(/%s/, CBT(%s, undefined)));" % (t, subj, api, pat, t, t, subj, pat, t)
    if fam == "rxres":
        api, pat, subj = q["api"], q["pat"], q["subj"]
        e = {"exec": "/%s/.exec('%s')", "match": "'%(s)s'.match(/%(p)s/)", "match_g": "'%(s)s'.match(/%(p)s/g)",
             "split": "'%(s)s'.split(/%(p)s/)", "split_lim": "'%(s)s'.split(/%(p)s/, 3)", "search": "'%(s)s'.search(/%(p)s/)",
             "test": "/%(p)s/.test('%(s)s')", "exec_g_twice": "(function(){ var r = /%(p)s/g; r.exec('%(s)s'); var m = r.exec('%(s)s'); K(%(t)s, r.lastIndex); return m })()",
             "exec_y": "(function(){ var r = /%(p)s/y; var m = r.exec('%(s)s'); K(%(t)s, r.lastIndex, r.source, r.flags); return m })()"}[api]
        e = e % {"s": subj, "p": pat, "t": t} if "%(" in e else e % (pat, subj)
        return "var m = %s; EACH(%s, m); if (m) { K(%s, m.index, m.input, m.groups); if (m.groups) EACH(%s, m.groups) }" % (e, t, t, t)
    if fam == "conv":
        u = q["use"]
        o = "({valueOf: CBT(%s, 1), toString: CBT(%s, 's')})" % (t, t)
        body = {"plus": "K(%s, +O, -O, O * 2)", "concat": "K(%s, '' + O, O + 'x', O + 1)", "join": "K(%s, [O, O].join('-'))",
                "sort_default": "EACH(%s, [O, O, 3].sort())", "compare": "K(%s, O < 2, O == 1, O >= O)", "index": "K(%s, ({s: 5})[O], 'abc'[O], [7,8][O])",
                "String": "K(%s, String(O), 'a'.concat(O), 'abc'.indexOf(O))", "Number": "K(%s, Number(O), Math.abs(O), parseInt(O), isNaN(O))",
                "getter": "var G = { get p(){ return CBT(%s, 2).call(this) } }; K(%s, G.p)",
                "setter": "var G = { set p(v){ CBT(%s, 2).call(this, v) } }; K(%s, (G.p = 5), G.p)",
                "defprop_get": "var G = {}; Object.defineProperty(G, 'p', {get: CBT(%s, 2)}); K(%s, G.p, Object.create(G).p)",
                "defprop_set": "var G = {}; Object.defineProperty(G, 'p', {set: CBT(%s, 2)}); K(%s, (G.p = 5), G.p)",
                "in_loop": "for (var k in {a: 1}) { K(%s, k, +O) } for (var x of [O]) { K(%s, x, '' + x) }"}[u]
        return "var O = %s; %s;" % (o, body.replace("%s", t))
    if fam == "callf":
        f = q["form"]
        body = {"plain": "K(T, F(1, undefined))", "method": "var h = {m: F}; K(T, h.m(1), h['m']())", "call_undef": "K(T, F.call(undefined, 1), F.call())",
                "call_null": "K(T, F.call(null, 1))", "call_prim": "K(T, F.call(5, 1), F.call('s'), F.call(true))", "call_obj": "K(T, F.call({a: 1}, undefined, null))",
                "apply_undef": "K(T, F.apply(undefined), F.apply(undefined, undefined), F.apply(null, null))", "apply_arr": "K(T, F.apply({}, [1, undefined, null, [2]]))",
                "apply_none": "K(T, F.apply())", "bind": "K(T, F.bind()(1), F.bind(null)(), F.bind(undefined)(2))", "bind_args": "K(T, F.bind({}, 1, undefined)(null, 3))",
                "new": "K(T, new F(), new F)", "new_args": "K(T, new F(1, undefined, null))", "arrow": "var A = (a, b) => { K(T, a, b, this); return a }; K(T, A(1), A.call({}, 2), A.apply(null, [3]))"}[f]
        return "var T = %s; var F = CBT(T, 9); %s;" % (t, body)
    if fam == "none":
        u = q["use"]
        body = {"result": "K(T, hostnone(), hostnone(1, 2))", "call": "K(T, hostnone.call(null), hostnone.call())", "apply": "K(T, hostnone.apply(null, [1]), hostnone.apply())",
                "bind": "K(T, hostnone.bind(null)(), hostnone.bind()(1))", "map": "EACH(T, [1, 2].map(hostnone))", "forEach": "K(T, [1].forEach(hostnone))",
                "filter": "EACH(T, [1, 2].filter(hostnone))", "reduce": "K(T, [1, 2].reduce(hostnone), [1].reduce(hostnone, 0))", "sort": "EACH(T, [2, 1, 3].sort(hostnone))",
                "find": "K(T, [1].find(hostnone), [1].findIndex(hostnone), [1].some(hostnone), [1].every(hostnone))",
                "replace": "K(T, 'aba'.replace(/a/, hostnone), 'aba'.replace('a', hostnone))", "replaceAll": "K(T, 'aba'.replaceAll(/a/g, hostnone), 'aba'.replace(/a/g, hostnone))",
                "stringify": "K(T, JSON.stringify({a: 1}, hostnone), JSON.stringify([1], hostnone))", "parse": "K(T, JSON.parse('[1,{\"a\":2}]', hostnone))",
                "new": "K(T, new hostnone(), new hostnone(1))", "getter": "var G = {}; Object.defineProperty(G, 'p', {get: hostnone}); K(T, G.p, [G.p], G.p === undefined)",
                "setter": "var G = {}; Object.defineProperty(G, 'p', {set: hostnone}); K(T, (G.p = 1), G.p)", "valueOf": "K(T, +{valueOf: hostnone}, 1 + {valueOf: hostnone})",
                "toString": "K(T, '' + {toString: hostnone}, [{toString: hostnone}].join())", "toJSON": "K(T, JSON.stringify({toJSON: hostnone}), JSON.stringify([{toJSON: hostnone}]))",
                "nested_arg": "K(T, [hostnone()], {a: hostnone()}.a, (function(a){ return a })(hostnone()))", "in_array": "EACH(T, [hostnone(), 1, hostnone()])",
                "in_object": "EACH(T, {a: hostnone(), b: [hostnone()]})", "conditional": "K(T, hostnone() ? 1 : 2, hostnone() || 'd', hostnone() && 1, hostnone() === undefined, typeof hostnone())",
                "return": "K(T, (function(){ return hostnone() })(), (() => hostnone())())"}[u]
        return "var T = %s; try { %s } catch (e) { K(T, e) }" % (t, body)
    if fam == "json":
        u = q["use"]
        body = {"reviver": "EACH(T, JSON.parse('{\"a\":[1,null,{\"b\":true}],\"c\":\"s\"}', function(k, v){ K(T, this, k, v); return v }))",
                "replacer_fn": "K(T, JSON.stringify({a: [1, undefined, null], f: function(){}, u: undefined}, function(k, v){ K(T, this, k, v); return v }))",
                "replacer_arr": "K(T, JSON.stringify({a: 1, b: {a: 2, c: 3}}, ['a', 'b']))", "toJSON": "K(T, JSON.stringify({toJSON: CBT(T, 5)}), JSON.stringify({k: {toJSON: CBT(T, undefined)}}))",
                "toJSON_nested": "K(T, JSON.stringify([{toJSON: CBT(T, [1])}, new Date(0)]))", "indent": "K(T, JSON.stringify({a: [1]}, null, 2), JSON.stringify({a: 1}, undefined, '--'), JSON.stringify(undefined), JSON.stringify(function(){}))"}[u]
        return "var T = %s; try { %s } catch (e) { K(T, e) }" % (t, body)
    raise ValueError(fam)


def js_quote(text):
    return "'" + text.replace("\\", "\\\\").replace("'", "\\'") + "'"


def is_ident(s):
    import re
    return re.match(r"^[A-Za-z_$][A-Za-z0-9_$]*$", s) is not None and s not in (
        "class", "new", "delete", "in", "typeof", "var", "function", "return", "this", "null", "true", "false", "if", "else",
        "for", "while", "do", "break", "continue", "switch", "case", "default", "throw", "try", "catch", "finally",
        "instanceof", "void", "with", "debugger", "const", "let", "enum", "export", "import", "super", "extends", "yield",
        "static", "await", "async", "of", "get", "set")


def driver(case, api):
    k = case["kind"]
    if k == "harvest":
        return {"id": case["id"], "names": harvest()}
    if k == "pairs":
        recv, form = case["recv"], case["form"]
        res = []
        for i, name in enumerate(case["names"]):
            if form == "read_dot" and not is_ident(name):
                continue
            fresh = case["fresh"][i % len(case["fresh"])]
            a, ca, bad_a = run_form(api, recv, form, name)
            b, cb, bad_b = run_form(api, recv, form, fresh)
            res.append({"id": "%s|%s|%s" % (recv, form, name), "kind": "pair", "a": project(a, name), "b": project(b, fresh),
                        "hostcalls_a": ca, "hostcalls_b": cb, "calls_expected": (recv == "hostfn" and form in CALL_FORMS),
                        "bad_args": bad_a + bad_b})
        return res
    if k == "trace":
        # run a corpus script with an observer that classifies every value that becomes observable
        seen = {}
        V = __import__("microjs.values", fromlist=["x"])
        VMm = __import__("microjs.vm", fromlist=["x"])

        def kind_of(v):
            if isinstance(v, (VMm.ForInIterator, VMm.ForOfIterator)):
                return "hostval:iterator"
            w = wire.to_wire(v, depth=11)      # shallow
            return w["k"] if w["k"] != "hostval" else "hostval:" + w.get("t", "")

        PRODUCERS = {"LOAD_LOCAL", "LOAD_NAME", "LOAD_CELL", "LOAD_CLOSURE", "GET_PROP", "CALL", "CALL_METHOD", "NEW",
                     "RETURN", "RETURN_UNDEFINED", "THIS"}
        prev = [None]
        tcache = set()

        def obs(kind, vm, op, arg, frame, _):
            if kind not in ("main", "cb"):
                return
            nm = op.name
            st = vm.stack
            # the value the previous instruction produced (a variable / property read, the result of a call to script or
            # built-in code): from here on the script holds it.  Cached by host type: one classification per type and producer.
            pv = prev[0]
            prev[0] = nm
            if pv in PRODUCERS and st:
                v = st[-1]
                tk = (type(v), pv)
                if tk not in tcache:
                    tcache.add(tk)
                    kk = kind_of(v)
                    if (kk, "after " + pv) not in seen:
                        seen[(kk, "after " + pv)] = 1
            vals = ()
            if nm in ("STORE_NAME", "STORE_LOCAL", "STORE_CELL", "STORE_CLOSURE", "RETURN", "THROW") and st:
                vals = (st[-1],)
            elif nm == "SET_PROP" and len(st) >= 3:
                vals = (st[-1], st[-2])
            elif nm in ("CALL", "NEW") and arg is not None and len(st) >= arg + 1:
                vals = tuple(st[len(st) - arg - 1:])
            elif nm == "CALL_METHOD" and arg is not None and len(st) >= arg + 2:
                vals = tuple(st[len(st) - arg - 2:])
            elif nm == "BUILD_ARRAY" and arg:
                vals = tuple(st[len(st) - arg:])
            elif nm == "BUILD_OBJECT" and arg:
                vals = tuple(st[len(st) - 3 * arg + 2::3])
            for v in vals:
                kk = kind_of(v)
                if (kk, nm) not in seen:
                    seen[(kk, nm)] = 1
        ctx = api.new_context(time_limit=20.0)
        ctx.set("hostfn", lambda *a: 1)
        orig = api.steps.reset

        def reset_and_hook(*a, **k2):
            orig(*a, **k2)
            api.steps.user = obs
        api.steps.reset = reset_and_hook
        try:
            out = api.eval_outcome(ctx, case["src"], wall=60.0, cap=3_000_000)
        finally:
            api.steps.reset = orig
            api.steps.user = None
        res = [{"id": case["id"], "kind": "trace", "seen": [{"k": a, "at": b} for (a, b) in sorted(seen)], "o": out["o"]}]
        if out["o"] == "value":
            res.append({"id": case["id"] + "#ret", "kind": "ret", "v": prune(out["v"])})
        return res
    if k == "ret_probe":
        # every receiver kind handed to the embedder through eval and through get, bare and nested
        res = []
        for name, expr in RECV.items():
            for form, src, getname in (("eval", "var G = %s; G" % expr, None), ("get", "var G = %s; 0" % expr, "G"),
                                       ("nested", "var G = %s; ({a: [G], b: G})" % expr, None)):
                ctx = api.Context(time_limit=5.0)
                ctx.set("hostfn", lambda *a: 1)
                try:
                    v = ctx.eval(src)
                    if getname:
                        v = ctx.get(getname)
                    w = embed_wire(v)
                except Exception as e:
                    w = {"k": "none"}       # an exception instead of a value: C04 judges its class, not C03
                res.append({"id": "ret:%s:%s" % (name, form), "kind": "ret", "v": embed_ok(prune(w))})
        return res
    if k == "probe":
        # a generated program hands every value under test to __kind (classified on the host side, exactly)
        ctx = api.new_context(time_limit=10.0)
        kinds = {}
        hc = [0]
        ctx.set("hostfn", lambda *a: (hc.__setitem__(0, hc[0] + 1), 1)[1])
        ctx.set("hostnone", lambda *a: (hc.__setitem__(0, hc[0] + 1), None)[1])
        ctx.set("__kind", lambda tag, v=None, *rest: (kinds.setdefault((str(tag), kind_name(v)), 1), None)[1])
        out = api.eval_outcome(ctx, PROBE_PRE + case["src"], wall=60.0, cap=5_000_000)
        if case.get("nocalls") and hc[0]:
            # the script of this probe never calls the host function: its having run is reported as an observation TLC rejects
            kinds[("host function ran %d time(s) without a call" % hc[0], "hostval:uncalled host function ran")] = 1
        return [{"id": case["id"], "kind": "trace", "seen": [{"k": kk, "at": tag} for (tag, kk) in sorted(kinds)], "o": out["o"],
                 "src": case["src"], "info": (out.get("type", "") + " " + out.get("msg", ""))[:120]}]
    if k == "call_grid":
        # every function-valued property found on the receiver (candidate names from the spec's list + harvest),
        # called with argument vectors over the value kinds: the kind of every result a script can hold
        recv = case["recv"]
        ARGS = ["undefined", "null", "1", "'ab'", "true", "({k:1})", "[1,2]", "(function(){ return 1 })", "-1", "'0'"]
        ctx = api.new_context(time_limit=10.0)
        ctx.set("hostfn", lambda *a: 1)
        kinds = {}
        ctx.set("__kind", lambda tag, v: (kinds.setdefault((tag, kind_name(v)), 1), None)[1])
        ctx.set("__names", list(case["names"]))
        src = ("var R = %s; var A = [%s]; var fns = []; for (var i=0;i<__names.length;i++) { var nm=__names[i]; var f; "
               "try { f = R[nm] } catch (e) { continue } if (typeof f === 'function') fns.push(nm) } "
               "for (var i=0;i<fns.length;i++) { var nm = fns[i]; "
               "for (var a=-1;a<A.length;a++) for (var b=-1;b<(a<0?0:A.length);b++) { "
               "var R2 = %s; try { var r = (a<0) ? R2[nm]() : (b<0) ? R2[nm](A[a]) : R2[nm](A[a], A[b]); __kind(nm, r) } catch (e) { __kind(nm, e) } } "
               # the same function installed as an accessor and as a conversion method: what a read / write / conversion yields
               "try { var h = {}; Object.defineProperty(h, 'p', {get: R[nm], set: R[nm]}); __kind(nm + ' as getter', h.p); __kind(nm + ' as setter', (h.p = 1)) } catch (e) { __kind(nm + ' as accessor', e) } "
               "try { var h2 = {valueOf: R[nm], toString: R[nm]}; __kind(nm + ' as valueOf', +h2); __kind(nm + ' as toString', '' + h2) } catch (e) { __kind(nm + ' as conversion', e) } "
               "} fns.length"
               % (RECV[recv], ",".join(ARGS), RECV[recv]))
        out = api.eval_outcome(ctx, src, wall=60.0, cap=30_000_000)
        return [{"id": "callgrid:%s" % recv, "kind": "trace", "seen": [{"k": kk, "at": tag} for (tag, kk) in sorted(kinds)],
                 "o": out["o"], "nfns": out.get("v", {}).get("w") if out["o"] == "value" else None}]
    raise ValueError(k)


def kind_name(v):
    w = wire.to_wire(v, depth=11)
    return w["k"] if w["k"] != "hostval" else "hostval:" + w.get("t", "")


def embed_ok(w):
    return w


def embed_wire(v, depth=0):
    """classify a value handed to the embedder: JSON-like Python data, handles of JavaScript objects/functions, or
    an exposed host callable are fine; anything else (bytearray, interpreter structures, ...) is a host value"""
    import microjs.values as V
    if v is None:
        return {"k": "null"}
    if isinstance(v, (bool, int, float, str)):
        return wire.py_to_wire(v)
    if isinstance(v, (V.JSFunction, V.JSObject)) or v is V.UNDEFINED or v is V.NULL:
        return wire.to_wire(v, depth=10)
    if isinstance(v, list) and depth < 6:
        return {"k": "arr", "e": [embed_wire(x, depth + 1) for x in v[:8]]}
    if isinstance(v, dict) and depth < 6:
        if not all(isinstance(kk, str) for kk in v):
            return {"k": "hostval", "t": "dict with non-string key"}
        return {"k": "obj", "p": [{"n": wire.units(kk)[:20], "v": embed_wire(x, depth + 1)} for kk, x in list(v.items())[:8]]}
    if callable(v) and type(v).__name__ in ("function", "method", "builtin_function_or_method", "JSBoundMethod"):
        return {"k": "native"}
    return {"k": "hostval", "t": type(v).__name__}


def prune(w, depth=0):
    """keep returned structures small for the judge"""
    if w.get("k") == "arr":
        return {"k": "arr", "e": [prune(e, depth + 1) for e in w["e"][:8]]} if depth < 4 else {"k": "arr", "e": []}
    if w.get("k") == "obj":
        return {"k": "obj", "p": [{"n": p["n"][:20], "v": prune(p["v"], depth + 1)} for p in w["p"][:8]]} if depth < 4 else {"k": "obj", "p": []}
    if w.get("k") == "str":
        return {"k": "str", "u": w["u"][:30]}
    if w.get("k") == "tarr":
        return {"k": "tarr", "t": w["t"], "e": w["e"][:8]}
    return w
