-------------------------------- MODULE C15 --------------------------------
(* C15 - evaluation is deterministic and independent of the host's hash randomisation.            *)
(*   Model checking : Slots.tla (all permutations of the set-derived slot lists, wiring by name)     *)
(*   EqJudge  : one record per program with the observations made under PYTHONHASHSEED = 0..N in   *)
(*              separate processes and in shuffled batches inside one process: all outcomes and    *)
(*              logs are equal; the compiled slot layouts are instances of the Slots model's        *)
(*              nondeterministic choice (same fixed prefix params, arguments[, name], the rest a     *)
(*              permutation); for top-level function declarations the sets are the ones the model    *)
(*              computes from the AST (ScopeOK)                                                    *)
(*   Judge    : (from C05) the common observation is the one MiniJS prescribes                      *)
EXTENDS C05

\* ---------------- scope analysis on MiniJS ASTs (what Slots calls Free / Captured / LocalSet) -------------------
\* Fv*(node, own): names referenced by the node; with own = FALSE only the references made by functions nested in it count
RECURSIVE FvE(_, _), FvS(_, _), FvL(_, _), FvEs(_, _)
FunLocals(fn) == {fn.params[j] : j \in 1..Len(fn.params)} \cup {"arguments"} \cup VarNamesL(fn.body) \cup FunDeclNames(fn.body)
                 \cup (IF fn.e = "fun" /\ fn.name # "" /\ ~fn.arrow THEN {fn.name} ELSE {})
FreeOfFun(fn) == FvL(fn.body, TRUE) \ FunLocals(fn)
CapturedOf(fn) == FunLocals(fn) \cap FvL(fn.body, FALSE)
AsFun(s) == [e |-> "fdecl", params |-> s.params, body |-> s.body, name |-> s.name, arrow |-> FALSE]
Own(own, S) == IF own THEN S ELSE {}
FvEs(xs, own) == IF xs = <<>> THEN {} ELSE FvE(Head(xs), own) \cup FvEs(Tail(xs), own)
FvE(x, own) ==
  CASE x.e = "var" -> Own(own, {x.x})
    [] x.e \in {"bin", "logic"} -> FvE(x.l, own) \cup FvE(x.r, own)
    [] x.e = "un" -> FvE(x.x, own)
    [] x.e = "cond" -> FvE(x.c, own) \cup FvE(x.a, own) \cup FvE(x.b, own)
    [] x.e \in {"asg", "casg"} -> Own(own, {x.x}) \cup FvE(x.r, own)
    [] x.e = "upd" -> Own(own, {x.x})
    [] x.e = "mem" -> FvE(x.o, own) \cup (IF x.dot THEN {} ELSE FvE(x.p, own))
    [] x.e = "masg" -> FvE(x.m, own) \cup FvE(x.r, own)
    [] x.e = "mupd" -> FvE(x.m, own)
    [] x.e \in {"call", "new"} -> FvE(x.f, own) \cup FvEs(x.a, own)
    [] x.e = "fun" -> FreeOfFun(x)
    [] x.e \in {"arr", "seq"} -> FvEs(x.a, own)
    [] x.e = "obj" -> FvEs(x.vs, own)
    [] OTHER -> {}
FvL(ss, own) == IF ss = <<>> THEN {} ELSE FvS(Head(ss), own) \cup FvL(Tail(ss), own)
FvS(s, own) ==
  CASE s.s = "expr" -> FvE(s.x, own)
    [] s.s = "var" -> UNION {Own(own, {s.ds[j].x}) \cup FvE(s.ds[j].i, own) : j \in 1..Len(s.ds)}
    [] s.s = "fdecl" -> Own(own, {s.name}) \cup FreeOfFun(AsFun(s))
    [] s.s = "block" -> FvL(s.b, own)
    [] s.s = "if" -> FvE(s.c, own) \cup FvS(s.a, own) \cup FvS(s.b, own)
    [] s.s \in {"while", "dowhile"} -> FvE(s.c, own) \cup FvS(s.b, own)
    [] s.s = "for" -> FvS(s.i, own) \cup FvE(s.c, own) \cup FvE(s.u, own) \cup FvS(s.b, own)
    [] s.s \in {"forin", "forof"} -> Own(own, {s.x}) \cup FvE(s.o, own) \cup FvS(s.b, own)
    [] s.s = "switch" -> FvE(s.d, own) \cup UNION {FvE(s.cs[j].t, own) \cup FvL(s.cs[j].b, own) : j \in 1..Len(s.cs)}
    [] s.s = "label" -> FvS(s.b, own)
    [] s.s \in {"return", "throw"} -> FvE(s.x, own)
    [] s.s = "try" -> FvS(s.b, own) \cup FvS(s.c, own) \cup FvS(s.f, own)
    [] OTHER -> {}

\* ---------------- EqJudge ------------------------------------------------------------------------------------------
\* record: [id, prog (MiniJS AST, or [body |-> <<>>] for corpus scripts), ast (BOOLEAN), obs: sequence of [src, log, out, lay]]
SetOf(sq) == {sq[j] : j \in 1..Len(sq)}
IsPermOf(a, b) == Len(a) = Len(b) /\ SetOf(a) = SetOf(b) /\ Cardinality(SetOf(a)) = Len(a)
\* two layouts of the same program: same functions, same fixed prefix, the rest permuted
SameShape(la, lb) ==
  /\ Len(la) = Len(lb)
  /\ \A j \in 1..Len(la) :
       /\ la[j].name = lb[j].name /\ la[j].np = lb[j].np
       /\ IsPermOf(la[j].locals, lb[j].locals) /\ IsPermOf(la[j].cells, lb[j].cells) /\ IsPermOf(la[j].frees, lb[j].frees)
       /\ LET pre == la[j].np + 1 + (IF la[j].name # "" /\ Len(la[j].locals) > la[j].np + 1 /\ la[j].locals[la[j].np + 2] = la[j].name THEN 1 ELSE 0)
          IN la[j].name = "<program>" \/ (Len(la[j].locals) >= la[j].np + 1 /\ SubSeq(la[j].locals, 1, pre) = SubSeq(lb[j].locals, 1, pre))
\* the lists of a top-level function declaration are the sets the scope analysis prescribes
TopDecls(prog) == {prog.body[j] : j \in {q \in 1..Len(prog.body) : prog.body[q].s = "fdecl"}}
UniqueName(prog, d) == Cardinality({e \in TopDecls(prog) : e.name = d.name}) = 1
RECURSIVE HasTryS(_), HasTryL(_)
HasTryL(ss) == IF ss = <<>> THEN FALSE ELSE HasTryS(Head(ss)) \/ HasTryL(Tail(ss))
HasTryS(s) == CASE s.s = "try" -> TRUE [] s.s = "block" -> HasTryL(s.b) [] s.s = "if" -> HasTryS(s.a) \/ HasTryS(s.b)
                [] s.s \in {"while", "dowhile", "for", "forin", "forof", "label"} -> HasTryS(s.b)
                [] s.s = "switch" -> \E j \in 1..Len(s.cs) : HasTryL(s.cs[j].b) [] OTHER -> FALSE
ScopeOK(prog, lay) ==
  \A d \in TopDecls(prog) :
    (UniqueName(prog, d) /\ ~HasTryL(d.body)) =>
      LET fn == AsFun(d)
          S == {j \in 1..Len(lay) : lay[j].name = d.name /\ lay[j].np = Len(d.params)}
      IN \A j \in S : /\ SetOf(lay[j].locals) = FunLocals(fn)
                      /\ CapturedOf(fn) \subseteq SetOf(lay[j].cells)          \* every captured variable has a cell ...
                      /\ SetOf(lay[j].cells) \subseteq FunLocals(fn)          \* ... and only locals have cells (the engine also gives
                                                                              \* `arguments` one when an inner function mentions its own)
                      /\ lay[j].frees = <<>>
EqVerdict(r) ==
  LET o1 == r.obs[1]
      eq == \A j \in 1..Len(r.obs) : r.obs[j].log = o1.log /\ r.obs[j].out = o1.out
      shp == \A j \in 1..Len(r.obs) : SameShape(o1.lay, r.obs[j].lay)
      scp == ~r.ast \/ \A j \in 1..Len(r.obs) : ScopeOK(r.prog, r.obs[j].lay)
      nlay == Cardinality({r.obs[j].lay : j \in 1..Len(r.obs)})
  IN [id |-> r.id, eq |-> eq, shape |-> shp, scope |-> scp, nlay |-> nlay,
      first |-> IF eq THEN 0 ELSE CHOOSE j \in 1..Len(r.obs) : r.obs[j].log # o1.log \/ r.obs[j].out # o1.out]
EqInit == /\ rec_i \in 1..Len(Recs) /\ cur = <<>> /\ mst = [ctl |-> [m |-> "halt"]]
          /\ PrintT(ToJson(EqVerdict(Recs[rec_i])))
EqNext == UNCHANGED vars
=============================================================================
