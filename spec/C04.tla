-------------------------------- MODULE C04 --------------------------------
(* C04 - eval fails only with JSError: positioned JSSyntaxError or a runtime JSError.  *)
(*   MC    : LexerFSM over all class strings up to length N (three 13-class alphabets):  *)
(*           progress (position strictly increases, at most one epsilon move per          *)
(*           character), position sanity, the deviations explain every difference        *)
(*           between the as-is machine and the reference.                                 *)
(*   Enum  : the same strings (S->C), the adversarial argument vectors of the built-in    *)
(*           grid.                                                                        *)
(*   Judge : token streams / error positions of the real lexer, outcome typing of every   *)
(*           evaluation (front-end soup, corpus prefixes, mutations, built-in grid).      *)
EXTENDS LexerFSM, JsGrammar, JsVal, Json, IOUtils

Tier  == IF "TIER" \in DOMAIN IOEnv THEN IOEnv.TIER ELSE "quick"
Quick == Tier = "quick"
EnvInt(nm, dflt) == IF nm \in DOMAIN IOEnv THEN
                      (CHOOSE nn \in 0..9 : ToString(nn) = IOEnv[nm]) ELSE dflt
\* ---------------- alphabets (13 classes each) -------------------------------------------------
AlphaA == <<"sp", "nl", "g", "1", "q", "Q", "bs", "/", "*", "[", "]", "+", "#">>      \* comments, strings, regex
AlphaB == <<"0", "1", "9", "x", "e", "a", "u", ".", "+", "q", "bs", "{", "}">>         \* numbers, escapes
AlphaC == <<"=", "<", ">", "!", "&", "*", "+", "/", "g", "b", "o", "0", "7">>          \* punctuators, radix prefixes
Alpha(pf) == CASE pf = "A" -> AlphaA [] pf = "B" -> AlphaB [] pf = "C" -> AlphaC
Profiles == IF "PROFILE" \in DOMAIN IOEnv THEN {IOEnv.PROFILE} ELSE {"A", "B", "C"}
MaxLen == EnvInt("MAXLEN", IF Quick THEN 4 ELSE 6)
\* sequences the reference would read as ES2021 tokens the engine does not have (&&= ||=): not generated
HasSubseq(inp, pat) == \E si \in 1..(Len(inp) - Len(pat) + 1) : SubSeq(inp, si, si + Len(pat) - 1) = pat
Supported(inp) == ~HasSubseq(inp, <<"&", "&", "=">>)

\* ---------------- model checking + enumeration of class strings ------------------------------
VARIABLES ph, pf, inp, rec_i
vars == <<ph, pf, inp, rec_i>>
McInit == ph = "build" /\ pf \in Profiles /\ inp = <<>> /\ rec_i = 0
McNext ==
  /\ ph = "build"
  /\ \/ /\ Len(inp) < MaxLen
        /\ \E ci \in 1..13 : inp' = Append(inp, Alpha(pf)[ci])
        /\ UNCHANGED <<ph, pf, rec_i>>
     \/ /\ ph' = "done" /\ UNCHANGED <<pf, inp, rec_i>>
\* laws of the machine on every complete input, pure-lexer mode and regex-aware mode, reference and as-is
DevsExplain2(rf, ai) == ai.fired = {} => (ai.out = rf.out /\ ai.err = rf.err)
McLaws == ph = "done" =>
            LET r1 == Lex(inp, FALSE, {})  r2 == Lex(inp, TRUE, {})  r3 == Lex(inp, FALSE, LexDevs)  r4 == Lex(inp, TRUE, LexDevs) IN
            /\ ResultSane(inp, r1) /\ ResultSane(inp, r2) /\ ResultSane(inp, r3) /\ ResultSane(inp, r4)
            /\ DevsExplain2(r1, r3) /\ DevsExplain2(r2, r4)
            /\ r1.fired = {} /\ r2.fired = {}
\* an error, once raised, is final and lies at or before the current position (checked on every prefix too)
McPrefix == ph = "build" => LET st == RunFrom(St0(TRUE), inp, {}) IN st.pos = Len(inp) /\ st.mxi <= 1
McEmit == ph # "done" \/ ~Supported(inp) \/ inp = <<>> \/ PrintT(ToJson([kind |-> "cls", pf |-> pf, cls |-> inp]))

\* ---------------- the argument grid of the built-in check -----------------------------------
ArgClasses == <<"undefined", "null", "nan", "inf", "ninf", "m1", "zero", "p31", "p53", "e21", "half", "s7", "sx", "obj", "arr", "fn">>
QuickArgClasses == <<"undefined", "null", "nan", "inf", "m1", "zero", "p31", "e21", "half", "s7", "sx", "obj", "arr", "fn">>
ArgSet == LET sq == IF Quick THEN QuickArgClasses ELSE ArgClasses IN {sq[ai] : ai \in 1..Len(sq)}
ArgVectors == {<<>>} \cup {<<xa>> : xa \in ArgSet} \cup {<<xa, ya>> : xa \in ArgSet, ya \in ArgSet}
Huge == {"p31", "p53", "e21"}
\* calls that legitimately allocate memory proportional to a numeric argument are not made with huge arguments
Allocating == {"repeat", "Array", "ArrayBuffer", "Int8Array", "Uint8Array", "Uint8ClampedArray", "Int16Array", "Uint16Array",
               "Int32Array", "Uint32Array", "Float32Array", "Float64Array", "padStart", "padEnd", "fill", "from", "constructor"}
CallSupported(fname, args) == ~(fname \in Allocating /\ \E ai \in 1..Len(args) : args[ai] \in Huge)
GridInit == ph = "start" /\ pf = "" /\ inp = <<>> /\ rec_i = 0
GridNext == ph = "start" /\ ph' = "vec" /\ (\E av \in ArgVectors : inp' = av) /\ UNCHANGED <<pf, rec_i>>
GridEmit == ph # "vec" \/ PrintT(ToJson([kind |-> "vec", pf |-> "", cls |-> inp]))

\* ---------------- token sequences over the expression vocabulary (S->C, acceptor) ---------------------------
\* Bound <= 4: within it JsGrammar!ParseStmtsD covers every ECMAScript program over this vocabulary (arrow functions
\* with two parameters and destructuring patterns need more tokens).
ExprVocab == <<"a", "b", "1", "+", "-", "*", "**", "=", "+=", "++", "!", "typeof", "new", "this", "(", ")", "[", "]", ",", ".",
               "?", ":", "=>", ";", "in">>
TokMax == IF Quick THEN 3 ELSE 4
RECURSIVE SeqsUpTo(_)
SeqsUpTo(nn) == IF nn = 0 THEN {<<>>} ELSE LET sm == SeqsUpTo(nn - 1) IN sm \cup {Append(sq, ExprVocab[vi]) : sq \in sm, vi \in 1..Len(ExprVocab)}
TokInit == ph = "tstart" /\ pf = "" /\ inp = <<>> /\ rec_i = 0
TokNext == \/ ph = "tstart" /\ ph' = "tfirst" /\ (\E vi \in 1..Len(ExprVocab) : inp' = <<ExprVocab[vi]>>) /\ UNCHANGED <<pf, rec_i>>
           \/ ph = "tfirst" /\ ph' = "tseq" /\ (\E sq \in SeqsUpTo(TokMax - 1) : inp' = inp \o sq) /\ UNCHANGED <<pf, rec_i>>
TokEmit == ph # "tseq" \/ PrintT(ToJson([kind |-> "toks", pf |-> "", cls |-> inp]))
\* the acceptor is total, answers with a token index, and accepts a program followed by a separator
TokLaw == ph = "tseq" => LET res == ParseStmtsD(inp, {}) IN
            /\ (res.ok => res.at = 0) /\ (~res.ok => res.at >= 1 /\ res.at <= Len(inp) + 1)
            /\ (res.ok => ParseStmtsD(inp \o <<";">>, {}).ok)                     \* a trailing separator never hurts
            /\ (res.ok => ParseStmtsD(inp, ParserDevs).ok)                        \* the as-is parser accepts a superset

\* ---------------- Judge ------------------------------------------------------------------------
\* records: [id, kind, cls, toks, lex, out, lens, fname, args]
\*   lex  = [o: "tokens" | "syntax" | other, line, col]      what Lexer(src).tokenize() did   (kind "cls")
\*   toks = tokens of the real lexer as [k, line, col]
\*   out  = [o, line, col, steps, type, where]               what Context.eval(src) did (steps = interpreter steps executed)
\*   lens = line lengths of the source                        (position sanity for arbitrary text)
Recs == ndJsonDeserialize(IOEnv.OBS_FILE)
Pass == [v |-> "pass", dev |-> "", why |-> ""]
Mis(dv, wy) == [v |-> "mismatch", dev |-> dv, why |-> wy]
PickDev(fs) == IF fs = {} THEN "" ELSE CHOOSE dd \in fs : TRUE
PosSaneL(lens, line, col) == line >= 1 /\ line <= Len(lens) /\ col >= 1 /\ col <= lens[line] + 1

\* host exceptions that are recorded findings.  Identity = (exception type, innermost engine frame file:function,
\* kind of case, built-in name, argument classes that reach it); each deviation is one root cause.
AnyArg == {"*"}
HostSites == {
  [dev |-> "Dev_ToPythonCycle", type |-> "RecursionError", where |-> {"context.py:_to_python", "context.py:<dictcomp>", "context.py:<listcomp>"},
   kinds |-> {"call", "src", "cls"}, fnames |-> AnyArg, args |-> AnyArg],
  [dev |-> "Dev_ArrayLengthArg", type |-> "TypeError", where |-> {"context.py:constructor_fn"},
   kinds |-> {"call"}, fnames |-> {"ArrayBuffer"}, args |-> {"undefined", "null", "obj", "arr", "fn"}],
  [dev |-> "Dev_ArrayLengthArg", type |-> "ValueError", where |-> {"context.py:constructor_fn", "values.py:__init__"},
   kinds |-> {"call"}, fnames |-> {"ArrayBuffer"}, args |-> {"nan", "sx", "m1"}],
  [dev |-> "Dev_ArrayLengthArg", type |-> "OverflowError", where |-> {"context.py:constructor_fn", "values.py:__init__"},
   kinds |-> {"call"}, fnames |-> {"ArrayBuffer"}, args |-> {"inf", "ninf"}],
  [dev |-> "Dev_ArrayLengthArg", type |-> "OverflowError", where |-> {"context.py:array_constructor", "values.py:__init__"},
   kinds |-> {"call"}, fnames |-> {"Array", "constructor"}, args |-> {"inf", "ninf"}],
  [dev |-> "Dev_ArrayLengthArg", type |-> "ValueError", where |-> {"context.py:array_constructor", "values.py:__init__"},
   kinds |-> {"call"}, fnames |-> {"Array", "constructor"}, args |-> {"nan", "m1"}],
  [dev |-> "Dev_ArrayLengthArg", type |-> "MemoryError", where |-> {"values.py:__init__"},
   kinds |-> {"call"}, fnames |-> {"Array", "ArrayBuffer", "constructor"}, args |-> {"m1", "ninf"}],
  [dev |-> "Dev_CompilerSyntaxError", type |-> "SyntaxError", where |-> {"compiler.py:_compile_statement"},
   kinds |-> {"src", "cls"}, fnames |-> AnyArg, args |-> AnyArg],
  [dev |-> "Dev_ToPrimitiveBound", type |-> "TypeError", where |-> {"vm.py:_to_primitive"},
   kinds |-> {"call", "src", "cls"}, fnames |-> AnyArg, args |-> AnyArg],
  [dev |-> "Dev_RegExpError", type |-> "RegExpError", where |-> {"parser.py:parse", "parser.py:_parse_alternative", "parser.py:_parse_escape",
                                                                "parser.py:_parse_atom", "parser.py:_parse_quantifier", "parser.py:_parse_group",
                                                                "parser.py:_parse_char_class", "parser.py:_parse_term", "parser.py:_parse_disjunction"},
   kinds |-> {"call", "src", "cls"}, fnames |-> AnyArg, args |-> AnyArg]
}
HostDevOf(r) ==
  LET S == {hs \in HostSites :
              /\ r.out.o = "host" /\ hs.type = r.out.type /\ r.out.where \in hs.where /\ r.kind \in hs.kinds
              /\ (hs.fnames = AnyArg \/ r.fname \in hs.fnames)
              /\ (hs.args = AnyArg \/ \E ai \in 1..Len(r.args) : r.args[ai] \in hs.args)}
  IN IF S = {} THEN "" ELSE (CHOOSE hs \in S : TRUE).dev

\* typing of an evaluation outcome.  A JSSyntaxError raised before the first interpreter step is a front-end
\* error and must carry a position inside the source text (or at its end); one raised while running (JSON.parse,
\* new RegExp, eval of a string) is a runtime error of the JSError family.
Typing(r, lens) ==
  LET out == r.out IN
  IF ~InJSErrorFamily(out) THEN Mis(HostDevOf(r), "outcome outside the JSError family")
  ELSE IF out.o = "syntax" /\ out.steps = 0 /\ ~PosSaneL(lens, out.line, out.col) THEN Mis("", "syntax error position outside the source")
  ELSE Pass

\* does the real lexer's answer match a run of the machine ?
LexMatches(cls, lex, toks, st) ==
  IF st.err.k = "none" THEN lex.o = "tokens" /\ toks = st.out
  ELSE lex.o = "syntax" /\ ErrPosOK(cls, st.err, lex.line, lex.col)
\* must the whole program be rejected because of the lexical error the regex-aware machine finds ?
\*  R1: no '/' token was produced before the error and the error is not about a regular expression
\*  R2: the unterminated regular expression is the first token of the program
MustReject(st) ==
  /\ st.err.k # "none" /\ st.err.lenient = ""
  /\ IF st.err.k = "unterminated-regex" THEN st.out = <<>>
     ELSE \A ti \in 1..Len(st.out) : st.out[ti].k \notin {"/", "/=", "regex"}
JudgeCls(r) ==
  LET ref == Lex(r.cls, FALSE, {})
      lens == [li \in 1..(1 + NlCount(r.cls)) |->
                 LET starts == LineStarts(r.cls) IN
                 (IF li < Len(starts) THEN starts[li + 1] - 1 ELSE Len(r.cls)) - starts[li]]
      ty == Typing(r, lens) IN
  IF ~LexMatches(r.cls, r.lex, r.toks, ref)
  THEN LET asis == Lex(r.cls, FALSE, LexDevs) IN
       IF r.lex.o \notin {"tokens", "syntax"} THEN Mis("", "lexer raised a host exception")
       ELSE IF asis.fired # {} /\ LexMatches(r.cls, r.lex, r.toks, asis) THEN Mis(PickDev(asis.fired), "lexer: as-is rule")
       ELSE IF ref.err.k # "none" /\ ref.err.lenient # "" /\ r.lex.o = "tokens" THEN Mis(ref.err.lenient, "lexer: malformed text accepted (opaque deviation)")
       ELSE IF asis.err.k # "none" /\ asis.err.lenient # "" /\ r.lex.o = "tokens" THEN Mis(asis.err.lenient, "lexer: malformed text accepted (opaque deviation)")
       ELSE Mis("", IF ref.err.k = "none" THEN "token stream differs" ELSE "lexical error not reported at the offending token")
  ELSE IF ty.v # "pass" THEN ty
  ELSE LET rx == Lex(r.cls, TRUE, {}) IN
       IF MustReject(rx) /\ r.out.o # "syntax"
       THEN LET ax == Lex(r.cls, TRUE, LexDevs) IN
            IF ax.err.k = "none" /\ ax.fired # {} THEN Mis(PickDev(ax.fired), "malformed source accepted")
            ELSE Mis("", "malformed source accepted")
       ELSE IF MustReject(rx) /\ OffsetOf(r.cls, r.out.line, r.out.col) > EolOf(r.cls, rx.err.s1) + 1
       THEN Mis("", "error reported after the offending token")
       ELSE Pass

JudgeSrc(r) == Typing(r, r.lens)
\* text of a token sequence = tokens joined by one blank: 0-based offset of the end of token ti (end of text beyond the last)
RECURSIVE TokStart(_, _)
TokStart(ts, ti) == IF ti <= 1 THEN 0 ELSE TokStart(ts, ti - 1) + Len(ts[ti - 1]) + 1
TokEndOff(ts, ti) == IF ti > Len(ts) THEN TokStart(ts, Len(ts)) + Len(ts[Len(ts)]) ELSE TokStart(ts, ti) + Len(ts[ti])
JudgeToks(r) ==
  LET ty == Typing(r, r.lens)
      ref == ParseStmtsD(r.toks, {}) IN
  IF ty.v # "pass" THEN ty
  ELSE IF ref.ok THEN Pass                  \* the engine may implement a subset: acceptance of valid text is not demanded here
  ELSE IF r.out.o = "syntax"
       THEN IF r.out.steps = 0 /\ r.out.line = 1 /\ r.out.col - 1 <= TokEndOff(r.toks, ref.at) THEN Pass
            ELSE Mis("", "syntax error reported after the first token that cannot continue a program")
  ELSE LET S1 == {dd \in ParserDevs : ParseStmtsD(r.toks, {dd}).ok} IN
       IF S1 # {} THEN Mis(CHOOSE dd \in S1 : TRUE, "malformed token sequence accepted (as-is parser rule)")
       ELSE IF ParseStmtsD(r.toks, ParserDevs).ok THEN Mis(CHOOSE dd \in ParserDevs : TRUE, "malformed token sequence accepted (as-is parser rules)")
       ELSE Mis("", "malformed token sequence accepted")
JudgeCall(r) ==
  IF ~CallSupported(r.fname, r.args) THEN [v |-> "unsupported", dev |-> "", why |-> "allocating call with a huge argument"]
  ELSE Typing(r, <<0>>)

Verdict(r) ==
  CASE r.kind = "cls" -> JudgeCls(r)
    [] r.kind = "src" -> JudgeSrc(r)
    [] r.kind = "call" -> JudgeCall(r)
    [] r.kind = "toks" -> JudgeToks(r)
    [] OTHER -> [v |-> "unsupported", dev |-> "", why |-> "unknown kind"]
JudgeInit == /\ rec_i \in 1..Len(Recs) /\ ph = "judge" /\ pf = "" /\ inp = <<>>
             /\ LET r == Recs[rec_i]  vd == Verdict(r)
                IN PrintT(ToJson([id |-> r.id, v |-> vd.v, dev |-> vd.dev, why |-> vd.why]))
JudgeNext == UNCHANGED vars
=============================================================================
