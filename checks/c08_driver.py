"""C08 drivers (run inside the engine child, see harness/engine_child.py).

hist_driver : replays one history of ObjModel operations on ONE fresh Context (objects live in the
              global variables o1..o3, Fp, Gp) and evaluates the observation battery after the steps
              it is asked to observe.  It renders and records; it computes no expectation.
call_driver : one cell of the call-form x function-kind product.

Value encoding (the C08 wire format, mirrored in spec/ObjModel.tla): "u" undefined, "null", "n7",
"'text", "true"/"false", "@o1" (identity mapped back to the global that holds the object), "fn:F",
"[x,y]" arrays, "!TypeError" a caught throw (class by instanceof).
"""
import json
from harness.drivers import ERRS

LIST_OBS = ("keys", "values", "entries", "forin")
NAMES = ["o1", "o2", "o3", "Fp", "Gp", "OP", "FnP"]
FN_NAMES = ["F", "G"]
RELINK = ("setproto", "lit", "create", "fproto")

CLS = ("function __cls(e){"
       + "".join("if (e instanceof %s) return '%s';" % (n, n) for n in ERRS)
       + "return 'value:' + typeof e; }\n")

SETUP = CLS + """
var ka = 'a'; var kb = 'b';
var g2 = function(){ return ['g2', this]; };
var s2 = function(v){ this.s = 's2:' + v; };
function F(v){ if (v !== undefined) this.b = v; }
function G(v){ F.call(this, v); }
Object.setPrototypeOf(G.prototype, F.prototype);
var Fp = F.prototype; var Gp = G.prototype; var OP = Object.prototype; var FnP = Object.getPrototypeOf(F);
var o1; var o2; var o3;
function __forin(o){ var r = []; for (var k in o) { r.push(k); } return r; }
function __cyc(){
  var all = [o1, o2, o3, Fp, Gp];
  for (var i = 0; i < all.length; i++) {
    var c = all[i]; var n = 0;
    while (c !== undefined && c !== null && typeof c === 'object' && n < 12) { c = Object.getPrototypeOf(c); n++; }
    if (n >= 12) return true;
  }
  return false;
}
"""

G1 = "get a(){ return ['g1', this]; }"
S1A = "set a(v){ this.s = 's1:' + v; }"
S1B = "set b(v){ this.s = 's1:' + v; }"


def js_val(n):
    return "undefined" if n == 0 else str(n)


def js_ref(p):
    return "null" if p == "null" else p


def member(x, k, f):
    if f == "id":
        return "%s.%s" % (x, k)
    if f == "str":
        return "%s['%s']" % (x, k)
    if f == "comp":
        return "%s[k%s]" % (x, k)
    if f == "num":
        return "%s[%s]" % (x, k)
    raise ValueError("key form " + f)


def render_op(o):
    op, x, k, f, n, p = o["op"], o["x"], o["k"], o["f"], o["n"], o["p"]
    v = js_val(n)
    if op == "lit":
        body = {"empty": "{}", "data_a": "{a: %s}" % v, "data_1": "{1: %s}" % v, "two": "{b: %s, a: %s}" % (v, v),
                "getter_a": "{%s}" % G1, "getset_a": "{%s, %s}" % (G1, S1A), "set_b": "{%s}" % S1B,
                "comp_b": "{[kb]: %s}" % v, "proto": "{__proto__: %s, a: %s}" % (js_ref(p), v),
                "protogs": "{__proto__: %s, %s, %s}" % (js_ref(p), G1, S1A)}[f]
        return "%s = %s" % (x, body)
    if op == "create":
        return "%s = Object.create(%s)" % (x, js_ref(p))
    if op == "new":
        return "%s = new %s(%s)" % (x, f, "" if n == 0 else v)
    if op == "func":
        return "%s = function(){}" % x
    if op == "set":
        return "%s = %s" % (member(x, k, f), v)
    if op == "del":
        return "delete %s" % member(x, k, f)
    if op == "def":
        key = "1" if k == "1" else "'%s'" % k
        desc = {"get": "get: g2", "set": "set: s2", "gs": "get: g2, set: s2", "val": "value: %s, writable: true" % v}[f]
        return "Object.defineProperty(%s, %s, {%s, enumerable: true, configurable: true})" % (x, key, desc)
    if op == "setproto":
        return "Object.setPrototypeOf(%s, %s)" % (x, js_ref(p))
    if op == "fproto":
        return "%s.prototype = %s" % (f, js_ref(p))
    raise ValueError("operation " + op)


def render_obs(ob):
    o, x, k, f = ob["o"], ob["x"], ob["k"], ob["f"]
    if o == "rd":
        return member(x, k, f)
    if o == "in":
        return "'%s' in %s" % (k, x)
    if o == "own":
        return "Object.prototype.hasOwnProperty.call(%s, '%s')" % (x, k)
    if o == "keys":
        return "Object.keys(%s)" % x
    if o == "values":
        return "Object.values(%s)" % x
    if o == "entries":
        return "Object.entries(%s)" % x
    if o == "forin":
        return "__forin(%s)" % x
    if o == "proto":
        return "Object.getPrototypeOf(%s)" % x
    if o == "inst":
        return "%s instanceof %s" % (x, k)
    if o == "typeof":
        return "typeof %s" % x
    if o == "fproto":
        return "%s.prototype" % k
    raise ValueError("observation " + o)


_BATTERY = {}


def load_battery(path):
    """battery file: {"on": [observation templates with x = "X"], "objs": [names], "glob": [observations]}
    The flat battery is  on[0..] for objs[0], on[0..] for objs[1], ..., glob[0..]  (the judge uses the same order)."""
    if path not in _BATTERY:
        with open(path) as fh:
            b = json.load(fh)
        on, objs, glob = b["on"], b["objs"], b["glob"]
        # an undefined global (slot not allocated) has no observations: its part of the vector is left empty
        lines = ["function __obx(X){ if (X === undefined) { __emit(undefined); return; } var r = [];"]
        for ob in on:
            lines.append(" try { r.push(['v', %s]); } catch (e) { r.push(['t', __cls(e)]); }" % render_obs(ob))
        lines.append(" __emit(r); }")
        lines.append("function __obg(){ var r = [];")
        for ob in glob:
            lines.append(" try { r.push(['v', %s]); } catch (e) { r.push(['t', __cls(e)]); }" % render_obs(ob))
        lines.append(" __emit(r); }")
        flat = [dict(ob, x=x) for x in objs for ob in on] + list(glob)
        call = "".join("__obx(%s);" % x for x in objs) + "__obg();"
        _BATTERY[path] = (flat, "\n".join(lines), call, len(on))
    return _BATTERY[path]


# ---- harness optimisation: identical source text is parsed and compiled once per child process ----------
# (the setup script and the observer calls are the same for every history).  Falls back silently.
def _install_source_cache():
    try:
        import microjs.context as C
        P0, K0 = C.Parser, C.Compiler
        asts, comp = {}, {}

        class CachedParser:
            def __init__(self, code):
                self.code = code

            def parse(self):
                a = asts.get(self.code)
                if a is None:
                    a = P0(self.code).parse()
                    if len(asts) < 20000:
                        asts[self.code] = a
                return a

        class CachedCompiler:
            def compile(self, ast):
                c = comp.get(id(ast))
                if c is None or c[0] is not ast:
                    c = (ast, K0().compile(ast))
                    if len(comp) < 20000:
                        comp[id(ast)] = c
                return c[1]

        C.Parser, C.Compiler = CachedParser, CachedCompiler
        return True
    except Exception:
        return False


import os as _os
SOURCE_CACHE = _install_source_cache() if _os.environ.get("C08_NOCACHE") != "1" else False


class Enc:
    """raw engine value -> value string; object identity -> the global that holds it"""

    def __init__(self, V):
        self.V = V
        self.ids = {}
        self.keep = []

    def register(self, names, raws):
        self.ids = {}
        self.keep = list(raws)
        for nm, r in zip(names, raws):
            if isinstance(r, (self.V.JSObject, self.V.JSFunction)) or callable(r):
                self.ids.setdefault(id(r), nm)

    def enc(self, v, depth=0):
        V = self.V
        if v is V.UNDEFINED:
            return "u"
        if v is V.NULL:
            return "null"
        if isinstance(v, bool):
            return "true" if v else "false"
        if isinstance(v, (int, float)):
            if v == v and v not in (float("inf"), float("-inf")) and v == int(v):
                return "n%d" % int(v)
            return "n%r" % (v,)
        if isinstance(v, str):
            return "'" + v
        nm = self.ids.get(id(v))
        if nm is not None:
            return ("fn:" + nm) if nm in FN_NAMES or nm.startswith("f_") else ("@" + nm)
        if isinstance(v, V.JSArray):
            if depth > 4:
                return "[deep]"
            return "[" + ",".join(self.enc(e, depth + 1) for e in v._elements) + "]"
        if isinstance(v, V.JSFunction) or (isinstance(v, V.JSObject) and hasattr(v, "_call_fn")):
            return "fn:?"
        if isinstance(v, V.JSObject):
            return "@?"
        if callable(v):
            return "fn:native"
        return "host:" + type(v).__name__


def outcome_str(out):
    if out["o"] == "value":
        v = out["v"]
        if v.get("k") == "str":
            from harness import wire
            return wire.from_units(v["u"])
        return "?value:" + str(v.get("k"))
    if out["o"] == "host":
        return "host:%s@%s" % (out.get("type"), out.get("where"))
    return out["o"]


def hist_driver(case, api):
    """case = {id, h: [op...], observe: "all" | "last", battery: path}"""
    from microjs import values as V
    bat, obs_src, obs_call, n_on = load_battery(case["battery"])
    ctx = api.new_context(time_limit=5.0)
    enc = Enc(V)
    emitted = []
    ctx.set("__reg", lambda *a: (enc.register(NAMES + FN_NAMES, a), None)[1])
    ctx.set("__emit", lambda arr: (emitted.append(arr), None)[1])
    out = api.eval_outcome(ctx, SETUP + obs_src + "\n'ok'", wall=20.0, cap=2_000_000)
    if outcome_str(out) != "ok":
        return {"id": case["id"], "steps": [], "cut": "setup:" + outcome_str(out)}
    reg = "__reg(%s);" % ", ".join(NAMES + FN_NAMES)
    steps, cut = [], ""
    h = case["h"]
    for i, o in enumerate(h):
        stmt = render_op(o)
        src = "var __r; try { %s; __r = 'ok'; } catch (e) { __r = '!' + __cls(e); } __r" % stmt
        res = outcome_str(api.eval_outcome(ctx, src, wall=20.0, cap=2_000_000))
        rec = {"out": res, "obs": []}
        steps.append(rec)
        if res not in ("ok",) and not res.startswith("!"):
            cut = "step-outcome"            # host exception, limit, hang: the context may be unusable
            break
        if o["op"] in RELINK:               # safety guard: never observe through a cyclic prototype chain
            c = outcome_str(api.eval_outcome(ctx, "'' + __cyc()", wall=20.0, cap=2_000_000))
            if c != "false":
                cut = "cycle" if c == "true" else "cyc:" + c
                break
        if case.get("observe") == "all" or i == len(h) - 1:
            del emitted[:]
            r = outcome_str(api.eval_outcome(ctx, reg + obs_call + "'ok'", wall=20.0, cap=4_000_000))
            if r != "ok":
                cut = "observe:" + r
                break
            flat = []
            for arr in emitted:
                flat.extend(arr._elements if arr is not V.UNDEFINED else [None] * n_on)
            if len(flat) != len(bat):
                raise RuntimeError("battery produced %d results for %d observations" % (len(flat), len(bat)))
            obs = []
            for ob, pair in zip(bat, flat):
                if pair is None:
                    obs.append([])
                    continue
                tag, val = pair._elements[0], pair._elements[1]
                if tag == "t":
                    obs.append(["!" + str(val)])
                elif ob["o"] in LIST_OBS:
                    if isinstance(val, V.JSArray):
                        obs.append([enc.enc(e) for e in val._elements])
                    else:
                        obs.append(["notalist:" + enc.enc(val)])
                else:
                    obs.append([enc.enc(val)])
            rec["obs"] = obs
    return {"id": case["id"], "steps": steps, "cut": cut}


# ==================================================================================================
# Part B: one cell of the call-form x function-kind product.  cell = {id, form, kind}
BODY = "return [this, arguments.length, arguments[0], arguments[1], a, b];"
KIND_SETUP = {
    "decl": "function fd(a, b, c){ %s } var f = fd; var CT = fd; var recv = {f: f};" % BODY,
    "expr": "var fe = function(a, b, c){ %s }; var f = fe; var CT = fe; var recv = {f: f};" % BODY,
    "named": "var fn = function nm(a, b, c){ %s }; var f = fn; var CT = fn; var recv = {f: f};" % BODY,
    "arrow": "var host = {mk: function(){ return (a, b, c) => [this, arguments.length, arguments[0], arguments[1], a, b]; }};"
             " var f = host.mk(7, 8); var CT = f; var recv = {f: f};",
    "method": "var recv = {f(a, b, c){ %s }}; var f = recv.f; var CT = f;" % BODY,
    "propfn": "var recv = {f: function(a, b, c){ %s }}; var f = recv.f; var CT = f;" % BODY,
    "getter": "var recv = {get f(){ return [this, arguments.length, arguments[0], arguments[1], undefined, undefined]; }};"
              " var f = Object.getOwnPropertyDescriptor(recv, 'f').get; var CT = f;",
    "bound": "function fd(a, b, c){ %s } var f = fd.bind(bt, 5, 6); var CT = fd; var recv = {f: f};" % BODY,
    "native": "var f = Object.prototype.valueOf; var CT = f; var recv = {f: f};",
}
FORM_CALL = {
    "method": "recv.f(1, 2)", "plain": "__t(1, 2)", "call": "f.call(x1, 1, 2)", "apply": "f.apply(x1, [1, 2])",
    "bind": "f.bind(x1, 1)(2)", "new": "new f(1, 2)", "arrow": "recv.go()",
}
RETS = {"none": "", "num": "return 5;", "str": "return 's';", "null": "return null;", "undef": "return undefined;",
        "bool": "return true;", "obj": "return ro;", "arr": "return ra;", "fn": "return rf;"}
CTORS = {"decl": "function C(){ this.p = 1; %s } var K = C;", "expr": "var C = function(){ this.p = 1; %s }; var K = C;",
         "bound": "function C(){ this.p = 1; %s } var K = C.bind(bt);"}
CHAINS = {
    "assign": "B.prototype = Object.create(A.prototype); B.prototype.constructor = B;",
    "setproto": "Object.setPrototypeOf(B.prototype, A.prototype);",
    "literal": "B.prototype = {__proto__: A.prototype, constructor: B};",
}


def call_driver(case, api):
    from microjs import values as V
    form, kind = case["form"], case["kind"]
    ctx = api.new_context(time_limit=5.0)
    enc = Enc(V)
    got = []
    ctx.set("__reg", lambda *a: (enc.register(["recv", "x1", "bt", "host", "ro", "ra", "rf", "CT"], a), None)[1])
    ctx.set("__emit", lambda *a: (got.append(a), None)[1])
    pre = CLS + "var bt = {tag: 'bt'}; var x1 = {tag: 'x1'}; var host; var recv; var ro = {q: 2}; var ra = [9]; var rf = function(){}; var CT;\n"
    if form == "newret":
        src = pre + CTORS[kind] % RETS[case["ret"]] + """
        __reg(recv, x1, bt, host, ro, ra, rf, CT);
        var r; var out = 'ok';
        try { r = new K(); } catch (e) { out = '!' + __cls(e); }
        var isobj = (typeof r === 'object' || typeof r === 'function') && r !== null;
        __emit(out, r, isobj && typeof r === 'object' ? Object.getPrototypeOf(r) === C.prototype : false,
               isobj ? r instanceof C : false, isobj ? r.p : undefined);
        """
        o = api.eval_outcome(ctx, src + "'done'", wall=20.0, cap=2_000_000)
        if outcome_str(o) != "done" or len(got) != 1:
            return {"id": case["id"], "obs": {"out": "fail:" + outcome_str(o)}}
        out, r, linked, inst, p = got[0]
        return {"id": case["id"], "obs": {"out": str(out), "this": enc.enc(r), "linked": enc.enc(linked), "inst": enc.enc(inst),
                                          "p": enc.enc(p)}}
    if form == "chain":
        src = pre + "function A(){ this.a = 1; } function B(){ A.call(this); this.b = 2; }\n" + CHAINS[kind] + """
        var out = 'ok'; var o; var r = [];
        try { o = new B(); } catch (e) { out = '!' + __cls(e); }
        var checks = [function(){ return o instanceof B; }, function(){ return o instanceof A; }, function(){ return o.a; },
                      function(){ return o.b; }, function(){ return Object.getPrototypeOf(o) === B.prototype; },
                      function(){ return Object.getPrototypeOf(Object.getPrototypeOf(o)) === A.prototype; },
                      function(){ return A.prototype.isPrototypeOf(o); }, function(){ return o.constructor === B; },
                      function(){ return Object.prototype.hasOwnProperty.call(o, 'a'); }];
        for (var i = 0; i < checks.length; i++) { try { r.push(checks[i]()); } catch (e) { r.push('!' + __cls(e)); } }
        __emit(out, r);
        """
        o = api.eval_outcome(ctx, src + "'done'", wall=20.0, cap=2_000_000)
        if outcome_str(o) != "done" or len(got) != 1:
            return {"id": case["id"], "obs": {"out": "fail:" + outcome_str(o)}}
        out, r = got[0]
        return {"id": case["id"], "obs": {"out": str(out), "r": [enc.enc(e) for e in r._elements]}}
    call = FORM_CALL[form]
    go = "(() => this.f(1, 2))()"
    if kind == "getter":
        go = "(() => this.f)()"
        if form == "method":
            call = "recv.f"
    src = pre + KIND_SETUP[kind] + ("\nObject.defineProperty(recv, 'go', {value: function(){ return %s; }, writable: true, enumerable: true, configurable: true});"
                                    " var __t = f;\n" % go) + """
    __reg(recv, x1, bt, host, ro, ra, rf, CT);
    var R; var out = 'ok';
    try { R = %s; } catch (e) { out = '!' + __cls(e); }
    var P = (typeof R === 'object' && R !== null && R.length === 6) ? R : [R, undefined, undefined, undefined, undefined, undefined];
    var T = P[0];
    var isobj = typeof T === 'object' && T !== null;
    var len; var nam;
    try { len = f.length; } catch (e) { len = '!' + __cls(e); }
    try { nam = f.name; } catch (e) { nam = '!' + __cls(e); }
    var linked = false; var inst = false;
    try { linked = isobj ? Object.getPrototypeOf(T) === CT.prototype : false; } catch (e) { linked = '!' + __cls(e); }
    try { inst = isobj ? T instanceof CT : false; } catch (e) { inst = '!' + __cls(e); }
    __emit(out, T, linked, inst, P[1], P[2], P[3], P[4], P[5], len, nam);
    """ % call
    o = api.eval_outcome(ctx, src + "'done'", wall=20.0, cap=2_000_000)
    if outcome_str(o) != "done" or len(got) != 1:
        return {"id": case["id"], "obs": {"out": "fail:" + outcome_str(o)}}
    out, T, linked, inst, alen, a0, a1, pa, pb, ln, nm = got[0]
    e = enc.enc
    return {"id": case["id"], "obs": {"out": str(out), "this": e(T), "linked": e(linked), "inst": e(inst), "alen": e(alen),
                                      "a0": e(a0), "a1": e(a1), "pa": e(pa), "pb": e(pb), "length": e(ln), "name": e(nm)}}


# ---- Part C: the KIND of the this-value x every call form that takes an explicit this x function kind ------------
# cell = {id, form: "tv", via, kind, ret: <this-value kind>}.  The probe function stores what it saw in PR (array
# callbacks do not hand the callback's result back); a native probe (Object.prototype.toString) answers with the
# class of its this.  `absent` = the this argument is not written at all.
TV_VALUES = {"obj": "x1", "arr": "ra", "fn": "rf", "num": "3", "str": "'a'", "true": "true", "zero": "0", "negzero": "-0",
             "empty": "''", "false": "false", "nan": "NaN", "null": "null", "undef": "undefined"}
TV_BODY = "PR = [this, arguments.length, arguments[0], arguments[1], a, b, typeof this]; return PR;"
TV_KIND = {
    "decl": "function fd(a, b, c){ %s } var f = fd;" % TV_BODY,
    "expr": "var fe = function(a, b, c){ %s }; var f = fe;" % TV_BODY,
    "method": "var mo = {f(a, b, c){ %s }}; var f = mo.f;" % TV_BODY,
    "getter": "var gh = {get f(){ PR = [this, arguments.length, arguments[0], arguments[1], undefined, undefined, typeof this];"
              " return PR; }}; var f = Object.getOwnPropertyDescriptor(gh, 'f').get;",
    "arrow": "var host = {mk: function(){ return (a, b, c) => { PR = [this, arguments.length, arguments[0], arguments[1], a, b,"
             " typeof this]; return PR; }; }}; var f = host.mk(7, 8);",
    "bound": "function fd(a, b, c){ %s } var f = fd.bind(bt, 5, 6);" % TV_BODY,
    "native": "var f = Object.prototype.toString;",
}
# via -> (call with the this-value TV, the same call with the this argument not written; None = no such call)
TV_CALL = {
    "call": ("f.call(TV, 1, 2)", "f.call()"), "apply": ("f.apply(TV, [1, 2])", "f.apply()"),
    "bind": ("f.bind(TV)(1, 2)", "f.bind()(1, 2)"),
    "bindcall": ("f.bind(TV).call(x2, 1, 2)", "f.bind().call(x2, 1, 2)"),
    "bindmethod": ("(recv.g = f.bind(TV), recv.g(1, 2))", "(recv.g = f.bind(), recv.g(1, 2))"),
    "callcall": ("f.call.call(f, TV, 1, 2)", "f.call.call(f)"), "callapply": ("f.call.apply(f, [TV, 1, 2])", "f.call.apply(f, [])"),
    "map": ("[4].map(f, TV)[0]", "[4].map(f)[0]"), "filter": ("[4].filter(f, TV)", "[4].filter(f)"),
    "forEach": ("[4].forEach(f, TV)", "[4].forEach(f)"), "find": ("[4].find(f, TV)", "[4].find(f)"),
    "findIndex": ("[4].findIndex(f, TV)", "[4].findIndex(f)"), "some": ("[4].some(f, TV)", "[4].some(f)"),
    "every": ("[4].every(f, TV)", "[4].every(f)"),
    "reduce": (None, "[4, 5].reduce(f)"), "reduceRight": (None, "[4, 5].reduceRight(f)"), "sort": (None, "[4, 5].sort(f)"),
    "primrecv": ("(Object.prototype.pm = f, TV.pm(1, 2))", None),
    "primget": ("(Object.defineProperty(Object.prototype, 'pg', {get: f, enumerable: false, configurable: true}), TV.pg)", None),
}
# forms whose value is the callback's own result (needed for a native probe, which cannot store into PR)
TV_RESULT = ("call", "apply", "bind", "bindcall", "bindmethod", "callcall", "callapply", "map", "primrecv", "primget")


def tv_this(v, V, enc):
    import math
    if isinstance(v, float) and v == 0 and math.copysign(1.0, v) < 0:
        return "n-0"
    return enc.enc(v)


def tv_driver(case, api):
    from microjs import values as V
    via, kind, tk = case["via"], case["kind"], case["ret"]
    ctx = api.new_context(time_limit=5.0)
    enc = Enc(V)
    got = []
    ctx.set("__reg", lambda *a: (enc.register(["recv", "x1", "x2", "bt", "host", "ra", "rf"], a), None)[1])
    ctx.set("__emit", lambda *a: (got.append(a), None)[1])
    absent = tk == "absent"
    call = TV_CALL[via][1 if absent else 0]
    if call is None:
        raise ValueError("no call form %s with this-value kind %s" % (via, tk))
    src = (CLS + "var bt = {tag: 'bt'}; var x1 = {tag: 'x1'}; var x2 = {tag: 'x2'}; var host; var recv = {}; var ra = [9];"
           " var rf = function(){}; var PR;\n" + ("" if absent else "var TV = %s;\n" % TV_VALUES[tk]) + TV_KIND[kind] + """
    __reg(recv, x1, x2, bt, host, ra, rf);
    var R; var out = 'ok';
    try { R = %s; } catch (e) { out = '!' + __cls(e); }
    var ran = PR !== undefined;
    var P = ran ? PR : [undefined, undefined, undefined, undefined, undefined, undefined, undefined];
    __emit(out, ran, P[0], P[6], P[1], P[2], P[3], P[4], P[5], R);
    """ % call)
    o = api.eval_outcome(ctx, src + "'done'", wall=20.0, cap=2_000_000)
    if o["o"] == "host":                      # a foreign Python exception escaped from the engine: class only
        return {"id": case["id"], "obs": {"out": "host:%s" % o.get("type")}}
    if outcome_str(o) != "done" or len(got) != 1:
        return {"id": case["id"], "obs": {"out": "fail:" + outcome_str(o)}}
    out, ran, T, tt, alen, a0, a1, pa, pb, R = got[0]
    e = enc.enc
    obs = {"out": str(out), "ran": e(ran), "this": tv_this(T, V, enc), "ttype": e(tt), "alen": e(alen), "a0": e(a0), "a1": e(a1),
           "pa": e(pa), "pb": e(pb), "cls": e(R) if (kind == "native" and via in TV_RESULT) else "-"}
    return {"id": case["id"], "obs": obs}


# ---- Part D: the KIND of the value a computed key evaluates to x every site that turns a key into a property name ----
# cell = {id, form: "key", kind: <key kind>, w: <write site>, sp: "var" | "inline", ret: <second step>, name: <canonical
# property name, computed by the specification>}.  KEY_EXPR renders a key kind as a JavaScript expression; nothing here
# converts a key to a name.
KEY_EXPR = {"str": "'a'", "empty": "''", "numstr": "'1'", "str01": "'01'", "strneg0": "'-0'", "int": "1", "zero": "0",
            "negzero": "-0", "neg": "-1", "frac": "1.5", "floatint": "2 / 2", "bigint": "4294967296", "nan": "NaN",
            "inf": "Infinity", "ninf": "-Infinity", "true": "true", "false": "false", "cmp": "1 < 2", "null": "null",
            "undef": "undefined", "arr0": "[]", "arr1": "[1]", "arrs": "['a']", "arr2": "[1, 2]", "obj": "({})",
            "objts": "({toString: function(){ return 'a'; }})"}
KEY_DESC = "{value: %d, writable: true, enumerable: true, configurable: true}"
KEY_WRITE = {"set": "o[%(X)s] = 1", "lit": "o = {z: 0, [%(X)s]: 1}",
             "def": "Object.defineProperty(o, %(X)s, " + KEY_DESC % 1 + ")",
             "litget": "o = {z: 0, get [%(X)s](){ return 7; }}",
             "defget": "Object.defineProperty(o, %(X)s, {get: function(){ return 7; }, enumerable: true, configurable: true})"}
KEY_SECOND = {"none": "", "set": "o[%(X)s] = 5", "setS": "o[S] = 5", "inc": "o[%(X)s]++", "add": "o[%(X)s] += 2",
              "del": "delete o[%(X)s]", "delS": "delete o[S]",
              "def": "Object.defineProperty(o, %(X)s, " + KEY_DESC % 6 + ")", "defS": "Object.defineProperty(o, S, " + KEY_DESC % 6 + ")",
              "qset": "q[%(X)s] = 4", "qdel": "delete q[%(X)s]"}
KEY_GD = "(function(){ var d = Object.getOwnPropertyDescriptor(o, %s); return d === undefined ? 'nod' : (d.get !== undefined ? 'acc' : d.value); })()"
# the battery (same names and order as KBattery in spec/C08.tla, without "out"): K the variable, I the expression in place
KEY_BATTERY = [("rdK", "o[K]"), ("rdI", "o[%(I)s]"), ("rdS", "o[S]"), ("inK", "K in o"), ("inI", "(%(I)s) in o"), ("inS", "S in o"),
               ("ownK", "Object.prototype.hasOwnProperty.call(o, K)"), ("ownI", "Object.prototype.hasOwnProperty.call(o, %(I)s)"),
               ("ownM", "o.hasOwnProperty(K)"), ("ownS", "Object.prototype.hasOwnProperty.call(o, S)"),
               ("gdK", KEY_GD % "K"), ("gdS", KEY_GD % "S"), ("keys", "Object.keys(o)"), ("forin", "__forin(o)"),
               ("vals", "Object.values(o)"), ("ents", "Object.entries(o)"), ("z", "o.z"), ("qrdK", "q[K]"), ("qinK", "K in q"),
               ("qownK", "Object.prototype.hasOwnProperty.call(q, K)"), ("qkeys", "Object.keys(q)")]
KEY_LISTS = ("keys", "forin", "vals", "ents", "qkeys")


def key_driver(case, api):
    from microjs import values as V
    kk, w, sp, sec, name = case["kind"], case["w"], case["sp"], case["ret"], case["name"]
    expr = KEY_EXPR[kk]
    sub = {"X": "K" if sp == "var" else expr, "I": expr}
    ctx = api.new_context(time_limit=5.0)
    enc = Enc(V)
    got = []
    ctx.set("__emit", lambda *a: (got.append(a), None)[1])
    ctx.set("S", name)
    lines = [CLS, "function __forin(x){ var r = []; for (var k in x) { r.push(k); } return r; }",
             "var K = %s; var o = {z: 0}; var q;" % expr,
             "function __kb(out){ var r = [];"]
    for _, src in KEY_BATTERY:
        lines.append(" try { r.push(['v', %s]); } catch (e) { r.push(['t', __cls(e)]); }" % (src % sub))
    lines.append(" __emit(out, r); }")
    lines.append("var out = 'ok'; try { %s; } catch (e) { out = '!' + __cls(e); }" % (KEY_WRITE[w] % sub))
    lines.append("try { q = Object.create(o); } catch (e) { out = out + '/create:!' + __cls(e); }")
    lines.append("__kb(out);")
    if sec != "none":
        lines.append("out = 'ok'; try { %s; } catch (e) { out = '!' + __cls(e); }" % (KEY_SECOND[sec] % sub))
        lines.append("__kb(out);")
    o = api.eval_outcome(ctx, "\n".join(lines) + "\n'done'", wall=20.0, cap=2_000_000)
    nst = 1 if sec == "none" else 2
    if o["o"] == "host":                      # a foreign Python exception escaped from the engine: class only
        return {"id": case["id"], "obs": {"b1": {"out": "host:%s" % o.get("type")}}}
    if outcome_str(o) != "done" or len(got) != nst:
        return {"id": case["id"], "obs": {"b1": {"out": "fail:" + outcome_str(o)}}}
    obs = {}
    for st, (out, arr) in enumerate(got, 1):
        b = {"out": str(out)}
        for (a, _), pair in zip(KEY_BATTERY, arr._elements):
            tag, val = pair._elements[0], pair._elements[1]
            if tag == "t":
                b[a] = "!" + str(val)
            elif a in KEY_LISTS:
                b[a] = "|".join(enc.enc(e) for e in val._elements) if isinstance(val, V.JSArray) else "notalist:" + enc.enc(val)
            else:
                b[a] = enc.enc(val)
        obs["b%d" % st] = b
    return {"id": case["id"], "obs": obs}


# ---- Part E: re-entry.  cell = {id, form: "re", kind: <how the function refers to itself>, via: <outer form>, ret: <inner form>}
# Level 0 (entered by the outer form) calls the self-reference SELF with the inner form, level 1 makes the plain call
# SELF(7, 8), level 2 is a leaf; every level records what it saw in TR[level].
RE_BODY = ("var lv = DEPTH; DEPTH = DEPTH + 1; TR[lv] = [this, arguments.length, arguments[0], arguments[1], a, b];"
           " if (lv === 0) { SAME = (%(s)s === F0); SLEN = %(s)s.length; %(inner)s; } else if (lv === 1) { %(s)s(7, 8); }")
RE_KIND = {   # kind -> (source with %(body)s, the expression SELF)
    "named": ("var F0 = function me(a, b, c){ %(body)s };", "me"),
    "namedshadow": ("var me = 'outer'; var F0 = function me(a, b, c){ %(body)s };", "me"),
    "namedclosure": ("var F0 = function me(a, b, c){ var self = (function(){ return me; })(); %(body)s };", "self"),
    "decl": ("function fd(a, b, c){ %(body)s } var F0 = fd;", "fd"),
    "expr": ("var F0 = function(a, b, c){ %(body)s };", "F0"),
    "declinner": ("var F0 = (function(){ function inner(a, b, c){ %(body)s } return inner; })();", "inner"),
}
RE_INNER = {"plain": "%(s)s(3, 4)", "call": "%(s)s.call(x2, 3, 4)", "apply": "%(s)s.apply(x2, [3, 4])",
            "bind": "%(s)s.bind(x2, 3)(4)", "method": "o2.m = %(s)s; o2.m(3, 4)", "new": "new %(s)s(3, 4)"}
RE_OUTER = {"plain": "F0(1, 2)", "method": "recv.f = F0; recv.f(1, 2)", "call": "F0.call(x1, 1, 2)", "apply": "F0.apply(x1, [1, 2])",
            "bind": "F0.bind(x1)(1, 2)", "bindargs": "F0.bind(x1, 5, 6)(1, 2)", "bindcall": "F0.bind(x1).call(x2, 1, 2)",
            "bindmethod": "recv.g = F0.bind(x1); recv.g(1, 2)", "new": "new F0(1, 2)",
            "newbound": "var B = F0.bind(x1, 5); new B(2)", "map": "[4].map(F0)", "mapthis": "[4].map(F0, x1)",
            "mapbound": "[4].map(F0.bind(x1))"}


def re_driver(case, api):
    from microjs import values as V
    kind, outer, inner = case["kind"], case["via"], case["ret"]
    ctx = api.new_context(time_limit=5.0)
    enc = Enc(V)
    got = []
    ctx.set("__reg", lambda *a: (enc.register(["recv", "x1", "x2", "o2", "F0"], a), None)[1])
    ctx.set("__emit", lambda *a: (got.append(a), None)[1])
    tmpl, selfx = RE_KIND[kind]
    body = RE_BODY % {"s": selfx, "inner": RE_INNER[inner] % {"s": selfx}}
    src = (CLS + "var x1 = {tag: 'x1'}; var x2 = {tag: 'x2'}; var o2 = {tag: 'o2'}; var recv = {};"
           " var DEPTH = 0; var TR = []; var SAME; var SLEN;\n" + tmpl % {"body": body} + """
    __reg(recv, x1, x2, o2, F0);
    var out = 'ok';
    try { %s; } catch (e) { out = '!' + __cls(e); }
    var L = [];
    for (var i = 0; i < 3; i++) {
        var T = TR[i] === undefined ? undefined : TR[i][0];
        var lk = false;
        try { lk = (typeof T === 'object' && T !== null) ? Object.getPrototypeOf(T) === F0.prototype : false; } catch (e) { lk = '!' + __cls(e); }
        L.push(lk);
    }
    __emit(out, DEPTH, SAME, SLEN, TR, L);
    """ % RE_OUTER[outer])
    o = api.eval_outcome(ctx, src + "'done'", wall=20.0, cap=2_000_000)
    if o["o"] == "host":
        return {"id": case["id"], "obs": {"out": "host:%s" % o.get("type")}}
    if outcome_str(o) != "done" or len(got) != 1:
        return {"id": case["id"], "obs": {"out": "fail:" + outcome_str(o)}}
    out, depth, same, slen, tr, lk = got[0]
    e = enc.enc
    obs = {"out": str(out), "depth": e(depth), "same": e(same), "slen": e(slen)}
    for j in range(3):
        row = tr._elements[j] if j < len(tr._elements) else V.UNDEFINED
        vals = list(row._elements) if isinstance(row, V.JSArray) else [V.UNDEFINED] * 6
        vals += [V.UNDEFINED] * (6 - len(vals))
        for a, v in zip("tnxypq", vals):
            obs["%s%d" % (a, j)] = e(v)
        obs["l%d" % j] = e(lk._elements[j])
    return {"id": case["id"], "obs": obs}


# ---- Part F: derivation chains.  cell = {id, form: "bc", kind: <base function kind>, via: <chain: one digit per bind level =
# number of arguments bound there>, ret: <form that calls the outermost function>}.  Level j binds this = tj and 10j+1, 10j+2.
BC_BODY = "var A = []; for (var i = 0; i < arguments.length; i++) { A.push(arguments[i]); } return [this, A, a, b, c];"
BC_KIND = {
    "decl": "function fd(a, b, c){ %s } var f = fd;" % BC_BODY,
    "expr": "var fe = function(a, b, c){ %s }; var f = fe;" % BC_BODY,
    "named": "var fn = function nm(a, b, c){ %s }; var f = fn;" % BC_BODY,
    "method": "var mo = {f(a, b, c){ %s }}; var f = mo.f;" % BC_BODY,
    "arrow": "var host = {mk: function(){ return (a, b, c) => { %s }; }}; var f = host.mk(7, 8);" % BC_BODY,
}
BC_CALL = {"plain": "h(1, 2)", "call": "h.call(x1, 1, 2)", "apply": "h.apply(x1, [1, 2])", "method": "(recv.h = h, recv.h(1, 2))",
           "new": "new h(1, 2)", "map": "ra4.map(h)[0]"}


def bc_driver(case, api):
    from microjs import values as V
    kind, chain, form = case["kind"], case["via"], case["ret"]
    ctx = api.new_context(time_limit=5.0)
    enc = Enc(V)
    got = []
    ctx.set("__reg", lambda *a: (enc.register(["recv", "x1", "t1", "t2", "t3", "host", "ra4"], a), None)[1])
    ctx.set("__emit", lambda *a: (got.append(a), None)[1])
    levels = ["var g0 = f;"]
    for j, ch in enumerate(chain, 1):
        args = "".join(", %d" % (10 * j + i) for i in range(1, int(ch) + 1))
        levels.append("var g%d = g%d.bind(t%d%s);" % (j, j - 1, j, args))
    d = len(chain)
    src = (CLS + "var x1 = {tag: 'x1'}; var t1 = {tag: 't1'}; var t2 = {tag: 't2'}; var t3 = {tag: 't3'}; var recv = {}; var host;"
           " var ra4 = [4];\n" + BC_KIND[kind] + "\n" + " ".join(levels) + " var h = g%d; var prev = g%d;" % (d, d - 1) + """
    __reg(recv, x1, t1, t2, t3, host, ra4);
    var R; var out = 'ok';
    try { R = %s; } catch (e) { out = '!' + __cls(e); }
    var P = (typeof R === 'object' && R !== null && R.length === 5) ? R : [R, undefined, undefined, undefined, undefined];
    var T = P[0];
    var isobj = typeof T === 'object' && T !== null;
    var len; var nam; var plen; var pnam; var PV; var pout = 'ok';
    try { len = h.length; } catch (e) { len = '!' + __cls(e); }
    try { nam = h.name; } catch (e) { nam = '!' + __cls(e); }
    var linked = false; var inst = false; var insth = false;
    if (%s) {
      try { linked = isobj ? Object.getPrototypeOf(T) === f.prototype : false; } catch (e) { linked = '!' + __cls(e); }
      try { inst = isobj ? T instanceof f : false; } catch (e) { inst = '!' + __cls(e); }
      try { insth = isobj ? T instanceof h : false; } catch (e) { insth = '!' + __cls(e); }
    }
    try { PV = prev(1, 2); } catch (e) { pout = '!' + __cls(e); }
    try { plen = prev.length; } catch (e) { plen = '!' + __cls(e); }
    try { pnam = prev.name; } catch (e) { pnam = '!' + __cls(e); }
    var PP = (typeof PV === 'object' && PV !== null && PV.length === 5) ? PV : [PV, undefined, undefined, undefined, undefined];
    __emit(out, T, linked, inst, insth, P[1], P[2], P[3], P[4], len, nam, pout, PP[1], plen, pnam);
    """ % (BC_CALL[form], "true" if form == "new" else "false"))
    o = api.eval_outcome(ctx, src + "'done'", wall=20.0, cap=2_000_000)
    if o["o"] == "host":
        return {"id": case["id"], "obs": {"out": "host:%s" % o.get("type")}}
    if outcome_str(o) != "done" or len(got) != 1:
        return {"id": case["id"], "obs": {"out": "fail:" + outcome_str(o)}}
    out, T, linked, inst, insth, A, pa, pb, pc, ln, nm, pout, PA, plen, pnam = got[0]
    e = enc.enc
    alen = ("n%d" % len(A._elements)) if isinstance(A, V.JSArray) else "u"
    return {"id": case["id"], "obs": {"out": str(out), "this": e(T), "linked": e(linked), "inst": e(inst), "insth": e(insth),
                                      "alen": alen, "args": e(A), "pa": e(pa), "pb": e(pb), "pc": e(pc), "length": e(ln), "name": e(nm),
                                      "pout": str(pout), "pargs": e(PA), "plen": e(plen), "pname": e(pnam)}}


def cell_driver(case, api):
    if case["form"] == "bc":
        return bc_driver(case, api)
    if case["form"] == "key":
        return key_driver(case, api)
    if case["form"] == "re":
        return re_driver(case, api)
    return tv_driver(case, api) if case["form"] == "tv" else call_driver(case, api)
