------------------------------ MODULE JsArray ------------------------------
(* ECMAScript Array.prototype over DENSE arrays (documented stricter mode: no holes,  *)
(* writing at index length appends, writing further out is an error).                *)
(*                                                                                    *)
(* A store is a sequence of arrays; the identity of an array is its position in the   *)
(* store.  An element is a primitive JsVal or Ref(id).  Every method is an operator   *)
(*      M(store, recv, args, cbk, devs)  ->  [out, alt, store, log, perm ("" | "last" | "any"), opaque]     *)
(* i.e. an action given as a function: pre-state, result, post-state and the exact    *)
(* sequence of callback invocations (log).  Callbacks are scripted responders: a      *)
(* finite table  call number -> return value | throw | mutate the receiver.           *)
(* `devs` is the set of named deviations (DESIGN 2.3) switched to the engine's as-is  *)
(* behaviour; {} is ECMA-262.  Variable-free library module.                          *)
EXTENDS JsVal, Str
JS == INSTANCE JsString

Ref(i)   == [k |-> "ref", id |-> i]
IsRef(v) == v.k = "ref"
Arg(a, i) == IF i <= Len(a) THEN a[i] ELSE Undef

\* structural sameness of results: identities by id, fresh arrays structurally, NaN = NaN, +0 # -0
RECURSIVE SameX(_, _)
SameX(a, b) ==
  /\ a.k = b.k
  /\ CASE a.k = "ref" -> a.id = b.id
       [] a.k = "arr" -> Len(a.e) = Len(b.e) /\ \A i \in 1..Len(a.e) : SameX(a.e[i], b.e[i])
       [] OTHER -> SameVal(a, b)
SameSeq(x, y) == Len(x) = Len(y) /\ \A i \in 1..Len(x) : SameX(x[i], y[i])
SameStore(s, t) == Len(s) = Len(t) /\ \A i \in 1..Len(s) : SameSeq(s[i], t[i])

\* ---- outcomes ------------------------------------------------------------------------------
ValOut(v)    == [o |-> "value", v |-> v, cls |-> ""]
ErrOut(c)    == [o |-> "throw", v |-> Undef, cls |-> c]        \* an Error object of class c
ThrownOut(v) == [o |-> "throw", v |-> v, cls |-> "value"]      \* a thrown non-error value
HostOut(c)   == [o |-> "host", v |-> Undef, cls |-> c]         \* as-is only: a host exception escapes
R(out, st)   == [out |-> out, alt |-> <<>>, store |-> st, log |-> <<>>, perm |-> "", opaque |-> ""]

\* ---- conversions ---------------------------------------------------------------------------
ToBool(v) == CASE v.k \in {"undef", "null"} -> FALSE
               [] v.k = "bool" -> v.b
               [] v.k = "num" -> ~(WIsNaN(v.w) \/ WIsZero(v.w))
               [] v.k = "str" -> v.u # <<>>
               [] OTHER -> TRUE
\* Python truthiness of an engine value (as-is `if not callback`)
PyFalsy(v) == CASE v.k \in {"undef", "null"} -> TRUE
                [] v.k = "bool" -> ~v.b
                [] v.k = "num" -> WIsZero(v.w)
                [] v.k = "str" -> v.u = <<>>
                [] OTHER -> FALSE
NumEq(x, y) == ~WIsNaN(x) /\ ~WIsNaN(y) /\ (x = y \/ (WIsZero(x) /\ WIsZero(y)))
StrictEq(a, b) ==
  /\ a.k = b.k
  /\ CASE a.k = "num" -> NumEq(a.w, b.w)   [] a.k = "str" -> a.u = b.u
       [] a.k = "bool" -> a.b = b.b        [] a.k = "ref" -> a.id = b.id
       [] OTHER -> TRUE
AsNumW(v) == IF v.k = "bool" THEN (IF v.b THEN WOfInt(1) ELSE WPosZero) ELSE v.w
\* Dev_StrictEqualsBool: the engine's === compares a boolean with a number numerically
StrictEqAsIs(a, b) == IF {a.k, b.k} = {"bool", "num"} THEN NumEq(AsNumW(a), AsNumW(b)) ELSE StrictEq(a, b)
BothNaN(a, b) == a.k = "num" /\ b.k = "num" /\ WIsNaN(a.w) /\ WIsNaN(b.w)
EqFor(m, a, b, devs) ==
  LET strict == IF "Dev_StrictEqualsBool" \in devs THEN StrictEqAsIs(a, b) ELSE StrictEq(a, b)
  IN IF m = "includes" /\ "Dev_IncludesStrict" \notin devs THEN strict \/ BothNaN(a, b) ELSE strict

\* relative index arguments: ToIntegerOrInfinity clamped to +-2^30
ToInt(v) == JS!ToIntClamp(v)
RelIdx(n, len) == IF n < 0 THEN Max(len + n, 0) ELSE Min(n, len)
\* Dev_IntArg: the engine converts with int(to_number(x)): NaN and the infinities raise host errors
IntErr(v) == LET w == JS!ToNumberW(v)
             IN IF WIsNaN(w) THEN "ValueError" ELSE IF WIsInf(w) THEN "OverflowError" ELSE ""
FirstIntErr(vs) == LET bad == {i \in 1..Len(vs) : IntErr(vs[i]) # ""}
                   IN IF bad = {} THEN "" ELSE IntErr(vs[CHOOSE i \in bad : \A j \in bad : i <= j])
IntArgErr(vs, devs) == IF "Dev_IntArg" \in devs THEN FirstIntErr(vs) ELSE ""

\* number -> text for the grids used here: NaN, infinities, small integers, and n + 0.5
IsHalfW(w) == ~WIsNaN(w) /\ WExp(w) # 2047 /\ ~WIsSmallInt(w) /\ WExp(w) >= 1022 /\ WExp(w) <= 1030
              /\ LET dbl == <<w[1] + 16, w[2], w[3], w[4]>> IN WIsSmallInt(dbl)       \* 2w is a small integer
HalfText(w) == LET dbl == <<w[1] + 16, w[2], w[3], w[4]>>
                   n2 == WTruncClamp(dbl)                        \* odd integer 2x
                   mag == IF n2 < 0 THEN 0 - n2 ELSE n2
               IN (IF n2 < 0 THEN <<45>> ELSE <<>>) \o DigitsOf(mag \div 2) \o <<46, 53>>
NumTextOK(w) == JS!NumTextSupported(w) \/ IsHalfW(w)
NumTextX(w) == IF IsHalfW(w) THEN HalfText(w) ELSE JS!NumText(w)

\* ToString of an element (arrays: nested join; Dev_ArrayToString: "[object Object]")
RECURSIVE ElemStr(_, _, _), JoinU(_, _, _, _)
ElemStr(st, v, devs) ==
  IF v.k = "ref" THEN (IF "Dev_ArrayToString" \in devs THEN U("[object Object]") ELSE JoinU(st, st[v.id], <<44>>, devs))
  ELSE IF v.k = "num" THEN NumTextX(v.w) ELSE JS!ToStrU(v)
JoinU(st, arr, sep, devs) ==
  Flatten([i \in 1..(2 * Len(arr) - 1) |->
             IF i % 2 = 0 THEN sep
             ELSE LET v == arr[(i + 1) \div 2] IN IF v.k \in {"undef", "null"} THEN <<>> ELSE ElemStr(st, v, devs)])
RECURSIVE StrOK(_, _)
StrOK(st, v) == CASE v.k = "ref" -> \A i \in 1..Len(st[v.id]) : StrOK(st, st[v.id][i])
                  [] v.k = "num" -> NumTextOK(v.w)
                  [] OTHER -> JS!ToStrSupported(v)

\* code-unit order (ES) and code-point order (Dev_CodePoints: the engine's strings are code-point sequences)
RECURSIVE ULess(_, _)
ULess(x, y) == IF y = <<>> THEN FALSE ELSE IF x = <<>> THEN TRUE
               ELSE IF x[1] # y[1] THEN x[1] < y[1] ELSE ULess(Tail(x), Tail(y))
RECURSIVE ToCP(_)
ToCP(u) == IF u = <<>> THEN <<>>
           ELSE IF Len(u) >= 2 /\ u[1] >= 55296 /\ u[1] <= 56319 /\ u[2] >= 56320 /\ u[2] <= 57343
                THEN <<65536 + (u[1] - 55296) * 1024 + (u[2] - 56320)>> \o ToCP(SubSeq(u, 3, Len(u)))
                ELSE <<u[1]>> \o ToCP(Tail(u))
StrLess(x, y, devs) == IF "Dev_CodePoints" \in devs THEN ULess(ToCP(x), ToCP(y)) ELSE ULess(x, y)

SetLen(arr, n) == IF n <= Len(arr) THEN SubSeq(arr, 1, n) ELSE arr \o [i \in 1..(n - Len(arr)) |-> Undef]

\* ---- methods without callbacks ---------------------------------------------------------------
PushM(st, r, a) == LET new == st[r] \o a IN R(ValOut(VInt(Len(new))), [st EXCEPT ![r] = new])
PopM(st, r) == LET arr == st[r]
               IN IF arr = <<>> THEN R(ValOut(Undef), st)
                  ELSE R(ValOut(arr[Len(arr)]), [st EXCEPT ![r] = SubSeq(arr, 1, Len(arr) - 1)])
ShiftM(st, r) == LET arr == st[r]
                 IN IF arr = <<>> THEN R(ValOut(Undef), st) ELSE R(ValOut(arr[1]), [st EXCEPT ![r] = Tail(arr)])
UnshiftM(st, r, a) == LET new == a \o st[r] IN R(ValOut(VInt(Len(new))), [st EXCEPT ![r] = new])
ReverseM(st, r) == LET arr == st[r]
                   IN R(ValOut(Ref(r)), [st EXCEPT ![r] = [i \in 1..Len(arr) |-> arr[Len(arr) + 1 - i]]])
ConcatM(st, r, a) ==
  R(ValOut(VArr(st[r] \o Flatten([i \in 1..Len(a) |-> IF IsRef(a[i]) THEN st[a[i].id] ELSE <<a[i]>>]))), st)
JoinM(st, r, a, devs) ==
  LET sepv == Arg(a, 1)
      sep == IF Len(a) = 0 THEN <<44>>
             ELSE IF IsUndef(sepv) /\ "Dev_JoinSep" \notin devs THEN <<44>> ELSE JS!ToStrU(sepv)
  IN R(ValOut(VStr(JoinU(st, st[r], sep, devs))), st)
ToStringM(st, r, devs) == R(ValOut(VStr(JoinU(st, st[r], <<44>>, devs))), st)
SliceM(st, r, a, devs) ==
  LET arr == st[r]  len == Len(arr)
      err == IntArgErr(SubSeq(a, 1, Min(Len(a), 2)), devs)
      k == RelIdx(ToInt(Arg(a, 1)), len)
      fin == IF IsUndef(Arg(a, 2)) THEN len ELSE RelIdx(ToInt(Arg(a, 2)), len)
  IN IF err # "" THEN R(HostOut(err), st) ELSE R(ValOut(VArr(Slice(arr, k, fin))), st)
SpliceM(st, r, a, devs) ==
  LET arr == st[r]  len == Len(arr)
      err == IntArgErr(SubSeq(a, 1, Min(Len(a), 2)), devs)
      start == RelIdx(ToInt(Arg(a, 1)), len)
      dc == IF Len(a) = 0 THEN (IF "Dev_SpliceNoArgs" \in devs THEN len ELSE 0)
            ELSE IF Len(a) = 1 THEN len - start
            ELSE Clamp(ToInt(a[2]), 0, len - start)
      items == SubSeq(a, 3, Len(a))
      new == Slice(arr, 0, start) \o items \o Slice(arr, start + dc, len)
  IN IF err # "" THEN R(HostOut(err), st)
     ELSE R(ValOut(VArr(Slice(arr, start, start + dc))), [st EXCEPT ![r] = new])
IndexOfM(m, st, r, a, devs) ==              \* indexOf / includes
  LET arr == st[r]  len == Len(arr)  x == Arg(a, 1)
      err == IntArgErr(SubSeq(a, 2, Min(Len(a), 2)), devs)
      k0 == RelIdx(ToInt(Arg(a, 2)), len)                 \* missing -> undefined -> 0;  +Inf -> len, -Inf -> 0
      S == {i \in k0..(len - 1) : EqFor(m, arr[i + 1], x, devs)}
      first == IF S = {} THEN -1 ELSE CHOOSE i \in S : \A j \in S : i <= j
  IN IF err # "" THEN R(HostOut(err), st)
     ELSE R(ValOut(IF m = "includes" THEN VBool(first # -1) ELSE VInt(first)), st)
LastIndexOfM(st, r, a, devs) ==
  LET arr == st[r]  len == Len(arr)  x == Arg(a, 1)
      err == IntArgErr(SubSeq(a, 2, Min(Len(a), 2)), devs)
      n == IF Len(a) >= 2 THEN ToInt(a[2]) ELSE len - 1
      k0 == IF n >= 0 THEN Min(n, len - 1) ELSE len + n     \* -Inf -> very negative -> empty range
      S == {i \in 0..k0 : EqFor("lastIndexOf", arr[i + 1], x, devs)}
      last == IF S = {} THEN -1 ELSE CHOOSE i \in S : \A j \in S : i >= j
  IN IF err # "" THEN R(HostOut(err), st) ELSE R(ValOut(VInt(last)), st)
LengthM(st, r) == R(ValOut(VInt(Len(st[r]))), st)
\* a.length = v  (the value of the assignment expression is v)
\* ES ArraySetLength: ToUint32(v) must equal ToNumber(v), else RangeError; the documented mode extends with undefined
ValidLen(v) == LET w == JS!ToNumberW(v) IN WIsSmallInt(w) /\ WTruncClamp(w) >= 0
SetLengthM(st, r, a, devs) ==
  LET arr == st[r]  v == Arg(a, 1)  n == ToInt(v)
  IN IF "Dev_LengthAssign" \in devs
     THEN \* int(to_number(v)); shorter: Python slice elements[:n] (negative n counts from the end); else extend
          IF IntErr(v) # "" THEN R(HostOut(IntErr(v)), st)
          ELSE LET new == IF n < Len(arr) THEN (IF n >= 0 THEN SubSeq(arr, 1, n) ELSE SubSeq(arr, 1, Max(Len(arr) + n, 0)))
                          ELSE SetLen(arr, n)
               IN R(ValOut(v), [st EXCEPT ![r] = new])
     ELSE IF ~ValidLen(v) THEN R(ErrOut("RangeError"), st)
     ELSE R(ValOut(v), [st EXCEPT ![r] = SetLen(arr, n)])
\* a[k] for a number key
IsIndexKey(kv) == kv.k = "num" /\ WIsSmallInt(kv.w) /\ WTruncClamp(kv.w) >= 0
GetIndexM(st, r, a) ==
  LET arr == st[r]  kv == Arg(a, 1)
  IN R(ValOut(IF IsIndexKey(kv) /\ WTruncClamp(kv.w) < Len(arr) THEN arr[WTruncClamp(kv.w) + 1] ELSE Undef), st)
\* a[k] = v for an integer key k >= 0: replace, append at length, error further out (class not documented)
SetIndexM(st, r, a, devs) ==
  LET arr == st[r]  i == WTruncClamp(a[1].w)  v == a[2]
  IN IF i < Len(arr) THEN R(ValOut(v), [st EXCEPT ![r] = [arr EXCEPT ![i + 1] = v]])
     ELSE IF i = Len(arr) THEN R(ValOut(v), [st EXCEPT ![r] = Append(arr, v)])
     ELSE IF "Dev_OobWriteSilent" \in devs THEN R(ValOut(v), st)       \* stored as a hidden named property
     ELSE R(ErrOut("any"), st)

\* ---- scripted responders ---------------------------------------------------------------------
\* cbk = [kind |-> "fn" | "none" | "val" | "na", v |-> non-callable value, tab |-> <<entry>>, dflt |-> entry,
\*        this |-> thisArg, hasThis |-> BOOLEAN]
\* entry = [act |-> "ret" | "throw" | "push" | "pop" | "len", v |-> returned / thrown value, x |-> pushed value, n |-> new length]
\* iteration state S = [store, log, n, ret, thr (outcome of a throw, or <<>>), acc, mut, frozen, isFrozen]
S0(st, acc) == [store |-> st, log |-> <<>>, n |-> 0, ret |-> Undef, thr |-> <<>>, acc |-> acc,
                mut |-> FALSE, frozen |-> <<>>, isFrozen |-> FALSE]
Invoke(S, r, cbk, cargs, thisv) ==
  IF cbk.kind # "fn" THEN [S EXCEPT !.thr = <<ErrOut("TypeError")>>]         \* calling a non-callable
  ELSE
  LET n == S.n + 1
      e == IF n <= Len(cbk.tab) THEN cbk.tab[n] ELSE cbk.dflt
      old == S.store[r]
      new == CASE e.act = "push" -> Append(old, e.x)
               [] e.act = "pop" -> IF old = <<>> THEN old ELSE SubSeq(old, 1, Len(old) - 1)
               [] e.act = "len" -> SetLen(old, e.n)
               [] OTHER -> old
      detach == e.act = "len" /\ e.n < Len(old) /\ ~S.isFrozen         \* as-is: truncation replaces the Python list
  IN [S EXCEPT !.store = [S.store EXCEPT ![r] = new],
               !.log = Append(S.log, [n |-> n, this |-> thisv, args |-> cargs]),
               !.n = n, !.ret = e.v,
               !.thr = IF e.act = "throw" THEN <<ThrownOut(e.v)>> ELSE <<>>,
               !.mut = S.mut \/ e.act \in {"push", "pop", "len"},
               !.frozen = IF detach THEN old ELSE S.frozen,
               !.isFrozen = S.isFrozen \/ detach]
ThisFor(cbk, devs) == IF cbk.hasThis /\ "Dev_ThisArgIgnored" \notin devs THEN cbk.this ELSE Undef
\* (a throw inside a callback used to be the opaque deviation Dev_CallbackThrow; repaired upstream, it is judged exactly now)
Fin(S, out) == [out |-> out, alt |-> <<>>, store |-> S.store, log |-> S.log, perm |-> "", opaque |-> ""]

IterMethods == {"forEach", "map", "filter", "find", "findIndex", "some", "every"}
\* the result when the iteration ran to the end
EndOut(m, S, len) ==
  CASE m = "forEach" -> ValOut(Undef)     [] m = "map" -> ValOut(VArr(S.acc))
    [] m = "filter" -> ValOut(VArr(S.acc)) [] m = "find" -> ValOut(Undef)
    [] m = "findIndex" -> ValOut(VInt(-1)) [] m = "some" -> ValOut(VBool(FALSE))
    [] m = "every" -> ValOut(VBool(TRUE))
\* one visit: returns <<"stop", out>> or <<"go", S'>>
Visit(m, S, r, k, v, cbk, thisv) ==
  LET S1 == Invoke(S, r, cbk, <<v, VInt(k), Ref(r)>>, thisv)
      t == ToBool(S1.ret)
  IN IF S1.thr # <<>> THEN <<"stop", S1, S1.thr[1]>>
     ELSE CASE m = "map" -> <<"go", [S1 EXCEPT !.acc = Append(@, S1.ret)]>>
            [] m = "filter" -> <<"go", IF t THEN [S1 EXCEPT !.acc = Append(@, v)] ELSE S1>>
            [] m = "find" -> IF t THEN <<"stop", S1, ValOut(v)>> ELSE <<"go", S1>>
            [] m = "findIndex" -> IF t THEN <<"stop", S1, ValOut(VInt(k))>> ELSE <<"go", S1>>
            [] m = "some" -> IF t THEN <<"stop", S1, ValOut(VBool(TRUE))>> ELSE <<"go", S1>>
            [] m = "every" -> IF ~t THEN <<"stop", S1, ValOut(VBool(FALSE))>> ELSE <<"go", S1>>
            [] OTHER -> <<"go", S1>>
\* ECMA-262: len is read once; index k is visited iff it is still present (find/findIndex visit every k < len)
RECURSIVE RefIter(_, _, _, _, _, _, _)
RefIter(m, S, r, k, len, cbk, thisv) ==
  IF k >= len THEN
     LET res == Fin(S, EndOut(m, S, len))
     IN IF m = "map" /\ Len(S.acc) < len                      \* trailing indexes vanished: holes in ES; dense engines
        THEN [res EXCEPT !.alt = <<ValOut(VArr(SetLen(S.acc, len)))>>]   \* may drop them or read them as undefined
        ELSE res
  ELSE LET arr == S.store[r]  present == k < Len(arr)
       IN IF ~present /\ m \notin {"find", "findIndex"} THEN RefIter(m, S, r, k + 1, len, cbk, thisv)
          ELSE LET vis == Visit(m, S, r, k, IF present THEN arr[k + 1] ELSE Undef, cbk, thisv)
               IN IF vis[1] = "stop" THEN Fin(vis[2], vis[3]) ELSE RefIter(m, vis[2], r, k + 1, len, cbk, thisv)
\* Dev_LiveIteration: `for i, elem in enumerate(arr._elements)` walks the live Python list: elements pushed during
\* the iteration are visited, a pop ends it early, and `length = n` (truncation) replaces the list so the loop
\* goes on over the detached old one
RECURSIVE LiveIter(_, _, _, _, _, _)
LiveIter(m, S, r, k, cbk, thisv) ==
  LET cur == IF S.isFrozen THEN S.frozen ELSE S.store[r]
  IN IF k >= Len(cur) \/ k > 40 THEN Fin(S, EndOut(m, S, 0))
     ELSE LET vis == Visit(m, S, r, k, cur[k + 1], cbk, thisv)
          IN IF vis[1] = "stop" THEN Fin(vis[2], vis[3]) ELSE LiveIter(m, vis[2], r, k + 1, cbk, thisv)
DefaultOut(m) == CASE m \in {"map", "filter"} -> ValOut(VArr(<<>>))  [] OTHER -> EndOut(m, [acc |-> <<>>], 0)
IterM(m, st, r, cbk, devs) ==
  LET thisv == ThisFor(cbk, devs)
      S == S0(st, <<>>)
  IN IF cbk.kind # "fn" /\ "Dev_NoCallbackCheck" \notin devs THEN R(ErrOut("TypeError"), st)
     ELSE IF cbk.kind = "none" \/ (cbk.kind = "val" /\ PyFalsy(cbk.v)) THEN R(DefaultOut(m), st)     \* as-is
     ELSE IF "Dev_LiveIteration" \in devs THEN LiveIter(m, S, r, 0, cbk, thisv)
     ELSE RefIter(m, S, r, 0, Len(st[r]), cbk, thisv)

\* reduce / reduceRight (dir = 1 / -1); a = <<>> or <<initialValue>>
RECURSIVE RedIter(_, _, _, _, _, _, _)
RedIter(S, r, k, stop, dir, cbk, devs) ==       \* k runs from its start towards stop (exclusive)
  IF k = stop THEN Fin(S, ValOut(S.acc))
  ELSE LET arr == S.store[r]  present == k < Len(arr)
       IN IF ~present THEN (IF "Dev_ReduceIndexError" \in devs THEN Fin(S, HostOut("IndexError"))   \* arr._elements[i]
                            ELSE RedIter(S, r, k + dir, stop, dir, cbk, devs))
          ELSE LET S1 == Invoke(S, r, cbk, <<S.acc, arr[k + 1], VInt(k), Ref(r)>>, Undef)
               IN IF S1.thr # <<>> THEN Fin(S1, S1.thr[1])
                  ELSE RedIter([S1 EXCEPT !.acc = S1.ret], r, k + dir, stop, dir, cbk, devs)
ReduceM(m, st, r, a, cbk, devs) ==
  LET arr == st[r]  len == Len(arr)
      dir == IF m = "reduce" THEN 1 ELSE -1
      first == IF dir = 1 THEN 0 ELSE len - 1
      stop == IF dir = 1 THEN len ELSE -1
      hasInit == Len(a) >= 1 /\ ~(IsUndef(a[1]) /\ "Dev_ReduceUndefInit" \in devs)
  IN IF cbk.kind # "fn" /\ ("Dev_NoCallbackCheck" \notin devs \/ cbk.kind = "none" \/ PyFalsy(cbk.v))
        THEN R(ErrOut("TypeError"), st)
     ELSE IF hasInit THEN RedIter(S0(st, a[1]), r, first, stop, dir, cbk, devs)
     ELSE IF len = 0 THEN R(ErrOut("TypeError"), st)
     ELSE RedIter(S0(st, arr[first + 1]), r, first + dir, stop, dir, cbk, devs)

\* ---- sort -------------------------------------------------------------------------------------
\* comparator kinds (the driver has the JavaScript text of each; elements are small non-negative integers there):
\*   consistent: "num" a-b, "rev" b-a, "mod3" a%3-b%3 (ties), "quarter" (a-b)/4 (fractional results)
\*   inconsistent / ill-typed: "one" 1, "neg" -1, "nan" NaN, "str" "x", "alt" alternating sign, "undef" undefined (= 0)
ConsistentCmp == {"num", "rev", "mod3", "quarter", "undef"}
InconsistentCmp == {"one", "neg", "nan", "str", "alt"}
IntOf(v) == WTruncClamp(v.w)
\* sign of the comparator on two elements (never undefined): < 0, 0, > 0
CmpSign(kind, st, x, y, devs) ==
  CASE kind = "default" -> LET xs == ElemStr(st, x, devs)  ys == ElemStr(st, y, devs)
                           IN IF StrLess(xs, ys, devs) THEN -1 ELSE IF StrLess(ys, xs, devs) THEN 1 ELSE 0
    [] kind \in {"num", "quarter"} -> IntOf(x) - IntOf(y)
    [] kind = "rev" -> IntOf(y) - IntOf(x)
    [] kind = "mod3" -> (IntOf(x) % 3) - (IntOf(y) % 3)
    [] OTHER -> 0                                              \* "undef": undefined -> NaN -> +0: all equal
\* stable insertion sort: x goes after every element that is <= x
RECURSIVE InsertSorted(_, _, _, _, _)
InsertSorted(kind, st, sorted, x, devs) ==
  IF sorted = <<>> THEN <<x>>
  ELSE LET lastv == sorted[Len(sorted)]
       IN IF CmpSign(kind, st, lastv, x, devs) <= 0 THEN Append(sorted, x)
          ELSE Append(InsertSorted(kind, st, SubSeq(sorted, 1, Len(sorted) - 1), x, devs), lastv)
RECURSIVE StableSort(_, _, _, _)
StableSort(kind, st, xs, devs) ==
  IF xs = <<>> THEN <<>>
  ELSE InsertSorted(kind, st, StableSort(kind, st, SubSeq(xs, 1, Len(xs) - 1), devs), xs[Len(xs)], devs)
SortM(st, r, cbk, devs) ==
  LET arr == st[r]
      defs == SelectSeq(arr, LAMBDA v : v.k # "undef")
      nund == Len(arr) - Len(defs)
      kind == IF cbk.kind = "fn" THEN cbk.cmp ELSE "default"
      sorted == StableSort(kind, st, defs, devs) \o [i \in 1..nund |-> Undef]
      res == R(ValOut(Ref(r)), [st EXCEPT ![r] = sorted])
  IN IF cbk.kind = "val" /\ ~IsUndef(cbk.v) /\ "Dev_NoCallbackCheck" \notin devs THEN R(ErrOut("TypeError"), st)
     ELSE IF kind \in InconsistentCmp \/ (kind = "quarter" /\ "Dev_SortCmpInt" \in devs)
          THEN \* implementation-defined order: any permutation with undefined last (judged as such);
               \* Dev_SortCmpInt: int(NaN) raises a host ValueError out of list.sort (the list stays a permutation)
               IF kind \in {"nan", "str"} /\ "Dev_SortCmpInt" \in devs /\ Len(defs) >= 2
               THEN [R(HostOut("ValueError"), st) EXCEPT !.perm = "any"]        \* wherever list.sort was interrupted
               ELSE [res EXCEPT !.perm = "last"]
     ELSE res
\* multiset equality (every class of the original occurs equally often; equal lengths exclude strangers)
IsPerm(before, after) ==
  /\ Len(before) = Len(after)
  /\ \A i \in 1..Len(before) : Cardinality({j \in 1..Len(before) : SameX(before[j], before[i])})
                                = Cardinality({j \in 1..Len(after) : SameX(after[j], before[i])})
IsPermUndefLast(before, after) ==
  /\ IsPerm(before, after)
  /\ \A i, j \in 1..Len(after) : (i < j /\ after[i].k = "undef") => after[j].k = "undef"

\* ---- dispatch ------------------------------------------------------------------------------------
CbMethods == IterMethods \cup {"reduce", "reduceRight"}
PlainMethods == {"push", "pop", "shift", "unshift", "reverse", "concat", "join", "toString", "slice", "splice",
                 "indexOf", "lastIndexOf", "includes", ".length", ".length=", "[]", "[]="}
Methods == PlainMethods \cup CbMethods \cup {"sort"}
FreshMethods == {"concat", "slice", "splice", "map", "filter"}        \* return a new array
SelfMethods == {"reverse", "sort"}                                    \* return the receiver itself
Call(m, st, r, a, cbk, devs) ==
  CASE m = "push" -> PushM(st, r, a)             [] m = "pop" -> PopM(st, r)
    [] m = "shift" -> ShiftM(st, r)              [] m = "unshift" -> UnshiftM(st, r, a)
    [] m = "reverse" -> ReverseM(st, r)          [] m = "concat" -> ConcatM(st, r, a)
    [] m = "join" -> JoinM(st, r, a, devs)       [] m = "toString" -> ToStringM(st, r, devs)
    [] m = "slice" -> SliceM(st, r, a, devs)     [] m = "splice" -> SpliceM(st, r, a, devs)
    [] m \in {"indexOf", "includes"} -> IndexOfM(m, st, r, a, devs)
    [] m = "lastIndexOf" -> LastIndexOfM(st, r, a, devs)
    [] m = ".length" -> LengthM(st, r)           [] m = ".length=" -> SetLengthM(st, r, a, devs)
    [] m = "[]" -> GetIndexM(st, r, a)           [] m = "[]=" -> SetIndexM(st, r, a, devs)
    [] m \in IterMethods -> IterM(m, st, r, cbk, devs)
    [] m \in {"reduce", "reduceRight"} -> ReduceM(m, st, r, a, cbk, devs)
    [] m = "sort" -> SortM(st, r, cbk, devs)

\* ---- which cases this module specifies ---------------------------------------------------------
RECURSIVE Acyclic(_, _, _)
Acyclic(st, id, fuel) == fuel > 0 /\ \A i \in 1..Len(st[id]) : (IsRef(st[id][i]) => Acyclic(st, st[id][i].id, fuel - 1))
ElemOK(st, v) == (IsRef(v) /\ v.id \in 1..Len(st)) \/ (v.k \in PrimKinds)
StoreOK(st) == \A i \in 1..Len(st) : \A j \in 1..Len(st[i]) : ElemOK(st, st[i][j])
IdxArgOK(v) == v.k \in {"undef", "null", "bool", "num", "str"} /\ JS!ConvSupported(v)
Supported(m, st, r, a, cbk) ==
  /\ StoreOK(st) /\ r \in 1..Len(st) /\ \A i \in 1..Len(a) : ElemOK(st, a[i])
  /\ (m \in {"join", "toString"} => Acyclic(st, r, 4) /\ StrOK(st, Ref(r)) /\ (Len(a) >= 1 => JS!ToStrSupported(a[1])))
  /\ (m \in {"slice", "splice"} => \A i \in 1..Min(Len(a), 2) : IdxArgOK(a[i]))
  /\ (m \in {"indexOf", "lastIndexOf", "includes"} => Len(a) <= 2 /\ (Len(a) = 2 => IdxArgOK(a[2])))
  /\ (m = ".length=" => Len(a) = 1 /\ IdxArgOK(a[1])      \* never a huge valid length: the engine would allocate it
                        /\ (WIsInf(JS!ToNumberW(a[1])) \/ WIsNaN(JS!ToNumberW(a[1]))
                            \/ (ToInt(a[1]) <= Len(st[r]) + 8 /\ ToInt(a[1]) >= -64)))
  /\ (m = "[]" => Len(a) = 1 /\ a[1].k = "num" /\ (WIsSmallInt(a[1].w) \/ WIsNaN(a[1].w) \/ WIsInf(a[1].w) \/ IsHalfW(a[1].w)))
  /\ (m = "[]=" => Len(a) = 2 /\ IsIndexKey(a[1]))
  /\ (m \in CbMethods \cup {"sort"} => cbk.kind \in {"fn", "none", "val"})
  /\ (m = "sort" => Acyclic(st, r, 4) /\ (cbk.kind = "fn" => cbk.cmp \in ConsistentCmp \cup InconsistentCmp)
                    /\ IF cbk.kind = "fn" /\ cbk.cmp \notin {"undef", "one", "neg", "nan", "str", "alt"}
                       THEN \A i \in 1..Len(st[r]) : st[r][i].k = "undef" \/ (st[r][i].k = "num" /\ WIsSmallInt(st[r][i].w) /\ IntOf(st[r][i]) >= 0)
                       ELSE StrOK(st, Ref(r)))
\* ---- element access BY PROPERTY KEY (family K; added in round 3, nothing above is changed) ------------------------
\* a[k] and a[k] = v take ANY key value: the property name is ToPropertyKey(k) = ToString(k) for a primitive.  Only the
\* canonical decimal text of a non-negative integer names an element ("1", the number 1, -0); true / false / null / undefined /
\* "x" / "01" / "-1" / 1.5 / NaN name ordinary properties and never touch the elements.
\* key state ks = [el |-> elements, pr |-> <<[n |-> name (code units), v |-> value]>> (own named properties, creation order)]
KeyU(kv) == IF kv.k = "num" THEN NumTextX(kv.w) ELSE JS!ToStrU(kv)
KeyOK(kv) == kv.k \in {"undef", "null", "bool", "str"} \/ (kv.k = "num" /\ NumTextOK(kv.w))
RECURSIVE DigVal(_)
DigVal(u) == IF u = <<>> THEN 0 ELSE DigVal(SubSeq(u, 1, Len(u) - 1)) * 10 + (u[Len(u)] - 48)
KeyIndex(u) == IF u # <<>> /\ Len(u) <= 9 /\ (\A i \in 1..Len(u) : u[i] \in 48..57) /\ (Len(u) = 1 \/ u[1] # 48) THEN DigVal(u) ELSE -1
\* names whose lookup is not an own data property of the array (length, the methods): not enumerated
ReservedKey(u) == u \in {U("length"), U("push"), U("pop"), U("join"), U("toString"), U("constructor"), U("__proto__")}
\* the engine's array mode refuses to create a property whose name is the text of a number that is not an index
\* (NaN, the infinities, 1.5): "stricter mode" by its own comments; ECMA-262 creates the property.  Both are accepted.
StrictRejectKey(kv) == kv.k = "num" /\ (WIsNaN(kv.w) \/ WIsInf(kv.w) \/ ~WIsSmallInt(kv.w))
PropGet(pr, u) == LET S == {i \in 1..Len(pr) : pr[i].n = u} IN IF S = {} THEN Undef ELSE pr[CHOOSE i \in S : TRUE].v
PropSet(pr, u, v) == IF \E i \in 1..Len(pr) : pr[i].n = u THEN [i \in 1..Len(pr) |-> IF pr[i].n = u THEN [n |-> u, v |-> v] ELSE pr[i]]
                     ELSE Append(pr, [n |-> u, v |-> v])
KeyGet(kv, ks) == LET u == KeyU(kv)  i == KeyIndex(u)
                  IN IF i >= 0 THEN (IF i < Len(ks.el) THEN ks.el[i + 1] ELSE Undef) ELSE PropGet(ks.pr, u)
KR(out, ks) == [out |-> out, ks |-> ks]
\* ev = [op |-> "get" | "set", k |-> key value, v |-> stored value]  ->  the sequence of acceptable [out, ks] (the first is ECMA-262)
KeyStep(ev, ks) ==
  LET u == KeyU(ev.k)  i == KeyIndex(u)  len == Len(ks.el)
  IN IF ev.op = "get" THEN <<KR(ValOut(KeyGet(ev.k, ks)), ks)>>
     ELSE IF i >= 0 THEN (IF i < len THEN <<KR(ValOut(ev.v), [ks EXCEPT !.el = [ks.el EXCEPT ![i + 1] = ev.v]])>>
                          ELSE IF i = len THEN <<KR(ValOut(ev.v), [ks EXCEPT !.el = Append(ks.el, ev.v)])>>
                          ELSE <<KR(ErrOut("any"), ks)>>)                      \* stricter mode: an error further out, nothing changes
     ELSE <<KR(ValOut(ev.v), [ks EXCEPT !.pr = PropSet(ks.pr, u, ev.v)])>>
          \o (IF StrictRejectKey(ev.k) THEN <<KR(ErrOut("any"), ks)>> ELSE <<>>)
KeyEvOK(ev) == KeyOK(ev.k) /\ ~ReservedKey(KeyU(ev.k)) /\ ev.op \in {"get", "set"}
RECURSIVE KeyRunRef(_, _, _)
KeyRunRef(evs, k, ks) == IF k > Len(evs) THEN ks ELSE KeyRunRef(evs, k + 1, KeyStep(evs[k], ks)[1].ks)
=============================================================================
