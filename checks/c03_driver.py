"""C03 driver: internal-name vs fresh-name pairs, observable-value kinds, returned values."""
import glob, os, json, inspect
from harness import wire

RECV = {
    "number": "1.5", "string": "'str'", "boolean": "true", "null": "null", "undefined": "undefined",
    "object": "({a:1})", "array": "[1,2]", "typedarray": "new Int32Array(2)", "arraybuffer": "new ArrayBuffer(4)",
    "function": "(function fn(a){ return a })", "boundfn": "(function(){ return 1 }).bind(null)",
    "nativemethod": "[].push", "constructor": "Object", "regex": "/a/g", "error": "new Error('x')",
    "arguments": "(function(){ return arguments })(1,2)", "Math": "Math", "JSON": "JSON", "hostfn": "hostfn",
    "protoless": "Object.create(null)", "arrow": "(() => 1)", "stringmethod": "'s'.charAt",
}
FORMS = {
    "read": "R[n]", "call": "R[n]()", "write_read": "(R[n] = 5, R[n])", "delete": "delete R[n]", "in": "n in R",
    "forin": "(function(){ var ks=[]; for (var k in R) ks.push(k); return ks.indexOf(n) })()",
    "keys": "Object.keys(R).indexOf(n)", "stringify": "JSON.stringify(R)", "typeof": "typeof R[n]",
    "instanceof": "R[n] instanceof Object", "new": "new R[n]()", "as_prototype": "Object.create(R)[n]",
    "hasOwn": "R.hasOwnProperty(n)", "getOwnDesc": "typeof Object.getOwnPropertyDescriptor(R, n)",
    "compound": "(R[n] += 1, typeof R[n])", "update": "(R[n]++, typeof R[n])",
    "defineProperty": "(Object.defineProperty(R, n, {get: function(){ return 7 }}), R[n])",
}
CALL_FORMS = {"call", "new"}
MASK = "«NAME»"


def harvest():
    """every attribute name of every class of the engine, instance attributes of live objects, the dunder vocabulary"""
    import microjs, microjs.values as V, microjs.vm as VM, microjs.context as C, microjs.compiler as K
    names = set()
    for mod in (V, VM, C, K):
        for _, cls in inspect.getmembers(mod, inspect.isclass):
            if getattr(cls, "__module__", "").startswith("microjs"):
                names.update(dir(cls))
                names.update(getattr(cls, "__annotations__", {}).keys())
    ctx = microjs.Context()
    probe = ctx.eval
    for expr in RECV.values():
        if expr == "hostfn":
            continue
        box = []
        ctx.set("__grab", lambda v: box.append(v))
        try:
            ctx.eval("__grab(%s)" % expr)
        except Exception:
            continue
        for v in box:
            names.update(getattr(v, "__dict__", {}).keys())
            names.update(dir(v))
    names.update(dir(object)); names.update(dir(type)); names.update(dir(lambda: 0)); names.update(dir(ctx))
    names.update(["__globals__", "__builtins__", "__code__", "__closure__", "__subclasses__", "__mro__", "__bases__",
                  "__import__", "__loader__", "__spec__", "__file__", "func_globals", "gi_frame", "f_globals", "f_back",
                  "bytecode", "constants", "co_consts", "mro", "im_func", "__self__", "__func__", "__wrapped__"])
    return sorted(n for n in names if isinstance(n, str) and n)


def project(out, name):
    """what a script (or the embedder) can observe of an outcome, with the property name masked"""
    def mask(s):
        return s.replace(name, MASK)
    if out["o"] == "value":
        v = out["v"]
        k = v["k"]
        if k in ("num", "bool", "undef", "null"):
            p = wire.show(v)
        elif k == "str":
            p = mask(wire.from_units(v["u"]))
        elif k == "arr":
            p = "arr%d" % len(v["e"])
        else:
            p = ""
        return {"o": "value", "k": k, "p": p}
    if out["o"] == "throw":
        return {"o": "throw", "k": out["cls"], "p": ""}
    # host exception: only its type is compared (the site string may contain the property name by coincidence)
    return {"o": out["o"], "k": out.get("type", "none") if out["o"] == "host" else "none", "p": ""}


ERRCLS = ("function __cls(e){ if (e instanceof TypeError) return 'TypeError'; if (e instanceof ReferenceError) return 'ReferenceError';"
          " if (e instanceof RangeError) return 'RangeError'; if (e instanceof SyntaxError) return 'SyntaxError';"
          " if (e instanceof Error) return 'Error'; return 'thrown-value' }")


def run_form(api, recv, form, name):
    ctx = api.new_context(time_limit=5.0)
    calls = []
    ctx.set("hostfn", lambda *a: (calls.append([wire.to_wire(x)["k"] for x in a]), 1)[1])
    got = []
    ctx.set("__out", lambda *a: (got.append(a), None)[1])
    ctx.set("n", name)
    if form == "read_dot":
        expr = "R.%s" % name
    else:
        expr = FORMS[form]
    src = ERRCLS + " var R = %s; try { __out('v', %s) } catch (e) { __out('t', __cls(e)) }" % (RECV[recv], expr)
    out = api.eval_outcome(ctx, src, wall=20.0, cap=500_000)
    if out["o"] == "value":
        if len(got) != 1:
            out = {"o": "host", "type": "NoOutcome", "where": "driver"}
        elif got[0][0] == "v":
            out = {"o": "value", "v": wire.to_wire(got[0][1])}
        else:
            out = {"o": "throw", "cls": str(got[0][1])}
    bad_args = [k for c in calls for k in c if k in ("hostval",)]
    return out, len(calls), bad_args


def is_ident(s):
    import re
    return re.match(r"^[A-Za-z_$][A-Za-z0-9_$]*$", s) is not None and s not in (
        "class", "new", "delete", "in", "typeof", "var", "function", "return", "this", "null", "true", "false", "if", "else",
        "for", "while", "do", "break", "continue", "switch", "case", "default", "throw", "try", "catch", "finally",
        "instanceof", "void", "with", "debugger", "const", "let", "enum", "export", "import", "super", "extends", "yield",
        "static", "await", "async", "of", "get", "set")


def driver(case, api):
    k = case["kind"]
    if k == "harvest":
        return {"id": case["id"], "names": harvest()}
    if k == "pairs":
        recv, form = case["recv"], case["form"]
        res = []
        for i, name in enumerate(case["names"]):
            if form == "read_dot" and not is_ident(name):
                continue
            fresh = case["fresh"][i % len(case["fresh"])]
            a, ca, bad_a = run_form(api, recv, form, name)
            b, cb, bad_b = run_form(api, recv, form, fresh)
            res.append({"id": "%s|%s|%s" % (recv, form, name), "kind": "pair", "a": project(a, name), "b": project(b, fresh),
                        "hostcalls_a": ca, "hostcalls_b": cb, "calls_expected": (recv == "hostfn" and form in CALL_FORMS),
                        "bad_args": bad_a + bad_b})
        return res
    if k == "trace":
        # run a corpus script with an observer that classifies every value that becomes observable
        seen = {}
        V = __import__("microjs.values", fromlist=["x"])
        VMm = __import__("microjs.vm", fromlist=["x"])

        def kind_of(v):
            if isinstance(v, (VMm.ForInIterator, VMm.ForOfIterator)):
                return "hostval:iterator"
            w = wire.to_wire(v, depth=11)      # shallow
            return w["k"] if w["k"] != "hostval" else "hostval:" + w.get("t", "")

        def obs(kind, vm, op, arg, frame, _):
            if kind not in ("main", "cb"):
                return
            nm = op.name
            st = vm.stack
            vals = ()
            if nm in ("STORE_NAME", "STORE_LOCAL", "STORE_CELL", "STORE_CLOSURE", "RETURN", "THROW") and st:
                vals = (st[-1],)
            elif nm == "SET_PROP" and len(st) >= 3:
                vals = (st[-1], st[-2])
            elif nm in ("CALL", "NEW") and arg is not None and len(st) >= arg + 1:
                vals = tuple(st[len(st) - arg - 1:])
            elif nm == "CALL_METHOD" and arg is not None and len(st) >= arg + 2:
                vals = tuple(st[len(st) - arg - 2:])
            elif nm == "BUILD_ARRAY" and arg:
                vals = tuple(st[len(st) - arg:])
            elif nm == "BUILD_OBJECT" and arg:
                vals = tuple(st[len(st) - 3 * arg + 2::3])
            for v in vals:
                kk = kind_of(v)
                if (kk, nm) not in seen:
                    seen[(kk, nm)] = 1
        ctx = api.new_context(time_limit=20.0)
        ctx.set("hostfn", lambda *a: 1)
        orig = api.steps.reset

        def reset_and_hook(*a, **k2):
            orig(*a, **k2)
            api.steps.user = obs
        api.steps.reset = reset_and_hook
        try:
            out = api.eval_outcome(ctx, case["src"], wall=60.0, cap=3_000_000)
        finally:
            api.steps.reset = orig
            api.steps.user = None
        res = [{"id": case["id"], "kind": "trace", "seen": [{"k": a, "at": b} for (a, b) in sorted(seen)], "o": out["o"]}]
        if out["o"] == "value":
            res.append({"id": case["id"] + "#ret", "kind": "ret", "v": prune(out["v"])})
        return res
    if k == "ret_probe":
        # every receiver kind handed to the embedder through eval and through get, bare and nested
        res = []
        for name, expr in RECV.items():
            for form, src, getname in (("eval", "var G = %s; G" % expr, None), ("get", "var G = %s; 0" % expr, "G"),
                                       ("nested", "var G = %s; ({a: [G], b: G})" % expr, None)):
                ctx = api.Context(time_limit=5.0)
                ctx.set("hostfn", lambda *a: 1)
                try:
                    v = ctx.eval(src)
                    if getname:
                        v = ctx.get(getname)
                    w = embed_wire(v)
                except Exception as e:
                    w = {"k": "none"}       # an exception instead of a value: C04 judges its class, not C03
                res.append({"id": "ret:%s:%s" % (name, form), "kind": "ret", "v": embed_ok(prune(w))})
        return res
    if k == "call_grid":
        # every function-valued property found on the receiver (candidate names from the spec's list + harvest),
        # called with argument vectors over the value kinds: the kind of every result a script can hold
        recv = case["recv"]
        ARGS = ["undefined", "null", "1", "'ab'", "true", "({k:1})", "[1,2]", "(function(){ return 1 })", "-1", "'0'"]
        ctx = api.new_context(time_limit=10.0)
        ctx.set("hostfn", lambda *a: 1)
        kinds = {}
        ctx.set("__kind", lambda tag, v: (kinds.setdefault((tag, kind_name(v)), 1), None)[1])
        ctx.set("__names", list(case["names"]))
        src = ("var R = %s; var A = [%s]; var fns = []; for (var i=0;i<__names.length;i++) { var nm=__names[i]; var f; "
               "try { f = R[nm] } catch (e) { continue } if (typeof f === 'function') fns.push(nm) } "
               "for (var i=0;i<fns.length;i++) { var nm = fns[i]; "
               "for (var a=-1;a<A.length;a++) for (var b=-1;b<(a<0?0:A.length);b++) { "
               "var R2 = %s; try { var r = (a<0) ? R2[nm]() : (b<0) ? R2[nm](A[a]) : R2[nm](A[a], A[b]); __kind(nm, r) } catch (e) { __kind(nm, e) } } } fns.length"
               % (RECV[recv], ",".join(ARGS), RECV[recv]))
        out = api.eval_outcome(ctx, src, wall=60.0, cap=30_000_000)
        return [{"id": "callgrid:%s" % recv, "kind": "trace", "seen": [{"k": kk, "at": tag} for (tag, kk) in sorted(kinds)],
                 "o": out["o"], "nfns": out.get("v", {}).get("w") if out["o"] == "value" else None}]
    raise ValueError(k)


def kind_name(v):
    w = wire.to_wire(v, depth=11)
    return w["k"] if w["k"] != "hostval" else "hostval:" + w.get("t", "")


def embed_ok(w):
    return w


def embed_wire(v, depth=0):
    """classify a value handed to the embedder: JSON-like Python data, handles of JavaScript objects/functions, or
    an exposed host callable are fine; anything else (bytearray, interpreter structures, ...) is a host value"""
    import microjs.values as V
    if v is None:
        return {"k": "null"}
    if isinstance(v, (bool, int, float, str)):
        return wire.py_to_wire(v)
    if isinstance(v, (V.JSFunction, V.JSObject)) or v is V.UNDEFINED or v is V.NULL:
        return wire.to_wire(v, depth=10)
    if isinstance(v, list) and depth < 6:
        return {"k": "arr", "e": [embed_wire(x, depth + 1) for x in v[:8]]}
    if isinstance(v, dict) and depth < 6:
        if not all(isinstance(kk, str) for kk in v):
            return {"k": "hostval", "t": "dict with non-string key"}
        return {"k": "obj", "p": [{"n": wire.units(kk)[:20], "v": embed_wire(x, depth + 1)} for kk, x in list(v.items())[:8]]}
    if callable(v) and type(v).__name__ in ("function", "method", "builtin_function_or_method", "JSBoundMethod"):
        return {"k": "native"}
    return {"k": "hostval", "t": type(v).__name__}


def prune(w, depth=0):
    """keep returned structures small for the judge"""
    if w.get("k") == "arr":
        return {"k": "arr", "e": [prune(e, depth + 1) for e in w["e"][:8]]} if depth < 4 else {"k": "arr", "e": []}
    if w.get("k") == "obj":
        return {"k": "obj", "p": [{"n": p["n"][:20], "v": prune(p["v"], depth + 1)} for p in w["p"][:8]]} if depth < 4 else {"k": "obj", "p": []}
    if w.get("k") == "str":
        return {"k": "str", "u": w["u"][:30]}
    if w.get("k") == "tarr":
        return {"k": "tarr", "t": w["t"], "e": w["e"][:8]}
    return w
